"""Engine `codec` — properties C14 (no bytes can crash a node) and C15 (wire fidelity).

Lean side : lean/codec (Codec.Json / Wire / Handlers = model, Spec, Lemmas, Props, PropsEndpoints over the table
            Codec/GenEndpoints.lean regenerated from vlib.REPO by harness/cmd/ruextract-endpoints; Audit.lean;
            lean_exe codecdriver = model + tokenizer + SHA-256).
Go side   : harness/cmd/ruwire drives the REAL decoders, handlers, Blockchain.Update, access-node routes (gin) and a
            real TCP node of vlib.REPO against the model driver; harness/cmd/rudefects replays the D6 witnesses.
See ENGINE_CONTRACT.md.  The engine never prints VIOLATION and never writes evidence.
"""
import json
from concurrent.futures import ThreadPoolExecutor

import vlib

PKG = "codec"
NS = "Codec."
PKG_DIR = vlib.LEAN / PKG
GEN = PKG_DIR / "Codec" / "GenEndpoints.lean"

THEOREMS = {
    "C14": [NS + t for t in (
        "C14_decode_total", "C14_reward_shape_partial", "C14_reward_shape_counterexample", "C14_consumers_guarded",
        "C14_handlers_no_panic", "C14_handlers_bytes", "C14_access_trusted_answer_counterexample",
    )],
    "C15": [NS + t for t in (
        "C15_roundtrip", "C15_stable", "C15_stable_encode", "C15_stable_partial", "C15_stable_counterexample",
        "C15_stale_elements_example", "C15_long_hash_example", "C15_id_checked",
        "C15_render_injective", "C15_ids_bind", "C15_endpoints",
    )],
}
ENDPOINT_THEOREM = NS + "C15_endpoints"

MODES = {"C14": "fault,mutate,witness", "C15": "fidelity,tcp,broadcast,mutate,witness"}
WORKERS = 16

ASSUMPTIONS = [
    "crypto is a parameter of the model: pkOk/pkCanon = encryption.NewPublicKeyFromHex + String(), sigOk/sigCanon = "
    "encryption.DecodeSignature + String(), with the hypotheses Params.Good (the canonical rendering of an accepted "
    "string is accepted and is a fixed point); ruwire instantiates them with the answers of the REAL functions for "
    "every string of every message and checks the hypotheses on each (param_hypothesis_checks)",
    "SHA-256 is the parameter `hash` of the theorems (C15_ids_bind: under Function.Injective hash); the executable "
    "Codec.Sha256 of the driver is compared with crypto/sha256 on every id and block hash",
    "bytes -> JSON tree (encoding/json's scanner and unquote) is the trusted parameter `parse`; its executable instance "
    "Codec.Parse is compared with the real one by the mutation stream (outcome class, re-encoding, ids)",
    "a saved UnmarshalTypeError (decoding goes on, the error is returned at the end) is modelled as an immediate error: "
    "decoding has no side effect and, by C14_decode_total, no decoder path panics",
    "strings of the tree are valid Unicode (what encoding/json's unquote produces: ill-formed UTF-8 becomes U+FFFD)",
    "the ledger rules inside verify/verifyBlock/addTransaction are the core engine's subject: here they are an "
    "arbitrary oracle `reject`; the wire layer proves the guards and index expressions around them",
    "the access node trusts its own validator: C14 for the routes that read validator answers assumes those answers "
    "have no null entries (C14_access_trusted_answer_counterexample shows what happens otherwise: gin answers 500)",
    "protocol settings are trusted configuration: Blocks() is panic-free for len(blocks) + BlocksCountLimit < 2^64; "
    "ValidationTimestamp != 0 (the access node divides by it)",
    "golang-p2p (gob + RSA/AES framing), net, gin's router and recovery middleware, the Go scheduler: exercised "
    "(real TCP on loopback, real gin engine), not modelled",
    "C15_stable holds for values whose reward fields are Fresh; a key occurring twice can make the real decoder "
    "produce a non-Fresh transaction (C15_stable_counterexample, reproduced: finding stale-reward-fields)",
]

TRUSTED = [
    "Lean 4 kernel; axioms propext, Classical.choice, Quot.sound only (audited per theorem on every run)",
    "hand-written model lean/codec/Codec/{Json,Wire,Handlers}.lean, tied to the Go code by differential testing "
    "(ruwire); its strength is bounded by generator coverage, reported in the histograms",
    "harness/cmd/ruextract-endpoints (go/ast, fail-closed) producing Codec/GenEndpoints.lean",
    "harness/cmd/ruwire + harness/internal/node (Go): node assembly with fakes at the system boundary, fault placement, "
    "id / hash fix-ups through the real code, comparison logic",
    "lean_exe codecdriver: line protocol, tokenizer Codec.Parse, Codec.Sha256 (core Lean, no Mathlib)",
    "encoding/json, golang-p2p, gin, crypto libraries, Go runtime",
]


# ------------------------------------------------------------------ Lean

def _regenerate(ctx):
    """Run the extractor on vlib.REPO. Returns (text or None, error or None)."""
    ok, binary, log = vlib.go_build("ruextract-endpoints")
    if not ok:
        return None, "harness/cmd/ruextract-endpoints does not build: " + log[-1500:]
    out = ctx.work / "GenEndpoints.lean"
    rc, so, se = vlib.run([str(binary), "--repo", str(vlib.REPO), "--out", str(out)], timeout=120)
    if rc != 0 or not out.exists():
        return None, (se or so)[-1500:]
    return out.read_text(), None


def _lean(ctx):
    """Lean obligations of ctx.prop.  C15 regenerates the endpoint tables first.  Returns (lean, failures, generated, obligations)."""
    prop = ctx.prop
    failures, generated, obligations = [], [], []
    with vlib.flock("codec-gen"):
        committed = GEN.read_text() if GEN.exists() else ""
        wrote = False
        try:
            if prop == "C14":
                lean = vlib.lean_check(PKG, THEOREMS[prop], thorough=ctx.thorough, checker_modules=["Codec.Props"],
                                       audit_file="AuditProps.lean", build_targets=["Codec.Props", "Codec.PropsRender", "codecdriver"])
                return lean, vlib.lean_failures(prop, lean), generated, obligations
            text, err = _regenerate(ctx)
            generated.append({"file": "lean/codec/Codec/GenEndpoints.lean",
                              "from": [str(vlib.REPO / "validatornode" / x) for x in (
                                  "infrastructure/p2p/neighbor.go", "presentation/node.go", "presentation/api/host.go",
                                  "presentation/api/*/*_controller.go")],
                              "translator": "harness/cmd/ruextract-endpoints", "regenerated_this_run": text is not None,
                              "identical_to_previous_copy": (text == committed) if text is not None else None})
            obligations.append({"name": "extractor ruextract-endpoints accepts the sources (fail-closed)", "ok": text is not None})
            if text is None:
                failures.append(vlib.failure(
                    "table", "C15/extractor/endpoints",
                    "the endpoint tables cannot be regenerated from the current sources, so C15_endpoints is no longer "
                    "about the code: " + err, {"no_longer_checks": [ENDPOINT_THEOREM], "extractor_error": err}, False))
            elif text != committed:
                GEN.write_text(text)
                wrote = True
                ctx.log("GenEndpoints.lean differs from the committed copy; rebuilding")
            lean = vlib.lean_check(PKG, THEOREMS[prop], thorough=ctx.thorough,
                                   checker_modules=["Codec.Props", "Codec.PropsRender", "Codec.PropsEndpoints"])
            if not lean["built"] and text is not None:
                # is it only the theorem over the regenerated table?
                rest = vlib.lean_check(PKG, [t for t in THEOREMS[prop] if t != ENDPOINT_THEOREM], thorough=False,
                                       audit_file="AuditProps.lean", build_targets=["Codec.Props", "Codec.PropsRender", "codecdriver"])
                if rest["built"]:
                    log = lean["build_log_tail"]
                    rest["theorems"].append({"name": ENDPOINT_THEOREM, "axioms": None, "ok": False,
                                             "why": "no longer checks over the tables regenerated from the sources"})
                    rest["ok"] = False
                    rest["checker_cmd"] = lean["checker_cmd"]
                    lean = rest
                    failures.append(vlib.failure(
                        "table", "C15/endpoints/table-check-fails",
                        "C15_endpoints (decide over the tables regenerated from neighbor.go / node.go / host.go / the "
                        "controllers) no longer holds: a client method's endpoint is not the one bound to the handler of the "
                        "same name, a payload kind differs, or names collide. Regenerated tables:\n" + text[-2500:],
                        {"no_longer_checks": [ENDPOINT_THEOREM], "tables": text, "build_log": log[-2000:]}, False))
                    failures += [f for f in vlib.lean_failures(prop, lean) if ENDPOINT_THEOREM not in f["signature"]]
                    return lean, failures, generated, obligations
            failures += vlib.lean_failures(prop, lean)
            return lean, failures, generated, obligations
        finally:
            if wrote and vlib._alt_repo():
                GEN.write_text(committed)   # a scratch tree must not leave its tables in the committed package


# ------------------------------------------------------------------ Go

def _run_ruwire(binary, driver, prop, seed, modes, thorough, extra=None, timeout=1500):
    cmd = [str(binary), "--seed", str(seed), "--mode", modes, "--driver", str(driver), "--prop", prop]
    if thorough:
        cmd.append("--thorough")
    cmd += extra or []
    rc, out, err = vlib.run(cmd, cwd=vlib.VERIF, timeout=timeout)
    lines = [l for l in out.strip().splitlines() if l.strip()]
    try:
        summary = json.loads(lines[-1])
    except Exception:
        return None, f"rc={rc} no JSON summary; stdout tail: {out[-400:]!r} stderr tail: {err[-3000:]!r}"
    if summary.get("fatal"):
        return None, "ruwire: " + str(summary["fatal"])
    return summary, ""


def _to_failures(summary):
    out = []
    for f in summary.get("failures") or []:
        out.append(vlib.failure(f.get("kind", "diff"), f["signature"], f.get("detail", ""), f.get("replay") or {},
                                bool(f.get("found_input"))))
    return out


def _merge(dst, src):
    for k, v in (src or {}).items():
        if isinstance(v, dict):
            _merge(dst.setdefault(k, {}), v)
        else:
            dst[k] = dst.get(k, 0) + v


def _rudefects(prop):
    """The D6 witnesses (C14 regressions): a reproduced witness is a failure with the witness's signature."""
    ok, binary, log = vlib.go_build("rudefects")
    if not ok:
        return [], [vlib.failure("diff", f"{prop}/harness-build/rudefects", log[-1200:], {"log": log[-3000:]}, False)]
    rc, out, err = vlib.run([str(binary), "--only", "C14"], cwd=vlib.VERIF, timeout=300)
    res, fails = [], []
    for line in out.strip().splitlines():
        try:
            w = json.loads(line)
        except Exception:
            continue
        res.append({"id": w["id"], "signature": w["signature"], "reproduced": w["reproduced"], "detail": w["detail"][:300]})
        if w["reproduced"]:
            fails.append(vlib.failure("diff", w["signature"], f"regression witness {w['id']} reproduces: {w['detail']}",
                                      {"tool": "rudefects", "only": w["id"]}, True))
    if not res:
        fails.append(vlib.failure("diff", f"{prop}/harness-crash/rudefects", (out + err)[-1200:], {}, False))
    return res, fails


def _served_blocks(ctx, corr, failures, extra, seen):
    """C15 across histories: after every read of the core harness (rutrace, profile fork: competing tips, tip swaps,
    re-syncs, ticks inside rounds) the page a peer receives through the node's REAL blocks controller, decoded by the
    receiver's decoder, must be the blocks the node holds (PROP `C15 served-blocks-are-not-...`), and the page the model
    predicts (DIFF `served page`)."""
    ok, binary, blog = vlib.go_build("rutrace")
    vlib.lake_build(vlib.LEAN / "core", ["rudriver"])
    driver = vlib.lean_exe("core", "rudriver")
    if not ok or not driver.exists():
        failures.append(vlib.failure("diff", "C15/harness-build/rutrace", "rutrace / rudriver not built: " + blog[-800:], {}, False))
        extra.append({"name": "served blocks = held blocks after every read (rutrace, profile fork)", "ok": False})
        return
    n = 60 * (20 if ctx.thorough else 1)
    chunks = vlib.ncpu() if ctx.thorough else 3
    tracedir = vlib.VERIF / "replays" / "traces"

    def one(k):
        seed = ctx.seed * 7919 + 15 * 131 + k
        rc, out, err = vlib.run([str(binary), "--seed", str(seed), "--scenarios", str(max(4, n // chunks)), "--profile", "fork",
                                 "--driver", str(driver), "--tracedir", str(tracedir)], timeout=2400 if ctx.thorough else 500)
        try:
            return seed, json.loads(out.strip().split("\n")[-1])
        except Exception:
            return seed, {"crash": (out + err)[-600:]}
    with ThreadPoolExecutor(max_workers=chunks) as ex:
        results = list(ex.map(one, range(chunks)))
    ok_all, reads, scen = True, 0, 0
    for seed, s in results:
        if "crash" in s:
            ok_all = False
            failures.append(vlib.failure("diff", "C15/harness-crash/rutrace", s["crash"], {"seed": seed}, False))
            continue
        reads += s.get("hist", {}).get("op:read", 0)
        scen += s.get("scenarios", 0)
        for f in s.get("failures") or []:
            text = f["text"]
            is_prop = f["kind"] == "prop" and text.startswith("C15 ")
            is_diff = f["kind"] == "diff" and "served page" in text
            if not (is_prop or is_diff):
                continue
            ok_all = False
            sig = "C15/served/" + ("held-differs" if is_prop else "model-differs")
            if sig in seen:
                continue
            seen.add(sig)
            failures.append(vlib.failure("prop" if is_prop else "diff", sig,
                                         f"{f['kind']} at op {f['op']} (scenario {f['scenario']}, line {f['line']}): {text[:600]}",
                                         {"tool": "rutrace", "seed": f["seed"], "scenario": f["scenario"], "profile": "fork",
                                          "line": f["line"], "failure": text, "trace_file": f.get("trace_file")}, is_prop))
    corr["served_reads"] = reads
    corr["served_scenarios"] = scen
    corr["evaluations"] += reads
    extra.append({"name": f"served blocks = held blocks = model page after every read ({reads} reads over {scen} histories with "
                          "tip swaps, re-syncs and ticks inside rounds; real BlocksController, receiver's decoder)", "ok": ok_all})
    ctx.log(f"rutrace (served blocks): {scen} histories, {reads} reads, ok={ok_all}")


def run(ctx):
    prop = ctx.prop
    lean, failures, generated, extra = _lean(ctx)
    ctx.log("lean:", "ok" if lean["ok"] else "NOT ok")
    _ob, _sf = vlib.skeleton_tie(prop, "codec")
    extra.append(_ob)
    failures += _sf
    if prop == "C14":
        # where a peer's bytes enter the sync round: fetch goroutine, timeout, decoding
        _ob, _sf = vlib.skeleton_tie(prop, "core", only=["Blockchain.verifyNeighborBlockchain", "Blockchain.Blocks"])
        extra.append(_ob)
        failures += _sf
        # where a peer's targets message ends up: the neighbourhood's refresh round
        _ob, _sf = vlib.skeleton_tie(prop, "neigh", only=["Neighborhood.AddTargets", "Neighborhood.Synchronize", "Neighborhood.selectOutbounds"])
        extra.append(_ob)
        failures += _sf
        # the arithmetic a peer's requested height goes through, regenerated from the source: no slice panic for any height
        gen, obs, afails, aths = vlib.arith_tie(prop)
        if gen:
            generated.append(gen)
        extra += obs
        failures += afails
        lean["theorems"] = lean["theorems"] + aths
        lean["ok"] = lean["ok"] and all(t["ok"] for t in aths) and not afails
        ctx.log(f"arith tie (Gen.* regenerated from the source): {'ok' if not afails else 'NOT ok'}")

    def done(corr=None):
        return vlib.result(lean=lean, corr=corr, failures=failures, generated=generated, extra_obligations=extra,
                           assumptions=ASSUMPTIONS, trusted_base=TRUSTED)

    ok, binary, blog = vlib.go_build("ruwire")
    driver = vlib.lean_exe(PKG, "codecdriver")
    if not ok:
        failures.append(vlib.failure("diff", f"{prop}/harness-build/ruwire",
                                     "harness no longer builds against the tree: " + blog[-1500:], {"log": blog[-4000:]}, False))
        extra.append({"name": "correspondence ruwire", "ok": False})
        return done()
    if not driver.exists():
        failures.append(vlib.failure("diff", f"{prop}/driver-missing/codecdriver", "model driver was not built", {}, False))
        extra.append({"name": "correspondence ruwire", "ok": False})
        return done()

    corr = {"evaluations": 0, "distinct_nontrivial": 0, "rule": "", "samples": [], "traces_validated_against_impl": 0,
            "param_hypothesis_checks": 0, "child_restarts": 0, "hist": {}, "matrix": {}, "observations": {}, "findings": [],
            "worker_seeds": []}
    seen = {f["signature"] for f in failures}

    if prop == "C14":
        witnesses, wfails = _rudefects(prop)
        corr["regression_witnesses"] = witnesses
        extra.append({"name": "regression witnesses D6a-D6d (rudefects --only C14) do not reproduce", "ok": not wfails})
        for f in wfails:
            if f["signature"] not in seen:
                seen.add(f["signature"])
                failures.append(f)

    modes = MODES[prop]
    if ctx.thorough:
        # worker 0: the complete matrix / fidelity / tcp; the others: independent random streams
        jobs = [(ctx.seed, modes, None)]
        stream = "mutate" if prop == "C14" else "mutate,fidelity"
        jobs += [(ctx.seed * 1000 + i, stream, None) for i in range(1, WORKERS)]
        with ThreadPoolExecutor(max_workers=min(WORKERS, vlib.ncpu())) as ex:
            results = list(ex.map(lambda j: _run_ruwire(binary, driver, prop, j[0], j[1], True, j[2], timeout=1700), jobs))
    else:
        results = [_run_ruwire(binary, driver, prop, ctx.seed, modes, False, timeout=600)]

    corr_ok = True
    for summary, why in results:
        if summary is None:
            corr_ok = False
            failures.append(vlib.failure("diff", f"{prop}/harness-crash/ruwire", why, {"why": why}, False))
            continue
        corr["evaluations"] += summary["evaluations"]
        corr["distinct_nontrivial"] += summary["distinct_nontrivial"]      # per-worker distinct; seeds differ
        corr["traces_validated_against_impl"] += summary["model_answers_compared"]
        corr["param_hypothesis_checks"] += summary.get("param_hypothesis_checks", 0)
        corr["child_restarts"] += summary.get("child_restarts", 0)
        corr["rule"] = summary["rule"]
        corr["worker_seeds"].append(summary["seed"])
        if len(corr["samples"]) < 6:
            corr["samples"] += (summary.get("samples") or [])[:6 - len(corr["samples"])]
        _merge(corr["hist"], summary.get("hist"))
        _merge(corr["matrix"], summary.get("matrix"))
        _merge(corr["observations"], summary.get("observations"))
        for fnd in summary.get("findings") or []:
            if fnd["id"] not in [x["id"] for x in corr["findings"]]:
                corr["findings"].append(fnd)
        for f in _to_failures(summary):
            corr_ok = False
            if f["signature"] not in seen:
                seen.add(f["signature"])
                failures.append(f)
    if not corr["samples"]:
        corr["samples"] = ["(no case executed)"]
    extra.append({"name": f"correspondence ruwire ({modes}): real code vs model, panic-freedom, state unchanged on error, "
                          "follow-up operations", "ok": corr_ok})
    extra.append({"name": "counterexample witnesses of Codec.Props still reproduce on the real code "
                          "(stale-reward-fields, stale-reward-adopted, stale-strings, long-hash, access-null-utxo)",
                  "ok": not any("/counterexample-no-longer-reproduces/" in f["signature"] for f in failures)})
    if prop == "C15":
        _served_blocks(ctx, corr, failures, extra, seen)
    for fnd in corr["findings"]:
        ctx.log("finding", fnd["id"], "-", fnd["detail"][:260])
    ctx.log(f"ruwire: {corr['evaluations']} cases, {corr['distinct_nontrivial']} non-trivial, {len(failures)} failure(s)")
    return done(corr)


def replay(ctx, body):
    """Re-execute a replay file on the current tree; returns the failures that still occur."""
    prop = body.get("property", ctx.prop)
    ctx.prop = prop
    payload = body.get("replay") or {}
    tool = payload.get("tool")
    if tool == "rudefects":
        _, fails = _rudefects(prop)
        return [f for f in fails if f["replay"].get("only") == payload.get("only")]
    if tool == "rutrace":
        ok, binary, blog = vlib.go_build("rutrace")
        vlib.lake_build(vlib.LEAN / "core", ["rudriver"])
        if not ok:
            return [vlib.failure("diff", f"{prop}/harness-build/rutrace", blog[-800:], {}, False)]
        rc, out, err = vlib.run([str(binary), "--seed", str(payload["seed"]), "--scenarios", str(payload["scenario"] + 1),
                                 "--profile", payload.get("profile", "fork"), "--driver", str(vlib.lean_exe("core", "rudriver")),
                                 "--tracedir", str(ctx.work / "traces"), "--only", str(payload["scenario"])], timeout=600)
        try:
            s = json.loads(out.strip().split("\n")[-1])
        except Exception:
            return [vlib.failure("diff", f"{prop}/harness-crash/rutrace", (out + err)[-600:], payload, False)]
        res = []
        for f in s.get("failures") or []:
            if f["kind"] == "prop" and f["text"].startswith("C15 "):
                res.append(vlib.failure("prop", "C15/served/held-differs", f["text"][:600], payload, True))
            elif f["kind"] == "diff" and "served page" in f["text"]:
                res.append(vlib.failure("diff", "C15/served/model-differs", f["text"][:600], payload, False))
        return res
    if tool != "ruwire":
        lean, failures, _, _ = _lean(ctx)            # proof / table obligation: re-run the Lean side
        return failures
    ok, log = vlib.lake_build(PKG_DIR, ["codecdriver"])
    if not ok:
        return [vlib.failure("proof", f"{prop}/lean-build/lean/{PKG}", log[-800:], {}, False)]
    ok, binary, blog = vlib.go_build("ruwire")
    if not ok:
        return [vlib.failure("diff", f"{prop}/harness-build/ruwire", blog[-800:], {}, False)]
    if payload.get("mode") == "broadcast":
        # the bursts are deterministic: run them all again and keep the failure of this signature
        summary, why = _run_ruwire(binary, vlib.lean_exe(PKG, "codecdriver"), prop, body.get("seed", 0), "broadcast", False, timeout=300)
        if summary is None:
            return [vlib.failure("diff", f"{prop}/harness-crash/ruwire", why, {}, False)]
        return [f for f in _to_failures(summary) if f["signature"] == body.get("signature")]
    path = ctx.work / "replay.json"
    path.write_text(json.dumps({"replay": payload}))
    summary, why = _run_ruwire(binary, vlib.lean_exe(PKG, "codecdriver"), prop, body.get("seed", 0), "fault", False,
                               ["--replay", str(path)], timeout=600)
    if summary is None:
        return [vlib.failure("diff", f"{prop}/harness-crash/ruwire", why, {}, False)]
    return _to_failures(summary)
