"""Engine `wallet` — properties C18 (coin selection) and C19 (balance and progress views).

Lean side : lean/wallet (Wallet.Model / Lemmas / Props, Audit.lean, lean_exe walletdriver).
Go side   : harness/cmd/ruwallet drives the REAL access-node controllers of vlib.REPO (httptest, half of the
            requests through a gin engine with the production routes) against a REAL in-process validator
            (harness/internal/node), compares every answer with the Lean model, evaluates the property's clauses
            directly on the validator's state, and posts wallet-built transactions and follows them into the
            pool, the next block and confirmation.
See ENGINE_CONTRACT.md.  The engine never prints VIOLATION and never writes evidence.
"""
import json
from concurrent.futures import ThreadPoolExecutor

import vlib

PKG = "wallet"
NS = "Wallet."

THEOREMS = {
    "C18": [NS + t for t in (
        "C18_405_iff", "C18_terminates", "C18_distinct", "C18_distinct_refs", "C18_nonzero_spendable", "C18_sum",
        "C18_all_when_consolidating", "C18_single_when_one_suffices", "C18_closest_spec",
        "C18_fee_rule", "C18_fee_rule_time", "C18_wraps_to_target",
    )],
    "C19": [NS + t for t in (
        "C19_balance", "C19_progress", "C19_progress_iff", "C19_progress_block_at_height", "C19_progress_errors",
        "C19_progress_sent",
    )],
}

MODE = {"C18": "c18", "C19": "c19"}

# C18's known shape: the validator's listing lags its last block by design (C07), so an output spent by the last,
# unconfirmed block is still offered.  Reported once per run; every other refusal keeps its own signature.
INFLIGHT = "C18/listed-output-already-spent-by-last-block"
LAGGING = "C19/progress-500-when-validator-has-no-block-at-clock-height"
QUICK = {"workers": 8, "queries": 400}          # a few thousand compared queries, ~20 scenarios
THOROUGH = {"C18": {"workers": 16, "queries": 6000},      # ~100k compared queries, ~600 scenarios
            "C19": {"workers": 16, "queries": 20000}}     # ~330k compared queries, ~450 followed histories

ASSUMPTIONS = {
    "C18": [
        "ledger.Utxo.Value (float64 decay/income) is a PARAMETER: the listed outputs' values at the next block time enter "
        "the model as data; the harness obtains them from the real function (its own correctness is C09)",
        "an output is identified by its position in the validator's listing (the code keeps pointers into the decoded "
        "listing); if the validator listed one reference twice the two positions would be two outputs (C18_distinct_refs "
        "covers the listing-without-repetition case)",
        "theorems about sums carry the explicit hypothesis holdings < 2^64 and amount + fee < 2^64; beyond it the "
        "controller answers for the wrapped target (C18_wraps_to_target); termination and index safety need no such hypothesis",
        "non-negative amounts: a negative `value` parameter is converted to a huge uint64 by the code; that path is only "
        "checked for conformance with the model",
        "'admitted and included' is checked on the real validator for a wallet whose previous payment is confirmed, the "
        "access node's clock lying in the interval after the validator's last block, regular ticks, one payment per wallet "
        "per interval; the fee rule behind it is C18_fee_rule/C18_fee_rule_time, pool admission and production are C11's subject",
        "int64 timestamps do not overflow (|t| < 2^62)",
        "strconv.Atoi / strconv.ParseBool, encoding/json, net/http, gin routing and recovery are trusted",
        "signatures: real secp256k1 keys through the validator's own encryption package (trusted primitives)",
    ],
    "C19": [
        "ledger.Utxo.Value is a parameter (values at query time enter as data from the real function)",
        "the float64 division balance / units is trusted (compared bit-for-bit with Go's own division of the model's integer balance)",
        "'the block at the current height' is the first block of GetBlocks(h) for the height h the access node derives from "
        "ITS OWN clock (C19_progress_block_at_height); when the validator has no block at that height yet the block scan is "
        "skipped and the pool decides (C19_progress_sent; the former 500 witness is a fixed regression scenario of every run)",
        "validator-side failures are: an error from the call, or bytes that do not decode; null entries inside well-formed "
        "validator answers are C14's subject",
        "int64 timestamps do not overflow; the validation interval is not 0",
    ],
}

TRUSTED = [
    "Lean 4 kernel; axioms propext, Classical.choice, Quot.sound only (audited per theorem on every run)",
    "hand-written model lean/wallet/Wallet/Model.lean, tied to info_controller.go / progress_controller.go / "
    "amount_controller.go / utxos_registry.go (CalculateFee arithmetic) / blockchain.go (Blocks paging) by differential "
    "testing (ruwallet); its strength is bounded by generator coverage, reported in the histograms",
    "harness/cmd/ruwallet (Go): in-process application.Sender over a real validator, scripted clock, comparison logic; "
    "harness/internal/node (real component assembly)",
    "lean_exe walletdriver (line protocol around the model, core Lean)",
    "ledger.Utxo.Value, encryption package (secp256k1, Keccak), encoding/json, strconv, net/http/httptest, gin",
]


def _run_harness(binary, driver, mode, seed, queries, extra=None, timeout=1500):
    cmd = [str(binary), "--mode", mode, "--seed", str(seed), "--queries", str(queries), "--driver", str(driver)]
    cmd += extra or []
    rc, out, err = vlib.run(cmd, cwd=vlib.VERIF, timeout=timeout)
    lines = [l for l in out.strip().splitlines() if l.strip()]
    try:
        return json.loads(lines[-1]), ""
    except Exception:
        return None, f"rc={rc} no JSON summary; stdout tail: {out[-400:]!r} stderr tail: {err[-800:]!r}"


def _merge_hist(dst, src):
    for name, h in (src or {}).items():
        d = dst.setdefault(name, {})
        for k, v in h.items():
            d[k] = d.get(k, 0) + v


def _to_failure(prop, f):
    return vlib.failure(f.get("kind", "prop"), f["signature"], f.get("detail", ""), f.get("replay", {}), True)


def _build(ctx, failures):
    ok, binary, log = vlib.go_build("ruwallet")
    if not ok:
        failures.append(vlib.failure("proof", f"{ctx.prop}/harness-build/ruwallet",
                                     "the harness no longer builds against the tree (an API the check depends on changed): "
                                     + log[-1200:], {"log": log[-4000:]}, False))
        return None
    return binary


def run(ctx):
    prop = ctx.prop
    lean = vlib.lean_check(PKG, THEOREMS[prop], thorough=ctx.thorough, checker_modules=["Wallet.Props"])
    failures = vlib.lean_failures(prop, lean)
    ctx.log("lean:", "ok" if lean["ok"] else "FAILED")
    extra = []
    _ob, _sf = vlib.skeleton_tie(prop, "wallet")
    extra.append(_ob)
    failures += _sf
    corr = {"evaluations": 0, "distinct_nontrivial": 0, "rule": "", "samples": [], "traces_validated_against_impl": 0,
            "hist": {}, "observations": {}}
    binary = _build(ctx, failures)
    driver = vlib.lean_exe(PKG, "walletdriver")
    if binary is None or not driver.exists():
        if binary is not None:
            failures.append(vlib.failure("proof", f"{prop}/driver-missing", "walletdriver was not built", {}, False))
        extra.append({"name": "correspondence ruwallet", "ok": False})
        return vlib.result(lean=lean, corr=corr, failures=failures, extra_obligations=extra,
                           assumptions=ASSUMPTIONS[prop], trusted_base=TRUSTED)
    cfg = THOROUGH[prop] if ctx.thorough else QUICK
    workers = min(cfg["workers"], vlib.ncpu())
    seeds = [ctx.seed * 1000 + i for i in range(workers)]
    with ThreadPoolExecutor(max_workers=workers) as ex:
        results = list(ex.map(lambda s: _run_harness(binary, driver, MODE[prop], s, cfg["queries"]), seeds))
    harness_ok = True
    scenarios = 0
    harness_failures = []
    for seed, (summary, err) in zip(seeds, results):
        if summary is None:
            harness_ok = False
            failures.append(vlib.failure("proof", f"{prop}/harness-run", "ruwallet did not complete: " + err,
                                         {"seed": seed, "mode": MODE[prop]}, False))
            continue
        corr["evaluations"] += summary["evaluations"]
        corr["distinct_nontrivial"] += summary["distinct_nontrivial"]   # seeds differ, so do the generated wallets
        corr["traces_validated_against_impl"] += summary["transactions_followed"]
        corr["rule"] = summary["rule"]
        scenarios += summary["scenarios"]
        _merge_hist(corr["hist"], summary.get("hist"))
        for k, v in (summary.get("observations") or {}).items():
            corr["observations"].setdefault(k, v)
        if len(corr["samples"]) < 24:
            corr["samples"].extend(summary.get("samples", [])[: 24 - len(corr["samples"])])
        harness_failures.extend(f for f in summary.get("failures", []) if f.get("prop") == prop)
    corr["scenarios"] = scenarios
    corr["workers"] = workers
    seen = {}
    inflight = [f for f in harness_failures if f["signature"] == INFLIGHT]
    for f in harness_failures:                      # one violation per signature, first occurrence
        if f["signature"] != INFLIGHT:
            seen.setdefault(f["signature"], f)
    if inflight:                                    # one finding per run, with the total count; the fixed scenario's replay first
        total = sum(int(f.get("count", 1)) for f in inflight)
        first = next((f for f in inflight if (f.get("replay") or {}).get("regression")), inflight[0])
        first = dict(first)
        first["detail"] = first["detail"].split(" [")[0] + f" [{total} occurrence(s) in this run, {workers} workers]"
        seen[INFLIGHT] = first
    for f in seen.values():
        failures.append(_to_failure(prop, f))
    diffs = [f for f in seen.values() if f.get("kind") == "diff"]
    props = [f for f in seen.values() if f.get("kind") != "diff" and f["signature"] != INFLIGHT]
    if harness_ok and corr["traces_validated_against_impl"] == 0:
        failures.append(vlib.failure("prop", f"{prop}/no-transaction-followed",
                                     "no wallet-built transaction could be followed into a block in this run "
                                     "(the check would be vacuous)", {"seeds": seeds, "mode": MODE[prop]}, False))
        harness_ok = False
    extra.append({"name": "correspondence ruwallet: model = implementation on every compared query",
                  "ok": harness_ok and not diffs})
    extra.append({"name": "property clauses evaluated directly on the implementation's answers and the validator's state",
                  "ok": harness_ok and not props})
    reg = corr["hist"].get("regression", {})
    if prop == "C19":
        extra.append({"name": "regression: the former 500 witness (genesis 1000, interval 60, two blocks, clock 1125, "
                              "transaction in the pool) answers 'sent'",
                      "ok": reg.get("c19-lagging-validator: 200 sent", 0) > 0 and LAGGING not in seen})
        notes = ("observation (not counted): 'rejected' for an included transaction while the access node's clock is an "
                 "interval behind (the block consulted is the one at the clock's height, as C19_progress states)")
    else:
        extra.append({"name": "no output already spent by the validator's last block is offered "
                              "(fixed regression scenario c18-spent-by-last-block + random second payments)",
                      "ok": harness_ok and not inflight and any(k.startswith("c18-spent-by-last-block") for k in reg)})
        notes = ("zero-valued amount and rest outputs are built and accepted (observation, not counted); "
                 f"{INFLIGHT}: reproduced by the fixed scenario in every run while the validator's listing lags its last block")
    ctx.log(f"ruwallet: {corr['evaluations']} queries, {scenarios} scenarios, "
            f"{corr['traces_validated_against_impl']} transactions followed, {len(seen)} failing signatures")
    return vlib.result(lean=lean, corr=corr, failures=failures, extra_obligations=extra,
                       assumptions=ASSUMPTIONS[prop], trusted_base=TRUSTED, notes=notes)


def replay(ctx, body):
    """Re-run the scenario named in the replay payload on the current tree; report failures with the same signature."""
    prop = body["property"]
    rp = body.get("replay") or {}
    if body.get("kind") == "proof" or ("scenario" not in rp and "regression" not in rp):
        lean = vlib.lean_check(PKG, THEOREMS[prop], thorough=False)
        fails = vlib.lean_failures(prop, lean)
        _build(ctx, fails)
        return [f for f in fails if f["signature"] == body["signature"]] or fails
    fails = []
    ok, log = vlib.lake_build(vlib.LEAN / PKG)
    if not ok:
        return [vlib.failure("proof", f"{prop}/lean-build/lean/{PKG}", log[-800:], {}, False)]
    binary = _build(ctx, fails)
    if binary is None:
        return fails
    scenario = -2 if rp.get("regression") else rp["scenario"]      # -2: the fixed regression scenarios only
    summary, err = _run_harness(binary, vlib.lean_exe(PKG, "walletdriver"), rp.get("mode", MODE[prop]), rp.get("seed", 0), 1,
                                extra=["--only-scenario", str(scenario)])
    if summary is None:
        return [vlib.failure("proof", f"{prop}/harness-run", err, rp, False)]
    same = [f for f in summary.get("failures", []) if f["signature"] == body["signature"]]
    return [_to_failure(prop, f) for f in same]
