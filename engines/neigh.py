"""Engine `neigh` — property C17 (neighbour set).

Lean side : lean/neigh (Neigh.Model / Spec / Lemmas / Props, Audit.lean, lean_exe neighdriver).
Go side   : harness/cmd/runeigh drives the real network.Neighborhood of vlib.REPO against the model driver.
See ENGINE_CONTRACT.md.  The engine never prints VIOLATION and never writes evidence.
"""
import json
from concurrent.futures import ThreadPoolExecutor

import vlib

PKG = "neigh"
NS = "Neigh."

# every theorem that must be present in the audit output with allowed axioms only
THEOREMS = {
    "C17": [NS + t for t in (
        "C17_bounded", "C17_distinct", "C17_not_self", "C17_known_only", "C17_reachable_only", "C17_best",
        "C17_fanout", "C17_retained", "C17_incentive", "C17_retained_inv", "C17_init", "C17_networkId",
        "C17_rounds", "C17_rounds_invariant", "C17_negative_max_panics",
    )],
}

QUICK_ROUNDS = 2000
THOROUGH_ROUNDS = 200000
WORKERS = 16

ASSUMPTIONS = [
    "crypto: n/a for C17",
    "the model mirrors neighborhood.go/target.go AFTER the repairs seeded/_fixes/c17-normalise-target.diff and "
    "c17-incentive-validates.diff; against an unrepaired tree the regression witnesses reproduce (C17/strong/*)",
    "net.SplitHostPort / net.JoinHostPort are PARAMETERS of the model (Env.parse, Env.join) with the hypothesis "
    "Env.RoundTrip: parse v = some (ip, port) -> parse (join ip port) = some (ip, port); checked by runeigh on every "
    "generated target against the real functions (param_hypothesis_checks)",
    "Sender.Target() is a parameter (Env.senderTarget) with the hypothesis Env.TargetIsJoin: senderTarget ip port = "
    "join ip port (used by C17_fanout, via RoundOK).  True of p2p.NewNeighbor(ip, port); the production factory first "
    "replaces ip by LookupIP(ip), so for host NAMES (not numeric addresses) a peer may still be sent its own target "
    "under its DNS name, and one peer may be known under a name and an address: out of scope of C17's repair",
    "CreateSender reachability is a parameter of every round (any predicate on (ip, port))",
    "Go map iteration order and rand.Shuffle enter as arbitrary rearrangements (forall order, forall shuffle with Perm "
    "hypotheses); the implementation's result is compared as a member of the model's allowed set",
    "target strings are valid UTF-8 in the model (Go: byte strings); scores are unbounded Int in the model (Go int: "
    "no overflow below 2^63 incentives of one target per round)",
    "peers are identified by endpoint (ip, port); seeds are operator configuration: re-keyed by canonical spelling, "
    "not filtered by network",
    "quantifier of C17 is max >= 0; max < 0 panics (C17_negative_max_panics, reproduced) and is only checked for "
    "conformance with the model",
    "single-threaded use of Neighborhood between operations (locking discipline is C16's subject)",
]

TRUSTED = [
    "Lean 4 kernel; axioms propext, Classical.choice, Quot.sound only (audited per theorem on every run)",
    "hand-written model lean/neigh/Neigh/Model.lean, tied to neighborhood.go/target.go by differential testing "
    "(runeigh); its strength is bounded by generator coverage, reported in the histograms",
    "harness/cmd/runeigh (Go): fake SenderCreator/Sender, read-only reflection on Neighborhood.scoresByTargetValue and "
    "scoresBySeedTargetValue, comparison logic",
    "lean_exe neighdriver (JSON line protocol around the model, core Lean + Lean.Data.Json)",
    "Go runtime/scheduler: SendTargets goroutines are awaited per outbound; 'no message to unselected peers' is checked "
    "after the goroutine count returned to its baseline",
]


def _run_harness(binary, driver, seed, rounds, extra=None, timeout=900):
    cmd = [str(binary), "--seed", str(seed), "--rounds", str(rounds), "--driver", str(driver)] + (extra or [])
    rc, out, err = vlib.run(cmd, cwd=vlib.VERIF, timeout=timeout)
    lines = [l for l in out.strip().splitlines() if l.strip()]
    try:
        summary = json.loads(lines[-1])
    except Exception:
        return None, f"rc={rc} no JSON summary; stdout tail: {out[-500:]!r} stderr tail: {err[-800:]!r}"
    if "fatal" in summary:
        return None, "harness: " + str(summary["fatal"])
    return summary, ""


def _witnesses(prop, binary):
    """Regression witnesses (must NOT reproduce) + parameter table; returns (witness list, failures)."""
    rc, out, err = vlib.run([str(binary), "--witnesses"], cwd=vlib.VERIF, timeout=120)
    try:
        summary = json.loads(out.strip().splitlines()[-1])
        return summary["witnesses"], _to_failures(prop, summary)
    except Exception:
        why = (out + err)[-800:]
        return ([{"name": "witness run", "reproduced": None, "expected": None, "detail": why}],
                [vlib.failure("diff", f"{prop}/harness-crash/runeigh-witnesses", why, {"why": why}, False)])


def _merge_hist(dst, src):
    for k, v in (src or {}).items():
        if isinstance(v, dict):
            _merge_hist(dst.setdefault(k, {}), v)
        else:
            dst[k] = dst.get(k, 0) + v


def _to_failures(prop, summary):
    out = []
    for f in summary.get("failures", []):
        replay = f.get("replay") or {}
        out.append(vlib.failure(f.get("kind", "diff"), f["signature"], f.get("detail", ""),
                                {"tool": "runeigh", "op_index": f.get("op_index"), **replay},
                                bool(f.get("found_input"))))
    return out


def run(ctx):
    prop = ctx.prop
    lean = vlib.lean_check(PKG, THEOREMS[prop], thorough=ctx.thorough, checker_modules=["Neigh.Props"])
    failures = vlib.lean_failures(prop, lean)
    extra = []
    _ob, _sf = vlib.skeleton_tie(prop, "neigh")
    extra.append(_ob)
    failures += _sf
    ctx.log("lean:", "ok" if lean["ok"] else "NOT ok")
    # the integer conditions of Synchronize / selectOutbounds / min, regenerated from the source on this run
    arith_generated = []
    gen, obs, afails, aths = vlib.arith_tie(prop)
    if gen:
        arith_generated.append(gen)
    extra += obs
    failures += afails
    lean["theorems"] = lean["theorems"] + aths
    lean["ok"] = lean["ok"] and all(t["ok"] for t in aths) and not afails
    ctx.log(f"arith tie (Gen.* regenerated from the source): {'ok' if not afails else 'NOT ok'}")

    ok, binary, blog = vlib.go_build("runeigh")
    driver = vlib.lean_exe(PKG, "neighdriver")
    if not ok:
        failures.append(vlib.failure("diff", f"{prop}/harness-build/runeigh",
                                     "harness no longer builds against the tree: " + blog[-1200:], {"log": blog[-4000:]}, False))
        extra.append({"name": "correspondence runeigh", "ok": False})
        return vlib.result(lean=lean, failures=failures, extra_obligations=extra, assumptions=ASSUMPTIONS,
                           trusted_base=TRUSTED)
    if not driver.exists():
        failures.append(vlib.failure("diff", f"{prop}/driver-missing/neighdriver", "model driver was not built", {}, False))
        extra.append({"name": "correspondence runeigh", "ok": False})
        return vlib.result(lean=lean, failures=failures, extra_obligations=extra, assumptions=ASSUMPTIONS,
                           trusted_base=TRUSTED)

    # 1. regression witnesses (the inputs on which the unrepaired code violated C17) must not reproduce
    witnesses, wfails = _witnesses(prop, binary)
    extra.append({"name": "regression witnesses C17/strong/* do not reproduce; Neigh.Ex table matches the real functions",
                  "ok": not wfails})
    failures += wfails

    # 2. correspondence + direct property evaluation
    strict = []
    if ctx.thorough:
        per = THOROUGH_ROUNDS // WORKERS
        seeds = [ctx.seed * 1000 + i for i in range(WORKERS)]
        with ThreadPoolExecutor(max_workers=min(WORKERS, vlib.ncpu())) as ex:
            results = list(ex.map(lambda s: _run_harness(binary, driver, s, per, strict, timeout=1500), seeds))
    else:
        results = [_run_harness(binary, driver, ctx.seed, QUICK_ROUNDS, strict, timeout=300)]

    corr = {"evaluations": 0, "distinct_nontrivial": 0, "rule": "", "samples": [], "rounds": 0, "scenarios": 0,
            "traces_validated_against_impl": 0, "network_id_pairs": 0, "param_hypothesis_checks": 0, "hist": {}, "witnesses": witnesses,
            "worker_seeds": []}
    corr_ok = True
    seen = {f["signature"] for f in wfails}
    for summary, why in results:
        if summary is None:
            corr_ok = False
            failures.append(vlib.failure("diff", f"{prop}/harness-crash/runeigh", why, {"why": why}, False))
            continue
        corr["evaluations"] += summary["evaluations"]
        corr["rounds"] += summary["rounds"]
        corr["scenarios"] += summary["scenarios"]
        corr["distinct_nontrivial"] += summary["distinct_nontrivial"]   # per-worker distinct; seeds differ
        corr["traces_validated_against_impl"] += summary["model_answers_compared"]
        corr["network_id_pairs"] += summary.get("network_id_pairs", 0)
        corr["param_hypothesis_checks"] += summary.get("param_hypothesis_checks", 0)
        corr["rule"] = summary["rule"]
        corr["worker_seeds"].append(summary["seed"])
        if len(corr["samples"]) < 5:
            corr["samples"] += summary["samples"][:5 - len(corr["samples"])]
        _merge_hist(corr["hist"], summary["hist"])
        for f in _to_failures(prop, summary):
            corr_ok = False
            if f["signature"] not in seen:
                seen.add(f["signature"])
                failures.append(f)
    if not corr["samples"]:
        corr["samples"] = ["(no non-trivial round)"]
    extra.append({"name": "correspondence runeigh (model vs implementation) + C17 clauses on the implementation", "ok": corr_ok})
    ctx.log(f"runeigh: {corr['rounds']} rounds, {corr['evaluations']} ops, {corr['distinct_nontrivial']} non-trivial, "
            f"{len(failures)} failure(s)")
    notes = ("Endpoint-level clauses are always checked on the implementation; hits: "
             + json.dumps(corr["hist"].get("strong_reading_hits", {}), sort_keys=True))
    return vlib.result(lean=lean, corr=corr, failures=failures, generated=arith_generated, extra_obligations=extra,
                       assumptions=ASSUMPTIONS, trusted_base=TRUSTED, notes=notes)


def replay(ctx, body):
    """Re-execute a replay file on the current tree; returns the failures that still occur."""
    prop = body.get("property", "C17")
    payload = body.get("replay") or {}
    if payload.get("tool") != "runeigh" or not ("scenario" in payload or "ports" in payload):
        # proof-side obligation: re-run the Lean check
        lean = vlib.lean_check(PKG, THEOREMS[prop], thorough=False)
        return vlib.lean_failures(prop, lean)
    ok, log = vlib.lake_build(vlib.LEAN / PKG)
    if not ok:
        return [vlib.failure("proof", f"{prop}/lean-build/lean/{PKG}", log[-800:], {}, False)]
    ok, binary, blog = vlib.go_build("runeigh")
    if not ok:
        return [vlib.failure("diff", f"{prop}/harness-build/runeigh", blog[-800:], {}, False)]
    path = ctx.work / "scenario.json"
    path.write_text(json.dumps({"replay": {k: payload[k] for k in ("scenario", "ports") if k in payload}}))
    extra = ["--replay", str(path)] + (["--strong-only"] if "witness" in payload else [])
    summary, why = _run_harness(binary, vlib.lean_exe(PKG, "neighdriver"), body.get("seed", 0), 0, extra, timeout=300)
    if summary is None:
        return [vlib.failure("diff", f"{prop}/harness-crash/runeigh", why, {}, False)]
    return _to_failures(prop, summary)
