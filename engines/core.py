"""Engine E1 (core): C01–C08, C10–C13.

Lean side: lean/core (model of blockchain.go / utxos_registry.go / addresses_registry.go /
transactions_pool.go, RuSpec predicates, property theorems in Core/Props/*.lean).
Tie: rutrace drives REAL nodes on generated operation sequences and the compiled model driver on the
same lines; every observable is compared after every operation (DIFF) and the RuSpec predicates are
evaluated on the implementation's state (PROP).  rudefects replays the witnesses of repaired defects.
"""
import json
import os
import re
import subprocess
from concurrent.futures import ThreadPoolExecutor
from pathlib import Path

import vlib

THEOREMS = json.loads((Path(__file__).parent / "core_theorems.json").read_text())

# generator profiles per property: (profile, share of the scenario budget)
PROFILES = {
    "C01": [("value", 0.5), ("mixed", 0.3), ("agree", 0.4), ("pool", 0.3)],
    "C02": [("spend", 0.6), ("mixed", 0.4)],
    "C03": [("owner", 0.6), ("mixed", 0.4)],
    "C04": [("shape", 0.5), ("mixed", 0.3), ("offgrid", 0.2)],
    "C05": [("agree", 0.8), ("mixed", 0.2)],
    "C06": [("fork", 0.7), ("mixed", 0.3)],
    "C07": [("mixed", 0.4), ("alias", 0.2), ("fork", 0.5)],
    "C08": [("catchup", 0.8), ("mixed", 0.2)],
    "C10": [("income", 0.6), ("alias", 0.2), ("mixed", 0.2), ("fork", 0.3)],
    "C11": [("pool", 0.5), ("agree", 0.5), ("mixed", 0.2)],
    "C12": [("alias", 0.6), ("mixed", 0.4)],
    "C13": [("faults", 0.7), ("mixed", 0.3)],
}
QUICK_SCENARIOS = {"agree": 40, "catchup": 40}          # heavy profiles; default below
QUICK_DEFAULT = 160
THOROUGH_FACTOR = 40                                     # × quick, spread over the cores

TRUSTED = [
    "Lean 4.33.0 kernel; per-theorem axioms listed under coverage.theorems (allowed: propext, Classical.choice, Quot.sound)",
    "hand-written model lean/core/Core/{Utxos,Addr,Chain,Pool,Sync}.lean, tied to the Go code by the rutrace correspondence (differential; reach bounded by the generator, see coverage.hist)",
    "secp256k1 signatures and address derivation (per-input data address/sigValid computed by the real primitives)",
    "SHA-256 (transaction ids and block hashes are data; theorems that need distinct content to have distinct hashes take injectivity as a hypothesis)",
    "ledger.Utxo.Value as the parameter Env.val (its own correctness is C09)",
    "Go map iteration order and math/rand as arbitrary orders/permutations; the Go harness (harness/cmd/rutrace, internal/node, internal/trace) and the read-only hooks in /repo (build tag verif)",
]
ASSUMPTIONS = [
    "operations on one node are sequential, except the two interleavings the model contains (the node's own tick, or a submission, running to completion inside a sync round: OpX.syncTick / OpX.syncSubmit, driven on the real code by the rutrace operations synctick / syncsubmit); every other interleaving is C16's subject",
    "transactions reaching the core satisfy Tx.WF (the repaired decoders reject null entries and empty outputs; checked by C14)",
    "timestamps are non-zero UnixNano values within int64",
]


def _run_rutrace(binary, driver, seed, scenarios, profile, tracedir, timeout, only=None):
    cmd = [str(binary), "--seed", str(seed), "--scenarios", str(scenarios), "--profile", profile,
           "--driver", str(driver), "--tracedir", str(tracedir)]
    if only is not None:
        cmd += ["--only", str(only)]
    rc, out, err = vlib.run(cmd, timeout=timeout)
    if rc != 0:
        return None, f"rutrace exit {rc}: {(err or out)[-1500:]}"
    try:
        return json.loads(out.strip().split("\n")[-1]), ""
    except Exception as e:  # noqa: BLE001
        return None, f"cannot parse rutrace output: {e}: {out[-500:]}"


_PROP_RE = re.compile(r"^(C\d\d)\s+(.*)$")


def _signature(prop, f):
    """stable, specific signature of a rutrace failure"""
    text = f["text"]
    if f["kind"] == "prop":
        m = _PROP_RE.match(text)
        body = m.group(2) if m else text
        clause = re.split(r"\s+(h=|tx=|model=|impl=|\(|:)", body)[0]
        clause = re.sub(r"\d+", "N", clause)
        clause = re.sub(r"[^A-Za-z0-9+<>=-]+", "-", clause).strip("-")[:80]
        return f"{(m.group(1) if m else prop)}/prop/{clause}"
    if f["kind"] == "diff":
        field = re.sub(r"[^A-Za-z]+", "-", text.split(" ")[0]).strip("-")
        return f"{prop}/diff/{f['op']}/{field}"
    if f["kind"] == "miss":
        return f"{prop}/valuation-table-miss/{f['op']}"
    if "PANIC" in text:
        return f"{prop}/panic/{f['op']}"
    m = _PROP_RE.match(text)
    if m:
        clause = re.sub(r"[^A-Za-z0-9]+", "-", " ".join(m.group(2).split()[:4])).strip("-")
        return f"{m.group(1)}/harness/{clause}"
    return f"{prop}/harness/{f['op']}"


def _relevant(prop, f):
    """A DIFF / panic / harness error breaks the tie for every E1 property; a PROP failure only concerns
    the property it names."""
    if f["kind"] in ("diff", "miss"):
        return True
    m = _PROP_RE.match(f["text"])
    if m:
        return m.group(1) == prop
    return True


def _witnesses(binary, prop):
    rc, out, err = vlib.run([str(binary), "--only", prop], timeout=120)
    res = []
    for line in out.strip().split("\n"):
        line = line.strip()
        if line.startswith("{"):
            try:
                res.append(json.loads(line))
            except Exception:  # noqa: BLE001
                pass
    return res, (rc, err[-500:])


def run(ctx):
    prop = ctx.prop
    ent = THEOREMS.get(prop, {"modules": [], "theorems": []})
    lean = vlib.lean_check("core", ent["theorems"], thorough=ctx.thorough, checker_modules=ent["modules"] or None,
                           audit_file=f"audit/{prop}.lean", build_targets=["Core", "rudriver"] + ent["modules"])
    failures = vlib.lean_failures(prop, lean)
    ctx.log(f"lean: built={lean['built']} ok={lean['ok']} theorems={len(lean['theorems'])}")
    extra = []
    generated = []
    if prop in vlib.ARITH_THEOREMS:
        # the paging arithmetic of (*Blockchain).Blocks, regenerated from the source on this run
        gen, obs, afails, aths = vlib.arith_tie(prop)
        if gen:
            generated.append(gen)
        extra += obs
        failures += afails
        lean["theorems"] = lean["theorems"] + aths
        lean["ok"] = lean["ok"] and all(t["ok"] for t in aths) and not afails
        ctx.log(f"arith tie (Gen.* regenerated from the source): {'ok' if not afails else 'NOT ok'}")
    driver = vlib.lean_exe("core", "rudriver")

    ok_d, bin_d, log_d = vlib.go_build("rudefects")
    ok_t, bin_t, log_t = vlib.go_build("rutrace")
    if not (ok_d and ok_t):
        blog = (log_d if not ok_d else log_t)
        failures.append(vlib.failure("diff", f"{prop}/harness-build", "harness no longer builds against the tree: " + blog[-1200:],
                                     {"log": blog[-4000:]}, False))
        extra.append({"name": "correspondence rutrace", "ok": False})
        return vlib.result(lean=lean, failures=failures, extra_obligations=extra, assumptions=ASSUMPTIONS, trusted_base=TRUSTED)
    if not driver.exists():
        failures.append(vlib.failure("diff", f"{prop}/driver-missing", "model driver rudriver was not built", {}, False))
        return vlib.result(lean=lean, failures=failures, extra_obligations=extra, assumptions=ASSUMPTIONS, trusted_base=TRUSTED)

    # 0. static tie
    ob, sk_fails = vlib.skeleton_tie(prop, "core")
    extra.append(ob)
    failures += sk_fails
    ctx.log(f"skeleton tie: {'ok' if ob['ok'] else [f['signature'] for f in sk_fails]}")

    # 1. corpus first: witnesses of the repaired defects of this property must not reproduce
    wit, (wrc, werr) = _witnesses(bin_d, prop)
    wit_ok = True
    for w in wit:
        if w.get("reproduced"):
            wit_ok = False
            failures.append(vlib.failure("prop", w["signature"], f"witness {w['id']}: {w['detail']}",
                                         {"tool": "rudefects", "only": w["id"], "detail": w["detail"]}, True))
    extra.append({"name": f"regression witnesses of repaired defects ({', '.join(w['id'] for w in wit) or 'none'}) do not reproduce", "ok": wit_ok})
    ctx.log(f"rudefects: {len(wit)} witnesses, reproduced={[w['id'] for w in wit if w.get('reproduced')]}")

    # 2. correspondence + monitors
    tracedir = vlib.VERIF / "replays" / "traces"
    jobs = []
    workers = vlib.ncpu() if ctx.thorough else 4
    for profile, share in PROFILES[prop]:
        base = QUICK_SCENARIOS.get(profile, QUICK_DEFAULT)
        total = max(8, int(base * share * (THOROUGH_FACTOR if ctx.thorough else 1)))
        chunks = workers if ctx.thorough else min(4, max(1, total // 20))
        per = max(1, total // chunks)
        for k in range(chunks):
            jobs.append((profile, ctx.seed * 7919 + hash(profile) % 1000 * 131 + k, per))
    # hash() of str is salted per process: derive deterministically instead
    jobs = [(p, ctx.seed * 7919 + sum(map(ord, p)) * 131 + k, n) for k, (p, _, n) in enumerate(jobs)]
    with ThreadPoolExecutor(max_workers=workers) as ex:
        results = list(ex.map(lambda j: (j, _run_rutrace(bin_t, driver, j[1], j[2], j[0], tracedir, 3000 if ctx.thorough else 600)), jobs))
    corr = {"evaluations": 0, "distinct_nontrivial": 0, "rule": "", "samples": [], "scenarios": 0,
            "traces_validated_against_impl": 0, "hist": {}, "profiles": {}}
    corr_ok = True
    seen = set()
    for (profile, seed, n), (summary, why) in results:
        if summary is None:
            corr_ok = False
            failures.append(vlib.failure("diff", f"{prop}/harness-crash/rutrace", why, {"why": why, "profile": profile, "seed": seed}, False))
            continue
        corr["evaluations"] += summary["evaluations"]
        corr["scenarios"] += summary["scenarios"]
        corr["traces_validated_against_impl"] += summary["scenarios"]
        corr["distinct_nontrivial"] += summary["distinct_nontrivial"]
        corr["rule"] = summary["rule"]
        corr["profiles"][profile] = corr["profiles"].get(profile, 0) + summary["scenarios"]
        for k, v in summary["hist"].items():
            corr["hist"][k] = corr["hist"].get(k, 0) + v
        if len(corr["samples"]) < 3 and summary["samples"]:
            corr["samples"].append(summary["samples"][0])
        for f in summary.get("failures") or []:
            if not _relevant(prop, f):
                continue
            corr_ok = False
            sig = _signature(prop, f)
            if sig in seen:
                continue
            seen.add(sig)
            trace_lines = []
            if f.get("trace_file") and os.path.exists(f["trace_file"]):
                trace_lines = Path(f["trace_file"]).read_text().split("\n")[: f["line"] + 1]
            found = f["kind"] == "prop" or "PANIC" in f["text"] or f["text"].startswith("C13")
            failures.append(vlib.failure(
                "prop" if found else "diff", sig, f"{f['kind']} at op {f['op']} (scenario {f['scenario']}, line {f['line']}): {f['text'][:700]}",
                {"tool": "rutrace", "seed": f["seed"], "scenario": f["scenario"], "profile": profile, "line": f["line"],
                 "failure": f["text"], "trace_file": f.get("trace_file"),
                 "first_divergence": f["text"] if f["kind"] == "diff" else None,
                 "last_ops": [json.loads(x).get("op") for x in trace_lines[-12:] if x.strip()]}, found))
    if not corr["samples"]:
        corr["samples"] = ["(no non-trivial scenario)"]
    extra.append({"name": "correspondence rutrace: model = implementation after every operation; RuSpec predicates hold on the implementation's state", "ok": corr_ok})
    ctx.log(f"rutrace: {corr['scenarios']} scenarios, {corr['evaluations']} ops, {corr['distinct_nontrivial']} non-trivial, failures={sorted(seen)}")
    return vlib.result(lean=lean, corr=corr, failures=failures, generated=generated, extra_obligations=extra,
                       assumptions=ASSUMPTIONS, trusted_base=TRUSTED)


def replay(ctx, body):
    rp = body.get("replay", {})
    prop = body["property"]
    if rp.get("tool") == "rudefects":
        ok, binary, log = vlib.go_build("rudefects")
        if not ok:
            return [vlib.failure("diff", f"{prop}/harness-build", log[-800:], {}, False)]
        rc, out, _ = vlib.run([str(binary), "--only", rp["only"]], timeout=120)
        for line in out.strip().split("\n"):
            if line.startswith("{"):
                w = json.loads(line)
                if w.get("reproduced"):
                    return [vlib.failure("prop", w["signature"], w["detail"], rp, True)]
        return []
    if rp.get("tool") == "rutrace":
        vlib.lake_build(vlib.LEAN / "core")
        ok, binary, log = vlib.go_build("rutrace")
        if not ok:
            return [vlib.failure("diff", f"{prop}/harness-build", log[-800:], {}, False)]
        summary, why = _run_rutrace(binary, vlib.lean_exe("core", "rudriver"), rp["seed"], rp["scenario"] + 1, rp["profile"],
                                    ctx.work / "traces", 600, only=rp["scenario"])
        if summary is None:
            return [vlib.failure("diff", f"{prop}/harness-crash/rutrace", why, rp, False)]
        res = []
        for f in summary.get("failures") or []:
            if f["scenario"] == rp["scenario"] and _relevant(prop, f):
                res.append(vlib.failure("prop" if f["kind"] == "prop" else "diff", _signature(prop, f), f["text"][:700], rp, f["kind"] == "prop"))
        return res
    # proof obligations: re-check the Lean side
    ent = THEOREMS.get(prop, {"modules": [], "theorems": []})
    lean = vlib.lean_check("core", ent["theorems"], audit_file=f"audit/{prop}.lean", build_targets=["Core", "rudriver"] + ent["modules"])
    return vlib.lean_failures(prop, lean)
