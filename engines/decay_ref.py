#!/usr/bin/env python3-vt
"""C09 reference evaluation: the real-valued formula of utxo.go (the one Decay/Model.lean states and
Decay/Gen.lean regenerates) evaluated with mpmath at 100 significant digits, compared pointwise with
the values the real Go code returned (lines written by `rudecay --emit`):

    y yielding created now h_ns base limit go_value

Check per point:  |go_value − ideal| ≤ 1 + 2^-44 · max(y, limit)     (exact integer comparison)

The bound is ENFORCED only on well-conditioned settings, cond := max(L/B, L/(L−B)) ≤ 2^9 (the
production settings have cond = 200; 2^-44 = 2^9 · 2^-53).  Outside that region `1 − B/L` cancels in
float64 and the code is measurably far from the ideal (e.g. base = limit − 1 ≈ 5.2e15: 0.14 % off);
there the deviation is recorded as a labelled measurement (histogram + worst point), not a failure.
The same holds for dust amounts under huge limits, L ≥ 2^44 and 0 < y < 2^-28 · L, where `(l − y)/l`
cancels: measured, not enforced.  f, g-high and g-eq (no dependence on base) are always enforced.
At most one failure per signature is reported (smallest witness) with a count.

`ideal` is the model's ℕ result.  When the un-floored real value is within 1e-60 of an integer (it
is *exactly* an integer at e.g. y = 0, x = h), both neighbouring floors are accepted as ideal.

usage: decay_ref.py [--workers N] [--max-failures K] FILE...      -> JSON summary on stdout
"""
import argparse
import json
import sys
from multiprocessing import Pool

from mpmath import mp, mpf, log, exp, floor, power, nint

DPS = 100
mp.dps = DPS
EPS = mpf(10) ** (-60)
LN2 = log(mpf(2))

_kcache = {}


def k1k2(B, L):
    key = (B, L)
    r = _kcache.get(key)
    if r is None:
        if L > B:
            k1 = 3 - 2 * log(2 * mpf(B)) / log(mpf(L))
            k2 = LN2 / power(-log(1 - mpf(B) / mpf(L)), 1 / k1)
        else:
            k1, k2 = mpf(1), mpf(1)
        if len(_kcache) > 4096:
            _kcache.clear()
        r = _kcache[key] = (k1, k2)
    return r


def floors(r):
    """candidate integer floors of the real r: [⌊r⌋] or, if r is within EPS of an integer n, [n-1, n]"""
    n = nint(r)
    if abs(r - n) < EPS:
        return [int(n) - 1, int(n)]
    return [int(floor(r))]


def ideal(y, yl, created, now, h_ns, B, L):
    """list of admissible ideal values (ℕ) of Model.value, and the branch name"""
    if now == created:
        return [y], "zero-elapsed"
    x = mpf(now - created)
    h = mpf(h_ns)
    if not yl:
        r = mpf(y) * exp(-x * LN2 / h)
        return [max(v, 0) for v in floors(r)], "f"
    l = mpf(L)
    if y < L:
        k1, k2 = k1k2(B, L)
        e = -power(x * LN2 / (k2 * h) + power(-log((l - mpf(y)) / l), 1 / k1), k1)
        r = -l * exp(e)
        return [max(v + L, 0) for v in floors(r)], "g-low"
    if L < y:
        r = (mpf(y) - l) * exp(-x * LN2 / h)
        return [max(v + L, 0) for v in floors(r)], "g-high"
    return [L], "g-eq"


def within(d, m):
    # d ≤ 1 + 2^-44·m  ⇔  d ≤ 1 or d−1 ≤ ⌊m / 2^44⌋   (integers)
    return d <= 1 or d - 1 <= (m >> 44)


def limit_bucket(L):
    if L < (1 << 44):
        return "limit<2^44"
    if L < (1 << 48):
        return "2^44<=limit<2^48"
    if L < (1 << 52):
        return "2^48<=limit<2^52"
    return "limit>=2^52"


COND_LOG2 = 9


def well_conditioned(B, L):
    """max(L/B, L/(L-B)) <= 2^9, in exact integer arithmetic"""
    return 0 < B < L and L <= (B << COND_LOG2) and L <= ((L - B) << COND_LOG2)


def dust(y, L):
    """L >= 2^44 and 0 < y < 2^-28·L, exactly"""
    return L >= (1 << 44) and 0 < y and (y << 28) < L


def ratio_bucket(r):
    if r <= 1:
        return "<=1"
    if r <= 8:
        return "1..8"
    if r <= 1000:
        return "8..1e3"
    if r <= 1e6:
        return "1e3..1e6"
    return ">1e6"


def dev_bucket(d):
    if d <= 2:
        return str(d)
    if d <= 8:
        return "3..8"
    if d <= 64:
        return "9..64"
    if d <= 512:
        return "65..512"
    return ">512"


def check_lines(lines):
    mp.dps = DPS
    n = 0
    hist = {}
    fails = []
    fail_counts = {}
    ambiguous = 0
    worst = None  # (ratio, point) in the enforced region
    worst_ill = None  # (ratio, point) outside it
    enforced = 0
    for line in lines:
        f = line.split()
        if len(f) != 8:
            raise ValueError("malformed point line: %r" % line)
        y, yl, created, now, h_ns, B, L, go = (int(t) for t in f)
        cands, br = ideal(y, bool(yl), created, now, h_ns, B, L)
        if len(cands) > 1:
            ambiguous += 1
        d = min(abs(go - c) for c in cands)
        m = max(y, L)
        n += 1
        allowed = 1 + (m >> 44)
        ratio = d / allowed
        pt = {"y": y, "yielding": bool(yl), "created": created, "now": now, "h_ns": h_ns,
              "base": B, "limit": L, "go": go, "ideal": cands, "deviation": d, "allowed": allowed}
        # only the low branch of g depends on base (k1, k2); f, g-high, g-eq are always enforced
        if br == "g-low" and (not well_conditioned(B, L) or dust(y, L)):
            why = "dust amount" if well_conditioned(B, L) else "ill-conditioned base/limit"
            k = "measured-only(" + why + "):dev/allowed:" + ratio_bucket(ratio)
            hist[k] = hist.get(k, 0) + 1
            if worst_ill is None or ratio > worst_ill[0]:
                worst_ill = (ratio, pt)
            continue
        enforced += 1
        k = "dev:" + br + ":" + dev_bucket(d)
        hist[k] = hist.get(k, 0) + 1
        if worst is None or ratio > worst[0]:
            worst = (ratio, pt)
        if not within(d, m):
            sig = "C09/go-vs-ideal/%s/%s" % (br, limit_bucket(L))
            fail_counts[sig] = fail_counts.get(sig, 0) + 1
            if True:
                fails.append({"signature": sig, "branch": br,
                              "detail": "Go value %d, ideal (100-digit) %s, |difference| %d > 1 + 2^-44*%d"
                                        % (go, "/".join(map(str, cands)), d, m),
                              "point": {"y": y, "yielding": bool(yl), "created": created, "now": now,
                                        "h_ns": h_ns, "base": B, "limit": L},
                              "go": go, "ideal": cands})
    return {"points": n, "enforced": enforced, "hist": hist, "failures": fails, "fail_counts": fail_counts,
            "ambiguous_floor": ambiguous, "worst": worst, "worst_ill": worst_ill}


def chunks(paths, size):
    buf = []
    for p in paths:
        with open(p) as fh:
            for line in fh:
                if line.strip():
                    buf.append(line)
                    if len(buf) >= size:
                        yield buf
                        buf = []
    if buf:
        yield buf


def merge(results):
    tot = {"points": 0, "enforced": 0, "hist": {}, "failures": [], "fail_counts": {}, "ambiguous_floor": 0,
           "worst": None, "worst_ill": None}
    for r in results:
        tot["points"] += r["points"]
        tot["enforced"] += r["enforced"]
        if r["worst_ill"] is not None and (tot["worst_ill"] is None or r["worst_ill"][0] > tot["worst_ill"][0]):
            tot["worst_ill"] = r["worst_ill"]
        tot["ambiguous_floor"] += r["ambiguous_floor"]
        for k, v in r["hist"].items():
            tot["hist"][k] = tot["hist"].get(k, 0) + v
        for k, v in r["fail_counts"].items():
            tot["fail_counts"][k] = tot["fail_counts"].get(k, 0) + v
        tot["failures"].extend(r["failures"])
        if r["worst"] is not None and (tot["worst"] is None or r["worst"][0] > tot["worst"][0]):
            tot["worst"] = r["worst"]
    # one failure per signature: the smallest witness (by amount, elapsed, limit), with the count
    tot["failures"].sort(key=lambda f: (f["signature"], f["point"]["y"], f["point"]["now"] - f["point"]["created"],
                                        f["point"]["limit"], json.dumps(f["point"], sort_keys=True)))
    seen, keep = set(), []
    for f in tot["failures"]:
        if f["signature"] not in seen:
            seen.add(f["signature"])
            f["count"] = tot["fail_counts"][f["signature"]]
            f["detail"] += "  [%d point(s) of this run with this signature]" % f["count"]
            keep.append(f)
    tot["failures"] = keep
    if tot["worst"] is not None:
        tot["worst"] = {"deviation_over_allowed": round(tot["worst"][0], 4), "point": tot["worst"][1]}
    if tot["worst_ill"] is not None:
        tot["worst_ill"] = {"deviation_over_allowed": round(tot["worst_ill"][0], 4), "point": tot["worst_ill"][1]}
    tot["digits"] = DPS
    tot["enforced_region"] = ("f, g-high, g-eq: all points; g-low: max(L/B, L/(L-B)) <= 2^%d and not "
                              "(L >= 2^44 and 0 < y < 2^-28*L)" % COND_LOG2)
    return tot


def main():
    ap = argparse.ArgumentParser()
    ap.add_argument("files", nargs="*")
    ap.add_argument("--workers", type=int, default=1)
    ap.add_argument("--chunk", type=int, default=2000)
    a = ap.parse_args()
    if not a.files:
        res = [check_lines([l for l in sys.stdin if l.strip()])]
    elif a.workers <= 1:
        res = [check_lines(c) for c in chunks(a.files, a.chunk)]
    else:
        with Pool(a.workers) as pool:
            res = list(pool.imap(check_lines, chunks(a.files, a.chunk), chunksize=1))
    print(json.dumps(merge(res)))


if __name__ == "__main__":
    main()
