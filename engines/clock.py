"""Engine `clock` — property C20 (periodic timestamps).

Lean side : lean/clock (Clock.Model / Lemmas / Props, Audit.lean, lean_exe clockdriver).
Go side   : harness/cmd/ruclock runs the real clock.Engine of vlib.REPO (Start / Pulse / Stop, real ticker,
            scripted application.TimeProvider) and compares the stamps with the model applied to the readings
            actually served; it also evaluates the C20 clauses directly on the implementation's stamps.
See ENGINE_CONTRACT.md.  The engine never prints VIOLATION and never writes evidence.
"""
import json
from concurrent.futures import ThreadPoolExecutor

import vlib

PKG = "clock"
NS = "Clock."
TOOL = "ruclock"
DRIVER = "clockdriver"

THEOREMS = {
    "C20": [NS + t for t in (
        "C20_aligned", "C20_aligned_unix", "C20_aligned_unix_day", "C20_aligned_unix_counterexample",
        "C20_monotone", "C20_monotone_not_strict",
        "C20_pulse", "C20_pulse_once",
        "C20_skip",
        "C20_stop", "C20_stop_partial", "C20_stop_late_bound", "C20_stop_counterexample",
        "C20_round_near", "C20_round_intended", "C20_round_late",
        "C20_degenerate_silent", "C20_degenerate_panic", "C20_no_panic",
    )],
}

# Known defect of engine.go (decided by the coordinator): `Stop` is not atomic with the check-then-call of the loop.
LATE_STOP_SIG = "C20/stop-completes-between-check-and-call-one-more-call"

QUICK_RUNS = 200
THOROUGH_RUNS = 5000
THOROUGH_PROCS = 4          # harness processes (each runs up to 64 engines concurrently)

ASSUMPTIONS = [
    "time.Ticker, the Go scheduler and the memory model are the runtime: real time (how long <-ticker.C sleeps, "
    "which tick is delivered) is NOT modelled; the theorems quantify over every list of clock readings instead, "
    "which covers every scheduling delay of the ticking goroutine",
    "times and durations are unbounded Int nanoseconds in the model (Go: int64; no overflow for readings within "
    "±2^62 ns of 1970 and periods below 2^60 ns)",
    "time.Time.Truncate/Round are modelled as arithmetic on (unix_ns + Z), Z = 62135596800e9; checked against the "
    "runtime on every run (prim evaluations), not proved about Go's 128-bit division code",
    "`Stop` is modelled by the index of the first check of `engine.started` that reads false (plain bool shared "
    "between goroutines: its visibility is the runtime's; data-race freedom is C16's subject)",
    "alignment is stated on the absolute clock Go's Round uses (ns since year 1); stamps are multiples relative to "
    "the Unix epoch iff the sub-period divides Z (C20_aligned_unix) — e.g. every period dividing one day",
    "one Engine is driven by one Start or by Pulses, not by Start and Pulse concurrently (they share one ticker)",
    "quantifier 'all period and sub-slot configurations': theorems hold for every (timer, occurrences, skipped); "
    "configurations with occurrences <= 0 or skipped >= occurrences never stamp and never observe Stop "
    "(C20_degenerate_silent), timer <= 0 or occurrences > timer_ns panic (C20_degenerate_panic): reproduced as "
    "witnesses, reported, not counted as violations of the (safety) property",
    "'no longer once it has been stopped' is proved relative to the first check that observes started == false "
    "(C20_stop); a Stop landing between that check and the call lets the one call in flight through "
    "(C20_stop_counterexample, reproduced by the late-stop witness; bound C20_stop_late_bound)",
]

TRUSTED = [
    "Lean 4 kernel; axioms propext, Classical.choice, Quot.sound only (audited per theorem on every run)",
    "hand-written model lean/clock/Clock/Model.lean (90 lines), tied to engine.go by differential testing (ruclock); "
    "its strength is bounded by generator coverage, reported in the histograms",
    "harness/cmd/ruclock (Go): scripted TimeProvider (application.TimeProviderMock), comparison logic, math/big "
    "remainder used by the property clauses",
    "lean_exe clockdriver (line protocol around Clock.Model, core Lean only)",
    "Go runtime: time.Ticker, time.Time.Truncate/Round, scheduler",
]


def _run_harness(binary, driver, args, timeout):
    cmd = [str(binary), "--driver", str(driver)] + [str(a) for a in args]
    rc, out, err = vlib.run(cmd, cwd=vlib.VERIF, timeout=timeout)
    lines = [l for l in out.strip().splitlines() if l.strip()]
    try:
        return json.loads(lines[-1]), ""
    except Exception:
        return None, f"rc={rc} no JSON summary; stdout tail: {out[-400:]!r} stderr tail: {err[-1200:]!r}"


def _merge_hist(dst, src):
    for k, v in (src or {}).items():
        if isinstance(v, dict):
            _merge_hist(dst.setdefault(k, {}), v)
        else:
            dst[k] = dst.get(k, 0) + v


def _to_failures(summary):
    out = []
    for f in summary.get("failures", []):
        out.append(vlib.failure(f.get("kind", "diff"), f["signature"], f.get("detail", ""),
                                {"tool": TOOL, **(f.get("replay") or {})}, bool(f.get("found_input"))))
    return out


def _late_stop_failure(witness, sample, count):
    """The one failure for the late-Stop defect: a concrete input on the real Engine (config + readings + where Stop
    is called), emitted at most once per check, with the number of occurrences seen by this check in the detail."""
    src = witness if witness is not None else sample
    case = src.get("case")
    outcome = src.get("outcome") or {}
    k = (case or {}).get("stop_k")
    detail = (f"Stop() completing after the loop's check of `started` but before the call does not prevent that call: "
              f"with timer={case.get('timer_ns')}ns occurrences={case.get('occurrences')} skipped={case.get('skipped')} and "
              f"readings {outcome.get('served')}, Stop() was called (and returned) from inside watch.Now() call #{k} — the "
              f"reading of the occurrence whose check had just passed — and function({', '.join(map(str, (outcome.get('stamps') or [])[-1:]))}) "
              f"was still invoked afterwards ({outcome.get('calls_begun_after_stop')} call begun after Stop; never more than one: "
              f"C20_stop_late_bound is checked on every run). Occurrences in this check: {count} "
              f"(fixed witness + every generated run whose Stop landed in that window). Lean: Clock.C20_stop_counterexample.")
    return vlib.failure("prop", LATE_STOP_SIG, detail,
                        {"tool": TOOL, "case": case, "readings_served": outcome.get("served"),
                         "stamps": outcome.get("stamps"),
                         "stop_placement": f"Stop() called from inside watch.Now() call #{k} (0 = initialTime); it sets started=false "
                                           f"after check #{(k or 1) - 1} read true and before engine.function is entered",
                         "calls_begun_after_stop": outcome.get("calls_begun_after_stop"), "model": src.get("model"),
                         "theorem": "Clock.C20_stop_counterexample"}, True)


def _build(prop, failures, extra):
    ok, binary, blog = vlib.go_build(TOOL)
    driver = vlib.lean_exe(PKG, DRIVER)
    if not ok:
        failures.append(vlib.failure("diff", f"{prop}/harness-build/{TOOL}",
                                     "harness no longer builds against the tree: " + blog[-1200:],
                                     {"log": blog[-4000:]}, False))
        extra.append({"name": f"correspondence {TOOL}", "ok": False})
        return None, None
    if not driver.exists():
        failures.append(vlib.failure("diff", f"{prop}/driver-missing/{DRIVER}", "model driver was not built", {}, False))
        extra.append({"name": f"correspondence {TOOL}", "ok": False})
        return None, None
    return binary, driver


def run(ctx):
    prop = ctx.prop
    lean = vlib.lean_check(PKG, THEOREMS[prop], thorough=ctx.thorough, checker_modules=["Clock.Props"])
    failures = vlib.lean_failures(prop, lean)
    extra = []
    _ob, _sf = vlib.skeleton_tie(prop, "clock")
    extra.append(_ob)
    failures += _sf
    ctx.log("lean:", "ok" if lean["ok"] else "NOT ok")
    binary, driver = _build(prop, failures, extra)
    if binary is None:
        return vlib.result(lean=lean, failures=failures, extra_obligations=extra, assumptions=ASSUMPTIONS,
                           trusted_base=TRUSTED)

    # 1. witnesses of the counterexample / degenerate-configuration theorems, on the real Engine (own process:
    #    the engines that never observe Stop are left spinning and die with it)
    wsum, why = _run_harness(binary, driver, ["--witness"], timeout=120)
    witnesses = (wsum or {}).get("witnesses") or [{"name": "witness-run", "theorem": "", "reproduced": False, "detail": why}]
    wit_ok = all(w.get("reproduced") for w in witnesses)
    late_witness = next((w for w in witnesses if w.get("name") == "late-stop" and w.get("reproduced")), None)
    for f in _to_failures(wsum or {}):            # anything stronger than the known window (C20/stop-ignored/...)
        failures.append(f)
    extra.append({"name": "witnesses of Clock.Props (*_counterexample, *_not_strict, degenerate configurations) reproduce "
                          "on the real Engine (False = the code no longer shows that behaviour: re-state the theorems)",
                  "ok": wit_ok})
    for w in witnesses:
        if not w.get("reproduced"):
            failures.append(vlib.failure("tie", f"{prop}/witness-not-reproduced/{w['name']}",
                                         f"the witness of {w.get('theorem')} no longer reproduces on the code "
                                         f"(model and implementation disagree): {w.get('detail')}",
                                         {"tool": TOOL, "witness": w, "case": w.get("case")}, w.get("case") is not None))

    # 2. correspondence + direct evaluation of the C20 clauses
    if ctx.thorough:
        per = THOROUGH_RUNS // THOROUGH_PROCS
        jobs = [(ctx.seed * 1000 + i, per) for i in range(THOROUGH_PROCS)]
        # run the processes one after the other pair-wise: the realtime cases want free cores
        with ThreadPoolExecutor(max_workers=2) as ex:
            results = list(ex.map(lambda j: _run_harness(binary, driver, ["--seed", j[0], "--runs", j[1]], 1200), jobs))
    else:
        results = [_run_harness(binary, driver, ["--seed", ctx.seed, "--runs", QUICK_RUNS], 300)]

    corr = {"evaluations": 0, "distinct_nontrivial": 0, "rule": "", "samples": [], "engine_runs": 0,
            "prim_evaluations": 0, "traces_validated_against_impl": 0, "realtime_retries": 0, "late_stop_calls": 0,
            "hist": {},
            "witnesses": witnesses, "worker_seeds": []}
    corr_ok = True
    seen = set()
    late_sample = None
    for summary, why in results:
        if summary is None:
            corr_ok = False
            failures.append(vlib.failure("diff", f"{prop}/harness-crash/{TOOL}", why, {"why": why}, False))
            continue
        if late_sample is None:
            late_sample = summary.get("late_stop_sample")
        for k in ("evaluations", "distinct_nontrivial", "engine_runs", "prim_evaluations",
                  "traces_validated_against_impl", "realtime_retries", "late_stop_calls"):
            corr[k] += summary.get(k, 0)      # distinct: per process, seeds differ
        corr["rule"] = summary["rule"]
        corr["worker_seeds"].append(summary["seed"])
        if len(corr["samples"]) < 4:
            corr["samples"] += summary["samples"][:4 - len(corr["samples"])]
        _merge_hist(corr["hist"], summary["hist"])
        if summary.get("aborted"):
            corr["aborted"] = summary["aborted"]
        for f in _to_failures(summary):
            corr_ok = False
            if f["signature"] not in seen:
                seen.add(f["signature"])
                failures.append(f)
    if not corr["samples"]:
        corr["samples"] = ["(no non-trivial run)"]
    extra.append({"name": f"correspondence {TOOL} (real Engine vs Clock.Model on the readings served) + C20 clauses "
                          "evaluated on the implementation's stamps", "ok": corr_ok})
    # the known late-Stop defect: one failure per check (fixed witness first, so it is emitted deterministically)
    late_count = corr["late_stop_calls"] + (1 if late_witness is not None else 0)
    if late_count > 0:
        failures.append(_late_stop_failure(late_witness, late_sample, late_count))
    ctx.log(f"{TOOL}: {corr['engine_runs']} engine runs, {corr['prim_evaluations']} Truncate/Round evaluations, "
            f"{corr['distinct_nontrivial']} non-trivial, {len(failures)} failure(s)")
    late = corr["hist"].get("calls_begun_after_stop", {})
    notes = ("(a) FAILURE " + LATE_STOP_SIG + ": a Stop completing between the check of `started` and the call lets that one "
             "call through (C20_stop_counterexample; calls begun after Stop per run: " + json.dumps(late, sort_keys=True) +
             "); reported, not failing: (b) stamps repeat when two readings round to the same boundary (C20_monotone_not_strict; "
             "repeated stamps per run: " + json.dumps(corr["hist"].get("repeated_stamps", {}), sort_keys=True) +
             "); (c) occurrences <= 0 or skipped >= occurrences: the loop never stamps and never observes Stop; "
             "occurrences > timer_ns: Ticker.Reset(0) panics (witnesses above).")
    return vlib.result(lean=lean, corr=corr, failures=failures, extra_obligations=extra,
                       assumptions=ASSUMPTIONS, trusted_base=TRUSTED, notes=notes)


def replay(ctx, body):
    """Re-execute a replay file on the current tree; returns the failures that still occur."""
    prop = body.get("property", "C20")
    payload = body.get("replay") or {}
    if payload.get("tool") != TOOL or not payload.get("case"):
        lean = vlib.lean_check(PKG, THEOREMS[prop], thorough=False)
        return vlib.lean_failures(prop, lean)
    ok, log = vlib.lake_build(vlib.LEAN / PKG)
    if not ok:
        return [vlib.failure("proof", f"{prop}/lean-build/lean/{PKG}", log[-800:], {}, False)]
    failures, extra = [], []
    binary, driver = _build(prop, failures, extra)
    if binary is None:
        return failures
    if "witness" in payload:
        wsum, why = _run_harness(binary, driver, ["--witness"], timeout=120)
        for w in (wsum or {}).get("witnesses") or [{"name": "witness-run", "reproduced": False, "detail": why}]:
            if not w.get("reproduced") and w["name"] == payload["witness"].get("name", w["name"]):
                failures.append(vlib.failure("tie", f"{prop}/witness-not-reproduced/{w['name']}", str(w.get("detail")),
                                             {"tool": TOOL, "witness": w, "case": w.get("case")}, True))
        return failures
    path = ctx.work / "case.json"
    path.write_text(json.dumps({"case": payload["case"]}))
    if body.get("signature") == LATE_STOP_SIG:
        summary, why = _run_harness(binary, driver, ["--seed", body.get("seed", 0), "--replay", path], timeout=300)
        if summary is None:
            return [vlib.failure("diff", f"{prop}/harness-crash/{TOOL}", why, {}, False)]
        failures = _to_failures(summary)
        if summary.get("late_stop_calls", 0) > 0:
            failures.append(_late_stop_failure(None, summary["late_stop_sample"], summary["late_stop_calls"]))
        return failures
    # scheduling-dependent cases (async stop, realtime) are repeated
    reps = 5 if payload["case"].get("stop_mode") == "async" or payload["case"].get("kind") == "realtime" else 1
    for _ in range(reps):
        summary, why = _run_harness(binary, driver, ["--seed", body.get("seed", 0), "--replay", path], timeout=300)
        if summary is None:
            return [vlib.failure("diff", f"{prop}/harness-crash/{TOOL}", why, {}, False)]
        failures = _to_failures(summary)
        if failures:
            return failures
    return []
