"""Engine `conc` — property C16 (concurrent activities) and the leak part of C13 (`leak_check`).

The model of this engine is REGENERATED FROM THE GO SOURCE on every run:

  harness/cmd/ruextract-conc  (go/ast, syntactic, fail-closed)  ->  lean/conc/Conc/Gen.lean + tables.json
        methods (ordered acq/rel/access/call/spawn/channel events, defer resolved), escapes, roots, fetch shape,
        knownRaces (the failing rows), lockRank, knownPlacements
  lean/conc                    general theorems proved once (lockset_race_free, static_race_free, acyclic_no_deadlock,
                               noLeak_sound) + table theorems re-checked by the kernel (`decide +kernel`) over Gen.lean
  harness/cmd/ruconc (-race)   every row of knownRaces is replayed on a REAL node under the race detector; pairs and
                               triples of the node's activities with deadlock / panic detection and invariants at
                               quiescence; goroutine-leak matrix (C13); placement replay through decorated interfaces

`C16_discipline` (module Conc.Props.RaceFull) is the full statement; it checks on the current tree (knownRaces = []).
When a source change introduces unprotected pairs the extractor lists them in knownRaces, RaceFull stops checking, and
every row of knownRaces is returned as a failure with the signature C16/race/<Type.field>/<methodA>|<methodB>
(found_input = the race detector named the row).  See ENGINE_CONTRACT.md.
"""
import json
import re
from pathlib import Path

import vlib

PKG = "conc"
PKG_DIR = vlib.LEAN / PKG
GEN = PKG_DIR / "Conc" / "Gen.lean"
NS = "Conc."

GROUPS = {
    "Race": {"module": "Conc.Props.Race", "audit": "AuditRace.lean", "theorems": [
        "lockset_race_free", "static_race_free", "C16_tables_complete", "C16_discipline_partial",
        "C16_discipline_counterexamples", "C16_race_free_protected", "C16_no_race_outside_list"]},
    "RaceFull": {"module": "Conc.Props.RaceFull", "audit": "AuditRaceFull.lean", "theorems": [
        "C16_discipline", "C16_race_free", "C16_no_race"]},
    "Order": {"module": "Conc.Props.Order", "audit": "AuditOrder.lean", "theorems": [
        "acyclic_no_deadlock", "C16_lock_order_table", "C16_lock_order"]},
    "Placement": {"module": "Conc.Props.Placement", "audit": "AuditPlacement.lean", "theorems": [
        "C16_placement_partial", "C16_placement_counterexamples"]},
    "Leak": {"module": "Conc.Props.Leak", "audit": "AuditLeak.lean", "theorems": [
        "reach_in_closed", "noLeak_sound", "C13_no_leak", "C13_no_leak_reach", "fetch_old_leaks",
        "fetch_return_without_buffer_leaks", "fetch_two_slots_no_leak"]},
}
C16_GROUPS = ["Race", "RaceFull", "Order", "Placement"]

ASSUMPTIONS = [
    "the extractor ruextract-conc is TRUSTED and SYNTACTIC (go/ast only, six anchored files + main.go/node.go/host.go/"
    "controllers for the wiring); it fails closed on any construct it does not understand; branches are linearised "
    "(then, else), loop bodies are interpreted twice, a lock taken under `if g {…; defer Unlock()}` counts as held exactly "
    "inside `if g` blocks (g may only be reset to false)",
    "Go memory model abstracted to mutex happens-before: program order + Unlock->Lock on one mutex in incompatible modes + "
    "`go` statements; channels, WaitGroups, atomics are NOT orderings of the model (they only add orderings in the real "
    "program); channels appear only in the fetch micro-model of C13",
    "locations are component fields: `T.f` (the field itself), `T.f[]` (its backing store), `T.f[][]`; ledger objects "
    "(blocks, transactions, UTXOs) reached through them are treated as immutable after publication (C12's subject): a race "
    "the detector reports on such an object downstream of a listed location is counted as `derived`, not as a new row",
    "append-only writes (`s = append(s, x)` on a non-resliced field) conflict with writes and appends, not with reads of "
    "already published slots; a reader that got the header without ordering is already a listed row on the header",
    "swap-detach: a local alias of a map/slice field taken inside a W critical section in which the field is replaced by a "
    "fresh container becomes private to the thread (Neighborhood.Synchronize)",
    "instances created by a thread (Copy(), newBlockchain, &T{}) are confined to it; their own fields and mutexes are "
    "not table facts, accesses they make to LIVE storage through aliases are attributed to the calling method",
    "roots: the 4 engines of validatornode/main.go (one goroutine each), the host handlers (any number of goroutines: "
    "two copies), and exported methods without any call site in the node (Engine.Stop, Engine.Pulse: assumed callable from "
    "any goroutine, on one representative engine instance)",
    "deadlock theorem: mutexes only, strict blocking (a pending writer blocks new readers; re-entrant acquisition blocks); "
    "it is a statement about ALL program-counter vectors of the flattened straight-line threads",
    "placements: `excluded`/`stale`/safe at table level is a PROXY for atomicity; whether C01-C07 style invariants hold after "
    "a placement is decided by replay on the real code (ruconc placements), compared with both sequential orders",
    "dynamic runs are samples of schedules: a row the race detector did not name within the run budget is reported with "
    "no-failing-input-found; the detector reports one race per address and process, so rows sharing a location are "
    "confirmed over several processes (and, for an access inside a helper called by the row's method, through the "
    "enclosing call)",
]

TRUSTED = [
    "Lean 4 kernel; axioms propext, Classical.choice, Quot.sound only (audited per theorem on every run); table theorems "
    "by `decide +kernel` (kernel evaluation, no native code)",
    "harness/cmd/ruextract-conc (Go, ~1900 lines): the translation Go source -> event tables, including alias tracking, "
    "defer resolution, wiring of interface fields from the constructors and the choice of roots",
    "the model lean/conc/Conc/Model.lean (RW-mutex semantics, happens-before) as an abstraction of the Go memory model",
    "harness/cmd/ruconc (Go): scenario (two block lineages served by scripted neighbours), drivers, decorators, invariants; "
    "Go's race detector (ThreadSanitizer) and runtime.NumGoroutine",
    "harness/internal/node: in-process assembly of a real validator with fakes at the system boundary",
]


def _names(groups):
    out = []
    for g in groups:
        out += [NS + t for t in GROUPS[g]["theorems"]]
    return out


# ------------------------------------------------------------------ regeneration + Lean

def _extract(ctx):
    """Run the extractor on vlib.REPO.  Returns (gen_text or None, tables dict or None, error)."""
    ok, binary, log = vlib.go_build("ruextract-conc")
    if not ok:
        return None, None, "harness/cmd/ruextract-conc does not build: " + log[-1500:]
    out = ctx.work / "Gen.lean"
    tj = ctx.work / "tables.json"
    rc, so, se = vlib.run([str(binary), "--repo", str(vlib.REPO), "--out", str(out), "--json", str(tj)], timeout=120)
    if rc != 0 or not out.exists() or not tj.exists():
        return None, None, (se or so or "extractor failed").strip()[-1500:]
    return out.read_text(), json.loads(tj.read_text()), None


def _group_check(groups, thorough):
    """Build + audit the requested groups; one module per group so that a broken obligation of one part does not hide
    the others.  Returns a lean_check-shaped dict."""
    single = len(groups) == 1
    full = vlib.lean_check(PKG, _names(groups), thorough=thorough,
                           checker_modules=[GROUPS[g]["module"] for g in groups],
                           audit_file=GROUPS[groups[0]]["audit"] if single else "Audit.lean",
                           build_targets=[GROUPS[groups[0]]["module"], "concdriver"] if single else None)
    if full["built"]:
        return full
    # per group
    res = {"package": f"lean/{PKG}", "theorems": [], "forbidden_hits": full["forbidden_hits"], "built": True,
           "build_log_tail": "", "checker_cmd": full["checker_cmd"], "groups_failed": []}
    base_ok, base_log = vlib.lake_build(PKG_DIR, ["Conc.Gen", "Conc.Placement", "concdriver"])
    if not base_ok:
        res["built"] = False
        res["build_log_tail"] = base_log[-3000:]
        for t in _names(groups):
            res["theorems"].append({"name": t, "axioms": None, "ok": False, "why": "Conc.Gen does not elaborate"})
        res["ok"] = False
        return res
    for g in groups:
        one = vlib.lean_check(PKG, _names([g]), thorough=thorough, checker_modules=[GROUPS[g]["module"]],
                              audit_file=GROUPS[g]["audit"], build_targets=[GROUPS[g]["module"]])
        if not one["built"]:
            res["groups_failed"].append(g)
            err = _first_error(one["build_log_tail"])
            res["build_log_tail"] += f"\n[{g}] " + one["build_log_tail"][-1500:]
            for t in _names([g]):
                res["theorems"].append({"name": t, "axioms": None, "ok": False,
                                        "why": f"module {GROUPS[g]['module']} no longer checks: {err}"})
        else:
            res["theorems"] += one["theorems"]
            if one.get("leanchecker_ok") is False:
                res["leanchecker_ok"] = False
    res["ok"] = not res["forbidden_hits"] and all(t["ok"] for t in res["theorems"])
    return res


def _first_error(log):
    m = re.search(r"error: (?:\./)?(Conc/[\w/]+\.lean:\d+:\d+:.*?)(?:\n\S|\Z)", log, re.S)
    return (m.group(1) if m else log[-300:]).strip()[:500]


def _lean(ctx, groups):
    """Regenerate Gen.lean from vlib.REPO, then check `groups`.
    Returns (lean result, tables, driver json or None, generated list, obligations, failures)."""
    prop = ctx.prop
    failures, obligations = [], []
    with vlib.flock("conc-gen"):
        committed = GEN.read_text() if GEN.exists() else ""
        text, tables, err = _extract(ctx)
        srcs = (tables or {}).get("sources", [])
        generated = [{"file": "lean/conc/Conc/Gen.lean", "from": [s["file"] for s in srcs] or "six anchored files + wiring",
                      "source_sha256": {s["file"]: s["sha256"] for s in srcs},
                      "translator": "harness/cmd/ruextract-conc", "regenerated_this_run": text is not None,
                      "identical_to_committed_copy": (text == committed) if text is not None else None}]
        obligations.append({"name": "extractor ruextract-conc accepts the current sources (fail-closed)", "ok": text is not None})
        if text is None:
            failures.append(vlib.failure(
                "table", f"{prop}/extractor-rejects-source",
                "ruextract-conc no longer understands the anchored sources, so the lock/access/escape tables cannot be "
                "regenerated and no theorem over them checks: " + err,
                {"kind": "table", "extractor_error": err, "no_longer_checks": _names(groups)}, False))
            lean = {"package": f"lean/{PKG}", "built": True, "forbidden_hits": [], "build_log_tail": err,
                    "checker_cmd": f"(cd lean/{PKG} && lake build && lake env lean Audit.lean)", "ok": False,
                    "theorems": [{"name": t, "axioms": None, "ok": False,
                                  "why": "tables could not be regenerated from the source"} for t in _names(groups)]}
            return lean, None, None, generated, obligations, failures
        wrote = False
        try:
            if text != committed:
                GEN.write_text(text)
                wrote = True
                ctx.log("Gen.lean differs from the committed copy; rebuilding")
            lean = _group_check(groups, ctx.thorough)
            driver = None
            exe = vlib.lean_exe(PKG, "concdriver")
            if exe.exists():
                rc, so, se = vlib.run([str(exe)], timeout=120)
                try:
                    driver = json.loads(so.strip().splitlines()[-1])
                except Exception:
                    driver = None
        finally:
            if wrote and vlib._alt_repo():
                GEN.write_text(committed)   # a scratch tree must not leave its tables in the committed package
    return lean, tables, driver, generated, obligations, failures


# ------------------------------------------------------------------ ruconc

def _ruconc(binary, args, timeout):
    rc, out, err = vlib.run([str(binary)] + args, cwd=vlib.VERIF, timeout=timeout)
    lines = [l for l in out.strip().splitlines() if l.strip()]
    try:
        summary = json.loads(lines[-1])
    except Exception:
        return None, f"rc={rc} no JSON summary; stdout tail {out[-400:]!r} stderr tail {err[-800:]!r}"
    if "fatal" in summary:
        return None, "ruconc: " + str(summary["fatal"])
    return summary, ""


def _to_failures(summary):
    out = []
    for f in summary.get("failures") or []:
        out.append(vlib.failure(f.get("kind", "prop"), f["signature"], f.get("detail", ""), f.get("replay") or {},
                                bool(f.get("found_input"))))
    return out


def _slim(report):
    """keep a race report small in replay payloads"""
    if not isinstance(report, dict):
        return report
    acc = []
    for a in report.get("accesses", [])[:2]:
        acc.append({"op": a.get("op"), "frames": [f"{f.get('func', '').split('/')[-1]} {Path(f.get('file', '')).name}:{f.get('line')}"
                                                     for f in a.get("frames", [])[:6]]})
    return acc


def _interleave(ctx):
    from concurrent.futures import ThreadPoolExecutor
    ok, binary, blog = vlib.go_build("rutrace")
    vlib.lake_build(vlib.LEAN / "core", ["rudriver"])
    driver = vlib.lean_exe("core", "rudriver")
    if not ok or not driver.exists():
        return {"crash": "rutrace / rudriver not built: " + blog[-600:]}
    total = 45 * (20 if ctx.thorough else 1)
    chunks = vlib.ncpu() if ctx.thorough else 3
    tracedir = vlib.VERIF / "replays" / "traces"

    def one(k):
        seed = ctx.seed * 7919 + 16 * 131 + k
        rc, out, err = vlib.run([str(binary), "--seed", str(seed), "--scenarios", str(max(4, total // chunks)), "--profile", "interleave",
                                 "--driver", str(driver), "--tracedir", str(tracedir)], timeout=2400 if ctx.thorough else 500)
        try:
            return seed, json.loads(out.strip().split("\n")[-1])
        except Exception:
            return seed, {"crash": (out + err)[-600:]}
    with ThreadPoolExecutor(max_workers=chunks) as ex:
        results = list(ex.map(one, range(chunks)))
    res = {"scenarios": 0, "ticksync": 0, "synctick": 0, "syncsubmit": 0, "unserializable": 0, "failures": []}
    seen = set()
    for seed, s in results:
        if "crash" in s:
            res["crash"] = s["crash"]
            continue
        h = s.get("hist", {})
        res["scenarios"] += s.get("scenarios", 0)
        res["ticksync"] += h.get("op:ticksync", 0)
        res["synctick"] += h.get("op:synctick", 0)
        res["syncsubmit"] += h.get("op:syncsubmit", 0)
        res["unserializable"] += h.get("ticksync:chain-no-fresh-node-adopts", 0)
        for f in s.get("failures") or []:
            sig = f"C16/interleave/{f['kind']}/{f['op']}"
            if sig in seen:
                continue
            seen.add(sig)
            res["failures"].append(vlib.failure(
                "diff", sig, f"{f['kind']} at op {f['op']} (scenario {f['scenario']}, line {f['line']}): {f['text'][:600]}",
                {"tool": "rutrace", "seed": f["seed"], "scenario": f["scenario"], "profile": "interleave", "line": f["line"],
                 "failure": f["text"], "trace_file": f.get("trace_file")}, False))
    return res


# ------------------------------------------------------------------ C16

def _lone(ctx, binary, prop, add, obligations):
    """sequential liveness in the degenerate configurations (no seed, failing oracle, ...): every call sequence of length
    <= 3 (thorough: 4) over the public methods of the real Neighborhood and AddressesRegistry returns"""
    lone, why = _ruconc(binary, ["--mode", "lone", "--select", "thorough" if ctx.thorough else "quick"], 900)
    if lone is None:
        add(vlib.failure("diff", f"{prop}/harness-crash/ruconc-lone", why, {"why": why}, False))
    else:
        for f in _to_failures(lone):
            add(f)
        ctx.log(f"lone: {lone['configs']} configurations, {lone['sequences']} call sequences, {lone['calls']} calls, "
                f"blocked={lone['blocked']} panicked={lone['panicked']}")
    obligations.append({"name": "every call sequence over a lone Neighborhood / AddressesRegistry returns (no lock left held by a "
                                f"finished call): {(lone or {}).get('sequences', 0)} sequences", "ok": lone is not None and not lone["failures"]})
    return lone


def run(ctx):
    prop = ctx.prop
    lean, tables, driver, generated, obligations, failures = _lean(ctx, C16_GROUPS)
    failures += vlib.lean_failures(prop, lean)
    ctx.log("lean:", "ok" if lean.get("ok") else "NOT ok")
    # the core model's operation-level interleavings of a sync round with block production (lean/core: Core/Interleave,
    # Core/Props/Cinter, Core/Props/C16tick): which ones are simulated by a sequential history (theorem) and the one that
    # is not (counterexample theorem = the known finding replayed by the tipswap-conflict placements below)
    core_th = json.loads((Path(__file__).parent / "core_theorems.json").read_text()).get("C16")
    if core_th:
        lc = vlib.lean_check("core", core_th["theorems"], audit_file="audit/C16.lean", build_targets=["Core"] + core_th["modules"])
        failures += vlib.lean_failures(prop, lc)
        lean["theorems"] = lean.get("theorems", []) + lc["theorems"]
        lean["forbidden_hits"] = lean.get("forbidden_hits", []) + lc["forbidden_hits"]
        lean["ok"] = bool(lean.get("ok")) and lc["built"] and all(t["ok"] for t in lc["theorems"]) and not lc["forbidden_hits"]
        lean["checker_cmd"] = lean.get("checker_cmd", "") + " && " + lc["checker_cmd"]
        obligations.append({"name": "lean/core: a tick inside a sync round is simulated by a sequential history (stepX_shadow, runX_simulated); "
                                    "a round inside block production is not (C16_tickSync_counterexample, the known finding), "
                                    "unless the round keeps the ledger (tickSync_round_kept)",
                            "ok": lc["built"] and all(t["ok"] for t in lc["theorems"])})
        ctx.log("lean/core (interleavings):", "ok" if obligations[-1]["ok"] else "NOT ok")
    corr = {"evaluations": 0, "distinct_nontrivial": 0, "rule": "", "samples": [], "traces_validated_against_impl": 0}
    if tables is None:
        # the tables cannot be regenerated (the proof side no longer checks): the searches for a failing input that need
        # no table still run
        ok, binary, blog = vlib.go_build("ruconc", race=True)
        if ok:
            sigs = {f["signature"] for f in failures}
            lone = _lone(ctx, binary, prop, lambda f: None if f["signature"] in sigs else failures.append(f), obligations)
            if lone:
                corr.update({"evaluations": lone["sequences"], "distinct_nontrivial": lone["sequences"],
                             "rule": "call sequences over lone components", "samples": ["lone"], "traces_validated_against_impl": lone["sequences"]})
        return vlib.result(lean=lean, corr=corr, failures=failures, generated=generated, extra_obligations=obligations,
                           assumptions=ASSUMPTIONS, trusted_base=TRUSTED)
    seen = {f["signature"] for f in failures}

    def add(f):
        if f["signature"] not in seen:
            seen.add(f["signature"])
            failures.append(f)

    # cross-check: the compiled Lean definitions and the extractor agree on the failing rows
    if driver is not None:
        want = sorted([r["loc"], r["a"], r["b"]] for r in tables["rows"])
        agree = sorted(driver.get("failingRows", [])) == want and driver.get("complete") is True
        obligations.append({"name": "failing rows computed by lean/conc (concdriver) = knownRaces of the extractor", "ok": agree})
        if not agree:
            add(vlib.failure("table", f"{prop}/tables/extractor-and-lean-disagree",
                             "the extractor and the Lean definitions compute different sets of unprotected rows",
                             {"lean": driver.get("failingRows"), "extractor": want}, False))
        corr["fetch_model_states"] = driver.get("fetch", {}).get("states")
        corr["lean_threads"] = driver.get("threads")
        corr["lean_accesses"] = driver.get("accesses")
        corr["placement_points"] = driver.get("placementPoints")
    # lock order: name the cycle
    if tables.get("lockCycle"):
        cyc = ">".join(tables["lockCycle"])
        edges = [e for e in tables["lockEdges"] if tables["mutexes"][e["from"]] in tables["lockCycle"]
                 and tables["mutexes"][e["to"]] in tables["lockCycle"]]
        add(vlib.failure("table", f"{prop}/lock-order/cycle/{cyc}",
                         "the acquired-while-holding relation of the regenerated tables has a cycle (C16_lock_order no longer "
                         "checks): " + "; ".join(f"{tables['mutexes'][e['from']]}:{e['fromMode']} -> {tables['mutexes'][e['to']]}:{e['toMode']} "
                                                 f"in {e['owner']} ({e['file']}:{e['line']}, {e['root']})" for e in edges),
                         {"cycle": tables["lockCycle"], "edges": edges, "no_longer_checks": NS + "C16_lock_order"}, False))
    for u in tables.get("unbalanced") or []:
        add(vlib.failure("table", f"{prop}/lock-order/unbalanced/{u}", "a thread ends holding a mutex: " + u, {"thread": u}, False))

    ok, binary, blog = vlib.go_build("ruconc", race=True)
    if not ok:
        add(vlib.failure("diff", f"{prop}/harness-build/ruconc", "ruconc no longer builds (-race) against the tree: " + blog[-1200:],
                         {"log": blog[-4000:]}, False))
        obligations.append({"name": "ruconc stress (known rows, pairs, triples) under -race", "ok": False})
        for r in tables["rows"]:
            add(vlib.failure("table", r["signature"], "unprotected access pair (static): " + r["desc"],
                             {"row": {k: r[k] for k in ("locName", "aName", "bName", "witnesses")}}, False))
        return vlib.result(lean=lean, corr=corr, failures=failures, generated=generated, extra_obligations=obligations,
                           assumptions=ASSUMPTIONS, trusted_base=TRUSTED)
    tpath = ctx.work / "tables.json"
    races = ctx.work / "races"
    races.mkdir(exist_ok=True)
    workers = str(min(16, vlib.ncpu()))
    if ctx.thorough:
        args = ["--select", "allpairs", "--triples", "40", "--iters", "60"]
        tmo = 780
    else:
        args = ["--select", "known", "--triples", "2", "--iters", "40"]
        tmo = 240
    stress, why = _ruconc(binary, ["--mode", "stress", "--tables", str(tpath), "--work", str(races), "--seed", str(ctx.seed),
                                   "--workers", workers, "--repo", str(vlib.REPO)] + args, tmo)
    stress_ok = stress is not None
    confirmed = {}
    if stress is None:
        add(vlib.failure("diff", f"{prop}/harness-crash/ruconc-stress", why, {"why": why}, False))
    else:
        for r in stress["rows"]:
            confirmed[r["signature"]] = r
        for f in _to_failures(stress):
            if isinstance(f["replay"], dict) and "report" in f["replay"]:
                f["replay"]["report"] = _slim(f["replay"]["report"])
            add(f)
        ctx.log(f"stress: {stress['runs']} child runs, {stress['race_reports']} race reports, "
                f"{stress['confirmed']}/{stress['known_rows']} rows named by the detector")
    # every row of knownRaces is a counterexample to C16_discipline_full
    for r in tables["rows"]:
        c = confirmed.get(r["signature"], {})
        hit = bool(c.get("confirmed"))
        detail = "unprotected conflicting accesses (no common mutex in incompatible modes): " + r["desc"]
        if hit:
            detail += f"; the race detector names this pair when {' and '.join(c.get('by') or [])} run concurrently on a real node"
        elif c and not c.get("drivable", True):
            detail += "; no driver for the roots that reach it (static finding only)"
        else:
            detail += "; not named by the race detector within this run's budget (static finding only)"
        add(vlib.failure("table", r["signature"], detail,
                         {"tool": "ruconc", "mode": "stress", "roots": c.get("by") or [r["witnesses"][0]["rootA"], r["witnesses"][0]["rootB"]],
                          "row": {"loc": r["locName"], "a": r["aName"], "b": r["bName"], "witness": r["witnesses"][0]},
                          "report": _slim(c.get("report")), "no_longer_checks": NS + "C16_discipline_full"}, hit))
    obligations.append({"name": "ruconc stress (known rows, pairs, triples) under -race ran", "ok": stress_ok})

    # placements
    place, why = _ruconc(binary, ["--mode", "placements", "--tables", str(tpath), "--work", str(races), "--seed", str(ctx.seed),
                                  "--workers", workers, "--select", "thorough" if ctx.thorough else "quick"], 600)
    if place is None:
        add(vlib.failure("diff", f"{prop}/harness-crash/ruconc-placements", why, {"why": why}, False))
    else:
        for f in _to_failures(place):
            add(f)
        ctx.log(f"placements: {place['replayed']} replayed, {place['fired']} reached, {len(place['violations'])} violated")
    obligations.append({"name": "ruconc placements (decorated interfaces) ran", "ok": place is not None})

    lone = _lone(ctx, binary, prop, add, obligations)

    # operation-level interleavings of the core model against the real code (rutrace, profile interleave, monitors off):
    # the model's stepTickSync / stepX candidates must contain the implementation's state after every such operation —
    # the unserializable outcome of the known finding included (it is PREDICTED by the model, C16_tickSync_counterexample)
    inter = _interleave(ctx)
    if inter.get("crash"):
        add(vlib.failure("diff", f"{prop}/harness-crash/rutrace-interleave", inter["crash"], {"why": inter["crash"]}, False))
    for f in inter.get("failures", []):
        add(f)
    obligations.append({"name": "core model = implementation through a round committing inside block production, a tick inside a "
                                f"round, a submission inside a round ({inter.get('ticksync', 0)} + {inter.get('synctick', 0)} + "
                                f"{inter.get('syncsubmit', 0)} such operations over {inter.get('scenarios', 0)} histories; "
                                f"{inter.get('unserializable', 0)} ended in the chain of the known finding, as the model predicted)",
                        "ok": not inter.get("crash") and not inter.get("failures")})
    ctx.log(f"interleave: {inter.get('scenarios', 0)} histories, ticksync={inter.get('ticksync', 0)} "
            f"(unserializable outcomes predicted: {inter.get('unserializable', 0)}), failures={len(inter.get('failures', []))}")

    if stress:
        nontrivial = sum(1 for r in stress["run_summaries"] if r.get("race_reports", 0) > 0 or r.get("replaced") or r.get("admitted", 0) > 0)
        corr.update({
            "evaluations": stress["runs"] + (place or {}).get("replayed", 0),
            "distinct_nontrivial": min(nontrivial, stress["distinct_root_sets"]) + (place or {}).get("fired", 0),
            "rule": "one child process (go build -race) per set of roots (pairs incl. two copies of a handler, sampled triples; "
                    "rows not yet named by the detector get further processes with other seeds); non-trivial = the run produced a "
                    "race report, admitted a transaction or replaced the chain; placements: one replay per (outer, call, inner), "
                    "non-trivial = the decorated call was reached",
            "samples": (stress.get("samples") or [])[:2] + ((place or {}).get("samples") or [])[:1],
            "traces_validated_against_impl": stress["confirmed"] + (place or {}).get("fired", 0),
            "race_reports": stress["race_reports"], "derived_reports": stress.get("derived_reports"),
            "derived_hist": stress.get("derived_hist"),
            "rows_static": len(tables["rows"]), "rows_named_by_detector": stress["confirmed"],
            "protected_rows_static": len(tables["protected"]),
            "invariant_checks": stress["invariant_checks"] + (place or {}).get("invariant_checks", 0),
            "root_sets": stress["distinct_root_sets"], "child_runs": stress["runs"],
            "lock_edges": len(tables["lockEdges"]), "lock_rank": dict(zip(tables["mutexes"], tables["lockRank"])),
            "placements_static": {"points": len(tables["placements"]),
                                  "stale": sum(1 for p in tables["placements"] if p["verdict"] == "stale"),
                                  "excluded": sum(1 for p in tables["placements"] if p["verdict"] == "excluded")},
            "placements_dynamic": {k: place.get(k) for k in ("replayed", "fired", "not_reached", "blocked", "excluded_by_table",
                                                             "sequentially_failing_too")} if place else None,
            "escapes": [f"{e['method']}: {e['loc']} {e['how']}" for e in tables["escapes"]],
            "lone_sequences": {k: (lone or {}).get(k) for k in ("configs", "sequences", "calls", "by_config", "blocked", "panicked")},
            "exhaustive": False,
        })
    # the fetch worker of verifyNeighborBlockchain blocked for ever on its channel is a (partial) deadlock: the leak part
    # of C13 is checked here too (Lean theorem over the regenerated shape + goroutine count on the real code)
    l_obl, l_fail, l_corr = leak_check(ctx, quick_only=not ctx.thorough)
    obligations += [dict(o, name="fetch worker: " + o["name"]) for o in l_obl if not o["name"].startswith("extractor")]
    for f in l_fail:
        add(dict(f, signature=f["signature"].replace("C13/", "C16/fetch-worker/", 1)))
    corr["fetch_worker"] = {k: l_corr.get(k) for k in ("states", "transitions", "leak_cases", "leak_rounds", "leak_fetches", "fetch_shape")}
    if not corr["samples"]:
        corr["samples"] = [r["signature"] for r in tables["rows"][:3]] or ["(no row)"]
    notes = ("C16 is shown only partially: C16_discipline_full and C16_placement_full are false on this tree; the proved part is "
             "C16_discipline_partial + C16_race_free_protected (every conflicting pair outside knownRaces is ordered in every "
             "well-formed interleaving), C16_lock_order (no deadlock on mutexes), C16_placement_partial. "
             f"Rows: {len(tables['rows'])} unprotected, {len(tables['protected'])} protected.")
    return vlib.result(lean=lean, corr=corr, failures=failures, generated=generated, extra_obligations=obligations,
                       assumptions=ASSUMPTIONS, trusted_base=TRUSTED, notes=notes)


# ------------------------------------------------------------------ C13, leak part (called by the engine that owns C13)

def leak_check(ctx, quick_only=False):
    """Leak part of C13: Lean theorem C13_no_leak over the regenerated fetch shape + goroutine-count matrix on the real code.
    Returns (obligations, failures, corr).  obligations: [{"name", "ok", ...}] (theorems included, with their axioms)."""
    prop = "C13"
    lean, tables, driver, generated, obligations, failures = _lean(ctx, ["Leak"])
    failures = [dict(f, signature=f["signature"].replace(f"{ctx.prop}/", "C13/", 1)) for f in failures]
    for f in vlib.lean_failures(prop, lean):
        failures.append(f)
    for t in lean.get("theorems", []):
        obligations.append({"name": "lean: " + t["name"], "ok": t["ok"], "axioms": t["axioms"], "why": t.get("why", "")})
    corr = {"generated": generated, "checker_cmd": "(cd lean/conc && lake build Conc.Props.Leak && lake env lean AuditLeak.lean)"}
    model_leaks = False
    if driver is not None:
        fm = driver.get("fetch", {})
        corr.update({"states": fm.get("states"), "transitions": fm.get("transitions"), "fetch_shape": (tables or {}).get("fetch")})
        if fm.get("noLeak") is False:
            model_leaks = True
    ok, binary, blog = vlib.go_build("ruconc", race=True)
    dyn = None
    if not ok:
        failures.append(vlib.failure("diff", "C13/harness-build/ruconc", blog[-1200:], {"log": blog[-3000:]}, False))
    else:
        races = ctx.work / "races"
        races.mkdir(exist_ok=True)
        dyn, why = _ruconc(binary, ["--mode", "leak", "--work", str(races), "--seed", str(ctx.seed),
                                    "--workers", str(min(16, vlib.ncpu())),
                                    "--select", "thorough" if (ctx.thorough and not quick_only) else "quick"], 840)
        if dyn is None:
            failures.append(vlib.failure("diff", "C13/harness-crash/ruconc-leak", why, {"why": why}, False))
        else:
            failures += _to_failures(dyn)
            corr.update({"leak_cases": dyn["cases"], "leak_rounds": dyn["rounds"], "leak_fetches": dyn["fetches"],
                         "leak_adopting_cases": dyn["adopting_cases"], "leak_kind_hist": dyn["kind_hist"],
                         "leak_max_neighbours": dyn["max_neighbours"], "leak_samples": dyn.get("samples", [])[:3]})
    obligations.append({"name": "ruconc leak matrix (goroutine count back to baseline) ran", "ok": dyn is not None})
    if model_leaks:
        sched = driver["fetch"].get("leakSchedule")
        dyn_hit = bool(dyn and any(f["signature"].startswith("C13/leak/goroutines-left-behind") for f in dyn.get("failures", [])))
        last = (sched or [{}])[-1]
        failures.append(vlib.failure(
            "table", "C13/leak/model/worker-left-behind-at-" + str(last.get("at", "?")),
            "the fetch micro-model with the constants regenerated from verifyNeighborBlockchain has a maximal execution in which "
            "GetBlocks returns and the worker never terminates (C13_no_leak no longer checks); leaking schedule: "
            + json.dumps(sched)[:900] + ("; confirmed dynamically: goroutines are left behind" if dyn_hit else ""),
            {"fetch": (tables or {}).get("fetch"), "schedule": sched, "no_longer_checks": NS + "C13_no_leak"}, dyn_hit))
    return obligations, failures, corr


# ------------------------------------------------------------------ replay

def replay(ctx, body):
    """Re-execute a replay file on the current tree; returns the failures that still occur."""
    prop = body.get("property", "C16")
    sig = body.get("signature", "")
    payload = body.get("replay") or {}
    if prop == "C13" or sig.startswith("C13/"):
        _, fails, _ = leak_check(ctx)
        return [f for f in fails if f["signature"] == sig] or ([] if not sig.startswith("C13/leak/model") else
                                                               [f for f in fails if f["signature"].startswith("C13/leak/model")])
    if payload.get("tool") != "ruconc":
        lean, tables, driver, generated, obligations, failures = _lean(ctx, C16_GROUPS)
        return failures + vlib.lean_failures(prop, lean)
    # regenerate the tables of the current tree; a row that is gone from the tables no longer fails
    text, tables, err = _extract(ctx)
    if tables is None:
        return [vlib.failure("table", f"{prop}/extractor-rejects-source", err or "", {}, False)]
    ok, binary, blog = vlib.go_build("ruconc", race=True)
    if not ok:
        return [vlib.failure("diff", f"{prop}/harness-build/ruconc", blog[-800:], {}, False)]
    races = ctx.work / "races"
    races.mkdir(exist_ok=True)
    tpath = ctx.work / "tables.json"
    if payload.get("mode") == "lone":
        summary, why = _ruconc(binary, ["--mode", "lone", "--select", payload.get("config", "quick")], 600)
        if summary is None:
            return [vlib.failure("diff", f"{prop}/harness-crash/ruconc-lone", why, {}, False)]
        return [f for f in _to_failures(summary) if f["signature"] == sig]
    if payload.get("mode") == "placements":
        spec = payload.get("spec") or {}
        # re-run exactly this placement through a one-entry table
        t2 = dict(tables)
        t2["placements"] = [p for p in tables["placements"]
                            if p["outerName"] == spec.get("outer") and p["innerRoot"] == spec.get("inner")]
        (ctx.work / "t2.json").write_text(json.dumps(t2))
        summary, why = _ruconc(binary, ["--mode", "placements", "--tables", str(ctx.work / "t2.json"), "--work", str(races),
                                        "--select", "thorough", "--workers", "4"], 300)
        if summary is None:
            return [vlib.failure("diff", f"{prop}/harness-crash/ruconc-placements", why, {}, False)]
        return [f for f in _to_failures(summary) if f["signature"] == sig]
    roots = payload.get("roots") or []
    static_row = next((r for r in tables["rows"] if r["signature"] == sig), None)
    if sig.startswith("C16/race/") and static_row is None and "unmapped" not in sig:
        # the row is no longer unprotected in the tables of this tree; still give the detector a chance
        pass
    summary, why = _ruconc(binary, ["--mode", "stress", "--tables", str(tpath), "--work", str(races), "--seed", str(body.get("seed", 1)),
                                    "--select", "+".join(roots) if roots else "known", "--iters", "60", "--repo", str(vlib.REPO)], 300)
    if summary is None:
        return [vlib.failure("diff", f"{prop}/harness-crash/ruconc-stress", why, {}, False)]
    out = [f for f in _to_failures(summary) if f["signature"] == sig]
    if static_row is not None:
        row = next((r for r in summary["rows"] if r["signature"] == sig), {})
        out.append(vlib.failure("table", sig, "still an unprotected pair in the regenerated tables: " + static_row["desc"],
                                {"roots": roots}, bool(row.get("confirmed"))))
    return out
