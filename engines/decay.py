"""C09 — decay and income (engine E2).

1. Tie: `ruextract-decay` regenerates lean/decay/Decay/Gen.lean from <repo>/validatornode/domain/ledger/utxo.go
   (expression by expression, fail-closed); Decay/Tie.lean ties Gen.{k1,k2,f,g,value} to Model.* by `rfl`.
   A translator error, or a tie theorem that no longer checks, is a failure of kind "tie"; the numerical
   sweep (3.) is then the failing-input search.
2. Proof: Decay/Props.lean — the property proved for the REAL-valued function the source denotes
   (Mathlib reals), `lake build` + forbidden-token grep + axiom audit (+ leanchecker in the thorough tier).
3. Correspondence (partial, by measurement — Lean's Float is opaque to the kernel):
   `rudecay` calls the real ledger.Utxo.Value on the property's lattice × random points and evaluates the
   property's own inequalities on the Go function itself with exactly the slack the text grants;
   `decay_ref.py` compares every evaluated point with a 100-digit mpmath evaluation of the same formula,
   enforcing |Go − ideal| ≤ 1 + 2^-44·max(amount, limit) on well-conditioned settings only
   (max(L/B, L/(L−B)) ≤ 2^9, not a dust amount) and recording the rest as labelled measurement.
"""
import hashlib
import json
import shutil
from pathlib import Path

import vlib

PKG = "decay"
PKG_DIR = vlib.LEAN / PKG
GEN = PKG_DIR / "Decay" / "Gen.lean"
TIE = PKG_DIR / "Decay" / "Tie.lean"
SRC_REL = Path("validatornode") / "domain" / "ledger" / "utxo.go"

TIE_THEOREMS = ["tie_k1", "tie_k2", "tie_f", "tie_g", "tie_value"]
PROP_THEOREMS = [
    "C09_f_le_init", "C09_f_antitone", "C09_f_half",
    "C09_k1_pos", "C09_k1_pos_iff", "C09_k1_lt_three", "C09_k2_pos",
    "C09_g_low_zero", "C09_value_zero_elapsed", "C09_g_low_bounds", "C09_g_low_lt_limit", "C09_g_low_mono",
    "C09_g_from_zero_half_life", "C09_g_high_bounds", "C09_g_high_antitone", "C09_g_eq_limit",
    "C09_flow_law_low", "C09_flow_law_high_f", "C09_flow_law",
    "C09_no_gain_f", "C09_no_gain_g", "C09_no_gain", "C09_elapsed_only",
]
THEOREMS = {"C09": PROP_THEOREMS + TIE_THEOREMS}

# Regime-tagged signatures of what the sweep reports on the UNCHANGED tree (float64 effects at the unit
# level / at extreme limits).  Used for one thing only: they are never attached to a tie failure as "the
# failing input of the changed formula".  They are NOT suppressed — `check` decides via known_findings.json.
BASELINE_REGIMES = {
    "C09/monotone/g-low/dip-1-unit",
    "C09/monotone/g-low/dip-2-units/limit>=2^52",
    "C09/g-bounds/g-low/limit>=2^52",
    "C09/no-gain/g-low/limit>=2^48-dust",
}

QUICK_SCENARIOS = 3000       # ≈ 20 k calls of Utxo.Value
THOROUGH_SCENARIOS = 650000  # + boundary-lattice core ≈ 4.9 M calls

CLAUSE_FAMILIES = [
    ("elapsed-only", "value depends only on elapsed time (created/now shifted)"),
    ("f-le-init", "non-yielding: never exceeds the initial value (no slack)"),
    ("monotone", "moves monotonically with time (strict, no slack; f, g-low, g-high, g-eq)"),
    ("f-half", "non-yielding: halves at one half-life (rounding slack)"),
    ("g-bounds", "yielding: between initial value and limit, within one unit"),
    ("g-from-zero", "yielding: from zero reaches the base after one half-life (rounding slack)"),
    ("no-gain", "two consecutive intervals never yield more than their union (slack 1 + 2^-44·max(amount, limit))"),
]


def _sha(data):
    if isinstance(data, str):
        data = data.encode()
    return hashlib.sha256(data).hexdigest()


def _known_signatures():
    p = vlib.VERIF / "known_findings.json"
    try:
        return {k["signature"] for k in json.loads(p.read_text()).get("findings", [])
                if k.get("property") == "C09" and k.get("status") == "known"}
    except Exception:
        return set()


# ------------------------------------------------------------------ tie

def _translate(ctx):
    """Run the translator on vlib.REPO. Returns (text or None, error message or None)."""
    ok, binary, log = vlib.go_build("ruextract-decay")
    if not ok:
        return None, "harness/cmd/ruextract-decay does not build: " + log[-1500:]
    out = ctx.work / "Gen.lean"
    rc, so, se = vlib.run([str(binary), "--repo", str(vlib.REPO), "--out", str(out)], timeout=120)
    if rc != 0 or not out.exists():
        return None, (se or so or "translator failed").strip()[-1500:]
    return out.read_text(), None


def _tie_failures_from_log(log):
    """Map `Decay/Tie.lean:LINE:` errors of a failed build to the tie theorem declared on/above that line."""
    import re
    lines = TIE.read_text().split("\n")
    broken, other = [], []
    for m in re.finditer(r"error: (?:\./)?Decay/(\w+)\.lean:(\d+):\d+", log):
        mod, ln = m.group(1), int(m.group(2))
        if mod != "Tie":
            if mod not in other:
                other.append(mod)
            continue
        for i in range(min(ln, len(lines)) - 1, -1, -1):
            t = re.match(r"\s*theorem\s+(\w+)", lines[i])
            if t:
                if t.group(1) not in broken:
                    broken.append(t.group(1))
                break
    return broken, other


def _lean_and_tie(ctx):
    """Regenerate Gen.lean, check the tie, then the proofs.  Returns (lean result, tie failures, generated, obligations)."""
    tie_fail, obligations = [], []
    src = vlib.REPO / SRC_REL
    src_sha = _sha(src.read_bytes()) if src.exists() else None
    with vlib.flock("decay-gen"):
        committed = GEN.read_text() if GEN.exists() else ""
        text, err = _translate(ctx)
        generated = [{"file": "lean/decay/Decay/Gen.lean", "from": str(src), "source_sha256": src_sha,
                      "translator": "harness/cmd/ruextract-decay", "regenerated_this_run": text is not None,
                      "gen_sha256": _sha(text) if text is not None else None,
                      "identical_to_previous_copy": text == committed if text is not None else None}]
        obligations.append({"name": "translator ruextract-decay accepts utxo.go (fail-closed)", "ok": text is not None})
        wrote = False
        tie_ok = False
        try:
            if text is None:
                tie_fail.append(vlib.failure(
                    "tie", "C09/tie/translator",
                    "the Go→Lean translator rejects the current utxo.go (construct outside the translated fragment), "
                    "so Gen.{k1,k2,f,g,value} cannot be regenerated and the rfl ties tie_k1, tie_k2, tie_f, tie_g, "
                    "tie_value to the proved model no longer check: " + err,
                    {"kind": "tie", "no_longer_checks": TIE_THEOREMS, "translator_error": err,
                     "source": str(src), "source_sha256": src_sha}, False))
            else:
                if text != committed:
                    GEN.write_text(text)
                    wrote = True
                    ctx.log("Gen.lean differs from the previous copy; rebuilding the tie")
                tie_ok, tlog = vlib.lake_build(PKG_DIR, ["Decay.Tie"])
                if not tie_ok:
                    broken, other = _tie_failures_from_log(tlog)
                    if not broken:
                        broken = ["Decay.Gen (does not elaborate)"] if "Gen" in other else list(TIE_THEOREMS)
                    for t in broken:
                        tie_fail.append(vlib.failure(
                            "tie", f"C09/tie/{t}",
                            f"the definition regenerated from utxo.go is no longer definitionally the proved model: "
                            f"{t} (Decay/Tie.lean, by rfl) no longer checks; the theorems of Decay/Props.lean are "
                            f"about Model.*, not about the current Go formula. " + tlog[-900:],
                            {"kind": "tie", "no_longer_checks": [t], "package": "lean/decay",
                             "source": str(src), "source_sha256": src_sha, "build_log": tlog[-3000:]}, False))
            if tie_ok:
                lean = vlib.lean_check(PKG, THEOREMS["C09"], thorough=ctx.thorough,
                                       checker_modules=["Decay.Props", "Decay.Tie"])
            else:
                lean = vlib.lean_check(PKG, PROP_THEOREMS, thorough=ctx.thorough, checker_modules=["Decay.Props"],
                                       audit_file="AuditProps.lean", build_targets=["Decay.Props"])
                for t in TIE_THEOREMS:
                    lean["theorems"].append({"name": t, "axioms": None, "ok": False,
                                             "why": "rfl tie to the definition regenerated from utxo.go no longer "
                                                    "checks (see the tie failure)"})
                lean["ok"] = False
        finally:
            if wrote and vlib._alt_repo():
                # a scratch tree must not leave its formula in the committed package
                GEN.write_text(committed)
    return lean, tie_fail, generated, obligations


# ------------------------------------------------------------------ numerical correspondence

def _python_vt():
    return shutil.which("python3-vt") or "python3-vt"


def _sweep(ctx, scenarios, core):
    ok, binary, log = vlib.go_build("rudecay")
    if not ok:
        return None, None, "harness/cmd/rudecay does not build against the tree: " + log[-1500:]
    prefix = ctx.work / "points"
    args = [str(binary), "--seed", str(ctx.seed), "--scenarios", str(scenarios), "--workers", str(vlib.ncpu()),
            "--emit", str(prefix)]
    if core:
        args.append("--core")
    rc, so, se = vlib.run(args, timeout=1500)
    if rc != 0:
        return None, None, "rudecay failed: " + (se or so)[-1500:]
    files = sorted(str(p) for p in ctx.work.glob("points.*"))
    return json.loads(so), files, None


def _ref(ctx, files):
    rc, so, se = vlib.run([_python_vt(), str(vlib.VERIF / "engines" / "decay_ref.py"), "--workers",
                           str(vlib.ncpu())] + files, timeout=3000)
    if rc != 0:
        return None, "decay_ref.py failed: " + (se or so)[-1500:]
    return json.loads(so), None


def _numeric_failures(sweep, ref):
    fails = []
    for f in sweep["failures"]:
        fails.append(vlib.failure(
            "prop", f["signature"],
            "real ledger.Utxo.Value violates the clause '%s': %s" % (f["clause"], f["detail"]),
            {"kind": "scenario", "signature": f["signature"], "clause": f["clause"], "scenario": f["scenario"],
             "values_observed": f["values"]}, True))
    for f in (ref or {}).get("failures", []):
        fails.append(vlib.failure(
            "diff", f["signature"],
            "real ledger.Utxo.Value is farther from the 100-digit evaluation of its own formula than the rounding "
            "slack on a well-conditioned setting: " + f["detail"],
            {"kind": "point", "signature": f["signature"], "point": f["point"], "go_observed": f["go"],
             "ideal": f["ideal"]}, True))
    return fails


def run(ctx):
    lean, tie_fail, generated, obligations = _lean_and_tie(ctx)
    failures = vlib.lean_failures(ctx.prop, lean) if not tie_fail else [
        f for f in vlib.lean_failures(ctx.prop, lean) if not any(f["signature"].endswith("/" + t) for t in TIE_THEOREMS)]
    ctx.log("lean: built=%s ok=%s tie_failures=%d" % (lean["built"], lean["ok"], len(tie_fail)))

    scenarios = THOROUGH_SCENARIOS if ctx.thorough else QUICK_SCENARIOS
    sweep, files, err = _sweep(ctx, scenarios, core=ctx.thorough)
    corr, ref = {}, None
    if err:
        failures.append(vlib.failure("proof", "C09/harness/rudecay", err, {"kind": "harness", "log": err}, False))
        obligations.append({"name": "correspondence rudecay runs against the tree", "ok": False})
    else:
        ctx.log("rudecay: %d evaluations, %d scenarios, failures %s" % (sweep["evaluations"], sweep["scenarios"],
                                                                        sweep["fail_counts"]))
        ref, rerr = _ref(ctx, files)
        if rerr:
            failures.append(vlib.failure("proof", "C09/harness/decay_ref", rerr, {"kind": "harness", "log": rerr}, False))
        else:
            ctx.log("decay_ref: %d points (%d enforced), failures %s" % (ref["points"], ref["enforced"], ref["fail_counts"]))
        numeric = _numeric_failures(sweep, ref)
        # a broken tie: the sweep is the failing-input search; attach the first witness that is not one of
        # the regimes already reported on the unchanged tree
        if tie_fail:
            skip = BASELINE_REGIMES | _known_signatures()
            fresh = [f for f in numeric if f["signature"] not in skip]
            for t in tie_fail:
                t["replay"]["failing_input_search"] = {
                    "evaluations": sweep["evaluations"], "signatures_seen": sorted(sweep["fail_counts"]) +
                    sorted((ref or {}).get("fail_counts", {}))}
                if fresh:
                    t["replay"]["failing_input"] = fresh[0]["replay"]
                    t["found_input"] = True
                    t["detail"] += "  Failing input on the implementation: " + fresh[0]["detail"][:500]
        failures.extend(numeric)
        seen = set(sweep["fail_counts"])
        for fam, text in CLAUSE_FAMILIES:
            obligations.append({"name": "real code, every sampled scenario: " + text,
                                "ok": not any(s.split("/")[1] == fam for s in seen)})
        obligations.append({"name": "real code vs 100-digit evaluation within 1 + 2^-44·max(amount, limit) on "
                                    "well-conditioned settings", "ok": bool(ref) and not ref["fail_counts"]})
        hist = dict(sweep["hist"])
        if ref:
            for k, v in ref["hist"].items():
                hist["ref:" + k] = v
            for k, v in ref["fail_counts"].items():
                hist["failures:" + k] = v
        corr = {
            "evaluations": sweep["evaluations"],
            "distinct_nontrivial": sweep["distinct_nontrivial"],
            "rule": sweep["rule"] + "; scenarios = fixed corpus (known witnesses + production settings)"
                    + (" + enumerated boundary lattice (fixed base/limit pairs × 3 half-lives × amounts {0,1,B,L-1,L,L+1,2L,2^k} × "
                       "elapsed {0,1,2,1000,h/1000,h/2,h-1,h,h+1,2h,10h,20h-1,20h} × yielding)" if ctx.thorough else "")
                    + " + random scenarios (each coordinate: lattice value or random), single PRNG seeded by the run seed; "
                      "each scenario = 6-7 calls (elapsed 0, x1, x1+x2, two-step, one half-life, shifted, from zero)",
            "samples": sweep["samples"],
            "scenarios": sweep["scenarios"],
            "traces_validated_against_impl": (ref or {}).get("points", 0),
            "ref_points_enforced": (ref or {}).get("enforced", 0),
            "ref_enforced_region": (ref or {}).get("enforced_region", ""),
            "ref_digits": (ref or {}).get("digits", 0),
            "ref_ambiguous_floor_points": (ref or {}).get("ambiguous_floor", 0),
            "ref_worst_enforced": (ref or {}).get("worst"),
            "ref_worst_measured_only": (ref or {}).get("worst_ill"),
            "hist": hist,
        }
    failures = tie_fail + failures
    return vlib.result(
        lean=lean, corr=corr, failures=failures, generated=generated, extra_obligations=obligations,
        assumptions=[
            "float64 is read as ℝ, uint64 as ℕ, int64 as ℤ: the theorems are about the real-valued function the source "
            "text denotes (Lean's Float is opaque to the kernel); the float code's distance from it is MEASURED, not proved",
            "uint64(r) of a float is read as ⌊r⌋₊ (Go leaves negative / out-of-range conversions implementation-defined; "
            "they do not occur for 0 < base < limit, amounts ≤ 2^53)",
            "float64(currentTimestamp − timestamp) is read as the exact integer difference (it is rounded above 2^53 ns ≈ 104 days)",
            "Go-vs-ideal bound 1 + 2^-44·max(amount, limit) is enforced only where max(L/B, L/(L−B)) ≤ 2^9 and the amount is "
            "not dust under a huge limit (L ≥ 2^44 and 0 < y < 2^-28·L); elsewhere `1 − B/L` and `(l − y)/l` cancel in float64 and the deviation is reported "
            "as measurement (ref_worst_measured_only)",
            "utxo.InitialValue()/IsYielding()/timestamp are plain accessors (checked syntactically by the translator in output.go / utxo.go)",
            "half-lives in the sweep are integer-valued float64 (so that one half-life is an integer number of ns)",
        ],
        trusted_base=[
            "Lean 4.33.0 kernel, axioms propext / Classical.choice / Quot.sound",
            "Mathlib v4.33.0 (Analysis.SpecialFunctions.Pow.Real, Algebra.Order.Floor.Semifield)",
            "harness/cmd/ruextract-decay (Go→Lean translator, go/ast, fail-closed, ~600 lines)",
            "harness/cmd/rudecay (calls the real ledger.Utxo.Value in-process)",
            "engines/decay_ref.py + mpmath 1.3.0 at 100 digits",
        ],
        notes="proof on the translated real-valued function; float rounding covered by sampling only (partial)")


# ------------------------------------------------------------------ replay

def replay(ctx, body):
    payload = body.get("replay") or {}
    kind = payload.get("kind")
    sig = body.get("signature", "")
    fails = []
    if kind == "scenario":
        fails += _replay_scenario(ctx, payload, sig)
    elif kind == "point":
        fails += _replay_point(ctx, payload, sig)
    elif kind == "tie":
        lean, tie_fail, _, _ = _lean_and_tie(ctx)
        fails += tie_fail
        inner = payload.get("failing_input")
        if inner:
            sub = (_replay_scenario if inner.get("kind") == "scenario" else _replay_point)(ctx, inner, inner.get("signature", ""))
            if tie_fail and sub:
                for t in tie_fail:
                    t["found_input"] = True
            fails += sub
    else:
        lean, tie_fail, _, _ = _lean_and_tie(ctx)
        fails += tie_fail + [f for f in vlib.lean_failures(ctx.prop, lean) if f["signature"] == sig or not sig]
    return fails


def _replay_scenario(ctx, payload, sig):
    ok, binary, log = vlib.go_build("rudecay")
    if not ok:
        return [vlib.failure("proof", "C09/harness/rudecay", log[-1500:], {"kind": "harness"}, False)]
    rc, so, se = vlib.run([str(binary), "--replay"], input=json.dumps([payload["scenario"]]), timeout=120)
    if rc != 0:
        return [vlib.failure("proof", "C09/harness/rudecay", (se or so)[-1500:], {"kind": "harness"}, False)]
    res = json.loads(so)
    out = []
    for f in res["failures"]:
        if sig and f["signature"] != sig:
            continue
        out.append(vlib.failure("prop", f["signature"], f["detail"],
                                {"kind": "scenario", "signature": f["signature"], "scenario": f["scenario"],
                                 "values_observed": f["values"]}, True))
    return out


def _replay_point(ctx, payload, sig):
    ok, binary, log = vlib.go_build("rudecay")
    if not ok:
        return [vlib.failure("proof", "C09/harness/rudecay", log[-1500:], {"kind": "harness"}, False)]
    p = payload["point"]
    line = "%d %d %d %d %d %d %d\n" % (p["y"], 1 if p["yielding"] else 0, p["created"], p["now"], p["h_ns"],
                                       p["base"], p["limit"])
    rc, so, se = vlib.run([str(binary), "--points"], input=line, timeout=120)
    if rc != 0:
        return [vlib.failure("proof", "C09/harness/rudecay", (se or so)[-1500:], {"kind": "harness"}, False)]
    f = ctx.work / "replay-point.txt"
    f.write_text(so)
    ref, err = _ref(ctx, [str(f)])
    if err:
        return [vlib.failure("proof", "C09/harness/decay_ref", err, {"kind": "harness"}, False)]
    return [vlib.failure("diff", x["signature"], x["detail"],
                         {"kind": "point", "signature": x["signature"], "point": x["point"], "go_observed": x["go"],
                          "ideal": x["ideal"]}, True)
            for x in ref["failures"] if not sig or x["signature"] == sig]
