/-
  neighdriver — runs the executable model `Neigh.Model` on a stream of operations.

  stdin : one JSON object per line (written by harness/cmd/runeigh)
    {"op":"init","hostIp":s,"hostPort":s,"hostValue":s,"max":int,"seeds":[[value,score],…],"info":[…]}
    {"op":"add","targets":[value,…],"info":[…]}
    {"op":"inc","target":value,"info":[…]}
    {"op":"sync","unreachable":[[ip,port],…]}
    {"op":"net","ports":[port,…]}                          → {"ids":[networkId port,…]}
  "info" carries the answers of the REAL code for every string mentioned so far:
    {"v":value,"ok":bool,"ip":s,"port":s,"canon":s,"target":s}
        net.SplitHostPort(v), net.JoinHostPort(ip,port) and Target() of the sender created for (ip,port)
  stdout: one JSON object per line, the model's prediction (map-derived collections sorted):
    init      {"ok":true,"host":hostValue,"seeds":[[value,score],…]}   (the re-keyed seeds)
    add, inc  {"scores":[[value,score],…]}
    sync      {"panic":bool,"source":"seeds"|"known","count":int,"n":int,"cands":[[value,ip,port,target,score],…],
               "calls":[[ip,port],…]   (every CreateSender call of the round, reachable or not)
               "must":[[ip,port],…],"may":[[ip,port],…],"k":int,"host":s,
               "fanout":[[ip,port,[value,…]],…],"scores":[]}
    The allowed outbound selections are exactly: `must` ∪ (any `k` of `may`) — as multisets of (ip,port).
    "fanout" gives, for every sender the round creates, the SendTargets argument (host value first, the
    rest in the model's iteration order; the harness compares it as host-first + multiset).
    anything unparsable → {"error":…}
  Imports the model only (core Lean + Lean.Data.Json); no Mathlib.
-/
import Lean.Data.Json
import Neigh.Model

open Lean Neigh

structure Info where
  v : String
  ok : Bool
  ip : String
  port : String
  canon : String
  target : String

/-- host endpoint and its joined value, as NewTarget(hostIp, hostPort) computed it -/
structure Host where
  ip : String := ""
  port : String := ""
  value : String := ""

def envOf (infos : List Info) (host : Host) : Env :=
  { parse := fun v =>
      match infos.find? (fun i => i.v == v) with
      | some i => if i.ok then some (i.ip, i.port) else none
      | none => none
    join := fun ip port =>
      if ip == host.ip && port == host.port then host.value
      else match infos.find? (fun i => i.ok && i.ip == ip && i.port == port) with
        | some i => i.canon
        | none => "?unknown-join?"
    senderTarget := fun ip port =>
      match infos.find? (fun i => i.ok && i.ip == ip && i.port == port) with
      | some i => i.target
      | none => "?unknown-sender-target?" }

structure DState where
  infos : List Info := []
  host : Host := {}
  st : State := State.init (envOf [] {}) "" "" 0 []

def str (j : Json) (k : String) : Except String String := j.getObjValAs? String k
def strList (j : Json) : Except String (List String) := do
  let a ← j.getArr?
  a.toList.mapM (fun x => x.getStr?)

def parseInfos (j : Json) : Except String (List Info) := do
  match j.getObjVal? "info" with
  | .error _ => pure []
  | .ok arr =>
    let a ← arr.getArr?
    a.toList.mapM fun x => do
      pure { v := ← str x "v", ok := ← x.getObjValAs? Bool "ok", ip := ← str x "ip",
             port := ← str x "port", canon := ← str x "canon", target := ← str x "target" }

def jStr (s : String) : Json := Json.str s
def jInt (i : Int) : Json := Json.num (JsonNumber.fromInt i)
def jArr (l : List Json) : Json := Json.arr l.toArray

def sortBy {α : Type} (key : α → String) (l : List α) : List α :=
  (l.toArray.qsort (fun a b => key a < key b)).toList

def scoresJson (m : Scores) : Json :=
  jArr ((sortBy (·.1) m).map fun e => jArr [jStr e.1, jInt e.2])

def endpoint (s : Sender) : Json := jArr [jStr s.ip, jStr s.port]
def endpointKey (s : Sender) : String := s.ip ++ "\x00" ++ s.port ++ "\x00" ++ s.value

def handle (d : DState) (line : String) : Except String (DState × Json) := do
  let j ← Json.parse line
  let op ← str j "op"
  let infos := (if op == "init" then [] else d.infos) ++ (← parseInfos j)
  let host : Host ← (if op == "init" then do
      pure { ip := ← str j "hostIp", port := ← str j "hostPort", value := ← str j "hostValue" }
    else pure d.host)
  let env := envOf infos host
  match op with
  | "init" =>
    let seedsJ ← (← j.getObjVal? "seeds").getArr?
    let seeds ← seedsJ.toList.mapM fun x => do
      let a ← x.getArr?
      if h : a.size = 2 then
        pure ((← a[0].getStr?), (← a[1].getInt?))
      else throw "seed entry"
    let st := State.init env host.ip host.port (← j.getObjValAs? Int "max") seeds
    pure ({ infos, host, st }, Json.mkObj [("ok", Json.bool true), ("host", jStr st.hostValue),
      ("seeds", scoresJson st.seeds)])
  | "add" =>
    let ts ← strList (← j.getObjVal? "targets")
    let st := addTargets env d.st ts
    pure ({ infos, host, st }, Json.mkObj [("scores", scoresJson st.scores)])
  | "inc" =>
    let st := incentive env d.st (← str j "target")
    pure ({ infos, host, st }, Json.mkObj [("scores", scoresJson st.scores)])
  | "sync" =>
    let unrJ ← (← j.getObjVal? "unreachable").getArr?
    let unr ← unrJ.toList.mapM fun x => do
      let a ← x.getArr?
      if h : a.size = 2 then pure ((← a[0].getStr?), (← a[1].getStr?)) else throw "unreachable entry"
    let reachable : String → String → Bool := fun ip port => !(unr.contains (ip, port))
    let src := d.st.source
    let cands := candidates env d.st.hostValue reachable src
    let calls := candidates env d.st.hostValue (fun _ _ => true) src
    let (st', outcome) := synchronize env reachable id id d.st
    let count := goMin (src.length : Int) d.st.max
    let tvs := targetValuesOf d.st.hostValue cands
    let allowed := if outcome.isPanic then { must := [], may := [], k := 0 } else allowedOf cands st'.senders
    let candsS := sortBy (fun c => endpointKey c.1) cands
    let ans := Json.mkObj [
      ("panic", Json.bool outcome.isPanic),
      ("source", jStr (if d.st.scores.length = 0 then "seeds" else "known")),
      ("count", jInt count),
      ("n", jInt (if outcome.isPanic then d.st.senders.length else st'.senders.length)),
      ("cands", jArr (candsS.map fun c =>
          jArr [jStr c.1.value, jStr c.1.ip, jStr c.1.port, jStr c.1.target, jInt c.2])),
      ("calls", jArr ((sortBy (fun c => endpointKey c.1) calls).map fun c => endpoint c.1)),
      ("must", jArr ((sortBy endpointKey allowed.must).map endpoint)),
      ("may", jArr ((sortBy endpointKey allowed.may).map endpoint)),
      ("k", jInt allowed.k),
      ("host", jStr d.st.hostValue),
      ("fanout", jArr (candsS.map fun c =>
          jArr [jStr c.1.ip, jStr c.1.port, jArr ((fanoutFor tvs c.1).map jStr)])),
      ("scores", scoresJson st'.scores)]
    pure ({ infos, host, st := st' }, ans)
  | "net" =>
    let ports ← strList (← j.getObjVal? "ports")
    pure (d, Json.mkObj [("ids", jArr (ports.map fun p => jStr (networkId p)))])
  | other => throw s!"unknown op {other}"

partial def loop (stdin stdout : IO.FS.Stream) (d : DState) : IO Unit := do
  let line ← stdin.getLine
  if line.isEmpty then return
  let l := line.trimAscii.toString
  if l.isEmpty then
    loop stdin stdout d
  else
    match handle d l with
    | .ok (d', ans) =>
      stdout.putStrLn ans.compress
      stdout.flush
      loop stdin stdout d'
    | .error e =>
      stdout.putStrLn (Json.mkObj [("error", jStr e)]).compress
      stdout.flush
      loop stdin stdout d

def main : IO Unit := do
  loop (← IO.getStdin) (← IO.getStdout) {}
