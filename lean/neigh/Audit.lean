import Neigh.Props
open Neigh
#print axioms C17_bounded
#print axioms C17_distinct_values
#print axioms C17_distinct_partial
#print axioms C17_distinct_counterexample
#print axioms C17_not_self_value
#print axioms C17_not_self_partial
#print axioms C17_not_self_counterexample
#print axioms C17_known_only
#print axioms C17_reachable_only
#print axioms C17_best
#print axioms C17_fanout_exact
#print axioms C17_fanout_partial
#print axioms C17_fanout_counterexample
#print axioms C17_retained
#print axioms C17_incentive
#print axioms C17_retained_inv_partial
#print axioms C17_retained_inv_counterexample
#print axioms C17_networkId
#print axioms C17_rounds
#print axioms C17_rounds_invariant
#print axioms C17_negative_max_panics
