import Neigh.Props
open Neigh
#print axioms C17_bounded
#print axioms C17_distinct
#print axioms C17_not_self
#print axioms C17_known_only
#print axioms C17_reachable_only
#print axioms C17_best
#print axioms C17_fanout
#print axioms C17_retained
#print axioms C17_incentive
#print axioms C17_retained_inv
#print axioms C17_init
#print axioms C17_networkId
#print axioms C17_rounds
#print axioms C17_rounds_invariant
#print axioms C17_negative_max_panics
