-- Root of the `Neigh` library (property C17, neighbour set).
import Neigh.Model
import Neigh.Spec
import Neigh.Lemmas
import Neigh.Props
