/-
  Neigh.Lemmas — helper lemmas for Neigh.Props (core Lean only).
-/
import Neigh.Model

namespace Neigh

/-! ## generic list facts -/

theorem filter_or_perm {α : Type} (p q : α → Bool) :
    ∀ l : List α, (∀ x ∈ l, ¬ (p x = true ∧ q x = true)) →
      (l.filter p ++ l.filter q).Perm (l.filter (fun x => p x || q x))
  | [], _ => by simp
  | x :: l, h => by
    have ih := filter_or_perm p q l (fun y hy => h y (List.mem_cons_of_mem _ hy))
    have hx := h x (List.mem_cons_self)
    cases hp : p x <;> cases hq : q x
    · simpa [List.filter_cons, hp, hq] using ih
    · simp only [List.filter_cons, hp, hq, Bool.false_or, if_true]
      exact List.perm_middle.trans (List.Perm.cons x ih)
    · simpa [List.filter_cons, hp, hq] using ih
    · exact absurd ⟨hp, hq⟩ hx

theorem fst_unique {α β : Type} {l : List (α × β)} (hnd : (l.map (·.1)).Nodup) {a : α} {b b' : β}
    (h : (a, b) ∈ l) (h' : (a, b') ∈ l) : b = b' := by
  induction l with
  | nil => cases h
  | cons x l ih =>
    rw [List.map_cons, List.nodup_cons] at hnd
    have hin : ∀ c, (a, c) ∈ l → a ∈ l.map (·.1) := fun c hc => List.mem_map.2 ⟨(a, c), hc, rfl⟩
    rcases List.mem_cons.1 h with h1 | h1 <;> rcases List.mem_cons.1 h' with h2 | h2
    · rw [← h1] at h2; cases h2; rfl
    · subst h1; exact absurd (hin _ h2) hnd.1
    · subst h2; exact absurd (hin _ h1) hnd.1
    · exact ih hnd.2 h1 h2

/-! ## score maps -/

theorem Scores.has_iff (m : Scores) (k : String) : m.has k = true ↔ k ∈ m.keys := by
  induction m with
  | nil => simp [Scores.has, Scores.keys]
  | cons e m ih =>
    simp only [Scores.has, Scores.keys, List.any_cons, List.map_cons, List.mem_cons, Bool.or_eq_true,
      beq_iff_eq] at ih ⊢
    rw [ih]; constructor
    · rintro (h | h); exact Or.inl h.symm; exact Or.inr h
    · rintro (h | h); exact Or.inl h.symm; exact Or.inr h

theorem Scores.keys_addNew (m : Scores) (k : String) (v : Int) :
    (m.addNew k v).keys = m.keys ++ [k] := by
  simp [Scores.addNew, Scores.keys]

theorem Scores.keys_incr (m : Scores) (k : String) :
    (m.incr k).keys = if k ∈ m.keys then m.keys else m.keys ++ [k] := by
  induction m with
  | nil => simp [Scores.incr, Scores.keys]
  | cons e m ih =>
    obtain ⟨k', v⟩ := e
    by_cases h : k' = k
    · subst h; simp [Scores.incr, Scores.keys]
    · have ih' : List.map (·.1) (Scores.incr m k)
          = if k ∈ List.map (·.1) m then List.map (·.1) m else List.map (·.1) m ++ [k] := ih
      have hne : ¬ k = k' := fun e => h e.symm
      simp only [Scores.incr, Scores.keys, h, if_false, List.map_cons, List.mem_cons, hne, false_or, ih']
      split <;> simp

theorem Scores.nodup_addNew {m : Scores} {k : String} (v : Int) (h : m.keys.Nodup) (hk : k ∉ m.keys) :
    (m.addNew k v).keys.Nodup := by
  rw [Scores.keys_addNew, List.nodup_append]
  refine ⟨h, by simp, ?_⟩
  intro a ha b hb
  simp at hb; subst hb
  exact fun e => hk (e ▸ ha)

theorem Scores.nodup_incr {m : Scores} (k : String) (h : m.keys.Nodup) : (m.incr k).keys.Nodup := by
  rw [Scores.keys_incr]
  split
  · exact h
  · next hk =>
    rw [List.nodup_append]
    refine ⟨h, by simp, ?_⟩
    intro a ha b hb
    simp at hb; subst hb
    exact fun e => hk (e ▸ ha)

/-! ## keys of `neighborsByScore`, sorted -/

theorem mem_insertDesc {k x : Int} : ∀ {l : List Int}, x ∈ insertDesc k l ↔ x = k ∨ x ∈ l
  | [] => by simp [insertDesc]
  | y :: l => by
    unfold insertDesc
    split
    · simp
    · split
      · next h => subst h; simp
      · rw [List.mem_cons, mem_insertDesc (l := l), List.mem_cons]
        constructor
        · rintro (h | h | h)
          · exact Or.inr (Or.inl h)
          · exact Or.inl h
          · exact Or.inr (Or.inr h)
        · rintro (h | h | h)
          · exact Or.inr (Or.inl h)
          · exact Or.inl h
          · exact Or.inr (Or.inr h)

theorem insertDesc_desc {k : Int} : ∀ {l : List Int}, l.Pairwise (· > ·) → (insertDesc k l).Pairwise (· > ·)
  | [], _ => by simp [insertDesc]
  | y :: l, h => by
    have hy := List.pairwise_cons.1 h
    unfold insertDesc
    split
    · next hlt =>
      refine List.pairwise_cons.2 ⟨?_, h⟩
      intro a ha
      rcases List.mem_cons.1 ha with rfl | ha
      · exact hlt
      · have := hy.1 a ha; omega
    · split
      · exact h
      · next h1 h2 =>
        refine List.pairwise_cons.2 ⟨?_, insertDesc_desc hy.2⟩
        intro a ha
        rcases mem_insertDesc.1 ha with rfl | ha
        · omega
        · exact hy.1 a ha

theorem mem_keysDesc {cands : List (Sender × Int)} {k : Int} :
    k ∈ keysDesc cands ↔ ∃ c ∈ cands, c.2 = k := by
  induction cands with
  | nil => simp [keysDesc]
  | cons c cs ih =>
    have : keysDesc (c :: cs) = insertDesc c.2 (keysDesc cs) := rfl
    rw [this, mem_insertDesc, ih]
    constructor
    · rintro (h | ⟨d, hd, h⟩)
      · exact ⟨c, List.mem_cons_self, h.symm⟩
      · exact ⟨d, List.mem_cons_of_mem _ hd, h⟩
    · rintro ⟨d, hd, h⟩
      rcases List.mem_cons.1 hd with rfl | hd
      · exact Or.inl h.symm
      · exact Or.inr ⟨d, hd, h⟩

theorem keysDesc_desc (cands : List (Sender × Int)) : (keysDesc cands).Pairwise (· > ·) := by
  induction cands with
  | nil => simp [keysDesc]
  | cons c cs ih => exact insertDesc_desc ih

theorem desc_nodup {l : List Int} (h : l.Pairwise (· > ·)) : l.Nodup :=
  h.imp (fun hab => by omega)

/-! ## buckets -/

theorem mem_bucket {cands : List (Sender × Int)} {k : Int} {s : Sender} :
    s ∈ bucket cands k ↔ (s, k) ∈ cands := by
  simp only [bucket, List.mem_map, List.mem_filter, beq_iff_eq]
  constructor
  · rintro ⟨⟨s', k'⟩, ⟨hm, hk⟩, hs⟩
    simp only at hk hs; subst hk; subst hs; exact hm
  · intro h; exact ⟨(s, k), ⟨h, rfl⟩, rfl⟩

theorem flatMap_filter_perm {α : Type} (f : α → Int) (l : List α) :
    ∀ ks : List Int, ks.Nodup →
      (ks.flatMap (fun k => l.filter (fun c => f c == k))).Perm (l.filter (fun c => ks.contains (f c)))
  | [], _ => by simp
  | k :: ks, hnd => by
    rw [List.nodup_cons] at hnd
    have ih := flatMap_filter_perm f l ks hnd.2
    rw [List.flatMap_cons]
    refine (List.Perm.append (List.Perm.refl _) ih).trans ?_
    have hdis : ∀ x ∈ l, ¬ ((f x == k) = true ∧ (ks.contains (f x)) = true) := by
      intro x _ ⟨h1, h2⟩
      rw [beq_iff_eq] at h1
      rw [List.contains_iff_mem] at h2
      exact hnd.1 (h1 ▸ h2)
    refine (filter_or_perm _ _ l hdis).trans ?_
    have : (fun x => (f x == k) || ks.contains (f x)) = (fun c => (k :: ks).contains (f c)) := by
      funext x
      by_cases h : f x = k
      · simp [h]
      · simp [h]
    rw [this]

theorem flatMap_bucket_perm (cands : List (Sender × Int)) (ks : List Int) (hnd : ks.Nodup)
    (hall : ∀ c ∈ cands, c.2 ∈ ks) : (ks.flatMap (bucket cands)).Perm (cands.map (·.1)) := by
  have h := flatMap_filter_perm (fun c : Sender × Int => c.2) cands ks hnd
  have hf : cands.filter (fun c => ks.contains c.2) = cands := by
    rw [List.filter_eq_self]; intro c hc; rw [List.contains_iff_mem]; exact hall c hc
  rw [hf] at h
  have h2 := h.map (·.1)
  rw [List.map_flatMap] at h2
  exact h2

theorem keys_flatMap_bucket_perm (cands : List (Sender × Int)) :
    ((keysDesc cands).flatMap (bucket cands)).Perm (cands.map (·.1)) :=
  flatMap_bucket_perm cands _ (desc_nodup (keysDesc_desc cands))
    (fun c hc => mem_keysDesc.2 ⟨c, hc, rfl⟩)

/-! ## the selection loop -/

/-- Shape of the result of the loop when it does not panic: either it stopped in bucket `t`
(everything of the higher buckets `hi`, then the first `n` of the shuffled bucket `t`, reaching
`outboundsCount` exactly), or it ran through all buckets without reaching `outboundsCount`. -/
theorem selectLoop_spec (shuffle : List Sender → List Sender) (cands : List (Sender × Int))
    (count : Int) :
    ∀ (ks : List Int) (acc : List Sender), (acc.length : Int) ≤ count →
      ∃ res, selectLoop shuffle cands count ks acc = some res ∧
        ((∃ hi t lo n, ks = hi ++ t :: lo ∧ n ≤ (bucket cands t).length ∧
            res = acc ++ hi.flatMap (bucket cands) ++ (shuffle (bucket cands t)).take n ∧
            (((acc ++ hi.flatMap (bucket cands)).length : Int) + (n : Int) = count)) ∨
         (res = acc ++ ks.flatMap (bucket cands) ∧ (res.length : Int) ≤ count))
  | [], acc, hacc => ⟨acc, rfl, Or.inr ⟨by simp, hacc⟩⟩
  | k :: ks, acc, hacc => by
    unfold selectLoop
    simp only
    split
    · next hge =>
      have hn : ¬ (count - (acc.length : Int) < 0) := by omega
      rw [if_neg hn]
      refine ⟨_, rfl, Or.inl ⟨[], k, ks, (count - (acc.length : Int)).toNat, rfl, ?_, ?_, ?_⟩⟩
      · omega
      · simp
      · simp; omega
    · next hlt =>
      have hacc' : (((acc ++ bucket cands k).length : Nat) : Int) ≤ count := by
        rw [List.length_append]; omega
      obtain ⟨res, hres, hsp⟩ := selectLoop_spec shuffle cands count ks (acc ++ bucket cands k) hacc'
      refine ⟨res, hres, ?_⟩
      rcases hsp with ⟨hi, t, lo, n, hks, hn, hr, hc⟩ | ⟨hr, hl⟩
      · refine Or.inl ⟨k :: hi, t, lo, n, by rw [hks]; rfl, hn, ?_, ?_⟩
        · rw [hr, List.flatMap_cons]; simp [List.append_assoc]
        · rw [List.flatMap_cons, ← List.append_assoc]; exact hc
      · refine Or.inr ⟨?_, hl⟩
        rw [hr, List.flatMap_cons, List.append_assoc]

theorem selectLoop_panic (shuffle : List Sender → List Sender) (cands : List (Sender × Int))
    (count : Int) (hneg : count < 0) (k : Int) (ks : List Int) :
    selectLoop shuffle cands count (k :: ks) [] = none := by
  unfold selectLoop
  simp only [List.length_nil]
  have h1 : ((0 : Nat) : Int) + ((bucket cands k).length : Int) ≥ count := by omega
  rw [if_pos h1]
  have h2 : count - ((0 : Nat) : Int) < 0 := by omega
  rw [if_pos h2]

end Neigh
