/-
  Neigh.Lemmas — helper lemmas for Neigh.Props (core Lean only).
-/
import Neigh.Model
import Neigh.Spec

namespace Neigh

/-! ## generic list facts -/

theorem filter_or_perm {α : Type} (p q : α → Bool) :
    ∀ l : List α, (∀ x ∈ l, ¬ (p x = true ∧ q x = true)) →
      (l.filter p ++ l.filter q).Perm (l.filter (fun x => p x || q x))
  | [], _ => by simp
  | x :: l, h => by
    have ih := filter_or_perm p q l (fun y hy => h y (List.mem_cons_of_mem _ hy))
    have hx := h x (List.mem_cons_self)
    cases hp : p x <;> cases hq : q x
    · simpa [List.filter_cons, hp, hq] using ih
    · simp only [List.filter_cons, hp, hq, Bool.false_or, if_true]
      exact List.perm_middle.trans (List.Perm.cons x ih)
    · simpa [List.filter_cons, hp, hq] using ih
    · exact absurd ⟨hp, hq⟩ hx

theorem fst_unique {α β : Type} {l : List (α × β)} (hnd : (l.map (·.1)).Nodup) {a : α} {b b' : β}
    (h : (a, b) ∈ l) (h' : (a, b') ∈ l) : b = b' := by
  induction l with
  | nil => cases h
  | cons x l ih =>
    rw [List.map_cons, List.nodup_cons] at hnd
    have hin : ∀ c, (a, c) ∈ l → a ∈ l.map (·.1) := fun c hc => List.mem_map.2 ⟨(a, c), hc, rfl⟩
    rcases List.mem_cons.1 h with h1 | h1 <;> rcases List.mem_cons.1 h' with h2 | h2
    · rw [← h1] at h2; cases h2; rfl
    · subst h1; exact absurd (hin _ h2) hnd.1
    · subst h2; exact absurd (hin _ h1) hnd.1
    · exact ih hnd.2 h1 h2

/-! ## score maps -/

theorem Scores.has_iff (m : Scores) (k : String) : m.has k = true ↔ k ∈ m.keys := by
  induction m with
  | nil => simp [Scores.has, Scores.keys]
  | cons e m ih =>
    simp only [Scores.has, Scores.keys, List.any_cons, List.map_cons, List.mem_cons, Bool.or_eq_true,
      beq_iff_eq] at ih ⊢
    rw [ih]; constructor
    · rintro (h | h); exact Or.inl h.symm; exact Or.inr h
    · rintro (h | h); exact Or.inl h.symm; exact Or.inr h

theorem Scores.keys_addNew (m : Scores) (k : String) (v : Int) :
    (m.addNew k v).keys = m.keys ++ [k] := by
  simp [Scores.addNew, Scores.keys]

theorem Scores.keys_incr (m : Scores) (k : String) :
    (m.incr k).keys = if k ∈ m.keys then m.keys else m.keys ++ [k] := by
  induction m with
  | nil => simp [Scores.incr, Scores.keys]
  | cons e m ih =>
    obtain ⟨k', v⟩ := e
    by_cases h : k' = k
    · subst h; simp [Scores.incr, Scores.keys]
    · have ih' : List.map (·.1) (Scores.incr m k)
          = if k ∈ List.map (·.1) m then List.map (·.1) m else List.map (·.1) m ++ [k] := ih
      have hne : ¬ k = k' := fun e => h e.symm
      simp only [Scores.incr, Scores.keys, h, if_false, List.map_cons, List.mem_cons, hne, false_or, ih']
      split <;> simp

theorem Scores.nodup_addNew {m : Scores} {k : String} (v : Int) (h : m.keys.Nodup) (hk : k ∉ m.keys) :
    (m.addNew k v).keys.Nodup := by
  rw [Scores.keys_addNew, List.nodup_append]
  refine ⟨h, by simp, ?_⟩
  intro a ha b hb
  simp at hb; subst hb
  exact fun e => hk (e ▸ ha)

theorem Scores.nodup_incr {m : Scores} (k : String) (h : m.keys.Nodup) : (m.incr k).keys.Nodup := by
  rw [Scores.keys_incr]
  split
  · exact h
  · next hk =>
    rw [List.nodup_append]
    refine ⟨h, by simp, ?_⟩
    intro a ha b hb
    simp at hb; subst hb
    exact fun e => hk (e ▸ ha)

theorem Scores.keys_mergeMax (m : Scores) (k : String) (v : Int) :
    (m.mergeMax k v).keys = if k ∈ m.keys then m.keys else m.keys ++ [k] := by
  induction m with
  | nil => simp [Scores.mergeMax, Scores.keys]
  | cons e m ih =>
    obtain ⟨k', v'⟩ := e
    by_cases h : k' = k
    · subst h; simp [Scores.mergeMax, Scores.keys]
    · have ih' : List.map (·.1) (Scores.mergeMax m k v)
          = if k ∈ List.map (·.1) m then List.map (·.1) m else List.map (·.1) m ++ [k] := ih
      have hne : ¬ k = k' := fun e => h e.symm
      simp only [Scores.mergeMax, Scores.keys, h, if_false, List.map_cons, List.mem_cons, hne, false_or, ih']
      split <;> simp

theorem Scores.get_incr_self (m : Scores) (k : String) : (m.incr k).get k = m.get k + 1 := by
  induction m with
  | nil => simp [Scores.incr, Scores.get]
  | cons e m ih =>
    obtain ⟨k', v⟩ := e
    by_cases h : k' = k
    · simp [Scores.incr, Scores.get, h]
    · simp [Scores.incr, Scores.get, h, ih]

theorem Scores.get_incr_other (m : Scores) {k k2 : String} (hne : k2 ≠ k) :
    (m.incr k).get k2 = m.get k2 := by
  have hne' : ¬ k = k2 := fun e => hne e.symm
  induction m with
  | nil => simp [Scores.incr, Scores.get, hne']
  | cons e m ih =>
    obtain ⟨k', v⟩ := e
    by_cases h : k' = k
    · subst h; simp [Scores.incr, Scores.get, hne']
    · by_cases h2 : k' = k2
      · subst h2; simp [Scores.incr, Scores.get, h]
      · simp [Scores.incr, Scores.get, h, h2, ih]

/-! ## keys of `neighborsByScore`, sorted -/

theorem mem_insertDesc {k x : Int} : ∀ {l : List Int}, x ∈ insertDesc k l ↔ x = k ∨ x ∈ l
  | [] => by simp [insertDesc]
  | y :: l => by
    unfold insertDesc
    split
    · simp
    · split
      · next h => subst h; simp
      · rw [List.mem_cons, mem_insertDesc (l := l), List.mem_cons]
        constructor
        · rintro (h | h | h)
          · exact Or.inr (Or.inl h)
          · exact Or.inl h
          · exact Or.inr (Or.inr h)
        · rintro (h | h | h)
          · exact Or.inr (Or.inl h)
          · exact Or.inl h
          · exact Or.inr (Or.inr h)

theorem insertDesc_desc {k : Int} : ∀ {l : List Int}, l.Pairwise (· > ·) → (insertDesc k l).Pairwise (· > ·)
  | [], _ => by simp [insertDesc]
  | y :: l, h => by
    have hy := List.pairwise_cons.1 h
    unfold insertDesc
    split
    · next hlt =>
      refine List.pairwise_cons.2 ⟨?_, h⟩
      intro a ha
      rcases List.mem_cons.1 ha with rfl | ha
      · exact hlt
      · have := hy.1 a ha; omega
    · split
      · exact h
      · next h1 h2 =>
        refine List.pairwise_cons.2 ⟨?_, insertDesc_desc hy.2⟩
        intro a ha
        rcases mem_insertDesc.1 ha with rfl | ha
        · omega
        · exact hy.1 a ha

theorem mem_keysDesc {cands : List (Sender × Int)} {k : Int} :
    k ∈ keysDesc cands ↔ ∃ c ∈ cands, c.2 = k := by
  induction cands with
  | nil => simp [keysDesc]
  | cons c cs ih =>
    have : keysDesc (c :: cs) = insertDesc c.2 (keysDesc cs) := rfl
    rw [this, mem_insertDesc, ih]
    constructor
    · rintro (h | ⟨d, hd, h⟩)
      · exact ⟨c, List.mem_cons_self, h.symm⟩
      · exact ⟨d, List.mem_cons_of_mem _ hd, h⟩
    · rintro ⟨d, hd, h⟩
      rcases List.mem_cons.1 hd with rfl | hd
      · exact Or.inl h.symm
      · exact Or.inr ⟨d, hd, h⟩

theorem keysDesc_desc (cands : List (Sender × Int)) : (keysDesc cands).Pairwise (· > ·) := by
  induction cands with
  | nil => simp [keysDesc]
  | cons c cs ih => exact insertDesc_desc ih

theorem desc_nodup {l : List Int} (h : l.Pairwise (· > ·)) : l.Nodup :=
  h.imp (fun hab => by omega)

/-! ## buckets -/

theorem mem_bucket {cands : List (Sender × Int)} {k : Int} {s : Sender} :
    s ∈ bucket cands k ↔ (s, k) ∈ cands := by
  simp only [bucket, List.mem_map, List.mem_filter, beq_iff_eq]
  constructor
  · rintro ⟨⟨s', k'⟩, ⟨hm, hk⟩, hs⟩
    simp only at hk hs; subst hk; subst hs; exact hm
  · intro h; exact ⟨(s, k), ⟨h, rfl⟩, rfl⟩

theorem flatMap_filter_perm {α : Type} (f : α → Int) (l : List α) :
    ∀ ks : List Int, ks.Nodup →
      (ks.flatMap (fun k => l.filter (fun c => f c == k))).Perm (l.filter (fun c => ks.contains (f c)))
  | [], _ => by simp
  | k :: ks, hnd => by
    rw [List.nodup_cons] at hnd
    have ih := flatMap_filter_perm f l ks hnd.2
    rw [List.flatMap_cons]
    refine (List.Perm.append (List.Perm.refl _) ih).trans ?_
    have hdis : ∀ x ∈ l, ¬ ((f x == k) = true ∧ (ks.contains (f x)) = true) := by
      intro x _ ⟨h1, h2⟩
      rw [beq_iff_eq] at h1
      rw [List.contains_iff_mem] at h2
      exact hnd.1 (h1 ▸ h2)
    refine (filter_or_perm _ _ l hdis).trans ?_
    have : (fun x => (f x == k) || ks.contains (f x)) = (fun c => (k :: ks).contains (f c)) := by
      funext x
      by_cases h : f x = k
      · simp [h]
      · simp [h]
    rw [this]

theorem flatMap_bucket_perm (cands : List (Sender × Int)) (ks : List Int) (hnd : ks.Nodup)
    (hall : ∀ c ∈ cands, c.2 ∈ ks) : (ks.flatMap (bucket cands)).Perm (cands.map (·.1)) := by
  have h := flatMap_filter_perm (fun c : Sender × Int => c.2) cands ks hnd
  have hf : cands.filter (fun c => ks.contains c.2) = cands := by
    rw [List.filter_eq_self]; intro c hc; rw [List.contains_iff_mem]; exact hall c hc
  rw [hf] at h
  have h2 := h.map (·.1)
  rw [List.map_flatMap] at h2
  exact h2

theorem keys_flatMap_bucket_perm (cands : List (Sender × Int)) :
    ((keysDesc cands).flatMap (bucket cands)).Perm (cands.map (·.1)) :=
  flatMap_bucket_perm cands _ (desc_nodup (keysDesc_desc cands))
    (fun c hc => mem_keysDesc.2 ⟨c, hc, rfl⟩)

/-! ## the selection loop -/

/-- Shape of the result of the loop when it does not panic: either it stopped in bucket `t`
(everything of the higher buckets `hi`, then the first `n` of the shuffled bucket `t`, reaching
`outboundsCount` exactly), or it ran through all buckets without reaching `outboundsCount`. -/
theorem selectLoop_spec (shuffle : List Sender → List Sender) (cands : List (Sender × Int))
    (count : Int) :
    ∀ (ks : List Int) (acc : List Sender), (acc.length : Int) ≤ count →
      ∃ res, selectLoop shuffle cands count ks acc = some res ∧
        ((∃ hi t lo n, ks = hi ++ t :: lo ∧ n ≤ (bucket cands t).length ∧
            res = acc ++ hi.flatMap (bucket cands) ++ (shuffle (bucket cands t)).take n ∧
            (((acc ++ hi.flatMap (bucket cands)).length : Int) + (n : Int) = count)) ∨
         (res = acc ++ ks.flatMap (bucket cands) ∧ (res.length : Int) ≤ count))
  | [], acc, hacc => ⟨acc, rfl, Or.inr ⟨by simp, hacc⟩⟩
  | k :: ks, acc, hacc => by
    unfold selectLoop
    simp only
    split
    · next hge =>
      have hn : ¬ (count - (acc.length : Int) < 0) := by omega
      rw [if_neg hn]
      refine ⟨_, rfl, Or.inl ⟨[], k, ks, (count - (acc.length : Int)).toNat, rfl, ?_, ?_, ?_⟩⟩
      · omega
      · simp
      · simp; omega
    · next hlt =>
      have hacc' : (((acc ++ bucket cands k).length : Nat) : Int) ≤ count := by
        rw [List.length_append]; omega
      obtain ⟨res, hres, hsp⟩ := selectLoop_spec shuffle cands count ks (acc ++ bucket cands k) hacc'
      refine ⟨res, hres, ?_⟩
      rcases hsp with ⟨hi, t, lo, n, hks, hn, hr, hc⟩ | ⟨hr, hl⟩
      · refine Or.inl ⟨k :: hi, t, lo, n, by rw [hks]; rfl, hn, ?_, ?_⟩
        · rw [hr, List.flatMap_cons]; simp [List.append_assoc]
        · rw [List.flatMap_cons, ← List.append_assoc]; exact hc
      · refine Or.inr ⟨?_, hl⟩
        rw [hr, List.flatMap_cons, List.append_assoc]

theorem selectLoop_panic (shuffle : List Sender → List Sender) (cands : List (Sender × Int))
    (count : Int) (hneg : count < 0) (k : Int) (ks : List Int) :
    selectLoop shuffle cands count (k :: ks) [] = none := by
  unfold selectLoop
  simp only [List.length_nil]
  have h1 : ((0 : Nat) : Int) + ((bucket cands k).length : Int) ≥ count := by omega
  rw [if_pos h1]
  have h2 : count - ((0 : Nat) : Int) < 0 := by omega
  rw [if_pos h2]

/-- What one run of `selectOutbounds` guarantees when it returns. -/
structure SelectOK (cands : List (Sender × Int)) (count : Int) (outs : List Sender) : Prop where
  length_eq : (outs.length : Int) = if count ≤ (cands.length : Int) then count else (cands.length : Int)
  sub : ∃ l, outs.Sublist l ∧ l.Perm (cands.map (·.1))
  best : ∀ x ∈ outs, ∃ sx, (x, sx) ∈ cands ∧ ∀ y sy, (y, sy) ∈ cands → y ∉ outs → sy ≤ sx

theorem select_ok (shuffle : List Sender → List Sender) (hshuf : ∀ l, (shuffle l).Perm l)
    (cands : List (Sender × Int)) (count : Int) (hc : 0 ≤ count) :
    ∃ outs, selectLoop shuffle cands count (keysDesc cands) [] = some outs ∧
      SelectOK cands count outs := by
  obtain ⟨res, hres, hsp⟩ := selectLoop_spec shuffle cands count (keysDesc cands) [] (by simpa using hc)
  refine ⟨res, hres, ?_⟩
  have hperm := keys_flatMap_bucket_perm cands
  have hdesc := keysDesc_desc cands
  have htot : ((keysDesc cands).flatMap (bucket cands)).length = cands.length := by
    rw [hperm.length_eq, List.length_map]
  rcases hsp with ⟨hi, t, lo, n, hks, hn, hr, hcnt⟩ | ⟨hr, hl⟩
  · rw [List.nil_append] at hr hcnt
    rw [hks, List.flatMap_append, List.flatMap_cons] at hperm htot
    have hsl : ((shuffle (bucket cands t)).take n).length = n := by
      rw [List.length_take, (hshuf _).length_eq]; omega
    refine ⟨?_, ?_, ?_⟩
    · rw [hr, List.length_append, hsl]
      simp only [List.length_append] at htot
      split <;> omega
    · refine ⟨hi.flatMap (bucket cands) ++ (shuffle (bucket cands t) ++ lo.flatMap (bucket cands)), ?_, ?_⟩
      · rw [hr]
        exact List.Sublist.append (List.Sublist.refl _)
          ((List.take_sublist _ _).trans (List.sublist_append_left _ _))
      · exact (List.Perm.append (List.Perm.refl _)
          (List.Perm.append (hshuf _) (List.Perm.refl _))).trans hperm
    · rw [hks, List.pairwise_append, List.pairwise_cons] at hdesc
      obtain ⟨_, ⟨htlo, _⟩, hhi⟩ := hdesc
      intro x hx
      rw [hr, List.mem_append] at hx
      -- the score under which x was selected
      have hxk : ∃ k, (k ∈ hi ∨ k = t) ∧ (x, k) ∈ cands := by
        rcases hx with hx | hx
        · obtain ⟨k, hk, hxk⟩ := List.mem_flatMap.1 hx
          exact ⟨k, Or.inl hk, mem_bucket.1 hxk⟩
        · have := ((hshuf _).mem_iff).1 (List.mem_of_mem_take hx)
          exact ⟨t, Or.inr rfl, mem_bucket.1 this⟩
      obtain ⟨k, hk, hxc⟩ := hxk
      refine ⟨k, hxc, ?_⟩
      intro y sy hy hny
      have hsy : sy ∈ keysDesc cands := mem_keysDesc.2 ⟨(y, sy), hy, rfl⟩
      rw [hks, List.mem_append, List.mem_cons] at hsy
      have hkt : t ≤ k := by
        rcases hk with hk | hk
        · have := hhi k hk t List.mem_cons_self; omega
        · omega
      rcases hsy with hsy | hsy | hsy
      · exfalso; apply hny; rw [hr, List.mem_append]
        exact Or.inl (List.mem_flatMap.2 ⟨sy, hsy, mem_bucket.2 hy⟩)
      · omega
      · have := htlo sy hsy; omega
  · rw [List.nil_append] at hr
    have hlen : res.length = cands.length := by rw [hr, htot]
    refine ⟨?_, ⟨res, List.Sublist.refl _, hr ▸ hperm⟩, ?_⟩
    · split <;> omega
    · intro x hx
      have hx' : x ∈ cands.map (·.1) := (hperm.mem_iff).1 (hr ▸ hx)
      obtain ⟨⟨x', sx⟩, hc', hxe⟩ := List.mem_map.1 hx'
      simp only at hxe; subst hxe
      refine ⟨sx, hc', ?_⟩
      intro y sy hy hny
      exfalso; apply hny
      rw [hr]; exact (hperm.mem_iff).2 (List.mem_map.2 ⟨(y, sy), hy, rfl⟩)

/-! ## candidates of a round -/

theorem candidate_some {env : Env} {host : String} {reach : String → String → Bool}
    {e : String × Int} {c : Sender × Int} (h : candidate env host reach e = some c) :
    e.1 ≠ host ∧ c.2 = e.2 ∧ ∃ ip port, env.parse e.1 = some (ip, port) ∧ reach ip port = true ∧
      c.1 = ⟨e.1, ip, port, env.senderTarget ip port⟩ := by
  unfold candidate at h
  split at h
  · next hne =>
    split at h
    · cases h
    · next ip port hp =>
      split at h
      · next hr => cases h; exact ⟨hne, rfl, ip, port, hp, hr, rfl⟩
      · cases h
  · cases h

theorem candidate_of {env : Env} {host : String} {reach : String → String → Bool}
    {e : String × Int} {ip port : String} (hne : e.1 ≠ host) (hp : env.parse e.1 = some (ip, port))
    (hr : reach ip port = true) :
    candidate env host reach e = some (⟨e.1, ip, port, env.senderTarget ip port⟩, e.2) := by
  unfold candidate
  rw [if_pos hne, hp]
  simp [hr]

theorem mem_candidates {env : Env} {host : String} {reach : String → String → Bool}
    {entries : Scores} {c : Sender × Int} :
    c ∈ candidates env host reach entries ↔
      (c.1.value, c.2) ∈ entries ∧ c.1.value ≠ host ∧ ∃ ip port, env.parse c.1.value = some (ip, port) ∧
        reach ip port = true ∧ c.1 = ⟨c.1.value, ip, port, env.senderTarget ip port⟩ := by
  unfold candidates
  rw [List.mem_filterMap]
  constructor
  · rintro ⟨e, he, hc⟩
    obtain ⟨hne, h2, ip, port, hp, hr, h1⟩ := candidate_some hc
    have hv : c.1.value = e.1 := by rw [h1]
    have he' : (c.1.value, c.2) = e := by rw [hv, h2]
    rw [he', hv]
    exact ⟨he, hne, ip, port, hp, hr, by rw [h1]⟩
  · rintro ⟨he, hne, ip, port, hp, hr, h1⟩
    refine ⟨(c.1.value, c.2), he, ?_⟩
    rw [candidate_of (e := (c.1.value, c.2)) hne hp hr]
    obtain ⟨c1, c2⟩ := c
    simp only at h1 ⊢
    rw [← h1]

theorem candidates_values_nodup {env : Env} {host : String} {reach : String → String → Bool}
    {entries : Scores} (h : entries.keys.Nodup) :
    ((candidates env host reach entries).map (·.1.value)).Nodup := by
  unfold Scores.keys at h
  unfold List.Nodup at h ⊢
  rw [List.pairwise_map] at h ⊢
  unfold candidates
  refine List.Pairwise.filterMap _ ?_ h
  intro a a' hne b hb b' hb'
  obtain ⟨_, _, _, _, _, _, h1⟩ := candidate_some hb
  obtain ⟨_, _, _, _, _, _, h1'⟩ := candidate_some hb'
  rw [h1, h1']; exact hne

theorem nodup_of_map {α β : Type} (f : α → β) {l : List α} (h : (l.map f).Nodup) : l.Nodup := by
  unfold List.Nodup at h ⊢
  rw [List.pairwise_map] at h
  exact h.imp (fun {a b} hab (e : a = b) => hab (congrArg f e))

theorem source_keys_nodup {env : Env} {st : State} (h : st.WF env) : st.source.keys.Nodup := by
  unfold State.source; split
  · exact h.1
  · exact h.2.1

theorem source_canonical {env : Env} {st : State} (h : st.WF env) :
    ∀ k ∈ st.source.keys, Canonical env k := by
  unfold State.source; split
  · exact h.2.2.1
  · exact fun k hk => (h.2.2.2.1 k hk).1

theorem goMin_nonneg {a : Nat} {m : Int} (hm : 0 ≤ m) : 0 ≤ goMin (a : Int) m := by
  unfold goMin; split <;> omega

/-! ## one refresh round -/

theorem synchronize_eq_of_select {env : Env} {reach : String → String → Bool} {order : Scores → Scores}
    {shuffle : List Sender → List Sender} {st : State} {outs : List Sender}
    (h : selectLoop shuffle (candidates env st.hostValue reach (order st.source))
          (goMin (st.source.length : Int) st.max)
          (keysDesc (candidates env st.hostValue reach (order st.source))) [] = some outs) :
    synchronize env reach order shuffle st =
      ({ st with scores := [], senders := outs },
       .ok (outs.map (fun o => (o, fanoutFor
          (targetValuesOf st.hostValue (candidates env st.hostValue reach (order st.source))) o)))) := by
  simp only [synchronize, selectOutbounds, h]

theorem synchronize_eq_of_panic {env : Env} {reach : String → String → Bool} {order : Scores → Scores}
    {shuffle : List Sender → List Sender} {st : State}
    (h : selectLoop shuffle (candidates env st.hostValue reach (order st.source))
          (goMin (st.source.length : Int) st.max)
          (keysDesc (candidates env st.hostValue reach (order st.source))) [] = none) :
    synchronize env reach order shuffle st = ({ st with scores := [] }, .panic) := by
  simp only [synchronize, selectOutbounds, h]

theorem round_ok (env : Env) (reach : String → String → Bool) (order : Scores → Scores)
    (shuffle : List Sender → List Sender) (st : State) (hwf : st.WF env) (hmax : 0 ≤ st.max)
    (hT : env.TargetIsJoin) (ho : Rearranges order) (hs : Rearranges shuffle) :
    RoundOK env reach st (synchronize env reach order shuffle st) := by
  have hcp : (candidates env st.hostValue reach (order st.source)).Perm
      (candidates env st.hostValue reach st.source) := (ho st.source).filterMap _
  have hsrc := source_keys_nodup hwf
  have hcanon := source_canonical hwf
  have hord : (order st.source).keys.Nodup := by
    have hp : (order st.source).keys.Perm st.source.keys := (ho st.source).map _
    exact hp.nodup_iff.2 hsrc
  obtain ⟨outs, hsel, hok⟩ := select_ok shuffle hs (candidates env st.hostValue reach (order st.source))
    (goMin (st.source.length : Int) st.max) (goMin_nonneg hmax)
  rw [synchronize_eq_of_select hsel]
  generalize hcands : candidates env st.hostValue reach (order st.source) = cands at hsel hok hcp
  obtain ⟨l, hsub, hl⟩ := hok.sub
  have hmem : ∀ o ∈ outs, ∃ sc, (o, sc) ∈ cands := by
    intro o ho'
    have := (hl.mem_iff).1 (hsub.subset ho')
    obtain ⟨⟨o', sc⟩, hc, he⟩ := List.mem_map.1 this
    simp only at he; subst he; exact ⟨sc, hc⟩
  have hmc : ∀ {c : Sender × Int}, c ∈ cands ↔
      (c.1.value, c.2) ∈ st.source ∧ c.1.value ≠ st.hostValue ∧ ∃ ip port,
        env.parse c.1.value = some (ip, port) ∧ reach ip port = true ∧
        c.1 = ⟨c.1.value, ip, port, env.senderTarget ip port⟩ := by
    intro c; rw [← hcands, mem_candidates, (ho st.source).mem_iff]
  have hlen : (cands.length : Int) = (candidateCount env reach st : Int) := by
    unfold candidateCount; rw [hcp.length_eq]
  have hle : cands.length ≤ st.source.length := by
    rw [← hcands]; unfold candidates
    exact Nat.le_trans (List.length_filterMap_le _ _) (Nat.le_of_eq (ho st.source).length_eq)
  have hcnt : (outs.length : Int) = min st.max (candidateCount env reach st : Int) := by
    have h1 := hok.length_eq
    rw [← hlen]
    unfold goMin at h1
    split at h1 <;> split at h1 <;> omega
  have hvals : (outs.map (·.value)).Nodup := by
    have h1 : (outs.map (·.value)).Sublist (l.map (·.value)) := hsub.map _
    have h2 : (l.map (·.value)).Perm (cands.map (·.1.value)) := by
      have := hl.map (·.value); rwa [List.map_map] at this
    have h3 : (cands.map (·.1.value)).Nodup := by rw [← hcands]; exact candidates_values_nodup hord
    exact h1.nodup (h2.nodup_iff.2 h3)
  have hnotself : ∀ o ∈ outs, o.value ≠ st.hostValue := by
    intro o ho'
    obtain ⟨sc, hc⟩ := hmem o ho'
    exact (hmc.1 hc).2.1
  have hknown : ∀ o ∈ outs, o.value ∈ st.source.keys := by
    intro o ho'
    obtain ⟨sc, hc⟩ := hmem o ho'
    exact List.mem_map.2 ⟨(o.value, sc), (hmc.1 hc).1, rfl⟩
  have hreach : ∀ o ∈ outs, ∃ ip port, env.parse o.value = some (ip, port) ∧ reach ip port = true ∧
      o = ⟨o.value, ip, port, env.senderTarget ip port⟩ := by
    intro o ho'
    obtain ⟨sc, hc⟩ := hmem o ho'
    obtain ⟨_, _, ip, port, hp, hr, he⟩ := hmc.1 hc
    exact ⟨ip, port, hp, hr, he⟩
  -- every outbound was created for the endpoint its (canonical) value spells, and reports that value
  have hjoin : ∀ o ∈ outs, o.value = env.join o.ip o.port ∧ o.target = o.value := by
    intro o ho'
    obtain ⟨ip, port, hp, _, he⟩ := hreach o ho'
    obtain ⟨ip', port', hp', hj⟩ := hcanon _ (hknown o ho')
    rw [hp] at hp'; cases hp'
    have h1 : o.ip = ip := by rw [he]
    have h2 : o.port = port := by rw [he]
    have h3 : o.target = env.senderTarget ip port := by rw [he]
    rw [h1, h2, h3, hT ip port, hj]
    exact ⟨rfl, rfl⟩
  refine ⟨rfl, ?_, hcnt, hvals, hnotself, hknown, hreach, ?_, ?_, ?_, ?_, ⟨rfl, rfl, rfl, rfl, rfl, rfl⟩⟩
  · show (outs.length : Int) ≤ st.max
    omega
  · intro o ho' so hso v sv hcand hv
    obtain ⟨sx, hxc, hbest⟩ := hok.best o ho'
    have hsx : sx = so := fst_unique hsrc (hmc.1 hxc).1 hso
    subst hsx
    obtain ⟨hvs, hvh, ip, port, hp, hr⟩ := hcand
    have hy : ((⟨v, ip, port, env.senderTarget ip port⟩ : Sender), sv) ∈ cands :=
      hmc.2 ⟨hvs, hvh, ip, port, hp, hr, rfl⟩
    refine hbest _ sv hy ?_
    intro hin
    exact hv (List.mem_map.2 ⟨_, hin, rfl⟩)
  · show (outs.map (fun o => (o.ip, o.port))).Nodup
    unfold List.Nodup at hvals ⊢
    rw [List.pairwise_map] at hvals ⊢
    refine hvals.imp_of_mem ?_
    intro a b ha hb hne heq
    apply hne
    have h1 : a.ip = b.ip := congrArg Prod.fst heq
    have h2 : a.port = b.port := congrArg Prod.snd heq
    rw [(hjoin a ha).1, (hjoin b hb).1, h1, h2]
  · intro o ho' heq
    have h1 : o.ip = st.hostIp := congrArg Prod.fst heq
    have h2 : o.port = st.hostPort := congrArg Prod.snd heq
    apply hnotself o ho'
    rw [(hjoin o ho').1, h1, h2, hwf.2.2.2.2]
  · refine ⟨cands.map (·.1.value), hcp.map _, ?_⟩
    show Outcome.ok _ = Outcome.ok _
    congr 1
    apply List.map_congr_left
    intro o ho'
    show (o, fanoutFor (targetValuesOf st.hostValue cands) o) = _
    unfold fanoutFor targetValuesOf
    rw [(hjoin o ho').2]

/-! ## AddTargets / Incentive -/

/-- fields that only `NewNeighborhood` sets -/
def SameConfig (a b : State) : Prop :=
  a.hostIp = b.hostIp ∧ a.hostPort = b.hostPort ∧ a.hostValue = b.hostValue ∧ a.max = b.max ∧
    a.seeds = b.seeds

theorem SameConfig.refl (a : State) : SameConfig a a := ⟨rfl, rfl, rfl, rfl, rfl⟩

theorem SameConfig.trans {a b c : State} (h1 : SameConfig a b) (h2 : SameConfig b c) : SameConfig a c :=
  ⟨h1.1.trans h2.1, h1.2.1.trans h2.2.1, h1.2.2.1.trans h2.2.2.1, h1.2.2.2.1.trans h2.2.2.2.1,
   h1.2.2.2.2.trans h2.2.2.2.2⟩

theorem acceptable_congr {env : Env} {a b : State} (h : a.hostPort = b.hostPort) (v : String) :
    Acceptable env a v ↔ Acceptable env b v := by
  unfold Acceptable; rw [h]

theorem acceptedAs_congr {env : Env} {a b : State} (h : a.hostPort = b.hostPort) (v k : String) :
    AcceptedAs env a v k ↔ AcceptedAs env b v k := by
  unfold AcceptedAs; rw [h]

/-- the canonical key of an accepted value is canonical and acceptable -/
theorem acceptedAs_key {env : Env} (hR : env.RoundTrip) {st : State} {v k : String}
    (h : AcceptedAs env st v k) : Canonical env k ∧ Acceptable env st k := by
  obtain ⟨ip, port, hp, hk, hn⟩ := h
  have := hR v ip port hp
  subst hk
  exact ⟨⟨ip, port, this, rfl⟩, ⟨ip, port, this, hn⟩⟩

theorem wf_set_scores {env : Env} {st : State} (h : st.WF env) (m : Scores) (hnd : m.keys.Nodup)
    (hall : ∀ k ∈ m.keys, Canonical env k ∧ Acceptable env st k) :
    ({ st with scores := m } : State).WF env :=
  ⟨h.1, hnd, h.2.2.1, hall, h.2.2.2.2⟩

theorem addTarget_cases (env : Env) (st : State) (v : String) :
    (addTarget env st v = st) ∨
    (∃ k, addTarget env st v = { st with scores := st.scores ++ [(k, 0)] } ∧ k ∉ st.scores.keys ∧
      AcceptedAs env st v k) := by
  cases hp : env.parse v with
  | none => left; simp only [addTarget, newTargetFromValue, hp]
  | some p =>
    obtain ⟨ip, port⟩ := p
    simp only [addTarget, newTargetFromValue, hp]
    split
    · next hc =>
      rw [Bool.and_eq_true, Bool.not_eq_true'] at hc
      refine Or.inr ⟨env.join ip port, rfl, ?_, ip, port, hp, rfl, ?_⟩
      · intro hin; have := (Scores.has_iff _ _).2 hin; rw [this] at hc; exact absurd hc.1 (by simp)
      · have := hc.2; unfold sameNetwork at this; rw [beq_iff_eq] at this; exact this.symm
    · exact Or.inl rfl

theorem addTarget_accepts {env : Env} {st : State} {v k : String} (h : AcceptedAs env st v k) :
    k ∈ (addTarget env st v).scores.keys := by
  obtain ⟨ip, port, hp, hk, hn⟩ := h
  subst hk
  unfold addTarget newTargetFromValue
  rw [hp]
  simp only
  by_cases hk : st.scores.has (env.join ip port) = true
  · simp only [hk, Bool.not_true, Bool.false_and]
    exact (Scores.has_iff _ _).1 hk
  · have hk' : st.scores.has (env.join ip port) = false := by simpa using hk
    have hsn : sameNetwork st.hostPort port = true := by
      unfold sameNetwork; rw [beq_iff_eq]; exact hn.symm
    simp only [hk', hsn, Bool.not_false, Bool.and_self, if_true]
    rw [Scores.keys_addNew]; simp

theorem addTarget_config (env : Env) (st : State) (v : String) :
    SameConfig (addTarget env st v) st ∧ (addTarget env st v).senders = st.senders := by
  rcases addTarget_cases env st v with h | ⟨k, h, _⟩ <;> rw [h]
  · exact ⟨SameConfig.refl _, rfl⟩
  · exact ⟨⟨rfl, rfl, rfl, rfl, rfl⟩, rfl⟩

theorem addTarget_wf {env : Env} (hR : env.RoundTrip) {st : State} (v : String) (h : st.WF env) :
    (addTarget env st v).WF env := by
  rcases addTarget_cases env st v with h' | ⟨k, h', hk, hacc⟩ <;> rw [h']
  · exact h
  · refine wf_set_scores h _ (Scores.nodup_addNew 0 h.2.1 hk) ?_
    intro k' hk'
    have : k' ∈ st.scores.keys ++ [k] := by rwa [← Scores.keys_addNew]
    rcases List.mem_append.1 this with h1 | h1
    · exact h.2.2.2.1 k' h1
    · simp only [List.mem_singleton] at h1; subst h1; exact acceptedAs_key hR hacc

theorem addTargets_config (env : Env) : ∀ (vs : List String) (st : State),
    SameConfig (addTargets env st vs) st ∧ (addTargets env st vs).senders = st.senders
  | [], st => ⟨SameConfig.refl _, rfl⟩
  | v :: vs, st => by
    have ih := addTargets_config env vs (addTarget env st v)
    have h1 := addTarget_config env st v
    exact ⟨ih.1.trans h1.1, ih.2.trans h1.2⟩

theorem addTargets_wf {env : Env} (hR : env.RoundTrip) :
    ∀ (vs : List String) (st : State), st.WF env → (addTargets env st vs).WF env
  | [], _, h => h
  | v :: vs, st, h => addTargets_wf hR vs (addTarget env st v) (addTarget_wf hR v h)

theorem addTargets_old (env : Env) : ∀ (vs : List String) (st : State) (e : String × Int),
    e ∈ st.scores → e ∈ (addTargets env st vs).scores
  | [], _, _, h => h
  | v :: vs, st, e, h => by
    refine addTargets_old env vs (addTarget env st v) e ?_
    rcases addTarget_cases env st v with h' | ⟨k, h', _⟩ <;> rw [h']
    · exact h
    · exact List.mem_append_left _ h

theorem addTargets_new (env : Env) : ∀ (vs : List String) (st : State) (e : String × Int),
    e ∈ (addTargets env st vs).scores →
      e ∈ st.scores ∨ (e.2 = 0 ∧ e.1 ∉ st.scores.keys ∧ ∃ v ∈ vs, AcceptedAs env st v e.1)
  | [], _, _, h => Or.inl h
  | v :: vs, st, e, h => by
    have hcfg := (addTarget_config env st v).1
    rcases addTargets_new env vs (addTarget env st v) e h with h1 | ⟨h0, hnk, w, hw, hacc⟩
    · rcases addTarget_cases env st v with h' | ⟨k, h', hk, hacc⟩
      · rw [h'] at h1; exact Or.inl h1
      · rw [h'] at h1
        rcases List.mem_append.1 h1 with h1 | h1
        · exact Or.inl h1
        · simp only [List.mem_singleton] at h1
          subst h1
          exact Or.inr ⟨rfl, hk, v, List.mem_cons_self, hacc⟩
    · have hacc' : AcceptedAs env st w e.1 := (acceptedAs_congr hcfg.2.1 _ _).1 hacc
      have hnk' : e.1 ∉ st.scores.keys := by
        intro hin'
        apply hnk
        obtain ⟨e', he', hk'⟩ := List.mem_map.1 hin'
        have : e' ∈ (addTarget env st v).scores := by
          rcases addTarget_cases env st v with h' | ⟨k, h', _⟩ <;> rw [h']
          · exact he'
          · exact List.mem_append_left _ he'
        exact List.mem_map.2 ⟨e', this, hk'⟩
      exact Or.inr ⟨h0, hnk', w, List.mem_cons_of_mem _ hw, hacc'⟩

theorem addTargets_keys_mono (env : Env) (vs : List String) (st : State) {k : String}
    (h : k ∈ st.scores.keys) : k ∈ (addTargets env st vs).scores.keys := by
  obtain ⟨e, he, hk⟩ := List.mem_map.1 h
  exact List.mem_map.2 ⟨e, addTargets_old env vs st e he, hk⟩

theorem addTargets_complete (env : Env) : ∀ (vs : List String) (st : State) (v k : String),
    v ∈ vs → AcceptedAs env st v k → k ∈ (addTargets env st vs).scores.keys
  | [], _, _, _, h, _ => by cases h
  | w :: vs, st, v, k, h, hacc => by
    have hcfg := (addTarget_config env st w).1
    rcases List.mem_cons.1 h with rfl | h
    · exact addTargets_keys_mono env vs _ (addTarget_accepts hacc)
    · exact addTargets_complete env vs (addTarget env st w) v k h ((acceptedAs_congr hcfg.2.1 _ _).2 hacc)

theorem incentive_cases (env : Env) (st : State) (v : String) :
    (incentive env st v = st ∧ ¬ ∃ k, AcceptedAs env st v k) ∨
    (∃ k, AcceptedAs env st v k ∧ incentive env st v = { st with scores := st.scores.incr k }) := by
  cases hp : env.parse v with
  | none =>
    left
    refine ⟨by simp only [incentive, newTargetFromValue, hp], ?_⟩
    rintro ⟨k, ip, port, hp', _⟩; rw [hp] at hp'; cases hp'
  | some p =>
    obtain ⟨ip, port⟩ := p
    simp only [incentive, newTargetFromValue, hp]
    split
    · next hc =>
      have hn : networkId port = networkId st.hostPort := by
        unfold sameNetwork at hc; rw [beq_iff_eq] at hc; exact hc.symm
      exact Or.inr ⟨env.join ip port, ⟨ip, port, hp, rfl, hn⟩, rfl⟩
    · next hc =>
      refine Or.inl ⟨rfl, ?_⟩
      rintro ⟨k, ip2, port2, hp', _, hn⟩
      rw [hp] at hp'; cases hp'
      apply hc; unfold sameNetwork; rw [beq_iff_eq]; exact hn.symm

theorem incentive_config (env : Env) (st : State) (v : String) :
    SameConfig (incentive env st v) st ∧ (incentive env st v).senders = st.senders := by
  rcases incentive_cases env st v with ⟨h, _⟩ | ⟨k, _, h⟩ <;> rw [h]
  · exact ⟨SameConfig.refl _, rfl⟩
  · exact ⟨⟨rfl, rfl, rfl, rfl, rfl⟩, rfl⟩

theorem incentive_wf {env : Env} (hR : env.RoundTrip) {st : State} (v : String) (h : st.WF env) :
    (incentive env st v).WF env := by
  rcases incentive_cases env st v with ⟨h', _⟩ | ⟨k, hacc, h'⟩ <;> rw [h']
  · exact h
  · refine wf_set_scores h _ (Scores.nodup_incr k h.2.1) ?_
    intro k' hk'
    rw [Scores.keys_incr] at hk'
    split at hk'
    · exact h.2.2.2.1 k' hk'
    · rcases List.mem_append.1 hk' with h1 | h1
      · exact h.2.2.2.1 k' h1
      · simp only [List.mem_singleton] at h1; subst h1; exact acceptedAs_key hR hacc

/-! ## NewNeighborhood -/

theorem addSeed_cases (env : Env) (acc : Scores) (e : String × Int) :
    addSeed env acc e = acc ∨
    ∃ ip port, env.parse e.1 = some (ip, port) ∧ addSeed env acc e = acc.mergeMax (env.join ip port) e.2 := by
  cases hp : env.parse e.1 with
  | none => left; simp only [addSeed, newTargetFromValue, hp]
  | some p =>
    obtain ⟨ip, port⟩ := p
    exact Or.inr ⟨ip, port, rfl, by simp only [addSeed, newTargetFromValue, hp]⟩

theorem seeds_fold_wf {env : Env} (hR : env.RoundTrip) : ∀ (seeds acc : Scores),
    acc.keys.Nodup → (∀ k ∈ acc.keys, Canonical env k) →
    (seeds.foldl (addSeed env) acc).keys.Nodup ∧ ∀ k ∈ (seeds.foldl (addSeed env) acc).keys, Canonical env k
  | [], _, h1, h2 => ⟨h1, h2⟩
  | e :: seeds, acc, h1, h2 => by
    refine seeds_fold_wf hR seeds (addSeed env acc e) ?_ ?_
    · rcases addSeed_cases env acc e with h | ⟨ip, port, _, h⟩ <;> rw [h]
      · exact h1
      · rw [Scores.keys_mergeMax]
        split
        · exact h1
        · next hk =>
          rw [List.nodup_append]
          refine ⟨h1, by simp, ?_⟩
          intro a ha b hb
          simp at hb; subst hb
          exact fun e => hk (e ▸ ha)
    · rcases addSeed_cases env acc e with h | ⟨ip, port, hp, h⟩ <;> rw [h]
      · exact h2
      · intro k hk
        rw [Scores.keys_mergeMax] at hk
        split at hk
        · exact h2 k hk
        · rcases List.mem_append.1 hk with h3 | h3
          · exact h2 k h3
          · simp only [List.mem_singleton] at h3; subst h3
            exact ⟨ip, port, hR _ ip port hp, rfl⟩

theorem init_wf {env : Env} (hR : env.RoundTrip) (hostIp hostPort : String) (max : Int) (seeds : Scores) :
    (State.init env hostIp hostPort max seeds).WF env := by
  have h := seeds_fold_wf hR seeds [] List.nodup_nil (by intro k hk; cases hk)
  exact ⟨h.1, List.nodup_nil, h.2, (by intro k hk; cases hk), rfl⟩

/-! ## operation sequences -/

theorem synchronize_config (env : Env) (reach : String → String → Bool) (order : Scores → Scores)
    (shuffle : List Sender → List Sender) (st : State) :
    SameConfig (synchronize env reach order shuffle st).1 st ∧
      (synchronize env reach order shuffle st).1.scores = [] := by
  unfold synchronize
  simp only
  split <;> exact ⟨⟨rfl, rfl, rfl, rfl, rfl⟩, rfl⟩

theorem step_config (env : Env) (st : State) (op : Op) : SameConfig (step env st op) st := by
  cases op with
  | addTargets vs => exact (addTargets_config env vs st).1
  | incentive v => exact (incentive_config env st v).1
  | synchronize r o s => exact (synchronize_config env r o s st).1

theorem step_wf {env : Env} (hR : env.RoundTrip) {st : State} (op : Op) (h : st.WF env) :
    (step env st op).WF env := by
  cases op with
  | addTargets vs => exact addTargets_wf hR vs st h
  | incentive v => exact incentive_wf hR v h
  | synchronize r o s =>
    have hc := synchronize_config env r o s st
    refine ⟨?_, ?_, ?_, ?_, ?_⟩
    · show (synchronize env r o s st).1.seeds.keys.Nodup
      rw [hc.1.2.2.2.2]; exact h.1
    · show (synchronize env r o s st).1.scores.keys.Nodup
      rw [hc.2]; exact List.nodup_nil
    · show ∀ k ∈ (synchronize env r o s st).1.seeds.keys, Canonical env k
      rw [hc.1.2.2.2.2]; exact h.2.2.1
    · show ∀ k ∈ (synchronize env r o s st).1.scores.keys, _
      rw [hc.2]; intro k hk; cases hk
    · show (synchronize env r o s st).1.hostValue = env.join (synchronize env r o s st).1.hostIp
        (synchronize env r o s st).1.hostPort
      rw [hc.1.1, hc.1.2.1, hc.1.2.2.1]; exact h.2.2.2.2

theorem run_config (env : Env) : ∀ (ops : List Op) (st : State), SameConfig (run env st ops) st
  | [], st => SameConfig.refl st
  | op :: ops, st => (run_config env ops (step env st op)).trans (step_config env st op)

theorem run_wf {env : Env} (hR : env.RoundTrip) :
    ∀ (ops : List Op) (st : State), st.WF env → (run env st ops).WF env
  | [], _, h => h
  | op :: ops, st, h => run_wf hR ops (step env st op) (step_wf hR op h)

end Neigh
