/-
  Neigh.Spec — the vocabulary of property C17 as plain predicates over the model (core Lean only).
-/
import Neigh.Model

namespace Neigh

/-- `f` only rearranges its argument (Go map iteration order, `rand.Shuffle`). -/
def Rearranges {α : Type} (f : List α → List α) : Prop := ∀ l, (f l).Perm l

/-- Go maps have distinct keys: the representation invariant of the two score maps. -/
def State.WF (st : State) : Prop := st.seeds.keys.Nodup ∧ st.scores.keys.Nodup

instance (st : State) : Decidable st.WF := by unfold State.WF; exact inferInstance

/-- `value` is a target the node can select in this round: it is in the map the round iterates over
(the known targets, or the seeds when none is known) with score `score`, it is not the host's own
target value, it is well-formed and `CreateSender` succeeds for it. -/
def IsCandidate (env : Env) (reachable : String → String → Bool) (st : State)
    (value : String) (score : Int) : Prop :=
  (value, score) ∈ st.source ∧ value ≠ st.hostValue ∧
    ∃ ip port, env.parse value = some (ip, port) ∧ reachable ip port = true

/-- number of selectable targets of the round (independent of the iteration order) -/
def candidateCount (env : Env) (reachable : String → String → Bool) (st : State) : Nat :=
  (candidates env st.hostValue reachable st.source).length

/-- the values of the selectable targets, in the order of the underlying list -/
def candidateValues (env : Env) (reachable : String → String → Bool) (st : State) : List String :=
  (candidates env st.hostValue reachable st.source).map (·.1.value)

/-- `value` is well-formed and on the host's network (what `AddTargets` requires). -/
def Acceptable (env : Env) (st : State) (value : String) : Prop :=
  ∃ ip port, env.parse value = some (ip, port) ∧ networkId port = networkId st.hostPort

/-- `Acceptable` as a test on the parse result -/
def acceptableB (env : Env) (st : State) (value : String) : Bool :=
  match env.parse value with
  | some (_, port) => networkId port == networkId st.hostPort
  | none => false

theorem acceptableB_iff (env : Env) (st : State) (value : String) :
    acceptableB env st value = true ↔ Acceptable env st value := by
  unfold acceptableB Acceptable
  split
  · next ip port hp =>
    rw [beq_iff_eq]
    constructor
    · intro h; exact ⟨ip, port, hp, h⟩
    · rintro ⟨ip', port', hp', h⟩
      rw [hp] at hp'; cases hp'; exact h
  · next hp =>
    constructor
    · intro h; cases h
    · rintro ⟨ip', port', hp', _⟩; rw [hp] at hp'; cases hp'

instance (env : Env) (st : State) (value : String) : Decidable (Acceptable env st value) :=
  decidable_of_iff _ (acceptableB_iff env st value)

def Op.Valid : Op → Prop
  | .addTargets _ => True
  | .incentive _ => True
  | .synchronize _ order shuffle => Rearranges order ∧ Rearranges shuffle

/-- Everything C17 says about one refresh round `r = synchronize … st`, in the reading that is true of
the code (peers identified by announced target value; see `Neigh.Props` for the stronger readings). -/
structure RoundOK (env : Env) (reachable : String → String → Bool) (st : State)
    (r : State × Outcome) : Prop where
  no_panic : r.2.isPanic = false
  bounded : (r.1.senders.length : Int) ≤ st.max
  count : (r.1.senders.length : Int) = min st.max (candidateCount env reachable st : Int)
  distinct : (r.1.senders.map (·.value)).Nodup
  not_self : ∀ o ∈ r.1.senders, o.value ≠ st.hostValue
  known : ∀ o ∈ r.1.senders, o.value ∈ st.source.keys
  reachable_only : ∀ o ∈ r.1.senders, ∃ ip port, env.parse o.value = some (ip, port) ∧
      reachable ip port = true ∧ o = ⟨o.value, ip, port, env.senderTarget ip port⟩
  best : ∀ o ∈ r.1.senders, ∀ so, (o.value, so) ∈ st.source →
      ∀ v sv, IsCandidate env reachable st v sv → v ∉ r.1.senders.map (·.value) → sv ≤ so
  fanout : ∃ tv, tv.Perm (candidateValues env reachable st) ∧
      r.2 = .ok (r.1.senders.map (fun o => (o, (st.hostValue :: tv).filter (fun v => o.target ≠ v))))
  frame : r.1.scores = [] ∧ r.1.seeds = st.seeds ∧ r.1.max = st.max ∧ r.1.hostValue = st.hostValue ∧
      r.1.hostIp = st.hostIp ∧ r.1.hostPort = st.hostPort

/-! ## a small concrete world for non-vacuity examples and counterexample witnesses

The parse table below is what the real `net.SplitHostPort` answers on these strings and `exTarget` is
what `net.JoinHostPort` answers on the resulting pairs (both re-checked on the Go side by
`runeigh --witnesses`).  Host: 10.0.0.9:10600 (mainnet). -/
namespace Ex

def parse : String → Option (String × String)
  | "10.0.0.1:10600" => some ("10.0.0.1", "10600")
  | "10.0.0.2:10600" => some ("10.0.0.2", "10600")
  | "10.0.0.3:10600" => some ("10.0.0.3", "10600")
  | "10.0.0.4:10600" => some ("10.0.0.4", "10600")
  | "[10.0.0.2]:10600" => some ("10.0.0.2", "10600")
  | "10.0.0.9:10600" => some ("10.0.0.9", "10600")
  | "[10.0.0.9]:10600" => some ("10.0.0.9", "10600")
  | "10.0.0.5:10601" => some ("10.0.0.5", "10601")
  | "10.0.0.6:8080" => some ("10.0.0.6", "8080")
  | _ => none

def env : Env := { parse := parse, senderTarget := fun ip port => ip ++ ":" ++ port }

def allReachable : String → String → Bool := fun _ _ => true

def no3 : String → String → Bool := fun ip _ => ip != "10.0.0.3"

/-- `NewNeighborhood(…, "10.0.0.9", "10600", max, seeds = {10.0.0.1:10600: 0}, …)` -/
def init (max : Int) : State := State.init "10.0.0.9" "10600" "10.0.0.9:10600" max [("10.0.0.1:10600", 0)]

end Ex

end Neigh
