/-
  Neigh.Spec — the vocabulary of property C17 as plain predicates over the model (core Lean only).
-/
import Neigh.Model

namespace Neigh

/-- `f` only rearranges its argument (Go map iteration order, `rand.Shuffle`). -/
def Rearranges {α : Type} (f : List α → List α) : Prop := ∀ l, (f l).Perm l

/-! ### hypotheses on the parameters (what is used of `net.SplitHostPort` / `net.JoinHostPort`) -/

/-- Joining what was split splits back to the same pair.  Holds for the Go functions: a host returned by
`SplitHostPort` contains no `[`/`]` and contains `:` only if it was bracketed, a returned port contains
none of `:`, `[`, `]`; `JoinHostPort` brackets the host iff it contains `:` or `%`; so `SplitHostPort` of
the joined string finds the same separator.  Checked by `runeigh` on every generated target. -/
def Env.RoundTrip (env : Env) : Prop :=
  ∀ v ip port, env.parse v = some (ip, port) → env.parse (env.join ip port) = some (ip, port)

/-- The sender created for `(ip, port)` reports `JoinHostPort(ip, port)` as its `Target()`.  True of
`p2p.NewNeighbor(ip, port)`; the production factory first replaces `ip` by `LookupIP(ip)`, so for host NAMES
this is an assumption (out of scope of C17's repair; numeric addresses look up to themselves). -/
def Env.TargetIsJoin (env : Env) : Prop :=
  ∀ ip port, env.senderTarget ip port = env.join ip port

/-- `k` is in canonical spelling: it is what `JoinHostPort` makes of its own `SplitHostPort`. -/
def Canonical (env : Env) (k : String) : Prop :=
  ∃ ip port, env.parse k = some (ip, port) ∧ env.join ip port = k

def canonicalB (env : Env) (k : String) : Bool :=
  match env.parse k with
  | some (ip, port) => env.join ip port == k
  | none => false

theorem canonicalB_iff (env : Env) (k : String) : canonicalB env k = true ↔ Canonical env k := by
  unfold canonicalB Canonical
  split
  · next ip port hp =>
    rw [beq_iff_eq]
    constructor
    · intro h; exact ⟨ip, port, hp, h⟩
    · rintro ⟨ip', port', hp', h⟩
      rw [hp] at hp'; cases hp'; exact h
  · next hp =>
    constructor
    · intro h; cases h
    · rintro ⟨ip', port', hp', _⟩; rw [hp] at hp'; cases hp'

instance (env : Env) (k : String) : Decidable (Canonical env k) :=
  decidable_of_iff _ (canonicalB_iff env k)

/-- `value` is a target the node can select in this round: it is in the map the round iterates over
(the known targets, or the seeds when none is known) with score `score`, it is not the host's own
target value, it is well-formed and `CreateSender` succeeds for it. -/
def IsCandidate (env : Env) (reachable : String → String → Bool) (st : State)
    (value : String) (score : Int) : Prop :=
  (value, score) ∈ st.source ∧ value ≠ st.hostValue ∧
    ∃ ip port, env.parse value = some (ip, port) ∧ reachable ip port = true

/-- number of selectable targets of the round (independent of the iteration order) -/
def candidateCount (env : Env) (reachable : String → String → Bool) (st : State) : Nat :=
  (candidates env st.hostValue reachable st.source).length

/-- the values of the selectable targets, in the order of the underlying list -/
def candidateValues (env : Env) (reachable : String → String → Bool) (st : State) : List String :=
  (candidates env st.hostValue reachable st.source).map (·.1.value)

/-- `value` is well-formed and on the host's network (what `AddTargets` requires). -/
def Acceptable (env : Env) (st : State) (value : String) : Prop :=
  ∃ ip port, env.parse value = some (ip, port) ∧ networkId port = networkId st.hostPort

/-- The announced string `value` is well-formed and on the host's network, and `key` is its canonical
spelling (the key under which `AddTargets` / `Incentive` file it). -/
def AcceptedAs (env : Env) (st : State) (value key : String) : Prop :=
  ∃ ip port, env.parse value = some (ip, port) ∧ key = env.join ip port ∧
    networkId port = networkId st.hostPort

/-- `Acceptable` as a test on the parse result -/
def acceptableB (env : Env) (st : State) (value : String) : Bool :=
  match env.parse value with
  | some (_, port) => networkId port == networkId st.hostPort
  | none => false

theorem acceptableB_iff (env : Env) (st : State) (value : String) :
    acceptableB env st value = true ↔ Acceptable env st value := by
  unfold acceptableB Acceptable
  split
  · next ip port hp =>
    rw [beq_iff_eq]
    constructor
    · intro h; exact ⟨ip, port, hp, h⟩
    · rintro ⟨ip', port', hp', h⟩
      rw [hp] at hp'; cases hp'; exact h
  · next hp =>
    constructor
    · intro h; cases h
    · rintro ⟨ip', port', hp', _⟩; rw [hp] at hp'; cases hp'

instance (env : Env) (st : State) (value : String) : Decidable (Acceptable env st value) :=
  decidable_of_iff _ (acceptableB_iff env st value)

/-- Representation invariant of every reachable state: Go maps have distinct keys; the seeds are in
canonical spelling; every known target is in canonical spelling, well-formed and on the host's network;
the host value is the joined host endpoint. -/
def State.WF (env : Env) (st : State) : Prop :=
  st.seeds.keys.Nodup ∧ st.scores.keys.Nodup ∧ (∀ k ∈ st.seeds.keys, Canonical env k) ∧
    (∀ k ∈ st.scores.keys, Canonical env k ∧ Acceptable env st k) ∧
    st.hostValue = env.join st.hostIp st.hostPort

instance (env : Env) (st : State) : Decidable (st.WF env) := by unfold State.WF; exact inferInstance

def Op.Valid : Op → Prop
  | .addTargets _ => True
  | .incentive _ => True
  | .synchronize _ order shuffle => Rearranges order ∧ Rearranges shuffle

/-- Everything C17 says about one refresh round `r = synchronize … st` (peers identified by endpoint
`(ip, port)`; the value-level clauses are kept because the endpoint-level ones are derived from them). -/
structure RoundOK (env : Env) (reachable : String → String → Bool) (st : State)
    (r : State × Outcome) : Prop where
  no_panic : r.2.isPanic = false
  bounded : (r.1.senders.length : Int) ≤ st.max
  count : (r.1.senders.length : Int) = min st.max (candidateCount env reachable st : Int)
  distinct : (r.1.senders.map (·.value)).Nodup
  not_self : ∀ o ∈ r.1.senders, o.value ≠ st.hostValue
  known : ∀ o ∈ r.1.senders, o.value ∈ st.source.keys
  reachable_only : ∀ o ∈ r.1.senders, ∃ ip port, env.parse o.value = some (ip, port) ∧
      reachable ip port = true ∧ o = ⟨o.value, ip, port, env.senderTarget ip port⟩
  best : ∀ o ∈ r.1.senders, ∀ so, (o.value, so) ∈ st.source →
      ∀ v sv, IsCandidate env reachable st v sv → v ∉ r.1.senders.map (·.value) → sv ≤ so
  distinct_endpoints : (r.1.senders.map (fun o => (o.ip, o.port))).Nodup
  not_self_endpoint : ∀ o ∈ r.1.senders, (o.ip, o.port) ≠ (st.hostIp, st.hostPort)
  fanout : ∃ tv, tv.Perm (candidateValues env reachable st) ∧
      r.2 = .ok (r.1.senders.map (fun o => (o, (st.hostValue :: tv).filter (fun v => o.value ≠ v))))
  frame : r.1.scores = [] ∧ r.1.seeds = st.seeds ∧ r.1.max = st.max ∧ r.1.hostValue = st.hostValue ∧
      r.1.hostIp = st.hostIp ∧ r.1.hostPort = st.hostPort

/-! ## a small concrete world for the non-vacuity examples

The parse table below is what the real `net.SplitHostPort` answers on these strings and `join` is what
`net.JoinHostPort` answers on the resulting pairs (both re-checked on the Go side by `runeigh --witnesses`).
Host: 10.0.0.9:10600 (mainnet). -/
namespace Ex

def parse : String → Option (String × String)
  | "10.0.0.1:10600" => some ("10.0.0.1", "10600")
  | "10.0.0.2:10600" => some ("10.0.0.2", "10600")
  | "10.0.0.3:10600" => some ("10.0.0.3", "10600")
  | "10.0.0.4:10600" => some ("10.0.0.4", "10600")
  | "[10.0.0.2]:10600" => some ("10.0.0.2", "10600")
  | "10.0.0.9:10600" => some ("10.0.0.9", "10600")
  | "[10.0.0.9]:10600" => some ("10.0.0.9", "10600")
  | "10.0.0.5:10601" => some ("10.0.0.5", "10601")
  | "10.0.0.6:8080" => some ("10.0.0.6", "8080")
  | _ => none

def join (ip port : String) : String := ip ++ ":" ++ port

def env : Env := { parse := parse, join := join, senderTarget := join }

theorem env_roundTrip : env.RoundTrip := by
  intro v ip port h
  simp only [env] at h ⊢
  unfold parse at h
  split at h <;> first | (cases h; decide) | cases h

theorem env_targetIsJoin : env.TargetIsJoin := fun _ _ => rfl

def allReachable : String → String → Bool := fun _ _ => true

def no3 : String → String → Bool := fun ip _ => ip != "10.0.0.3"

/-- `NewNeighborhood(…, "10.0.0.9", "10600", max, seeds = {10.0.0.1:10600: 0}, …)` -/
def init (max : Int) : State := State.init env "10.0.0.9" "10600" max [("10.0.0.1:10600", 0)]

end Ex

end Neigh
