/-
  Neigh.Model — executable functional model of
    /repo/validatornode/application/network/neighborhood.go   (Neighborhood)
    /repo/validatornode/application/network/target.go         (Target)
  as they are AFTER the two repairs seeded/_fixes/c17-normalise-target.diff and
  seeded/_fixes/c17-incentive-validates.diff:

  * `NewTargetFromValue(v)` = `NewTarget(ip, port)` for `(ip, port) = net.SplitHostPort(v)`, i.e. its
    `Value()` is the canonical spelling `net.JoinHostPort(ip, port)`;
  * `NewNeighborhood` re-keys the seeds by canonical spelling (malformed seeds dropped, the higher score
    wins when two spellings meet);
  * `AddTargets` and `Incentive` key the score map by `target.Value()`; `Incentive` ignores a target that is
    malformed or on another network and creates an entry with score 1 for an acceptable unknown one.

  Core Lean only.  One definition per Go function, same tests in the same order, quirks kept:

  * `Synchronize` uses the seeds iff the score map is EMPTY, always resets the score map, and computes
    `outboundsCount = min(len(map), max)` where `len(map)` counts the host entry and unreachable entries too;
  * `selectOutbounds` slices `temp[:outboundsCount-len(outbounds)]`; with a negative bound Go panics.
    The panic is a distinguished outcome here (`none` / `Outcome.panic`), it is not totalised away.
    It happens after the score map was reset and before `senders` is assigned.

  External behaviour that the model does NOT re-implement is a parameter:

  * `Env.parse`        — `net.SplitHostPort`: `some (ip, port)` or `none` on error;
  * `Env.join`         — `net.JoinHostPort`;
  * `Env.senderTarget` — `Sender.Target()` of the sender that `CreateSender(ip, port)` returns
                          (production: `net.JoinHostPort(LookupIP(ip), port)`);
  * `reachable`        — whether `CreateSender(ip, port)` succeeds, a parameter of every round;
  * `order`            — the Go map iteration order of that round (any rearrangement of the entries);
  * `shuffle`          — `rand.Shuffle` of the last bucket (any rearrangement).
  The theorems in `Neigh.Props` quantify over all of them (with the hypotheses `Env.RoundTrip`,
  `Env.TargetIsJoin` of `Neigh.Spec` where stated).

  Go strings are byte strings; the model uses Lean `String` (valid UTF-8).  Go `int` scores are
  modelled as unbounded `Int` (2^63 incentives of one target within one round are out of scope).
-/

namespace Neigh

/-! ## target.go -/

/-- `(*Target).networkId`: `len(port)` is the byte length, `port[:3] == "106"` compares the first three
bytes with ASCII, which for valid UTF-8 is the same as comparing the first three characters. -/
def networkId (port : String) : String :=
  if port = "10600" then "mainnet"
  else if port.utf8ByteSize = 5 ∧ port.toList.take 3 = ['1', '0', '6'] then "testnet"
  else "unknown"

/-- `(*Target).IsSameNetworkId` on the two ports. -/
def sameNetwork (portA portB : String) : Bool :=
  networkId portA == networkId portB

/-! ## the `map[string]int` score maps: association lists with distinct keys, order irrelevant -/

abbrev Scores := List (String × Int)

def Scores.keys (m : Scores) : List String := m.map (·.1)

/-- `_, ok := m[k]` -/
def Scores.has (m : Scores) (k : String) : Bool := m.any (fun e => e.1 == k)

/-- `m[k]` (0 when missing) -/
def Scores.get : Scores → String → Int
  | [], _ => 0
  | (k', v) :: m, k => if k' = k then v else Scores.get m k

/-- `m[k] = v` for a key that is not present. -/
def Scores.addNew (m : Scores) (k : String) (v : Int) : Scores := m ++ [(k, v)]

/-- `m[k] += 1` (a missing key reads as 0 and is created). -/
def Scores.incr : Scores → String → Scores
  | [], k => [(k, 1)]
  | (k', v) :: m, k => if k' = k then (k', v + 1) :: m else (k', v) :: Scores.incr m k

/-- `m[k] = max(m[k], v)`, creating the key when missing (seed re-keying in `NewNeighborhood`). -/
def Scores.mergeMax : Scores → String → Int → Scores
  | [], k, v => [(k, v)]
  | (k', v') :: m, k, v =>
    if k' = k then (k', if v' < v then v else v') :: m else (k', v') :: Scores.mergeMax m k v

/-! ## senders, environment, state -/

/-- What `CreateSender(ip, port)` returned.  `value` is ghost data: the map key the sender was created
for; it stands for the identity of the Go object (one object per map key).  The Go code itself only ever
reads `target` (via `Target()`). -/
structure Sender where
  value : String
  ip : String
  port : String
  target : String
deriving DecidableEq, Repr, Inhabited

structure Env where
  /-- `net.SplitHostPort(value)`: `some (ip, port)`, or `none` on error. -/
  parse : String → Option (String × String)
  /-- `net.JoinHostPort(ip, port)` -/
  join : String → String → String
  /-- `Target()` of the sender created for `(ip, port)`. -/
  senderTarget : String → String → String

structure State where
  hostIp : String
  hostPort : String
  /-- `hostTarget.Value()` = `net.JoinHostPort(hostIp, hostPort)` -/
  hostValue : String
  max : Int
  seeds : Scores
  scores : Scores
  senders : List Sender

/-- `NewTargetFromValue(value)`: ip, port and `Value()` (the canonical spelling), or `none` on error. -/
def newTargetFromValue (env : Env) (value : String) : Option (String × String × String) :=
  match env.parse value with
  | none => none
  | some (ip, port) => some (ip, port, env.join ip port)

/-- body of the seed loop of `NewNeighborhood` -/
def addSeed (env : Env) (seeds : Scores) (e : String × Int) : Scores :=
  match newTargetFromValue env e.1 with
  | none => seeds
  | some (_, _, value) => seeds.mergeMax value e.2

/-- `NewNeighborhood`; `seeds` is the caller's map (in any iteration order). -/
def State.init (env : Env) (hostIp hostPort : String) (max : Int) (seeds : Scores) : State :=
  { hostIp, hostPort, hostValue := env.join hostIp hostPort, max,
    seeds := seeds.foldl (addSeed env) [], scores := [], senders := [] }

/-! ## AddTargets / Incentive -/

/-- body of the `for` loop of `AddTargets` -/
def addTarget (env : Env) (st : State) (targetValue : String) : State :=
  match newTargetFromValue env targetValue with
  | none => st
  | some (_, port, value) =>
    let isTargetAlreadyKnown := st.scores.has value
    let isTargetOnSameNetwork := sameNetwork st.hostPort port
    if !isTargetAlreadyKnown && isTargetOnSameNetwork then
      { st with scores := st.scores.addNew value 0 }
    else st

def addTargets (env : Env) (st : State) (targetValues : List String) : State :=
  targetValues.foldl (addTarget env) st

def incentive (env : Env) (st : State) (targetValue : String) : State :=
  match newTargetFromValue env targetValue with
  | none => st
  | some (_, port, value) =>
    let isTargetOnSameNetwork := sameNetwork st.hostPort port
    if isTargetOnSameNetwork then { st with scores := st.scores.incr value } else st

/-! ## Synchronize -/

/-- Go's local `min` -/
def goMin (first second : Int) : Int := if first < second then first else second

/-- One iteration of `for targetValue, score := range scoresByTargetValue`: the sender appended to
`neighborsByScore[score]` (and whose value is appended to `targetValues`), if any. -/
def candidate (env : Env) (hostValue : String) (reachable : String → String → Bool)
    (e : String × Int) : Option (Sender × Int) :=
  if e.1 ≠ hostValue then
    match env.parse e.1 with
    | none => none
    | some (ip, port) =>
      if reachable ip port then
        some ({ value := e.1, ip := ip, port := port, target := env.senderTarget ip port }, e.2)
      else none
  else none

/-- All senders created in one round with their scores, in map iteration order. -/
def candidates (env : Env) (hostValue : String) (reachable : String → String → Bool)
    (entries : Scores) : List (Sender × Int) :=
  entries.filterMap (candidate env hostValue reachable)

/-- insert into a strictly descending list -/
def insertDesc (k : Int) : List Int → List Int
  | [] => [k]
  | x :: xs => if x < k then k :: x :: xs else if x = k then x :: xs else x :: insertDesc k xs

/-- The keys of `neighborsByScore`, `sort.Ints`-ed, in the order the loop visits them (`i` counts down). -/
def keysDesc (cands : List (Sender × Int)) : List Int :=
  cands.foldr (fun c acc => insertDesc c.2 acc) []

/-- `neighborsByScore[k]`: the senders with score `k` in the order they were appended. -/
def bucket (cands : List (Sender × Int)) (k : Int) : List Sender :=
  (cands.filter (fun c => c.2 == k)).map (·.1)

/-- The `for i := len(keys) - 1; i >= 0; i--` loop; `none` = slice bounds out of range. -/
def selectLoop (shuffle : List Sender → List Sender) (cands : List (Sender × Int))
    (outboundsCount : Int) : List Int → List Sender → Option (List Sender)
  | [], outbounds => some outbounds
  | k :: ks, outbounds =>
    let temp := bucket cands k
    if (outbounds.length : Int) + (temp.length : Int) ≥ outboundsCount then
      let n := outboundsCount - (outbounds.length : Int)
      if n < 0 then none                      -- temp[:n] with n < 0 panics
      else some (outbounds ++ (shuffle temp).take n.toNat)
    else selectLoop shuffle cands outboundsCount ks (outbounds ++ temp)

def selectOutbounds (shuffle : List Sender → List Sender) (max : Int)
    (cands : List (Sender × Int)) (targetsCount : Nat) : Option (List Sender) :=
  selectLoop shuffle cands (goMin (targetsCount : Int) max) (keysDesc cands) []

/-- the map `Synchronize` iterates over -/
def State.source (st : State) : Scores :=
  if st.scores.length = 0 then st.seeds else st.scores

/-- `targetValues` of `Synchronize`: host first, then every value a sender was created for. -/
def targetValuesOf (hostValue : String) (cands : List (Sender × Int)) : List String :=
  hostValue :: cands.map (·.1.value)

/-- the argument of `neighbor.SendTargets` -/
def fanoutFor (targetValues : List String) (neighbor : Sender) : List String :=
  targetValues.filter (fun targetValue => neighbor.target ≠ targetValue)

inductive Outcome where
  /-- one `SendTargets(values)` call per outbound -/
  | ok (fanout : List (Sender × List String))
  /-- `selectOutbounds` panicked (in production: the node process dies) -/
  | panic
deriving Repr, DecidableEq

def Outcome.isPanic : Outcome → Bool
  | .panic => true
  | .ok _ => false

def Outcome.fanout : Outcome → List (Sender × List String)
  | .panic => []
  | .ok f => f

def synchronize (env : Env) (reachable : String → String → Bool)
    (order : Scores → Scores) (shuffle : List Sender → List Sender) (st : State) : State × Outcome :=
  let scoresByTargetValue := st.source
  let cands := candidates env st.hostValue reachable (order scoresByTargetValue)
  let targetValues := targetValuesOf st.hostValue cands
  match selectOutbounds shuffle st.max cands scoresByTargetValue.length with
  | none => ({ st with scores := [] }, .panic)
  | some outbounds =>
    ({ st with scores := [], senders := outbounds },
     .ok (outbounds.map (fun neighbor => (neighbor, fanoutFor targetValues neighbor))))

/-! ## operation sequences -/

inductive Op where
  | addTargets (targetValues : List String)
  | incentive (targetValue : String)
  | synchronize (reachable : String → String → Bool) (order : Scores → Scores)
      (shuffle : List Sender → List Sender)

def step (env : Env) (st : State) : Op → State
  | .addTargets vs => addTargets env st vs
  | .incentive v => incentive env st v
  | .synchronize r o s => (synchronize env r o s st).1

def run (env : Env) (st : State) (ops : List Op) : State := ops.foldl (step env) st

/-! ## description of the allowed outbound sets (used by the driver) -/

/-- score of a sender among the candidates (first hit; values are distinct in reachable states) -/
def scoreOf (cands : List (Sender × Int)) (s : Sender) : Option Int :=
  (cands.find? (fun c => c.1 == s)).map (·.2)

/-- least element of a list of scores -/
def minScore : List Int → Option Int
  | [] => none
  | x :: xs => match minScore xs with
    | none => some x
    | some m => some (if x < m then x else m)

structure Allowed where
  /-- candidates that every allowed selection contains -/
  must : List Sender
  /-- candidates of the threshold score, of which exactly `k` are taken -/
  may : List Sender
  k : Nat
deriving Repr

/-- From one model run (`outs`), the set of all selections that satisfy `C17_best` with the same length:
`must ⊆ selection`, `selection \ must ⊆ may`, `|selection \ must| = k`. -/
def allowedOf (cands : List (Sender × Int)) (outs : List Sender) : Allowed :=
  match minScore (outs.filterMap (scoreOf cands)) with
  | none => { must := [], may := [], k := 0 }
  | some t =>
    let must := (cands.filter (fun c => t < c.2)).map (·.1)
    { must := must, may := bucket cands t, k := outs.length - must.length }

end Neigh
