/-
  Neigh/Guards.lean — the integer conditions of `Synchronize`, `selectOutbounds` and `min` in neighborhood.go,
  regenerated from the source on every run (Gen.*Guards in Neigh/Gen.lean, harness/cmd/ruextract-arith --group neigh),
  are the conditions the model tests.  Dropping a term from the limit test (seed C17-e: `len(candidates)` instead of
  `len(outbounds) + len(candidates)`) or turning a comparison into another changes the definition and breaks a theorem.
-/
import Neigh.Gen
import Neigh.Model

namespace Neigh

theorem Gen_minGuards_spec (a b : Int) : Gen.minGuards a b = [decide (a < b)] := rfl

/-- **C17 (regenerated guard).**  Go's `min` returns its first argument exactly when the regenerated condition holds,
    its second otherwise: the model's `goMin`. -/
theorem C17_goMin_gen (a b : Int) :
    goMin a b = (match Gen.minGuards a b with | true :: _ => a | _ => b) := by
  rw [Gen_minGuards_spec]
  unfold goMin
  by_cases h : a < b <;> simp [h]

theorem Gen_selectOutboundsGuards_spec (limit : Int) (ol bl : Nat) :
    Gen.selectOutboundsGuards limit ol bl = [decide ((ol : Int) + (bl : Int) ≥ limit)] := rfl

/-- **C17 (regenerated guard).**  One iteration of the loop of `selectOutbounds`: the bucket is cut (and the loop
    stops) exactly when the regenerated condition `len(outbounds) + len(bucket) >= outboundsCount` holds. -/
theorem C17_selectLoop_gen (shuffle : List Sender → List Sender) (cands : List (Sender × Int)) (limit : Int)
    (k : Int) (ks : List Int) (outbounds : List Sender) :
    selectLoop shuffle cands limit (k :: ks) outbounds =
      (match Gen.selectOutboundsGuards limit outbounds.length (bucket cands k).length with
       | true :: _ =>
         let n := limit - (outbounds.length : Int)
         if n < 0 then none else some (outbounds ++ (shuffle (bucket cands k)).take n.toNat)
       | _ => selectLoop shuffle cands limit ks (outbounds ++ bucket cands k)) := by
  rw [Gen_selectOutboundsGuards_spec]
  rw [selectLoop]
  by_cases h : (outbounds.length : Int) + ((bucket cands k).length : Int) ≥ limit <;> simp [h]

theorem Gen_synchronizeGuards_spec (n : Nat) : Gen.synchronizeGuards n = [decide (n = 0)] := by
  by_cases h : n = 0
  · subst h; rfl
  · have : (n : Int) ≠ 0 := by omega
    simp [Gen.synchronizeGuards, h, this]

/-- **C17 (regenerated guard).**  `Synchronize` reads the seeds exactly when the regenerated condition
    `len(scoresByTargetValue) == 0` holds. -/
theorem C17_source_gen (st : State) :
    st.source = (match Gen.synchronizeGuards st.scores.length with | true :: _ => st.seeds | _ => st.scores) := by
  rw [Gen_synchronizeGuards_spec]
  unfold State.source
  by_cases h : st.scores.length = 0 <;> simp [h]

example : Gen.selectOutboundsGuards 3 2 1 = [true] ∧ Gen.selectOutboundsGuards 3 1 1 = [false] ∧ Gen.minGuards 2 5 = [true]
    ∧ Gen.synchronizeGuards 0 = [true] ∧ Gen.synchronizeGuards 4 = [false] := by decide

end Neigh
