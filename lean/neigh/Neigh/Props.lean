/-
  Neigh.Props — property C17 (neighbour set): property theorems only.

  Every theorem is about the executable model `Neigh.Model` of neighborhood.go / target.go and holds
  for EVERY map iteration order `order`, EVERY shuffle `shuffle` (both: any rearrangement), every
  `parse` / `senderTarget` / `reachable`, every maximum `0 ≤ max`, every state reachable by any
  sequence of AddTargets / Incentive / Synchronize (`C17_rounds`).  No bounds anywhere.

  Reading of "peer".  The code identifies a peer with the announced target STRING.  In that reading all
  clauses hold (`C17_bounded`, `C17_distinct_values`, `C17_not_self_value`, `C17_known_only`,
  `C17_reachable_only`, `C17_best`, `C17_fanout_exact`, `C17_retained`).  In the stronger reading
  "peer = (ip, port) endpoint" three clauses are FALSE of the code, and one more is false for the
  Incentive path; for each the full statement is kept as `…_full : Prop`, the true part is
  `…_partial` (excluded case as explicit hypothesis) and `…_counterexample` refutes the full one:

    C17_distinct_full    two spellings of one endpoint ("10.0.0.2:10600", "[10.0.0.2]:10600") → two senders
    C17_not_self_full    the host under another spelling ("[10.0.0.9]:10600") → the node dials itself
    C17_fanout_full      a peer announced in non-canonical spelling is sent its own target
    C17_retained_inv_full  Incentive(v) stores ANY string v (malformed, foreign network) with score 1

  Outside the quantifier of C17 (max ≥ 0) but recorded: `C17_negative_max_panics`.
-/
import Neigh.Lemmas

namespace Neigh

/-! ## one refresh round -/

section Round
variable (env : Env) (reachable : String → String → Bool) (order : Scores → Scores)
  (shuffle : List Sender → List Sender) (st : State)

/-- At most the configured maximum, and the round does not panic. -/
theorem C17_bounded (hwf : st.WF) (hmax : 0 ≤ st.max) (ho : Rearranges order) (hs : Rearranges shuffle) :
    (synchronize env reachable order shuffle st).2.isPanic = false ∧
    ((synchronize env reachable order shuffle st).1.senders.length : Int) ≤ st.max :=
  let h := round_ok env reachable order shuffle st hwf hmax ho hs
  ⟨h.no_panic, h.bounded⟩

example : (Ex.init 2).WF ∧ (0:Int) ≤ (Ex.init 2).max ∧ Rearranges (List.reverse : Scores → Scores) ∧
    Rearranges (List.reverse : List Sender → List Sender) ∧
    (synchronize Ex.env Ex.allReachable List.reverse List.reverse
      (run Ex.env (Ex.init 2) [.addTargets ["10.0.0.2:10600", "10.0.0.3:10600", "10.0.0.4:10600"]])).1.senders.length = 2 :=
  ⟨by decide, by decide, List.reverse_perm, List.reverse_perm, by decide⟩

/-- Distinct peers, peers identified by announced target value (what the code can tell apart). -/
theorem C17_distinct_values (hwf : st.WF) (hmax : 0 ≤ st.max) (ho : Rearranges order)
    (hs : Rearranges shuffle) :
    ((synchronize env reachable order shuffle st).1.senders.map (·.value)).Nodup :=
  (round_ok env reachable order shuffle st hwf hmax ho hs).distinct

/-- Full reading: distinct ENDPOINTS.  False of the code. -/
def C17_distinct_full : Prop :=
  ∀ (env : Env) (reachable : String → String → Bool) (order : Scores → Scores)
    (shuffle : List Sender → List Sender) (st : State),
    st.WF → 0 ≤ st.max → Rearranges order → Rearranges shuffle →
    ((synchronize env reachable order shuffle st).1.senders.map (fun o => (o.ip, o.port))).Nodup

/-- True part: distinct endpoints whenever no two well-formed targets of the round's map denote the same
endpoint (`parse` injective on them). -/
theorem C17_distinct_partial (hwf : st.WF) (hmax : 0 ≤ st.max) (ho : Rearranges order)
    (hs : Rearranges shuffle)
    (hinj : ∀ a ∈ st.source.keys, ∀ b ∈ st.source.keys, (env.parse a).isSome = true →
      env.parse a = env.parse b → a = b) :
    ((synchronize env reachable order shuffle st).1.senders.map (fun o => (o.ip, o.port))).Nodup := by
  have h := round_ok env reachable order shuffle st hwf hmax ho hs
  have hd := h.distinct
  unfold List.Nodup at hd ⊢
  rw [List.pairwise_map] at hd ⊢
  refine hd.imp_of_mem ?_
  intro a b ha hb hne heq
  apply hne
  obtain ⟨ipa, porta, hpa, _, hea⟩ := h.reachable_only a ha
  obtain ⟨ipb, portb, hpb, _, heb⟩ := h.reachable_only b hb
  have h1 : (a.ip, a.port) = (ipa, porta) := by rw [hea]
  have h2 : (b.ip, b.port) = (ipb, portb) := by rw [heb]
  refine hinj _ (h.known a ha) _ (h.known b hb) (by rw [hpa]; rfl) ?_
  rw [hpa, hpb, ← h1, ← h2, heq]

theorem C17_distinct_counterexample : ¬ C17_distinct_full := by
  intro h
  have := h Ex.env Ex.allReachable id id
    (run Ex.env (Ex.init 5) [.addTargets ["10.0.0.2:10600", "[10.0.0.2]:10600"]])
    (by decide) (by decide) (fun l => List.Perm.refl l) (fun l => List.Perm.refl l)
  revert this
  decide

example : ∃ st : State, st.WF ∧ 0 ≤ st.max ∧
    (∀ a ∈ st.source.keys, ∀ b ∈ st.source.keys, (Ex.env.parse a).isSome = true →
      Ex.env.parse a = Ex.env.parse b → a = b) ∧
    (synchronize Ex.env Ex.allReachable id id st).1.senders.length = 2 :=
  ⟨run Ex.env (Ex.init 5) [.addTargets ["10.0.0.2:10600", "10.0.0.3:10600"]],
   by decide, by decide, by decide, by decide⟩

/-- Never the host's own target value. -/
theorem C17_not_self_value (hwf : st.WF) (hmax : 0 ≤ st.max) (ho : Rearranges order)
    (hs : Rearranges shuffle) :
    ∀ o ∈ (synchronize env reachable order shuffle st).1.senders, o.value ≠ st.hostValue :=
  (round_ok env reachable order shuffle st hwf hmax ho hs).not_self

/-- Full reading: never the host's own ENDPOINT.  False of the code. -/
def C17_not_self_full : Prop :=
  ∀ (env : Env) (reachable : String → String → Bool) (order : Scores → Scores)
    (shuffle : List Sender → List Sender) (st : State),
    st.WF → 0 ≤ st.max → Rearranges order → Rearranges shuffle →
    ∀ o ∈ (synchronize env reachable order shuffle st).1.senders, (o.ip, o.port) ≠ (st.hostIp, st.hostPort)

/-- True part: never the host's endpoint, provided no OTHER spelling of the host's endpoint is among the
round's targets. -/
theorem C17_not_self_partial (hwf : st.WF) (hmax : 0 ≤ st.max) (ho : Rearranges order)
    (hs : Rearranges shuffle)
    (halias : ∀ v ∈ st.source.keys, v ≠ st.hostValue → env.parse v ≠ some (st.hostIp, st.hostPort)) :
    ∀ o ∈ (synchronize env reachable order shuffle st).1.senders,
      (o.ip, o.port) ≠ (st.hostIp, st.hostPort) := by
  have h := round_ok env reachable order shuffle st hwf hmax ho hs
  intro o ho' heq
  obtain ⟨ip, port, hp, _, he⟩ := h.reachable_only o ho'
  have h1 : (o.ip, o.port) = (ip, port) := by rw [he]
  exact halias _ (h.known o ho') (h.not_self o ho') (by rw [hp, ← h1, heq])

theorem C17_not_self_counterexample : ¬ C17_not_self_full := by
  intro h
  have := h Ex.env Ex.allReachable id id
    (run Ex.env (Ex.init 5) [.addTargets ["[10.0.0.9]:10600"]])
    (by decide) (by decide) (fun l => List.Perm.refl l) (fun l => List.Perm.refl l)
  revert this
  decide

example : ∃ st : State, st.WF ∧ 0 ≤ st.max ∧
    (∀ v ∈ st.source.keys, v ≠ st.hostValue → Ex.env.parse v ≠ some (st.hostIp, st.hostPort)) ∧
    (synchronize Ex.env Ex.allReachable id id st).1.senders.length = 1 :=
  ⟨run Ex.env (Ex.init 5) [.addTargets ["10.0.0.9:10600", "10.0.0.3:10600"]],
   by decide, by decide, by decide, by decide⟩

/-- Drawn only from the targets the node currently knows, or from the seeds when it knows none
(`st.source` is `st.scores` unless that map is empty, then `st.seeds`). -/
theorem C17_known_only (hwf : st.WF) (hmax : 0 ≤ st.max) (ho : Rearranges order) (hs : Rearranges shuffle) :
    ∀ o ∈ (synchronize env reachable order shuffle st).1.senders,
      (st.scores ≠ [] → o.value ∈ st.scores.keys) ∧ (st.scores = [] → o.value ∈ st.seeds.keys) := by
  have h := round_ok env reachable order shuffle st hwf hmax ho hs
  intro o ho'
  have hk := h.known o ho'
  unfold State.source at hk
  constructor
  · intro hne
    have : ¬ st.scores.length = 0 := by
      intro h0; exact hne (List.eq_nil_of_length_eq_zero h0)
    rwa [if_neg this] at hk
  · intro he
    have : st.scores.length = 0 := by rw [he]; rfl
    rwa [if_pos this] at hk

example : ((synchronize Ex.env Ex.allReachable id id (Ex.init 3)).1.senders.map (·.value)) = ["10.0.0.1:10600"] ∧
    ((synchronize Ex.env Ex.allReachable id id
      (run Ex.env (Ex.init 3) [.incentive "10.0.0.4:10600"])).1.senders.map (·.value)) = ["10.0.0.4:10600"] :=
  ⟨by decide, by decide⟩

/-- Every selected peer is well-formed and `CreateSender` succeeded for it; the sender is exactly the one
created for the parsed (ip, port). -/
theorem C17_reachable_only (hwf : st.WF) (hmax : 0 ≤ st.max) (ho : Rearranges order)
    (hs : Rearranges shuffle) :
    ∀ o ∈ (synchronize env reachable order shuffle st).1.senders,
      ∃ ip port, env.parse o.value = some (ip, port) ∧ reachable ip port = true ∧
        o = ⟨o.value, ip, port, env.senderTarget ip port⟩ :=
  (round_ok env reachable order shuffle st hwf hmax ho hs).reachable_only

example : ((synchronize Ex.env Ex.no3 id id
      (run Ex.env (Ex.init 5) [.addTargets ["10.0.0.2:10600", "10.0.0.3:10600", "junk"]])).1.senders.map (·.value))
    = ["10.0.0.2:10600"] := by decide

/-- Never leaves out a reachable peer in favour of a lower-scored one: a selectable target that was not
selected has a score ≤ the score of every selected one; and the selection is as large as the maximum
and the number of selectable targets allow (so nobody is left out while there is room). -/
theorem C17_best (hwf : st.WF) (hmax : 0 ≤ st.max) (ho : Rearranges order) (hs : Rearranges shuffle) :
    (∀ o ∈ (synchronize env reachable order shuffle st).1.senders, ∀ so, (o.value, so) ∈ st.source →
      ∀ v sv, IsCandidate env reachable st v sv →
        v ∉ (synchronize env reachable order shuffle st).1.senders.map (·.value) → sv ≤ so) ∧
    ((synchronize env reachable order shuffle st).1.senders.length : Int)
      = min st.max (candidateCount env reachable st : Int) :=
  let h := round_ok env reachable order shuffle st hwf hmax ho hs
  ⟨h.best, h.count⟩

example : ((synchronize Ex.env Ex.allReachable List.reverse id
      (run Ex.env (Ex.init 2) [.addTargets ["10.0.0.2:10600", "10.0.0.3:10600", "10.0.0.4:10600"],
        .incentive "10.0.0.3:10600"])).1.senders.map (·.value))
    = ["10.0.0.3:10600", "10.0.0.4:10600"] ∧
    IsCandidate Ex.env Ex.allReachable
      (run Ex.env (Ex.init 2) [.addTargets ["10.0.0.2:10600", "10.0.0.3:10600", "10.0.0.4:10600"],
        .incentive "10.0.0.3:10600"]) "10.0.0.2:10600" 0 :=
  ⟨by decide, by decide, by decide, "10.0.0.2", "10600", by decide, by decide⟩

/-- The fan-out exactly as the code computes it: one `SendTargets` per selected peer, carrying the host's
target value followed by the values of all senders created in the round (some rearrangement `tv` of the
selectable targets), minus every value equal to the peer's own `Target()`. -/
theorem C17_fanout_exact (hwf : st.WF) (hmax : 0 ≤ st.max) (ho : Rearranges order)
    (hs : Rearranges shuffle) :
    ∃ tv, tv.Perm (candidateValues env reachable st) ∧
      (synchronize env reachable order shuffle st).2 =
        .ok ((synchronize env reachable order shuffle st).1.senders.map
          (fun o => (o, (st.hostValue :: tv).filter (fun v => o.target ≠ v)))) :=
  (round_ok env reachable order shuffle st hwf hmax ho hs).fanout

/-- Full reading: each selected peer is sent the host's target and all other selectable targets but not
its own (its own = the value it was announced under).  False of the code. -/
def C17_fanout_full : Prop :=
  ∀ (env : Env) (reachable : String → String → Bool) (order : Scores → Scores)
    (shuffle : List Sender → List Sender) (st : State),
    st.WF → 0 ≤ st.max → Rearranges order → Rearranges shuffle →
    ∃ tv, tv.Perm (candidateValues env reachable st) ∧
      (synchronize env reachable order shuffle st).2 =
        .ok ((synchronize env reachable order shuffle st).1.senders.map
          (fun o => (o, (st.hostValue :: tv).filter (fun v => o.value ≠ v))))

/-- True part: when every well-formed target of the round's map is in the spelling its sender reports
(`Target()` = announced value), each selected peer gets the host's value, every other selectable target,
not its own, and nothing else. -/
theorem C17_fanout_partial (hwf : st.WF) (hmax : 0 ≤ st.max) (ho : Rearranges order)
    (hs : Rearranges shuffle)
    (hcanon : ∀ v ∈ st.source.keys, ∀ ip port, env.parse v = some (ip, port) → env.senderTarget ip port = v) :
    (∃ tv, tv.Perm (candidateValues env reachable st) ∧
      (synchronize env reachable order shuffle st).2 =
        .ok ((synchronize env reachable order shuffle st).1.senders.map
          (fun o => (o, (st.hostValue :: tv).filter (fun v => o.value ≠ v))))) ∧
    (∀ p ∈ (synchronize env reachable order shuffle st).2.fanout,
      p.1 ∈ (synchronize env reachable order shuffle st).1.senders ∧
      st.hostValue ∈ p.2 ∧ p.1.value ∉ p.2 ∧
      (∀ v ∈ candidateValues env reachable st, v ≠ p.1.value → v ∈ p.2) ∧
      (∀ v ∈ p.2, v = st.hostValue ∨ v ∈ candidateValues env reachable st)) := by
  have h := round_ok env reachable order shuffle st hwf hmax ho hs
  obtain ⟨tv, htv, hf⟩ := h.fanout
  have htarget : ∀ o ∈ (synchronize env reachable order shuffle st).1.senders, o.target = o.value := by
    intro o ho'
    obtain ⟨ip, port, hp, _, he⟩ := h.reachable_only o ho'
    have := hcanon _ (h.known o ho') ip port hp
    rw [he]; exact this
  have hf' : (synchronize env reachable order shuffle st).2 =
      .ok ((synchronize env reachable order shuffle st).1.senders.map
        (fun o => (o, (st.hostValue :: tv).filter (fun v => o.value ≠ v)))) := by
    rw [hf]; congr 1
    apply List.map_congr_left
    intro o ho'
    rw [htarget o ho']
  refine ⟨⟨tv, htv, hf'⟩, ?_⟩
  intro p hp
  rw [hf'] at hp
  simp only [Outcome.fanout, List.mem_map] at hp
  obtain ⟨o, ho', rfl⟩ := hp
  simp only
  refine ⟨ho', ?_, ?_, ?_, ?_⟩
  · rw [List.mem_filter]
    exact ⟨List.mem_cons_self, by simpa using h.not_self o ho'⟩
  · rw [List.mem_filter]; simp
  · intro v hv hne
    rw [List.mem_filter]
    exact ⟨List.mem_cons_of_mem _ (htv.mem_iff.2 hv), by simpa using fun e => hne e.symm⟩
  · intro v hv
    rw [List.mem_filter, List.mem_cons] at hv
    rcases hv.1 with h1 | h1
    · exact Or.inl h1
    · exact Or.inr (htv.mem_iff.1 h1)

theorem C17_fanout_counterexample : ¬ C17_fanout_full := by
  intro h
  obtain ⟨tv, htv, hf⟩ := h Ex.env Ex.allReachable id id
    (run Ex.env (Ex.init 5) [.addTargets ["[10.0.0.2]:10600"]])
    (by decide) (by decide) (fun l => List.Perm.refl l) (fun l => List.Perm.refl l)
  have h1 : candidateValues Ex.env Ex.allReachable
      (run Ex.env (Ex.init 5) [.addTargets ["[10.0.0.2]:10600"]]) = ["[10.0.0.2]:10600"] := by decide
  rw [h1] at htv
  have h2 : tv = ["[10.0.0.2]:10600"] := List.perm_singleton.1 htv
  subst h2
  revert hf
  decide

example : ∃ st : State, st.WF ∧ 0 ≤ st.max ∧
    (∀ v ∈ st.source.keys, ∀ ip port, Ex.env.parse v = some (ip, port) → Ex.env.senderTarget ip port = v) ∧
    (synchronize Ex.env Ex.allReachable id id st).2.fanout.map (·.2) =
      [["10.0.0.9:10600", "10.0.0.3:10600"], ["10.0.0.9:10600", "10.0.0.2:10600"]] := by
  refine ⟨run Ex.env (Ex.init 5) [.addTargets ["10.0.0.2:10600", "10.0.0.3:10600"]],
   by decide, by decide, ?_, by decide⟩
  intro v hv ip port hp
  have hv' : v = "10.0.0.2:10600" ∨ v = "10.0.0.3:10600" := by
    have : v ∈ ["10.0.0.2:10600", "10.0.0.3:10600"] := hv
    simpa using this
  rcases hv' with rfl | rfl
  · have : Ex.env.parse "10.0.0.2:10600" = some ("10.0.0.2", "10600") := by decide
    rw [this] at hp; cases hp; decide
  · have : Ex.env.parse "10.0.0.3:10600" = some ("10.0.0.3", "10600") := by decide
    rw [this] at hp; cases hp; decide

end Round

/-! ## AddTargets / Incentive -/

/-- `AddTargets` keeps exactly the well-formed, same-network, not-yet-known values (with score 0, once),
leaves every known entry and its score alone and changes nothing else. -/
theorem C17_retained (env : Env) (st : State) (targetValues : List String) :
    (∀ e ∈ st.scores, e ∈ (addTargets env st targetValues).scores) ∧
    (∀ e ∈ (addTargets env st targetValues).scores, e ∈ st.scores ∨
      (e.2 = 0 ∧ e.1 ∈ targetValues ∧ e.1 ∉ st.scores.keys ∧ Acceptable env st e.1)) ∧
    (∀ v ∈ targetValues, Acceptable env st v → v ∈ (addTargets env st targetValues).scores.keys) ∧
    (st.WF → (addTargets env st targetValues).WF) ∧
    (addTargets env st targetValues).seeds = st.seeds ∧
    (addTargets env st targetValues).senders = st.senders ∧
    (addTargets env st targetValues).max = st.max ∧
    (addTargets env st targetValues).hostValue = st.hostValue :=
  let c := addTargets_config env targetValues st
  ⟨addTargets_old env targetValues st, addTargets_new env targetValues st,
   addTargets_complete env targetValues st, addTargets_wf env targetValues st,
   c.1.2.2.2.2, c.2, c.1.2.2.2.1, c.1.2.2.1⟩

example : (addTargets Ex.env (Ex.init 3)
    ["10.0.0.2:10600", "junk", "10.0.0.5:10601", "10.0.0.6:8080", "10.0.0.2:10600", "10.0.0.9:10600",
     "[10.0.0.2]:10600"]).scores
    = [("10.0.0.2:10600", 0), ("10.0.0.9:10600", 0), ("[10.0.0.2]:10600", 0)] := by decide

/-- `Incentive(v)`: the score of `v` goes up by one (from 0 when unknown), nothing else changes, and `v`
is now a key whatever string it is. -/
theorem C17_incentive (st : State) (v : String) :
    (incentive st v).scores.get v = st.scores.get v + 1 ∧
    (∀ w, w ≠ v → (incentive st v).scores.get w = st.scores.get w) ∧
    (incentive st v).scores.keys = (if v ∈ st.scores.keys then st.scores.keys else st.scores.keys ++ [v]) ∧
    (st.WF → (incentive st v).WF) :=
  ⟨Scores.get_incr_self _ _, fun _ hw => Scores.get_incr_other _ hw, Scores.keys_incr _ _,
   incentive_wf v⟩

example : (run Ex.env (Ex.init 3) [.incentive "junk", .incentive "junk", .incentive "10.0.0.6:8080"]).scores
    = [("junk", 2), ("10.0.0.6:8080", 1)] := by decide

/-- Full reading of "peer-announced targets are retained only if well-formed and on the node's own
network", as an invariant of the known-targets map.  False of the code (Incentive path). -/
def C17_retained_inv_full : Prop :=
  ∀ (env : Env) (st0 : State) (ops : List Op), st0.scores = [] →
    ∀ k ∈ (run env st0 ops).scores.keys, Acceptable env st0 k

/-- True part: the invariant holds as long as `Incentive` is only ever called with acceptable values. -/
theorem C17_retained_inv_partial (env : Env) (st0 : State) (ops : List Op) (h0 : st0.scores = [])
    (hinc : ∀ v, Op.incentive v ∈ ops → Acceptable env st0 v) :
    ∀ k ∈ (run env st0 ops).scores.keys, Acceptable env st0 k := by
  suffices hgen : ∀ (ops : List Op) (st : State), SameConfig st st0 →
      (∀ k ∈ st.scores.keys, Acceptable env st0 k) →
      (∀ v, Op.incentive v ∈ ops → Acceptable env st0 v) →
      ∀ k ∈ (run env st ops).scores.keys, Acceptable env st0 k by
    exact hgen ops st0 (SameConfig.refl _) (by rw [h0]; intro k hk; cases hk) hinc
  intro ops
  induction ops with
  | nil => intro st _ hinv _; exact hinv
  | cons op ops ih =>
    intro st hcfg hinv hinc
    refine ih (step env st op) ((step_config env st op).trans hcfg) ?_
      (fun v hv => hinc v (List.mem_cons_of_mem _ hv))
    cases op with
    | addTargets vs =>
      intro k hk
      obtain ⟨e, he, rfl⟩ := List.mem_map.1 hk
      rcases addTargets_new env vs st e he with h1 | ⟨_, _, _, hacc⟩
      · exact hinv _ (List.mem_map.2 ⟨e, h1, rfl⟩)
      · exact (acceptable_congr hcfg.2.1 _).1 hacc
    | incentive v =>
      intro k hk
      have hk' : k ∈ (st.scores.incr v).keys := hk
      rw [Scores.keys_incr] at hk'
      split at hk'
      · exact hinv k hk'
      · rcases List.mem_append.1 hk' with h1 | h1
        · exact hinv k h1
        · simp only [List.mem_singleton] at h1
          subst h1; exact hinc k List.mem_cons_self
    | synchronize r o s =>
      intro k hk
      have : (step env st (Op.synchronize r o s)).scores = [] := (synchronize_config env r o s st).2
      rw [this] at hk; cases hk

theorem C17_retained_inv_counterexample : ¬ C17_retained_inv_full := by
  intro h
  have := h Ex.env (Ex.init 3) [.incentive "junk"] rfl "junk" (by decide)
  revert this
  decide

example : ∃ ops : List Op, (∀ v, Op.incentive v ∈ ops → Acceptable Ex.env (Ex.init 3) v) ∧
    (run Ex.env (Ex.init 3) ops).scores = [("10.0.0.2:10600", 1), ("10.0.0.3:10600", 0)] := by
  refine ⟨[.incentive "10.0.0.2:10600", .addTargets ["10.0.0.3:10600", "10.0.0.6:8080"]], ?_, by decide⟩
  intro v hv
  simp only [List.mem_cons, Op.incentive.injEq, List.not_mem_nil, or_false, reduceCtorEq] at hv
  subst hv; decide

/-! ## networkId -/

/-- The exact case analysis of `(*Target).networkId` on the port string. -/
theorem C17_networkId (port : String) :
    (networkId port = "mainnet" ↔ port = "10600") ∧
    (networkId port = "testnet" ↔
      port ≠ "10600" ∧ port.utf8ByteSize = 5 ∧ port.toList.take 3 = ['1', '0', '6']) ∧
    (networkId port = "unknown" ↔
      port ≠ "10600" ∧ ¬ (port.utf8ByteSize = 5 ∧ port.toList.take 3 = ['1', '0', '6'])) ∧
    (∀ other, sameNetwork port other = true ↔ networkId port = networkId other) := by
  have hmt : ("mainnet" : String) ≠ "testnet" := by decide
  have hmu : ("mainnet" : String) ≠ "unknown" := by decide
  have htu : ("testnet" : String) ≠ "unknown" := by decide
  refine ⟨?_, ?_, ?_, ?_⟩
  · unfold networkId
    split
    · next h => simp [h]
    · next h => split <;> simp [h, hmt.symm, hmu.symm]
  · unfold networkId
    split
    · next h => simp [h, hmt]
    · next h =>
      split
      · next h2 => simp [h, h2]
      · next h2 =>
        constructor
        · intro h3; exact absurd h3 htu.symm
        · intro h3; exact absurd h3.2 h2
  · unfold networkId
    split
    · next h => simp [h, hmu]
    · next h =>
      split
      · next h2 =>
        constructor
        · intro h3; exact absurd h3 htu
        · intro h3; exact absurd h2 h3.2
      · next h2 => simp [h, h2]
  · intro other; unfold sameNetwork; rw [beq_iff_eq]

example : networkId "10600" = "mainnet" ∧ networkId "10601" = "testnet" ∧ networkId "10699" = "testnet" ∧
    networkId "106ab" = "testnet" ∧ networkId "8080" = "unknown" ∧ networkId "106000" = "unknown" ∧
    networkId "" = "unknown" ∧ sameNetwork "8080" "443" = true ∧ sameNetwork "10600" "10601" = false := by
  decide

/-! ## repeated rounds -/

/-- After ANY sequence of AddTargets / Incentive / Synchronize operations (whatever orders, shuffles and
reachability the earlier rounds saw) from a fresh node with distinct seeds and `0 ≤ max`, the next refresh
round satisfies every clause (`RoundOK`, spelled out in `Neigh.Spec`). -/
theorem C17_rounds (env : Env) (hostIp hostPort hostValue : String) (max : Int) (seeds : Scores)
    (hseeds : seeds.keys.Nodup) (hmax : 0 ≤ max) (ops : List Op)
    (reachable : String → String → Bool) (order : Scores → Scores)
    (shuffle : List Sender → List Sender) (ho : Rearranges order) (hs : Rearranges shuffle) :
    RoundOK env reachable (run env (State.init hostIp hostPort hostValue max seeds) ops)
      (synchronize env reachable order shuffle
        (run env (State.init hostIp hostPort hostValue max seeds) ops)) := by
  have hwf0 : (State.init hostIp hostPort hostValue max seeds).WF := ⟨hseeds, List.nodup_nil⟩
  have hwf := run_wf env ops _ hwf0
  have hcfg := run_config env ops (State.init hostIp hostPort hostValue max seeds)
  have hmax' : 0 ≤ (run env (State.init hostIp hostPort hostValue max seeds) ops).max := by
    rw [hcfg.2.2.2.1]; exact hmax
  exact round_ok env reachable order shuffle _ hwf hmax' ho hs

/-- …and the configuration never changes and the state stays well-formed, so the statement above applies
again after that round: it is an invariant. -/
theorem C17_rounds_invariant (env : Env) (st : State) (ops : List Op) (hwf : st.WF) :
    (run env st ops).WF ∧ (run env st ops).max = st.max ∧ (run env st ops).seeds = st.seeds ∧
    (run env st ops).hostValue = st.hostValue ∧ (run env st ops).hostPort = st.hostPort :=
  let c := run_config env ops st
  ⟨run_wf env ops st hwf, c.2.2.2.1, c.2.2.2.2, c.2.2.1, c.2.1⟩

example : (run Ex.env (Ex.init 2)
    [.synchronize Ex.allReachable id id, .addTargets ["10.0.0.2:10600", "junk", "10.0.0.3:10600"],
     .incentive "10.0.0.3:10600", .synchronize Ex.no3 List.reverse List.reverse,
     .incentive "[10.0.0.2]:10600", .addTargets ["10.0.0.4:10600"]]).scores
    = [("[10.0.0.2]:10600", 1), ("10.0.0.4:10600", 0)] := by decide

/-! ## outside the quantifier of C17: a negative maximum -/

/-- With `max < 0` and at least one selectable target the round panics (slice bounds out of range in
`selectOutbounds`), after the known targets were already dropped; `senders` keeps its old value. -/
theorem C17_negative_max_panics (env : Env) (reachable : String → String → Bool) (order : Scores → Scores)
    (shuffle : List Sender → List Sender) (st : State) (hneg : st.max < 0) (ho : Rearranges order)
    (hc : 0 < candidateCount env reachable st) :
    synchronize env reachable order shuffle st = ({ st with scores := [] }, .panic) := by
  apply synchronize_eq_of_panic
  have hcp : (candidates env st.hostValue reachable (order st.source)).Perm
      (candidates env st.hostValue reachable st.source) := (ho st.source).filterMap _
  have hlen : 0 < (candidates env st.hostValue reachable (order st.source)).length := by
    rw [hcp.length_eq]; exact hc
  have hcnt : goMin (st.source.length : Int) st.max < 0 := by unfold goMin; split <;> omega
  match hk : keysDesc (candidates env st.hostValue reachable (order st.source)) with
  | k :: ks => exact selectLoop_panic shuffle _ _ hcnt k ks
  | [] =>
    exfalso
    match hcs : candidates env st.hostValue reachable (order st.source) with
    | [] => rw [hcs] at hlen; exact absurd hlen (by decide)
    | c :: cs =>
      have : c.2 ∈ keysDesc (candidates env st.hostValue reachable (order st.source)) :=
        mem_keysDesc.2 ⟨c, by rw [hcs]; exact List.mem_cons_self, rfl⟩
      rw [hk] at this; cases this

example : (synchronize Ex.env Ex.allReachable id id (Ex.init (-1))).2.isPanic = true := by decide

end Neigh
