/-
  Neigh.Props — property C17 (neighbour set): property theorems only.

  Every theorem is about the executable model `Neigh.Model` of neighborhood.go / target.go (after the
  repairs seeded/_fixes/c17-*.diff) and holds for EVERY map iteration order `order`, EVERY shuffle
  `shuffle` (both: any rearrangement), every `reachable`, every maximum `0 ≤ max`, every state reachable by
  any sequence of AddTargets / Incentive / Synchronize from any `NewNeighborhood` (`C17_rounds`), and
  every `parse` / `join` / `senderTarget` with

    Env.RoundTrip     parse v = some (ip, port) → parse (join ip port) = some (ip, port)
    Env.TargetIsJoin  senderTarget ip port = join ip port          (used by C17_fanout only)

  (see `Neigh.Spec` for why they hold of net.SplitHostPort / net.JoinHostPort / p2p.NewNeighbor).  The
  per-round theorems take the representation invariant `st.WF env` as hypothesis; `C17_rounds` shows that
  every reachable state has it.  Peers are identified by ENDPOINT (ip, port).  No bounds anywhere.

  Outside the quantifier of C17 (max ≥ 0) but recorded: `C17_negative_max_panics`.
-/
import Neigh.Lemmas

namespace Neigh

/-! ## one refresh round -/

section Round
variable (env : Env) (reachable : String → String → Bool) (order : Scores → Scores)
  (shuffle : List Sender → List Sender) (st : State)

/-- At most the configured maximum, and the round does not panic. -/
theorem C17_bounded (hwf : st.WF env) (hmax : 0 ≤ st.max) (hT : env.TargetIsJoin)
    (ho : Rearranges order) (hs : Rearranges shuffle) :
    (synchronize env reachable order shuffle st).2.isPanic = false ∧
    ((synchronize env reachable order shuffle st).1.senders.length : Int) ≤ st.max :=
  let h := round_ok env reachable order shuffle st hwf hmax hT ho hs
  ⟨h.no_panic, h.bounded⟩

example : (Ex.init 2).WF Ex.env ∧ (0:Int) ≤ (Ex.init 2).max ∧ Ex.env.TargetIsJoin ∧
    Rearranges (List.reverse : Scores → Scores) ∧ Rearranges (List.reverse : List Sender → List Sender) ∧
    (synchronize Ex.env Ex.allReachable List.reverse List.reverse
      (run Ex.env (Ex.init 2) [.addTargets ["10.0.0.2:10600", "10.0.0.3:10600", "10.0.0.4:10600"]])).1.senders.length = 2 :=
  ⟨by decide, by decide, Ex.env_targetIsJoin, List.reverse_perm, List.reverse_perm, by decide⟩

/-- Distinct peers: no two outbounds have the same endpoint (ip, port) — nor the same value. -/
theorem C17_distinct (hwf : st.WF env) (hmax : 0 ≤ st.max) (hT : env.TargetIsJoin)
    (ho : Rearranges order) (hs : Rearranges shuffle) :
    ((synchronize env reachable order shuffle st).1.senders.map (fun o => (o.ip, o.port))).Nodup ∧
    ((synchronize env reachable order shuffle st).1.senders.map (·.value)).Nodup :=
  let h := round_ok env reachable order shuffle st hwf hmax hT ho hs
  ⟨h.distinct_endpoints, h.distinct⟩

/-- the former witness: two spellings of one endpoint are one known target and one outbound -/
example : (run Ex.env (Ex.init 5) [.addTargets ["10.0.0.2:10600", "[10.0.0.2]:10600"]]).scores
      = [("10.0.0.2:10600", 0)] ∧
    (run Ex.env (Ex.init 5) [.addTargets ["10.0.0.2:10600", "[10.0.0.2]:10600"]]).WF Ex.env ∧
    ((synchronize Ex.env Ex.allReachable id id
      (run Ex.env (Ex.init 5) [.addTargets ["10.0.0.2:10600", "[10.0.0.2]:10600", "10.0.0.3:10600"]])).1.senders.map
        (fun o => (o.ip, o.port))) = [("10.0.0.2", "10600"), ("10.0.0.3", "10600")] :=
  ⟨by decide, by decide, by decide⟩

/-- Never the node itself: no outbound has the host's endpoint — nor the host's target value. -/
theorem C17_not_self (hwf : st.WF env) (hmax : 0 ≤ st.max) (hT : env.TargetIsJoin)
    (ho : Rearranges order) (hs : Rearranges shuffle) :
    ∀ o ∈ (synchronize env reachable order shuffle st).1.senders,
      (o.ip, o.port) ≠ (st.hostIp, st.hostPort) ∧ o.value ≠ st.hostValue :=
  let h := round_ok env reachable order shuffle st hwf hmax hT ho hs
  fun o ho' => ⟨h.not_self_endpoint o ho', h.not_self o ho'⟩

/-- the former witness: the host under another spelling is known as the host value and never dialled -/
example : (run Ex.env (Ex.init 5) [.addTargets ["[10.0.0.9]:10600", "10.0.0.3:10600"]]).scores
      = [("10.0.0.9:10600", 0), ("10.0.0.3:10600", 0)] ∧
    ((synchronize Ex.env Ex.allReachable id id
      (run Ex.env (Ex.init 5) [.addTargets ["[10.0.0.9]:10600", "10.0.0.3:10600"]])).1.senders.map (·.value))
      = ["10.0.0.3:10600"] :=
  ⟨by decide, by decide⟩

/-- Drawn only from the targets the node currently knows, or from the seeds when it knows none
(`st.source` is `st.scores` unless that map is empty, then `st.seeds`). -/
theorem C17_known_only (hwf : st.WF env) (hmax : 0 ≤ st.max) (hT : env.TargetIsJoin)
    (ho : Rearranges order) (hs : Rearranges shuffle) :
    ∀ o ∈ (synchronize env reachable order shuffle st).1.senders,
      (st.scores ≠ [] → o.value ∈ st.scores.keys) ∧ (st.scores = [] → o.value ∈ st.seeds.keys) := by
  have h := round_ok env reachable order shuffle st hwf hmax hT ho hs
  intro o ho'
  have hk := h.known o ho'
  unfold State.source at hk
  constructor
  · intro hne
    have : ¬ st.scores.length = 0 := by
      intro h0; exact hne (List.eq_nil_of_length_eq_zero h0)
    rwa [if_neg this] at hk
  · intro he
    have : st.scores.length = 0 := by rw [he]; rfl
    rwa [if_pos this] at hk

example : ((synchronize Ex.env Ex.allReachable id id (Ex.init 3)).1.senders.map (·.value)) = ["10.0.0.1:10600"] ∧
    ((synchronize Ex.env Ex.allReachable id id
      (run Ex.env (Ex.init 3) [.incentive "10.0.0.4:10600"])).1.senders.map (·.value)) = ["10.0.0.4:10600"] :=
  ⟨by decide, by decide⟩

/-- Every selected peer is well-formed and `CreateSender` succeeded for it; the sender is exactly the one
created for the parsed (ip, port). -/
theorem C17_reachable_only (hwf : st.WF env) (hmax : 0 ≤ st.max) (hT : env.TargetIsJoin)
    (ho : Rearranges order) (hs : Rearranges shuffle) :
    ∀ o ∈ (synchronize env reachable order shuffle st).1.senders,
      ∃ ip port, env.parse o.value = some (ip, port) ∧ reachable ip port = true ∧
        o = ⟨o.value, ip, port, env.senderTarget ip port⟩ :=
  (round_ok env reachable order shuffle st hwf hmax hT ho hs).reachable_only

example : ((synchronize Ex.env Ex.no3 id id
      (run Ex.env (Ex.init 5) [.addTargets ["10.0.0.2:10600", "10.0.0.3:10600", "junk"]])).1.senders.map (·.value))
    = ["10.0.0.2:10600"] := by decide

/-- Never leaves out a reachable peer in favour of a lower-scored one: a selectable target that was not
selected has a score ≤ the score of every selected one; and the selection is as large as the maximum
and the number of selectable targets allow (so nobody is left out while there is room). -/
theorem C17_best (hwf : st.WF env) (hmax : 0 ≤ st.max) (hT : env.TargetIsJoin)
    (ho : Rearranges order) (hs : Rearranges shuffle) :
    (∀ o ∈ (synchronize env reachable order shuffle st).1.senders, ∀ so, (o.value, so) ∈ st.source →
      ∀ v sv, IsCandidate env reachable st v sv →
        v ∉ (synchronize env reachable order shuffle st).1.senders.map (·.value) → sv ≤ so) ∧
    ((synchronize env reachable order shuffle st).1.senders.length : Int)
      = min st.max (candidateCount env reachable st : Int) :=
  let h := round_ok env reachable order shuffle st hwf hmax hT ho hs
  ⟨h.best, h.count⟩

example : ((synchronize Ex.env Ex.allReachable List.reverse id
      (run Ex.env (Ex.init 2) [.addTargets ["10.0.0.2:10600", "10.0.0.3:10600", "10.0.0.4:10600"],
        .incentive "10.0.0.3:10600"])).1.senders.map (·.value))
    = ["10.0.0.3:10600", "10.0.0.4:10600"] ∧
    IsCandidate Ex.env Ex.allReachable
      (run Ex.env (Ex.init 2) [.addTargets ["10.0.0.2:10600", "10.0.0.3:10600", "10.0.0.4:10600"],
        .incentive "10.0.0.3:10600"]) "10.0.0.2:10600" 0 :=
  ⟨by decide, by decide, by decide, "10.0.0.2", "10600", by decide, by decide⟩

/-- Every selected peer is sent exactly one `SendTargets`, carrying the host's own target value followed by
all other selectable targets of the round (some rearrangement `tv` of them) but not its own; spelled out:
the host value is in the message, the peer's own value is not, every other selectable value is, and
nothing else is. -/
theorem C17_fanout (hwf : st.WF env) (hmax : 0 ≤ st.max) (hT : env.TargetIsJoin)
    (ho : Rearranges order) (hs : Rearranges shuffle) :
    (∃ tv, tv.Perm (candidateValues env reachable st) ∧
      (synchronize env reachable order shuffle st).2 =
        .ok ((synchronize env reachable order shuffle st).1.senders.map
          (fun o => (o, (st.hostValue :: tv).filter (fun v => o.value ≠ v))))) ∧
    (∀ p ∈ (synchronize env reachable order shuffle st).2.fanout,
      p.1 ∈ (synchronize env reachable order shuffle st).1.senders ∧
      st.hostValue ∈ p.2 ∧ p.1.value ∉ p.2 ∧
      (∀ v ∈ candidateValues env reachable st, v ≠ p.1.value → v ∈ p.2) ∧
      (∀ v ∈ p.2, v = st.hostValue ∨ v ∈ candidateValues env reachable st)) := by
  have h := round_ok env reachable order shuffle st hwf hmax hT ho hs
  obtain ⟨tv, htv, hf⟩ := h.fanout
  refine ⟨⟨tv, htv, hf⟩, ?_⟩
  intro p hp
  rw [hf] at hp
  simp only [Outcome.fanout, List.mem_map] at hp
  obtain ⟨o, ho', rfl⟩ := hp
  simp only
  refine ⟨ho', ?_, ?_, ?_, ?_⟩
  · rw [List.mem_filter]
    exact ⟨List.mem_cons_self, by simpa using h.not_self o ho'⟩
  · rw [List.mem_filter]; simp
  · intro v hv hne
    rw [List.mem_filter]
    exact ⟨List.mem_cons_of_mem _ (htv.mem_iff.2 hv), by simpa using fun e => hne e.symm⟩
  · intro v hv
    rw [List.mem_filter, List.mem_cons] at hv
    rcases hv.1 with h1 | h1
    · exact Or.inl h1
    · exact Or.inr (htv.mem_iff.1 h1)

/-- includes the former witness: a peer announced as `[ip]:port` is not sent its own target any more -/
example : (synchronize Ex.env Ex.allReachable id id
      (run Ex.env (Ex.init 5) [.addTargets ["[10.0.0.2]:10600", "10.0.0.3:10600"]])).2.fanout.map
        (fun p => (p.1.target, p.2)) =
      [("10.0.0.2:10600", ["10.0.0.9:10600", "10.0.0.3:10600"]),
       ("10.0.0.3:10600", ["10.0.0.9:10600", "10.0.0.2:10600"])] := by decide

end Round

/-! ## AddTargets / Incentive / NewNeighborhood -/

/-- `AddTargets` keeps exactly the well-formed, same-network, not-yet-known announced values, each once,
under its canonical spelling with score 0; leaves every known entry and its score alone and changes nothing
else. -/
theorem C17_retained (env : Env) (st : State) (targetValues : List String) :
    (∀ e ∈ st.scores, e ∈ (addTargets env st targetValues).scores) ∧
    (∀ e ∈ (addTargets env st targetValues).scores, e ∈ st.scores ∨
      (e.2 = 0 ∧ e.1 ∉ st.scores.keys ∧ ∃ v ∈ targetValues, AcceptedAs env st v e.1)) ∧
    (∀ v ∈ targetValues, ∀ k, AcceptedAs env st v k → k ∈ (addTargets env st targetValues).scores.keys) ∧
    (env.RoundTrip → st.WF env → (addTargets env st targetValues).WF env) ∧
    (addTargets env st targetValues).seeds = st.seeds ∧
    (addTargets env st targetValues).senders = st.senders ∧
    (addTargets env st targetValues).max = st.max ∧
    (addTargets env st targetValues).hostValue = st.hostValue :=
  let c := addTargets_config env targetValues st
  ⟨addTargets_old env targetValues st, addTargets_new env targetValues st,
   fun v hv k hk => addTargets_complete env targetValues st v k hv hk,
   fun hR => addTargets_wf hR targetValues st, c.1.2.2.2.2, c.2, c.1.2.2.2.1, c.1.2.2.1⟩

example : (addTargets Ex.env (Ex.init 3)
    ["10.0.0.2:10600", "junk", "10.0.0.5:10601", "10.0.0.6:8080", "10.0.0.2:10600", "[10.0.0.9]:10600",
     "[10.0.0.2]:10600", "10.0.0.3:10600"]).scores
    = [("10.0.0.2:10600", 0), ("10.0.0.9:10600", 0), ("10.0.0.3:10600", 0)] := by decide

/-- `Incentive(v)`: a malformed or foreign-network `v` changes nothing; otherwise the score of the canonical
spelling `k` of `v` goes up by one (from 0 when unknown, creating the entry), and nothing else changes. -/
theorem C17_incentive (env : Env) (st : State) (v : String) :
    ((¬ ∃ k, AcceptedAs env st v k) → incentive env st v = st) ∧
    (∀ k, AcceptedAs env st v k →
      (incentive env st v).scores.get k = st.scores.get k + 1 ∧
      (∀ w, w ≠ k → (incentive env st v).scores.get w = st.scores.get w) ∧
      (incentive env st v).scores.keys = (if k ∈ st.scores.keys then st.scores.keys else st.scores.keys ++ [k])) ∧
    (env.RoundTrip → st.WF env → (incentive env st v).WF env) ∧
    (incentive env st v).seeds = st.seeds ∧ (incentive env st v).senders = st.senders ∧
    (incentive env st v).max = st.max ∧ (incentive env st v).hostValue = st.hostValue := by
  have c := incentive_config env st v
  refine ⟨?_, ?_, fun hR => incentive_wf hR v, c.1.2.2.2.2, c.2, c.1.2.2.2.1, c.1.2.2.1⟩
  · intro hno
    rcases incentive_cases env st v with ⟨h, _⟩ | ⟨k, hk, _⟩
    · exact h
    · exact absurd ⟨k, hk⟩ hno
  · intro k hk
    rcases incentive_cases env st v with ⟨_, hno⟩ | ⟨k', hk', h⟩
    · exact absurd ⟨k, hk⟩ hno
    · have hkk : k' = k := by
        obtain ⟨ip, port, hp, he, _⟩ := hk
        obtain ⟨ip', port', hp', he', _⟩ := hk'
        rw [hp] at hp'; cases hp'; rw [he, he']
      subst hkk
      rw [h]
      exact ⟨Scores.get_incr_self _ _, fun _ hw => Scores.get_incr_other _ hw, Scores.keys_incr _ _⟩

example : (run Ex.env (Ex.init 3) [.incentive "junk", .incentive "10.0.0.6:8080", .incentive "[10.0.0.2]:10600",
      .incentive "10.0.0.2:10600"]).scores = [("10.0.0.2:10600", 2)] ∧
    (∃ k, AcceptedAs Ex.env (Ex.init 3) "[10.0.0.2]:10600" k) :=
  ⟨by decide, "10.0.0.2:10600", "10.0.0.2", "10600", by decide, by decide, by decide⟩

/-- Peer-announced targets are retained only if well-formed and on the node's own network — as an invariant:
in every state reachable from any `NewNeighborhood` by any operations, every known target is in canonical
spelling, well-formed and on the host's network, and the two maps have distinct keys. -/
theorem C17_retained_inv (env : Env) (hR : env.RoundTrip) (hostIp hostPort : String) (max : Int)
    (seeds : Scores) (ops : List Op) :
    (∀ k ∈ (run env (State.init env hostIp hostPort max seeds) ops).scores.keys,
      Canonical env k ∧ Acceptable env (State.init env hostIp hostPort max seeds) k) ∧
    (run env (State.init env hostIp hostPort max seeds) ops).WF env := by
  have hwf := run_wf hR ops _ (init_wf hR hostIp hostPort max seeds)
  have hcfg := run_config env ops (State.init env hostIp hostPort max seeds)
  refine ⟨?_, hwf⟩
  intro k hk
  have := hwf.2.2.2.1 k hk
  exact ⟨this.1, (acceptable_congr hcfg.2.1 k).1 this.2⟩

example : Ex.env.RoundTrip ∧ (run Ex.env (Ex.init 3)
    [.incentive "junk", .addTargets ["[10.0.0.2]:10600", "10.0.0.6:8080"], .incentive "10.0.0.3:10600"]).scores
    = [("10.0.0.2:10600", 0), ("10.0.0.3:10600", 1)] := ⟨Ex.env_roundTrip, by decide⟩

/-- `NewNeighborhood` files the seeds under canonical spelling, distinct, nothing invented; the score map
starts empty. -/
theorem C17_init (env : Env) (hR : env.RoundTrip) (hostIp hostPort : String) (max : Int) (seeds : Scores) :
    (State.init env hostIp hostPort max seeds).WF env ∧
    (State.init env hostIp hostPort max seeds).scores = [] ∧
    (State.init env hostIp hostPort max seeds).max = max ∧
    (State.init env hostIp hostPort max seeds).hostValue = env.join hostIp hostPort :=
  ⟨init_wf hR hostIp hostPort max seeds, rfl, rfl, rfl⟩

example : (State.init Ex.env "10.0.0.9" "10600" 3
    [("[10.0.0.2]:10600", 1), ("junk", 5), ("10.0.0.2:10600", 4), ("10.0.0.3:10600", 0)]).seeds
    = [("10.0.0.2:10600", 4), ("10.0.0.3:10600", 0)] := by decide

/-! ## networkId -/

/-- The exact case analysis of `(*Target).networkId` on the port string. -/
theorem C17_networkId (port : String) :
    (networkId port = "mainnet" ↔ port = "10600") ∧
    (networkId port = "testnet" ↔
      port ≠ "10600" ∧ port.utf8ByteSize = 5 ∧ port.toList.take 3 = ['1', '0', '6']) ∧
    (networkId port = "unknown" ↔
      port ≠ "10600" ∧ ¬ (port.utf8ByteSize = 5 ∧ port.toList.take 3 = ['1', '0', '6'])) ∧
    (∀ other, sameNetwork port other = true ↔ networkId port = networkId other) := by
  have hmt : ("mainnet" : String) ≠ "testnet" := by decide
  have hmu : ("mainnet" : String) ≠ "unknown" := by decide
  have htu : ("testnet" : String) ≠ "unknown" := by decide
  refine ⟨?_, ?_, ?_, ?_⟩
  · unfold networkId
    split
    · next h => simp [h]
    · next h => split <;> simp [h, hmt.symm, hmu.symm]
  · unfold networkId
    split
    · next h => simp [h, hmt]
    · next h =>
      split
      · next h2 => simp [h, h2]
      · next h2 =>
        constructor
        · intro h3; exact absurd h3 htu.symm
        · intro h3; exact absurd h3.2 h2
  · unfold networkId
    split
    · next h => simp [h, hmu]
    · next h =>
      split
      · next h2 =>
        constructor
        · intro h3; exact absurd h3 htu
        · intro h3; exact absurd h2 h3.2
      · next h2 => simp [h, h2]
  · intro other; unfold sameNetwork; rw [beq_iff_eq]

example : networkId "10600" = "mainnet" ∧ networkId "10601" = "testnet" ∧ networkId "10699" = "testnet" ∧
    networkId "106ab" = "testnet" ∧ networkId "8080" = "unknown" ∧ networkId "106000" = "unknown" ∧
    networkId "" = "unknown" ∧ sameNetwork "8080" "443" = true ∧ sameNetwork "10600" "10601" = false := by
  decide

/-! ## repeated rounds -/

/-- After ANY sequence of AddTargets / Incentive / Synchronize operations (whatever orders, shuffles and
reachability the earlier rounds saw) on a node made by `NewNeighborhood` with any seeds and `0 ≤ max`, the
next refresh round satisfies every clause (`RoundOK`, spelled out in `Neigh.Spec`). -/
theorem C17_rounds (env : Env) (hR : env.RoundTrip) (hT : env.TargetIsJoin) (hostIp hostPort : String)
    (max : Int) (seeds : Scores) (hmax : 0 ≤ max) (ops : List Op)
    (reachable : String → String → Bool) (order : Scores → Scores)
    (shuffle : List Sender → List Sender) (ho : Rearranges order) (hs : Rearranges shuffle) :
    RoundOK env reachable (run env (State.init env hostIp hostPort max seeds) ops)
      (synchronize env reachable order shuffle
        (run env (State.init env hostIp hostPort max seeds) ops)) := by
  have hwf := run_wf hR ops _ (init_wf hR hostIp hostPort max seeds)
  have hcfg := run_config env ops (State.init env hostIp hostPort max seeds)
  have hmax' : 0 ≤ (run env (State.init env hostIp hostPort max seeds) ops).max := by
    rw [hcfg.2.2.2.1]; exact hmax
  exact round_ok env reachable order shuffle _ hwf hmax' hT ho hs

/-- …and the configuration never changes and the state stays well-formed, so the statement above applies
again after that round: it is an invariant. -/
theorem C17_rounds_invariant (env : Env) (hR : env.RoundTrip) (st : State) (ops : List Op)
    (hwf : st.WF env) :
    (run env st ops).WF env ∧ (run env st ops).max = st.max ∧ (run env st ops).seeds = st.seeds ∧
    (run env st ops).hostValue = st.hostValue ∧ (run env st ops).hostPort = st.hostPort ∧
    (run env st ops).hostIp = st.hostIp :=
  let c := run_config env ops st
  ⟨run_wf hR ops st hwf, c.2.2.2.1, c.2.2.2.2, c.2.2.1, c.2.1, c.1⟩

example : Ex.env.RoundTrip ∧ Ex.env.TargetIsJoin ∧ (run Ex.env (Ex.init 2)
    [.synchronize Ex.allReachable id id, .addTargets ["10.0.0.2:10600", "junk", "10.0.0.3:10600"],
     .incentive "10.0.0.3:10600", .synchronize Ex.no3 List.reverse List.reverse,
     .incentive "[10.0.0.2]:10600", .addTargets ["10.0.0.4:10600"]]).scores
    = [("10.0.0.2:10600", 1), ("10.0.0.4:10600", 0)] :=
  ⟨Ex.env_roundTrip, Ex.env_targetIsJoin, by decide⟩

/-! ## outside the quantifier of C17: a negative maximum -/

/-- With `max < 0` and at least one selectable target the round panics (slice bounds out of range in
`selectOutbounds`), after the known targets were already dropped; `senders` keeps its old value. -/
theorem C17_negative_max_panics (env : Env) (reachable : String → String → Bool) (order : Scores → Scores)
    (shuffle : List Sender → List Sender) (st : State) (hneg : st.max < 0) (ho : Rearranges order)
    (hc : 0 < candidateCount env reachable st) :
    synchronize env reachable order shuffle st = ({ st with scores := [] }, .panic) := by
  apply synchronize_eq_of_panic
  have hcp : (candidates env st.hostValue reachable (order st.source)).Perm
      (candidates env st.hostValue reachable st.source) := (ho st.source).filterMap _
  have hlen : 0 < (candidates env st.hostValue reachable (order st.source)).length := by
    rw [hcp.length_eq]; exact hc
  have hcnt : goMin (st.source.length : Int) st.max < 0 := by unfold goMin; split <;> omega
  match hk : keysDesc (candidates env st.hostValue reachable (order st.source)) with
  | k :: ks => exact selectLoop_panic shuffle _ _ hcnt k ks
  | [] =>
    exfalso
    match hcs : candidates env st.hostValue reachable (order st.source) with
    | [] => rw [hcs] at hlen; exact absurd hlen (by decide)
    | c :: cs =>
      have : c.2 ∈ keysDesc (candidates env st.hostValue reachable (order st.source)) :=
        mem_keysDesc.2 ⟨c, by rw [hcs]; exact List.mem_cons_self, rfl⟩
      rw [hk] at this; cases this

example : (synchronize Ex.env Ex.allReachable id id (Ex.init (-1))).2.isPanic = true := by decide

end Neigh
