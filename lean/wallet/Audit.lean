import Wallet.Props
open Wallet
#print axioms C18_405_iff
#print axioms C18_terminates
#print axioms C18_distinct
#print axioms C18_distinct_refs
#print axioms C18_nonzero_spendable
#print axioms C18_sum
#print axioms C18_all_when_consolidating
#print axioms C18_single_when_one_suffices
#print axioms C18_closest_spec
#print axioms C18_fee_rule
#print axioms C18_fee_rule_time
#print axioms C18_wraps_to_target
#print axioms C19_balance
#print axioms C19_progress
#print axioms C19_progress_iff
#print axioms C19_progress_block_at_height
#print axioms C19_progress_errors
#print axioms C19_progress_sent
