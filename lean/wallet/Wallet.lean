-- Root of the `Wallet` library (C18 coin selection, C19 balance and progress views).
import Wallet.Model
import Wallet.Lemmas
import Wallet.Props
