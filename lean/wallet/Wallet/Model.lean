/-
Executable model of the access node's wallet-facing controllers (core Lean only).

  accessnode/presentation/api/payment/info_controller.go      GetTransactionInfo, findClosestValueIndex
  accessnode/presentation/api/payment/progress_controller.go  GetTransactionProgress
  accessnode/presentation/api/wallet/amount_controller.go     GetWalletAmount
  validatornode/application/verification/utxos_registry.go    CalculateFee (arithmetic part)
  validatornode/application/verification/blockchain.go        Blocks (paging, as used by the progress view)

Conventions
* An output listed by the validator is identified by its POSITION in the listing (the Go code keeps
  `*ledger.InputInfo` pointers into the decoded listing, i.e. exactly positions).  The harness maps
  positions back to (transaction id, output index).
* `ledger.Utxo.Value` is an external parameter: values arrive as data (`vals[p]` = value of the output
  at position `p` at the timestamp the controller asked for).
* `uint64` arithmetic is `Nat` with explicit wrap-around (`add64`, `sub64`) wherever Go can wrap.
* Failure points of the Go code that are not HTTP answers (index out of range, nil dereference,
  integer division by zero) are the distinguished outcome `panic`.
-/
namespace Wallet

/-- 2^64 -/
def U64 : Nat := 18446744073709551616

/-- math.MaxUint64 -/
def maxU64 : Nat := 18446744073709551615

/-- uint64 `a + b` -/
def add64 (a b : Nat) : Nat := (a + b) % U64

/-- uint64 `a - b` (for `a b < 2^64`) -/
def sub64 (a b : Nat) : Nat := (a + U64 - b) % U64

/-- `uint64(x)` for an `int` / `int64` `x` -/
def toU64 (x : Int) : Nat := (x % (U64 : Int)).toNat

/-- What a call to the validator gave: bytes that decode, an error, or bytes that do not decode. -/
inductive Reply (β : Type) where
  | ok (b : β)
  | error
  | garbage
  deriving Repr

/-! ## findClosestValueIndex -/

/-- Loop state of `findClosestValueIndex`. -/
structure Closest where
  index : Nat            -- closestValueIndex
  difference : Nat       -- closestDifference
  seenGreater : Bool     -- isAValueGreaterThanTarget
  deriving Repr, DecidableEq

/-- One iteration of `for i, value := range values`. -/
def closestStep (target : Nat) (st : Closest) (i value : Nat) : Closest :=
  if st.seenGreater && decide (value < target) then
    st                                                             -- continue
  else if value < target then
    let difference := target - value
    if difference < st.difference then ⟨i, difference, st.seenGreater⟩ else st
  else
    -- `if !isAValueGreaterThanTarget { closestDifference = MaxUint64 }`, then the flag is set
    let closestDifference := if st.seenGreater then st.difference else maxU64
    let difference := value - target
    if difference < closestDifference then ⟨i, difference, true⟩
    else ⟨st.index, closestDifference, true⟩

def closestLoop (target : Nat) : Nat → Closest → List Nat → Closest
  | _, st, [] => st
  | i, st, v :: vs => closestLoop target (i + 1) (closestStep target st i v) vs

/-- `findClosestValueIndex(target, values)` -/
def findClosestValueIndex (target : Nat) (values : List Nat) : Nat :=
  (closestLoop target 0 ⟨0, maxU64, false⟩ values).index

/-! ## GetTransactionInfo: the first loop (valuation, balance, grouping) -/

/-- A Go `map[uint64][]*InputInfo`: absent key ↦ `none`. -/
abbrev ByValue := Nat → Option (List Nat)

/-- `m[k]` (nil slice when the key is absent) -/
def ByValue.get (m : ByValue) (k : Nat) : List Nat := (m k).getD []

/-- `m[k] = v` -/
def ByValue.set (m : ByValue) (k : Nat) (v : List Nat) : ByValue :=
  fun k' => if k' = k then some v else m k'

/-- State after the first loop. -/
structure Scan where
  walletBalance : Nat := 0
  selectedInputs : List Nat := []
  values : List Nat := []
  utxosByValue : ByValue := fun _ => none

/-- One iteration of `for _, utxo := range utxos` (the output is at position `pos`, worth `utxoValue`). -/
def scanStep (consolidate : Bool) (st : Scan) (pos utxoValue : Nat) : Scan :=
  if utxoValue = 0 then st                                          -- continue
  else
    let st := { st with walletBalance := add64 st.walletBalance utxoValue }
    if consolidate then
      { st with selectedInputs := st.selectedInputs ++ [pos] }
    else
      let values := if (st.utxosByValue utxoValue).isSome then st.values else st.values ++ [utxoValue]
      { st with values := values,
                utxosByValue := st.utxosByValue.set utxoValue (st.utxosByValue.get utxoValue ++ [pos]) }

def scanLoop (consolidate : Bool) : Nat → Scan → List Nat → Scan
  | _, st, [] => st
  | pos, st, v :: vs => scanLoop consolidate (pos + 1) (scanStep consolidate st pos v) vs

/-! ## GetTransactionInfo: the selection loop -/

inductive LoopResult where
  | done (inputsValue : Nat) (selectedInputs : List Nat)
  | panic                    -- `values[closestValueIndex]` or `utxosByValue[closestValue][0]` out of range
  | outOfFuel                -- artefact of the model (shown unreachable: `C18_terminates`)
  deriving Repr, DecidableEq

/-- `for i := 0; i < len(closestUtxos) && inputsValue < targetValue; i++ { … }` -/
def takeGroup (target closest : Nat) : List Nat → Nat → List Nat → Nat × List Nat
  | [], inputsValue, selected => (inputsValue, selected)
  | p :: ps, inputsValue, selected =>
    if inputsValue < target then
      takeGroup target closest ps (add64 inputsValue closest) (selected ++ [p])
    else (inputsValue, selected)

/-- `for inputsValue < targetValue { … }`.  `fuel` bounds the iterations; `values.length` suffices. -/
def selectLoop (target : Nat) (m : ByValue) : Nat → List Nat → Nat → List Nat → LoopResult
  | 0, _, inputsValue, selected =>
    if inputsValue < target then .outOfFuel else .done inputsValue selected
  | fuel + 1, values, inputsValue, selected =>
    if inputsValue < target then
      let closestValueIndex := findClosestValueIndex target values
      match values[closestValueIndex]? with
      | none => .panic
      | some closestValue =>
        if closestValue > target then
          match m.get closestValue with
          | [] => .panic
          | p :: _ => .done closestValue [p]                          -- break
        else
          let values' := values.eraseIdx closestValueIndex
          let (inputsValue', selected') := takeGroup target closestValue (m.get closestValue) inputsValue selected
          selectLoop target m fuel values' inputsValue' selected'
    else .done inputsValue selected

/-! ## GetTransactionInfo: answer -/

inductive Answer where
  | badRequest                                  -- 400
  | serverError                                 -- 500
  | insufficient                                -- 405 "insufficient wallet balance", nothing listed
  | ok (rest : Nat) (inputs : List Nat)         -- 200 {inputs, rest, timestamp: now}
  | panic
  | outOfFuel
  deriving Repr, DecidableEq

def Answer.status : Answer → Nat
  | .badRequest => 400
  | .serverError => 500
  | .insufficient => 405
  | .ok _ _ => 200
  | .panic => 0
  | .outOfFuel => 0

/-- The part of `GetTransactionInfo` after the validator's answers have been obtained.
`vals` are the listed outputs' values at the next block's timestamp, `value` is `uint64(parsedValue)`. -/
def select (vals : List Nat) (value minFee : Nat) (consolidate : Bool) : Answer :=
  let st := scanLoop consolidate 0 {} vals
  let targetValue := add64 value minFee
  if st.walletBalance < targetValue then .insufficient
  else if consolidate then
    .ok (sub64 st.walletBalance targetValue) st.selectedInputs
  else if st.values.length != 0 then
    match selectLoop targetValue st.utxosByValue st.values.length st.values 0 st.selectedInputs with
    | .done inputsValue selected => .ok (sub64 inputsValue targetValue) selected
    | .panic => .panic
    | .outOfFuel => .outOfFuel
  else
    .ok (sub64 0 targetValue) st.selectedInputs

/-- `GetTransactionInfo` with its request parsing and validator calls, in the order of the code.
`parsedValue` = result of `strconv.Atoi`, `parsedConsolidation` = result of `strconv.ParseBool`
(`none` = error); `utxos` = the valued listing; `genesisOk` = `GetFirstBlockTimestamp` succeeded. -/
def getTransactionInfo (addressEmpty : Bool) (parsedValue : Option Int) (parsedConsolidation : Option Bool)
    (utxos : Reply (List Nat)) (genesisOk : Bool) (minFee : Nat) : Answer :=
  if addressEmpty then .badRequest else
  match parsedValue with
  | none => .badRequest
  | some v =>
    match parsedConsolidation with
    | none => .badRequest
    | some consolidate =>
      match utxos with
      | .error => .serverError
      | .garbage => .serverError
      | .ok vals =>
        if !genesisOk then .serverError
        else select vals (toU64 v) minFee consolidate

/-! ## Block times as the access node derives them from its own clock (int64 wrap-around ignored) -/

/-- `(now-genesisTimestamp)/ValidationTimestamp()` — Go integer division truncates toward zero. -/
def currentBlockHeight (genesis interval now : Int) : Int := (now - genesis).tdiv interval

def currentBlockTimestamp (genesis interval now : Int) : Int :=
  genesis + currentBlockHeight genesis interval now * interval

def nextBlockHeight (genesis interval now : Int) : Int := (now - genesis).tdiv interval + 1

def nextBlockTimestamp (genesis interval now : Int) : Int :=
  genesis + nextBlockHeight genesis interval now * interval

/-! ## UtxosRegistry.CalculateFee: the arithmetic (input look-ups belong to C01/C11) -/

def sum64 (l : List Nat) : Nat := l.foldl add64 0

/-- `if sum+value < sum { return overflow error }; sum += value` (`none` = the overflow error) -/
def checkedAdd (acc : Option Nat) (v : Nat) : Option Nat :=
  match acc with
  | none => none
  | some a => if add64 a v < a then none else some (add64 a v)

def sumChecked (l : List Nat) : Option Nat := l.foldl checkedAdd (some 0)

inductive FeeResult where
  | overflow             -- "inputs value overflow" / "outputs value overflow"
  | negative             -- "fee is negative"
  | tooLow               -- "fee is too low"
  | ok (fee : Nat)
  deriving Repr, DecidableEq

def calculateFee (inputValues outputValues : List Nat) (minFee : Nat) : FeeResult :=
  match sumChecked inputValues with
  | none => .overflow
  | some inputsValue =>
    match sumChecked outputValues with
    | none => .overflow
    | some outputsValue =>
      if inputsValue < outputsValue then .negative
      else
        let fee := inputsValue - outputsValue
        if fee < minFee then .tooLow else .ok fee

/-! ## GetWalletAmount -/

/-- (status, balance).  The answer body is `float64(balance)/float64(SmallestUnitsPerCoin)`; the float
division is trusted.  `vals` = listed outputs' values at query time. -/
def walletAmount (addressEmpty : Bool) (utxos : Reply (List Nat)) : Nat × Option Nat :=
  if addressEmpty then (400, none) else
  match utxos with
  | .error => (500, none)
  | .garbage => (500, none)
  | .ok vals => (200, some (sum64 vals))

/-! ## Blockchain.Blocks (validator side), as far as the progress view depends on it -/

/-- `Blocks(startingBlockHeight)` for a chain of blocks and page size `limit`
(`startingBlockHeight + limit` is assumed not to wrap). -/
def blocksFrom {β : Type} (chain : List β) (limit h : Nat) : List β :=
  if chain.length = 0 || decide (h > chain.length - 1) || limit == 0 then []
  else if h + limit < chain.length then (chain.drop h).take limit
  else chain.drop h

/-! ## GetTransactionProgress -/

inductive Progress where
  | confirmed | validated | sent | rejected
  deriving Repr, DecidableEq

def Progress.label : Progress → String
  | .confirmed => "confirmed"
  | .validated => "validated"
  | .sent => "sent"
  | .rejected => "rejected"

inductive ProgressAnswer where
  | badRequest                                                 -- 400
  | serverError                                                -- 500
  | ok (progress : Progress) (currentBlockTimestamp : Int)     -- 200
  | panic
  deriving Repr, DecidableEq

def ProgressAnswer.status : ProgressAnswer → Nat
  | .badRequest => 400
  | .serverError => 500
  | .ok _ _ => 200
  | .panic => 0

/-- Result of `decoder.Decode(&searchedUtxo)`: an error, JSON `null` (pointer stays nil; answered 400
since the decoders reject null requests), or an output. -/
inductive Decoded (β : Type) where
  | error
  | null
  | value (b : β)
  deriving Repr

/-- `len(blocks) != 0 && blocks[0] != nil` and the scan of `blocks[0].Transactions()` -/
def inFirstBlock {ι : Type} [DecidableEq ι] (t : ι) : List (List ι) → Bool
  | [] => false
  | block :: _ => block.any (fun x => decide (x = t))

/-- `GetTransactionProgress`.  Outputs are (transaction id, output index); blocks are lists of
transaction ids; `genesis = none` means `GetFirstBlockTimestamp` failed (the timestamp is then 0). -/
def transactionProgress {ι : Type} [DecidableEq ι] (body : Decoded (ι × Nat))
    (utxos : Reply (List (ι × Nat))) (genesis : Option Int) (now interval : Int)
    (getBlocks : Nat → Reply (List (List ι))) (transactions : Reply (List ι)) : ProgressAnswer :=
  match body with
  | .error => .badRequest
  | .null => .badRequest                                         -- `if searchedUtxo == nil …` (400)
  | .value searched =>
    match utxos with
    | .error => .serverError
    | .garbage => .serverError
    | .ok listed =>
      let genesisTimestamp := genesis.getD 0
      if interval = 0 then .panic else                           -- integer divide by zero
      let height := currentBlockHeight genesisTimestamp interval now
      let blockTimestamp := genesisTimestamp + height * interval
      if listed.any (fun u => decide (u.1 = searched.1) && decide (u.2 = searched.2)) then
        .ok .confirmed blockTimestamp
      else if genesis.isNone then .serverError                   -- checked only now
      else
        match getBlocks (toU64 height) with
        | .error => .serverError
        | .garbage => .serverError
        | .ok blocks =>
          -- no block at that height yet (empty list): nothing is validated there, the pool is consulted
          if inFirstBlock searched.1 blocks then .ok .validated blockTimestamp
          else
            match transactions with
            | .error => .serverError
            | .garbage => .serverError
            | .ok pool =>
              if pool.any (fun t => decide (t = searched.1)) then .ok .sent blockTimestamp
              else .ok .rejected blockTimestamp

end Wallet
