/-
Helper lemmas for the wallet model (core Lean only).  Property theorems are in `Wallet/Props.lean`.
-/
import Wallet.Model

namespace Wallet

/-! ## uint64 arithmetic -/

theorem U64_pos : 0 < U64 := by decide

theorem maxU64_eq : maxU64 = U64 - 1 := by decide

theorem add64_lt (a b : Nat) : add64 a b < U64 := Nat.mod_lt _ U64_pos

theorem add64_eq_of_lt {a b : Nat} (h : a + b < U64) : add64 a b = a + b := Nat.mod_eq_of_lt h

theorem add64_mod_left (s c : Nat) : add64 (s % U64) c = (s + c) % U64 := by
  unfold add64
  rw [Nat.mod_add_mod]

theorem sub64_eq_of_le {a b : Nat} (hb : b ≤ a) (ha : a < U64) : sub64 a b = a - b := by
  unfold sub64
  have h : a + U64 - b = (a - b) + U64 := by omega
  rw [h, Nat.add_mod_right]
  exact Nat.mod_eq_of_lt (by omega)

/-! ## Sums at positions -/

/-- Sum of the values of the outputs at the given positions. -/
def sumAt (vals : List Nat) (sel : List Nat) : Nat := (sel.map (fun p => vals.getD p 0)).sum

theorem sumAt_nil (vals : List Nat) : sumAt vals [] = 0 := rfl

theorem sumAt_append (vals a b : List Nat) : sumAt vals (a ++ b) = sumAt vals a + sumAt vals b := by
  simp [sumAt, List.map_append, List.sum_append]

theorem sumAt_singleton (vals : List Nat) (p : Nat) : sumAt vals [p] = vals.getD p 0 := by
  simp [sumAt]

theorem getD_of_getElem? {vals : List Nat} {p v : Nat} (h : vals[p]? = some v) : vals.getD p 0 = v := by
  simp [List.getD_eq_getElem?_getD, h]

theorem sumAt_const (vals : List Nat) (c : Nat) (g : List Nat) (h : ∀ p ∈ g, vals.getD p 0 = c) :
    sumAt vals g = c * g.length := by
  induction g with
  | nil => simp [sumAt]
  | cons p ps ih =>
    have hp : vals.getD p 0 = c := h p (by simp)
    have ih' := ih (fun q hq => h q (by simp [hq]))
    simp only [sumAt, List.map_cons, List.sum_cons, List.length_cons] at *
    rw [ih', hp, Nat.mul_add, Nat.mul_one, Nat.add_comm]

/-! ## Grouped sums -/

/-- Σ over the distinct values `vs` of value × size of its group. -/
def groupSum (m : ByValue) (vs : List Nat) : Nat := (vs.map (fun v => v * (m.get v).length)).sum

theorem groupSum_nil (m : ByValue) : groupSum m [] = 0 := rfl

theorem groupSum_cons (m : ByValue) (v : Nat) (vs : List Nat) :
    groupSum m (v :: vs) = v * (m.get v).length + groupSum m vs := by
  simp [groupSum]

theorem groupSum_append (m : ByValue) (a b : List Nat) :
    groupSum m (a ++ b) = groupSum m a + groupSum m b := by
  simp [groupSum, List.map_append, List.sum_append]

theorem get_set_same (m : ByValue) (k : Nat) (l : List Nat) : (m.set k l).get k = l := by
  simp [ByValue.get, ByValue.set]

theorem get_set_other (m : ByValue) {k k' : Nat} (l : List Nat) (h : k' ≠ k) :
    (m.set k l).get k' = m.get k' := by
  simp [ByValue.get, ByValue.set, h]

theorem groupSum_set_not_mem (m : ByValue) (x : Nat) (l : List Nat) (vs : List Nat) (h : x ∉ vs) :
    groupSum (m.set x l) vs = groupSum m vs := by
  induction vs with
  | nil => rfl
  | cons v vs ih =>
    have hv : v ≠ x := fun e => h (by simp [e])
    have hx : x ∉ vs := fun e => h (by simp [e])
    rw [groupSum_cons, groupSum_cons, ih hx, get_set_other m l hv]

theorem groupSum_set_mem (m : ByValue) (x q : Nat) (vs : List Nat) (hnd : vs.Nodup) (h : x ∈ vs) :
    groupSum (m.set x (m.get x ++ [q])) vs = groupSum m vs + x := by
  induction vs with
  | nil => simp at h
  | cons v vs ih =>
    rw [List.nodup_cons] at hnd
    rw [groupSum_cons, groupSum_cons]
    by_cases hv : v = x
    · subst hv
      rw [get_set_same, groupSum_set_not_mem m v _ vs hnd.1]
      simp only [List.length_append, List.length_cons, List.length_nil]
      rw [Nat.mul_add]
      omega
    · have hx : x ∈ vs := by
        rcases List.mem_cons.mp h with e | e
        · exact absurd e.symm hv
        · exact e
      rw [ih hnd.2 hx, get_set_other m _ hv]
      omega

theorem groupSum_eraseIdx (m : ByValue) (vs : List Nat) (i c : Nat) (h : vs[i]? = some c) :
    groupSum m vs = groupSum m (vs.eraseIdx i) + c * (m.get c).length := by
  induction vs generalizing i with
  | nil => simp at h
  | cons v vs ih =>
    cases i with
    | zero =>
      simp at h
      subst h
      simp [groupSum_cons, Nat.add_comm]
    | succ i =>
      simp at h
      simp only [List.eraseIdx_cons_succ, groupSum_cons]
      rw [ih i h]
      omega

theorem not_mem_eraseIdx_of_nodup (vs : List Nat) (i c : Nat) (hnd : vs.Nodup) (h : vs[i]? = some c) :
    c ∉ vs.eraseIdx i := by
  induction vs generalizing i with
  | nil => simp at h
  | cons v vs ih =>
    rw [List.nodup_cons] at hnd
    cases i with
    | zero =>
      simp at h
      subst h
      simpa using hnd.1
    | succ i =>
      simp at h
      simp only [List.eraseIdx_cons_succ, List.mem_cons, not_or]
      refine ⟨?_, ih i hnd.2 h⟩
      intro e
      subst e
      exact hnd.1 (List.mem_of_getElem? h)

/-! ## findClosestValueIndex -/

/-- What the loop of `findClosestValueIndex` has established after the prefix `pre`. -/
structure ClosestInv (target : Nat) (pre : List Nat) (st : Closest) : Prop where
  init : pre = [] → st = ⟨0, maxU64, false⟩
  below : st.seenGreater = false → ∀ u ∈ pre, u < target
  belowSpec : st.seenGreater = false → pre ≠ [] →
    ∃ v, pre[st.index]? = some v ∧ st.difference = target - v ∧ (∀ u ∈ pre, u ≤ v) ∧
      (∀ j u, j < st.index → pre[j]? = some u → u < v)
  aboveSpec : st.seenGreater = true →
    ∃ v, pre[st.index]? = some v ∧ target ≤ v ∧ st.difference = v - target ∧
      (∀ u ∈ pre, target ≤ u → v ≤ u) ∧
      (∀ j u, j < st.index → pre[j]? = some u → target ≤ u → v < u)

theorem closestInv_init (target : Nat) : ClosestInv target [] ⟨0, maxU64, false⟩ where
  init := fun _ => rfl
  below := by simp
  belowSpec := by simp
  aboveSpec := by simp

theorem getElem?_snoc_lt {pre : List Nat} {x j u : Nat} (h : pre[j]? = some u) :
    (pre ++ [x])[j]? = some u := by
  have hj : j < pre.length := by
    rcases Nat.lt_or_ge j pre.length with h' | h'
    · exact h'
    · rw [List.getElem?_eq_none h'] at h; cases h
  rw [List.getElem?_append_left hj]; exact h

theorem lt_length_of_getElem? {pre : List Nat} {j u : Nat} (h : pre[j]? = some u) : j < pre.length := by
  rcases Nat.lt_or_ge j pre.length with h' | h'
  · exact h'
  · rw [List.getElem?_eq_none h'] at h; cases h

theorem getElem?_snoc_of_lt {pre : List Nat} {x j u : Nat} (hj : j < pre.length)
    (h : (pre ++ [x])[j]? = some u) : pre[j]? = some u := by
  rw [List.getElem?_append_left hj] at h; exact h

theorem getElem?_snoc_len (pre : List Nat) (x : Nat) : (pre ++ [x])[pre.length]? = some x := by
  simp

theorem closestInv_step (target : Nat) (ht : 0 < target) (ht' : target < U64)
    (pre : List Nat) (st : Closest) (x : Nat) (hx : 0 < x ∧ x < U64)
    (inv : ClosestInv target pre st) :
    ClosestInv target (pre ++ [x]) (closestStep target st pre.length x) := by
  have hmax : maxU64 = U64 - 1 := maxU64_eq
  have hne : pre ++ [x] ≠ [] := by simp
  cases hflag : st.seenGreater with
  | true =>
    obtain ⟨v, hv, htv, hd, hmin, hfirst⟩ := inv.aboveSpec hflag
    have hidx := lt_length_of_getElem? hv
    by_cases hxt : x < target
    · -- continue
      have hstep : closestStep target st pre.length x = st := by
        simp [closestStep, hflag, hxt]
      rw [hstep]
      refine ⟨fun h => absurd h hne, (fun h => by rw [hflag] at h; cases h),
        (fun h => by rw [hflag] at h; cases h), fun _ => ?_⟩
      refine ⟨v, getElem?_snoc_lt hv, htv, hd, ?_, ?_⟩
      · intro u hu hut
        rcases List.mem_append.mp hu with hu | hu
        · exact hmin u hu hut
        · simp at hu; omega
      · intro j u hj hju hut
        exact hfirst j u hj (getElem?_snoc_of_lt (by omega) hju) hut
    · by_cases hlt : x - target < st.difference
      · have hstep : closestStep target st pre.length x = ⟨pre.length, x - target, true⟩ := by
          simp [closestStep, hflag, hxt, hlt]
        rw [hstep]
        refine ⟨fun h => absurd h hne, (fun h => by cases h), (fun h => by cases h), fun _ => ?_⟩
        refine ⟨x, getElem?_snoc_len pre x, by omega, rfl, ?_, ?_⟩
        · intro u hu hut
          rcases List.mem_append.mp hu with hu | hu
          · have := hmin u hu hut; omega
          · simp at hu; omega
        · intro j u hj hju hut
          have hju' := getElem?_snoc_of_lt hj hju
          have := hmin u (List.mem_of_getElem? hju') hut
          omega
      · have hstep : closestStep target st pre.length x = ⟨st.index, st.difference, true⟩ := by
          simp [closestStep, hflag, hxt, hlt]
        rw [hstep]
        refine ⟨fun h => absurd h hne, (fun h => by cases h), (fun h => by cases h), fun _ => ?_⟩
        refine ⟨v, getElem?_snoc_lt hv, htv, hd, ?_, ?_⟩
        · intro u hu hut
          rcases List.mem_append.mp hu with hu | hu
          · exact hmin u hu hut
          · simp at hu; omega
        · intro j u hj hju hut
          exact hfirst j u hj (getElem?_snoc_of_lt (by simp at hj; omega) hju) hut
  | false =>
    have hbelow := inv.below hflag
    by_cases hxt : x < target
    · by_cases hpre : pre = []
      · have hst := inv.init hpre
        subst hpre
        have hstep : closestStep target st ([] : List Nat).length x = ⟨0, target - x, false⟩ := by
          have : target - x < maxU64 := by omega
          simp [closestStep, hst, hxt, this]
        rw [hstep]
        refine ⟨fun h => absurd h hne, fun _ => ?_, fun _ _ => ?_, (fun h => by cases h)⟩
        · intro u hu; simp at hu; omega
        · refine ⟨x, by simp, rfl, ?_, ?_⟩
          · intro u hu; simp at hu; omega
          · intro j u hj; simp at hj
      · obtain ⟨v, hv, hd, hmaxv, hfirst⟩ := inv.belowSpec hflag hpre
        have hidx := lt_length_of_getElem? hv
        have hvt : v < target := hbelow v (List.mem_of_getElem? hv)
        by_cases hlt : target - x < st.difference
        · have hstep : closestStep target st pre.length x = ⟨pre.length, target - x, false⟩ := by
            simp [closestStep, hflag, hxt, hlt]
          rw [hstep]
          refine ⟨fun h => absurd h hne, fun _ => ?_, fun _ _ => ?_, (fun h => by cases h)⟩
          · intro u hu
            rcases List.mem_append.mp hu with hu | hu
            · exact hbelow u hu
            · simp at hu; omega
          · refine ⟨x, getElem?_snoc_len pre x, rfl, ?_, ?_⟩
            · intro u hu
              rcases List.mem_append.mp hu with hu | hu
              · have := hmaxv u hu; omega
              · simp at hu; omega
            · intro j u hj hju
              have hju' := getElem?_snoc_of_lt hj hju
              have := hmaxv u (List.mem_of_getElem? hju')
              omega
        · have hstep : closestStep target st pre.length x = st := by
            simp [closestStep, hflag, hxt, hlt]
          rw [hstep]
          refine ⟨fun h => absurd h hne, fun _ => ?_, fun _ _ => ?_, (fun h => by rw [hflag] at h; cases h)⟩
          · intro u hu
            rcases List.mem_append.mp hu with hu | hu
            · exact hbelow u hu
            · simp at hu; omega
          · refine ⟨v, getElem?_snoc_lt hv, hd, ?_, ?_⟩
            · intro u hu
              rcases List.mem_append.mp hu with hu | hu
              · exact hmaxv u hu
              · simp at hu; omega
            · intro j u hj hju
              exact hfirst j u hj (getElem?_snoc_of_lt (by omega) hju)
    · have hstep : closestStep target st pre.length x = ⟨pre.length, x - target, true⟩ := by
        have : x - target < maxU64 := by omega
        simp [closestStep, hflag, hxt, this]
      rw [hstep]
      refine ⟨fun h => absurd h hne, (fun h => by cases h), (fun h => by cases h), fun _ => ?_⟩
      refine ⟨x, getElem?_snoc_len pre x, by omega, rfl, ?_, ?_⟩
      · intro u hu hut
        rcases List.mem_append.mp hu with hu | hu
        · have := hbelow u hu; omega
        · simp at hu; omega
      · intro j u hj hju hut
        have hju' := getElem?_snoc_of_lt hj hju
        have := hbelow u (List.mem_of_getElem? hju')
        omega

theorem closestLoop_inv (target : Nat) (ht : 0 < target) (ht' : target < U64)
    (suf : List Nat) : ∀ (pre : List Nat) (st : Closest), (∀ x ∈ suf, 0 < x ∧ x < U64) →
    ClosestInv target pre st →
    ClosestInv target (pre ++ suf) (closestLoop target pre.length st suf) := by
  induction suf with
  | nil => intro pre st _ inv; simpa [closestLoop] using inv
  | cons x xs ih =>
    intro pre st hx inv
    have h1 := closestInv_step target ht ht' pre st x (hx x (by simp)) inv
    have h2 := ih (pre ++ [x]) _ (fun y hy => hx y (by simp [hy])) h1
    simpa [closestLoop, List.append_assoc] using h2

theorem closest_final (target : Nat) (ht : 0 < target) (ht' : target < U64) (values : List Nat)
    (hv : ∀ x ∈ values, 0 < x ∧ x < U64) :
    ClosestInv target values (closestLoop target 0 ⟨0, maxU64, false⟩ values) := by
  have := closestLoop_inv target ht ht' values [] _ hv (closestInv_init target)
  simpa using this

/-! ## The first loop of GetTransactionInfo -/

/-- Positions of the non-zero values of `l`, numbered from `pos`. -/
def nzPositions : Nat → List Nat → List Nat
  | _, [] => []
  | pos, v :: vs => if v = 0 then nzPositions (pos + 1) vs else pos :: nzPositions (pos + 1) vs

theorem scanLoop_consolidate (rest : List Nat) : ∀ (pos : Nat) (st : Scan),
    (scanLoop true pos st rest).selectedInputs = st.selectedInputs ++ nzPositions pos rest ∧
    (scanLoop true pos st rest).walletBalance = (st.walletBalance + rest.sum) % U64 ∨
    ¬ st.walletBalance < U64 := by
  induction rest with
  | nil =>
    intro pos st
    by_cases h : st.walletBalance < U64
    · left; simp [scanLoop, nzPositions, Nat.mod_eq_of_lt h]
    · right; exact h
  | cons v vs ih =>
    intro pos st
    by_cases h : st.walletBalance < U64
    · left
      by_cases hv : v = 0
      · subst hv
        rcases ih (pos + 1) st with h' | h'
        · simpa [scanLoop, scanStep, nzPositions] using h'
        · exact absurd h h'
      · rcases ih (pos + 1) (scanStep true st pos v) with h' | h'
        · simp only [scanLoop]
          rw [h'.1, h'.2]
          simp [scanStep, hv, nzPositions, add64, List.append_assoc, Nat.add_assoc]
        · exfalso; apply h'
          simp [scanStep, hv]; exact add64_lt _ _
    · right; exact h

theorem mem_nzPositions (l : List Nat) : ∀ (pos p : Nat),
    p ∈ nzPositions pos l ↔ pos ≤ p ∧ ∃ v, l[p - pos]? = some v ∧ v ≠ 0 := by
  induction l with
  | nil => intro pos p; simp [nzPositions]
  | cons x xs ih =>
    intro pos p
    by_cases hx : x = 0
    · simp only [nzPositions, hx, if_true]
      rw [ih]
      constructor
      · rintro ⟨hle, v, hv, hv0⟩
        refine ⟨by omega, v, ?_, hv0⟩
        have : p - pos = (p - (pos + 1)) + 1 := by omega
        rw [this]; simpa using hv
      · rintro ⟨hle, v, hv, hv0⟩
        rcases Nat.eq_or_lt_of_le hle with e | e
        · subst e; simp at hv; omega
        · refine ⟨by omega, v, ?_, hv0⟩
          have : p - pos = (p - (pos + 1)) + 1 := by omega
          rw [this] at hv; simpa using hv
    · simp only [nzPositions, hx, if_false, List.mem_cons]
      rw [ih]
      constructor
      · rintro (e | ⟨hle, v, hv, hv0⟩)
        · subst e; exact ⟨Nat.le_refl _, x, by simp, hx⟩
        · refine ⟨by omega, v, ?_, hv0⟩
          have : p - pos = (p - (pos + 1)) + 1 := by omega
          rw [this]; simpa using hv
      · rintro ⟨hle, v, hv, hv0⟩
        rcases Nat.eq_or_lt_of_le hle with e | e
        · left; exact e.symm
        · right
          refine ⟨by omega, v, ?_, hv0⟩
          have : p - pos = (p - (pos + 1)) + 1 := by omega
          rw [this] at hv; simpa using hv

theorem nzPositions_nodup (l : List Nat) : ∀ pos, (nzPositions pos l).Nodup := by
  induction l with
  | nil => intro pos; simp [nzPositions]
  | cons x xs ih =>
    intro pos
    by_cases hx : x = 0
    · simpa [nzPositions, hx] using ih (pos + 1)
    · simp only [nzPositions, hx, if_false, List.nodup_cons]
      refine ⟨?_, ih (pos + 1)⟩
      intro h
      have := ((mem_nzPositions xs (pos + 1) pos).mp h).1
      omega

/-- Sum of the values found at positions `pos + i` of a list laid out after `pos` earlier entries. -/
theorem sumAt_nzPositions (pre l : List Nat) :
    sumAt (pre ++ l) (nzPositions pre.length l) = l.sum := by
  induction l generalizing pre with
  | nil => simp [nzPositions, sumAt]
  | cons x xs ih =>
    have h := ih (pre ++ [x])
    simp only [List.length_append, List.length_cons, List.length_nil, List.append_assoc,
      List.cons_append, List.nil_append, Nat.zero_add] at h
    by_cases hx : x = 0
    · simp only [nzPositions, hx, if_true, List.sum_cons, Nat.zero_add]
      rw [hx] at h; exact h
    · simp only [nzPositions, hx, if_false, List.sum_cons]
      have : sumAt (pre ++ x :: xs) (pre.length :: nzPositions (pre.length + 1) xs)
          = (pre ++ x :: xs).getD pre.length 0 + sumAt (pre ++ x :: xs) (nzPositions (pre.length + 1) xs) := by
        simp [sumAt]
      rw [this, h]
      simp

/-- Invariant of the first loop in selection mode (no consolidation), after the prefix `pre`. -/
structure ScanInv (pre : List Nat) (st : Scan) : Prop where
  noSel : st.selectedInputs = []
  nodup : st.values.Nodup
  keys : ∀ v, v ∈ st.values ↔ (st.utxosByValue v).isSome
  sound : ∀ v p, p ∈ st.utxosByValue.get v → pre[p]? = some v ∧ v ≠ 0
  groupNodup : ∀ v, (st.utxosByValue.get v).Nodup
  nonempty : ∀ v, v ∈ st.values → st.utxosByValue.get v ≠ []
  total : groupSum st.utxosByValue st.values = pre.sum
  balance : st.walletBalance = pre.sum % U64
  complete : ∀ p v, pre[p]? = some v → v ≠ 0 → v ∈ st.values ∧ p ∈ st.utxosByValue.get v

theorem scanInv_init : ScanInv [] {} where
  noSel := rfl
  nodup := by simp
  keys := by simp
  sound := by simp [ByValue.get]
  groupNodup := by simp [ByValue.get]
  nonempty := by simp
  total := rfl
  balance := by simp
  complete := by simp

theorem get_eq_nil_of_none {m : ByValue} {k : Nat} (h : (m k).isSome = false) : m.get k = [] := by
  unfold ByValue.get
  cases hk : m k with
  | none => rfl
  | some l => rw [hk] at h; cases h

theorem scanInv_step (pre : List Nat) (st : Scan) (x : Nat) (inv : ScanInv pre st) :
    ScanInv (pre ++ [x]) (scanStep false st pre.length x) := by
  by_cases hx : x = 0
  · have hstep : scanStep false st pre.length x = st := by simp [scanStep, hx]
    rw [hstep]
    refine ⟨inv.noSel, inv.nodup, inv.keys, ?_, inv.groupNodup, inv.nonempty, ?_, ?_, ?_⟩
    · intro v p hp
      exact ⟨getElem?_snoc_lt (inv.sound v p hp).1, (inv.sound v p hp).2⟩
    · rw [inv.total]; simp [hx]
    · rw [inv.balance]; simp [hx]
    · intro p v hp hv
      rcases Nat.lt_or_ge p pre.length with hlt | hge
      · exact inv.complete p v (getElem?_snoc_of_lt hlt hp) hv
      · rcases Nat.eq_or_lt_of_le hge with e | e
        · rw [← e, getElem?_snoc_len] at hp
          cases hp; exact absurd hx hv
        · rw [List.getElem?_eq_none (by simp; omega)] at hp; cases hp
  · -- a non-zero output
    have hlen_notin : ∀ v, pre.length ∉ st.utxosByValue.get v := by
      intro v h
      have := lt_length_of_getElem? (inv.sound v _ h).1
      omega
    cases hsome : (st.utxosByValue x).isSome with
    | true =>
      have hmem : x ∈ st.values := (inv.keys x).mpr hsome
      have hstep : scanStep false st pre.length x =
          { st with walletBalance := add64 st.walletBalance x,
                    utxosByValue := st.utxosByValue.set x (st.utxosByValue.get x ++ [pre.length]) } := by
        simp [scanStep, hx, hsome]
      rw [hstep]
      refine ⟨inv.noSel, inv.nodup, ?_, ?_, ?_, ?_, ?_, ?_, ?_⟩
      · intro v
        by_cases hv : v = x
        · subst hv; simp [ByValue.set, hmem]
        · simp only [ByValue.set, hv, if_false]; exact inv.keys v
      · intro v p hp
        by_cases hv : v = x
        · subst hv
          rw [get_set_same] at hp
          rcases List.mem_append.mp hp with hp | hp
          · exact ⟨getElem?_snoc_lt (inv.sound v p hp).1, hx⟩
          · simp at hp; subst hp; exact ⟨getElem?_snoc_len pre v, hx⟩
        · rw [get_set_other _ _ hv] at hp
          exact ⟨getElem?_snoc_lt (inv.sound v p hp).1, (inv.sound v p hp).2⟩
      · intro v
        by_cases hv : v = x
        · subst hv
          rw [get_set_same]
          rw [List.nodup_append]
          refine ⟨inv.groupNodup v, by simp, ?_⟩
          intro a ha b hb
          simp at hb; subst hb
          intro e; subst e; exact hlen_notin v ha
        · rw [get_set_other _ _ hv]; exact inv.groupNodup v
      · intro v hv
        by_cases hvx : v = x
        · subst hvx; rw [get_set_same]; simp
        · rw [get_set_other _ _ hvx]; exact inv.nonempty v hv
      · show groupSum (st.utxosByValue.set x (st.utxosByValue.get x ++ [pre.length])) st.values = _
        rw [groupSum_set_mem _ _ _ _ inv.nodup hmem, inv.total]
        simp [List.sum_append]
      · show add64 st.walletBalance x = _
        rw [inv.balance, add64_mod_left]; simp [List.sum_append]
      · intro p v hp hv
        rcases Nat.lt_or_ge p pre.length with hlt | hge
        · have := inv.complete p v (getElem?_snoc_of_lt hlt hp) hv
          refine ⟨this.1, ?_⟩
          by_cases hvx : v = x
          · subst hvx; rw [get_set_same]; exact List.mem_append_left _ this.2
          · rw [get_set_other _ _ hvx]; exact this.2
        · rcases Nat.eq_or_lt_of_le hge with e | e
          · rw [← e, getElem?_snoc_len] at hp
            cases hp
            refine ⟨hmem, ?_⟩
            rw [get_set_same, ← e]; simp
          · rw [List.getElem?_eq_none (by simp; omega)] at hp; cases hp
    | false =>
      have hnot : x ∉ st.values := fun h => by
        have := (inv.keys x).mp h; rw [hsome] at this; cases this
      have hnil : st.utxosByValue.get x = [] := get_eq_nil_of_none hsome
      have hstep : scanStep false st pre.length x =
          { st with walletBalance := add64 st.walletBalance x,
                    values := st.values ++ [x],
                    utxosByValue := st.utxosByValue.set x [pre.length] } := by
        simp [scanStep, hx, hsome, hnil]
      rw [hstep]
      refine ⟨inv.noSel, ?_, ?_, ?_, ?_, ?_, ?_, ?_, ?_⟩
      · show (st.values ++ [x]).Nodup
        rw [List.nodup_append]
        refine ⟨inv.nodup, by simp, ?_⟩
        intro a ha b hb
        simp at hb; subst hb
        intro e; subst e; exact hnot ha
      · intro v
        show v ∈ st.values ++ [x] ↔ _
        by_cases hv : v = x
        · subst hv; simp [ByValue.set]
        · simp only [ByValue.set, hv, if_false, List.mem_append, List.mem_singleton, or_false]
          exact inv.keys v
      · intro v p hp
        by_cases hv : v = x
        · subst hv
          rw [get_set_same] at hp
          simp at hp; subst hp; exact ⟨getElem?_snoc_len pre v, hx⟩
        · rw [get_set_other _ _ hv] at hp
          exact ⟨getElem?_snoc_lt (inv.sound v p hp).1, (inv.sound v p hp).2⟩
      · intro v
        by_cases hv : v = x
        · subst hv; rw [get_set_same]; simp
        · rw [get_set_other _ _ hv]; exact inv.groupNodup v
      · intro v hv
        by_cases hvx : v = x
        · subst hvx; rw [get_set_same]; simp
        · rw [get_set_other _ _ hvx]
          have hv' : v ∈ st.values := by
            rcases List.mem_append.mp hv with h | h
            · exact h
            · simp at h; exact absurd h hvx
          exact inv.nonempty v hv'
      · show groupSum (st.utxosByValue.set x [pre.length]) (st.values ++ [x]) = _
        rw [groupSum_append, groupSum_set_not_mem _ _ _ _ hnot, inv.total, groupSum_cons, get_set_same]
        simp [groupSum_nil, List.sum_append]
      · show add64 st.walletBalance x = _
        rw [inv.balance, add64_mod_left]; simp [List.sum_append]
      · intro p v hp hv
        show v ∈ st.values ++ [x] ∧ _
        rcases Nat.lt_or_ge p pre.length with hlt | hge
        · have := inv.complete p v (getElem?_snoc_of_lt hlt hp) hv
          refine ⟨List.mem_append_left _ this.1, ?_⟩
          by_cases hvx : v = x
          · subst hvx; exact absurd this.1 hnot
          · rw [get_set_other _ _ hvx]; exact this.2
        · rcases Nat.eq_or_lt_of_le hge with e | e
          · rw [← e, getElem?_snoc_len] at hp
            cases hp
            refine ⟨by simp, ?_⟩
            rw [get_set_same, ← e]; simp
          · rw [List.getElem?_eq_none (by simp; omega)] at hp; cases hp

theorem scanLoop_inv (suf : List Nat) : ∀ (pre : List Nat) (st : Scan), ScanInv pre st →
    ScanInv (pre ++ suf) (scanLoop false pre.length st suf) := by
  induction suf with
  | nil => intro pre st inv; simpa [scanLoop] using inv
  | cons x xs ih =>
    intro pre st inv
    have h2 := ih (pre ++ [x]) _ (scanInv_step pre st x inv)
    simpa [scanLoop, List.append_assoc] using h2

theorem scan_final (vals : List Nat) : ScanInv vals (scanLoop false 0 {} vals) := by
  have := scanLoop_inv vals [] {} scanInv_init
  simpa using this

/-! ## The selection loop -/

theorem takeGroup_spec (target c : Nat) (g : List Nat) : ∀ (iv : Nat) (sel : List Nat) (s : Nat),
    iv = s % U64 →
    ∃ k, k ≤ g.length ∧ takeGroup target c g iv sel = ((s + c * k) % U64, sel ++ g.take k) ∧
      ((s + c * k) % U64 < target → k = g.length) := by
  induction g with
  | nil =>
    intro iv sel s h
    exact ⟨0, Nat.le_refl _, by simp [takeGroup, h], fun _ => rfl⟩
  | cons p ps ih =>
    intro iv sel s h
    by_cases hlt : iv < target
    · obtain ⟨k, hk, heq, hall⟩ := ih (add64 iv c) (sel ++ [p]) (s + c) (by rw [h, add64_mod_left])
      refine ⟨k + 1, by simp; omega, ?_, ?_⟩
      · simp only [takeGroup, hlt, if_true]
        rw [heq]
        have : s + c + c * k = s + c * (k + 1) := by rw [Nat.mul_add]; omega
        simp [this, List.append_assoc]
      · intro h'
        have : s + c + c * k = s + c * (k + 1) := by rw [Nat.mul_add]; omega
        rw [← this] at h'
        simp [hall h']
    · refine ⟨0, Nat.zero_le _, ?_, ?_⟩
      · simp only [takeGroup, hlt, if_false]
        simp [h]
      intro h'
      simp at h'
      rw [← h] at h'
      exact absurd h' hlt

/-- Facts about the grouping that the selection loop relies on. -/
structure Grouped (vals : List Nat) (m : ByValue) : Prop where
  sound : ∀ v p, p ∈ m.get v → vals[p]? = some v ∧ v ≠ 0
  groupNodup : ∀ v, (m.get v).Nodup

/-- Invariant of `for inputsValue < targetValue`. -/
structure LoopInv (vals : List Nat) (m : ByValue) (target : Nat) (vs : List Nat) (iv : Nat)
    (sel : List Nat) : Prop where
  nodup : vs.Nodup
  groups : ∀ v ∈ vs, m.get v ≠ [] ∧ 0 < v ∧ v < U64
  selNodup : sel.Nodup
  selSound : ∀ p ∈ sel, ∃ v, vals[p]? = some v ∧ v ≠ 0 ∧ v ∉ vs
  value : iv = sumAt vals sel % U64
  bound : sumAt vals sel + groupSum m vs ≤ vals.sum
  exact : iv < target → sumAt vals sel + groupSum m vs = vals.sum

/-- What the loop guarantees about its result. -/
structure LoopPost (vals : List Nat) (target : Nat) (iv : Nat) (sel : List Nat) : Prop where
  selNodup : sel.Nodup
  selSound : ∀ p ∈ sel, ∃ v, vals[p]? = some v ∧ v ≠ 0
  value : iv = sumAt vals sel % U64
  bound : sumAt vals sel ≤ vals.sum
  reached : ¬ iv < target

theorem group_le_groupSum (m : ByValue) (vs : List Nat) (c : Nat) (h : c ∈ vs) :
    c * (m.get c).length ≤ groupSum m vs := by
  induction vs with
  | nil => simp at h
  | cons v vs ih =>
    rw [groupSum_cons]
    rcases List.mem_cons.mp h with e | e
    · subst e; omega
    · have := ih e; omega

theorem selectLoop_spec (vals : List Nat) (m : ByValue) (target : Nat) (G : Grouped vals m)
    (ht0 : 0 < target) (ht : target < U64) (hbal : target ≤ vals.sum % U64) :
    ∀ (fuel : Nat) (vs : List Nat) (iv : Nat) (sel : List Nat), fuel = vs.length →
      LoopInv vals m target vs iv sel →
      ∃ iv' sel', selectLoop target m fuel vs iv sel = .done iv' sel' ∧ LoopPost vals target iv' sel' := by
  intro fuel
  induction fuel with
  | zero =>
    intro vs iv sel hf inv
    have hvs : vs = [] := List.eq_nil_of_length_eq_zero hf.symm
    subst hvs
    have hnot : ¬ iv < target := by
      intro h
      have := inv.exact h
      simp [groupSum_nil] at this
      have hv := inv.value
      rw [this] at hv
      omega
    refine ⟨iv, sel, by simp [selectLoop, hnot], ⟨inv.selNodup, ?_, inv.value, ?_, hnot⟩⟩
    · intro p hp
      obtain ⟨v, h1, h2, _⟩ := inv.selSound p hp
      exact ⟨v, h1, h2⟩
    · have := inv.bound; omega
  | succ fuel ih =>
    intro vs iv sel hf inv
    by_cases hlt : iv < target
    · -- another iteration
      have hvsne : vs ≠ [] := by
        intro e; subst e; simp at hf
      have hvals : ∀ x ∈ vs, 0 < x ∧ x < U64 := fun x hx => (inv.groups x hx).2
      have cinv := closest_final target ht0 ht vs hvals
      -- the index is in range
      have hidx : ∃ c, vs[findClosestValueIndex target vs]? = some c := by
        unfold findClosestValueIndex
        cases hflag : (closestLoop target 0 ⟨0, maxU64, false⟩ vs).seenGreater with
        | true => obtain ⟨v, hv, _⟩ := cinv.aboveSpec hflag; exact ⟨v, hv⟩
        | false => obtain ⟨v, hv, _⟩ := cinv.belowSpec hflag hvsne; exact ⟨v, hv⟩
      obtain ⟨c, hc⟩ := hidx
      have hcmem : c ∈ vs := List.mem_of_getElem? hc
      obtain ⟨hgne, hc0, hcU⟩ := inv.groups c hcmem
      have hgle := group_le_groupSum m vs c hcmem
      by_cases hgt : c > target
      · -- break with a single output
        cases hg : m.get c with
        | nil => exact absurd hg hgne
        | cons p ps =>
          have hp : p ∈ m.get c := by rw [hg]; simp
          have hpv := G.sound c p hp
          have hsum : sumAt vals [p] = c := by rw [sumAt_singleton]; exact getD_of_getElem? hpv.1
          refine ⟨c, [p], by simp [selectLoop, hlt, hc, hgt, hg], ⟨by simp, ?_, ?_, ?_, by omega⟩⟩
          · intro q hq; simp at hq; subst hq; exact ⟨c, hpv.1, hpv.2⟩
          · rw [hsum, Nat.mod_eq_of_lt hcU]
          · rw [hsum]
            have hb := inv.bound
            have : 1 ≤ (m.get c).length := by rw [hg]; simp
            have : c ≤ c * (m.get c).length := Nat.le_mul_of_pos_right c this
            omega
      · -- take outputs of the closest value
        obtain ⟨k, hk, heq, hall⟩ := takeGroup_spec target c (m.get c) iv sel (sumAt vals sel) inv.value
        have herase := groupSum_eraseIdx m vs _ c hc
        have hilt := lt_length_of_getElem? hc
        have htake : ∀ q ∈ (m.get c).take k, vals[q]? = some c ∧ c ≠ 0 :=
          fun q hq => G.sound c q (List.mem_of_mem_take hq)
        have hsum : sumAt vals (sel ++ (m.get c).take k) = sumAt vals sel + c * k := by
          rw [sumAt_append, sumAt_const vals c _ (fun q hq => getD_of_getElem? (htake q hq).1)]
          simp [List.length_take, Nat.min_eq_left hk]
        have hcnot := not_mem_eraseIdx_of_nodup vs _ c inv.nodup hc
        have hmul : c * k ≤ c * (m.get c).length := Nat.mul_le_mul_left c hk
        have inv' : LoopInv vals m target (vs.eraseIdx (findClosestValueIndex target vs))
            ((sumAt vals sel + c * k) % U64) (sel ++ (m.get c).take k) := by
          refine ⟨?_, ?_, ?_, ?_, ?_, ?_, ?_⟩
          · exact List.Nodup.sublist (List.eraseIdx_sublist _ _) inv.nodup
          · intro v hv; exact inv.groups v (List.mem_of_mem_eraseIdx hv)
          · rw [List.nodup_append]
            refine ⟨inv.selNodup, List.Nodup.sublist (List.take_sublist _ _) (G.groupNodup c), ?_⟩
            intro a ha b hb e
            subst e
            obtain ⟨v, hv1, _, hv3⟩ := inv.selSound a ha
            have := (htake a hb).1
            rw [hv1] at this
            cases this
            exact hv3 hcmem
          · intro q hq
            rcases List.mem_append.mp hq with hq | hq
            · obtain ⟨v, hv1, hv2, hv3⟩ := inv.selSound q hq
              exact ⟨v, hv1, hv2, fun h => hv3 (List.mem_of_mem_eraseIdx h)⟩
            · exact ⟨c, (htake q hq).1, (htake q hq).2, hcnot⟩
          · rw [hsum]
          · rw [hsum]; have := inv.bound; omega
          · intro h'
            rw [hsum, hall h']
            have := inv.exact hlt
            omega
        have hf' : fuel = (vs.eraseIdx (findClosestValueIndex target vs)).length := by
          rw [List.length_eraseIdx_of_lt hilt]; omega
        obtain ⟨iv', sel', hres, hpost⟩ := ih _ _ _ hf' inv'
        refine ⟨iv', sel', ?_, hpost⟩
        simp only [selectLoop, hlt, if_true, hc, hgt, if_false, heq]
        exact hres
    · refine ⟨iv, sel, by simp [selectLoop, hlt], ⟨inv.selNodup, ?_, inv.value, ?_, hlt⟩⟩
      · intro p hp
        obtain ⟨v, h1, h2, _⟩ := inv.selSound p hp
        exact ⟨v, h1, h2⟩
      · have := inv.bound; omega

/-! ## The whole selection -/

theorem le_sum_of_mem {l : List Nat} {v : Nat} (h : v ∈ l) : v ≤ l.sum := by
  induction l with
  | nil => simp at h
  | cons x xs ih =>
    rw [List.sum_cons]
    rcases List.mem_cons.mp h with e | e
    · omega
    · have := ih e; omega

theorem selectLoop_done_of_not_lt (target : Nat) (m : ByValue) (fuel : Nat) (vs : List Nat) (iv : Nat)
    (sel : List Nat) (h : ¬ iv < target) : selectLoop target m fuel vs iv sel = .done iv sel := by
  cases fuel <;> simp [selectLoop, h]

theorem scan_consolidate (vals : List Nat) :
    (scanLoop true 0 {} vals).selectedInputs = nzPositions 0 vals ∧
    (scanLoop true 0 {} vals).walletBalance = vals.sum % U64 := by
  rcases scanLoop_consolidate vals 0 {} with h | h
  · simpa using h
  · exact absurd U64_pos h

theorem loopPost_consolidate (vals : List Nat) (target : Nat) (h : ¬ vals.sum % U64 < target) :
    LoopPost vals target (vals.sum % U64) (nzPositions 0 vals) := by
  have hs : sumAt vals (nzPositions 0 vals) = vals.sum := by
    have := sumAt_nzPositions [] vals
    simpa using this
  refine ⟨nzPositions_nodup vals 0, ?_, by rw [hs], by rw [hs]; exact Nat.le_refl _, h⟩
  intro p hp
  obtain ⟨_, v, hv, hv0⟩ := (mem_nzPositions vals 0 p).mp hp
  exact ⟨v, by simpa using hv, hv0⟩

/-- Every way `select` can answer, with what is known about the answer. -/
theorem select_cases (vals : List Nat) (amount minFee : Nat) (consolidate : Bool)
    (hU : ∀ v ∈ vals, v < U64) :
    (vals.sum % U64 < add64 amount minFee ∧ select vals amount minFee consolidate = .insufficient) ∨
    (¬ vals.sum % U64 < add64 amount minFee ∧ ∃ iv sel,
      select vals amount minFee consolidate = .ok (sub64 iv (add64 amount minFee)) sel ∧
      LoopPost vals (add64 amount minFee) iv sel ∧
      (consolidate = true → sel = nzPositions 0 vals ∧ iv = vals.sum % U64)) := by
  cases consolidate with
  | true =>
    obtain ⟨hsel, hbal⟩ := scan_consolidate vals
    by_cases h : vals.sum % U64 < add64 amount minFee
    · left; refine ⟨h, ?_⟩
      simp [select, hbal, h]
    · right; refine ⟨h, vals.sum % U64, nzPositions 0 vals, ?_, loopPost_consolidate vals _ h, fun _ => ⟨rfl, rfl⟩⟩
      simp [select, hbal, hsel, h]
  | false =>
    have inv := scan_final vals
    by_cases h : vals.sum % U64 < add64 amount minFee
    · left; refine ⟨h, ?_⟩
      simp [select, inv.balance, h]
    · right; refine ⟨h, ?_⟩
      have hT : add64 amount minFee < U64 := add64_lt _ _
      by_cases hlen : (scanLoop false 0 {} vals).values.length = 0
      · -- nothing of value is held
        have hnil : (scanLoop false 0 {} vals).values = [] := List.eq_nil_of_length_eq_zero hlen
        have htot := inv.total
        rw [hnil, groupSum_nil] at htot
        refine ⟨0, [], ?_, ⟨by simp, by simp, by simp [sumAt], by simp [sumAt], ?_⟩, fun h => by cases h⟩
        · simp [select, inv.balance, h, hlen, inv.noSel]
        · rw [← htot] at h; simpa using h
      · by_cases ht0 : 0 < add64 amount minFee
        · have G : Grouped vals (scanLoop false 0 {} vals).utxosByValue := ⟨inv.sound, inv.groupNodup⟩
          have linv : LoopInv vals (scanLoop false 0 {} vals).utxosByValue (add64 amount minFee)
              (scanLoop false 0 {} vals).values 0 [] := by
            refine ⟨inv.nodup, ?_, by simp, by simp, by simp [sumAt], ?_, ?_⟩
            · intro v hv
              have hne := inv.nonempty v hv
              refine ⟨hne, ?_, ?_⟩
              · cases hg : (scanLoop false 0 {} vals).utxosByValue.get v with
                | nil => exact absurd hg hne
                | cons p ps =>
                  have := (inv.sound v p (by rw [hg]; simp)).2
                  omega
              · cases hg : (scanLoop false 0 {} vals).utxosByValue.get v with
                | nil => exact absurd hg hne
                | cons p ps =>
                  have := (inv.sound v p (by rw [hg]; simp)).1
                  exact hU v (List.mem_of_getElem? this)
            · rw [inv.total]; simp [sumAt]
            · intro _; rw [inv.total]; simp [sumAt]
          obtain ⟨iv, sel, hres, hpost⟩ := selectLoop_spec vals _ _ G ht0 hT (by omega) _ _ 0 [] rfl linv
          refine ⟨iv, sel, ?_, hpost, fun h => by cases h⟩
          simp only [select, inv.balance, h, if_false, inv.noSel]
          simp [hlen, hres]
        · have hz : add64 amount minFee = 0 := by omega
          refine ⟨0, [], ?_, ⟨by simp, by simp, by simp [sumAt], by simp [sumAt], by omega⟩, fun h => by cases h⟩
          simp only [select, inv.balance, h, if_false, inv.noSel]
          rw [selectLoop_done_of_not_lt _ _ _ _ _ _ (by omega)]
          simp [hlen]

/-- When one output alone covers the target, the first iteration settles the selection with it. -/
theorem select_single (vals : List Nat) (amount minFee : Nat) (hU : ∀ v ∈ vals, v < U64)
    (ht0 : 0 < add64 amount minFee)
    (hone : ∃ (p v : Nat), vals[p]? = some v ∧ add64 amount minFee ≤ v) :
    (vals.sum % U64 < add64 amount minFee ∧ select vals amount minFee false = .insufficient) ∨
    ∃ (p v : Nat), vals[p]? = some v ∧ add64 amount minFee ≤ v ∧
      (∀ (q u : Nat), vals[q]? = some u → add64 amount minFee ≤ u → v ≤ u) ∧
      select vals amount minFee false = .ok (sub64 v (add64 amount minFee)) [p] := by
  have inv := scan_final vals
  by_cases h : vals.sum % U64 < add64 amount minFee
  · left; exact ⟨h, by simp [select, inv.balance, h]⟩
  · right
    have hT : add64 amount minFee < U64 := add64_lt _ _
    obtain ⟨p0, v0, hp0, hv0⟩ := hone
    have hv0ne : v0 ≠ 0 := by omega
    have hmem0 := (inv.complete p0 v0 hp0 hv0ne).1
    have hvals : ∀ x ∈ (scanLoop false 0 {} vals).values, 0 < x ∧ x < U64 := by
      intro v hv
      have hne := inv.nonempty v hv
      cases hg : (scanLoop false 0 {} vals).utxosByValue.get v with
      | nil => exact absurd hg hne
      | cons p ps =>
        have hs := inv.sound v p (by rw [hg]; simp)
        exact ⟨by have := hs.2; omega, hU v (List.mem_of_getElem? hs.1)⟩
    have cinv := closest_final _ ht0 hT _ hvals
    have hflag : (closestLoop (add64 amount minFee) 0 ⟨0, maxU64, false⟩
        (scanLoop false 0 {} vals).values).seenGreater = true := by
      cases hf : (closestLoop (add64 amount minFee) 0 ⟨0, maxU64, false⟩
          (scanLoop false 0 {} vals).values).seenGreater with
      | true => rfl
      | false => have := cinv.below hf v0 hmem0; omega
    obtain ⟨c, hc, htc, _, hmin, _⟩ := cinv.aboveSpec hflag
    have hcmem : c ∈ (scanLoop false 0 {} vals).values := List.mem_of_getElem? hc
    have hgne := inv.nonempty c hcmem
    have hcU := (hvals c hcmem).2
    have hlen : (scanLoop false 0 {} vals).values.length ≠ 0 := by
      intro e; rw [List.eq_nil_of_length_eq_zero e] at hcmem; simp at hcmem
    obtain ⟨n, hn⟩ : ∃ n, (scanLoop false 0 {} vals).values.length = n + 1 :=
      ⟨_, (Nat.succ_pred_eq_of_pos (Nat.pos_of_ne_zero hlen)).symm⟩
    have hc' : (scanLoop false 0 {} vals).values[findClosestValueIndex (add64 amount minFee)
        (scanLoop false 0 {} vals).values]? = some c := hc
    cases hg : (scanLoop false 0 {} vals).utxosByValue.get c with
    | nil => exact absurd hg hgne
    | cons p ps =>
      have hs := inv.sound c p (by rw [hg]; simp)
      refine ⟨p, c, hs.1, htc, ?_, ?_⟩
      · intro q u hq hu
        have : u ∈ (scanLoop false 0 {} vals).values := (inv.complete q u hq (by omega)).1
        exact hmin u this hu
      · simp only [select, inv.balance, h, if_false, inv.noSel, hn]
        by_cases hgt : c > add64 amount minFee
        · simp [selectLoop, ht0, hc', hgt, hg]
        · have hceq : c = add64 amount minFee := by omega
          have htake : takeGroup (add64 amount minFee) c (p :: ps) 0 [] = (c, [p]) := by
            have h1 : add64 0 c = c := by rw [add64_eq_of_lt (by omega)]; omega
            cases ps with
            | nil => simp [takeGroup, ht0, h1]
            | cons q qs =>
              have : ¬ c < add64 amount minFee := by omega
              simp [takeGroup, ht0, h1, this]
          have : ¬ c < add64 amount minFee := by omega
          simp [selectLoop, ht0, hc', hgt, hg, htake, selectLoop_done_of_not_lt _ _ _ _ _ _ this]

theorem sum64_aux (l : List Nat) : ∀ acc, l.foldl add64 (acc % U64) = (acc + l.sum) % U64 := by
  induction l with
  | nil => intro acc; simp
  | cons x xs ih =>
    intro acc
    simp only [List.foldl_cons, List.sum_cons]
    rw [add64_mod_left, ih, Nat.add_assoc]

theorem sum64_eq (l : List Nat) : sum64 l = l.sum % U64 := by
  have := sum64_aux l 0
  simpa [sum64] using this

theorem sumChecked_aux (l : List Nat) : ∀ a, a + l.sum < U64 →
    l.foldl checkedAdd (some a) = some (a + l.sum) := by
  induction l with
  | nil => intro a _; simp
  | cons x xs ih =>
    intro a h
    simp only [List.sum_cons] at h
    have hx : add64 a x = a + x := add64_eq_of_lt (by omega)
    have hstep : checkedAdd (some a) x = some (a + x) := by
      have hnot : ¬ a + x < a := by omega
      simp [checkedAdd, hx, hnot]
    rw [List.foldl_cons, hstep, ih (a + x) (by omega), List.sum_cons, Nat.add_assoc]

theorem sumChecked_eq {l : List Nat} (h : l.sum < U64) : sumChecked l = some l.sum := by
  have := sumChecked_aux l 0 (by omega)
  simpa [sumChecked] using this

/-! ## Hypotheses and small facts used by the property theorems -/

/-- The explicit no-overflow hypothesis: the wallet's holdings and the requested total fit a `uint64`. -/
def NoOverflow (vals : List Nat) (amount minFee : Nat) : Prop :=
  vals.sum < U64 ∧ amount + minFee < U64

theorem NoOverflow.values_lt {vals : List Nat} {amount minFee : Nat} (h : NoOverflow vals amount minFee) :
    ∀ v ∈ vals, v < U64 := fun _ hv => Nat.lt_of_le_of_lt (le_sum_of_mem hv) h.1

theorem any_listed {ι : Type} [DecidableEq ι] (searched : ι × Nat) (listed : List (ι × Nat)) :
    listed.any (fun u => decide (u.1 = searched.1) && decide (u.2 = searched.2)) = true ↔
      searched ∈ listed := by
  rw [List.any_eq_true]
  constructor
  · rintro ⟨u, hu, h⟩
    simp at h
    have : u = searched := Prod.ext h.1 h.2
    rw [← this]; exact hu
  · intro h; exact ⟨searched, h, by simp⟩

theorem any_mem {ι : Type} [DecidableEq ι] (t : ι) (l : List ι) :
    l.any (fun x => decide (x = t)) = true ↔ t ∈ l := by
  rw [List.any_eq_true]
  constructor
  · rintro ⟨u, hu, h⟩; simp at h; rw [← h]; exact hu
  · intro h; exact ⟨t, h, by simp⟩

/-- "The transaction is in the first block of the answer to `GetBlocks(h)`" — false when the answer is
an empty list (the validator has no block at that height yet). -/
def InFirstBlock {ι : Type} (t : ι) (blocks : List (List ι)) : Prop :=
  ∃ block, blocks.head? = some block ∧ t ∈ block

theorem inFirstBlock_iff {ι : Type} [DecidableEq ι] (t : ι) (blocks : List (List ι)) :
    inFirstBlock t blocks = true ↔ InFirstBlock t blocks := by
  cases blocks with
  | nil => simp [InFirstBlock, inFirstBlock]
  | cons block more =>
    simp only [InFirstBlock, inFirstBlock, List.head?_cons, Option.some.injEq, exists_eq_left']
    exact any_mem t block

end Wallet
