/-
Property theorems for C18 (coin selection) and C19 (balance and progress views).

Reading guide.  `vals : List Nat` is the validator's listing for the wallet's address, valued at the
timestamp the controller uses (next block time for C18, query time for C19's balance); an output is
named by its position in that listing.  `select vals amount minFee consolidate` is what
`GetTransactionInfo` answers after its validator calls succeeded (`amount = uint64(parsedValue)`).
`sumAt vals inputs` is the total value of the listed outputs at the positions `inputs`.
-/
import Wallet.Lemmas

namespace Wallet

/-! ## C18 -/

/-- Refusal (405, nothing listed) exactly when the wallet cannot afford amount + minimal fee. -/
theorem C18_405_iff (vals : List Nat) (amount minFee : Nat) (consolidate : Bool)
    (h : NoOverflow vals amount minFee) :
    (select vals amount minFee consolidate = .insufficient ↔ vals.sum < amount + minFee) ∧
    ((select vals amount minFee consolidate).status = 405 ↔ vals.sum < amount + minFee) ∧
    (vals.sum < amount + minFee → ∀ rest inputs, select vals amount minFee consolidate ≠ .ok rest inputs) := by
  have hb : vals.sum % U64 = vals.sum := Nat.mod_eq_of_lt h.1
  have ht : add64 amount minFee = amount + minFee := add64_eq_of_lt h.2
  rcases select_cases vals amount minFee consolidate h.values_lt with ⟨hlt, hs⟩ | ⟨hge, iv, sel, hs, _, _⟩
  · rw [hb, ht] at hlt
    refine ⟨by simp [hs, hlt], by simp [hs, hlt, Answer.status], ?_⟩
    intro _ rest inputs; rw [hs]; intro e; cases e
  · rw [hb, ht] at hge
    refine ⟨by simp [hs, hge], by simp [hs, hge, Answer.status], ?_⟩
    intro hlt; exact absurd hlt hge

/-- The loop terminates and no slice index is ever out of range — for ALL uint64 inputs, wrap-around
included: `select` never answers `panic` and the fuel `len(values)` always suffices. -/
theorem C18_terminates (vals : List Nat) (amount minFee : Nat) (consolidate : Bool)
    (hU : ∀ v ∈ vals, v < U64) :
    select vals amount minFee consolidate ≠ .panic ∧ select vals amount minFee consolidate ≠ .outOfFuel ∧
    (select vals amount minFee consolidate = .insufficient ∨
      ∃ rest inputs, select vals amount minFee consolidate = .ok rest inputs) := by
  rcases select_cases vals amount minFee consolidate hU with ⟨_, hs⟩ | ⟨_, iv, sel, hs, _, _⟩
  · rw [hs]; exact ⟨(by intro e; cases e), (by intro e; cases e), Or.inl rfl⟩
  · rw [hs]; exact ⟨(by intro e; cases e), (by intro e; cases e), Or.inr ⟨_, _, rfl⟩⟩

/-- The selected outputs are pairwise distinct positions of the listing (for all uint64 inputs). -/
theorem C18_distinct (vals : List Nat) (amount minFee : Nat) (consolidate : Bool)
    (hU : ∀ v ∈ vals, v < U64) (rest : Nat) (inputs : List Nat)
    (hs : select vals amount minFee consolidate = .ok rest inputs) : inputs.Nodup := by
  rcases select_cases vals amount minFee consolidate hU with ⟨_, hs'⟩ | ⟨_, iv, sel, hs', post, _⟩
  · rw [hs'] at hs; cases hs
  · rw [hs'] at hs; cases hs; exact post.selNodup

/-- Corollary: if the validator lists no reference twice, no reference is selected twice. -/
theorem C18_distinct_refs {α : Type} (refs : List α) (hrefs : refs.Nodup) (vals : List Nat)
    (hlen : refs.length = vals.length) (amount minFee : Nat) (consolidate : Bool)
    (hU : ∀ v ∈ vals, v < U64) (rest : Nat) (inputs : List Nat)
    (hs : select vals amount minFee consolidate = .ok rest inputs) :
    (inputs.map (fun p => refs[p]?)).Nodup ∧ ∀ p ∈ inputs, ∃ r, refs[p]? = some r := by
  have hnd := C18_distinct vals amount minFee consolidate hU rest inputs hs
  have hin : ∀ p ∈ inputs, p < refs.length := by
    intro p hp
    rcases select_cases vals amount minFee consolidate hU with ⟨_, hs'⟩ | ⟨_, iv, sel, hs', post, _⟩
    · rw [hs'] at hs; cases hs
    · rw [hs'] at hs; cases hs
      obtain ⟨v, hv, _⟩ := post.selSound p hp
      rw [hlen]; exact lt_length_of_getElem? hv
  refine ⟨?_, fun p hp => ⟨refs[p]'(hin p hp), List.getElem?_eq_getElem (hin p hp)⟩⟩
  unfold List.Nodup
  rw [List.pairwise_map]
  refine List.Pairwise.imp_of_mem ?_ hnd
  intro p q hp hq hne e
  rw [List.getElem?_eq_getElem (hin p hp), List.getElem?_eq_getElem (hin q hq)] at e
  exact hne ((List.getElem_inj hrefs).mp (Option.some.inj e))

/-- Every selected entry is one of the listed outputs and is worth something at the next block time. -/
theorem C18_nonzero_spendable (vals : List Nat) (amount minFee : Nat) (consolidate : Bool)
    (hU : ∀ v ∈ vals, v < U64) (rest : Nat) (inputs : List Nat)
    (hs : select vals amount minFee consolidate = .ok rest inputs) :
    ∀ p ∈ inputs, ∃ v, vals[p]? = some v ∧ v ≠ 0 := by
  rcases select_cases vals amount minFee consolidate hU with ⟨_, hs'⟩ | ⟨_, iv, sel, hs', post, _⟩
  · rw [hs'] at hs; cases hs
  · rw [hs'] at hs; cases hs; exact post.selSound

/-- Σ selected values = amount + minimal fee + stated rest. -/
theorem C18_sum (vals : List Nat) (amount minFee : Nat) (consolidate : Bool)
    (h : NoOverflow vals amount minFee) (rest : Nat) (inputs : List Nat)
    (hs : select vals amount minFee consolidate = .ok rest inputs) :
    sumAt vals inputs = amount + minFee + rest := by
  have ht : add64 amount minFee = amount + minFee := add64_eq_of_lt h.2
  rcases select_cases vals amount minFee consolidate h.values_lt with ⟨_, hs'⟩ | ⟨_, iv, sel, hs', post, _⟩
  · rw [hs'] at hs; cases hs
  · rw [hs'] at hs; cases hs
    have hlt : sumAt vals inputs < U64 := Nat.lt_of_le_of_lt post.bound h.1
    have hiv : iv = sumAt vals inputs := by rw [post.value, Nat.mod_eq_of_lt hlt]
    have hre := post.reached
    rw [ht] at hre ⊢
    rw [sub64_eq_of_le (by omega) (by omega)]
    omega

/-- With consolidation every output of non-zero value is selected (exactly those, in listing order). -/
theorem C18_all_when_consolidating (vals : List Nat) (amount minFee : Nat)
    (hU : ∀ v ∈ vals, v < U64) (rest : Nat) (inputs : List Nat)
    (hs : select vals amount minFee true = .ok rest inputs) :
    inputs = nzPositions 0 vals ∧ ∀ (p v : Nat), vals[p]? = some v → v ≠ 0 → p ∈ inputs := by
  rcases select_cases vals amount minFee true hU with ⟨_, hs'⟩ | ⟨_, iv, sel, hs', _, hc⟩
  · rw [hs'] at hs; cases hs
  · rw [hs'] at hs; cases hs
    refine ⟨(hc rfl).1, ?_⟩
    intro p v hv hv0
    rw [(hc rfl).1, mem_nzPositions]
    exact ⟨Nat.zero_le _, v, by simpa using hv, hv0⟩

/-- Without consolidation, when some single output is worth at least amount + minimal fee (equality
included), exactly one output is selected: the least-valued such output. -/
theorem C18_single_when_one_suffices (vals : List Nat) (amount minFee : Nat)
    (h : NoOverflow vals amount minFee) (hpos : 0 < amount + minFee)
    (hone : ∃ (p v : Nat), vals[p]? = some v ∧ amount + minFee ≤ v) (rest : Nat) (inputs : List Nat)
    (hs : select vals amount minFee false = .ok rest inputs) :
    ∃ (p v : Nat), inputs = [p] ∧ vals[p]? = some v ∧ amount + minFee ≤ v ∧ rest = v - (amount + minFee) ∧
      ∀ (q u : Nat), vals[q]? = some u → amount + minFee ≤ u → v ≤ u := by
  have ht : add64 amount minFee = amount + minFee := add64_eq_of_lt h.2
  rcases select_single vals amount minFee h.values_lt (by omega) (by rw [ht]; exact hone) with
    ⟨_, hs'⟩ | ⟨p, v, hv, hle, hmin, hs'⟩
  · rw [hs'] at hs; cases hs
  · rw [hs'] at hs; cases hs
    rw [ht] at hle hmin ⊢
    have hvU : v < U64 := h.values_lt v (List.mem_of_getElem? hv)
    exact ⟨p, v, rfl, hv, hle, sub64_eq_of_le hle hvU, hmin⟩

/-- What `findClosestValueIndex` returns on the loop's inputs (non-zero uint64 values, target > 0):
a valid index; if some value reaches the target, the FIRST occurrence of the LEAST value ≥ target;
otherwise the first occurrence of the greatest value. -/
theorem C18_closest_spec (target : Nat) (values : List Nat) (ht0 : 0 < target) (ht : target < U64)
    (hv : ∀ x ∈ values, 0 < x ∧ x < U64) (hne : values ≠ []) :
    ∃ c, values[findClosestValueIndex target values]? = some c ∧
      ((∃ u ∈ values, target ≤ u) →
        target ≤ c ∧ (∀ u ∈ values, target ≤ u → c ≤ u) ∧
        ∀ (j u : Nat), j < findClosestValueIndex target values → values[j]? = some u → target ≤ u → c < u) ∧
      ((∀ u ∈ values, u < target) →
        (∀ u ∈ values, u ≤ c) ∧
        ∀ (j u : Nat), j < findClosestValueIndex target values → values[j]? = some u → u < c) := by
  have cinv := closest_final target ht0 ht values hv
  unfold findClosestValueIndex
  cases hflag : (closestLoop target 0 ⟨0, maxU64, false⟩ values).seenGreater with
  | true =>
    obtain ⟨c, hc, htc, _, hmin, hfirst⟩ := cinv.aboveSpec hflag
    refine ⟨c, hc, fun _ => ⟨htc, hmin, hfirst⟩, fun hall => ?_⟩
    have := hall c (List.mem_of_getElem? hc); omega
  | false =>
    obtain ⟨c, hc, _, hmax, hfirst⟩ := cinv.belowSpec hflag hne
    refine ⟨c, hc, fun ⟨u, hu, hut⟩ => ?_, fun _ => ⟨hmax, hfirst⟩⟩
    have := cinv.below hflag u hu; omega

/-- The transaction built from the answer (inputs = the selected outputs at their next-block values,
outputs = [amount → recipient, rest → sender]) passes `CalculateFee`'s checks (no overflow of either sum,
fee not negative, fee not below the minimum) with a fee of exactly the minimal fee. -/
theorem C18_fee_rule (vals : List Nat) (amount minFee : Nat) (consolidate : Bool)
    (h : NoOverflow vals amount minFee) (rest : Nat) (inputs : List Nat)
    (hs : select vals amount minFee consolidate = .ok rest inputs) :
    calculateFee (inputs.map (fun p => vals.getD p 0)) [amount, rest] minFee = .ok minFee := by
  have hsum := C18_sum vals amount minFee consolidate h rest inputs hs
  have hbound : sumAt vals inputs ≤ vals.sum := by
    rcases select_cases vals amount minFee consolidate h.values_lt with ⟨_, hs'⟩ | ⟨_, iv, sel, hs', post, _⟩
    · rw [hs'] at hs; cases hs
    · rw [hs'] at hs; cases hs; exact post.bound
  have hin : sumChecked (inputs.map (fun p => vals.getD p 0)) = some (amount + minFee + rest) := by
    have hlt : (inputs.map (fun p => vals.getD p 0)).sum < U64 := Nat.lt_of_le_of_lt hbound h.1
    rw [sumChecked_eq hlt]
    show some (sumAt vals inputs) = _
    rw [hsum]
  have hout : sumChecked [amount, rest] = some (amount + rest) := by
    have hs2 : [amount, rest].sum = amount + rest := by simp
    have hlt : [amount, rest].sum < U64 := by
      rw [hs2]; have := h.1; omega
    rw [sumChecked_eq hlt, hs2]
  unfold calculateFee
  rw [hin, hout]
  have h1 : ¬ amount + minFee + rest < amount + rest := by omega
  have h2 : amount + minFee + rest - (amount + rest) = minFee := by omega
  simp [h1, h2]

/-- The time at which the access node values the outputs is the validator's next block time whenever
its clock lies in the interval after the validator's last block (block `k`): then
`nextBlockHeight = k + 1`, and the answer's timestamp `now` is inside the pool's admission window. -/
theorem C18_fee_rule_time (genesis interval now k : Int) (hI : 0 < interval) (hk : 0 ≤ k)
    (h1 : genesis + k * interval ≤ now) (h2 : now < genesis + k * interval + interval) :
    currentBlockHeight genesis interval now = k ∧
    nextBlockTimestamp genesis interval now = (genesis + k * interval) + interval ∧
    (genesis + k * interval ≤ now ∧ now ≤ (genesis + k * interval) + interval) := by
  have hnn : 0 ≤ now - genesis := by
    have : 0 ≤ k * interval := Int.mul_nonneg hk (Int.le_of_lt hI)
    omega
  have hdiv : (now - genesis) / interval = k := by
    have := (Int.ediv_emod_unique (a := now - genesis) (b := interval)
      (r := now - genesis - k * interval) (q := k) hI).mpr
      ⟨by rw [Int.mul_comm]; omega, by omega, by omega⟩
    exact this.1
  have hcur : currentBlockHeight genesis interval now = k := by
    unfold currentBlockHeight
    rw [Int.tdiv_eq_ediv_of_nonneg hnn, hdiv]
  refine ⟨hcur, ?_, h1, by omega⟩
  unfold nextBlockTimestamp nextBlockHeight
  unfold currentBlockHeight at hcur
  rw [hcur, Int.add_mul]
  omega

/-- Beyond the no-overflow hypothesis the controller answers exactly as for the wrapped target
`(amount + minFee) mod 2^64` (e.g. a negative `value` parameter becomes a huge `uint64`). -/
theorem C18_wraps_to_target (vals : List Nat) (amount minFee : Nat) (consolidate : Bool) :
    select vals amount minFee consolidate = select vals (add64 amount minFee) 0 consolidate := by
  have : add64 (add64 amount minFee) 0 = add64 amount minFee := by
    unfold add64; simp
  simp [select, this]

/-! ### C18: non-vacuity and concrete behaviour -/

-- holdings 5,3,10,0,3 ; fee 1
example : select [5, 3, 10, 0, 3] 7 1 false = .ok 2 [2] := by decide          -- one suffices (10 > 8)
example : select [5, 3, 10, 0, 3] 9 1 false = .ok 0 [2] := by decide          -- boundary 10 = 10: still one
example : select [5, 3, 10, 0, 3] 10 1 false = .ok 4 [2, 0] := by decide      -- greatest first
example : select [5, 3, 10, 0, 3] 20 1 false = .ok 0 [2, 0, 1, 4] := by decide -- whole balance
example : select [5, 3, 10, 0, 3] 21 1 false = .insufficient := by decide
example : select [5, 3, 10, 0, 3] 2 1 true = .ok 18 [0, 1, 2, 4] := by decide  -- consolidation skips the 0
example : select [5, 3, 3, 3] 7 1 false = .ok 0 [0, 1] := by decide            -- equal values share a group
example : select [] 0 1 false = .insufficient := by decide
example : NoOverflow [5, 3, 10, 0, 3] 7 1 := by unfold NoOverflow; decide
example : sumAt [5, 3, 10, 0, 3] [2, 0] = 10 + 1 + 4 := by decide
example : calculateFee [10, 5] [10, 4] 1 = .ok 1 := by decide
example : calculateFee [10, 5] [10, 5] 1 = .tooLow := by decide
example : calculateFee [10, 5] [10, 6] 1 = .negative := by decide
example : calculateFee [U64 - 1, 5] [1] 1 = .overflow := by decide
example : findClosestValueIndex 8 [5, 3, 10, 9, 12] = 3 := by decide
example : findClosestValueIndex 8 [5, 3, 7] = 2 := by decide
-- the quirky reset: a nearer smaller value seen first does not win against a later greater one
example : findClosestValueIndex 8 [7, 100] = 1 := by decide
-- amount 0 is served: a zero-valued output to the recipient
example : select [5] 0 1 false = .ok 4 [0] := by decide
-- rest 0 is served: a zero-valued output back to the sender
example : select [5] 4 1 false = .ok 0 [0] := by decide
-- beyond no-overflow: value = -1 arrives as 2^64-1; with fee 1000 the target wraps to 999
example : select [5000] (U64 - 1) 1000 false = .ok 4001 [0] := by decide
-- beyond no-overflow: holdings summing to 2^64 look like an empty wallet
example : select [U64 / 2, U64 / 2] 7 1 false = .insufficient := by decide
example : nextBlockTimestamp 1000 60 1130 = 1180 := by decide
example : currentBlockHeight 1000 60 1130 = 2 := by decide

/-! ## C19 -/

/-- The reported balance is the sum of the listed outputs' values at query time (divided by the unit
size by a trusted float division); error mapping of the amount endpoint. -/
theorem C19_balance (vals : List Nat) :
    walletAmount false (.ok vals) = (200, some (vals.sum % U64)) ∧
    (vals.sum < U64 → walletAmount false (.ok vals) = (200, some vals.sum)) ∧
    (∀ r, walletAmount true r = (400, none)) ∧
    walletAmount false .error = (500, none) ∧ walletAmount false .garbage = (500, none) := by
  refine ⟨by simp [walletAmount, sum64_eq], ?_, by intro r; simp [walletAmount], rfl, rfl⟩
  intro h; simp [walletAmount, sum64_eq, Nat.mod_eq_of_lt h]

/-- The progress cascade as a decision table (request decodes, listing obtained, interval ≠ 0).
Note the two quirks of the code: a failed `GetFirstBlockTimestamp` only matters when the output is
not listed, and the block consulted is the first one of `GetBlocks(h)` for the height `h` derived
from the access node's own clock; when the validator has no such block yet the cascade carries on
with the pool. -/
theorem C19_progress {ι : Type} [DecidableEq ι] (searched : ι × Nat) (listed : List (ι × Nat))
    (genesis : Option Int) (now interval : Int) (getBlocks : Nat → Reply (List (List ι)))
    (transactions : Reply (List ι)) (hI : interval ≠ 0) :
    let ans := transactionProgress (.value searched) (.ok listed) genesis now interval getBlocks transactions
    let h := currentBlockHeight (genesis.getD 0) interval now
    let ts := genesis.getD 0 + h * interval
    (searched ∈ listed → ans = .ok .confirmed ts) ∧
    (searched ∉ listed → genesis = none → ans = .serverError) ∧
    (searched ∉ listed → genesis ≠ none →
      match getBlocks (toU64 h) with
      | .ok blocks =>
        (InFirstBlock searched.1 blocks → ans = .ok .validated ts) ∧
        (¬ InFirstBlock searched.1 blocks →
          match transactions with
          | .ok pool => (searched.1 ∈ pool → ans = .ok .sent ts) ∧ (searched.1 ∉ pool → ans = .ok .rejected ts)
          | .error => ans = .serverError
          | .garbage => ans = .serverError)
      | .error => ans = .serverError
      | .garbage => ans = .serverError) := by
  intro ans h ts
  refine ⟨?_, ?_, ?_⟩
  · intro hl
    have := (any_listed searched listed).mpr hl
    simp only [ans, transactionProgress, hI, if_false, this, if_true]
    rfl
  · intro hl hg
    have : ¬ (listed.any (fun u => decide (u.1 = searched.1) && decide (u.2 = searched.2)) = true) :=
      fun e => hl ((any_listed searched listed).mp e)
    simp only [ans, transactionProgress, hI, if_false, this, hg]
    rfl
  · intro hl hg
    have hnl : ¬ (listed.any (fun u => decide (u.1 = searched.1) && decide (u.2 = searched.2)) = true) :=
      fun e => hl ((any_listed searched listed).mp e)
    have hsome : genesis.isNone = false := by
      cases genesis with
      | none => exact absurd rfl hg
      | some g => rfl
    have hans : ans =
        match getBlocks (toU64 h) with
        | .error => .serverError
        | .garbage => .serverError
        | .ok blocks =>
          if inFirstBlock searched.1 blocks then .ok .validated ts
          else
            match transactions with
            | .error => .serverError
            | .garbage => .serverError
            | .ok pool =>
              if pool.any (fun t => decide (t = searched.1)) then .ok .sent ts
              else .ok .rejected ts := by
      simp only [ans, transactionProgress, hI, if_false, hnl, hsome]
      rfl
    rw [hans]
    cases hb : getBlocks (toU64 h) with
    | error => rfl
    | garbage => rfl
    | ok blocks =>
      simp only
      have hiff := inFirstBlock_iff searched.1 blocks
      refine ⟨?_, ?_⟩
      · intro hin
        rw [if_pos (hiff.mpr hin)]
      · intro hnin
        have hnb : ¬ (inFirstBlock searched.1 blocks = true) := fun e => hnin (hiff.mp e)
        rw [if_neg hnb]
        cases htx : transactions with
        | error => rfl
        | garbage => rfl
        | ok pool =>
          simp only
          refine ⟨?_, ?_⟩
          · intro hp
            rw [if_pos ((any_mem searched.1 pool).mpr hp)]
          · intro hp
            have hnp : ¬ (pool.any (fun t => decide (t = searched.1)) = true) :=
              fun e => hp ((any_mem searched.1 pool).mp e)
            rw [if_neg hnp]

/-- The cascade as an iff-chain when no validator call fails (whether or not the validator already has
a block at the height derived from the access node's clock). -/
theorem C19_progress_iff {ι : Type} [DecidableEq ι] (searched : ι × Nat) (listed : List (ι × Nat))
    (g now interval : Int) (getBlocks : Nat → Reply (List (List ι))) (blocks : List (List ι))
    (pool : List ι) (hI : interval ≠ 0)
    (hb : getBlocks (toU64 (currentBlockHeight g interval now)) = .ok blocks) :
    let ans := transactionProgress (.value searched) (.ok listed) (some g) now interval getBlocks (.ok pool)
    let ts := g + currentBlockHeight g interval now * interval
    (ans = .ok .confirmed ts ↔ searched ∈ listed) ∧
    (ans = .ok .validated ts ↔ searched ∉ listed ∧ InFirstBlock searched.1 blocks) ∧
    (ans = .ok .sent ts ↔ searched ∉ listed ∧ ¬ InFirstBlock searched.1 blocks ∧ searched.1 ∈ pool) ∧
    (ans = .ok .rejected ts ↔ searched ∉ listed ∧ ¬ InFirstBlock searched.1 blocks ∧ searched.1 ∉ pool) ∧
    ans.status = 200 := by
  intro ans ts
  have T := C19_progress searched listed (some g) now interval getBlocks (.ok pool) hI
  simp only [Option.getD_some] at T
  obtain ⟨T1, _, T3⟩ := T
  by_cases hl : searched ∈ listed
  · have h' : ans = .ok .confirmed ts := T1 hl
    rw [h']
    simp [hl, ProgressAnswer.status]
  · have T3' := T3 hl (by simp)
    rw [hb] at T3'
    simp only at T3'
    by_cases hbk : InFirstBlock searched.1 blocks
    · have h' : ans = .ok .validated ts := T3'.1 hbk
      rw [h']
      simp [hl, hbk, ProgressAnswer.status]
    · have T4 := T3'.2 hbk
      by_cases hp : searched.1 ∈ pool
      · have h' : ans = .ok .sent ts := T4.1 hp
        rw [h']
        simp [hl, hbk, hp, ProgressAnswer.status]
      · have h' : ans = .ok .rejected ts := T4.2 hp
        rw [h']
        simp [hl, hbk, hp, ProgressAnswer.status]

/-- `GetBlocks(h)[0]` is the validator's block at height `h` — when it has one; otherwise the list is
empty (and the progress view goes on to the pool). -/
theorem C19_progress_block_at_height {β : Type} (chain : List β) (limit h : Nat) :
    (h < chain.length → 0 < limit → (blocksFrom chain limit h).head? = chain[h]?) ∧
    (chain.length ≤ h → blocksFrom chain limit h = []) := by
  refine ⟨?_, ?_⟩
  · intro hh hl
    have h1 : ¬ chain.length = 0 := by omega
    have h2 : ¬ h > chain.length - 1 := by omega
    have h3 : ¬ limit = 0 := by omega
    unfold blocksFrom
    by_cases h4 : h + limit < chain.length
    · simp [h1, h2, h3, h4, List.head?_take, List.head?_drop]
    · simp [h1, h2, h3, h4, List.head?_drop]
  · intro hh
    unfold blocksFrom
    by_cases h1 : chain.length = 0
    · simp [h1]
    · have h2 : h > chain.length - 1 := by omega
      simp [h2]

/-- Request-level outcomes: undecodable body ⇒ 400; `null` body ⇒ 400; listing error or undecodable
listing ⇒ 500. -/
theorem C19_progress_errors {ι : Type} [DecidableEq ι] (searched : ι × Nat)
    (utxos : Reply (List (ι × Nat))) (genesis : Option Int) (now interval : Int)
    (getBlocks : Nat → Reply (List (List ι))) (transactions : Reply (List ι)) :
    transactionProgress .error utxos genesis now interval getBlocks transactions = .badRequest ∧
    transactionProgress .null utxos genesis now interval getBlocks transactions = .badRequest ∧
    transactionProgress (.value searched) .error genesis now interval getBlocks transactions = .serverError ∧
    transactionProgress (.value searched) .garbage genesis now interval getBlocks transactions = .serverError :=
  ⟨rfl, rfl, rfl, rfl⟩

/-- An unlisted output whose transaction waits in the pool is reported 'sent' whatever the validator's
chain length — in particular while the access node's clock has entered the next interval before the
validator produced that block (formerly answered 500; repaired in the code). -/
theorem C19_progress_sent (searched : Nat × Nat) (listed : List (Nat × Nat)) (g now interval : Int)
    (chain : List (List Nat)) (limit : Nat) (pool : List Nat) (hI : interval ≠ 0) (hl : 0 < limit)
    (hnl : searched ∉ listed)
    (hnb : ∀ block, chain[toU64 (currentBlockHeight g interval now)]? = some block → searched.1 ∉ block)
    (hp : searched.1 ∈ pool) :
    ∃ ts, transactionProgress (.value searched) (.ok listed) (some g) now interval
      (fun h => .ok (blocksFrom chain limit h)) (.ok pool) = .ok .sent ts := by
  have hnot : ¬ InFirstBlock searched.1 (blocksFrom chain limit (toU64 (currentBlockHeight g interval now))) := by
    rintro ⟨block, hhead, hin⟩
    rcases Nat.lt_or_ge (toU64 (currentBlockHeight g interval now)) chain.length with hlt | hge
    · rw [(C19_progress_block_at_height chain limit _).1 hlt hl] at hhead
      exact hnb block hhead hin
    · rw [(C19_progress_block_at_height chain limit _).2 hge] at hhead
      cases hhead
  have T := (C19_progress_iff searched listed g now interval
    (fun h => .ok (blocksFrom chain limit h)) _ pool hI rfl).2.2.1
  exact ⟨_, T.mpr ⟨hnl, hnot, hp⟩⟩

/-! ### C19: non-vacuity -/

example : walletAmount false (.ok [5, 0, 7]) = (200, some 12) := by decide
example : transactionProgress (.value ((7, 1) : Nat × Nat)) (.ok [(7, 1)]) none 1070 60
    (fun _ => .error) .error = .ok .confirmed 1020 := by decide      -- listed wins over every later error
example : transactionProgress (.value ((7, 1) : Nat × Nat)) (.ok [(7, 0)]) none 1070 60
    (fun _ => .error) .error = .serverError := by decide
example : transactionProgress (.value ((7, 1) : Nat × Nat)) (.ok []) (some 1000) 1070 60
    (fun h => .ok (blocksFrom [[1], [2, 7]] 100 h)) (.ok []) = .ok .validated 1060 := by decide
example : transactionProgress (.value ((7, 1) : Nat × Nat)) (.ok []) (some 1000) 1070 60
    (fun h => .ok (blocksFrom [[1], [2]] 100 h)) (.ok [7]) = .ok .sent 1060 := by decide
example : transactionProgress (.value ((7, 1) : Nat × Nat)) (.ok []) (some 1000) 1070 60
    (fun h => .ok (blocksFrom [[1], [2]] 100 h)) (.ok [8]) = .ok .rejected 1060 := by decide
-- the former counterexample (genesis 1000, interval 60, two blocks, clock 1125, transaction in the pool): now 'sent'
example : transactionProgress (.value ((7, 1) : Nat × Nat)) (.ok []) (some 1000) 1125 60
    (fun h => .ok (blocksFrom [[1], [2]] 100 h)) (.ok [7]) = .ok .sent 1120 := by decide
example : transactionProgress (.value ((7, 1) : Nat × Nat)) (.ok []) (some 1000) 1125 60
    (fun h => .ok (blocksFrom [[1], [2]] 100 h)) (.ok []) = .ok .rejected 1120 := by decide
-- a clock that lags one interval behind looks at the older block: an included transaction reads 'rejected'
example : transactionProgress (.value ((7, 1) : Nat × Nat)) (.ok []) (some 1000) 1059 60
    (fun h => .ok (blocksFrom [[1], [2, 7]] 100 h)) (.ok []) = .ok .rejected 1000 := by decide
example : blocksFrom [10, 11, 12, 13] 2 1 = [11, 12] := by decide
example : blocksFrom [10, 11, 12, 13] 2 4 = [] := by decide

end Wallet
