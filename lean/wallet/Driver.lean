/-
walletdriver: line protocol over stdin/stdout around `Wallet.Model` (core Lean only).
One request per line, one answer per line, flushed.

  times <genesis> <interval> <now>
      -> <nextBlockTimestamp> <currentBlockHeight> <currentBlockTimestamp>
  info <addrEmpty> <valueOk> <consOk> <utxosReply> <genesisOk> <value:int> <minFee> <cons> <n> v1 … vn
      -> 400 | 500 | 405 | 200 <rest> <k> p1 … pk | panic | fuel
  amount <addrEmpty> <utxosReply> <n> v1 … vn
      -> 400 | 500 | 200 <balance>
  progress <body> <utxosReply> <genesisOk> <blocksReply> <poolReply> <genesis> <now> <interval> <limit>
           <txid> <index> <nl> (txid index)* <nc> (<k> txid*)* <np> txid*
      -> 400 | 500 | panic | 200 <label> <currentBlockTimestamp>
  replies: 0 ok, 1 error, 2 undecodable; blocksReply 3 = an empty list (no block at that height: the pool is consulted); body: 0 undecodable, 1 null (answered 400), 2 value
-/
import Wallet.Model
open Wallet

def reply {β : Type} (code : Nat) (b : β) : Reply β :=
  match code with
  | 0 => .ok b
  | 1 => .error
  | _ => .garbage

def natList (l : List String) : List Nat := l.map String.toNat!

def showAnswer : Answer → String
  | .badRequest => "400"
  | .serverError => "500"
  | .insufficient => "405"
  | .ok rest inputs => s!"200 {rest} {inputs.length}" ++ String.join (inputs.map (fun p => s!" {p}"))
  | .panic => "panic"
  | .outOfFuel => "fuel"

def showProgress : ProgressAnswer → String
  | .badRequest => "400"
  | .serverError => "500"
  | .ok p ts => s!"200 {p.label} {ts}"
  | .panic => "panic"

/-- take `n` pairs (txid index) from the token stream -/
def takePairs : Nat → List String → List (String × Nat) × List String
  | 0, ts => ([], ts)
  | n + 1, t :: i :: ts => let (ps, r) := takePairs n ts; ((t, i.toNat!) :: ps, r)
  | _, ts => ([], ts)

/-- take `n` blocks, each `<k> id*` -/
def takeBlocks : Nat → List String → List (List String) × List String
  | 0, ts => ([], ts)
  | n + 1, k :: ts =>
    let kk := k.toNat!
    let (bs, r) := takeBlocks n (ts.drop kk)
    (ts.take kk :: bs, r)
  | _, ts => ([], ts)

def handle (line : String) : String :=
  match (line.splitOn " ").filter (· ≠ "") with
  | ["times", g, i, n] =>
    let g := g.toInt!; let i := i.toInt!; let n := n.toInt!
    if i = 0 then "panic" else
    s!"{nextBlockTimestamp g i n} {currentBlockHeight g i n} {currentBlockTimestamp g i n}"
  | "info" :: a :: v :: c :: u :: g :: value :: minFee :: cons :: _n :: vals =>
    let parsedValue : Option Int := if v == "1" then some value.toInt! else none
    let parsedCons : Option Bool := if c == "1" then some (cons == "1") else none
    showAnswer (getTransactionInfo (a == "1") parsedValue parsedCons (reply u.toNat! (natList vals))
      (g == "1") minFee.toNat!)
  | "amount" :: a :: u :: _n :: vals =>
    match walletAmount (a == "1") (reply u.toNat! (natList vals)) with
    | (_, some b) => s!"200 {b}"
    | (s, none) => s!"{s}"
  | "progress" :: d :: u :: g :: b :: t :: genesis :: now :: interval :: limit :: tx :: idx :: nl :: rest =>
    let (listed, rest) := takePairs nl.toNat! rest
    match rest with
    | nc :: rest =>
      let (chain, rest) := takeBlocks nc.toNat! rest
      match rest with
      | _np :: pool =>
        let body : Decoded (String × Nat) :=
          if d == "0" then .error else if d == "1" then .null else .value (tx, idx.toNat!)
        let genesisOpt : Option Int := if g == "1" then some genesis.toInt! else none
        let getBlocks : Nat → Reply (List (List String)) := fun h =>
          match b.toNat! with
          | 0 => .ok (blocksFrom chain limit.toNat! h)
          | 1 => .error
          | 2 => .garbage
          | _ => .ok []
        showProgress (transactionProgress body (reply u.toNat! listed) genesisOpt now.toInt! interval.toInt!
          getBlocks (reply t.toNat! pool))
      | _ => "bad-request"
    | _ => "bad-request"
  | _ => "bad-request"

partial def loop (stdin stdout : IO.FS.Stream) : IO Unit := do
  let line ← stdin.getLine
  if line.isEmpty then return
  let line := (line.replace "\n" "").replace "\r" ""
  if line ≠ "" then
    stdout.putStrLn (handle line)
    stdout.flush
  loop stdin stdout

def main : IO Unit := do
  let stdin ← IO.getStdin
  let stdout ← IO.getStdout
  loop stdin stdout
