/-
Axiom audit for C09, property theorems only — used by engines/decay.py when the rfl tie to the
regenerated definitions is broken (Audit.lean, which also audits the tie theorems, cannot elaborate then).
Allowed: propext, Classical.choice, Quot.sound.
-/
import Decay.Props

#print axioms C09_f_le_init
#print axioms C09_f_antitone
#print axioms C09_f_half
#print axioms C09_k1_pos
#print axioms C09_k1_pos_iff
#print axioms C09_k1_lt_three
#print axioms C09_k2_pos
#print axioms C09_g_low_zero
#print axioms C09_value_zero_elapsed
#print axioms C09_g_low_bounds
#print axioms C09_g_low_lt_limit
#print axioms C09_g_low_mono
#print axioms C09_g_from_zero_half_life
#print axioms C09_g_high_bounds
#print axioms C09_g_high_antitone
#print axioms C09_g_eq_limit
#print axioms C09_flow_law_low
#print axioms C09_flow_law_high_f
#print axioms C09_flow_law
#print axioms C09_no_gain_f
#print axioms C09_no_gain_g
#print axioms C09_no_gain
#print axioms C09_elapsed_only
