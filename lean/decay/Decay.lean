-- Root of the `Decay` library (C09: decay and income valuation).
import Decay.Model
import Decay.Gen
import Decay.Tie
import Decay.Lemmas
import Decay.Props
