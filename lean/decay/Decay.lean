-- This module serves as the root of the `Decay` library.
-- Import modules here that should be built as part of the library.
import Decay.Basic
