/-
Helper lemmas for the C09 property theorems (Decay/Props.lean).
-/
import Mathlib.Algebra.Order.Floor.Semifield
import Decay.Model

namespace Model

open Real

/-! ### Unfolding the model -/

theorem f_eq (y : ℕ) (h x : ℝ) : f y h x = ⌊F (y : ℝ) h x⌋₊ := rfl

theorem g_low_eq {y L : ℕ} (hy : y < L) (h : ℝ) (B : ℕ) (x : ℝ) :
    g y h B L x =
      ⌊((⌊-(L : ℝ) * Elow (L : ℝ) (k1 B L) (k2 B L (k1 B L)) h (y : ℝ) x⌋ : ℤ) : ℝ) + (L : ℝ)⌋₊ := by
  unfold g
  simp only [hy, if_true]
  rfl

theorem g_high_eq {y L : ℕ} (hy : L < y) (h : ℝ) (B : ℕ) (x : ℝ) :
    g y h B L x =
      ⌊((⌊((y : ℝ) - (L : ℝ)) * Real.exp (-x * Real.log 2 / h)⌋ : ℤ) : ℝ) + (L : ℝ)⌋₊ := by
  unfold g
  simp only [not_lt.mpr hy.le, hy, if_true, if_false]

theorem g_eq_eq (L : ℕ) (h : ℝ) (B : ℕ) (x : ℝ) : g L h B L x = L := by
  unfold g
  simp only [lt_irrefl, if_false]

theorem value_eq_of_ne {c n : ℤ} (hne : n ≠ c) (y : ℕ) (yl : Bool) (h : ℝ) (B L : ℕ) :
    value y yl c n h B L =
      if yl = true then g y h B L (((n - c : ℤ) : ℝ)) else f y h (((n - c : ℤ) : ℝ)) := by
  unfold value
  simp only [hne, if_false]

theorem value_same (y : ℕ) (yl : Bool) (c : ℤ) (h : ℝ) (B L : ℕ) : value y yl c c h B L = y := by
  unfold value
  simp only [if_true]

/-! ### Floors -/

/-- `r ↦ ⌊⌊r⌋ + l⌋₊` is monotone. -/
theorem lift_mono {r r' : ℝ} (l : ℝ) (hr : r ≤ r') :
    ⌊((⌊r⌋ : ℤ) : ℝ) + l⌋₊ ≤ ⌊((⌊r'⌋ : ℤ) : ℝ) + l⌋₊ := by
  apply Nat.floor_mono
  have : ((⌊r⌋ : ℤ) : ℝ) ≤ ((⌊r'⌋ : ℤ) : ℝ) := by exact_mod_cast Int.floor_mono hr
  linarith

/-- lower bound of a lifted floor: an integer `a − L ≤ r` gives `a ≤ ⌊⌊r⌋ + L⌋₊`. -/
theorem le_lift {a L : ℕ} {r : ℝ} (hr : (a : ℝ) - (L : ℝ) ≤ r) :
    a ≤ ⌊((⌊r⌋ : ℤ) : ℝ) + (L : ℝ)⌋₊ := by
  apply Nat.le_floor
  have h1 : ((a : ℤ) - (L : ℤ) : ℤ) ≤ ⌊r⌋ := by
    apply Int.le_floor.mpr
    push_cast
    exact hr
  have h2 : (((a : ℤ) - (L : ℤ) : ℤ) : ℝ) ≤ ((⌊r⌋ : ℤ) : ℝ) := by exact_mod_cast h1
  push_cast at h2
  linarith

/-- real-valued form of `le_lift`. -/
theorem le_lift_real {a L : ℕ} {r : ℝ} (hr : (a : ℝ) - (L : ℝ) ≤ r) :
    (a : ℝ) ≤ ((⌊r⌋ : ℤ) : ℝ) + (L : ℝ) := by
  have h1 : ((a : ℤ) - (L : ℤ) : ℤ) ≤ ⌊r⌋ := by
    apply Int.le_floor.mpr
    push_cast
    exact hr
  have h2 : (((a : ℤ) - (L : ℤ) : ℤ) : ℝ) ≤ ((⌊r⌋ : ℤ) : ℝ) := by exact_mod_cast h1
  push_cast at h2
  linarith

/-- upper bound of a lifted floor: `r ≤ a − L` gives `⌊⌊r⌋ + L⌋₊ ≤ a`. -/
theorem lift_le {a L : ℕ} {r : ℝ} (hr : r ≤ (a : ℝ) - (L : ℝ)) :
    ⌊((⌊r⌋ : ℤ) : ℝ) + (L : ℝ)⌋₊ ≤ a := by
  apply Nat.floor_le_of_le
  have := Int.floor_le r
  linarith

/-- the lifted floor, as a real, is at most `r + L` when it is non-negative. -/
theorem lift_le_real {L : ℕ} {r : ℝ} (h0 : 0 ≤ ((⌊r⌋ : ℤ) : ℝ) + (L : ℝ)) :
    ((⌊((⌊r⌋ : ℤ) : ℝ) + (L : ℝ)⌋₊ : ℕ) : ℝ) ≤ r + (L : ℝ) := by
  have h1 := Nat.floor_le h0
  have h2 := Int.floor_le r
  linarith

/-- the lifted floor of an integer point is exact. -/
theorem lift_int {a L : ℕ} {r : ℝ} (hr : r = (a : ℝ) - (L : ℝ)) :
    ⌊((⌊r⌋ : ℤ) : ℝ) + (L : ℝ)⌋₊ = a := by
  have h1 : r = (((a : ℤ) - (L : ℤ) : ℤ) : ℝ) := by push_cast; exact hr
  rw [h1, Int.floor_intCast]
  push_cast
  have : (a : ℝ) - (L : ℝ) + (L : ℝ) = (a : ℝ) := by ring
  rw [this, Nat.floor_natCast]

/-! ### The constants `k1`, `k2` -/

theorem nat_sq_lt_cube {B L : ℕ} (hB : 0 < B) (hBL : B < L) : (2 * B) ^ 2 < L ^ 3 := by
  obtain ⟨d, rfl⟩ : ∃ d, L = B + 1 + d := ⟨L - (B + 1), by omega⟩
  obtain ⟨b, rfl⟩ : ∃ b, B = b + 1 := ⟨B - 1, by omega⟩
  ring_nf
  nlinarith [Nat.zero_le b, Nat.zero_le d, Nat.zero_le (b * b), Nat.zero_le (b * d),
    Nat.zero_le (d * d), Nat.zero_le (b * b * b), Nat.zero_le (b * b * d), Nat.zero_le (b * d * d),
    Nat.zero_le (d * d * d)]

theorem log_limit_pos {B L : ℕ} (hB : 0 < B) (hBL : B < L) : 0 < Real.log (L : ℝ) := by
  apply Real.log_pos
  have : (2 : ℕ) ≤ L := by omega
  have : (2 : ℝ) ≤ (L : ℝ) := by exact_mod_cast this
  linarith

theorem k1_eq {B L : ℕ} (hBL : B < L) :
    k1 B L = 3 - 2 * Real.log (2 * (B : ℝ)) / Real.log (L : ℝ) := by
  unfold k1
  simp only [gt_iff_lt, hBL, if_true]

/-- the exact condition for `k1 > 0` (given `0 < B < L`): `(2B)² < L³`, i.e. `2B < L^{3/2}`. -/
theorem k1_pos_iff {B L : ℕ} (hB : 0 < B) (hBL : B < L) :
    0 < k1 B L ↔ (2 * B) ^ 2 < L ^ 3 := by
  have hlogL := log_limit_pos hB hBL
  have hBr : (0 : ℝ) < 2 * (B : ℝ) := by positivity
  have hLr : (0 : ℝ) < (L : ℝ) := by exact_mod_cast (lt_trans hB hBL)
  rw [k1_eq hBL, sub_pos, div_lt_iff₀ hlogL]
  have e1 : 2 * Real.log (2 * (B : ℝ)) = Real.log ((2 * (B : ℝ)) ^ 2) := by
    rw [Real.log_pow]; push_cast; ring
  have e2 : 3 * Real.log (L : ℝ) = Real.log ((L : ℝ) ^ 3) := by
    rw [Real.log_pow]; push_cast; ring
  rw [e1, e2, Real.log_lt_log_iff (by positivity) (by positivity)]
  constructor
  · intro hlt; exact_mod_cast hlt
  · intro hlt; exact_mod_cast hlt

theorem k1_pos {B L : ℕ} (hB : 0 < B) (hBL : B < L) : 0 < k1 B L :=
  (k1_pos_iff hB hBL).mpr (nat_sq_lt_cube hB hBL)

theorem k1_lt_three {B L : ℕ} (hB : 0 < B) (hBL : B < L) : k1 B L < 3 := by
  have hlogL := log_limit_pos hB hBL
  rw [k1_eq hBL]
  have : 0 < Real.log (2 * (B : ℝ)) := by
    apply Real.log_pos
    have : (1 : ℝ) ≤ (B : ℝ) := by exact_mod_cast hB
    linarith
  have : 0 < 2 * Real.log (2 * (B : ℝ)) / Real.log (L : ℝ) := by positivity
  linarith

/-- `cB = −ln(1 − B/L) > 0`. -/
theorem cB_pos {B L : ℕ} (hB : 0 < B) (hBL : B < L) : 0 < -Real.log (1 - (B : ℝ) / (L : ℝ)) := by
  have hLr : (0 : ℝ) < (L : ℝ) := by exact_mod_cast (lt_trans hB hBL)
  have hBr : (0 : ℝ) < (B : ℝ) := by exact_mod_cast hB
  have hBLr : (B : ℝ) < (L : ℝ) := by exact_mod_cast hBL
  have h1 : (B : ℝ) / (L : ℝ) < 1 := by rw [div_lt_one hLr]; exact hBLr
  have h2 : 0 < (B : ℝ) / (L : ℝ) := by positivity
  have := Real.log_neg (by linarith : 0 < 1 - (B : ℝ) / (L : ℝ)) (by linarith)
  linarith

theorem k2_eq {B L : ℕ} (hBL : B < L) (k : ℝ) :
    k2 B L k = Real.log 2 / (-Real.log (1 - (B : ℝ) / (L : ℝ))) ^ (1 / k) := by
  unfold k2
  simp only [gt_iff_lt, hBL, if_true]

theorem k2_pos {B L : ℕ} (hB : 0 < B) (hBL : B < L) (k : ℝ) : 0 < k2 B L k := by
  rw [k2_eq hBL]
  have := Real.rpow_pos_of_pos (cB_pos hB hBL) (1 / k)
  have := Real.log_pos (by norm_num : (1 : ℝ) < 2)
  positivity

/-! ### The decay factor `exp(−x·ln2/h)` -/

theorem log_two_pos : 0 < Real.log 2 := Real.log_pos (by norm_num)

theorem decay_arg_nonpos {h x : ℝ} (hh : 0 < h) (hx : 0 ≤ x) : -x * Real.log 2 / h ≤ 0 := by
  have := log_two_pos
  have : 0 ≤ x * Real.log 2 / h := by positivity
  have e : -x * Real.log 2 / h = -(x * Real.log 2 / h) := by ring
  rw [e]; linarith

theorem decay_le_one {h x : ℝ} (hh : 0 < h) (hx : 0 ≤ x) : Real.exp (-x * Real.log 2 / h) ≤ 1 := by
  rw [← Real.exp_zero]
  exact Real.exp_le_exp.mpr (decay_arg_nonpos hh hx)

theorem decay_antitone {h x₁ x₂ : ℝ} (hh : 0 < h) (hx : x₁ ≤ x₂) :
    Real.exp (-x₂ * Real.log 2 / h) ≤ Real.exp (-x₁ * Real.log 2 / h) := by
  apply Real.exp_le_exp.mpr
  have := log_two_pos
  have h1 : x₁ * Real.log 2 / h ≤ x₂ * Real.log 2 / h := by
    apply div_le_div_of_nonneg_right _ hh.le
    exact mul_le_mul_of_nonneg_right hx this.le
  have e1 : -x₁ * Real.log 2 / h = -(x₁ * Real.log 2 / h) := by ring
  have e2 : -x₂ * Real.log 2 / h = -(x₂ * Real.log 2 / h) := by ring
  rw [e1, e2]; linarith

theorem decay_add (h x₁ x₂ : ℝ) :
    Real.exp (-(x₁ + x₂) * Real.log 2 / h) =
      Real.exp (-x₁ * Real.log 2 / h) * Real.exp (-x₂ * Real.log 2 / h) := by
  rw [← Real.exp_add]; congr 1; ring

theorem decay_half {h : ℝ} (hh : 0 < h) : Real.exp (-h * Real.log 2 / h) = 1 / 2 := by
  have e : -h * Real.log 2 / h = -Real.log 2 := by field_simp
  rw [e, Real.exp_neg, Real.exp_log (by norm_num)]; norm_num

/-! ### The low branch -/

/-- `c(y) = −ln((l−y)/l) ≥ 0` for `0 ≤ y < l`. -/
theorem c_nonneg {l y : ℝ} (hy0 : 0 ≤ y) (hyl : y < l) : 0 ≤ -Real.log ((l - y) / l) := by
  have hl : 0 < l := lt_of_le_of_lt hy0 hyl
  have h1 : (l - y) / l ≤ 1 := by rw [div_le_one hl]; linarith
  have h0 : 0 ≤ (l - y) / l := div_nonneg (by linarith) hl.le
  have := Real.log_nonpos h0 h1
  linarith

theorem age_nonneg {l k y : ℝ} (hy0 : 0 ≤ y) (hyl : y < l) : 0 ≤ age l k y :=
  Real.rpow_nonneg (c_nonneg hy0 hyl) _

/-- `age(y)^k = −ln((l−y)/l)`. -/
theorem age_rpow {l k y : ℝ} (hk : 0 < k) (hy0 : 0 ≤ y) (hyl : y < l) :
    (age l k y) ^ k = -Real.log ((l - y) / l) := by
  unfold age
  rw [← Real.rpow_mul (c_nonneg hy0 hyl), one_div, inv_mul_cancel₀ hk.ne', Real.rpow_one]

theorem age_zero {l k : ℝ} (hl : 0 < l) (hk : 0 < k) : age l k 0 = 0 := by
  unfold age
  have : (l - 0) / l = 1 := by rw [sub_zero]; exact div_self hl.ne'
  rw [this, Real.log_one, neg_zero, Real.zero_rpow]
  exact (one_div_pos.mpr hk).ne'

theorem age_mono {l k y y' : ℝ} (hk : 0 < k) (hy0 : 0 ≤ y) (hyy : y ≤ y') (hyl : y' < l) :
    age l k y ≤ age l k y' := by
  unfold age
  have hl : 0 < l := lt_of_le_of_lt (hy0.trans hyy) hyl
  apply Real.rpow_le_rpow (c_nonneg hy0 (lt_of_le_of_lt hyy hyl)) _ (one_div_pos.mpr hk).le
  have h1 : (l - y') / l ≤ (l - y) / l := by
    apply div_le_div_of_nonneg_right _ hl.le; linarith
  have h0 : 0 < (l - y') / l := div_pos (by linarith) hl
  have := Real.log_le_log h0 h1
  linarith

/-- the scaled time `x·ln2/(k2·h)` is non-negative. -/
theorem stime_nonneg {k2 h x : ℝ} (hk2 : 0 < k2) (hh : 0 < h) (hx : 0 ≤ x) :
    0 ≤ x * Real.log 2 / (k2 * h) := by
  have := log_two_pos
  positivity

theorem stime_mono {k2 h x₁ x₂ : ℝ} (hk2 : 0 < k2) (hh : 0 < h) (hx : x₁ ≤ x₂) :
    x₁ * Real.log 2 / (k2 * h) ≤ x₂ * Real.log 2 / (k2 * h) := by
  have := log_two_pos
  apply div_le_div_of_nonneg_right _ (by positivity)
  exact mul_le_mul_of_nonneg_right hx this.le

theorem Elow_pos (l k1 k2 h y x : ℝ) : 0 < Elow l k1 k2 h y x := Real.exp_pos _

/-- `Elow ≤ (l−y)/l`: the un-floored low branch never falls below `y`. -/
theorem Elow_le {l k1 k2 h y x : ℝ} (hk1 : 0 < k1) (hk2 : 0 < k2) (hh : 0 < h) (hx : 0 ≤ x)
    (hy0 : 0 ≤ y) (hyl : y < l) : Elow l k1 k2 h y x ≤ (l - y) / l := by
  have hl : 0 < l := lt_of_le_of_lt hy0 hyl
  have hpos : 0 < (l - y) / l := div_pos (by linarith) hl
  have hA := age_nonneg (k := k1) hy0 hyl
  have hs := stime_nonneg hk2 hh hx
  have h1 : (age l k1 y) ^ k1 ≤ (x * Real.log 2 / (k2 * h) + age l k1 y) ^ k1 :=
    Real.rpow_le_rpow hA (by linarith) hk1.le
  rw [age_rpow hk1 hy0 hyl] at h1
  unfold Elow
  calc Real.exp (-(x * Real.log 2 / (k2 * h) + age l k1 y) ^ k1)
      ≤ Real.exp (Real.log ((l - y) / l)) := Real.exp_le_exp.mpr (by linarith)
    _ = (l - y) / l := Real.exp_log hpos

/-- at `x = 0`: `Elow = (l−y)/l`. -/
theorem Elow_zero {l k1 k2 h y : ℝ} (hk1 : 0 < k1) (hy0 : 0 ≤ y) (hyl : y < l) :
    Elow l k1 k2 h y 0 = (l - y) / l := by
  have hl : 0 < l := lt_of_le_of_lt hy0 hyl
  have hpos : 0 < (l - y) / l := div_pos (by linarith) hl
  unfold Elow
  rw [zero_mul, zero_div, zero_add, age_rpow hk1 hy0 hyl, neg_neg, Real.exp_log hpos]

/-- `Elow` is antitone in elapsed time. -/
theorem Elow_antitone_x {l k1 k2 h y x₁ x₂ : ℝ} (hk1 : 0 < k1) (hk2 : 0 < k2) (hh : 0 < h)
    (hx0 : 0 ≤ x₁) (hx : x₁ ≤ x₂) (hy0 : 0 ≤ y) (hyl : y < l) :
    Elow l k1 k2 h y x₂ ≤ Elow l k1 k2 h y x₁ := by
  have hA := age_nonneg (k := k1) hy0 hyl
  have hs := stime_nonneg hk2 hh hx0
  have hm := stime_mono hk2 hh hx
  unfold Elow
  apply Real.exp_le_exp.mpr
  have := Real.rpow_le_rpow (by linarith : 0 ≤ x₁ * Real.log 2 / (k2 * h) + age l k1 y)
    (by linarith : x₁ * Real.log 2 / (k2 * h) + age l k1 y ≤ x₂ * Real.log 2 / (k2 * h) + age l k1 y)
    hk1.le
  linarith

/-- `Elow` is antitone in the amount. -/
theorem Elow_antitone_y {l k1 k2 h y y' x : ℝ} (hk1 : 0 < k1) (hk2 : 0 < k2) (hh : 0 < h)
    (hx0 : 0 ≤ x) (hy0 : 0 ≤ y) (hyy : y ≤ y') (hyl : y' < l) :
    Elow l k1 k2 h y' x ≤ Elow l k1 k2 h y x := by
  have hA := age_nonneg (k := k1) hy0 (lt_of_le_of_lt hyy hyl)
  have hs := stime_nonneg hk2 hh hx0
  have hm := age_mono hk1 hy0 hyy hyl
  unfold Elow
  apply Real.exp_le_exp.mpr
  have := Real.rpow_le_rpow (by linarith : 0 ≤ x * Real.log 2 / (k2 * h) + age l k1 y)
    (by linarith : x * Real.log 2 / (k2 * h) + age l k1 y ≤ x * Real.log 2 / (k2 * h) + age l k1 y')
    hk1.le
  linarith

/-- the age of the un-floored value after `x` is the age of `y` plus the scaled time. -/
theorem age_Glow {l k1 k2 h y x : ℝ} (hk1 : 0 < k1) (hk2 : 0 < k2) (hh : 0 < h) (hx : 0 ≤ x)
    (hy0 : 0 ≤ y) (hyl : y < l) :
    age l k1 (Glow l k1 k2 h y x) = x * Real.log 2 / (k2 * h) + age l k1 y := by
  have hl : 0 < l := lt_of_le_of_lt hy0 hyl
  have hA := age_nonneg (k := k1) hy0 hyl
  have hs := stime_nonneg hk2 hh hx
  have e : (l - Glow l k1 k2 h y x) / l = Elow l k1 k2 h y x := by
    unfold Glow; field_simp; ring
  unfold age at *
  rw [e]
  unfold Elow age
  rw [Real.log_exp, neg_neg, ← Real.rpow_mul (by linarith), one_div, mul_inv_cancel₀ hk1.ne',
    Real.rpow_one]

/-- **flow law** for the exponential factor of the low branch. -/
theorem Elow_flow {l k1 k2 h y x₁ x₂ : ℝ} (hk1 : 0 < k1) (hk2 : 0 < k2) (hh : 0 < h)
    (hx₁ : 0 ≤ x₁) (hy0 : 0 ≤ y) (hyl : y < l) :
    Elow l k1 k2 h (Glow l k1 k2 h y x₁) x₂ = Elow l k1 k2 h y (x₁ + x₂) := by
  have hag := age_Glow hk1 hk2 hh hx₁ hy0 hyl
  have e : x₂ * Real.log 2 / (k2 * h) + (x₁ * Real.log 2 / (k2 * h) + age l k1 y)
      = (x₁ + x₂) * Real.log 2 / (k2 * h) + age l k1 y := by ring
  unfold Elow
  rw [hag, e]

theorem Glow_flow {l k1 k2 h y x₁ x₂ : ℝ} (hk1 : 0 < k1) (hk2 : 0 < k2) (hh : 0 < h)
    (hx₁ : 0 ≤ x₁) (hy0 : 0 ≤ y) (hyl : y < l) :
    Glow l k1 k2 h (Glow l k1 k2 h y x₁) x₂ = Glow l k1 k2 h y (x₁ + x₂) := by
  have e := Elow_flow (x₂ := x₂) hk1 hk2 hh hx₁ hy0 hyl
  unfold Glow at e ⊢
  rw [e]

theorem Glow_ge {l k1 k2 h y x : ℝ} (hk1 : 0 < k1) (hk2 : 0 < k2) (hh : 0 < h) (hx : 0 ≤ x)
    (hy0 : 0 ≤ y) (hyl : y < l) : y ≤ Glow l k1 k2 h y x := by
  have hl : 0 < l := lt_of_le_of_lt hy0 hyl
  have h1 := Elow_le hk1 hk2 hh hx hy0 hyl
  have h2 : l * Elow l k1 k2 h y x ≤ l * ((l - y) / l) := mul_le_mul_of_nonneg_left h1 hl.le
  have h3 : l * ((l - y) / l) = l - y := by field_simp
  unfold Glow; linarith

theorem Glow_lt {l k1 k2 h y x : ℝ} (hl : 0 < l) : Glow l k1 k2 h y x < l := by
  have := Elow_pos l k1 k2 h y x
  have : 0 < l * Elow l k1 k2 h y x := by positivity
  unfold Glow; linarith

/-- from zero, after one half-life, the exponential factor is `1 − B/L`. -/
theorem Elow_from_zero {B L : ℕ} (hB : 0 < B) (hBL : B < L) {h : ℝ} (hh : 0 < h) :
    Elow (L : ℝ) (k1 B L) (k2 B L (k1 B L)) h 0 h = 1 - (B : ℝ) / (L : ℝ) := by
  have hk1 := k1_pos hB hBL
  have hc := cB_pos hB hBL
  have hLr : (0 : ℝ) < (L : ℝ) := by exact_mod_cast (lt_trans hB hBL)
  have hBLr : (B : ℝ) < (L : ℝ) := by exact_mod_cast hBL
  have hq : 0 < (-Real.log (1 - (B : ℝ) / (L : ℝ))) ^ (1 / k1 B L) := Real.rpow_pos_of_pos hc _
  have hlog := log_two_pos
  have hs : h * Real.log 2 / (k2 B L (k1 B L) * h)
      = (-Real.log (1 - (B : ℝ) / (L : ℝ))) ^ (1 / k1 B L) := by
    rw [k2_eq hBL]; field_simp
  have h1 : (0 : ℝ) < 1 - (B : ℝ) / (L : ℝ) := by
    have : (B : ℝ) / (L : ℝ) < 1 := by rw [div_lt_one hLr]; exact hBLr
    linarith
  unfold Elow
  rw [age_zero hLr hk1, add_zero, hs, ← Real.rpow_mul hc.le, one_div, inv_mul_cancel₀ hk1.ne',
    Real.rpow_one, neg_neg, Real.exp_log h1]

/-! ### The high branch -/

theorem Ghigh_flow (l h y x₁ x₂ : ℝ) : Ghigh l h (Ghigh l h y x₁) x₂ = Ghigh l h y (x₁ + x₂) := by
  unfold Ghigh
  rw [decay_add]; ring

theorem F_flow (h y x₁ x₂ : ℝ) : F (F y h x₁) h x₂ = F y h (x₁ + x₂) := by
  unfold F
  rw [decay_add]; ring

end Model
