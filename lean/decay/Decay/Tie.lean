/-
The tie between the definitions regenerated from the Go source (`Gen`) and the hand-written model
(`Model`) that all theorems are about.  Every tie is `rfl`: it holds only while the Go formula is,
expression by expression, the one modelled.
-/
import Decay.Gen
import Decay.Model

theorem tie_k1 : Gen.k1 = Model.k1 := rfl
theorem tie_k2 : Gen.k2 = Model.k2 := rfl
theorem tie_f : Gen.f = Model.f := rfl
theorem tie_g : Gen.g = Model.g := rfl
theorem tie_value : Gen.value = Model.value := rfl
