/-
C09 — decay and income: property theorems over the real-valued model of `Utxo.Value`
(`Decay/Model.lean`, tied by `rfl` to the definitions regenerated from utxo.go, `Decay/Tie.lean`).

Standing hypotheses (exactly the property's): `0 < B` (income base), `B < L` (income limit),
`0 < h` (half-life), `0 ≤ x` (elapsed time); amounts `y : ℕ`.  No other side condition is needed:
`k1 B L = 3 − 2·ln(2B)/ln(L) > 0` holds for **all** naturals `0 < B < L` (`C09_k1_pos`), because
`(2B)² < L³` there (`C09_k1_pos_iff` gives the exact condition).

Only property theorems live here; each is followed by a non-vacuity `example` instantiating it.
-/
import Decay.Lemmas

open Model

/-! ## Non-yielding outputs (`f`) -/

/-- a non-yielding output's value never exceeds its initial value. -/
theorem C09_f_le_init (y : ℕ) {h x : ℝ} (hh : 0 < h) (hx : 0 ≤ x) : f y h x ≤ y := by
  rw [f_eq]
  apply Nat.floor_le_of_le
  unfold F
  exact mul_le_of_le_one_right (Nat.cast_nonneg y) (decay_le_one hh hx)

example : f 1000 60000000000 30000000000 ≤ 1000 := C09_f_le_init 1000 (by norm_num) (by norm_num)

/-- … never increases with time (at the floored, `uint64` level). -/
theorem C09_f_antitone (y : ℕ) {h x₁ x₂ : ℝ} (hh : 0 < h) (hx : x₁ ≤ x₂) : f y h x₂ ≤ f y h x₁ := by
  rw [f_eq, f_eq]
  apply Nat.floor_mono
  unfold F
  exact mul_le_mul_of_nonneg_left (decay_antitone hh hx) (Nat.cast_nonneg y)

example : f 1000 60000000000 30000000000 ≤ f 1000 60000000000 1 :=
  C09_f_antitone 1000 (by norm_num) (by norm_num)

/-- … and halves every half-life: un-floored exactly `y/2`, floored `⌊y/2⌋` (= `y / 2` in ℕ). -/
theorem C09_f_half (y : ℕ) {h : ℝ} (hh : 0 < h) :
    F (y : ℝ) h h = (y : ℝ) / 2 ∧ f y h h = ⌊(y : ℝ) / 2⌋₊ ∧ f y h h = y / 2 := by
  have e : F (y : ℝ) h h = (y : ℝ) / 2 := by
    unfold F; rw [decay_half hh]; ring
  have e2 : ⌊(y : ℝ) / 2⌋₊ = y / 2 := by
    have : (y : ℝ) / 2 = (y : ℝ) / ((2 : ℕ) : ℝ) := by norm_num
    rw [this, Nat.floor_div_eq_div]
  refine ⟨e, ?_, ?_⟩
  · rw [f_eq, e]
  · rw [f_eq, e, e2]

example : f 1001 60000000000 60000000000 = 1001 / 2 := (C09_f_half 1001 (by norm_num)).2.2

/-! ## The constants -/

/-- `k1 > 0` for every natural base/limit pair with `0 < B < L` (no further side condition). -/
theorem C09_k1_pos {B L : ℕ} (hB : 0 < B) (hBL : B < L) : 0 < k1 B L := k1_pos hB hBL

example : 0 < k1 2 3 := C09_k1_pos (by norm_num) (by norm_num)

/-- the exact condition: for `0 < B < L`, `k1 > 0 ⇔ (2B)² < L³` (i.e. `2B < L^{3/2}`), and the
right-hand side holds for all naturals `0 < B < L`. -/
theorem C09_k1_pos_iff {B L : ℕ} (hB : 0 < B) (hBL : B < L) :
    (0 < k1 B L ↔ (2 * B) ^ 2 < L ^ 3) ∧ (2 * B) ^ 2 < L ^ 3 :=
  ⟨k1_pos_iff hB hBL, nat_sq_lt_cube hB hBL⟩

example : (2 * 2) ^ 2 < 3 ^ 3 := (C09_k1_pos_iff (B := 2) (L := 3) (by norm_num) (by norm_num)).2

/-- `k1 < 3`. -/
theorem C09_k1_lt_three {B L : ℕ} (hB : 0 < B) (hBL : B < L) : k1 B L < 3 := k1_lt_three hB hBL

example : k1 1 2 < 3 := C09_k1_lt_three (by norm_num) (by norm_num)

/-- `k2 > 0` (for any value of its third argument). -/
theorem C09_k2_pos {B L : ℕ} (hB : 0 < B) (hBL : B < L) (k : ℝ) : 0 < k2 B L k := k2_pos hB hBL k

example : 0 < k2 2 3 (k1 2 3) := C09_k2_pos (by norm_num) (by norm_num) _

/-! ## Yielding outputs below the limit -/

/-- `g`'s own formula at zero elapsed time returns the initial value. -/
theorem C09_g_low_zero {y B L : ℕ} (hB : 0 < B) (hBL : B < L) (hy : y < L) (h : ℝ) :
    g y h B L 0 = y := by
  have hyr : (y : ℝ) < (L : ℝ) := by exact_mod_cast hy
  have hL : (L : ℝ) ≠ 0 := by
    have : (0 : ℝ) < (L : ℝ) := lt_of_le_of_lt (Nat.cast_nonneg y) hyr
    exact this.ne'
  rw [g_low_eq hy, Elow_zero (k1_pos hB hBL) (Nat.cast_nonneg y) hyr]
  apply lift_int
  field_simp
  ring

example : g 5 60000000000 2 10 0 = 5 := C09_g_low_zero (by norm_num) (by norm_num) (by norm_num) _

/-- `Value` short-circuits at zero elapsed time, whatever the kind of output. -/
theorem C09_value_zero_elapsed (y : ℕ) (yl : Bool) (c : ℤ) (h : ℝ) (B L : ℕ) :
    value y yl c c h B L = y := value_same y yl c h B L

example : value 7 true 3 3 1 1 2 = 7 := C09_value_zero_elapsed _ _ _ _ _ _

/-- below the limit the value stays between the initial value and the limit. -/
theorem C09_g_low_bounds {y B L : ℕ} {h x : ℝ} (hB : 0 < B) (hBL : B < L) (hh : 0 < h) (hx : 0 ≤ x)
    (hy : y < L) : y ≤ g y h B L x ∧ g y h B L x ≤ L := by
  have hyr : (y : ℝ) < (L : ℝ) := by exact_mod_cast hy
  have hLpos : (0 : ℝ) < (L : ℝ) := lt_of_le_of_lt (Nat.cast_nonneg y) hyr
  have hE := Elow_le (k1_pos hB hBL) (k2_pos hB hBL (k1 B L)) hh hx (Nat.cast_nonneg y) hyr
  have hE0 := Elow_pos (L : ℝ) (k1 B L) (k2 B L (k1 B L)) h (y : ℝ) x
  have h2 : (L : ℝ) * Elow (L : ℝ) (k1 B L) (k2 B L (k1 B L)) h (y : ℝ) x ≤ (L : ℝ) - (y : ℝ) := by
    have := mul_le_mul_of_nonneg_left hE hLpos.le
    have e : (L : ℝ) * (((L : ℝ) - (y : ℝ)) / (L : ℝ)) = (L : ℝ) - (y : ℝ) := by field_simp
    linarith
  have h3 : 0 < (L : ℝ) * Elow (L : ℝ) (k1 B L) (k2 B L (k1 B L)) h (y : ℝ) x := by positivity
  rw [g_low_eq hy]
  constructor
  · apply le_lift; linarith
  · apply lift_le; linarith

example : 5 ≤ g 5 60000000000 2 10 30000000000 ∧ g 5 60000000000 2 10 30000000000 ≤ 10 :=
  C09_g_low_bounds (by norm_num) (by norm_num) (by norm_num) (by norm_num) (by norm_num)

/-- in the real-valued model the limit is never reached from below (the float code can return
exactly `L` when `exp` underflows; the property grants one unit). -/
theorem C09_g_low_lt_limit {y L : ℕ} (hy : y < L) (h : ℝ) (B : ℕ) (x : ℝ) : g y h B L x < L := by
  have hLpos : (0 : ℝ) < (L : ℝ) := by exact_mod_cast (lt_of_le_of_lt (Nat.zero_le y) hy)
  have hE0 := Elow_pos (L : ℝ) (k1 B L) (k2 B L (k1 B L)) h (y : ℝ) x
  have h3 : 0 < (L : ℝ) * Elow (L : ℝ) (k1 B L) (k2 B L (k1 B L)) h (y : ℝ) x := by positivity
  rw [g_low_eq hy]
  apply (Nat.floor_lt' (by omega)).mpr
  have := Int.floor_le (-(L : ℝ) * Elow (L : ℝ) (k1 B L) (k2 B L (k1 B L)) h (y : ℝ) x)
  linarith

example : g 5 60000000000 2 10 30000000000 < 10 := C09_g_low_lt_limit (by norm_num) _ _ _

/-- below the limit the value moves monotonically (upwards) with elapsed time. -/
theorem C09_g_low_mono {y B L : ℕ} {h x₁ x₂ : ℝ} (hB : 0 < B) (hBL : B < L) (hh : 0 < h)
    (hx₁ : 0 ≤ x₁) (hx : x₁ ≤ x₂) (hy : y < L) : g y h B L x₁ ≤ g y h B L x₂ := by
  have hyr : (y : ℝ) < (L : ℝ) := by exact_mod_cast hy
  have hLpos : (0 : ℝ) < (L : ℝ) := lt_of_le_of_lt (Nat.cast_nonneg y) hyr
  have hE := Elow_antitone_x (k1_pos hB hBL) (k2_pos hB hBL (k1 B L)) hh hx₁ hx
    (Nat.cast_nonneg y) hyr
  rw [g_low_eq hy, g_low_eq hy]
  apply lift_mono
  have := mul_le_mul_of_nonneg_left hE hLpos.le
  linarith

example : g 5 60000000000 2 10 1 ≤ g 5 60000000000 2 10 2 :=
  C09_g_low_mono (by norm_num) (by norm_num) (by norm_num) (by norm_num) (by norm_num) (by norm_num)

/-- from zero, after exactly one half-life, the value is the income base: un-floored exactly `B`,
and floored exactly `B` as well (in the reals `−L·(1 − B/L) = B − L` is an integer). -/
theorem C09_g_from_zero_half_life {B L : ℕ} {h : ℝ} (hB : 0 < B) (hBL : B < L) (hh : 0 < h) :
    Glow (L : ℝ) (k1 B L) (k2 B L (k1 B L)) h 0 h = (B : ℝ) ∧ g 0 h B L h = B := by
  have hE := Elow_from_zero hB hBL hh
  have hL : (L : ℝ) ≠ 0 := by
    have : (0 : ℝ) < (L : ℝ) := by exact_mod_cast (lt_trans hB hBL)
    exact this.ne'
  constructor
  · unfold Glow; rw [hE]; field_simp; ring
  · rw [g_low_eq (lt_trans hB hBL), Nat.cast_zero, hE]
    apply lift_int
    field_simp
    ring

example : g 0 60000000000 50000000000 10000000000000 60000000000 = 50000000000 :=
  (C09_g_from_zero_half_life (by norm_num) (by norm_num) (by norm_num)).2

/-! ## Yielding outputs above / at the limit -/

/-- above the limit the value stays between the limit and the initial value. -/
theorem C09_g_high_bounds {y L : ℕ} {h x : ℝ} (hh : 0 < h) (hx : 0 ≤ x) (hy : L < y) (B : ℕ) :
    L ≤ g y h B L x ∧ g y h B L x ≤ y := by
  have hyr : (L : ℝ) < (y : ℝ) := by exact_mod_cast hy
  have he1 := decay_le_one hh hx
  have he0 := Real.exp_pos (-x * Real.log 2 / h)
  rw [g_high_eq hy]
  constructor
  · apply le_lift
    have : 0 ≤ ((y : ℝ) - (L : ℝ)) * Real.exp (-x * Real.log 2 / h) :=
      mul_nonneg (by linarith) he0.le
    linarith
  · apply lift_le
    exact mul_le_of_le_one_right (by linarith) he1

example : 10 ≤ g 25 60000000000 2 10 30000000000 ∧ g 25 60000000000 2 10 30000000000 ≤ 25 :=
  C09_g_high_bounds (by norm_num) (by norm_num) (by norm_num) _

/-- above the limit the value moves monotonically (downwards) with elapsed time. -/
theorem C09_g_high_antitone {y L : ℕ} {h x₁ x₂ : ℝ} (hh : 0 < h) (hx : x₁ ≤ x₂) (hy : L < y)
    (B : ℕ) : g y h B L x₂ ≤ g y h B L x₁ := by
  have hyr : (L : ℝ) < (y : ℝ) := by exact_mod_cast hy
  rw [g_high_eq hy, g_high_eq hy]
  apply lift_mono
  exact mul_le_mul_of_nonneg_left (decay_antitone hh hx) (by linarith)

example : g 25 60000000000 2 10 2 ≤ g 25 60000000000 2 10 1 :=
  C09_g_high_antitone (by norm_num) (by norm_num) (by norm_num) _

/-- exactly at the limit the value is the limit. -/
theorem C09_g_eq_limit (L : ℕ) (h : ℝ) (B : ℕ) (x : ℝ) : g L h B L x = L := g_eq_eq L h B x

example : g 10 60000000000 2 10 12345 = 10 := C09_g_eq_limit _ _ _ _

/-! ## Flow law and no gain from splitting an interval -/

/-- the un-floored low branch is a flow: `G(G(y,x₁),x₂) = G(y,x₁+x₂)` (real `0 ≤ y < L`). -/
theorem C09_flow_law_low {B L : ℕ} {h y x₁ x₂ : ℝ} (hB : 0 < B) (hBL : B < L) (hh : 0 < h)
    (hx₁ : 0 ≤ x₁) (hy0 : 0 ≤ y) (hyL : y < (L : ℝ)) :
    Glow (L : ℝ) (k1 B L) (k2 B L (k1 B L)) h (Glow (L : ℝ) (k1 B L) (k2 B L (k1 B L)) h y x₁) x₂
      = Glow (L : ℝ) (k1 B L) (k2 B L (k1 B L)) h y (x₁ + x₂) :=
  Glow_flow (k1_pos hB hBL) (k2_pos hB hBL _) hh hx₁ hy0 hyL

/-- the un-floored high branch and the un-floored decay are flows (no hypothesis needed). -/
theorem C09_flow_law_high_f (l h y x₁ x₂ : ℝ) :
    Ghigh l h (Ghigh l h y x₁) x₂ = Ghigh l h y (x₁ + x₂) ∧ F (F y h x₁) h x₂ = F y h (x₁ + x₂) :=
  ⟨Ghigh_flow l h y x₁ x₂, F_flow h y x₁ x₂⟩

example : Ghigh 10 3 (Ghigh 10 3 25 1) 2 = Ghigh 10 3 25 (1 + 2) :=
  (C09_flow_law_high_f 10 3 25 1 2).1

/-- flow law, all three un-floored branches. -/
theorem C09_flow_law {B L : ℕ} {h y x₁ x₂ : ℝ} (hB : 0 < B) (hBL : B < L) (hh : 0 < h)
    (hx₁ : 0 ≤ x₁) :
    (0 ≤ y → y < (L : ℝ) →
      Glow (L : ℝ) (k1 B L) (k2 B L (k1 B L)) h (Glow (L : ℝ) (k1 B L) (k2 B L (k1 B L)) h y x₁) x₂
        = Glow (L : ℝ) (k1 B L) (k2 B L (k1 B L)) h y (x₁ + x₂)) ∧
    Ghigh (L : ℝ) h (Ghigh (L : ℝ) h y x₁) x₂ = Ghigh (L : ℝ) h y (x₁ + x₂) ∧
    F (F y h x₁) h x₂ = F y h (x₁ + x₂) :=
  ⟨fun hy0 hyL => C09_flow_law_low hB hBL hh hx₁ hy0 hyL, Ghigh_flow _ h y x₁ x₂, F_flow h y x₁ x₂⟩

example : F (F 8 3 1) 3 2 = F 8 3 (1 + 2) :=
  (C09_flow_law (B := 2) (L := 10) (h := 3) (y := 8) (x₁ := 1) (x₂ := 2) (by norm_num) (by norm_num)
    (by norm_num) (by norm_num)).2.2

example : Glow 10 (k1 2 10) (k2 2 10 (k1 2 10)) 3 (Glow 10 (k1 2 10) (k2 2 10 (k1 2 10)) 3 4 1) 2
    = Glow 10 (k1 2 10) (k2 2 10 (k1 2 10)) 3 4 (1 + 2) := by
  have := C09_flow_law_low (B := 2) (L := 10) (h := 3) (y := 4) (x₁ := 1) (x₂ := 2) (by norm_num)
    (by norm_num) (by norm_num) (by norm_num) (by norm_num) (by norm_num)
  simpa using this

/-- no gain, non-yielding: valuing the floored value again never exceeds one valuation — exactly,
no slack (in the real-valued model). -/
theorem C09_no_gain_f (y : ℕ) (h x₁ x₂ : ℝ) : f (f y h x₁) h x₂ ≤ f y h (x₁ + x₂) := by
  rw [f_eq (f y h x₁), f_eq y h (x₁ + x₂), f_eq y h x₁]
  apply Nat.floor_mono
  have hF : 0 ≤ F (y : ℝ) h x₁ := by
    unfold F; exact mul_nonneg (Nat.cast_nonneg y) (Real.exp_pos _).le
  have h1 := Nat.floor_le hF
  unfold F at *
  rw [decay_add, ← mul_assoc]
  exact mul_le_mul_of_nonneg_right h1 (Real.exp_pos _).le

example : f (f 1000 60 10) 60 20 ≤ f 1000 60 (10 + 20) := C09_no_gain_f _ _ _ _

/-- no gain, yielding: composition of FLOORED valuations ≤ the single valuation — exactly, no slack
(in the real-valued model). -/
theorem C09_no_gain_g {B L : ℕ} {h x₁ x₂ : ℝ} (y : ℕ) (hB : 0 < B) (hBL : B < L) (hh : 0 < h)
    (hx₁ : 0 ≤ x₁) (hx₂ : 0 ≤ x₂) :
    g (g y h B L x₁) h B L x₂ ≤ g y h B L (x₁ + x₂) := by
  have hk1 := k1_pos hB hBL
  have hk2 := k2_pos hB hBL (k1 B L)
  have hLpos : (0 : ℝ) < (L : ℝ) := by exact_mod_cast (lt_trans hB hBL)
  rcases lt_trichotomy y L with hy | hy | hy
  · -- low branch: the floored intermediate value is still below the limit
    have hyr : (y : ℝ) < (L : ℝ) := by exact_mod_cast hy
    have hy' : g y h B L x₁ < L := C09_g_low_lt_limit hy h B x₁
    have hy'r : ((g y h B L x₁ : ℕ) : ℝ) ≤ Glow (L : ℝ) (k1 B L) (k2 B L (k1 B L)) h (y : ℝ) x₁ := by
      have hE := Elow_le hk1 hk2 hh hx₁ (Nat.cast_nonneg y) hyr
      have h2 : (L : ℝ) * Elow (L : ℝ) (k1 B L) (k2 B L (k1 B L)) h (y : ℝ) x₁
          ≤ (L : ℝ) - (y : ℝ) := by
        have := mul_le_mul_of_nonneg_left hE hLpos.le
        have e : (L : ℝ) * (((L : ℝ) - (y : ℝ)) / (L : ℝ)) = (L : ℝ) - (y : ℝ) := by field_simp
        linarith
      have h0 : (y : ℝ) ≤ ((⌊-(L : ℝ) * Elow (L : ℝ) (k1 B L) (k2 B L (k1 B L)) h (y : ℝ) x₁⌋ : ℤ) : ℝ)
          + (L : ℝ) := le_lift_real (by linarith)
      have := lift_le_real (L := L) (le_trans (Nat.cast_nonneg y) h0)
      rw [g_low_eq hy]
      unfold Glow
      linarith
    have hGlt : Glow (L : ℝ) (k1 B L) (k2 B L (k1 B L)) h (y : ℝ) x₁ < (L : ℝ) := Glow_lt hLpos
    have hmono := Elow_antitone_y (x := x₂) hk1 hk2 hh hx₂ (Nat.cast_nonneg (g y h B L x₁)) hy'r hGlt
    rw [Elow_flow hk1 hk2 hh hx₁ (Nat.cast_nonneg y) hyr] at hmono
    generalize g y h B L x₁ = y' at hy' hmono
    rw [g_low_eq hy', g_low_eq hy]
    apply lift_mono
    have := mul_le_mul_of_nonneg_left hmono hLpos.le
    linarith
  · -- at the limit
    subst hy
    rw [g_eq_eq, g_eq_eq, g_eq_eq]
  · -- high branch
    have hyr : (L : ℝ) < (y : ℝ) := by exact_mod_cast hy
    have hb := (C09_g_high_bounds (x := x₁) hh hx₁ hy B).1
    have hb2 := (C09_g_high_bounds (x := x₁ + x₂) hh (by linarith) hy B).1
    have he1 := Real.exp_pos (-x₁ * Real.log 2 / h)
    have he2 := Real.exp_pos (-x₂ * Real.log 2 / h)
    have hy'r : ((g y h B L x₁ : ℕ) : ℝ) ≤ ((y : ℝ) - (L : ℝ)) * Real.exp (-x₁ * Real.log 2 / h)
        + (L : ℝ) := by
      have hr : 0 ≤ ((y : ℝ) - (L : ℝ)) * Real.exp (-x₁ * Real.log 2 / h) :=
        mul_nonneg (by linarith) he1.le
      have h0 : ((L : ℕ) : ℝ) ≤ ((⌊((y : ℝ) - (L : ℝ)) * Real.exp (-x₁ * Real.log 2 / h)⌋ : ℤ) : ℝ)
          + (L : ℝ) := le_lift_real (by linarith)
      have := lift_le_real (L := L) (le_trans (Nat.cast_nonneg L) h0)
      rw [g_high_eq hy]
      exact this
    generalize g y h B L x₁ = y' at hb hy'r
    rcases Nat.eq_or_lt_of_le hb with heq | hlt
    · rw [← heq, g_eq_eq]; exact hb2
    · have hltr : (L : ℝ) < (y' : ℝ) := by exact_mod_cast hlt
      rw [g_high_eq hlt, g_high_eq hy]
      apply lift_mono
      rw [decay_add, ← mul_assoc]
      apply mul_le_mul_of_nonneg_right _ he2.le
      linarith

example : g (g 5 60 2 10 10) 60 2 10 20 ≤ g 5 60 2 10 (10 + 20) :=
  C09_no_gain_g 5 (by norm_num) (by norm_num) (by norm_num) (by norm_num) (by norm_num)

/-- **no gain** at the level of `Utxo.Value`: valuing over `[c,m]` and re-valuing the (floored)
result over `[m,n]` never yields more than valuing once over `[c,n]` — exactly (slack 0) in the
real-valued model; the float code is granted `1 + 2^-44·max(amount, L)` by the property and is
measured against that. -/
theorem C09_no_gain {B L : ℕ} {h : ℝ} (y : ℕ) (yl : Bool) {c m n : ℤ} (hB : 0 < B) (hBL : B < L)
    (hh : 0 < h) (hcm : c ≤ m) (hmn : m ≤ n) :
    value (value y yl c m h B L) yl m n h B L ≤ value y yl c n h B L := by
  by_cases h1 : m = c
  · subst h1; rw [value_same]
  by_cases h2 : n = m
  · subst h2; rw [value_same]
  have h3 : n ≠ c := by omega
  have hx₁ : (0 : ℝ) ≤ ((m - c : ℤ) : ℝ) := by exact_mod_cast (by omega : (0 : ℤ) ≤ m - c)
  have hx₂ : (0 : ℝ) ≤ ((n - m : ℤ) : ℝ) := by exact_mod_cast (by omega : (0 : ℤ) ≤ n - m)
  have hsum : ((n - c : ℤ) : ℝ) = ((m - c : ℤ) : ℝ) + ((n - m : ℤ) : ℝ) := by push_cast; ring
  rw [value_eq_of_ne h1, value_eq_of_ne h2, value_eq_of_ne h3, hsum]
  cases yl
  · simp only [Bool.false_eq_true, if_false]
    exact C09_no_gain_f _ _ _ _
  · simp only [if_true]
    exact C09_no_gain_g y hB hBL hh hx₁ hx₂

example : value (value 5 true 100 110 60 2 10) true 110 130 60 2 10 ≤ value 5 true 100 130 60 2 10 :=
  C09_no_gain 5 true (by norm_num) (by norm_num) (by norm_num) (by norm_num) (by norm_num)

/-- the value depends on the elapsed time only: shifting both timestamps changes nothing. -/
theorem C09_elapsed_only (y : ℕ) (yl : Bool) (c n d : ℤ) (h : ℝ) (B L : ℕ) :
    value y yl c n h B L = value y yl (c + d) (n + d) h B L := by
  unfold value
  simp only [add_left_inj, add_sub_add_right_eq_sub]

example : value 5 true 100 130 60 2 10 = value 5 true (100 + 7) (130 + 7) 60 2 10 :=
  C09_elapsed_only _ _ _ _ _ _ _ _
