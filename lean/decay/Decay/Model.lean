/-
Hand-written real-valued model of `Utxo.Value`, `f`, `g`, `k1`, `k2`
(validatornode/domain/ledger/utxo.go).  float64 is read as ℝ, uint64 as ℕ, int64 as ℤ.
`Decay/Gen.lean` is regenerated from the Go source on every run and must be *definitionally*
equal to these definitions (`Decay/Tie.lean`); all theorems are stated over this model.

  y  = initial value of the output (`utxo.InitialValue()`),  yielding = `utxo.IsYielding()`,
  created = `utxo.timestamp`, now = `currentTimestamp`, h = half-life in ns,
  B = income base, L = income limit, x = elapsed ns.
-/
import Mathlib.Analysis.SpecialFunctions.Pow.Real

namespace Model

/-- `k1 = 3 − 2·ln(2B)/ln(L)` when `B < L`, else 1. -/
noncomputable def k1 (B L : ℕ) : ℝ :=
  if L > B then 3 - 2 * Real.log (2 * (B : ℝ)) / Real.log (L : ℝ) else 1

/-- `k2 = ln 2 / (−ln(1 − B/L))^(1/k1)` when `B < L`, else 1. -/
noncomputable def k2 (B L : ℕ) (k1 : ℝ) : ℝ :=
  if L > B then Real.log 2 / (-Real.log (1 - (B : ℝ) / (L : ℝ))) ^ (1 / k1) else 1

/-- Non-yielding output: `⌊y · exp(−x·ln2/h)⌋`. -/
noncomputable def f (y : ℕ) (h x : ℝ) : ℕ :=
  let yr : ℝ := (y : ℝ)
  let result : ℝ := yr * Real.exp (-x * Real.log 2 / h)
  ⌊result⌋₊

/-- Yielding output. -/
noncomputable def g (y : ℕ) (h : ℝ) (B L : ℕ) (x : ℝ) : ℕ :=
  let yr : ℝ := (y : ℝ)
  let l : ℝ := (L : ℝ)
  if y < L then
    let k1 : ℝ := k1 B L
    let k2 : ℝ := k2 B L k1
    let e : ℝ := -(x * Real.log 2 / (k2 * h) + (-Real.log ((l - yr) / l)) ^ (1 / k1)) ^ k1
    let result : ℝ := ((⌊-l * Real.exp e⌋ : ℤ) : ℝ) + l
    ⌊result⌋₊
  else if L < y then
    let e : ℝ := -x * Real.log 2 / h
    let result : ℝ := ((⌊(yr - l) * Real.exp e⌋ : ℤ) : ℝ) + l
    ⌊result⌋₊
  else L

/-- `Utxo.Value`. -/
noncomputable def value (y : ℕ) (yielding : Bool) (created now : ℤ) (h : ℝ) (B L : ℕ) : ℕ :=
  if now = created then y
  else
    let x : ℝ := ((now - created : ℤ) : ℝ)
    if yielding = true then g y h B L x else f y h x

/-! ### Un-floored parts (used to state the flow law; not generated, not part of the tie) -/

/-- un-floored decay `y · exp(−x·ln2/h)` (real amount `y`). -/
noncomputable def F (y h x : ℝ) : ℝ := y * Real.exp (-x * Real.log 2 / h)

/-- the "age" of an amount `y < l` under the income curve: `(−ln((l−y)/l))^(1/k1)`. -/
noncomputable def age (l k1 y : ℝ) : ℝ := (-Real.log ((l - y) / l)) ^ (1 / k1)

/-- the exponential factor of the low branch: `exp(−(x·ln2/(k2·h) + age y)^k1)`. -/
noncomputable def Elow (l k1 k2 h y x : ℝ) : ℝ :=
  Real.exp (-(x * Real.log 2 / (k2 * h) + age l k1 y) ^ k1)

/-- un-floored low branch (`y < l`): `l − l·exp(−(x·ln2/(k2·h) + age y)^k1)`. -/
noncomputable def Glow (l k1 k2 h y x : ℝ) : ℝ := l - l * Elow l k1 k2 h y x

/-- un-floored high branch (`l < y`): `(y − l)·exp(−x·ln2/h) + l`. -/
noncomputable def Ghigh (l h y x : ℝ) : ℝ := (y - l) * Real.exp (-x * Real.log 2 / h) + l

end Model
