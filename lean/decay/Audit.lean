/-
Axiom audit for C09: every property theorem and every tie theorem.
Allowed: propext, Classical.choice, Quot.sound.
-/
import Decay.Props
import Decay.Tie

#print axioms C09_f_le_init
#print axioms C09_f_antitone
#print axioms C09_f_half
#print axioms C09_k1_pos
#print axioms C09_k1_pos_iff
#print axioms C09_k1_lt_three
#print axioms C09_k2_pos
#print axioms C09_g_low_zero
#print axioms C09_value_zero_elapsed
#print axioms C09_g_low_bounds
#print axioms C09_g_low_lt_limit
#print axioms C09_g_low_mono
#print axioms C09_g_from_zero_half_life
#print axioms C09_g_high_bounds
#print axioms C09_g_high_antitone
#print axioms C09_g_eq_limit
#print axioms C09_flow_law_low
#print axioms C09_flow_law_high_f
#print axioms C09_flow_law
#print axioms C09_no_gain_f
#print axioms C09_no_gain_g
#print axioms C09_no_gain
#print axioms C09_elapsed_only
#print axioms tie_k1
#print axioms tie_k2
#print axioms tie_f
#print axioms tie_g
#print axioms tie_value
