import Core.Basic
import Core.Utxos
import Core.Addr
import Core.Chain
import Core.Pool
import Core.Sync
import Core.Spec
import Core.Machine
