/-
  Core/Lemmas/Judged.lean — "every non-first block of the chain was judged": the per-block judgement that every
  acceptance path (block production, incremental adoption, competing tip, full re-sync) establishes, expressed
  against a REPLAY of the chain itself, and its preservation by every operation.

  The confirmed state a block at height h+1 is judged against is the replay of the blocks below its
  predecessor (`take h`: the lag of `verify` and of the producer) or, on the competing-tip path only, of the
  blocks below itself (`take (h+1)`).  That disjunction is what the code does; it is the reason the value /
  owner statements of C01 and C03 are about "the state judged against".
-/
import Core.Lemmas.Shape
import Core.Lemmas.Agree
import Core.Props.C07
open Std

namespace Ru

/-- a ledger carrying a confirmed state (no blocks, no pending removals) -/
def Conf.led (c : Conf) : Ledger := ⟨[], c.utxos, ⟨c.registered, none⟩⟩

theorem Conf.led_conf (c : Conf) : c.led.conf = c := rfl

/-- What every acceptance path establishes of a non-first block `b` whose predecessor is dated `prevTs`, against
    the confirmed state `c`: exactly one reward, worth at most the exact sum of the fees, and every ordinary
    transaction is dated in the window, fully signed, gives yielding outputs to registered or newly listed
    addresses only, and passes the fee rule (`CalculateFee` at the block's timestamp: known unspent outputs,
    owner = recipient, checked sums, fee ≥ minimal fee). -/
def BlockJudged (env : Env) (cfg : Cfg) (c : Conf) (b : Block) (prevTs : Int) : Prop :=
  (∃ rt, b.txs.filter (·.hasReward) = [rt] ∧
    rt.rewardValue ≤ ((b.txs.filter (fun t => !t.hasReward)).map (feeOf env.val cfg.minFee c.utxos b.ts)).sum) ∧
  ∀ t ∈ b.txs, t.hasReward = false → Ledger.txOk env cfg c.led b prevTs t

/-- the chain-level statement: every block above the first was judged against a replay of the chain below it -/
def ChainJudged (env : Env) (cfg : Cfg) (bs : List Block) : Prop :=
  ∀ (h : Nat) (p b : Block), bs[h]? = some p → bs[h + 1]? = some b →
    ∃ c, (Conf.replay Conf.empty (bs.take h) = .ok c ∨ Conf.replay Conf.empty (bs.take (h + 1)) = .ok c) ∧
      BlockJudged env cfg c b p.ts

namespace JudgedL

theorem yields_congr {r r' : AddrReg} (h : r.registered = r'.registered) (added : List String) (t : Tx) :
    Ledger.yieldsRegistered r added t = Ledger.yieldsRegistered r' added t := by
  unfold Ledger.yieldsRegistered AddrReg.isRegistered
  rw [h]

/-- the per-transaction judgement reads the outputs and the registered set only -/
theorem txOk_congr {env : Env} {cfg : Cfg} {l l' : Ledger} (hu : l.utxos = l'.utxos)
    (hr : l.reg.registered = l'.reg.registered) {b : Block} {prevTs : Int} {t : Tx}
    (h : Ledger.txOk env cfg l b prevTs t) : Ledger.txOk env cfg l' b prevTs t := by
  obtain ⟨h1, h2, h3, h4, fee, h5⟩ := h
  refine ⟨h1, h2, h3, ?_, fee, ?_⟩
  · rw [← yields_congr hr]; exact h4
  · rw [← hu]; exact h5

/-- a block accepted by `verifyBlock` on ledger `l` is judged against `l`'s confirmed state -/
theorem judged_of_verifyBlock {env : Env} {cfg : Cfg} {l : Ledger} {b : Block} {prevTs now : Int}
    (h : Ledger.verifyBlock env cfg l b prevTs now = .ok ()) : BlockJudged env cfg l.conf b prevTs := by
  obtain ⟨_, _, hrw, hall⟩ := Ledger.fee_verifyBlock_ok h
  refine ⟨hrw, ?_⟩
  intro t ht hr
  exact txOk_congr (l := l) (l' := l.conf.led) rfl rfl (hall t ht hr)

/-- judgement only depends on the confirmed state -/
theorem judged_congr {env : Env} {cfg : Cfg} {c c' : Conf} (h : c = c') {b : Block} {prevTs : Int}
    (hj : BlockJudged env cfg c b prevTs) : BlockJudged env cfg c' b prevTs := h ▸ hj

/-- the block a non-first tick appends is judged against the producer's confirmed state (the state below its
    previous tip): the producer's per-transaction checks are the verifier's -/
theorem judged_of_produce {env : Env} {cfg : Cfg} {n n' : Node} {ts : Int} {perm : List Tx} {rid : String}
    (hmin : 1 ≤ cfg.minFee) (h0 : n.led.lastTs ≠ 0)
    (h : n.produce env cfg ts perm rid = some n') :
    ∃ b, n'.led.blocks = n.led.blocks ++ [b] ∧ b.ts = ts ∧ BlockJudged env cfg n.led.conf b n.led.lastTs := by
  obtain ⟨_, copy, c, hu, hc, hn'⟩ := Node.fee_produce_some h
  have hb0 : (n.led.lastTs == 0) = false := by simpa using h0
  refine ⟨Node.blockOf env cfg n c ts rid (Node.keptOf env cfg n ts perm copy), ?_, rfl, ?_⟩
  · rw [hn']; simp [Ledger.fee_confirmLast_blocks hc]
  have hk := Node.agree_kept_ok env cfg n c ts perm rid copy hmin n.led.conf.led rfl rfl
  have htxs : (Node.blockOf env cfg n c ts rid (Node.keptOf env cfg n ts perm copy)).txs =
      Node.keptOf env cfg n ts perm copy ++ [Node.rewardTx rid cfg.validator false ts
        (Node.feesOf env cfg n ts (Node.keptOf env cfg n ts perm copy))] := by
    simp [Node.blockOf, Ledger.mkBlock, hb0]
  have hbts : (Node.blockOf env cfg n c ts rid (Node.keptOf env cfg n ts perm copy)).ts = ts := rfl
  have hkr : ∀ t ∈ Node.keptOf env cfg n ts perm copy, t.hasReward = false := fun t ht => (hk t ht).1
  have hrr : (Node.rewardTx rid cfg.validator false ts
      (Node.feesOf env cfg n ts (Node.keptOf env cfg n ts perm copy))).hasReward = true := rfl
  refine ⟨⟨Node.rewardTx rid cfg.validator false ts
      (Node.feesOf env cfg n ts (Node.keptOf env cfg n ts perm copy)), ?_, ?_⟩, ?_⟩
  · rw [htxs]; exact Node.filter_hasReward_append_reward _ _ hkr hrr
  · rw [htxs, Node.filter_not_hasReward_append_reward _ _ hkr hrr, hbts]
    show Node.feesOf env cfg n ts (Node.keptOf env cfg n ts perm copy) ≤ _
    simp only [Node.feesOf, Node.startReward, hb0]
    have := wrapAdd_le 0 ((Node.keptOf env cfg n ts perm copy).map (feeOf env.val cfg.minFee n.led.utxos ts))
    simpa [Ledger.conf] using this
  · intro t ht hr
    rw [htxs] at ht
    rcases List.mem_append.mp ht with hkm | hrm
    · obtain ⟨_, h2, h3, h4, h5, h6⟩ := hk t hkm
      refine ⟨h2, h3, List.all_eq_true.mpr (fun i hi => h4 i hi), h5, (fee_isOk_iff_exists _).mp h6⟩
    · simp only [List.mem_singleton] at hrm
      subst hrm
      simp [hrr] at hr

/-! ## the loop of `verify`: which confirmed state each block is judged against -/

/-- what one accepted loop iteration establishes for block `b` at loop index `i` on top of `prev`, the check
    having run on confirmed state `c`: the block IS (same hash) the host block compared with, or it was judged
    against `c` -/
def JFact (env : Env) (cfg : Cfg) (lastHost : List Block) (c : Conf) (prev : Option Block) (b : Block) (i : Nat) : Prop :=
  ∀ p, prev = some p →
    (∃ x, lastHost[i]? = some x ∧ env.hash b = env.hash x) ∨ BlockJudged env cfg c b p.ts

theorem loopCheck_jfact {env : Env} {cfg : Cfg} {now : Int} {lastHost : List Block} {nl : Ledger}
    {prev : Option Block} {b : Block} {i : Nat}
    (h : Ledger.loopCheck env cfg now lastHost nl prev b i = .ok ()) : JFact env cfg lastHost nl.conf prev b i := by
  intro p hp
  subst hp
  unfold Ledger.loopCheck at h
  simp only at h
  split at h
  · cases h
  · simp only [Option.isNone_some, Bool.not_false, Bool.and_true] at h
    cases hx : lastHost[i]? with
    | none =>
      simp only [hx, if_true] at h
      right; exact judged_of_verifyBlock h
    | some x =>
      simp only [hx] at h
      by_cases he : env.hash b = env.hash x
      · left; exact ⟨x, rfl, he⟩
      · have : (env.hash b != env.hash x) = true := by simpa using he
        rw [if_pos this] at h
        right; exact judged_of_verifyBlock h

/-- inversion of one loop iteration, keeping the check -/
theorem verifyLoop_cons_inv {env : Env} {cfg : Cfg} {now : Int} {lastHost : List Block} {nl nl' : Ledger}
    {prev : Option Block} {b : Block} {rest : List Block} {i : Nat}
    (h : Ledger.verifyLoop env cfg now lastHost nl prev (b :: rest) i = .ok nl') :
    Ledger.loopCheck env cfg now lastHost nl prev b i = .ok () ∧
    ∃ nl1, Ledger.loopAppend nl b i = .ok nl1 ∧
      Ledger.verifyLoop env cfg now lastHost nl1 (some b) rest (i + 1) = .ok nl' := by
  rw [verifyLoop_cons] at h
  cases hc : Ledger.loopCheck env cfg now lastHost nl prev b i with
  | error e => simp [hc] at h
  | ok u =>
    cases u
    simp only [hc] at h
    cases ha : Ledger.loopAppend nl b i with
    | error e => simp [ha] at h
    | ok nl1 => exact ⟨rfl, nl1, rfl, by simpa [ha] using h⟩

/-- iterations after the first: block `rest[j]` is checked on the state that has replayed the previous tip `p`
    and the blocks `rest[0..j-1)` -/
theorem verifyLoop_jfacts_succ (env : Env) (cfg : Cfg) (now : Int) (lastHost : List Block) :
    ∀ (rest : List Block) (nl nl' : Ledger) (p : Block) (i : Nat), i ≠ 0 → nl.blocks.getLast? = some p →
      Ledger.verifyLoop env cfg now lastHost nl (some p) rest i = .ok nl' →
      ∀ j b, rest[j]? = some b →
        ∃ c, Conf.replay nl.conf ((p :: rest).take j) = .ok c ∧
          JFact env cfg lastHost c (if j = 0 then some p else rest[j - 1]?) b (i + j) := by
  intro rest
  induction rest with
  | nil => intro _ _ _ _ _ _ _ j b hj; cases hj
  | cons b0 rest ih =>
    intro nl nl' p i hi hp h j b hj
    obtain ⟨hchk, nl1, ha, hrec⟩ := verifyLoop_cons_inv h
    have hi0 : (i == 0) = false := by simp [hi]
    simp only [Ledger.loopAppend, hi0] at ha
    obtain ⟨hb1, hs1⟩ := addBlockRaw_some nl nl1 p b0 hp (by simpa using ha)
    cases j with
    | zero =>
      simp only [List.getElem?_cons_zero, Option.some.injEq] at hj
      subst hj
      refine ⟨nl.conf, by simp [Conf.replay], ?_⟩
      simpa using loopCheck_jfact hchk
    | succ j =>
      have hlast : nl1.blocks.getLast? = some b0 := by simp [hb1]
      obtain ⟨c, hc, hf⟩ := ih nl1 nl' b0 (i + 1) (by omega) hlast hrec j b (by simpa using hj)
      refine ⟨c, ?_, ?_⟩
      · have : (p :: b0 :: rest).take (j + 1) = p :: (b0 :: rest).take j := by simp
        rw [this]
        simp [Conf.replay, hs1, hc]
      · have e : i + 1 + j = i + (j + 1) := by omega
        rw [e] at hf
        cases j with
        | zero => simpa using hf
        | succ j => simpa using hf

/-- the whole loop entered at index 0 from `start`: block `nb[0]` is checked on `start`'s confirmed state, block
    `nb[j]`, `j ≥ 1`, on the state that has additionally replayed `nb[0..j-1)` -/
theorem verifyLoop_jfacts {env : Env} {cfg : Cfg} {now : Int} {lastHost : List Block}
    {start out : Ledger} {prev : Option Block} {nb : List Block}
    (h : Ledger.verifyLoop env cfg now lastHost start prev nb 0 = .ok out) :
    ∀ j b, nb[j]? = some b →
      ∃ c, Conf.replay start.conf (nb.take (j - 1)) = .ok c ∧
        JFact env cfg lastHost c (if j = 0 then prev else nb[j - 1]?) b j := by
  intro j b hj
  cases nb with
  | nil => cases hj
  | cons b0 rest =>
    obtain ⟨hchk, nl1, ha, hrec⟩ := verifyLoop_cons_inv h
    simp only [Ledger.loopAppend, beq_self_eq_true, if_true] at ha
    injection ha with ha
    subst ha
    cases j with
    | zero =>
      simp only [List.getElem?_cons_zero, Option.some.injEq] at hj
      subst hj
      refine ⟨start.conf, by simp [Conf.replay], ?_⟩
      simpa using loopCheck_jfact hchk
    | succ j =>
      have hlast : ({ start with blocks := start.blocks ++ [b0] } : Ledger).blocks.getLast? = some b0 := by simp
      obtain ⟨c, hc, hf⟩ := verifyLoop_jfacts_succ env cfg now lastHost rest
        { start with blocks := start.blocks ++ [b0] } out b0 1 (by omega) hlast hrec j b (by simpa using hj)
      refine ⟨c, ?_, ?_⟩
      · simpa [Ledger.conf] using hc
      · have e : 1 + j = j + 1 := by omega
        rw [e] at hf
        cases j with
        | zero => simpa using hf
        | succ j => simpa using hf

/-! ## chains -/

/-- two hash-linked chains holding the same block at index `k` have the same first `k+1` blocks -/
theorem take_eq_of_same_block {env : Env} (hinj : Function.Injective env.hash) {S H : List Block}
    (hS : SL.Consec env S) (hH : SL.Consec env H) :
    ∀ (k : Nat) (x : Block), S[k]? = some x → H[k]? = some x → S.take (k + 1) = H.take (k + 1) := by
  intro k
  induction k with
  | zero =>
    intro x h1 h2
    rw [List.take_add_one, List.take_add_one, h1, h2]
    simp
  | succ k ih =>
    intro x h1 h2
    have hkS : k < S.length := by have := (List.getElem?_eq_some_iff.mp h1).1; omega
    have hkH : k < H.length := by have := (List.getElem?_eq_some_iff.mp h2).1; omega
    have ha : S[k]? = some S[k] := List.getElem?_eq_getElem hkS
    have ha' : H[k]? = some H[k] := List.getElem?_eq_getElem hkH
    have e1 : x.prevHash = env.hash S[k] := hS k _ _ ha h1
    have e2 : x.prevHash = env.hash H[k] := hH k _ _ ha' h2
    have hab : S[k] = H[k] := hinj (e1.symm.trans e2)
    have := ih S[k] ha (by rw [hab]; exact ha')
    rw [List.take_add_one (i := k + 1), List.take_add_one (i := k + 1), this, h1, h2]

/-- the judgement of the block at index `h+1` only reads the first `h+2` blocks -/
theorem judged_at_of_take_eq {env : Env} {cfg : Cfg} {S H : List Block} {h : Nat}
    (hH : ChainJudged env cfg H) (ht : S.take (h + 2) = H.take (h + 2)) {p b : Block}
    (hp : S[h]? = some p) (hb : S[h + 1]? = some b) :
    ∃ c, (Conf.replay Conf.empty (S.take h) = .ok c ∨ Conf.replay Conf.empty (S.take (h + 1)) = .ok c) ∧
      BlockJudged env cfg c b p.ts := by
  have g : ∀ i, i < h + 2 → S[i]? = H[i]? := by
    intro i hi
    have := congrArg (fun l => l[i]?) ht
    simpa [List.getElem?_take, hi] using this
  have t : ∀ m, m ≤ h + 2 → S.take m = H.take m := by
    intro m hm
    have := congrArg (List.take m) ht
    simpa [List.take_take, Nat.min_eq_left hm] using this
  obtain ⟨c, hc, hj⟩ := hH h p b (by rw [← g h (by omega)]; exact hp) (by rw [← g (h + 1) (by omega)]; exact hb)
  refine ⟨c, ?_, hj⟩
  rw [t h (by omega), t (h + 1) (by omega)]
  exact hc

theorem conf_empty_start : (⟨[], .empty, .empty⟩ : Ledger).conf = Conf.empty := rfl

/-- full re-sync: a chain accepted by `verify` from height 0 is judged block by block (blocks not re-verified
    are, by injectivity of the hash, the host's own blocks on the host's own prefix) -/
theorem judged_phase2 {env : Env} {cfg : Cfg} {host : Ledger} {hb nb : List Block} {now : Int}
    (hinj : Function.Injective env.hash) (hlinked : SL.Consec env hb) (hj : ChainJudged env cfg hb)
    (hv : Ledger.verify env cfg host hb.dropLast nb [] now = .ok nb) :
    ChainJudged env cfg nb := by
  obtain ⟨_, _, _, out, hl⟩ := SL.verify_ok hv
  simp only [List.isEmpty_nil, if_true] at hl
  have hlnb : SL.Consec env nb := ((SL.linkedFrom_iff env _ nb).mp (SL.verify_linked hv)).2
  intro h p b hp hbk
  obtain ⟨c, hc, hf⟩ := verifyLoop_jfacts hl (h + 1) b hbk
  simp only [Nat.add_sub_cancel, Nat.succ_ne_zero, if_false, conf_empty_start] at hc hf
  rcases hf p (by simpa using hp) with ⟨x, hx, he⟩ | hjd
  · have hbx : b = x := hinj he
    subst hbx
    have hH : hb[h + 1]? = some b := ShapeL.dropLast_getElem? hb (h + 1) b hx
    have ht := take_eq_of_same_block hinj hlnb hlinked (h + 1) b hbk hH
    exact judged_at_of_take_eq hj ht hp hbk
  · exact ⟨c, Or.inl hc, hjd⟩

/-- incremental adoption / competing tip: `old ++ nb` where `nb` was accepted by `verify` on top of the host's
    chain minus its tip -/
theorem judged_phase1 {env : Env} {cfg : Cfg} {host : Ledger} {nb : List Block} {now : Int}
    (hinj : Function.Injective env.hash) (hj : ChainJudged env cfg host.blocks) (hd : Derived host)
    (h2 : host.blocks.length > 2)
    (hv : Ledger.verify env cfg host host.blocks.getLast?.toList nb host.blocks.dropLast now = .ok nb) :
    ChainJudged env cfg (host.blocks.dropLast ++ nb) := by
  obtain ⟨_, _, _, out, hl⟩ := SL.verify_ok hv
  have hne : host.blocks ≠ [] := by intro e; rw [e] at h2; simp at h2
  have hone : host.blocks.dropLast ≠ [] := by
    intro e
    have := congrArg List.length e
    simp at this; omega
  have hemp : host.blocks.dropLast.isEmpty = false := by
    cases hx : host.blocks.dropLast with
    | nil => exact absurd hx hone
    | cons _ _ => rfl
  simp only [hemp, Bool.false_eq_true, if_false] at hl
  have hsc : (⟨host.blocks.dropLast, host.utxos, host.reg⟩ : Ledger).conf = host.conf := rfl
  have holen : host.blocks.dropLast.length = host.blocks.length - 1 := by simp
  have hsplit : host.blocks = host.blocks.dropLast ++ [host.blocks.getLast hne] :=
    (List.dropLast_concat_getLast hne).symm
  intro h p b hp hbk
  by_cases hin : h + 1 < host.blocks.dropLast.length
  · -- both blocks below the old tip: the host's own judgement
    have ht : (host.blocks.dropLast ++ nb).take (h + 2) = host.blocks.take (h + 2) := by
      rw [List.take_append_of_le_length (by omega)]
      conv => rhs; rw [hsplit]
      rw [List.take_append_of_le_length (by omega)]
    exact judged_at_of_take_eq hj ht hp hbk
  · -- b = nb[j]
    have hge : host.blocks.dropLast.length ≤ h + 1 := by omega
    obtain ⟨j, hjeq⟩ : ∃ j, h + 1 = host.blocks.dropLast.length + j := ⟨h + 1 - host.blocks.dropLast.length, by omega⟩
    have hbj : nb[j]? = some b := by
      rw [hjeq, List.getElem?_append_right (by omega)] at hbk
      simpa using hbk
    obtain ⟨c, hc, hf⟩ := verifyLoop_jfacts hl j b hbj
    rw [hsc] at hc
    cases j with
    | zero =>
      -- the competitor of (or the same block as) the host's tip; predecessor = last block of old
      have hh : h = host.blocks.dropLast.length - 1 := by omega
      have hpl : host.blocks.dropLast.getLast? = some p := by
        rw [List.getElem?_append_left (by omega)] at hp
        rw [List.getLast?_eq_getElem?, ← hh]; exact hp
      simp only [Nat.zero_sub, List.take_zero, if_true] at hc hf
      simp only [Conf.replay, Except.ok.injEq] at hc
      subst hc
      rcases hf p hpl with ⟨x, hx, he⟩ | hjd
      · have hbx : b = x := hinj he
        subst hbx
        have hxt : host.blocks.getLast? = some b := by
          cases hgl : host.blocks.getLast? with
          | none => rw [hgl] at hx; simp at hx
          | some t => rw [hgl] at hx; simp at hx; rw [hx]
        have hbt : b = host.blocks.getLast hne := by
          rw [List.getLast?_eq_some_getLast hne] at hxt; exact (Option.some.inj hxt).symm
        have ht : (host.blocks.dropLast ++ nb).take (h + 2) = host.blocks.take (h + 2) := by
          have e1 : h + 2 = host.blocks.dropLast.length + 1 := by omega
          rw [e1, List.take_append, List.take_of_length_le (by omega)]
          simp only [Nat.add_sub_cancel_left]
          rw [List.take_add_one, List.take_zero, hbj]
          conv => rhs; rw [hsplit]
          rw [List.take_of_length_le (by simp)]
          simp [hbt]
        exact judged_at_of_take_eq hj ht hp hbk
      · refine ⟨host.conf, Or.inr ?_, hjd⟩
        have : (host.blocks.dropLast ++ nb).take (h + 1) = host.blocks.dropLast := by
          have e1 : h + 1 = host.blocks.dropLast.length := by omega
          rw [e1, List.take_append_of_le_length (Nat.le_refl _), List.take_length]
        rw [this]; exact hd
    | succ j =>
      have hpj : nb[j]? = some p := by
        have : h = host.blocks.dropLast.length + j := by omega
        rw [this, List.getElem?_append_right (by omega)] at hp
        simpa using hp
      simp only [Nat.add_sub_cancel, Nat.succ_ne_zero, if_false] at hc hf
      rcases hf p hpj with ⟨x, hx, _⟩ | hjd
      · -- the host blocks compared with are the single old tip: no entry at index ≥ 1
        cases hgl : host.blocks.getLast? with
        | none => rw [hgl] at hx; simp at hx
        | some t => rw [hgl] at hx; simp at hx
      · refine ⟨c, Or.inl ?_, hjd⟩
        have e1 : h = host.blocks.dropLast.length + j := by omega
        have : (host.blocks.dropLast ++ nb).take h = host.blocks.dropLast ++ nb.take j := by
          rw [e1, List.take_append, List.take_of_length_le (by omega)]
          simp
        rw [this, Conf.replay_append, hd]
        exact hc

/-! ## every operation keeps the invariant -/

theorem chainJudged_nil (env : Env) (cfg : Cfg) : ChainJudged env cfg [] := fun h p b hp _ => by cases hp

theorem judged_step {env : Env} {cfg : Cfg} (hmin : 1 ≤ cfg.minFee) (hinj : Function.Injective env.hash)
    {n : Node} (hr : Reachable env cfg n) (hts : TsOk n.led.blocks) (hj : ChainJudged env cfg n.led.blocks)
    (op : Op) (hw : op.WF) : ChainJudged env cfg (Ru.step env cfg n op).led.blocks := by
  have hstep := C12_step_prefix env cfg n op hw
  cases op with
  | submit tx => simp only at hstep; rw [hstep]; exact hj
  | regsync newly => simp only at hstep; rw [hstep]; exact hj
  | tick ts perm rid =>
    rw [SL.step_tick]
    by_cases hperm : perm.isPerm n.pool = true
    · rw [if_pos hperm]
      cases hp : n.produce env cfg ts perm rid with
      | none => exact hj
      | some n' =>
        simp only [Option.getD_some]
        by_cases h0 : n.led.lastTs = 0
        · -- a first block: nothing above it
          have hnil : n.led.blocks = [] := by
            by_cases hne : n.led.blocks = []
            · exact hne
            · have hl := List.getLast?_eq_some_getLast hne
              have := ShapeL.tsok_tip hts hl
              rw [ShapeL.lastTs_of_getLast hl] at h0
              exact absurd h0 this
          obtain ⟨txs, na, hab⟩ := SL.produce_some hp
          obtain ⟨b, hb, _⟩ := SL.addBlock_ok hab
          rw [hb, hnil]
          intro h p b' _ hb'
          simp at hb'
        · obtain ⟨b, hb, _, hjb⟩ := judged_of_produce hmin h0 hp
          have hne : n.led.blocks ≠ [] := by
            intro e
            apply h0
            simp [Ledger.lastTs, e]
          have hl := List.getLast?_eq_some_getLast hne
          rw [hb]
          intro h p b' hp' hb'
          by_cases hin : h + 1 < n.led.blocks.length
          · have ht : (n.led.blocks ++ [b]).take (h + 2) = n.led.blocks.take (h + 2) :=
              List.take_append_of_le_length (by omega)
            exact judged_at_of_take_eq hj ht hp' hb'
          · have hlen : h + 1 = n.led.blocks.length := by
              have := (List.getElem?_eq_some_iff.mp hb').1
              simp at this; omega
            have hbb : b' = b := by
              rw [hlen, List.getElem?_append_right (Nat.le_refl _)] at hb'
              simpa using hb'.symm
            have hpp : n.led.blocks.getLast? = some p := by
              rw [List.getElem?_append_left (by omega)] at hp'
              rw [List.getLast?_eq_getElem?]
              have : n.led.blocks.length - 1 = h := by omega
              rw [this]; exact hp'
            have hpts : p.ts = n.led.lastTs := (ShapeL.lastTs_of_getLast hpp).symm
            subst hbb
            refine ⟨n.led.conf, Or.inl ?_, by rw [hpts]; exact hjb⟩
            have : (n.led.blocks ++ [b']).take h = n.led.blocks.dropLast := by
              rw [List.take_append_of_le_length (by omega), List.dropLast_eq_take]
              congr 1; omega
            rw [this]
            exact C07_invariant env cfg n hr
    · rw [if_neg hperm]; exact hj
  | sync now resps pick =>
    simp only at hstep
    rcases hstep with h | ⟨_, h2, nb, hv, hb⟩ | ⟨_, nb, hv, hb⟩
    · rw [h]; exact hj
    · rw [hb]; exact judged_phase1 hinj hj (C07_invariant env cfg n hr) h2 hv
    · rw [hb]; exact judged_phase2 hinj (C12_chain_linked_invariant env cfg n hr).2 hj hv

theorem judged_run {env : Env} {cfg : Cfg} (hmin : 1 ≤ cfg.minFee) (hinj : Function.Injective env.hash) :
    ∀ (ops : List Op) (n : Node), Reachable env cfg n → TsOk n.led.blocks → ChainJudged env cfg n.led.blocks →
      (∀ o ∈ ops, o.WF) → (∀ o ∈ ops, TickNonzero o) →
      ChainJudged env cfg (Ru.run env cfg n ops).led.blocks := by
  intro ops
  induction ops with
  | nil => intro n _ _ hj _ _; simpa [Ru.run] using hj
  | cons op rest ih =>
    intro n hr hts hj hw hnz
    have ho : op.WF := hw op (by simp)
    have : Ru.run env cfg n (op :: rest) = Ru.run env cfg (Ru.step env cfg n op) rest := by simp [Ru.run]
    rw [this]
    exact ih _ (hr.next op ho) (ShapeL.tsok_step hinj hts op ho (hnz op (by simp)))
      (judged_step hmin hinj hr hts hj op ho)
      (fun x hx => hw x (by simp [hx])) (fun x hx => hnz x (by simp [hx]))

end JudgedL
end Ru
