/-
  Core/Lemmas/Interleave.lean — every history with tick-inside-sync interleavings is simulated by a sequential
  history made of the same ticks and sync rounds: each `syncTick` behaves as its tick alone (the round gave up) or
  as its sync round alone (the tick was refused).
-/
import Core.Interleave
import Core.Lemmas.SyncL
open Std

namespace Ru

/-- a successful production appends exactly one block -/
theorem produce_length {env : Env} {cfg : Cfg} {n n' : Node} {ts : Int} {perm : List Tx} {rid : String}
    (h : n.produce env cfg ts perm rid = some n') : n'.led.blocks.length = n.led.blocks.length + 1 := by
  obtain ⟨txs, na, ha⟩ := SL.produce_some h
  obtain ⟨_, c, hc, hl⟩ := Ledger.addBlock_inv ha
  rw [hl]
  simp [SL.confirmLast_blocks hc]

theorem admitTx_led (env : Env) (cfg : Cfg) (n : Node) (tx : Tx) : (n.admitTx env cfg tx).led = n.led := by
  unfold Node.admitTx
  split <;> rfl

/-- **one step.** an extended operation behaves as a sequential run of (some of) the operations it is made of -/
theorem stepX_shadow (env : Env) (cfg : Cfg) (n : Node) (x : OpX) :
    ∃ os : List Op, (∀ o ∈ os, o ∈ x.shadows) ∧ stepX env cfg n x = run env cfg n os := by
  cases x with
  | base o => exact ⟨[o], by simp [OpX.shadows], rfl⟩
  | syncTick now resps pick ts perm rid =>
    simp only [stepX, OpX.shadows]
    by_cases hlen : (step env cfg n (.tick ts perm rid)).led.blocks.length = n.led.blocks.length
    · -- the chain is the snapshot: the tick was refused, the node is as it was, the round commits alone
      have hn1 : step env cfg n (.tick ts perm rid) = n := by
        simp only [step] at hlen ⊢
        split
        · rename_i hp
          rw [if_pos hp] at hlen
          cases hprod : n.produce env cfg ts perm rid with
          | none => rfl
          | some n' =>
            rw [hprod] at hlen
            simp only [Option.getD_some] at hlen
            have := produce_length hprod
            omega
        · rfl
      rw [if_pos hlen, hn1]
      refine ⟨[.sync now resps pick], by simp, ?_⟩
      simp only [run, List.foldl_cons, List.foldl_nil, step]
      cases (Sync.outcomes env cfg n.led now resps)[pick]? <;> rfl
    · rw [if_neg hlen]
      exact ⟨[.tick ts perm rid], by simp, rfl⟩
  | syncSubmit now resps pick tx =>
    refine ⟨[.submit tx, .sync now resps pick], by simp [OpX.shadows], ?_⟩
    simp only [stepX, run, List.foldl_cons, List.foldl_nil, step, admitTx_led]
    cases (Sync.outcomes env cfg n.led now resps)[pick]? <;> rfl

/-- the interleaved tick: exactly one of the two -/
theorem stepX_syncTick_cases (env : Env) (cfg : Cfg) (n : Node) (now : Int) (resps : List Resp) (pick : Nat)
    (ts : Int) (perm : List Tx) (rid : String) :
    stepX env cfg n (.syncTick now resps pick ts perm rid) = step env cfg n (.tick ts perm rid) ∨
    stepX env cfg n (.syncTick now resps pick ts perm rid) = step env cfg n (.sync now resps pick) := by
  simp only [stepX]
  by_cases hlen : (step env cfg n (.tick ts perm rid)).led.blocks.length = n.led.blocks.length
  · right
    have hn1 : step env cfg n (.tick ts perm rid) = n := by
      simp only [step] at hlen ⊢
      split
      · rename_i hp
        rw [if_pos hp] at hlen
        cases hprod : n.produce env cfg ts perm rid with
        | none => rfl
        | some n' =>
          rw [hprod] at hlen
          simp only [Option.getD_some] at hlen
          have := produce_length hprod
          omega
      · rfl
    rw [if_pos hlen, hn1]
    simp only [step]
    cases (Sync.outcomes env cfg n.led now resps)[pick]? <;> rfl
  · left
    rw [if_neg hlen]

/-- **histories.** every extended history is simulated by a sequential history whose operations are shadows of the
    extended ones (same ticks, same sync rounds, same submissions) -/
theorem runX_simulated (env : Env) (cfg : Cfg) (xs : List OpX) (n : Node) :
    ∃ ops : List Op, runX env cfg n xs = run env cfg n ops ∧
      ∀ o ∈ ops, ∃ x ∈ xs, o ∈ x.shadows := by
  induction xs generalizing n with
  | nil => exact ⟨[], rfl, by simp⟩
  | cons x xs ih =>
    obtain ⟨os, hos, hstep⟩ := stepX_shadow env cfg n x
    obtain ⟨ops, hrun, hsh⟩ := ih (stepX env cfg n x)
    refine ⟨os ++ ops, ?_, ?_⟩
    · show runX env cfg (stepX env cfg n x) xs = run env cfg n (os ++ ops)
      rw [hrun, hstep]
      simp [run, List.foldl_append]
    · intro o' ho'
      rcases List.mem_append.mp ho' with h | h
      · exact ⟨x, List.mem_cons_self, hos o' h⟩
      · obtain ⟨x', hx', hs'⟩ := hsh o' h
        exact ⟨x', List.mem_cons_of_mem _ hx', hs'⟩

/-- a property of operations that holds of every shadow of every extended operation holds of the simulating
    sequential history -/
theorem runX_simulated_with (env : Env) (cfg : Cfg) (P : Op → Prop) (xs : List OpX) (n : Node)
    (hP : ∀ x ∈ xs, ∀ o ∈ x.shadows, P o) :
    ∃ ops : List Op, runX env cfg n xs = run env cfg n ops ∧ ∀ o ∈ ops, P o := by
  obtain ⟨ops, hrun, hsh⟩ := runX_simulated env cfg xs n
  refine ⟨ops, hrun, ?_⟩
  intro o ho
  obtain ⟨x, hx, hs⟩ := hsh o ho
  exact hP x hx o hs

/-- what is reachable with interleavings is reachable without -/
theorem ReachableX.reachable {env : Env} {cfg : Cfg} {n : Node} (h : ReachableX env cfg n) : Reachable env cfg n := by
  obtain ⟨xs, hw, rfl⟩ := h
  obtain ⟨ops, hrun, hP⟩ := runX_simulated_with env cfg Op.WF xs Node.empty (fun x hx => hw x hx)
  exact ⟨ops, hP, hrun⟩

theorem Reachable.reachableX {env : Env} {cfg : Cfg} {n : Node} (h : Reachable env cfg n) : ReachableX env cfg n := by
  obtain ⟨ops, hw, rfl⟩ := h
  refine ⟨ops.map .base, ?_, ?_⟩
  · intro x hx
    obtain ⟨o, ho, rfl⟩ := List.mem_map.mp hx
    intro o' ho'
    simp only [OpX.shadows, List.mem_singleton] at ho'
    subst ho'
    exact hw _ ho
  · simp only [runX, run, List.foldl_map]
    rfl

end Ru
