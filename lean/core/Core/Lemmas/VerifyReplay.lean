/-
  Core/Lemmas/VerifyReplay.lean — a chain accepted by `verify` replays block by block on the state it
  was verified from; origin of every fork-choice candidate.
-/
import Core.Lemmas.Replay
import Core.Lemmas.AddBlock
import Mathlib.Tactic.SplitIfs
open Std

namespace Ru

theorem addBlockRaw_some (nl nl' : Ledger) (p b : Block) (hp : nl.blocks.getLast? = some p)
    (h : nl.addBlockRaw b = .ok nl') :
    nl'.blocks = nl.blocks ++ [b] ∧ nl.conf.step p = .ok nl'.conf := by
  unfold Ledger.addBlockRaw at h
  simp only [hp] at h
  cases hu : nl.utxos.update p.txs p.ts with
  | error e => simp [hu] at h
  | ok u' =>
    simp only [hu] at h
    injection h with h
    subst h
    simp [Conf.step, Ledger.conf, hu, update_registered]

/-- the checks of one loop iteration (hash link + verification of a new block) -/
def Ledger.loopCheck (env : Env) (cfg : Cfg) (now : Int) (lastHost : List Block) (nl : Ledger)
    (prev : Option Block) (b : Block) (i : Nat) : Except String Unit :=
  let prevTs : Int := match prev with | some p => p.ts | none => 0
  let prevHash : Hash := match prev with | some p => env.hash p | none => zeroHash
  if b.prevHash ≠ prevHash then .error "bad-prev-hash"
  else
    let isNew : Bool := match lastHost[i]? with
      | none => true
      | some hb => env.hash b != env.hash hb
    if isNew && !prev.isNone then Ledger.verifyBlock env cfg nl b prevTs now else .ok ()

/-- how one loop iteration extends the chain under construction -/
def Ledger.loopAppend (nl : Ledger) (b : Block) (i : Nat) : Except String Ledger :=
  if i == 0 then .ok { nl with blocks := nl.blocks ++ [b] } else nl.addBlockRaw b

theorem verifyLoop_cons (env : Env) (cfg : Cfg) (now : Int) (lastHost : List Block) (nl : Ledger)
    (prev : Option Block) (b : Block) (rest : List Block) (i : Nat) :
    Ledger.verifyLoop env cfg now lastHost nl prev (b :: rest) i =
      match Ledger.loopCheck env cfg now lastHost nl prev b i with
      | .error e => .error e
      | .ok () =>
        match Ledger.loopAppend nl b i with
        | .error e => .error e
        | .ok nl1 => Ledger.verifyLoop env cfg now lastHost nl1 (some b) rest (i + 1) := by
  conv => lhs; unfold Ledger.verifyLoop
  unfold Ledger.loopCheck Ledger.loopAppend
  simp only []
  split_ifs <;> first | rfl | contradiction

theorem verifyLoop_cons_ok {env : Env} {cfg : Cfg} {now : Int} {lastHost : List Block} {nl nl' : Ledger}
    {prev : Option Block} {b : Block} {rest : List Block} {i : Nat}
    (h : Ledger.verifyLoop env cfg now lastHost nl prev (b :: rest) i = .ok nl') :
    ∃ nl1, Ledger.loopAppend nl b i = .ok nl1 ∧
      Ledger.verifyLoop env cfg now lastHost nl1 (some b) rest (i + 1) = .ok nl' := by
  rw [verifyLoop_cons] at h
  cases hc : Ledger.loopCheck env cfg now lastHost nl prev b i with
  | error e => simp [hc] at h
  | ok u =>
    cases u
    simp only [hc] at h
    cases ha : Ledger.loopAppend nl b i with
    | error e => simp [ha] at h
    | ok nl1 => exact ⟨nl1, rfl, by simpa [ha] using h⟩

/-- loop invariant for iterations after the first: the previous neighbour block `p` is the tip of the
    chain under construction and has not been applied yet -/
theorem verifyLoop_replays_succ (env : Env) (cfg : Cfg) (now : Int) (lastHost : List Block) :
    ∀ (rest : List Block) (nl nl' : Ledger) (p : Block) (i : Nat), i ≠ 0 → nl.blocks.getLast? = some p →
      Ledger.verifyLoop env cfg now lastHost nl (some p) rest i = .ok nl' →
      nl'.blocks = nl.blocks ++ rest ∧ Conf.replay nl.conf ((p :: rest).dropLast) = .ok nl'.conf := by
  intro rest
  induction rest with
  | nil =>
    intro nl nl' p i _ _ h
    simp [Ledger.verifyLoop] at h
    subst h
    simp [Conf.replay]
  | cons b rest ih =>
    intro nl nl' p i hi hp h
    obtain ⟨nl1, ha, hrec⟩ := verifyLoop_cons_ok h
    have hi0 : (i == 0) = false := by simp [hi]
    simp only [Ledger.loopAppend, hi0] at ha
    obtain ⟨hb1, hs1⟩ := addBlockRaw_some nl nl1 p b hp (by simpa using ha)
    have hlast : nl1.blocks.getLast? = some b := by simp [hb1]
    obtain ⟨hb2, hr2⟩ := ih nl1 nl' b (i + 1) (by omega) hlast hrec
    refine ⟨by simp [hb2, hb1], ?_⟩
    have : (p :: b :: rest).dropLast = p :: (b :: rest).dropLast := by simp [List.dropLast]
    rw [this]
    simp [Conf.replay, hs1, hr2]

/-- the whole loop, entered at index 0: all blocks but the last are applied, in order -/
theorem verifyLoop_replays (env : Env) (cfg : Cfg) (now : Int) (lastHost : List Block)
    (start nl' : Ledger) (prev : Option Block) (nb : List Block)
    (h : Ledger.verifyLoop env cfg now lastHost start prev nb 0 = .ok nl') :
    nl'.blocks = start.blocks ++ nb ∧ Conf.replay start.conf nb.dropLast = .ok nl'.conf := by
  cases nb with
  | nil =>
    simp [Ledger.verifyLoop] at h
    subst h
    simp [Conf.replay]
  | cons b rest =>
    obtain ⟨nl1, ha, hrec⟩ := verifyLoop_cons_ok h
    simp only [Ledger.loopAppend, beq_self_eq_true, if_true] at ha
    injection ha with ha
    subst ha
    have hlast : ({ start with blocks := start.blocks ++ [b] } : Ledger).blocks.getLast? = some b := by simp
    obtain ⟨hb, hr⟩ := verifyLoop_replays_succ env cfg now lastHost rest
      { start with blocks := start.blocks ++ [b] } nl' b 1 (by omega) hlast hrec
    refine ⟨by simpa using hb, ?_⟩
    simpa [Ledger.conf] using hr

/-- inversion of `verify`: the loop ran from `verifyStart` and the final AddBlock succeeded -/
theorem verify_inv (env : Env) (cfg : Cfg) (host : Ledger) (lastHost nb oldHost v : List Block) (now : Int)
    (h : Ledger.verify env cfg host lastHost nb oldHost now = .ok v) :
    v = nb ∧ ∃ nl fin, Ledger.verifyLoop env cfg now lastHost
        (if oldHost.isEmpty then ⟨[], .empty, .empty⟩ else ⟨oldHost, host.utxos, host.reg⟩)
        oldHost.getLast? nb 0 = .ok nl ∧ nl.addBlock env (nl.lastTs + cfg.interval) [] [] = .ok fin := by
  unfold Ledger.verify at h
  generalize hs : (if oldHost.isEmpty = true then (⟨[], .empty, .empty⟩ : Ledger)
      else ⟨oldHost, host.utxos, host.reg⟩) = start at h ⊢
  split_ifs at h
  cases hl : Ledger.verifyLoop env cfg now lastHost start oldHost.getLast? nb 0 with
  | error e => simp [hl] at h
  | ok nl =>
    simp only [hl] at h
    cases ha : nl.addBlock env (nl.lastTs + cfg.interval) [] [] with
    | error e => simp [ha] at h
    | ok fin =>
      simp only [ha] at h
      injection h with h
      exact ⟨h.symm, nl, fin, rfl, ha⟩

/-- the state `verify` starts from -/
def verifyStart (host : Ledger) (oldHost : List Block) : Ledger :=
  if oldHost.isEmpty then ⟨[], .empty, .empty⟩ else ⟨oldHost, host.utxos, host.reg⟩

/-- A chain accepted by `verify` is returned unchanged and ALL its blocks replay, in order, on the state
    verification started from (the final `AddBlock` replays the last one). -/
theorem verify_replays (env : Env) (cfg : Cfg) (host : Ledger) (lastHost nb oldHost v : List Block) (now : Int)
    (h : Ledger.verify env cfg host lastHost nb oldHost now = .ok v) :
    v = nb ∧ ∃ c, Conf.replay (verifyStart host oldHost).conf nb = .ok c := by
  obtain ⟨hv, nl, fin, hl, ha⟩ := verify_inv env cfg host lastHost nb oldHost v now h
  refine ⟨hv, ?_⟩
  obtain ⟨hb, hr⟩ := verifyLoop_replays env cfg now lastHost _ nl _ nb hl
  obtain ⟨_, c0, hc0, _⟩ := Ledger.addBlock_inv ha
  cases hc : nl.confirmLast with
  | error e => rw [hc] at hc0; cases hc0
  | ok c =>
    obtain ⟨_, hm⟩ := confirmLast_conf nl c hc
    by_cases hne : nb = []
    · subst hne
      exact ⟨(verifyStart host oldHost).conf, by simp [Conf.replay]⟩
    · have hlast : nl.blocks.getLast? = some (nb.getLast hne) := by
        rw [hb, List.getLast?_append, List.getLast?_eq_some_getLast hne]
        simp
      simp only [hlast] at hm
      refine ⟨c.conf, ?_⟩
      have hsplit : nb = nb.dropLast ++ [nb.getLast hne] := (List.dropLast_concat_getLast hne).symm
      rw [hsplit, Conf.replay_append]
      unfold verifyStart
      rw [hr]
      simp [Conf.replay, hm]

theorem Conf.replay_prefix (c c' : Conf) (xs ys : List Block) (h : Conf.replay c (xs ++ ys) = .ok c') :
    ∃ c1, Conf.replay c xs = .ok c1 ∧ Conf.replay c1 ys = .ok c' := by
  rw [Conf.replay_append] at h
  cases h1 : Conf.replay c xs with
  | error e => simp [h1] at h
  | ok c1 => exact ⟨c1, rfl, by simpa [h1] using h⟩

-- ---------------------------------------------------------------- candidates

theorem Cands.mem_set {c : Cands} {t : String} {bs : List Block} {x : String × List Block}
    (h : x ∈ c.set t bs) : x = (t, bs) ∨ x ∈ c := by
  unfold Cands.set at h
  split at h
  · simp only [List.mem_map] at h
    obtain ⟨y, hy, hxy⟩ := h
    split at hxy
    · exact Or.inl hxy.symm
    · exact Or.inr (hxy ▸ hy)
  · simp only [List.mem_append, List.mem_singleton] at h
    rcases h with h | h
    · exact Or.inr h
    · exact Or.inl h

/-- `lastHostBlocks` of the incremental phase: the host's tip -/
def tipList (host : Ledger) : List Block :=
  match host.blocks.getLast? with
  | some b => [b]
  | none => []

/-- where a candidate chain comes from -/
inductive CandOrigin (env : Env) (cfg : Cfg) (host : Ledger) (now : Int) (isFork : Bool) (bs : List Block) : Prop
  | host (h : bs = host.blocks)
  | incremental (nb : List Block)
      (hv : Ledger.verify env cfg host (tipList host) nb host.blocks.dropLast now = .ok nb)
      (hbs : bs = host.blocks.dropLast ++ nb)
  | full (hf : isFork = true) (nb : List Block)
      (hv : Ledger.verify env cfg host host.blocks.dropLast nb [] now = .ok nb) (hbs : bs = nb)

theorem phase1_step (env : Env) (cfg : Cfg) (host : Ledger) (now : Int) (r : Resp) (rs : List Resp) (c : Cands) :
    Sync.phase1 env cfg host now (r :: rs) c =
      Sync.phase1 env cfg host now rs
        (match r.first with
         | none => c
         | some nb =>
           match Ledger.verify env cfg host (tipList host) nb host.blocks.dropLast now with
           | .error _ => c
           | .ok verified => c.set r.target (host.blocks.dropLast ++ verified)) := by
  conv => lhs; unfold Sync.phase1
  rfl

theorem phase1_origin (env : Env) (cfg : Cfg) (host : Ledger) (now : Int) (isFork : Bool) :
    ∀ (resps : List Resp) (c : Cands), (∀ x ∈ c, CandOrigin env cfg host now isFork x.2) →
      ∀ x ∈ Sync.phase1 env cfg host now resps c, CandOrigin env cfg host now isFork x.2 := by
  intro resps
  induction resps with
  | nil => intro c hc x hx; exact hc x (by simpa [Sync.phase1] using hx)
  | cons r rs ih =>
    intro c hc x hx
    rw [phase1_step] at hx
    refine ih _ ?_ x hx
    intro y hy
    cases hf : r.first with
    | none => rw [hf] at hy; exact hc y hy
    | some nb =>
      rw [hf] at hy
      simp only [] at hy
      cases hv : Ledger.verify env cfg host (tipList host) nb host.blocks.dropLast now with
      | error e => rw [hv] at hy; exact hc y hy
      | ok verified =>
        rw [hv] at hy
        rcases Cands.mem_set hy with h | h
        · subst h
          obtain ⟨hvn, _⟩ := verify_replays env cfg host (tipList host) nb host.blocks.dropLast verified now hv
          subst hvn
          exact CandOrigin.incremental verified hv rfl
        · exact hc y h

theorem phase2_step (env : Env) (cfg : Cfg) (host : Ledger) (now : Int) (r : Resp) (rs : List Resp) (c : Cands) :
    Sync.phase2 env cfg host now (r :: rs) c =
      Sync.phase2 env cfg host now rs
        (match r.second with
         | none => c
         | some nb =>
           match Ledger.verify env cfg host host.blocks.dropLast nb [] now with
           | .error _ => c
           | .ok verified => c.set r.target verified) := by
  conv => lhs; unfold Sync.phase2
  rfl

theorem phase2_origin (env : Env) (cfg : Cfg) (host : Ledger) (now : Int) :
    ∀ (resps : List Resp) (c : Cands), (∀ x ∈ c, CandOrigin env cfg host now true x.2) →
      ∀ x ∈ Sync.phase2 env cfg host now resps c, CandOrigin env cfg host now true x.2 := by
  intro resps
  induction resps with
  | nil => intro c hc x hx; exact hc x (by simpa [Sync.phase2] using hx)
  | cons r rs ih =>
    intro c hc x hx
    rw [phase2_step] at hx
    refine ih _ ?_ x hx
    intro y hy
    cases hf : r.second with
    | none => rw [hf] at hy; exact hc y hy
    | some nb =>
      rw [hf] at hy
      simp only [] at hy
      cases hv : Ledger.verify env cfg host host.blocks.dropLast nb [] now with
      | error e => rw [hv] at hy; exact hc y hy
      | ok verified =>
        rw [hv] at hy
        rcases Cands.mem_set hy with h | h
        · subst h
          obtain ⟨hvn, _⟩ := verify_replays env cfg host host.blocks.dropLast nb [] verified now hv
          subst hvn
          exact CandOrigin.full rfl verified hv rfl
        · exact hc y h

theorem CandOrigin.weaken {env : Env} {cfg : Cfg} {host : Ledger} {now : Int} {bs : List Block}
    (h : CandOrigin env cfg host now false bs) : CandOrigin env cfg host now true bs := by
  cases h with
  | host h => exact .host h
  | incremental nb hv hbs => exact .incremental nb hv hbs
  | full hf _ _ _ => simp at hf

/-- the candidate map after phase 1 -/
def cands1 (env : Env) (cfg : Cfg) (host : Ledger) (now : Int) (resps : List Resp) : Cands :=
  if host.blocks.length > 2 then Sync.phase1 env cfg host now resps [("host", host.blocks)] else []

theorem cands1_origin (env : Env) (cfg : Cfg) (host : Ledger) (now : Int) (resps : List Resp) :
    ∀ x ∈ cands1 env cfg host now resps, CandOrigin env cfg host now false x.2 := by
  intro x hx
  unfold cands1 at hx
  split at hx
  · refine phase1_origin env cfg host now false resps _ ?_ x hx
    intro y hy
    simp at hy
    subst hy
    exact .host rfl
  · simp at hx

theorem choose_cands (env : Env) (cfg : Cfg) (host : Ledger) (now : Int) (resps : List Resp) :
    (Sync.choose env cfg host now resps).isFork =
        (decide (host.blocks.length > 0) && decide ((cands1 env cfg host now resps).length < 2) && decide (resps.length > 0)) ∧
    (Sync.choose env cfg host now resps).cands =
      (if (decide (host.blocks.length > 0) && decide ((cands1 env cfg host now resps).length < 2) && decide (resps.length > 0)) = true
       then Sync.phase2 env cfg host now resps (cands1 env cfg host now resps)
       else cands1 env cfg host now resps) := by
  unfold Sync.choose cands1
  by_cases h : host.blocks.length > 2 <;> simp [h]

/-- every candidate of a sync round is the host's own chain or a chain accepted by `verify` -/
theorem choose_origin (env : Env) (cfg : Cfg) (host : Ledger) (now : Int) (resps : List Resp) :
    ∀ x ∈ (Sync.choose env cfg host now resps).cands,
      CandOrigin env cfg host now (Sync.choose env cfg host now resps).isFork x.2 := by
  intro x hx
  obtain ⟨hf, hc⟩ := choose_cands env cfg host now resps
  rw [hc] at hx
  rw [hf]
  split at hx
  · rename_i hfork
    rw [hfork]
    exact phase2_origin env cfg host now resps _ (fun y hy => (cands1_origin env cfg host now resps y hy).weaken) x hx
  · rename_i hfork
    have : (decide (host.blocks.length > 0) && decide ((cands1 env cfg host now resps).length < 2) &&
        decide (resps.length > 0)) = false := by simpa using hfork
    rw [this]
    exact cands1_origin env cfg host now resps x hx

end Ru
