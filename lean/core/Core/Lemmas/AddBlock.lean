/-
  Core/Lemmas/AddBlock.lean — inversion of `Ledger.addBlock` (with the not-after-tip guard of the fix: commit).
-/
import Core.Chain
open Std

namespace Ru
namespace Ledger

/-- `AddBlock` succeeded: the block is dated after the tip (or the chain was empty), the previous tip was
    confirmed, and exactly `mkBlock` was appended -/
theorem addBlock_inv {env : Env} {l l' : Ledger} {ts : Int} {txs : List Tx} {na : List String}
    (h : l.addBlock env ts txs na = .ok l') :
    (l.blocks = [] ∨ l.lastTs < ts) ∧
    ∃ c, l.confirmLast = .ok c ∧ l' = { c with blocks := c.blocks ++ [mkBlock env l c ts txs na] } := by
  unfold addBlock at h
  by_cases hnt : (!l.blocks.isEmpty && decide (ts ≤ l.lastTs)) = true
  · rw [if_pos hnt] at h; cases h
  rw [if_neg hnt] at h
  refine ⟨?_, ?_⟩
  · by_cases hb : l.blocks = []
    · exact Or.inl hb
    · right
      have : ¬ (ts ≤ l.lastTs) := by
        intro hle; apply hnt; simp [hb, hle]
      omega
  · cases hc : l.confirmLast with
    | error e => rw [hc] at h; cases h
    | ok c =>
      rw [hc] at h
      injection h with h
      exact ⟨c, rfl, h.symm⟩

/-- `AddBlock` when the guard passes -/
theorem addBlock_of_after_tip {env : Env} {l : Ledger} {ts : Int} {txs : List Tx} {na : List String}
    (hat : l.blocks = [] ∨ l.lastTs < ts) :
    l.addBlock env ts txs na =
      match l.confirmLast with
      | .error e => .error e
      | .ok c => .ok { c with blocks := c.blocks ++ [mkBlock env l c ts txs na] } := by
  unfold addBlock
  have hnt : ¬ ((!l.blocks.isEmpty && decide (ts ≤ l.lastTs)) = true) := by
    rcases hat with hb | hlt
    · simp [hb]
    · simp; intro _; omega
  rw [if_neg hnt]
  cases l.confirmLast <;> rfl

end Ledger
end Ru
