/-
  Core/Lemmas/Spend.lean — spending confirmed outputs: frame lemmas forward through a batch, success of the replay of
  a transaction whose inputs are distinct live useful outputs, preservation of the one-income rule by a transaction
  without yielding outputs, and congruence of the fee calculation in the looked-up outputs.
-/
import Core.Lemmas.Registry
import Core.Lemmas.Agree
open Std

namespace Ru
namespace UtxoReg

/-! ### forward frame through a batch -/

/-- a useful output (non-zero or yielding) that no transaction of the batch consumes and whose id no transaction of
    the batch (re-)creates is still live, unchanged, after the batch -/
theorem applyTxs_live_fwd_useful {st st' : UtxoReg} {txs : List Tx} {ts : Int} (h : applyTxs st txs ts = .ok st')
    {id : String} {idx : Nat} {v : Utxo} (hv : live st id idx = some v) (huse : slotLive (some v) = true)
    (hid : ∀ t ∈ txs, t.id ≠ id)
    (hin : ∀ t ∈ txs, ∀ j ∈ t.inputs, (id, idx) ≠ (j.txId, j.index)) : live st' id idx = some v := by
  induction txs generalizing st with
  | nil => unfold applyTxs at h; injection h with h; subst h; exact hv
  | cons t txs ih =>
    obtain ⟨st1, h1, h2⟩ := applyTxs_cons_ok h
    obtain ⟨_, _, hc⟩ := applyTx_ok h1
    have hv0 : live (afterCreate st t ts) id idx = some v := by
      rw [afterCreate_live_other st t ts (Ne.symm (hid t List.mem_cons_self))]; exact hv
    have hv1 := consumeAll_live_fwd_useful hc hv0 (hin t List.mem_cons_self) huse
    exact ih h2 hv1 (fun t' ht' => hid t' (List.mem_cons_of_mem _ ht'))
      (fun t' ht' => hin t' (List.mem_cons_of_mem _ ht'))

/-! ### replay of a transaction whose inputs are distinct live useful outputs -/

theorem consumeAll_ok_of_live_distinct : ∀ (is : List Input) (st : UtxoReg),
    (∀ i ∈ is, ∃ u, live st i.txId i.index = some u ∧ slotLive (some u) = true) →
    is.Pairwise (fun a b => (a.txId, a.index) ≠ (b.txId, b.index)) →
    ∃ st', consumeAll st is = .ok st'
  | [], st, _, _ => ⟨st, rfl⟩
  | i :: is, st, hl, hp => by
    obtain ⟨u, hu, _⟩ := hl i List.mem_cons_self
    obtain ⟨st1, h1⟩ := consume_of_live hu
    obtain ⟨hpi, hps⟩ := List.pairwise_cons.mp hp
    have hl1 : ∀ j ∈ is, ∃ u, live st1 j.txId j.index = some u ∧ slotLive (some u) = true := by
      intro j hj
      obtain ⟨uj, huj, hsj⟩ := hl j (List.mem_cons_of_mem _ hj)
      exact ⟨uj, consume_live_fwd_useful h1 huj (Ne.symm (hpi j hj)) hsj, hsj⟩
    obtain ⟨st', h2⟩ := consumeAll_ok_of_live_distinct is st1 hl1 hps
    exact ⟨st', by unfold consumeAll; rw [h1]; exact h2⟩

/-! ### the one-income rule is kept by consumption and by creating non-yielding outputs -/

theorem countYielding_le_of_sublist {l l' : List Utxo} (h : l'.Sublist l) : countYielding l' ≤ countYielding l := by
  unfold countYielding
  exact (h.filter _).length_le

theorem consume_incomes {st st' : UtxoReg} {i : Input} (h : consume st i = .ok st')
    (hinc : incomesOk st.byAddr = true) : incomesOk st'.byAddr = true := by
  rw [incomesOk_iff] at hinc ⊢
  obtain ⟨u, _, hb⟩ := consume_byAddr h
  intro a l hl
  rw [hb a] at hl
  by_cases ha : a = u.out.address
  · rw [if_pos ha] at hl
    split at hl
    · cases hl
    · injection hl with hl
      subst hl
      cases hg : st.byAddr[a]? with
      | none => simp [eraseFirst, countYielding]
      | some l0 =>
        have := hinc a l0 hg
        simp only [Option.getD_some]
        exact Nat.le_trans (countYielding_le_of_sublist (eraseFirst_sublist _ l0)) this
  · rw [if_neg ha] at hl
    exact hinc a l hl

theorem consumeAll_incomes {st st' : UtxoReg} {is : List Input} (h : consumeAll st is = .ok st')
    (hinc : incomesOk st.byAddr = true) : incomesOk st'.byAddr = true :=
  consumeAll_induct (P := fun s => incomesOk s.byAddr = true) (fun _ _ _ hp hc => consume_incomes hc hp) hinc h

theorem afterCreate_incomes_noYield (st : UtxoReg) (tx : Tx) (ts : Int)
    (hny : ∀ o ∈ tx.outputs, o.yielding = false) (hinc : incomesOk st.byAddr = true) :
    incomesOk (afterCreate st tx ts).byAddr = true := by
  unfold afterCreate
  split
  · show incomesOk (addByAddr st.byAddr (mkUtxos tx.id ts tx.outputs 0)) = true
    rw [incomesOk_iff] at hinc ⊢
    intro a l hl
    rw [addByAddr_get] at hl
    split at hl
    · injection hl with hl
      subst hl
      have hnew : countYielding ((mkUtxos tx.id ts tx.outputs 0).filter (fun u => u.out.address == a)) = 0 := by
        unfold countYielding
        rw [List.length_eq_zero_iff, List.filter_eq_nil_iff]
        intro u hu
        obtain ⟨k, o, ho, hue, _⟩ := mem_mkUtxos (List.mem_filter.mp hu).1
        subst hue
        simp [hny o (List.mem_of_getElem? ho)]
      have hold : countYielding (st.byAddr[a]?.getD []) ≤ 1 := by
        cases hg : st.byAddr[a]? with
        | none => simp [countYielding]
        | some l0 => simpa using hinc a l0 hg
      have happ : ∀ (x y : List Utxo), countYielding (x ++ y) = countYielding x + countYielding y := by
        intro x y; simp [countYielding, List.filter_append]
      rw [happ, hnew]; omega
    · exact hinc a l hl
  · exact hinc

/-- a transaction with a fresh id, at least one output, no yielding output, and distinct live useful inputs replays:
    `UpdateUtxos([tx])` succeeds -/
theorem update_single_ok_of_spend {c : UtxoReg} {tx : Tx} {ts : Int}
    (hfresh : c.byId[tx.id]? = none) (hout : tx.outputs ≠ [])
    (hny : ∀ o ∈ tx.outputs, o.yielding = false)
    (hl : ∀ i ∈ tx.inputs, ∃ u, live c i.txId i.index = some u ∧ slotLive (some u) = true)
    (hp : tx.inputs.Pairwise (fun a b => (a.txId, a.index) ≠ (b.txId, b.index)))
    (hinc : incomesOk c.byAddr = true) : (c.update [tx] ts).isOk = true := by
  have hl' : ∀ i ∈ tx.inputs, ∃ u, live (afterCreate c tx ts) i.txId i.index = some u ∧ slotLive (some u) = true := by
    intro i hi
    obtain ⟨u, hu, hs⟩ := hl i hi
    have hne : i.txId ≠ tx.id := by
      intro e
      obtain ⟨slots, hsl, _⟩ := live_eq_some_iff.1 hu
      rw [e, hfresh] at hsl; cases hsl
    exact ⟨u, by rw [afterCreate_live_other c tx ts hne]; exact hu, hs⟩
  obtain ⟨st', hc⟩ := consumeAll_ok_of_live_distinct tx.inputs _ hl' hp
  have hat : applyTx c tx ts = .ok st' := by
    rw [applyTx_eq]
    have h1 : c.byId.contains tx.id = false := by
      rw [TreeMap.contains_eq_isSome_getElem?, hfresh]; rfl
    have h2 : tx.outputs.isEmpty = false := by
      cases ho : tx.outputs with
      | nil => exact absurd ho hout
      | cons _ _ => rfl
    simp only [h1, h2, Bool.false_eq_true, if_false]
    exact hc
  have hinc' : incomesOk st'.byAddr = true :=
    consumeAll_incomes hc (afterCreate_incomes_noYield c tx ts hny hinc)
  have : c.update [tx] ts = .ok st' := by
    rw [update_ok_iff]
    exact ⟨by rw [applyTxs_cons_of_ok hat]; rfl, hinc'⟩
  rw [this]; rfl

/-! ### the fee calculation reads the looked-up outputs only -/

theorem sumInputs_congr (val : Nat → Bool → Int → Nat) (m1 m2 : TreeMap String (List (Option Utxo))) (ts : Int) :
    ∀ (is : List Input) (acc : Nat), (∀ i ∈ is, lookup m2 i = lookup m1 i) →
      sumInputs val m2 ts is acc = sumInputs val m1 ts is acc
  | [], _, _ => rfl
  | i :: is, acc, h => by
    unfold sumInputs
    rw [h i List.mem_cons_self]
    cases lookup m1 i with
    | error e => rfl
    | ok u =>
      dsimp only
      split
      · rfl
      · split
        · rfl
        · exact sumInputs_congr val m1 m2 ts is _ (fun j hj => h j (List.mem_cons_of_mem _ hj))

theorem calculateFee_congr (val : Nat → Bool → Int → Nat) (minFee : Nat) (r1 r2 : UtxoReg) (tx : Tx) (ts : Int)
    (h : ∀ i ∈ tx.inputs, lookup r2.byId i = lookup r1.byId i) :
    r2.calculateFee val minFee tx ts = r1.calculateFee val minFee tx ts := by
  unfold calculateFee
  rw [sumInputs_congr val r1.byId r2.byId ts tx.inputs 0 h]

/-- decidable form of the "useful outputs" hypothesis -/
theorem useful_of_dec {m : TreeMap String (List (Option Utxo))} {is : List Input}
    (h : ∀ i ∈ is, (match lookup m i with | .ok u => slotLive (some u) | .error _ => true) = true) :
    ∀ i ∈ is, ∀ u, lookup m i = .ok u → slotLive (some u) = true := by
  intro i hi u hl
  have := h i hi
  rw [hl] at this
  exact this


end UtxoReg

namespace Node
open UtxoReg

/-- a property of the running copy that every kept transaction of `pre` preserves holds of the copy after `pre` -/
theorem greedy_run_induct (env : Env) (cfg : Cfg) (confirmed : UtxoReg) (ts last next : Int) (P : UtxoReg → Prop) :
    ∀ (pre : List Tx) (copy : UtxoReg),
      (∀ c x c', x ∈ pre → P c → c.update [x] next = .ok c' → P c') → P copy →
      P (greedy env cfg confirmed ts last next pre copy).2
  | [], copy, _, h0 => h0
  | x :: pre, copy, hstep, h0 => by
    unfold greedy
    split
    · apply greedy_run_induct env cfg confirmed ts last next P pre _
        (fun c y c' hy => hstep c y c' (List.mem_cons_of_mem _ hy))
      unfold advance
      cases hu : copy.update [x] next with
      | error e => exact h0
      | ok c' => exact hstep copy x c' List.mem_cons_self h0 hu
    · exact greedy_run_induct env cfg confirmed ts last next P pre copy
        (fun c y c' hy => hstep c y c' (List.mem_cons_of_mem _ hy)) h0


end Node
end Ru
