/-
  Core/Lemmas/Registry.lean — helper lemmas about the two-index output registry (`UtxoReg`) and the
  address registry (`AddrReg`).  Used by Core/Props/C02.lean and Core/Props/C10.lean.
  Core Lean + Std only.
-/
import Core.Pool
open Std

namespace Ru

/-! ### generic list helpers -/

theorem mem_of_mem_eraseFirst {α} (p : α → Bool) {l : List α} {x : α} (h : x ∈ eraseFirst p l) : x ∈ l := by
  induction l with
  | nil => simp [eraseFirst] at h
  | cons y ys ih =>
    unfold eraseFirst at h
    split at h
    · exact List.mem_cons_of_mem _ h
    · rcases List.mem_cons.1 h with h | h
      · exact h ▸ List.mem_cons_self
      · exact List.mem_cons_of_mem _ (ih h)

theorem mem_eraseFirst_of_not {α} (p : α → Bool) {l : List α} {x : α} (hx : x ∈ l) (hp : p x = false) :
    x ∈ eraseFirst p l := by
  induction l with
  | nil => cases hx
  | cons y ys ih =>
    unfold eraseFirst
    rcases List.mem_cons.1 hx with h | h
    · subst h; simp [hp]
    · split
      · exact h
      · exact List.mem_cons_of_mem _ (ih h)

theorem eraseFirst_sublist {α} (p : α → Bool) (l : List α) : (eraseFirst p l).Sublist l := by
  induction l with
  | nil => simp [eraseFirst]
  | cons y ys ih =>
    unfold eraseFirst
    split
    · exact List.sublist_cons_self _ _
    · exact ih.cons_cons _

/-- if at most one element of `l` can satisfy `p` (pairwise), nothing left after `eraseFirst` satisfies it -/
theorem not_of_mem_eraseFirst_of_pairwise {α} (p : α → Bool) {l : List α}
    (hpw : l.Pairwise (fun x y => ¬ (p x = true ∧ p y = true))) {x : α} (hx : x ∈ eraseFirst p l) :
    p x = false := by
  induction l with
  | nil => simp [eraseFirst] at hx
  | cons y ys ih =>
    rw [List.pairwise_cons] at hpw
    unfold eraseFirst at hx
    split at hx
    · rename_i hy
      have := hpw.1 x hx
      cases hpx : p x with
      | false => rfl
      | true => exact absurd ⟨hy, hpx⟩ this
    · rename_i hy
      rcases List.mem_cons.1 hx with h | h
      · subst h; simpa using hy
      · exact ih hpw.2 h

namespace UtxoReg

/-! ### the abstraction "output (id, idx) is spendable" -/

/-- `live r id idx = some u`: the registry `r` holds the unconsumed output `u` under reference `(id, idx)` -/
def live (r : UtxoReg) (id : String) (idx : Nat) : Option Utxo :=
  (r.byId[id]?).bind (fun slots => (slots[idx]?).join)

theorem live_eq_some_iff {r : UtxoReg} {id : String} {idx : Nat} {u : Utxo} :
    live r id idx = some u ↔ ∃ slots, r.byId[id]? = some slots ∧ slots[idx]? = some (some u) := by
  unfold live
  cases h : r.byId[id]? with
  | none => simp
  | some slots =>
    cases h2 : slots[idx]? with
    | none => simp [h2]
    | some s => cases s <;> simp [h2]

theorem live_eq_none_of_byId_none {r : UtxoReg} {id : String} {idx : Nat} (h : r.byId[id]? = none) :
    live r id idx = none := by
  simp [live, h]

theorem live_congr {r r' : UtxoReg} {id : String} (h : r'.byId[id]? = r.byId[id]?) (idx : Nat) :
    live r' id idx = live r id idx := by
  simp [live, h]

theorem lookup_iff_live (r : UtxoReg) (i : Input) (u : Utxo) :
    lookup r.byId i = .ok u ↔ live r i.txId i.index = some u := by
  rw [live_eq_some_iff]
  unfold lookup
  cases h : r.byId[i.txId]? with
  | none => simp
  | some slots =>
    cases h2 : slots[i.index]? with
    | none => simp [h2]
    | some s => cases s <;> simp [h2]

theorem lookup_error_of_dead {r : UtxoReg} {i : Input} (h : live r i.txId i.index = none) :
    ∃ e, lookup r.byId i = .error e := by
  cases hl : lookup r.byId i with
  | error e => exact ⟨e, rfl⟩
  | ok u => rw [(lookup_iff_live r i u).1 hl] at h; cases h

/-! ### `consume` -/

/-- what a successful `consume` did, field by field -/
theorem consume_ok {st st' : UtxoReg} {i : Input} (h : consume st i = .ok st') :
    ∃ slots u, st.byId[i.txId]? = some slots ∧ slots[i.index]? = some (some u) ∧
      st'.byId = (if (slots.set i.index none).any slotLive then st.byId.insert i.txId (slots.set i.index none)
                  else st.byId.erase i.txId) ∧
      st'.byAddr =
        (if (eraseFirst (fun (x : Utxo) => x.txId == i.txId && x.index == i.index)
              (st.byAddr[u.out.address]?.getD [])).isEmpty
         then st.byAddr.erase u.out.address
         else st.byAddr.insert u.out.address
              (eraseFirst (fun (x : Utxo) => x.txId == i.txId && x.index == i.index)
                (st.byAddr[u.out.address]?.getD []))) := by
  unfold consume at h
  cases hs : st.byId[i.txId]? with
  | none => simp [hs] at h
  | some slots =>
    cases hu : slots[i.index]? with
    | none => simp [hs, hu] at h
    | some s =>
      cases s with
      | none => simp [hs, hu] at h
      | some u =>
        simp only [hs, hu] at h
        injection h with h
        subst h
        exact ⟨slots, u, rfl, hu, rfl, rfl⟩

theorem consume_ok_live {st st' : UtxoReg} {i : Input} (h : consume st i = .ok st') :
    ∃ u, live st i.txId i.index = some u := by
  obtain ⟨slots, u, hs, hu, -, -⟩ := consume_ok h
  exact ⟨u, live_eq_some_iff.2 ⟨slots, hs, hu⟩⟩

theorem consume_error_of_dead {st : UtxoReg} {i : Input} (h : live st i.txId i.index = none) :
    ∃ e, consume st i = .error e := by
  cases hc : consume st i with
  | error e => exact ⟨e, rfl⟩
  | ok st' =>
    obtain ⟨u, hu⟩ := consume_ok_live hc
    rw [hu] at h; cases h

theorem consume_of_live {st : UtxoReg} {i : Input} {u : Utxo} (h : live st i.txId i.index = some u) :
    ∃ st', consume st i = .ok st' := by
  obtain ⟨slots, hs, hu⟩ := live_eq_some_iff.1 h
  unfold consume
  simp only [hs, hu]
  exact ⟨_, rfl⟩

/-- the `byId` index after a successful `consume`, pointwise -/
theorem consume_byId {st st' : UtxoReg} {i : Input} (h : consume st i = .ok st') :
    ∃ slots u, st.byId[i.txId]? = some slots ∧ slots[i.index]? = some (some u) ∧
      (∀ id, id ≠ i.txId → st'.byId[id]? = st.byId[id]?) ∧
      st'.byId[i.txId]? =
        (if (slots.set i.index none).any slotLive then some (slots.set i.index none) else none) := by
  obtain ⟨slots, u, hs, hu, hb, -⟩ := consume_ok h
  refine ⟨slots, u, hs, hu, ?_, ?_⟩
  · intro id hne
    rw [hb]
    split
    · rw [TreeMap.getElem?_insert]; simp [Ne.symm hne]
    · rw [TreeMap.getElem?_erase]; simp [Ne.symm hne]
  · rw [hb]
    split
    · rw [TreeMap.getElem?_insert]; simp
    · rw [TreeMap.getElem?_erase]; simp

theorem consume_dead {st st' : UtxoReg} {i : Input} (h : consume st i = .ok st') :
    live st' i.txId i.index = none := by
  obtain ⟨slots, u, hs, hu, -, hself⟩ := consume_byId h
  unfold live
  rw [hself]
  split
  · have hlt : i.index < slots.length := by
      rcases List.getElem?_eq_some_iff.1 hu with ⟨hlt, -⟩; exact hlt
    simp [hlt]
  · rfl

/-- consumption never creates or alters an output -/
theorem consume_live_back {st st' : UtxoReg} {i : Input} (h : consume st i = .ok st')
    {id : String} {idx : Nat} {v : Utxo} (hv : live st' id idx = some v) : live st id idx = some v := by
  obtain ⟨slots, u, hs, hu, hother, hself⟩ := consume_byId h
  by_cases hid : id = i.txId
  · subst hid
    obtain ⟨sl', hs', hv'⟩ := live_eq_some_iff.1 hv
    rw [hself] at hs'
    split at hs'
    · injection hs' with hs'
      subst hs'
      rw [List.getElem?_set] at hv'
      split at hv'
      · split at hv' <;> cases hv'
      · exact live_eq_some_iff.2 ⟨slots, hs, hv'⟩
    · cases hs'
  · rw [live_congr (hother id hid)] at hv; exact hv

/-- every other output stays, unless the whole entry of the consumed id is pruned because none of its
    remaining slots is useful (`slotLive`) -/
theorem consume_live_fwd {st st' : UtxoReg} {i : Input} (h : consume st i = .ok st')
    {id : String} {idx : Nat} {v : Utxo} (hv : live st id idx = some v)
    (hne : (id, idx) ≠ (i.txId, i.index)) :
    live st' id idx = some v ∨
      (id = i.txId ∧ live st' id idx = none ∧ st'.byId[id]? = none ∧ slotLive (some v) = false ∧
        ∀ slots, st.byId[i.txId]? = some slots → ∀ s ∈ slots.set i.index none, slotLive s = false) := by
  obtain ⟨slots, u, hs, hu, hother, hself⟩ := consume_byId h
  by_cases hid : id = i.txId
  · subst hid
    have hidx : i.index ≠ idx := fun e => hne (by rw [e])
    obtain ⟨sl, hsl, hv'⟩ := live_eq_some_iff.1 hv
    rw [hs] at hsl; injection hsl with hsl; subst hsl
    by_cases hany : (slots.set i.index none).any slotLive = true
    · left
      rw [if_pos hany] at hself
      exact live_eq_some_iff.2 ⟨_, hself, by rw [List.getElem?_set, if_neg hidx]; exact hv'⟩
    · right
      rw [if_neg hany] at hself
      have hall : ∀ s ∈ slots.set i.index none, slotLive s = false := by
        intro s hsm
        cases hsl : slotLive s with
        | false => rfl
        | true => exact absurd (List.any_eq_true.2 ⟨s, hsm, hsl⟩) hany
      refine ⟨rfl, live_eq_none_of_byId_none hself, hself, ?_, ?_⟩
      · apply hall
        have : (slots.set i.index none)[idx]? = some (some v) := by
          rw [List.getElem?_set, if_neg hidx]; exact hv'
        exact List.mem_of_getElem? this
      · intro sl2 hsl2
        rw [hs] at hsl2; injection hsl2 with hsl2; subst hsl2
        exact hall
  · left
    rw [live_congr (hother id hid)]; exact hv

theorem consume_live_fwd_useful {st st' : UtxoReg} {i : Input} (h : consume st i = .ok st')
    {id : String} {idx : Nat} {v : Utxo} (hv : live st id idx = some v)
    (hne : (id, idx) ≠ (i.txId, i.index)) (huse : slotLive (some v) = true) :
    live st' id idx = some v := by
  rcases consume_live_fwd h hv hne with h1 | ⟨-, -, -, h2, -⟩
  · exact h1
  · rw [huse] at h2; cases h2

/-- `consume` never adds an id to `byId` -/
theorem consume_byId_none {st st' : UtxoReg} {i : Input} (h : consume st i = .ok st')
    {id : String} (hn : st.byId[id]? = none) : st'.byId[id]? = none := by
  obtain ⟨slots, u, hs, hu, hother, hself⟩ := consume_byId h
  by_cases hid : id = i.txId
  · subst hid; rw [hs] at hn; cases hn
  · rw [hother id hid]; exact hn

/-! ### `consumeAll` -/

theorem consumeAll_cons_ok {st st' : UtxoReg} {i : Input} {is : List Input}
    (h : consumeAll st (i :: is) = .ok st') : ∃ st1, consume st i = .ok st1 ∧ consumeAll st1 is = .ok st' := by
  unfold consumeAll at h
  split at h
  · cases h
  · exact ⟨_, ‹_›, h⟩

theorem consumeAll_live_back {st st' : UtxoReg} {is : List Input} (h : consumeAll st is = .ok st')
    {id : String} {idx : Nat} {v : Utxo} (hv : live st' id idx = some v) : live st id idx = some v := by
  induction is generalizing st with
  | nil => unfold consumeAll at h; injection h with h; subst h; exact hv
  | cons i is ih =>
    obtain ⟨st1, h1, h2⟩ := consumeAll_cons_ok h
    exact consume_live_back h1 (ih h2)

theorem consumeAll_byId_none {st st' : UtxoReg} {is : List Input} (h : consumeAll st is = .ok st')
    {id : String} (hn : st.byId[id]? = none) : st'.byId[id]? = none := by
  induction is generalizing st with
  | nil => unfold consumeAll at h; injection h with h; subst h; exact hn
  | cons i is ih =>
    obtain ⟨st1, h1, h2⟩ := consumeAll_cons_ok h
    exact ih h2 (consume_byId_none h1 hn)

theorem consumeAll_live_fwd {st st' : UtxoReg} {is : List Input} (h : consumeAll st is = .ok st')
    {id : String} {idx : Nat} {v : Utxo} (hv : live st id idx = some v)
    (hne : ∀ i ∈ is, (id, idx) ≠ (i.txId, i.index)) :
    live st' id idx = some v ∨
      (live st' id idx = none ∧ st'.byId[id]? = none ∧ slotLive (some v) = false ∧ ∃ i ∈ is, i.txId = id) := by
  induction is generalizing st with
  | nil => unfold consumeAll at h; injection h with h; subst h; exact Or.inl hv
  | cons i is ih =>
    obtain ⟨st1, h1, h2⟩ := consumeAll_cons_ok h
    rcases consume_live_fwd h1 hv (hne i List.mem_cons_self) with hl | ⟨hid, -, hnone, hsl, -⟩
    · rcases ih h2 hl (fun j hj => hne j (List.mem_cons_of_mem _ hj)) with hl' | ⟨a, b, c, j, hj, hjid⟩
      · exact Or.inl hl'
      · exact Or.inr ⟨a, b, c, j, List.mem_cons_of_mem _ hj, hjid⟩
    · have := consumeAll_byId_none h2 hnone
      exact Or.inr ⟨live_eq_none_of_byId_none this, this, hsl, i, List.mem_cons_self, hid.symm⟩

theorem consumeAll_live_fwd_useful {st st' : UtxoReg} {is : List Input} (h : consumeAll st is = .ok st')
    {id : String} {idx : Nat} {v : Utxo} (hv : live st id idx = some v)
    (hne : ∀ i ∈ is, (id, idx) ≠ (i.txId, i.index)) (huse : slotLive (some v) = true) :
    live st' id idx = some v := by
  rcases consumeAll_live_fwd h hv hne with h1 | ⟨-, -, h2, -⟩
  · exact h1
  · rw [huse] at h2; cases h2

/-- a dead reference anywhere in the input list makes `consumeAll` fail -/
theorem consumeAll_error_of_dead {st : UtxoReg} {is : List Input} {j : Input} (hj : j ∈ is)
    (hd : live st j.txId j.index = none) : ∃ e, consumeAll st is = .error e := by
  cases hc : consumeAll st is with
  | error e => exact ⟨e, rfl⟩
  | ok st' =>
    exfalso
    induction is generalizing st with
    | nil => cases hj
    | cons i is ih =>
      obtain ⟨st1, h1, h2⟩ := consumeAll_cons_ok hc
      rcases List.mem_cons.1 hj with he | hm
      · subst he
        obtain ⟨u, hu⟩ := consume_ok_live h1
        rw [hu] at hd; cases hd
      · refine ih hm ?_ h2
        cases hl : live st1 j.txId j.index with
        | none => rfl
        | some v => rw [consume_live_back h1 hl] at hd; cases hd

/-- everything `consumeAll` consumed is dead afterwards -/
theorem consumeAll_dead {st st' : UtxoReg} {is : List Input} (h : consumeAll st is = .ok st')
    {j : Input} (hj : j ∈ is) : live st' j.txId j.index = none := by
  induction is generalizing st with
  | nil => cases hj
  | cons i is ih =>
    obtain ⟨st1, h1, h2⟩ := consumeAll_cons_ok h
    rcases List.mem_cons.1 hj with he | hm
    · subst he
      cases hl : live st' j.txId j.index with
      | none => rfl
      | some v =>
        have h3 := consumeAll_live_back h2 hl
        rw [consume_dead h1] at h3; cases h3
    · exact ih h2 hm

/-- two inputs with the same reference at different positions make `consumeAll` fail -/
theorem consumeAll_error_of_dup {st : UtxoReg} {is : List Input} {p q : Nat} {i j : Input}
    (hpq : p < q) (hp : is[p]? = some i) (hq : is[q]? = some j)
    (hid : i.txId = j.txId) (hix : i.index = j.index) : ∃ e, consumeAll st is = .error e := by
  induction is generalizing st p q with
  | nil => simp at hp
  | cons k is ih =>
    cases hc : consumeAll st (k :: is) with
    | error e => exact ⟨e, rfl⟩
    | ok st' =>
      exfalso
      obtain ⟨st1, h1, h2⟩ := consumeAll_cons_ok hc
      cases p with
      | zero =>
        simp at hp; subst hp
        obtain ⟨q', rfl⟩ : ∃ q', q = q' + 1 := ⟨q - 1, by omega⟩
        simp at hq
        have hjm : j ∈ is := List.mem_of_getElem? hq
        have hd : live st1 j.txId j.index = none := by
          rw [← hid, ← hix]; exact consume_dead h1
        obtain ⟨e, he⟩ := consumeAll_error_of_dead hjm hd
        rw [he] at h2; cases h2
      | succ p' =>
        obtain ⟨q', rfl⟩ : ∃ q', q = q' + 1 := ⟨q - 1, by omega⟩
        simp at hp hq
        obtain ⟨e, he⟩ := ih (st := st1) (by omega : p' < q') hp hq
        rw [he] at h2; cases h2

/-! ### `applyTx` -/

/-- the state after the creation step of `applyTx` (before the inputs are consumed) -/
def afterCreate (st : UtxoReg) (tx : Tx) (ts : Int) : UtxoReg :=
  if creates tx then
    ⟨st.byId.insert tx.id ((mkUtxos tx.id ts tx.outputs 0).map some), addByAddr st.byAddr (mkUtxos tx.id ts tx.outputs 0)⟩
  else st

theorem applyTx_eq (st : UtxoReg) (tx : Tx) (ts : Int) :
    applyTx st tx ts =
      if st.byId.contains tx.id then .error "id-exists"
      else if tx.outputs.isEmpty then .error "PANIC:outputs[0]"
      else consumeAll (afterCreate st tx ts) tx.inputs := rfl

theorem applyTx_ok {st st' : UtxoReg} {tx : Tx} {ts : Int} (h : applyTx st tx ts = .ok st') :
    st.byId[tx.id]? = none ∧ tx.outputs ≠ [] ∧ consumeAll (afterCreate st tx ts) tx.inputs = .ok st' := by
  rw [applyTx_eq] at h
  split at h
  · cases h
  · split at h
    · cases h
    · rename_i hc he
      refine ⟨?_, ?_, h⟩
      · rw [TreeMap.contains_eq_isSome_getElem?] at hc
        cases hg : st.byId[tx.id]? with
        | none => rfl
        | some x => rw [hg] at hc; simp at hc
      · intro hn; rw [hn] at he; simp at he

theorem afterCreate_byId_other (st : UtxoReg) (tx : Tx) (ts : Int) {id : String} (hne : id ≠ tx.id) :
    (afterCreate st tx ts).byId[id]? = st.byId[id]? := by
  unfold afterCreate
  split
  · show (st.byId.insert tx.id _)[id]? = _
    rw [TreeMap.getElem?_insert]; simp [Ne.symm hne]
  · rfl

theorem afterCreate_live_other (st : UtxoReg) (tx : Tx) (ts : Int) {id : String} (hne : id ≠ tx.id) (idx : Nat) :
    live (afterCreate st tx ts) id idx = live st id idx :=
  live_congr (afterCreate_byId_other st tx ts hne) idx

/-- outputs of other ids: `applyTx` never creates or alters them -/
theorem applyTx_live_back_other {st st' : UtxoReg} {tx : Tx} {ts : Int} (h : applyTx st tx ts = .ok st')
    {id : String} (hne : id ≠ tx.id) {idx : Nat} {v : Utxo} (hv : live st' id idx = some v) :
    live st id idx = some v := by
  obtain ⟨-, -, hc⟩ := applyTx_ok h
  have := consumeAll_live_back hc hv
  rwa [afterCreate_live_other st tx ts hne] at this

/-- everything a successful `applyTx` consumed is dead afterwards -/
theorem applyTx_dead {st st' : UtxoReg} {tx : Tx} {ts : Int} (h : applyTx st tx ts = .ok st')
    {i : Input} (hi : i ∈ tx.inputs) : live st' i.txId i.index = none := by
  obtain ⟨-, -, hc⟩ := applyTx_ok h
  exact consumeAll_dead hc hi

theorem applyTx_error_of_dead {st : UtxoReg} {tx : Tx} {ts : Int} {i : Input} (hi : i ∈ tx.inputs)
    (hne : i.txId ≠ tx.id) (hd : live st i.txId i.index = none) : ∃ e, applyTx st tx ts = .error e := by
  cases hc : applyTx st tx ts with
  | error e => exact ⟨e, rfl⟩
  | ok st' =>
    obtain ⟨-, -, hc'⟩ := applyTx_ok hc
    have hd' : live (afterCreate st tx ts) i.txId i.index = none := by
      rw [afterCreate_live_other st tx ts hne]; exact hd
    obtain ⟨e, he⟩ := consumeAll_error_of_dead hi hd'
    rw [he] at hc'; cases hc'

theorem applyTx_error_of_dup {st : UtxoReg} {tx : Tx} {ts : Int} {p q : Nat} {i j : Input}
    (hpq : p < q) (hp : tx.inputs[p]? = some i) (hq : tx.inputs[q]? = some j)
    (hid : i.txId = j.txId) (hix : i.index = j.index) : ∃ e, applyTx st tx ts = .error e := by
  rw [applyTx_eq]
  split
  · exact ⟨_, rfl⟩
  · split
    · exact ⟨_, rfl⟩
    · exact consumeAll_error_of_dup hpq hp hq hid hix

/-! ### `applyTxs` -/

theorem applyTxs_cons_ok {st st' : UtxoReg} {t : Tx} {txs : List Tx} {ts : Int}
    (h : applyTxs st (t :: txs) ts = .ok st') :
    ∃ st1, applyTx st t ts = .ok st1 ∧ applyTxs st1 txs ts = .ok st' := by
  unfold applyTxs at h
  split at h
  · cases h
  · exact ⟨_, ‹_›, h⟩

theorem applyTxs_cons_error {st : UtxoReg} {t : Tx} {txs : List Tx} {ts : Int} {e : String}
    (h : applyTx st t ts = .error e) : applyTxs st (t :: txs) ts = .error e := by
  unfold applyTxs; rw [h]

theorem applyTxs_cons_of_ok {st st1 : UtxoReg} {t : Tx} {txs : List Tx} {ts : Int}
    (h : applyTx st t ts = .ok st1) : applyTxs st (t :: txs) ts = applyTxs st1 txs ts := by
  conv => lhs; unfold applyTxs
  rw [h]

/-- outputs of ids the batch does not (re-)create: `applyTxs` never creates or alters them -/
theorem applyTxs_live_back_other {st st' : UtxoReg} {txs : List Tx} {ts : Int}
    (h : applyTxs st txs ts = .ok st') {id : String} (hne : ∀ t ∈ txs, t.id ≠ id)
    {idx : Nat} {v : Utxo} (hv : live st' id idx = some v) : live st id idx = some v := by
  induction txs generalizing st with
  | nil => unfold applyTxs at h; injection h with h; subst h; exact hv
  | cons t txs ih =>
    obtain ⟨st1, h1, h2⟩ := applyTxs_cons_ok h
    exact applyTx_live_back_other h1 (Ne.symm (hne t List.mem_cons_self))
      (ih h2 (fun t' ht' => hne t' (List.mem_cons_of_mem _ ht')))

/-- a reference consumed by a transaction of the batch and not re-created later in it is dead afterwards -/
theorem applyTxs_dead {st st' : UtxoReg} {txs : List Tx} {ts : Int} (h : applyTxs st txs ts = .ok st')
    {t : Tx} (ht : t ∈ txs) {j : Input} (hj : j ∈ t.inputs) (hne : ∀ t' ∈ txs, t'.id ≠ j.txId) :
    live st' j.txId j.index = none := by
  induction txs generalizing st with
  | nil => cases ht
  | cons t0 txs ih =>
    obtain ⟨st1, h1, h2⟩ := applyTxs_cons_ok h
    have hne' : ∀ t' ∈ txs, t'.id ≠ j.txId := fun t' ht' => hne t' (List.mem_cons_of_mem _ ht')
    rcases List.mem_cons.1 ht with he | hm
    · subst he
      cases hl : live st' j.txId j.index with
      | none => rfl
      | some v =>
        have := applyTxs_live_back_other h2 hne' hl
        rw [applyTx_dead h1 hj] at this; cases this
    · exact ih h2 hm hne'

/-- a transaction at position `q` with an input whose reference is dead in `st`, and whose id no
    transaction at a position `≤ q` has, makes the batch fail -/
theorem applyTxs_error_of_dead_at {st : UtxoReg} {txs : List Tx} {ts : Int} {q : Nat} {t : Tx} {i : Input}
    (hq : txs[q]? = some t) (hi : i ∈ t.inputs) (hd : live st i.txId i.index = none)
    (hne : ∀ r t', r ≤ q → txs[r]? = some t' → t'.id ≠ i.txId) : ∃ e, applyTxs st txs ts = .error e := by
  induction txs generalizing st q with
  | nil => simp at hq
  | cons t0 txs ih =>
    cases h1 : applyTx st t0 ts with
    | error e => exact ⟨e, applyTxs_cons_error h1⟩
    | ok st1 =>
      rw [applyTxs_cons_of_ok h1]
      have h0 : t0.id ≠ i.txId := hne 0 t0 (Nat.zero_le _) (by simp)
      cases q with
      | zero =>
        simp at hq; subst hq
        obtain ⟨e, he⟩ := applyTx_error_of_dead (st := st) (ts := ts) hi (Ne.symm h0) hd
        rw [he] at h1; cases h1
      | succ q' =>
        simp at hq
        refine ih hq ?_ (fun r t' hr ht' => hne (r + 1) t' (by omega) (by simpa using ht'))
        cases hl : live st1 i.txId i.index with
        | none => rfl
        | some v => rw [applyTx_live_back_other h1 (Ne.symm h0) hl] at hd; cases hd

/-- two transactions at positions `p < q` consuming the same reference, which no transaction at a position
    in `(p, q]` re-creates, make the batch fail -/
theorem applyTxs_error_of_dup_at {st : UtxoReg} {txs : List Tx} {ts : Int} {p q : Nat} {t1 t2 : Tx} {i j : Input}
    (hpq : p < q) (hp : txs[p]? = some t1) (hq : txs[q]? = some t2) (hi : i ∈ t1.inputs) (hj : j ∈ t2.inputs)
    (hid : i.txId = j.txId) (hix : i.index = j.index)
    (hne : ∀ r t', p < r → r ≤ q → txs[r]? = some t' → t'.id ≠ i.txId) :
    ∃ e, applyTxs st txs ts = .error e := by
  induction txs generalizing st p q with
  | nil => simp at hp
  | cons t0 txs ih =>
    cases h1 : applyTx st t0 ts with
    | error e => exact ⟨e, applyTxs_cons_error h1⟩
    | ok st1 =>
      rw [applyTxs_cons_of_ok h1]
      obtain ⟨q', rfl⟩ : ∃ q', q = q' + 1 := ⟨q - 1, by omega⟩
      simp at hq
      cases p with
      | zero =>
        simp at hp; subst hp
        have hd : live st1 j.txId j.index = none := by
          rw [← hid, ← hix]; exact applyTx_dead h1 hi
        exact applyTxs_error_of_dead_at hq hj hd
          (fun r t' hr ht' => hid ▸ hne (r + 1) t' (by omega) (by omega) (by simpa using ht'))
      | succ p' =>
        simp at hp
        exact ih (by omega) hp hq
          (fun r t' h1 h2 ht' => hne (r + 1) t' (by omega) (by omega) (by simpa using ht'))

/-! ### `update`, `sumInputs`, `calculateFee` -/

theorem update_ok_iff {r r' : UtxoReg} {txs : List Tx} {ts : Int} :
    update r txs ts = .ok r' ↔ applyTxs r txs ts = .ok r' ∧ incomesOk r'.byAddr = true := by
  unfold update
  cases h : applyTxs r txs ts with
  | error e => simp
  | ok st =>
    by_cases hi : incomesOk st.byAddr = true
    · simp only [hi, if_true]
      constructor
      · intro h'; injection h' with h'; subst h'; exact ⟨rfl, hi⟩
      · intro ⟨h', _⟩; exact h'
    · simp only [hi]
      constructor
      · intro h'; cases h'
      · intro ⟨h', hi'⟩; injection h' with h'; subst h'; exact absurd hi' hi

theorem update_error_of_applyTxs_error {r : UtxoReg} {txs : List Tx} {ts : Int} {e : String}
    (h : applyTxs r txs ts = .error e) : update r txs ts = .error e := by
  unfold update; rw [h]

theorem sumInputs_error_of_lookup_error (val : Nat → Bool → Int → Nat) (byId : TreeMap String (List (Option Utxo)))
    (ts : Int) {is : List Input} {i : Input} (hi : i ∈ is) (he : ∃ e, lookup byId i = .error e) (acc : Nat) :
    ∃ e, sumInputs val byId ts is acc = .error e := by
  induction is generalizing acc with
  | nil => cases hi
  | cons k is ih =>
    unfold sumInputs
    rcases List.mem_cons.1 hi with hk | hm
    · subst hk
      obtain ⟨e, he⟩ := he
      rw [he]; exact ⟨e, rfl⟩
    · split
      · exact ⟨_, rfl⟩
      · split
        · exact ⟨_, rfl⟩
        · dsimp only
          split
          · exact ⟨_, rfl⟩
          · exact ih hm _

theorem calculateFee_error_of_dead (val : Nat → Bool → Int → Nat) (minFee : Nat) {r : UtxoReg} {tx : Tx} (ts : Int)
    {i : Input} (hi : i ∈ tx.inputs) (hd : live r i.txId i.index = none) :
    ∃ e, calculateFee val minFee r tx ts = .error e := by
  obtain ⟨e, he⟩ := sumInputs_error_of_lookup_error val r.byId ts hi (lookup_error_of_dead hd) 0
  unfold calculateFee
  rw [he]; exact ⟨e, rfl⟩

/-! ### generic induction over `consumeAll` / `applyTxs` -/

theorem consumeAll_induct {P : UtxoReg → Prop} (step : ∀ st i st', P st → consume st i = .ok st' → P st')
    {st st' : UtxoReg} {is : List Input} (h0 : P st) (h : consumeAll st is = .ok st') : P st' := by
  induction is generalizing st with
  | nil => unfold consumeAll at h; injection h with h; subst h; exact h0
  | cons i is ih =>
    obtain ⟨st1, h1, h2⟩ := consumeAll_cons_ok h
    exact ih (step _ _ _ h0 h1) h2

theorem applyTxs_induct {P : UtxoReg → Prop} {ts : Int} {Q : Tx → Prop}
    (step : ∀ st tx st', Q tx → P st → applyTx st tx ts = .ok st' → P st')
    {st st' : UtxoReg} {txs : List Tx} (hq : ∀ t ∈ txs, Q t) (h0 : P st) (h : applyTxs st txs ts = .ok st') : P st' := by
  induction txs generalizing st with
  | nil => unfold applyTxs at h; injection h with h; subst h; exact h0
  | cons t txs ih =>
    obtain ⟨st1, h1, h2⟩ := applyTxs_cons_ok h
    exact ih (fun t' ht' => hq t' (List.mem_cons_of_mem _ ht')) (step _ _ _ (hq t List.mem_cons_self) h0 h1) h2

/-! ### the `byAddr` index -/

theorem utxos_eq_of_get {r : UtxoReg} {a : String} {l : List Utxo} (h : r.byAddr[a]? = some l) : r.utxos a = l := by
  simp [utxos, h]

theorem mkUtxos_getElem? (id : String) (ts : Int) (os : List Output) (j k : Nat) :
    (mkUtxos id ts os j)[k]? = (os[k]?).map (fun o => (⟨id, j + k, o, ts⟩ : Utxo)) := by
  induction os generalizing j k with
  | nil => simp [mkUtxos]
  | cons o os ih =>
    cases k with
    | zero => simp [mkUtxos]
    | succ k =>
      simp only [mkUtxos, List.getElem?_cons_succ, ih]
      have : j + 1 + k = j + (k + 1) := by omega
      rw [this]

theorem mem_mkUtxos {id : String} {ts : Int} {os : List Output} {j : Nat} {u : Utxo}
    (h : u ∈ mkUtxos id ts os j) : ∃ k o, os[k]? = some o ∧ u = ⟨id, j + k, o, ts⟩ ∧ (mkUtxos id ts os j)[k]? = some u := by
  obtain ⟨k, hk⟩ := List.mem_iff_getElem?.1 h
  have hk' := hk
  rw [mkUtxos_getElem?] at hk
  cases ho : os[k]? with
  | none => rw [ho] at hk; cases hk
  | some o =>
    rw [ho] at hk
    injection hk with hk
    exact ⟨k, o, ho, hk.symm, hk'⟩

theorem mkUtxos_pairwise (id : String) (ts : Int) (os : List Output) (j : Nat) :
    (mkUtxos id ts os j).Pairwise (fun x y => x.index ≠ y.index) := by
  induction os generalizing j with
  | nil => simp [mkUtxos]
  | cons o os ih =>
    simp only [mkUtxos, List.pairwise_cons]
    refine ⟨?_, ih (j + 1)⟩
    intro y hy
    obtain ⟨k, o', -, hy', -⟩ := mem_mkUtxos hy
    subst hy'
    show j ≠ j + 1 + k
    omega

theorem addByAddr_get (m : TreeMap String (List Utxo)) (us : List Utxo) (a : String) :
    (addByAddr m us)[a]? =
      if us.any (fun u => u.out.address == a) then
        some ((m[a]?.getD []) ++ us.filter (fun u => u.out.address == a))
      else m[a]? := by
  induction us generalizing m with
  | nil => simp [addByAddr]
  | cons u us ih =>
    simp only [addByAddr]
    rw [ih, TreeMap.getElem?_insert]
    by_cases hua : u.out.address = a
    · subst hua
      simp only [compare_eq_iff_eq, if_true, Option.getD_some, List.any_cons, beq_self_eq_true, Bool.true_or,
        List.filter_cons_of_pos, List.append_assoc, List.singleton_append]
      split
      · rfl
      · rename_i hany
        have : us.filter (fun x => x.out.address == u.out.address) = [] := by
          rw [List.filter_eq_nil_iff]
          intro x hx hp
          exact hany (List.any_eq_true.2 ⟨x, hx, hp⟩)
        rw [this]
    · have hb : (u.out.address == a) = false := by simpa using hua
      simp only [compare_eq_iff_eq, hua, if_false, List.any_cons, hb, Bool.false_or]
      rw [List.filter_cons_of_neg (by simp [hb])]

/-- the `byAddr` index after a successful `consume`, pointwise -/
theorem consume_byAddr {st st' : UtxoReg} {i : Input} (h : consume st i = .ok st') :
    ∃ u, live st i.txId i.index = some u ∧
      ∀ a, st'.byAddr[a]? =
        if a = u.out.address then
          (if (eraseFirst (fun (x : Utxo) => x.txId == i.txId && x.index == i.index) (st.byAddr[a]?.getD [])).isEmpty
           then none
           else some (eraseFirst (fun (x : Utxo) => x.txId == i.txId && x.index == i.index) (st.byAddr[a]?.getD [])))
        else st.byAddr[a]? := by
  obtain ⟨slots, u, hs, hu, -, hb⟩ := consume_ok h
  refine ⟨u, live_eq_some_iff.2 ⟨slots, hs, hu⟩, ?_⟩
  intro a
  rw [hb]
  by_cases ha : a = u.out.address
  · subst ha
    rw [if_pos rfl]
    split
    · rw [TreeMap.getElem?_erase]; simp
    · rw [TreeMap.getElem?_insert]; simp
  · simp only [if_neg ha]
    split
    · rw [TreeMap.getElem?_erase]; simp [Ne.symm ha]
    · rw [TreeMap.getElem?_insert]; simp [Ne.symm ha]

theorem consume_utxos {st st' : UtxoReg} {i : Input} (h : consume st i = .ok st') :
    ∃ u, live st i.txId i.index = some u ∧
      ∀ a, st'.utxos a =
        if a = u.out.address then eraseFirst (fun (x : Utxo) => x.txId == i.txId && x.index == i.index) (st.utxos a)
        else st.utxos a := by
  obtain ⟨u, hu, hb⟩ := consume_byAddr h
  refine ⟨u, hu, fun a => ?_⟩
  have := hb a
  unfold utxos
  by_cases ha : a = u.out.address
  · rw [if_pos ha] at this ⊢
    rw [this]
    split
    · rename_i he; simp only [Option.getD_none]; exact (List.isEmpty_iff.1 he).symm
    · rfl
  · rw [if_neg ha] at this ⊢
    rw [this]

/-! ### the index invariants -/

/-- the part of the index invariant that holds unconditionally: every live slot carries its own reference and
    is listed under its address; address lists are non-empty and hold only outputs of that address -/
def IndexedW (r : UtxoReg) : Prop :=
  (∀ id idx u, live r id idx = some u → u.txId = id ∧ u.index = idx ∧ u ∈ r.utxos u.out.address) ∧
  (∀ (a : String) (l : List Utxo), r.byAddr[a]? = some l → l ≠ [] ∧ ∀ u ∈ l, u.out.address = a)

/-- the exact correspondence of the two indexes (no stale entries): holds as long as every created output
    is useful (`slotLive`) -/
def IndexedS (r : UtxoReg) : Prop :=
  (∀ id idx u, live r id idx = some u →
      u.txId = id ∧ u.index = idx ∧ u ∈ r.utxos u.out.address ∧ slotLive (some u) = true) ∧
  (∀ (a : String) (l : List Utxo), r.byAddr[a]? = some l →
      l ≠ [] ∧ ∀ u ∈ l, u.out.address = a ∧ live r u.txId u.index = some u) ∧
  (∀ (a : String) (l : List Utxo), r.byAddr[a]? = some l → l.Pairwise (fun x y => ¬ (x.txId = y.txId ∧ x.index = y.index)))

theorem IndexedS.toW {r : UtxoReg} (h : IndexedS r) : IndexedW r := by
  refine ⟨?_, ?_⟩
  · intro id idx u hu
    obtain ⟨a, b, c, -⟩ := h.1 id idx u hu
    exact ⟨a, b, c⟩
  · intro a l hl
    have h2 := h.2.1 a l hl
    exact ⟨h2.1, fun u hu => (h2.2 u hu).1⟩

theorem indexedW_empty : IndexedW UtxoReg.empty := by
  refine ⟨?_, ?_⟩
  · intro id idx u hu
    simp [live, UtxoReg.empty] at hu
  · intro a l hl
    simp [UtxoReg.empty] at hl

theorem indexedS_empty : IndexedS UtxoReg.empty := by
  refine ⟨?_, ?_, ?_⟩
  · intro id idx u hu
    simp [live, UtxoReg.empty] at hu
  · intro a l hl
    simp [UtxoReg.empty] at hl
  · intro a l hl
    simp [UtxoReg.empty] at hl

private theorem ref_pred_false {i : Input} {v : Utxo} {id : String} {idx : Nat}
    (h1 : v.txId = id) (h2 : v.index = idx) (hne : (id, idx) ≠ (i.txId, i.index)) :
    (fun (x : Utxo) => x.txId == i.txId && x.index == i.index) v = false := by
  cases hp : (v.txId == i.txId && v.index == i.index) with
  | false => exact hp
  | true =>
    simp only [Bool.and_eq_true, beq_iff_eq] at hp
    exact absurd (by rw [← h1, ← h2, hp.1, hp.2]) hne

theorem consume_indexedW {st st' : UtxoReg} {i : Input} (hW : IndexedW st) (h : consume st i = .ok st') :
    IndexedW st' := by
  obtain ⟨u, hu, hb⟩ := consume_byAddr h
  obtain ⟨u', hu', hut⟩ := consume_utxos h
  rw [hu] at hu'; injection hu' with hu'; subst hu'
  refine ⟨?_, ?_⟩
  · intro id idx v hv
    have hv0 := consume_live_back h hv
    obtain ⟨h1, h2, h3⟩ := hW.1 id idx v hv0
    refine ⟨h1, h2, ?_⟩
    have hne : (id, idx) ≠ (i.txId, i.index) := by
      intro e
      injection e with e1 e2
      subst e1; subst e2
      rw [consume_dead h] at hv; cases hv
    rw [hut]
    split
    · exact mem_eraseFirst_of_not _ h3 (ref_pred_false h1 h2 hne)
    · exact h3
  · intro a l hl
    rw [hb] at hl
    split at hl
    · rename_i ha
      split at hl
      · cases hl
      · rename_i hne
        injection hl with hl
        subst hl
        refine ⟨fun e => hne (by rw [e]; rfl), ?_⟩
        intro x hx
        have hx' := mem_of_mem_eraseFirst _ hx
        unfold utxos at hx'
        cases hg : st.byAddr[a]? with
        | none => rw [hg] at hx'; cases hx'
        | some l0 => rw [hg] at hx'; exact (hW.2 a l0 hg).2 x hx'
    · exact hW.2 a l hl

theorem afterCreate_indexedW {st : UtxoReg} (tx : Tx) (ts : Int) (hW : IndexedW st) :
    IndexedW (afterCreate st tx ts) := by
  unfold afterCreate
  split
  · refine ⟨?_, ?_⟩
    · intro id idx v hv
      obtain ⟨slots, hs, hv'⟩ := live_eq_some_iff.1 hv
      dsimp only at hs
      rw [TreeMap.getElem?_insert] at hs
      by_cases hid : tx.id = id
      · subst hid
        simp only [compare_eq_iff_eq, if_true] at hs
        injection hs with hs
        subst hs
        rw [List.getElem?_map] at hv'
        cases hk : (mkUtxos tx.id ts tx.outputs 0)[idx]? with
        | none => rw [hk] at hv'; cases hv'
        | some w =>
          rw [hk] at hv'
          simp only [Option.map_some, Option.some.injEq] at hv'
          subst hv'
          have hmem : w ∈ mkUtxos tx.id ts tx.outputs 0 := List.mem_of_getElem? hk
          rw [mkUtxos_getElem?] at hk
          cases ho : tx.outputs[idx]? with
          | none => rw [ho] at hk; cases hk
          | some o =>
            rw [ho] at hk
            simp only [Option.map_some, Option.some.injEq] at hk
            subst hk
            refine ⟨rfl, by simp, ?_⟩
            simp only [utxos, addByAddr_get]
            rw [if_pos (List.any_eq_true.2 ⟨_, hmem, by simp⟩)]
            simp only [Option.getD_some]
            exact List.mem_append_right _ (List.mem_filter.2 ⟨hmem, by simp⟩)
      · simp only [compare_eq_iff_eq, hid, if_false] at hs
        have hv0 : live st id idx = some v := live_eq_some_iff.2 ⟨slots, hs, hv'⟩
        obtain ⟨h1, h2, h3⟩ := hW.1 id idx v hv0
        refine ⟨h1, h2, ?_⟩
        simp only [utxos, addByAddr_get]
        split
        · simp only [Option.getD_some]; exact List.mem_append_left _ h3
        · exact h3
    · intro a l hl
      dsimp only at hl
      rw [addByAddr_get] at hl
      split at hl
      · rename_i hany
        injection hl with hl
        subst hl
        obtain ⟨w, hw, hwa⟩ := List.any_eq_true.1 hany
        refine ⟨?_, ?_⟩
        · intro e
          have : w ∈ (st.byAddr[a]?.getD []) ++ (mkUtxos tx.id ts tx.outputs 0).filter (fun u => u.out.address == a) :=
            List.mem_append_right _ (List.mem_filter.2 ⟨hw, hwa⟩)
          rw [e] at this; cases this
        · intro x hx
          rcases List.mem_append.1 hx with hx | hx
          · cases hg : st.byAddr[a]? with
            | none => rw [hg] at hx; cases hx
            | some l0 => rw [hg] at hx; exact (hW.2 a l0 hg).2 x hx
          · simpa using (List.mem_filter.1 hx).2
      · exact hW.2 a l hl
  · exact hW

theorem applyTx_indexedW {st st' : UtxoReg} {tx : Tx} {ts : Int} (hW : IndexedW st) (h : applyTx st tx ts = .ok st') :
    IndexedW st' := by
  obtain ⟨-, -, hc⟩ := applyTx_ok h
  exact consumeAll_induct (P := IndexedW) (fun _ _ _ hp hc => consume_indexedW hp hc)
    (afterCreate_indexedW tx ts hW) hc

theorem applyTxs_indexedW {st st' : UtxoReg} {txs : List Tx} {ts : Int} (hW : IndexedW st)
    (h : applyTxs st txs ts = .ok st') : IndexedW st' :=
  applyTxs_induct (P := IndexedW) (Q := fun _ => True) (fun _ _ _ _ hp hc => applyTx_indexedW hp hc)
    (fun _ _ => trivial) hW h

private theorem ref_ne_of_pred_false {i : Input} {x : Utxo}
    (h : (fun (x : Utxo) => x.txId == i.txId && x.index == i.index) x = false) :
    (x.txId, x.index) ≠ (i.txId, i.index) := by
  intro e
  injection e with e1 e2
  simp [e1, e2] at h

theorem consume_indexedS {st st' : UtxoReg} {i : Input} (hS : IndexedS st) (h : consume st i = .ok st') :
    IndexedS st' := by
  have hW' := consume_indexedW hS.toW h
  obtain ⟨u, hu, hb⟩ := consume_byAddr h
  obtain ⟨hS1, hS2, hS3⟩ := hS
  refine ⟨?_, ?_, ?_⟩
  · intro id idx v hv
    obtain ⟨h1, h2, h3⟩ := hW'.1 id idx v hv
    exact ⟨h1, h2, h3, (hS1 id idx v (consume_live_back h hv)).2.2.2⟩
  · intro a l hl
    refine ⟨(hW'.2 a l hl).1, ?_⟩
    intro x hx
    refine ⟨(hW'.2 a l hl).2 x hx, ?_⟩
    rw [hb] at hl
    split at hl
    · split at hl
      · cases hl
      · injection hl with hl
        subst hl
        cases hg : st.byAddr[a]? with
        | none => rw [hg] at hx; simp [eraseFirst] at hx
        | some l0 =>
          rw [hg] at hx
          simp only [Option.getD_some] at hx
          have hx0 := mem_of_mem_eraseFirst _ hx
          obtain ⟨-, hxl⟩ := (hS2 a l0 hg).2 x hx0
          have hpw : l0.Pairwise (fun x y =>
              ¬ ((fun (x : Utxo) => x.txId == i.txId && x.index == i.index) x = true ∧
                 (fun (x : Utxo) => x.txId == i.txId && x.index == i.index) y = true)) := by
            refine (hS3 a l0 hg).imp ?_
            intro x y hxy hp
            simp only [Bool.and_eq_true, beq_iff_eq] at hp
            exact hxy ⟨hp.1.1.trans hp.2.1.symm, hp.1.2.trans hp.2.2.symm⟩
          have hpf := not_of_mem_eraseFirst_of_pairwise _ hpw hx
          exact consume_live_fwd_useful h hxl (ref_ne_of_pred_false hpf) (hS1 _ _ _ hxl).2.2.2
    · rename_i ha
      obtain ⟨hxa, hxl⟩ := (hS2 a l hl).2 x hx
      have hne : (x.txId, x.index) ≠ (i.txId, i.index) := by
        intro e
        injection e with e1 e2
        rw [e1, e2, hu] at hxl
        injection hxl with hxl
        subst hxl
        exact ha hxa.symm
      exact consume_live_fwd_useful h hxl hne (hS1 _ _ _ hxl).2.2.2
  · intro a l hl
    rw [hb] at hl
    split at hl
    · split at hl
      · cases hl
      · injection hl with hl
        subst hl
        cases hg : st.byAddr[a]? with
        | none => simp [eraseFirst]
        | some l0 => exact (hS3 a l0 hg).sublist (eraseFirst_sublist _ _)
    · exact hS3 a l hl

/-- every output the transaction creates is useful: no zero-valued non-yielding output in a transaction
    that creates an entry (i.e. in a multi-output transaction) -/
def UsefulOutputs (tx : Tx) : Prop :=
  creates tx = true → ∀ o ∈ tx.outputs, (decide (o.value > 0) || o.yielding) = true

instance (tx : Tx) : Decidable (UsefulOutputs tx) := by unfold UsefulOutputs; exact inferInstance

theorem afterCreate_indexedS {st : UtxoReg} (tx : Tx) (ts : Int) (hS : IndexedS st) (hfresh : st.byId[tx.id]? = none)
    (huse : UsefulOutputs tx) : IndexedS (afterCreate st tx ts) := by
  have hW' := afterCreate_indexedW tx ts hS.toW
  obtain ⟨hS1, hS2, hS3⟩ := hS
  by_cases hc : creates tx = true
  · have hother : ∀ id, id ≠ tx.id → ∀ idx, live (afterCreate st tx ts) id idx = live st id idx :=
      fun id hne idx => afterCreate_live_other st tx ts hne idx
    have hself : (afterCreate st tx ts).byId[tx.id]? = some ((mkUtxos tx.id ts tx.outputs 0).map some) := by
      unfold afterCreate
      rw [if_pos hc]
      show (st.byId.insert tx.id _)[tx.id]? = _
      rw [TreeMap.getElem?_insert]; simp
    have hnew : ∀ x ∈ mkUtxos tx.id ts tx.outputs 0,
        x.txId = tx.id ∧ live (afterCreate st tx ts) x.txId x.index = some x ∧ slotLive (some x) = true := by
      intro x hx
      obtain ⟨k, o, ho, hxe, hk⟩ := mem_mkUtxos hx
      have hid : x.txId = tx.id := by rw [hxe]
      have hix : x.index = k := by rw [hxe]; simp
      refine ⟨hid, ?_, ?_⟩
      · rw [hid, hix]
        exact live_eq_some_iff.2 ⟨_, hself, by rw [List.getElem?_map, hk]; rfl⟩
      · have := huse hc o (List.mem_of_getElem? ho)
        rw [hxe]; exact this
    have hold_ne : ∀ x, live st x.txId x.index = some x → x.txId ≠ tx.id := by
      intro x hx e
      rw [e] at hx
      rw [live_eq_none_of_byId_none hfresh] at hx; cases hx
    have hbyAddr : ∀ a, (afterCreate st tx ts).byAddr[a]? =
        if (mkUtxos tx.id ts tx.outputs 0).any (fun u => u.out.address == a) then
          some ((st.byAddr[a]?.getD []) ++ (mkUtxos tx.id ts tx.outputs 0).filter (fun u => u.out.address == a))
        else st.byAddr[a]? := by
      intro a
      unfold afterCreate
      rw [if_pos hc]
      exact addByAddr_get _ _ _
    refine ⟨?_, ?_, ?_⟩
    · intro id idx v hv
      obtain ⟨h1, h2, h3⟩ := hW'.1 id idx v hv
      refine ⟨h1, h2, h3, ?_⟩
      by_cases hid : id = tx.id
      · subst hid
        obtain ⟨slots, hs, hv'⟩ := live_eq_some_iff.1 hv
        rw [hself] at hs
        injection hs with hs
        subst hs
        rw [List.getElem?_map] at hv'
        cases hk : (mkUtxos tx.id ts tx.outputs 0)[idx]? with
        | none => rw [hk] at hv'; cases hv'
        | some w =>
          rw [hk] at hv'
          simp only [Option.map_some, Option.some.injEq] at hv'
          subst hv'
          exact (hnew w (List.mem_of_getElem? hk)).2.2
      · rw [hother id hid] at hv
        exact (hS1 id idx v hv).2.2.2
    · intro a l hl
      refine ⟨(hW'.2 a l hl).1, ?_⟩
      intro x hx
      refine ⟨(hW'.2 a l hl).2 x hx, ?_⟩
      have hold : ∀ l0, st.byAddr[a]? = some l0 → x ∈ l0 → live (afterCreate st tx ts) x.txId x.index = some x := by
        intro l0 hg hx0
        obtain ⟨-, hxl⟩ := (hS2 a l0 hg).2 x hx0
        rw [hother _ (hold_ne x hxl)]; exact hxl
      rw [hbyAddr] at hl
      split at hl
      · injection hl with hl
        subst hl
        rcases List.mem_append.1 hx with hx | hx
        · cases hg : st.byAddr[a]? with
          | none => rw [hg] at hx; cases hx
          | some l0 => rw [hg] at hx; exact hold l0 hg hx
        · exact (hnew x (List.mem_filter.1 hx).1).2.1
      · exact hold l hl hx
    · intro a l hl
      rw [hbyAddr] at hl
      split at hl
      · injection hl with hl
        subst hl
        rw [List.pairwise_append]
        refine ⟨?_, ?_, ?_⟩
        · cases hg : st.byAddr[a]? with
          | none => simp
          | some l0 => exact hS3 a l0 hg
        · refine ((mkUtxos_pairwise tx.id ts tx.outputs 0).imp ?_).sublist List.filter_sublist
          intro x y hxy hand
          exact hxy hand.2
        · intro x hx y hy hand
          cases hg : st.byAddr[a]? with
          | none => rw [hg] at hx; cases hx
          | some l0 =>
            rw [hg] at hx
            obtain ⟨-, hxl⟩ := (hS2 a l0 hg).2 x hx
            exact hold_ne x hxl (hand.1.trans (hnew y (List.mem_filter.1 hy).1).1)
      · exact hS3 a l hl
  · have : afterCreate st tx ts = st := by unfold afterCreate; rw [if_neg hc]
    rw [this]; exact ⟨hS1, hS2, hS3⟩

theorem applyTx_indexedS {st st' : UtxoReg} {tx : Tx} {ts : Int} (hS : IndexedS st) (huse : UsefulOutputs tx)
    (h : applyTx st tx ts = .ok st') : IndexedS st' := by
  obtain ⟨hf, -, hc⟩ := applyTx_ok h
  exact consumeAll_induct (P := IndexedS) (fun _ _ _ hp hc => consume_indexedS hp hc)
    (afterCreate_indexedS tx ts hS hf huse) hc

theorem applyTxs_indexedS {st st' : UtxoReg} {txs : List Tx} {ts : Int} (hS : IndexedS st)
    (huse : ∀ t ∈ txs, UsefulOutputs t) (h : applyTxs st txs ts = .ok st') : IndexedS st' :=
  applyTxs_induct (P := IndexedS) (Q := UsefulOutputs) (fun _ _ _ hq hp hc => applyTx_indexedS hp hq hc)
    huse hS h

/-! ### the income check -/

theorem incomesOk_iff (m : TreeMap String (List Utxo)) :
    incomesOk m = true ↔ ∀ (a : String) (l : List Utxo), m[a]? = some l → countYielding l ≤ 1 := by
  unfold incomesOk
  rw [List.all_eq_true]
  constructor
  · intro h a l hl
    have := h (a, l) (TreeMap.mem_toList_iff_getElem?_eq_some.2 hl)
    simpa using this
  · intro h kv hkv
    obtain ⟨a, l⟩ := kv
    have := h a l (TreeMap.mem_toList_iff_getElem?_eq_some.1 hkv)
    simpa using this

theorem countYielding_utxos_le_one {r : UtxoReg} (h : incomesOk r.byAddr = true) (a : String) :
    countYielding (r.utxos a) ≤ 1 := by
  unfold utxos
  cases hg : r.byAddr[a]? with
  | none => simp [countYielding]
  | some l => exact (incomesOk_iff _).1 h a l hg

/-- two distinct yielding elements force `countYielding ≥ 2` -/
theorem two_le_countYielding {l : List Utxo} {x y : Utxo} (hx : x ∈ l) (hy : y ∈ l) (hne : x ≠ y)
    (hxy : x.out.yielding = true) (hyy : y.out.yielding = true) : 2 ≤ countYielding l := by
  unfold countYielding
  have hx' : x ∈ l.filter (fun u => u.out.yielding) := List.mem_filter.2 ⟨hx, hxy⟩
  have hy' : y ∈ l.filter (fun u => u.out.yielding) := List.mem_filter.2 ⟨hy, hyy⟩
  generalize l.filter (fun u => u.out.yielding) = f at hx' hy'
  match f, hx', hy' with
  | [], hx', _ => cases hx'
  | [z], hx', hy' =>
    simp only [List.mem_singleton] at hx' hy'
    exact absurd (hx'.trans hy'.symm) hne
  | _ :: _ :: _, _, _ => simp

end UtxoReg

/-! ### the address registry -/

namespace AddrReg

theorem filter_getD (r : AddrReg) (l : List String) :
    (filter r l).getD [] = l.filter (fun a => !r.isRegistered a) := by
  unfold filter isRegistered
  split
  · rename_i h; rw [h]; rfl
  · rename_i l' h; simp

theorem filter_eq_none_iff (r : AddrReg) (l : List String) :
    filter r l = none ↔ ∀ a ∈ l, r.isRegistered a = true := by
  unfold filter isRegistered
  split
  · rename_i h
    simp only [true_iff]
    intro a ha
    rw [List.filter_eq_nil_iff] at h
    simpa using h a ha
  · rename_i l' hne
    simp only [false_iff, reduceCtorEq]
    intro hall
    apply hne
    rw [List.filter_eq_nil_iff]
    intro a ha
    simpa using hall a ha

theorem filter_eq_some {r : AddrReg} {l l' : List String} (h : filter r l = some l') :
    l' = l.filter (fun a => !r.isRegistered a) ∧ l' ≠ [] := by
  have hg := filter_getD r l
  rw [h] at hg
  simp only [Option.getD_some] at hg
  refine ⟨hg, ?_⟩
  intro e
  subst e
  unfold filter at h
  split at h
  · cases h
  · rename_i l2 hne
    injection h with h
    exact hne h

theorem foldl_erase_contains (rem : List String) (s : TreeSet String) (a : String) :
    (rem.foldl (fun s a => s.erase a) s).contains a = (s.contains a && !rem.contains a) := by
  induction rem generalizing s with
  | nil => simp
  | cons x rem ih =>
    simp only [List.foldl_cons, ih, TreeSet.contains_erase, List.contains_cons]
    by_cases hx : x = a
    · subst hx; simp
    · have h1 : (compare x a != Ordering.eq) = true := by simpa [compare_eq_iff_eq] using hx
      have h2 : (a == x) = false := by simpa using Ne.symm hx
      simp [h1, h2]

theorem foldl_insert_contains (added : List String) (s : TreeSet String) (a : String) :
    (added.foldl (fun s a => s.insert a) s).contains a = (added.contains a || s.contains a) := by
  induction added generalizing s with
  | nil => simp
  | cons x added ih =>
    simp only [List.foldl_cons, ih, TreeSet.contains_insert, List.contains_cons]
    by_cases hx : x = a
    · subst hx; simp
    · have h1 : (compare x a == Ordering.eq) = false := by simpa [compare_eq_iff_eq] using hx
      have h2 : (a == x) = false := by simpa using Ne.symm hx
      simp [h1, h2]

theorem applyRemovals_registered (r : AddrReg) (rem : List String) :
    (applyRemovals r rem).registered = rem.foldl (fun s a => s.erase a) r.registered := by
  induction rem generalizing r with
  | nil => rfl
  | cons x rem ih => simp only [applyRemovals, List.foldl_cons]; rw [ih]

theorem applyRemovals_pending (r : AddrReg) (rem : List String) :
    (applyRemovals r rem).pending = rem.foldl removeAddress r.pending := by
  induction rem generalizing r with
  | nil => rfl
  | cons x rem ih => simp only [applyRemovals, List.foldl_cons]; rw [ih]

theorem update_registered (r : AddrReg) (added removed : List String) :
    (update r added removed).registered =
      added.foldl (fun s a => s.insert a) (removed.foldl (fun s a => s.erase a) r.registered) := by
  unfold update
  simp only [applyRemovals_registered]

theorem update_isRegistered (r : AddrReg) (added removed : List String) (a : String) :
    (update r added removed).isRegistered a =
      (added.contains a || (r.isRegistered a && !removed.contains a)) := by
  unfold isRegistered
  rw [update_registered, foldl_insert_contains, foldl_erase_contains]

end AddrReg

/-! ### `unionAdded`, `yieldingAddrs` -/

namespace Ledger

theorem mem_foldl_union (bl acc : List String) (y : String) :
    y ∈ bl.foldl (fun (acc : List String) x => if acc.contains x then acc else acc ++ [x]) acc ↔ y ∈ acc ∨ y ∈ bl := by
  induction bl generalizing acc with
  | nil => simp
  | cons x bl ih =>
    simp only [List.foldl_cons, ih, List.mem_cons]
    by_cases hx : acc.contains x = true
    · rw [if_pos hx]
      have : x ∈ acc := by simpa using hx
      constructor
      · rintro (h | h)
        · exact Or.inl h
        · exact Or.inr (Or.inr h)
      · rintro (h | h | h)
        · exact Or.inl h
        · exact Or.inl (h ▸ this)
        · exact Or.inr h
    · rw [if_neg hx]
      simp only [List.mem_append, List.mem_singleton]
      constructor
      · rintro ((h | h) | h)
        · exact Or.inl h
        · exact Or.inr (Or.inl h)
        · exact Or.inr (Or.inr h)
      · rintro (h | h | h)
        · exact Or.inl (Or.inl h)
        · exact Or.inl (Or.inr h)
        · exact Or.inr h

theorem mem_unionAdded (a b : Option (List String)) (x : String) :
    x ∈ (unionAdded a b).getD [] ↔ x ∈ a.getD [] ∨ x ∈ b.getD [] := by
  unfold unionAdded
  cases b with
  | none => simp
  | some bl =>
    simp only [Option.getD_some]
    split
    · rename_i hnil
      have hm := mem_foldl_union bl (a.getD []) 
      rw [hnil] at hm
      constructor
      · exact Or.inl
      · rintro (h | h)
        · exact h
        · exact absurd ((hm x).2 (Or.inr h)) (by simp)
    · simp only [Option.getD_some]
      rw [← mem_foldl_union bl (a.getD []) x]

end Ledger

theorem Node.mem_yieldingAddrs (txs : List Tx) (a : String) :
    a ∈ Node.yieldingAddrs txs ↔ ∃ t ∈ txs, ∃ o ∈ t.outputs, o.yielding = true ∧ o.address = a := by
  unfold Node.yieldingAddrs
  simp only [List.mem_flatMap, List.mem_map, List.mem_filter]
  constructor
  · rintro ⟨t, ht, o, ⟨ho, hy⟩, ha⟩
    exact ⟨t, ht, o, ho, hy, ha⟩
  · rintro ⟨t, ht, o, ho, hy, ha⟩
    exact ⟨t, ht, o, ⟨ho, hy⟩, ha⟩

/-! ### provenance of live outputs -/

namespace UtxoReg

/-- a live output after `applyTx` was live before, or is an output of this very transaction -/
theorem applyTx_live_provenance {st st' : UtxoReg} {tx : Tx} {ts : Int} (h : applyTx st tx ts = .ok st')
    {id : String} {idx : Nat} {v : Utxo} (hv : live st' id idx = some v) :
    (id ≠ tx.id ∧ live st id idx = some v) ∨
    (id = tx.id ∧ creates tx = true ∧ ∃ o, tx.outputs[idx]? = some o ∧ v = ⟨tx.id, idx, o, ts⟩) := by
  by_cases hid : id = tx.id
  · right
    subst hid
    obtain ⟨hf, -, hc⟩ := applyTx_ok h
    have hv1 := consumeAll_live_back hc hv
    by_cases hcr : creates tx = true
    · refine ⟨rfl, hcr, ?_⟩
      obtain ⟨slots, hs, hv'⟩ := live_eq_some_iff.1 hv1
      unfold afterCreate at hs
      rw [if_pos hcr] at hs
      dsimp only at hs
      rw [TreeMap.getElem?_insert] at hs
      simp only [compare_eq_iff_eq, if_true] at hs
      injection hs with hs
      subst hs
      rw [List.getElem?_map, mkUtxos_getElem?] at hv'
      cases ho : tx.outputs[idx]? with
      | none => rw [ho] at hv'; cases hv'
      | some o =>
        rw [ho] at hv'
        simp only [Option.map_some, Option.some.injEq, Nat.zero_add] at hv'
        exact ⟨o, rfl, hv'.symm⟩
    · have : afterCreate st tx ts = st := by unfold afterCreate; rw [if_neg hcr]
      rw [this, live_eq_none_of_byId_none hf] at hv1; cases hv1
  · exact Or.inl ⟨hid, applyTx_live_back_other h hid hv⟩

/-- a live output after `applyTxs` was live before, or is an output of a transaction of the batch -/
theorem applyTxs_live_provenance {st st' : UtxoReg} {txs : List Tx} {ts : Int} (h : applyTxs st txs ts = .ok st')
    {id : String} {idx : Nat} {v : Utxo} (hv : live st' id idx = some v) :
    live st id idx = some v ∨
    ∃ t ∈ txs, t.id = id ∧ creates t = true ∧ ∃ o, t.outputs[idx]? = some o ∧ v = ⟨id, idx, o, ts⟩ := by
  induction txs generalizing st with
  | nil => unfold applyTxs at h; injection h with h; subst h; exact Or.inl hv
  | cons t txs ih =>
    obtain ⟨st1, h1, h2⟩ := applyTxs_cons_ok h
    rcases ih h2 with hl | ⟨t', ht', rest⟩
    · rcases applyTx_live_provenance h1 hl with ⟨-, h0⟩ | ⟨hid, hcr, o, ho, hvo⟩
      · exact Or.inl h0
      · exact Or.inr ⟨t, List.mem_cons_self, hid.symm, hcr, o, ho, by rw [hid]; exact hvo⟩
    · exact Or.inr ⟨t', List.mem_cons_of_mem _ ht', rest⟩

end UtxoReg

/-! ### the full index invariant as first specified (FALSE as an invariant of the model, see C10) -/

namespace UtxoReg

/-- every live slot `byId[id][idx] = some u` has `u.txId = id ∧ u.index = idx ∧ u ∈ byAddr[u.out.address]`, and
    every element `u` of a `byAddr[a]` list has `u.out.address = a` and, if useful (`slotLive`), is a live slot -/
def Indexed (r : UtxoReg) : Prop :=
  (∀ id idx u, live r id idx = some u → u.txId = id ∧ u.index = idx ∧ u ∈ r.utxos u.out.address) ∧
  (∀ (a : String) (l : List Utxo), r.byAddr[a]? = some l →
      ∀ u ∈ l, u.out.address = a ∧ (slotLive (some u) = true → live r u.txId u.index = some u))

theorem IndexedS.toIndexed {r : UtxoReg} (h : IndexedS r) : Indexed r := by
  refine ⟨h.toW.1, ?_⟩
  intro a l hl u hu
  have h2 := (h.2.1 a l hl).2 u hu
  exact ⟨h2.1, fun _ => h2.2⟩

theorem Indexed.toW_live {r : UtxoReg} (h : Indexed r) :
    ∀ id idx u, live r id idx = some u → u.txId = id ∧ u.index = idx ∧ u ∈ r.utxos u.out.address := h.1

theorem indexed_empty : Indexed UtxoReg.empty := indexedS_empty.toIndexed

end UtxoReg

/-! ### concrete values used by the non-vacuity examples and counterexamples of C02 / C10 -/

namespace RegEx

def xU0 : Utxo := ⟨"T", 0, ⟨"A", false, 0⟩, 1⟩
def xU1 : Utxo := ⟨"T", 1, ⟨"B", false, 5⟩, 1⟩
def xU2 : Utxo := ⟨"T", 2, ⟨"B", true, 0⟩, 1⟩
def xG : Utxo := ⟨"G", 0, ⟨"X", false, 10⟩, 1⟩
/-- "T" has three outputs (zero-valued to A, 5 to B, yielding to B), "G" one -/
def xSt : UtxoReg :=
  ⟨((∅ : TreeMap String (List (Option Utxo))).insert "T" [some xU0, some xU1, some xU2]).insert "G" [some xG],
   (((∅ : TreeMap String (List Utxo)).insert "A" [xU0]).insert "B" [xU1, xU2]).insert "X" [xG]⟩
/-- "T" with only the zero-valued slot and one useful slot left -/
def xSt2 : UtxoReg :=
  ⟨(∅ : TreeMap String (List (Option Utxo))).insert "T" [some xU0, some xU1, none],
   ((∅ : TreeMap String (List Utxo)).insert "A" [xU0]).insert "B" [xU1]⟩
def xIn (id : String) (idx : Nat) (a : String) : Input := ⟨id, idx, "", "", a, true⟩
def xTxG : Tx := ⟨"G", [], [⟨"X", false, 10⟩], 1⟩
def xTxA : Tx := ⟨"A1", [xIn "G" 0 "X"], [⟨"Y", false, 9⟩], 1⟩
def xTxB : Tx := ⟨"B1", [xIn "G" 0 "X"], [⟨"Z", false, 8⟩], 1⟩
def xTxDup : Tx := ⟨"D1", [xIn "G" 0 "X", xIn "G" 0 "X"], [⟨"Z", false, 8⟩], 1⟩
def xEnv : Env := ⟨fun v _ _ => v, fun _ => "h"⟩
def xCfg : Cfg := ⟨10, 100, 1, 10, "V"⟩
def xConf : UtxoReg :=
  ⟨(∅ : TreeMap String (List (Option Utxo))).insert "G" [some xG], (∅ : TreeMap String (List Utxo)).insert "X" [xG]⟩
def xB0 : Block := ⟨zeroHash, none, none, 10, [xTxG]⟩
def xTxR : Tx := ⟨"R", [], [⟨"V", false, 0⟩], 20⟩
def xNodeLast : Node := ⟨⟨[xB0, ⟨"h", none, none, 20, [{ xTxA with ts := 15 }, xTxR]⟩], xConf, .empty⟩, []⟩
def xNodePool : Node := ⟨⟨[xB0, ⟨"h", none, none, 20, [xTxR]⟩], xConf, .empty⟩, [{ xTxA with ts := 25 }]⟩
def xNodeFree : Node := ⟨⟨[xB0, ⟨"h", none, none, 20, [xTxR]⟩], xConf, .empty⟩, []⟩

/-- a five-transaction history: "T" is created with a zero-valued output to A and 5 to B; spending (T,1)
    prunes the entry "T" and leaves the zero-valued output stale in `byAddr[A]`; the id "T" is created again,
    now with a yielding output to A at the same reference (T,0); spending (T,0) erases the STALE element
    (first match by reference) from `byAddr[A]` and the new, yielding one stays behind as a ghost. -/
def cxTxs : List Tx :=
  [ ⟨"G", [], [⟨"X", false, 10⟩], 1⟩,
    ⟨"T", [xIn "G" 0 "X"], [⟨"A", false, 0⟩, ⟨"B", false, 5⟩], 1⟩,
    ⟨"U", [xIn "T" 1 "B"], [⟨"C", false, 5⟩], 1⟩,
    ⟨"T", [xIn "U" 0 "C"], [⟨"A", true, 5⟩], 1⟩,
    ⟨"V", [xIn "T" 0 "A"], [⟨"D", false, 5⟩], 1⟩ ]
def cxGhost : Utxo := ⟨"T", 0, ⟨"A", true, 5⟩, 1⟩
def cxStale : Utxo := ⟨"T", 0, ⟨"A", false, 0⟩, 1⟩
/-- a later transaction paying A a yielding output -/
def cxLater : Tx := ⟨"W", [xIn "V" 0 "D"], [⟨"A", true, 5⟩], 1⟩

end RegEx

end Ru
