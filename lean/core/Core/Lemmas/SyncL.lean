/-
  Core/Lemmas/SyncL.lean — helper lemmas on fork choice / sync (`Ru.Sync.*`), `Ledger.verify`,
  hash-linking and the selection loop.  Used by Props/C06, C12, C13.
-/
import Core.Machine
import Core.Lemmas.AddBlock
open Std

namespace Ru
namespace SL

/-! ### hash linking -/

/-- `bs` is hash-linked starting from previous hash `h` -/
def linkedFrom (env : Env) : Hash → List Block → Prop
  | _, [] => True
  | h, b :: rest => b.prevHash = h ∧ linkedFrom env (env.hash b) rest

/-- consecutive blocks are hash-linked -/
def Consec (env : Env) (bs : List Block) : Prop :=
  ∀ i a b, bs[i]? = some a → bs[i+1]? = some b → b.prevHash = env.hash a

/-- a served chain is hash-linked: first block has the zero previous hash, every other block carries
    the hash of the block below it -/
def Linked (env : Env) (bs : List Block) : Prop :=
  (∀ b, bs.head? = some b → b.prevHash = zeroHash) ∧ Consec env bs

/-- hash a chain's successor must carry: the tip's hash, or `d` for the empty chain -/
def tipHash (env : Env) (d : Hash) (bs : List Block) : Hash :=
  match bs.getLast? with
  | some p => env.hash p
  | none => d

theorem consec_cons (env : Env) (b : Block) (rest : List Block) :
    Consec env (b :: rest) ↔ (∀ c, rest.head? = some c → c.prevHash = env.hash b) ∧ Consec env rest := by
  constructor
  · intro h
    refine ⟨?_, ?_⟩
    · intro c hc
      apply h 0 b c (by simp)
      cases rest <;> simp_all
    · intro i a c ha hc
      exact h (i+1) a c (by simpa using ha) (by simpa using hc)
  · rintro ⟨h1, h2⟩ i a c ha hc
    cases i with
    | zero =>
      simp at ha; subst ha
      apply h1
      cases rest <;> simp_all
    | succ i => exact h2 i a c (by simpa using ha) (by simpa using hc)

theorem linkedFrom_iff (env : Env) (h : Hash) (bs : List Block) :
    linkedFrom env h bs ↔ (∀ b, bs.head? = some b → b.prevHash = h) ∧ Consec env bs := by
  induction bs generalizing h with
  | nil => simp [linkedFrom, Consec]
  | cons b rest ih =>
    rw [linkedFrom, consec_cons, ih]
    simp
    
theorem linked_iff (env : Env) (bs : List Block) : Linked env bs ↔ linkedFrom env zeroHash bs :=
  (linkedFrom_iff env zeroHash bs).symm

theorem linkedFrom_append (env : Env) (h : Hash) (xs ys : List Block) :
    linkedFrom env h (xs ++ ys) ↔ linkedFrom env h xs ∧ linkedFrom env (tipHash env h xs) ys := by
  induction xs generalizing h with
  | nil => simp [linkedFrom, tipHash]
  | cons x rest ih =>
    simp only [List.cons_append, linkedFrom, ih, and_assoc]
    have : tipHash env (env.hash x) rest = tipHash env h (x :: rest) := by
      unfold tipHash
      cases rest with
      | nil => simp
      | cons y r =>
        rw [List.getLast?_cons_cons, List.getLast?_eq_some_getLast (List.cons_ne_nil y r)]
    rw [this]

theorem linkedFrom_dropLast (env : Env) (h : Hash) (bs : List Block) (hl : linkedFrom env h bs) :
    linkedFrom env h bs.dropLast := by
  by_cases hb : bs = []
  · subst hb; simp [linkedFrom]
  · have := List.dropLast_concat_getLast hb
    rw [← this, linkedFrom_append] at hl
    exact hl.1

/-! ### `verifyLoop` / `verify` decomposition -/

open Ledger

/-- hash `verifyLoop` compares the next block's previous hash with -/
def prevHashOpt (env : Env) (prev : Option Block) : Hash :=
  match prev with | some p => env.hash p | none => zeroHash

theorem verifyLoop_cons_ok {env : Env} {cfg : Cfg} {now : Int} {lastHost : List Block} {nl : Ledger}
    {prev : Option Block} {b : Block} {rest : List Block} {i : Nat} {out : Ledger}
    (h : verifyLoop env cfg now lastHost nl prev (b :: rest) i = .ok out) :
    b.prevHash = prevHashOpt env prev ∧
    ∃ nl', (if i == 0 then .ok { nl with blocks := nl.blocks ++ [b] } else nl.addBlockRaw b) = .ok nl' ∧
      verifyLoop env cfg now lastHost nl' (some b) rest (i + 1) = .ok out := by
  unfold verifyLoop at h
  cases prev <;>
  · simp only at h
    split at h
    · cases h
    · rename_i hp
      refine ⟨by simpa [prevHashOpt] using hp, ?_⟩
      split at h
      · cases h
      · split at h
        · cases h
        · rename_i nl' hnl
          exact ⟨nl', hnl, h⟩

theorem verifyLoop_linked {env : Env} {cfg : Cfg} {now : Int} {lastHost : List Block} :
    ∀ (bs : List Block) (nl : Ledger) (prev : Option Block) (i : Nat) (out : Ledger),
    verifyLoop env cfg now lastHost nl prev bs i = .ok out → linkedFrom env (prevHashOpt env prev) bs := by
  intro bs
  induction bs with
  | nil => intros; simp [linkedFrom]
  | cons b rest ih =>
    intro nl prev i out h
    obtain ⟨hp, nl', _, h2⟩ := verifyLoop_cons_ok h
    exact ⟨hp, ih _ _ _ _ h2⟩


/-- the "fork" test of `verify` on the first blocks -/
def forkCond (lastHost nb : List Block) : Bool :=
  match lastHost, nb with
  | lh :: _, n0 :: _ => lh.prevHash != n0.prevHash
  | _, _ => true

theorem verify_eq (env : Env) (cfg : Cfg) (host : Ledger) (lastHost nb oldHost : List Block) (now : Int) :
    verify env cfg host lastHost nb oldHost now =
      if oldHost.isEmpty && nb.length < 2 then .error "too-short"
      else if !oldHost.isEmpty && forkCond lastHost nb then .error "fork"
      else
        match verifyLoop env cfg now lastHost
          (if oldHost.isEmpty then ⟨[], .empty, .empty⟩ else ⟨oldHost, host.utxos, host.reg⟩)
          oldHost.getLast? nb 0 with
        | .error e => .error e
        | .ok nl =>
          match nl.addBlock env (nl.lastTs + cfg.interval) [] [] with
          | .error e => .error e
          | .ok _ => .ok nb := rfl

theorem verify_ok {env : Env} {cfg : Cfg} {host : Ledger} {lastHost nb oldHost v : List Block} {now : Int}
    (h : verify env cfg host lastHost nb oldHost now = .ok v) :
    v = nb ∧ (oldHost = [] → 2 ≤ nb.length) ∧ nb ≠ [] ∧
    ∃ nl, verifyLoop env cfg now lastHost
      (if oldHost.isEmpty then ⟨[], .empty, .empty⟩ else ⟨oldHost, host.utxos, host.reg⟩)
      oldHost.getLast? nb 0 = .ok nl := by
  rw [verify_eq] at h
  by_cases h1 : (oldHost.isEmpty && decide (nb.length < 2)) = true
  · rw [if_pos h1] at h; cases h
  · rw [if_neg h1] at h
    by_cases h2 : (!oldHost.isEmpty && forkCond lastHost nb) = true
    · rw [if_pos h2] at h; cases h
    · rw [if_neg h2] at h
      cases hnl : verifyLoop env cfg now lastHost
        (if oldHost.isEmpty then ⟨[], .empty, .empty⟩ else ⟨oldHost, host.utxos, host.reg⟩)
        oldHost.getLast? nb 0 with
      | error e => rw [hnl] at h; cases h
      | ok nl =>
        rw [hnl] at h
        simp only at h
        cases hab : addBlock env nl (nl.lastTs + cfg.interval) [] [] with
        | error e => rw [hab] at h; cases h
        | ok x =>
          rw [hab] at h
          cases h
          refine ⟨rfl, ?_, ?_, nl, rfl⟩
          · intro ho; subst ho; simp at h1; omega
          · intro hn; subst hn
            by_cases ho : oldHost = []
            · subst ho; simp at h1
            · cases lastHost <;> simp [ho, forkCond] at h2

theorem replay_blocks (l : Ledger) (bs : List Block) : (Sync.replay l bs).1.blocks = l.blocks := by
  induction bs generalizing l with
  | nil => rfl
  | cons b rest ih =>
    unfold Sync.replay
    split
    · simp only; exact ih l
    · rw [ih]

theorem verifyLoop_replay {env : Env} {cfg : Cfg} {now : Int} {lastHost : List Block} (X : List Block) :
    ∀ (bs : List Block) (nl : Ledger) (prev : Option Block) (i : Nat) (last : Block) (out : Ledger),
    i ≠ 0 → nl.blocks.getLast? = some last →
    verifyLoop env cfg now lastHost nl prev bs i = .ok out →
    Sync.replay ⟨X, nl.utxos, nl.reg⟩ ((last :: bs).dropLast) = (⟨X, out.utxos, out.reg⟩, true) := by
  intro bs
  induction bs with
  | nil =>
    intro nl prev i last out _ _ h
    unfold verifyLoop at h
    cases h
    simp [Sync.replay]
  | cons b rest ih =>
    intro nl prev i last out hi hlast h
    obtain ⟨_, nl', hnl, h2⟩ := verifyLoop_cons_ok h
    have hi' : (i == 0) = false := by simp [hi]
    simp only [hi', Bool.false_eq_true, if_false] at hnl
    unfold addBlockRaw at hnl
    rw [hlast] at hnl
    simp only at hnl
    cases hu : nl.utxos.update last.txs last.ts with
    | error e => rw [hu] at hnl; cases hnl
    | ok u' =>
      rw [hu] at hnl
      cases hnl
      have := ih _ (some b) (i + 1) b out (by omega) (by simp) h2
      rw [List.dropLast_cons_cons] 
      unfold Sync.replay
      simp only [hu]
      exact this
/-- verified neighbour blocks replay without error on the state `verify` started from -/
theorem verify_replay_ok {env : Env} {cfg : Cfg} {host : Ledger} {lastHost nb oldHost v : List Block} {now : Int}
    (h : verify env cfg host lastHost nb oldHost now = .ok v) (X : List Block) :
    (Sync.replay (if oldHost.isEmpty then ⟨X, .empty, .empty⟩ else ⟨X, host.utxos, host.reg⟩) nb.dropLast).2 = true := by
  obtain ⟨_, _, hne, nl, hl⟩ := verify_ok h
  cases nb with
  | nil => exact absurd rfl hne
  | cons b0 rest =>
    obtain ⟨_, nl', hnl, h2⟩ := verifyLoop_cons_ok hl
    simp only [beq_self_eq_true, if_true] at hnl
    cases hnl
    have := verifyLoop_replay X rest _ (some b0) 1 b0 nl (by omega) (by simp) h2
    by_cases ho : oldHost.isEmpty = true
    · simp only [ho, if_true] at this ⊢
      rw [this]
    · have ho' : oldHost.isEmpty = false := by simpa using ho
      simp only [ho', Bool.false_eq_true, if_false] at this ⊢
      rw [this]

/-- hash-linking of verified blocks -/
theorem verify_linked {env : Env} {cfg : Cfg} {host : Ledger} {lastHost nb oldHost v : List Block} {now : Int}
    (h : verify env cfg host lastHost nb oldHost now = .ok v) :
    linkedFrom env (tipHash env zeroHash oldHost) nb := by
  obtain ⟨_, _, _, nl, hl⟩ := verify_ok h
  have := verifyLoop_linked _ _ _ _ _ hl
  unfold prevHashOpt at this
  unfold tipHash
  exact this

/-! ### candidates -/

theorem Cands.mem_set {c : Cands} {t : String} {bs : List Block} {kv : String × List Block}
    (h : kv ∈ Cands.set c t bs) : kv ∈ c ∨ kv = (t, bs) := by
  unfold Cands.set at h
  split at h
  · rw [List.mem_map] at h
    obtain ⟨x, hx, rfl⟩ := h
    split
    · right; rfl
    · left; exact hx
  · rcases List.mem_append.mp h with h | h
    · left; exact h
    · right; simpa using h

theorem Cands.length_set (c : Cands) (t : String) (bs : List Block) : c.length ≤ (Cands.set c t bs).length := by
  unfold Cands.set; split <;> simp

theorem Cands.set_has (c : Cands) (t : String) (bs : List Block) : ∃ kv ∈ Cands.set c t bs, kv.1 = t := by
  unfold Cands.set
  split
  · rename_i h
    rw [List.any_eq_true] at h
    obtain ⟨x, hx, hxt⟩ := h
    refine ⟨(t, bs), ?_, rfl⟩
    rw [List.mem_map]
    exact ⟨x, hx, by simp [hxt]⟩
  · exact ⟨(t, bs), by simp, rfl⟩

theorem Cands.set_keeps {c : Cands} {t : String} {bs : List Block} {kv : String × List Block}
    (hkv : kv ∈ c) (hne : kv.1 ≠ t) : kv ∈ Cands.set c t bs := by
  unfold Cands.set
  split
  · rw [List.mem_map]
    exact ⟨kv, hkv, by simp [hne]⟩
  · exact List.mem_append_left _ hkv

theorem length_ge_two_of_mem {α} {l : List α} {a b : α} (ha : a ∈ l) (hb : b ∈ l) (hab : a ≠ b) : 2 ≤ l.length := by
  match l, ha, hb with
  | [], ha, _ => cases ha
  | [x], ha, hb => simp at ha hb; subst ha; subst hb; exact absurd rfl hab
  | _ :: _ :: _, _, _ => simp


namespace Sync
open Ru.Sync

/-- candidate produced by phase 1 (incremental verification from the tip) -/
def FromPhase1 (env : Env) (cfg : Cfg) (host : Ledger) (now : Int) (resps : List Resp) (kv : String × List Block) : Prop :=
  ∃ r ∈ resps, ∃ nb, r.first = some nb ∧
    Ledger.verify env cfg host host.blocks.getLast?.toList nb host.blocks.dropLast now = .ok nb ∧
    kv = (r.target, host.blocks.dropLast ++ nb)

/-- candidate produced by phase 2 (full verification from height 0) -/
def FromPhase2 (env : Env) (cfg : Cfg) (host : Ledger) (now : Int) (resps : List Resp) (kv : String × List Block) : Prop :=
  ∃ r ∈ resps, ∃ nb, r.second = some nb ∧
    Ledger.verify env cfg host host.blocks.dropLast nb [] now = .ok nb ∧ kv = (r.target, nb)

/-- one step of phase 1 -/
def step1 (env : Env) (cfg : Cfg) (host : Ledger) (now : Int) (r : Resp) (c : Cands) : Cands :=
  match r.first with
  | none => c
  | some nb =>
    match Ledger.verify env cfg host host.blocks.getLast?.toList nb host.blocks.dropLast now with
    | .error _ => c
    | .ok verified => c.set r.target (host.blocks.dropLast ++ verified)

/-- one step of phase 2 -/
def step2 (env : Env) (cfg : Cfg) (host : Ledger) (now : Int) (r : Resp) (c : Cands) : Cands :=
  match r.second with
  | none => c
  | some nb =>
    match Ledger.verify env cfg host host.blocks.dropLast nb [] now with
    | .error _ => c
    | .ok verified => c.set r.target verified

theorem phase1_cons (env : Env) (cfg : Cfg) (host : Ledger) (now : Int) (r : Resp) (rs : List Resp) (c : Cands) :
    phase1 env cfg host now (r :: rs) c = phase1 env cfg host now rs (step1 env cfg host now r c) := by
  have e : (match host.blocks.getLast? with | some b => [b] | none => []) = host.blocks.getLast?.toList := by
    cases host.blocks.getLast? <;> rfl
  unfold step1
  rw [← e]
  rfl

theorem phase2_cons (env : Env) (cfg : Cfg) (host : Ledger) (now : Int) (r : Resp) (rs : List Resp) (c : Cands) :
    phase2 env cfg host now (r :: rs) c = phase2 env cfg host now rs (step2 env cfg host now r c) := rfl

theorem step1_cases (env : Env) (cfg : Cfg) (host : Ledger) (now : Int) (r : Resp) (c : Cands) :
    step1 env cfg host now r c = c ∨
    ∃ nb, r.first = some nb ∧
      Ledger.verify env cfg host host.blocks.getLast?.toList nb host.blocks.dropLast now = .ok nb ∧
      step1 env cfg host now r c = c.set r.target (host.blocks.dropLast ++ nb) := by
  unfold step1
  cases hf : r.first with
  | none => left; rfl
  | some nb =>
    cases hv : Ledger.verify env cfg host host.blocks.getLast?.toList nb host.blocks.dropLast now with
    | error e => left; simp only [hv]
    | ok v =>
      obtain ⟨rfl, _⟩ := verify_ok hv
      right; exact ⟨v, rfl, hv, by simp only [hv]⟩

theorem step2_cases (env : Env) (cfg : Cfg) (host : Ledger) (now : Int) (r : Resp) (c : Cands) :
    step2 env cfg host now r c = c ∨
    ∃ nb, r.second = some nb ∧
      Ledger.verify env cfg host host.blocks.dropLast nb [] now = .ok nb ∧
      step2 env cfg host now r c = c.set r.target nb := by
  unfold step2
  cases hf : r.second with
  | none => left; rfl
  | some nb =>
    cases hv : Ledger.verify env cfg host host.blocks.dropLast nb [] now with
    | error e => left; simp only [hv]
    | ok v =>
      obtain ⟨rfl, _⟩ := verify_ok hv
      right; exact ⟨v, rfl, hv, by simp only [hv]⟩

theorem phase1_mem {env : Env} {cfg : Cfg} {host : Ledger} {now : Int} :
    ∀ (rs : List Resp) (c : Cands) (kv : String × List Block),
    kv ∈ phase1 env cfg host now rs c → kv ∈ c ∨ FromPhase1 env cfg host now rs kv := by
  intro rs
  induction rs with
  | nil => intro c kv h; left; exact h
  | cons r rs ih =>
    intro c kv h
    rw [phase1_cons] at h
    rcases ih _ _ h with h | ⟨r', hr', x⟩
    · rcases step1_cases env cfg host now r c with e | ⟨nb, hf, hv, e⟩
      · left; rw [e] at h; exact h
      · rw [e] at h
        rcases Cands.mem_set h with h | h
        · left; exact h
        · right; exact ⟨r, by simp, nb, hf, hv, h⟩
    · right; exact ⟨r', by simp [hr'], x⟩

theorem phase2_mem {env : Env} {cfg : Cfg} {host : Ledger} {now : Int} :
    ∀ (rs : List Resp) (c : Cands) (kv : String × List Block),
    kv ∈ phase2 env cfg host now rs c → kv ∈ c ∨ FromPhase2 env cfg host now rs kv := by
  intro rs
  induction rs with
  | nil => intro c kv h; left; exact h
  | cons r rs ih =>
    intro c kv h
    rw [phase2_cons] at h
    rcases ih _ _ h with h | ⟨r', hr', x⟩
    · rcases step2_cases env cfg host now r c with e | ⟨nb, hf, hv, e⟩
      · left; rw [e] at h; exact h
      · rw [e] at h
        rcases Cands.mem_set h with h | h
        · left; exact h
        · right; exact ⟨r, by simp, nb, hf, hv, h⟩
    · right; exact ⟨r', by simp [hr'], x⟩

theorem phase1_length {env : Env} {cfg : Cfg} {host : Ledger} {now : Int} :
    ∀ (rs : List Resp) (c : Cands), c.length ≤ (phase1 env cfg host now rs c).length := by
  intro rs
  induction rs with
  | nil => intro c; exact Nat.le_refl _
  | cons r rs ih =>
    intro c
    rw [phase1_cons]
    refine Nat.le_trans ?_ (ih _)
    rcases step1_cases env cfg host now r c with e | ⟨nb, _, _, e⟩ <;> rw [e]
    · exact Nat.le_refl _
    · exact Cands.length_set _ _ _

/-- with the host's own entry present and no neighbour called "host", phase 1 either adds nothing
    or ends with at least two candidates -/
theorem phase1_alone {env : Env} {cfg : Cfg} {host : Ledger} {now : Int} :
    ∀ (rs : List Resp) (c : Cands), (∃ kv ∈ c, kv.1 = "host") → (∀ r ∈ rs, r.target ≠ "host") →
    phase1 env cfg host now rs c = c ∨ 2 ≤ (phase1 env cfg host now rs c).length := by
  intro rs
  induction rs with
  | nil => intro c _ _; left; rfl
  | cons r rs ih =>
    intro c hc ht
    rw [phase1_cons]
    rcases step1_cases env cfg host now r c with e | ⟨nb, _, _, e⟩ <;> rw [e]
    · exact ih c hc (fun r' hr' => ht r' (by simp [hr']))
    · right
      refine Nat.le_trans ?_ (phase1_length rs _)
      obtain ⟨kh, hkh, hk1⟩ := hc
      have hrt : r.target ≠ "host" := ht r (by simp)
      obtain ⟨kn, hkn, hk2⟩ := Cands.set_has c r.target (host.blocks.dropLast ++ nb)
      have h1 : kh ∈ Cands.set c r.target (host.blocks.dropLast ++ nb) :=
        Cands.set_keeps hkh (by rw [hk1]; exact fun h => hrt h.symm)
      exact length_ge_two_of_mem h1 hkn (by intro h; rw [h, hk2] at hk1; exact hrt hk1)

theorem phase1_noop {env : Env} {cfg : Cfg} {host : Ledger} {now : Int} :
    ∀ (rs : List Resp) (c : Cands),
    (∀ r ∈ rs, ∀ nb, r.first = some nb →
      ∃ e, Ledger.verify env cfg host host.blocks.getLast?.toList nb host.blocks.dropLast now = .error e) →
    phase1 env cfg host now rs c = c := by
  intro rs
  induction rs with
  | nil => intro c _; rfl
  | cons r rs ih =>
    intro c hf
    rw [phase1_cons]
    rcases step1_cases env cfg host now r c with e | ⟨nb, h1, h2, _⟩
    · rw [e]; exact ih c (fun r' hr' => hf r' (by simp [hr']))
    · obtain ⟨e, he⟩ := hf r (by simp) nb h1
      rw [he] at h2; cases h2

theorem phase2_noop {env : Env} {cfg : Cfg} {host : Ledger} {now : Int} :
    ∀ (rs : List Resp) (c : Cands),
    (∀ r ∈ rs, ∀ nb, r.second = some nb →
      ∃ e, Ledger.verify env cfg host host.blocks.dropLast nb [] now = .error e) →
    phase2 env cfg host now rs c = c := by
  intro rs
  induction rs with
  | nil => intro c _; rfl
  | cons r rs ih =>
    intro c hf
    rw [phase2_cons]
    rcases step2_cases env cfg host now r c with e | ⟨nb, h1, h2, _⟩
    · rw [e]; exact ih c (fun r' hr' => hf r' (by simp [hr']))
    · obtain ⟨e, he⟩ := hf r (by simp) nb h1
      rw [he] at h2; cases h2

end Sync
namespace Sync
open Ru.Sync

/-- `blocksByTarget` before any neighbour is asked -/
def hostCands (host : Ledger) : Cands := if host.blocks.length > 2 then [("host", host.blocks)] else []

/-- candidates after phase 1 -/
def cands1 (env : Env) (cfg : Cfg) (host : Ledger) (now : Int) (resps : List Resp) : Cands :=
  if host.blocks.length > 2 then phase1 env cfg host now resps (hostCands host) else hostCands host

theorem choose_isFork (env : Env) (cfg : Cfg) (host : Ledger) (now : Int) (resps : List Resp) :
    (choose env cfg host now resps).isFork =
      (decide (host.blocks.length > 0) && decide ((cands1 env cfg host now resps).length < 2) && decide (resps.length > 0)) := rfl

theorem choose_cands (env : Env) (cfg : Cfg) (host : Ledger) (now : Int) (resps : List Resp) :
    (choose env cfg host now resps).cands =
      if (choose env cfg host now resps).isFork then phase2 env cfg host now resps (cands1 env cfg host now resps)
      else cands1 env cfg host now resps := rfl

theorem choose_survivors (env : Env) (cfg : Cfg) (host : Ledger) (now : Int) (resps : List Resp) :
    (choose env cfg host now resps).survivors =
      (majorityFilter (choose env cfg host now resps).cands
          (minLen host.blocks.length (choose env cfg host now resps).cands)).filter
        (fun kv => !(kv.2.length < maxLen host.blocks.length (choose env cfg host now resps).cands)) := rfl

theorem choose_maxAge (env : Env) (cfg : Cfg) (host : Ledger) (now : Int) (resps : List Resp) :
    (choose env cfg host now resps).maxAge =
      (choose env cfg host now resps).survivors.foldl (fun m kv => max m (age kv.2)) 0 := rfl

/-- in the fork case phase 1 contributed nothing: the candidates are the host entry plus phase-2 results -/
theorem choose_cands_fork {env : Env} {cfg : Cfg} {host : Ledger} {now : Int} {resps : List Resp}
    (ht : ∀ r ∈ resps, r.target ≠ "host") (hf : (choose env cfg host now resps).isFork = true) :
    (choose env cfg host now resps).cands = phase2 env cfg host now resps (hostCands host) := by
  rw [choose_cands, hf, if_pos rfl]
  congr 1
  rw [choose_isFork] at hf
  simp only [Bool.and_eq_true, decide_eq_true_eq] at hf
  unfold cands1 at hf ⊢
  split
  · rename_i h2
    rw [if_pos h2] at hf
    have hc : ∃ kv ∈ hostCands host, kv.1 = "host" := by
      unfold hostCands; rw [if_pos h2]; exact ⟨("host", host.blocks), by simp, rfl⟩
    rcases phase1_alone (env := env) (cfg := cfg) (host := host) (now := now) resps _ hc ht with e | e
    · exact e
    · omega
  · rfl

theorem choose_cands_nofork {env : Env} {cfg : Cfg} {host : Ledger} {now : Int} {resps : List Resp}
    (hf : (choose env cfg host now resps).isFork = false) :
    (choose env cfg host now resps).cands = cands1 env cfg host now resps := by
  rw [choose_cands, hf]; rfl


/-! ### folds -/

theorem foldl_max_ge_init {α} (f : α → Nat) (l : List α) (n : Nat) :
    n ≤ l.foldl (fun m x => max m (f x)) n := by
  induction l generalizing n with
  | nil => exact Nat.le_refl _
  | cons x xs ih => exact Nat.le_trans (Nat.le_max_left _ _) (ih _)

theorem foldl_max_ge_mem {α} (f : α → Nat) (l : List α) (n : Nat) {x : α} (hx : x ∈ l) :
    f x ≤ l.foldl (fun m x => max m (f x)) n := by
  induction l generalizing n with
  | nil => cases hx
  | cons y ys ih =>
    rcases List.mem_cons.mp hx with rfl | h
    · exact Nat.le_trans (Nat.le_max_right _ _) (foldl_max_ge_init f ys _)
    · exact ih _ h

theorem foldl_max_le {α} (f : α → Nat) (l : List α) (n k : Nat) (hn : n ≤ k) (hl : ∀ x ∈ l, f x ≤ k) :
    l.foldl (fun m x => max m (f x)) n ≤ k := by
  induction l generalizing n with
  | nil => exact hn
  | cons y ys ih =>
    exact ih _ (Nat.max_le.mpr ⟨hn, hl y (by simp)⟩) (fun x hx => hl x (by simp [hx]))

theorem foldl_max_attained {α} (f : α → Nat) (l : List α) (n : Nat) :
    l.foldl (fun m x => max m (f x)) n = n ∨ ∃ x ∈ l, l.foldl (fun m x => max m (f x)) n = f x := by
  induction l generalizing n with
  | nil => left; rfl
  | cons y ys ih =>
    rcases ih (max n (f y)) with h | ⟨x, hx, h⟩
    · simp only [List.foldl_cons]
      rw [h]
      rcases Nat.le_total n (f y) with h1 | h1
      · right; exact ⟨y, by simp, Nat.max_eq_right h1⟩
      · left; exact Nat.max_eq_left h1
    · right; exact ⟨x, by simp [hx], h⟩

theorem foldl_min_le_init {α} (f : α → Nat) (l : List α) (n : Nat) :
    l.foldl (fun m x => min m (f x)) n ≤ n := by
  induction l generalizing n with
  | nil => exact Nat.le_refl _
  | cons x xs ih => exact Nat.le_trans (ih _) (Nat.min_le_left _ _)

theorem foldl_min_le_mem {α} (f : α → Nat) (l : List α) (n : Nat) {x : α} (hx : x ∈ l) :
    l.foldl (fun m x => min m (f x)) n ≤ f x := by
  induction l generalizing n with
  | nil => cases hx
  | cons y ys ih =>
    rcases List.mem_cons.mp hx with rfl | h
    · exact Nat.le_trans (foldl_min_le_init f ys _) (Nat.min_le_right _ _)
    · exact ih _ h

theorem foldl_min_ge {α} (f : α → Nat) (l : List α) (n k : Nat) (hn : k ≤ n) (hl : ∀ x ∈ l, k ≤ f x) :
    k ≤ l.foldl (fun m x => min m (f x)) n := by
  induction l generalizing n with
  | nil => exact hn
  | cons y ys ih =>
    exact ih _ (Nat.le_min.mpr ⟨hn, hl y (by simp)⟩) (fun x hx => hl x (by simp [hx]))

theorem maxLen_ge (n : Nat) (c : Cands) : n ≤ maxLen n c := foldl_max_ge_init (fun (kv : String × List Block) => kv.2.length) c n
theorem maxLen_ge_mem (n : Nat) (c : Cands) {kv : String × List Block} (h : kv ∈ c) : kv.2.length ≤ maxLen n c :=
  foldl_max_ge_mem (fun (kv : String × List Block) => kv.2.length) c n h
theorem minLen_le (n : Nat) (c : Cands) : minLen n c ≤ n := foldl_min_le_init (fun (kv : String × List Block) => kv.2.length) c n
theorem minLen_le_mem (n : Nat) (c : Cands) {kv : String × List Block} (h : kv ∈ c) : minLen n c ≤ kv.2.length :=
  foldl_min_le_mem (fun (kv : String × List Block) => kv.2.length) c n h
theorem minLen_ge (n k : Nat) (c : Cands) (hn : k ≤ n) (hl : ∀ kv ∈ c, k ≤ kv.2.length) : k ≤ minLen n c :=
  foldl_min_ge (fun (kv : String × List Block) => kv.2.length) c n k hn hl

/-! ### selection -/

theorem mem_selectionSet {ch : Choice} {sel : List Block} :
    sel ∈ selectionSet ch ↔ ch.maxAge ≠ 0 ∧ ∃ t, (t, sel) ∈ ch.survivors ∧ age sel = ch.maxAge := by
  unfold selectionSet
  split
  · rename_i h; simp at h; simp [h]
  · rename_i h
    simp only [beq_iff_eq] at h
    simp only [List.mem_map, List.mem_filter, beq_iff_eq, ne_eq, h, not_false_eq_true, true_and]
    constructor
    · rintro ⟨⟨t, bs⟩, ⟨h1, h2⟩, rfl⟩; exact ⟨t, h1, h2⟩
    · rintro ⟨t, h1, h2⟩; exact ⟨(t, sel), ⟨h1, h2⟩, rfl⟩

/-! ### commit -/

theorem isDifferent_self (env : Env) (hb : List Block) : isDifferent env hb hb = false := by
  unfold isDifferent
  simp only [Nat.lt_irrefl, if_false]
  split
  · cases h : hb.getLast? <;> simp
  · rfl

theorem commit_not_different {env : Env} {isFork : Bool} {host : Ledger} {sel : List Block}
    (h : isDifferent env host.blocks sel = false) : commit env isFork host sel = host := by
  unfold commit; simp [h]

theorem commit_blocks_cases (env : Env) (isFork : Bool) (host : Ledger) (sel : List Block) :
    (commit env isFork host sel).blocks = host.blocks ∨
    (isDifferent env host.blocks sel = true ∧ (commit env isFork host sel).blocks = sel) := by
  unfold commit
  split
  · left; rfl
  · rename_i h
    simp only [Bool.not_eq_true, Bool.not_eq_false', Bool.and_eq_true] at h
    simp only
    generalize hr : replay (if isFork = true then ⟨host.blocks, .empty, .empty⟩ else host) _ = r
    obtain ⟨l', ok⟩ := r
    simp only
    split
    · right; exact ⟨h.1, rfl⟩
    · left
      have := replay_blocks (if isFork = true then ⟨host.blocks, .empty, .empty⟩ else host)
        (if isFork = true then sel.dropLast else if host.blocks.length < sel.length then
          (sel.drop (host.blocks.length - 1)).dropLast else [])
      rw [hr] at this
      simp only at this
      rw [this]; split <;> rfl

end Sync
namespace Sync
open Ru.Sync

theorem cand_origin {env : Env} {cfg : Cfg} {host : Ledger} {now : Int} {resps : List Resp}
    (ht : ∀ r ∈ resps, r.target ≠ "host") {kv : String × List Block}
    (hkv : kv ∈ (choose env cfg host now resps).cands) :
    (kv = ("host", host.blocks) ∧ host.blocks.length > 2) ∨
    ((choose env cfg host now resps).isFork = false ∧ host.blocks.length > 2 ∧ FromPhase1 env cfg host now resps kv) ∨
    ((choose env cfg host now resps).isFork = true ∧ FromPhase2 env cfg host now resps kv) := by
  have hhost : ∀ kv, kv ∈ hostCands host → kv = ("host", host.blocks) ∧ host.blocks.length > 2 := by
    intro kv h
    unfold hostCands at h
    split at h
    · rename_i h2; exact ⟨by simpa using h, h2⟩
    · cases h
  cases hf : (choose env cfg host now resps).isFork with
  | true =>
    rw [choose_cands_fork ht hf] at hkv
    rcases phase2_mem _ _ _ hkv with h | h
    · left; exact hhost _ h
    · right; right; exact ⟨rfl, h⟩
  | false =>
    rw [choose_cands_nofork hf] at hkv
    unfold cands1 at hkv
    split at hkv
    · rename_i h2
      rcases phase1_mem _ _ _ hkv with h | h
      · left; exact hhost _ h
      · right; left; exact ⟨rfl, h2, h⟩
    · left; exact hhost _ hkv

theorem commit_eq_of_replay_ok {env : Env} {isFork : Bool} {host : Ledger} {sel : List Block}
    (hd : isDifferent env host.blocks sel = true) (hne : sel ≠ [])
    (hr : (replay (if isFork = true then ⟨host.blocks, .empty, .empty⟩ else host)
      (if isFork = true then sel.dropLast else if host.blocks.length < sel.length then
          (sel.drop (host.blocks.length - 1)).dropLast else [])).2 = true) :
    commit env isFork host sel =
      { (replay (if isFork = true then ⟨host.blocks, .empty, .empty⟩ else host)
      (if isFork = true then sel.dropLast else if host.blocks.length < sel.length then
          (sel.drop (host.blocks.length - 1)).dropLast else [])).1 with blocks := sel } := by
  unfold commit
  have : (sel.length != 0) = true := by
    cases sel with
    | nil => exact absurd rfl hne
    | cons _ _ => simp
  simp only [hd, this, Bool.and_self, Bool.not_true, Bool.false_eq_true, if_false]
  generalize replay _ _ = r at hr ⊢
  obtain ⟨l', ok⟩ := r
  simp only at hr
  simp [hr]

theorem commit_phase1 {env : Env} {cfg : Cfg} {host : Ledger} {now : Int} {nb : List Block}
    (h2 : host.blocks.length > 2)
    (hv : Ledger.verify env cfg host host.blocks.getLast?.toList nb host.blocks.dropLast now = .ok nb)
    (hd : isDifferent env host.blocks (host.blocks.dropLast ++ nb) = true) :
    (commit env false host (host.blocks.dropLast ++ nb)).blocks = host.blocks.dropLast ++ nb := by
  obtain ⟨_, _, hne, _⟩ := verify_ok hv
  have hok := verify_replay_ok hv host.blocks
  have hdl : host.blocks.dropLast.isEmpty = false := by
    cases hb : host.blocks.dropLast with
    | nil => have := congrArg List.length hb; simp at this; omega
    | cons _ _ => rfl
  simp only [hdl, Bool.false_eq_true, if_false] at hok
  rw [commit_eq_of_replay_ok hd (by simp [hne])]
  simp only [Bool.false_eq_true, if_false]
  split
  · have : List.drop (host.blocks.length - 1) (host.blocks.dropLast ++ nb) = nb := by
      rw [List.drop_append_of_le_length (by simp)]
      simp
    rw [this]; exact hok
  · rfl

theorem commit_phase2 {env : Env} {cfg : Cfg} {host : Ledger} {now : Int} {nb : List Block}
    (hv : Ledger.verify env cfg host host.blocks.dropLast nb [] now = .ok nb)
    (hd : isDifferent env host.blocks nb = true) :
    (commit env true host nb).blocks = nb := by
  obtain ⟨_, _, hne, _⟩ := verify_ok hv
  have hok := verify_replay_ok hv host.blocks
  simp only [List.isEmpty_nil, if_true] at hok
  rw [commit_eq_of_replay_ok hd hne]
  simpa using hok


theorem mem_outcomes {env : Env} {cfg : Cfg} {host : Ledger} {now : Int} {resps : List Resp} {l : Ledger}
    (h : l ∈ outcomes env cfg host now resps) :
    l = host ∨ ∃ sel ∈ selectionSet (choose env cfg host now resps),
      l = commit env (choose env cfg host now resps).isFork host sel := by
  unfold outcomes at h
  simp only at h
  split at h
  · left; simpa using h
  · rename_i heq
    rw [List.mem_map] at h
    obtain ⟨sel, hs, rfl⟩ := h
    right; exact ⟨sel, hs, rfl⟩

theorem survivors_sub_cands {env : Env} {cfg : Cfg} {host : Ledger} {now : Int} {resps : List Resp}
    {kv : String × List Block} (h : kv ∈ (choose env cfg host now resps).survivors) :
    kv ∈ (choose env cfg host now resps).cands := by
  rw [choose_survivors] at h
  have := (List.mem_filter.mp h).1
  unfold majorityFilter at this
  exact (List.mem_filter.mp this).1

/-- the chain of every ledger a sync round can end in -/
theorem outcome_cases {env : Env} {cfg : Cfg} {host : Ledger} {now : Int} {resps : List Resp}
    (ht : ∀ r ∈ resps, r.target ≠ "host") {l : Ledger} (h : l ∈ outcomes env cfg host now resps) :
    l = host ∨ ∃ sel ∈ selectionSet (choose env cfg host now resps),
      isDifferent env host.blocks sel = true ∧
      l = commit env (choose env cfg host now resps).isFork host sel ∧ l.blocks = sel := by
  rcases mem_outcomes h with h | ⟨sel, hs, rfl⟩
  · left; exact h
  · cases hd : isDifferent env host.blocks sel with
    | false => left; exact commit_not_different hd
    | true =>
      right
      refine ⟨sel, hs, hd, rfl, ?_⟩
      obtain ⟨_, t, hsv, _⟩ := mem_selectionSet.mp hs
      rcases cand_origin ht (survivors_sub_cands hsv) with ⟨h1, _⟩ | ⟨hf, h2, r, _, nb, _, hv, h1⟩ | ⟨hf, r, _, nb, _, hv, h1⟩
      · cases h1
        rw [isDifferent_self] at hd; cases hd
      · cases h1
        rw [hf]; exact commit_phase1 h2 hv hd
      · cases h1
        rw [hf]; exact commit_phase2 hv hd

end Sync
namespace Sync
open Ru.Sync

theorem filter_singleton {α} (p : α → Bool) (a : α) : [a].filter p = [] ∨ [a].filter p = [a] := by
  cases h : p a <;> simp [h]

theorem outcomes_of_host_cands {env : Env} {cfg : Cfg} {host : Ledger} {now : Int} {resps : List Resp}
    (hc : (choose env cfg host now resps).cands = hostCands host) :
    outcomes env cfg host now resps = [host] := by
  have hsv : (choose env cfg host now resps).survivors = [] ∨
      (choose env cfg host now resps).survivors = [("host", host.blocks)] := by
    rw [choose_survivors, hc]
    unfold hostCands majorityFilter
    split
    · rcases filter_singleton (fun kv =>
          let same := (List.filter (fun other =>
            prevHashAt kv.snd (minLen host.blocks.length [("host", host.blocks)] - 1) ==
              prevHashAt other.snd (minLen host.blocks.length [("host", host.blocks)] - 1)) [("host", host.blocks)]).length
          !decide (same < [("host", host.blocks)].length / 2)) ("host", host.blocks) with h | h
      · left; rw [h]; rfl
      · rw [h]
        rcases filter_singleton (fun (kv : String × List Block) =>
          !decide (kv.snd.length < maxLen host.blocks.length [("host", host.blocks)])) ("host", host.blocks) with h | h
        · left; exact h
        · right; exact h
    · left; rfl
  have hsel : selectionSet (choose env cfg host now resps) = [] ∨
      selectionSet (choose env cfg host now resps) = [host.blocks] := by
    unfold selectionSet
    split
    · left; rfl
    · rcases hsv with h | h <;> rw [h]
      · left; rfl
      · rcases filter_singleton (fun (kv : String × List Block) =>
          age kv.2 == (choose env cfg host now resps).maxAge) ("host", host.blocks) with h | h <;> rw [h]
        · left; rfl
        · right; rfl
  unfold outcomes
  simp only
  rcases hsel with h | h <;> rw [h]
  simp only [List.map_cons, List.map_nil]
  rw [commit_not_different (isDifferent_self env host.blocks)]

theorem cands_of_all_fail {env : Env} {cfg : Cfg} {host : Ledger} {now : Int} {resps : List Resp}
    (hfail : ∀ r ∈ resps,
      (∀ nb, r.first = some nb →
        ∃ e, Ledger.verify env cfg host host.blocks.getLast?.toList nb host.blocks.dropLast now = .error e) ∧
      (∀ nb, r.second = some nb →
        ∃ e, Ledger.verify env cfg host host.blocks.dropLast nb [] now = .error e)) :
    (choose env cfg host now resps).cands = hostCands host := by
  have h1 : cands1 env cfg host now resps = hostCands host := by
    unfold cands1
    split
    · exact phase1_noop resps _ (fun r hr => (hfail r hr).1)
    · rfl
  rw [choose_cands, h1]
  split
  · exact phase2_noop resps _ (fun r hr => (hfail r hr).2)
  · rfl

end Sync
/-! ### `step` equations -/

theorem step_tick (env : Env) (cfg : Cfg) (n : Node) (ts : Int) (perm : List Tx) (rewardId : String) :
    Ru.step env cfg n (.tick ts perm rewardId) =
      if perm.isPerm n.pool then (n.produce env cfg ts perm rewardId).getD n else n := rfl

theorem step_submit (env : Env) (cfg : Cfg) (n : Node) (tx : Tx) :
    Ru.step env cfg n (.submit tx) = n.admitTx env cfg tx := rfl

theorem step_sync (env : Env) (cfg : Cfg) (n : Node) (now : Int) (resps : List Resp) (pick : Nat) :
    Ru.step env cfg n (.sync now resps pick) =
      match (Sync.outcomes env cfg n.led now resps)[pick]? with
      | some l => { n with led := l }
      | none => n := rfl

theorem step_regsync (env : Env) (cfg : Cfg) (n : Node) (newly : List String) :
    Ru.step env cfg n (.regsync newly) =
      if newly.all (fun a => n.led.reg.isRegistered a) then
        { n with led := { n.led with reg := n.led.reg.appendPending newly } }
      else n := rfl

/-! ### block production -/

open Ledger in
theorem confirmLast_blocks {l c : Ledger} (h : l.confirmLast = .ok c) : c.blocks = l.blocks := by
  unfold confirmLast at h
  split at h
  · cases h; rfl
  · split at h
    · cases h
    · cases h; rfl

open Ledger in
theorem addBlock_ok {env : Env} {l l' : Ledger} {ts : Int} {txs : List Tx} {na : List String}
    (h : l.addBlock env ts txs na = .ok l') :
    ∃ b, l'.blocks = l.blocks ++ [b] ∧ b.prevHash = tipHash env zeroHash l.blocks ∧ b.ts = ts ∧ b.txs = txs := by
  obtain ⟨_, c, hc, rfl⟩ := addBlock_inv h
  · have hb := confirmLast_blocks hc
    refine ⟨mkBlock env l c ts txs na, by simp [hb], ?_, rfl, rfl⟩
    simp only [mkBlock, prevHashOf, tipHash, hb]
    rfl

open Ledger in
theorem produce_some {env : Env} {cfg : Cfg} {n n' : Node} {ts : Int} {perm : List Tx} {rewardId : String}
    (h : n.produce env cfg ts perm rewardId = some n') :
    ∃ txs na, n.led.addBlock env ts txs na = .ok n'.led := by
  unfold Node.produce at h
  simp only at h
  split at h
  · cases h
  · split at h
    · cases h
    · split at h
      · cases h
      · split at h
        · cases h
        · rename_i led' hab
          cases h
          exact ⟨_, _, hab⟩

open Ru.Sync Sync in
theorem Sync.cand_nonempty {env : Env} {cfg : Cfg} {host : Ledger} {now : Int} {resps : List Resp}
    (ht : ∀ r ∈ resps, r.target ≠ "host") {kv : String × List Block}
    (hkv : kv ∈ (choose env cfg host now resps).cands) : 1 ≤ kv.2.length ∧ 1 ≤ host.blocks.length := by
  rcases Sync.cand_origin ht hkv with ⟨h1, h2⟩ | ⟨hf, h2, r, hr, nb, h3, hv, h1⟩ | ⟨hf, r, hr, nb, h3, hv, h1⟩
  · rw [h1]; simp only; omega
  · rw [h1]
    have := (verify_ok hv).2.2.1
    have : 1 ≤ nb.length := by cases nb; exact absurd rfl this; simp
    simp only [List.length_append]; omega
  · rw [h1]
    have := (verify_ok hv).2.1 rfl
    rw [choose_isFork] at hf
    simp only [Bool.and_eq_true, decide_eq_true_eq] at hf
    simp only; omega


/-! ### the selection loop and map iteration order -/

namespace Sync
open Ru.Sync

/-- one iteration of Go's selection loop: a strictly greater age replaces the selection -/
def pickStep (st : Option (List Block) × Nat) (bs : List Block) : Option (List Block) × Nat :=
  if age bs > st.2 then (some bs, age bs) else st

/-- Go's selection loop over the surviving chains visited in the order `order`
    (`selectedBlocks` = nil and `maxRewardRecipientAddressAge` = 0 initially) -/
def pickLoop (order : List (List Block)) : Option (List Block) × Nat := order.foldl pickStep (none, 0)

/-- the chain Go's loop selects for iteration order `order` (none = `selectedBlocks` stays nil) -/
def pickFirstMax (order : List (List Block)) : Option (List Block) := (pickLoop order).1

theorem pickStep_snd (st : Option (List Block) × Nat) (bs : List Block) :
    (pickStep st bs).2 = max st.2 (age bs) := by
  unfold pickStep
  split
  · simp only; omega
  · omega

theorem foldl_pickStep_snd (l : List (List Block)) (st : Option (List Block) × Nat) :
    (l.foldl pickStep st).2 = l.foldl (fun m x => max m (age x)) st.2 := by
  induction l generalizing st with
  | nil => rfl
  | cons x xs ih => simp only [List.foldl_cons]; rw [ih, pickStep_snd]

theorem foldl_pickStep_cases (l : List (List Block)) (st : Option (List Block) × Nat) :
    l.foldl pickStep st = st ∨
    ∃ bs ∈ l, (l.foldl pickStep st).1 = some bs ∧ age bs = (l.foldl pickStep st).2 ∧ st.2 < (l.foldl pickStep st).2 := by
  induction l generalizing st with
  | nil => left; rfl
  | cons x xs ih =>
    simp only [List.foldl_cons]
    rcases ih (pickStep st x) with h | ⟨bs, hbs, h1, h2, h3⟩
    · rw [h]
      by_cases hx : age x > st.2
      · right
        refine ⟨x, by simp, ?_⟩
        unfold pickStep; rw [if_pos hx]; exact ⟨rfl, rfl, hx⟩
      · left; unfold pickStep; rw [if_neg hx]
    · right
      refine ⟨bs, by simp [hbs], h1, h2, ?_⟩
      have := pickStep_snd st x
      omega

theorem foldl_pickStep_stable (l : List (List Block)) (st : Option (List Block) × Nat)
    (h : ∀ x ∈ l, age x ≤ st.2) : l.foldl pickStep st = st := by
  induction l with
  | nil => rfl
  | cons x xs ih =>
    simp only [List.foldl_cons]
    have hx : ¬ (age x > st.2) := by have := h x (by simp); omega
    have : pickStep st x = st := by unfold pickStep; rw [if_neg hx]
    rw [this]; exact ih (fun y hy => h y (by simp [hy]))

theorem foldl_max_perm {α} (f : α → Nat) {l1 l2 : List α} (hp : l1.Perm l2) (n : Nat) :
    l1.foldl (fun m x => max m (f x)) n = l2.foldl (fun m x => max m (f x)) n := by
  apply Nat.le_antisymm
  · exact foldl_max_le f l1 n _ (foldl_max_ge_init f l2 n) (fun x hx => foldl_max_ge_mem f l2 n (hp.mem_iff.mp hx))
  · exact foldl_max_le f l2 n _ (foldl_max_ge_init f l1 n) (fun x hx => foldl_max_ge_mem f l1 n (hp.mem_iff.mpr hx))

theorem pick_sound {ch : Choice} (hM : ch.maxAge = ch.survivors.foldl (fun m kv => max m (age kv.2)) 0)
    {order : List (List Block)} (hp : order.Perm (ch.survivors.map (·.2))) :
    match pickFirstMax order with
    | some sel => sel ∈ selectionSet ch
    | none => selectionSet ch = [] := by
  have hsnd : (pickLoop order).2 = ch.maxAge := by
    unfold pickLoop
    rw [foldl_pickStep_snd, foldl_max_perm age hp, hM, List.foldl_map]
  unfold pickFirstMax
  rcases foldl_pickStep_cases order (none, 0) with h | ⟨bs, hbs, h1, h2, h3⟩
  · have h0 : ch.maxAge = 0 := by rw [← hsnd]; unfold pickLoop; rw [h]
    have h1 : (pickLoop order).1 = none := by unfold pickLoop; rw [h]
    rw [h1]
    simp only
    unfold selectionSet; simp [h0]
  · change (pickLoop order).1 = some bs at h1
    change age bs = (pickLoop order).2 at h2
    change 0 < (pickLoop order).2 at h3
    rw [h1]
    simp only
    rw [hsnd] at h2 h3
    have := hp.mem_iff.mp hbs
    rw [List.mem_map] at this
    obtain ⟨⟨t, bs'⟩, hkv, rfl⟩ := this
    exact mem_selectionSet.mpr ⟨by omega, t, hkv, h2⟩

theorem pick_complete {ch : Choice} (hM : ch.maxAge = ch.survivors.foldl (fun m kv => max m (age kv.2)) 0)
    {sel : List Block} (hs : sel ∈ selectionSet ch) :
    ∃ order : List (List Block), order.Perm (ch.survivors.map (·.2)) ∧ pickFirstMax order = some sel := by
  obtain ⟨hpos, t, hsv, hage⟩ := mem_selectionSet.mp hs
  have hmem : sel ∈ ch.survivors.map (·.2) := List.mem_map.mpr ⟨(t, sel), hsv, rfl⟩
  refine ⟨sel :: (ch.survivors.map (·.2)).erase sel, (List.perm_cons_erase hmem).symm, ?_⟩
  unfold pickFirstMax pickLoop
  simp only [List.foldl_cons]
  have h1 : pickStep (none, 0) sel = (some sel, ch.maxAge) := by
    unfold pickStep
    rw [if_pos (by simp only; omega), hage]
  rw [h1, foldl_pickStep_stable]
  intro x hx
  have hx' : x ∈ ch.survivors.map (·.2) := List.mem_of_mem_erase hx
  rw [List.mem_map] at hx'
  obtain ⟨kv, hkv, rfl⟩ := hx'
  simp only
  rw [hM]
  exact foldl_max_ge_mem (fun (kv : String × List Block) => age kv.2) _ 0 hkv

end Sync
/-! ### concrete scenarios for the non-vacuity examples of Props/C06, C12, C13 -/

namespace SyncEx
def env : Env := ⟨fun v _ _ => v, fun b => b.prevHash ++ "+" ++ (b.txs.map (·.id)).foldl (· ++ ·) ""⟩
def cfg : Cfg := ⟨2, 100, 1, 60, "v"⟩
def ops3 : List Op := [.tick 60 [] "r0", .tick 120 [] "r1", .tick 180 [] "r2"]
/-- a node after three ticks -/
def n3 : Node := Ru.run env cfg Node.empty ops3
/-- the same node one block later (what an honest peer ahead by one block holds) -/
def n4 : Node := Ru.step env cfg n3 (.tick 240 [] "r3")
/-- a competing fourth block -/
def n4' : Node := Ru.step env cfg n3 (.tick 240 [] "r3x")
/-- a node on another genesis -/
def m1 : Node := Ru.step env cfg Node.empty (.tick 60 [] "q0")
/-- a peer ahead by one block answers GetBlocks(2) -/
def respAhead : Resp := ⟨"p:1", some (n4.led.blocks.drop 2), none⟩
/-- another peer, ahead by a competing block -/
def respAhead' : Resp := ⟨"p:2", some (n4'.led.blocks.drop 2), none⟩
/-- a peer holding the three-block chain answers GetBlocks(0) -/
def respFull : Resp := ⟨"p:1", none, some n3.led.blocks⟩
end SyncEx

end SL
end Ru
