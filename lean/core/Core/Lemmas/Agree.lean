/-
  Core/Lemmas/Agree.lean — helper lemmas for C05 (agreement: the block an honest node produces is accepted by
  every honest node holding the same chain).
-/
import Core.Lemmas.Fee
import Core.Lemmas.Registry
import Core.Lemmas.Replay
import Core.Lemmas.VerifyReplay
import Core.Lemmas.SyncL
open Std

namespace Ru

/-! ## the yield rule (local copies of the C10 facts used here, so that this file depends on lemma files only) -/

theorem agree_verifier_yield_rule (reg : AddrReg) (added : List String) (tx : Tx) :
    Ledger.yieldsRegistered reg added tx = true ↔
      ∀ o ∈ tx.outputs, o.yielding = true → o.address ∈ added ∨ reg.isRegistered o.address = true := by
  unfold Ledger.yieldsRegistered
  rw [List.all_eq_true]
  constructor
  · intro h o ho hy
    have := h o ho
    simp only [hy, Bool.not_true, Bool.false_or, Bool.or_eq_true, List.contains_iff_mem] at this
    exact this
  · intro h o ho
    cases hy : o.yielding with
    | false => simp
    | true =>
      have := h o ho hy
      simp only [Bool.not_true, Bool.false_or, Bool.or_eq_true, List.contains_iff_mem]
      exact this

theorem agree_mem_filter (r : AddrReg) (l : List String) (a : String) :
    a ∈ (AddrReg.filter r l).getD [] ↔ a ∈ l ∧ r.isRegistered a = false := by
  rw [AddrReg.filter_getD, List.mem_filter]
  simp

/-- every yielding recipient of the kept transactions that is unregistered before (`l`) or after (`c`) confirming
    the previous block is listed by the produced block -/
theorem agree_producer_lists (env : Env) (l c : Ledger) (ts : Int) (txs kept : List Tx) (pre : List String)
    (t : Tx) (ht : t ∈ kept) (o : Output) (ho : o ∈ t.outputs) (hy : o.yielding = true)
    (hun : c.reg.isRegistered o.address = false ∨ l.reg.isRegistered o.address = false) :
    o.address ∈ (Ledger.mkBlock env l c ts txs (pre ++ Node.yieldingAddrs kept)).addedL := by
  unfold Ledger.mkBlock Block.addedL
  simp only
  rw [Ledger.mem_unionAdded, agree_mem_filter, agree_mem_filter]
  have hm : o.address ∈ pre ++ Node.yieldingAddrs kept :=
    List.mem_append_right _ ((Node.mem_yieldingAddrs kept o.address).2 ⟨t, ht, o, ho, hy, rfl⟩)
  rcases hun with h | h
  · exact Or.inr ⟨hm, h⟩
  · exact Or.inl ⟨hm, h⟩

namespace UtxoReg

/-! ## batch replay of the kept transactions -/

theorem agree_applyTxs_append (st : UtxoReg) (xs ys : List Tx) (ts : Int) :
    applyTxs st (xs ++ ys) ts =
      match applyTxs st xs ts with
      | .error e => .error e
      | .ok st' => applyTxs st' ys ts := by
  induction xs generalizing st with
  | nil => simp [applyTxs]
  | cons x xs ih =>
    simp only [List.cons_append]
    cases h : applyTx st x ts with
    | error e => rw [applyTxs_cons_error h, applyTxs_cons_error h]
    | ok st1 => rw [applyTxs_cons_of_ok h, applyTxs_cons_of_ok h]; exact ih st1

theorem agree_update_single {c c' : UtxoReg} {t : Tx} {next : Int} (h : update c [t] next = .ok c') :
    applyTx c t next = .ok c' ∧ incomesOk c'.byAddr = true := by
  obtain ⟨h1, h2⟩ := update_ok_iff.mp h
  refine ⟨?_, h2⟩
  unfold applyTxs at h1
  cases ha : applyTx c t next with
  | error e => rw [ha] at h1; cases h1
  | ok st1 => rw [ha] at h1; simpa [applyTxs] using h1

/-- keys of `byId`: a successful `applyTx` adds at most the transaction's own id -/
theorem agree_applyTx_byId_none {st st' : UtxoReg} {tx : Tx} {ts : Int} (h : applyTx st tx ts = .ok st')
    {k : String} (hk : st.byId[k]? = none) (hne : tx.id ≠ k) : st'.byId[k]? = none := by
  obtain ⟨_, _, hc⟩ := applyTx_ok h
  apply consumeAll_byId_none hc
  rw [afterCreate_byId_other st tx ts (Ne.symm hne)]; exact hk

theorem agree_applyTxs_byId_none {st st' : UtxoReg} {txs : List Tx} {ts : Int} (h : applyTxs st txs ts = .ok st')
    {k : String} (hk : st.byId[k]? = none) (hne : ∀ t ∈ txs, t.id ≠ k) : st'.byId[k]? = none := by
  induction txs generalizing st with
  | nil => unfold applyTxs at h; injection h with h; subst h; exact hk
  | cons t txs ih =>
    obtain ⟨st1, h1, h2⟩ := applyTxs_cons_ok h
    exact ih h2 (agree_applyTx_byId_none h1 hk (hne t List.mem_cons_self))
      (fun t' ht' => hne t' (List.mem_cons_of_mem _ ht'))

theorem agree_countYielding_append (l : List Utxo) (u : Utxo) (hu : u.out.yielding = false) :
    countYielding (l ++ [u]) = countYielding l := by
  simp [countYielding, List.filter_append, hu]

/-- applying a non-yielding single-output reward transaction with a fresh id succeeds and keeps the income rule -/
theorem agree_applyTx_reward {st : UtxoReg} (rid addr : String) (rts ts : Int) (fees : Nat)
    (hfresh : st.byId[rid]? = none) (hinc : incomesOk st.byAddr = true) :
    ∃ st', applyTx st (Node.rewardTx rid addr false rts fees) ts = .ok st' ∧ incomesOk st'.byAddr = true := by
  rw [applyTx_eq]
  have hc : st.byId.contains (Node.rewardTx rid addr false rts fees).id = false := by
    rw [TreeMap.contains_eq_isSome_getElem?]; simp [Node.rewardTx, hfresh]
  rw [hc]
  simp only [Bool.false_eq_true, if_false]
  have he : (Node.rewardTx rid addr false rts fees).outputs.isEmpty = false := rfl
  rw [he]
  simp only [Bool.false_eq_true, if_false]
  have hin : (Node.rewardTx rid addr false rts fees).inputs = [] := rfl
  rw [hin]
  refine ⟨_, rfl, ?_⟩
  unfold afterCreate
  split
  · show incomesOk (addByAddr st.byAddr (mkUtxos rid ts [⟨addr, false, fees⟩] 0)) = true
    simp only [mkUtxos, addByAddr]
    rw [fee_incomesOk_iff] at hinc ⊢
    intro k v hv
    rw [TreeMap.getElem?_insert] at hv
    split at hv
    · injection hv with hv
      subst hv
      rw [agree_countYielding_append _ _ rfl]
      cases hg : st.byAddr[addr]? with
      | none => simp [countYielding]
      | some l => simpa using hinc addr l hg
    · exact hinc k v hv
  · exact hinc

end UtxoReg

namespace Node

/-! ## the running copy of `Validate` is a batch replay -/

/-- the running copy after the loop is the batch application of the kept transactions, and satisfies the
    income rule when the initial copy does -/
theorem agree_greedy_applyTxs (env : Env) (cfg : Cfg) (confirmed : UtxoReg) (ts last next : Int)
    (perm : List Tx) (copy : UtxoReg) (hinc : UtxoReg.incomesOk copy.byAddr = true) :
    UtxoReg.applyTxs copy (greedy env cfg confirmed ts last next perm copy).1 next
        = .ok (greedy env cfg confirmed ts last next perm copy).2 ∧
      UtxoReg.incomesOk (greedy env cfg confirmed ts last next perm copy).2.byAddr = true := by
  induction perm generalizing copy with
  | nil => simp [greedy, UtxoReg.applyTxs, hinc]
  | cons t rest ih =>
    cases hk : keeps env cfg confirmed ts last next copy t with
    | false => rw [greedy_cons_false _ _ _ _ _ _ _ hk]; exact ih copy hinc
    | true =>
      rw [greedy_cons_true _ _ _ _ _ _ _ hk]
      obtain ⟨_, _, _, _, _, c', hu⟩ := (keeps_eq_true_iff env cfg confirmed ts last next copy t).mp hk
      have ha : advance next copy t = c' := by simp [advance, hu]
      obtain ⟨h1, h2⟩ := UtxoReg.agree_update_single hu
      rw [ha]
      obtain ⟨h3, h4⟩ := ih c' h2
      exact ⟨by rw [UtxoReg.applyTxs_cons_of_ok h1]; exact h3, h4⟩


/-- THE replay lemma: the block `kept ++ [reward]` of a non-first tick replays (at any timestamp) on the
    confirmed outputs with the previous tip applied (at any timestamp).  `copy` is the producer's copy
    (`update confirmed lastTxs next`); the reward id must be fresh: not a key of the confirmed registry, not the
    id of a transaction of the last block, not the id of a transaction tried. -/
theorem agree_block_replays (env : Env) (cfg : Cfg) (confirmed : UtxoReg) (lastTxs : List Tx) (ts last next : Int)
    (perm : List Tx) (copy : UtxoReg) (rid addr : String) (rts : Int) (fees : Nat)
    (hu : confirmed.update lastTxs next = .ok copy)
    (hf1 : confirmed.byId[rid]? = none) (hf2 : ∀ t ∈ lastTxs, t.id ≠ rid) (hf3 : ∀ t ∈ perm, t.id ≠ rid)
    (u' : UtxoReg) (t1 t2 : Int) (hu' : confirmed.update lastTxs t1 = .ok u') :
    ∃ fin, u'.update ((greedy env cfg confirmed ts last next perm copy).1 ++ [rewardTx rid addr false rts fees]) t2
      = .ok fin := by
  obtain ⟨ha0, hi0⟩ := UtxoReg.update_ok_iff.mp hu
  obtain ⟨ha1, hi1⟩ := agree_greedy_applyTxs env cfg confirmed ts last next perm copy hi0
  have hk0 : copy.byId[rid]? = none := UtxoReg.agree_applyTxs_byId_none ha0 hf1 hf2
  have hk1 : (greedy env cfg confirmed ts last next perm copy).2.byId[rid]? = none := by
    apply UtxoReg.agree_applyTxs_byId_none ha1 hk0
    intro t ht
    exact hf3 t ((greedy_sublist env cfg confirmed ts last next perm copy).subset ht)
  obtain ⟨st', hr1, hr2⟩ := UtxoReg.agree_applyTx_reward rid addr rts next fees hk1 hi1
  have hall : UtxoReg.applyTxs copy
      ((greedy env cfg confirmed ts last next perm copy).1 ++ [rewardTx rid addr false rts fees]) next = .ok st' := by
    rw [UtxoReg.agree_applyTxs_append, ha1]
    show UtxoReg.applyTxs _ [rewardTx rid addr false rts fees] next = _
    rw [UtxoReg.applyTxs_cons_of_ok hr1]; rfl
  have hupd : copy.update
      ((greedy env cfg confirmed ts last next perm copy).1 ++ [rewardTx rid addr false rts fees]) next = .ok st' :=
    UtxoReg.update_ok_iff.mpr ⟨hall, hr2⟩
  have hsim : UtxoReg.TSim u' copy := by
    have := UtxoReg.update_sim (UtxoReg.TSim.refl confirmed) lastTxs t1 next
    rw [hu', hu] at this
    exact this
  have := UtxoReg.update_sim hsim
    ((greedy env cfg confirmed ts last next perm copy).1 ++ [rewardTx rid addr false rts fees]) t2 next
  rw [hupd] at this
  cases hfin : u'.update
      ((greedy env cfg confirmed ts last next perm copy).1 ++ [rewardTx rid addr false rts fees]) t2 with
  | ok fin => exact ⟨fin, rfl⟩
  | error e => rw [hfin] at this; simp [UtxoReg.TSimE] at this

end Node

namespace Ledger

/-! ## the verifier on a block `ks ++ [reward]` -/

/-- what the verifier checks of an ordinary transaction, as a Bool-level conjunction -/
def agreeTxOk (env : Env) (cfg : Cfg) (l : Ledger) (b : Block) (prevTs : Int) (t : Tx) : Prop :=
  t.hasReward = false ∧ prevTs ≤ t.ts ∧ t.ts ≤ b.ts ∧ (∀ i ∈ t.inputs, i.sigValid = true) ∧
    yieldsRegistered l.reg b.addedL t = true ∧ (l.utxos.calculateFee env.val cfg.minFee t b.ts).isOk = true

theorem agree_verifyTxs_kept (env : Env) (cfg : Cfg) (l : Ledger) (b : Block) (prevTs : Int) (ks rest : List Tx)
    (rw : Bool) (r total : Nat) (hk : ∀ t ∈ ks, agreeTxOk env cfg l b prevTs t) :
    verifyTxs env cfg l b prevTs (ks ++ rest) rw r total =
      verifyTxs env cfg l b prevTs rest rw r (wrapAdd total (ks.map (feeOf env.val cfg.minFee l.utxos b.ts))) := by
  induction ks generalizing total with
  | nil => simp [wrapAdd]
  | cons t ks ih =>
    obtain ⟨h1, h2, h3, h4, h5, h6⟩ := hk t List.mem_cons_self
    obtain ⟨fee, hf⟩ := (fee_isOk_iff_exists _).mp h6
    have h4' : t.inputs.all (·.sigValid) = true := List.all_eq_true.mpr h4
    simp only [List.cons_append]
    conv => lhs; unfold verifyTxs
    rw [if_neg (by simp [h1]), if_neg (by omega), if_neg (by omega), if_neg (by simp [h4']), if_neg (by simp [h5]), hf]
    simp only
    rw [ih _ (fun t' ht' => hk t' (List.mem_cons_of_mem _ ht'))]
    simp [wrapAdd, feeOf_eq_of_ok hf]

/-- a block `ks ++ [rt]` whose ordinary transactions all pass and whose reward does not exceed the accumulated
    fees passes `verifyBlock` -/
theorem agree_verifyBlock (env : Env) (cfg : Cfg) (l : Ledger) (b : Block) (prevTs now : Int) (ks : List Tx) (rt : Tx)
    (hts : b.ts = prevTs + cfg.interval) (hz : b.ts ≠ 0) (hnow : b.ts ≤ now) (htxs : b.txs = ks ++ [rt])
    (hrt : rt.hasReward = true)
    (hk : ∀ t ∈ ks, agreeTxOk env cfg l b prevTs t)
    (hval : rt.rewardValue ≤ wrapAdd 0 (ks.map (feeOf env.val cfg.minFee l.utxos b.ts))) :
    verifyBlock env cfg l b prevTs now = .ok () := by
  unfold verifyBlock
  rw [if_neg (by simp [hts]), if_neg (by simpa using hz), if_neg (by omega), htxs,
    agree_verifyTxs_kept env cfg l b prevTs ks [rt] false 0 0 hk]
  unfold verifyTxs
  rw [if_pos hrt]
  simp only [Bool.false_eq_true, if_false, verifyTxs, Bool.not_true]
  rw [if_neg (by omega)]

end Ledger

/-! ## facts about a production -/

namespace Ledger

theorem agree_lastTs_append (l : Ledger) (old : List Block) (tip : Block) (h : l.blocks = old ++ [tip]) :
    l.lastTs = tip.ts ∧ l.lastTxs = tip.txs ∧ l.blocks.getLast? = some tip := by
  simp [lastTs, lastTxs, h]

/-- `confirmLastBlock` on a non-empty chain: the tip replays on the outputs -/
theorem agree_confirmLast_some {l c : Ledger} {tip : Block} (hl : l.blocks.getLast? = some tip)
    (h : l.confirmLast = .ok c) :
    l.utxos.update tip.txs tip.ts = .ok c.utxos ∧ c.blocks = l.blocks ∧
      c.reg = l.reg.update tip.addedL tip.removedL := by
  unfold confirmLast at h
  rw [hl] at h
  simp only at h
  cases hu : l.utxos.update tip.txs tip.ts with
  | error e => rw [hu] at h; cases h
  | ok u' => rw [hu] at h; injection h with h; subst h; exact ⟨rfl, rfl, rfl⟩

end Ledger

namespace Node

/-- every kept transaction of a non-first tick is ordinary and passes all the verifier's per-transaction checks
    against a ledger holding the producer's confirmed outputs and registered set (the state of a peer with
    the same chain) -/
theorem agree_kept_ok (env : Env) (cfg : Cfg) (n : Node) (c : Ledger) (ts : Int) (perm : List Tx) (rid : String)
    (copy : UtxoReg) (hmin : 1 ≤ cfg.minFee) (l : Ledger)
    (hlu : l.utxos = n.led.utxos) (hlr : l.reg.registered = n.led.reg.registered) :
    ∀ t ∈ keptOf env cfg n ts perm copy,
      Ledger.agreeTxOk env cfg l (blockOf env cfg n c ts rid (keptOf env cfg n ts perm copy)) n.led.lastTs t := by
  intro t ht
  obtain ⟨h1, h2, h3, f, hf⟩ := greedy_mem_keeps_parts env cfg n.led.utxos ts n.led.lastTs _ ht
  refine ⟨?_, h1, h2, h3, ?_, ?_⟩
  · cases hr : t.hasReward with
    | false => rfl
    | true =>
      obtain ⟨e, he⟩ := UtxoReg.calculateFee_noInputs_error env.val cfg.minFee hmin n.led.utxos t ts hr
      rw [he] at hf; cases hf
  · rw [agree_verifier_yield_rule]
    intro o ho hy
    cases hreg : n.led.reg.isRegistered o.address with
    | false =>
      left
      exact agree_producer_lists env n.led c ts _ (keptOf env cfg n ts perm copy) _ t ht o ho hy (Or.inr hreg)
    | true =>
      right
      simpa [AddrReg.isRegistered, hlr] using hreg
  · rw [hlu]
    show (n.led.utxos.calculateFee env.val cfg.minFee t ts).isOk = true
    rw [hf]; rfl

end Node

/-! ## the extension case: `verify [tip] [tip, b] old` -/

namespace Ledger

/-- The two loop iterations and the final `AddBlock` of `verify lastHost=[tip] nb=[tip, b]` started from a state
    `s` that holds the chain below the tip together with the producer's confirmed outputs and registered set. -/
theorem agree_extension_loop (env : Env) (cfg : Cfg) (n n' : Node) (ts : Int) (perm : List Tx) (rid : String)
    (old : List Block) (tip : Block) (now : Int) (s : Ledger)
    (hprod : n.produce env cfg ts perm rid = some n')
    (hchain : n.led.blocks = old ++ [tip])
    (hsched : ts = tip.ts + cfg.interval) (hmin : 1 ≤ cfg.minFee) (htip0 : tip.ts ≠ 0) (hts0 : ts ≠ 0)
    (hnow : ts ≤ now)
    (hlink : tip.prevHash = SL.prevHashOpt env old.getLast?)
    (hf1 : n.led.utxos.byId[rid]? = none) (hf2 : ∀ t ∈ tip.txs, t.id ≠ rid) (hf3 : ∀ t ∈ perm, t.id ≠ rid)
    (hsu : s.utxos = n.led.utxos) (hsr : s.reg.registered = n.led.reg.registered) :
    ∃ b, n'.led.blocks = old ++ [tip, b] ∧ b.ts = ts ∧
      ∃ nl fin, verifyLoop env cfg now [tip] s old.getLast? [tip, b] 0 = .ok nl ∧
        nl.addBlock env (nl.lastTs + cfg.interval) [] [] = .ok fin := by
  obtain ⟨hlts, hltx, hlast⟩ := agree_lastTs_append n.led old tip hchain
  obtain ⟨_, copy, c, hu, hc, hn'⟩ := Node.fee_produce_some hprod
  obtain ⟨hu', hcb, hcr⟩ := agree_confirmLast_some hlast hc
  have hl0 : n.led.lastTs ≠ 0 := by rw [hlts]; exact htip0
  have hb0 : (n.led.lastTs == 0) = false := by simpa using hl0
  refine ⟨Node.blockOf env cfg n c ts rid (Node.keptOf env cfg n ts perm copy), ?_, rfl, ?_⟩
  · rw [hn']; simp [hcb, hchain]
  -- iteration 0: the host's own tip
  rw [verifyLoop_cons]
  have hchk0 : loopCheck env cfg now [tip] s old.getLast? tip 0 = .ok () := by
    unfold loopCheck
    rw [hlink]
    cases old.getLast? <;> simp [SL.prevHashOpt]
  rw [hchk0]
  have happ0 : loopAppend s tip 0 = .ok { s with blocks := s.blocks ++ [tip] } := by simp [loopAppend]
  rw [happ0]
  simp only
  -- iteration 1: the produced block
  rw [verifyLoop_cons]
  have hvb : verifyBlock env cfg { s with blocks := s.blocks ++ [tip] }
      (Node.blockOf env cfg n c ts rid (Node.keptOf env cfg n ts perm copy)) tip.ts now = .ok () := by
    apply agree_verifyBlock env cfg _ _ tip.ts now (Node.keptOf env cfg n ts perm copy)
      (Node.rewardTx rid cfg.validator (n.led.lastTs == 0) ts
        (Node.feesOf env cfg n ts (Node.keptOf env cfg n ts perm copy))) hsched hts0 hnow rfl rfl
    · have := Node.agree_kept_ok env cfg n c ts perm rid copy hmin { s with blocks := s.blocks ++ [tip] } hsu hsr
      rw [hlts] at this
      exact this
    · show Node.feesOf env cfg n ts (Node.keptOf env cfg n ts perm copy) ≤ _
      simp only [Node.feesOf, Node.startReward, hb0]
      rw [hsu]
      exact Nat.le_refl _
  have hchk1 : loopCheck env cfg now [tip] { s with blocks := s.blocks ++ [tip] } (some tip)
      (Node.blockOf env cfg n c ts rid (Node.keptOf env cfg n ts perm copy)) (0 + 1) = .ok () := by
    unfold loopCheck
    have hp : (Node.blockOf env cfg n c ts rid (Node.keptOf env cfg n ts perm copy)).prevHash = env.hash tip := by
      simp [Node.blockOf, mkBlock, prevHashOf, hcb, hlast]
    simp [hp, hvb]
  rw [hchk1]
  have happ1 : loopAppend { s with blocks := s.blocks ++ [tip] }
      (Node.blockOf env cfg n c ts rid (Node.keptOf env cfg n ts perm copy)) (0 + 1) =
      .ok ⟨(s.blocks ++ [tip]) ++ [Node.blockOf env cfg n c ts rid (Node.keptOf env cfg n ts perm copy)],
           c.utxos, s.reg.update tip.addedL tip.removedL⟩ := by
    simp [loopAppend, addBlockRaw, hsu, hu']
  rw [happ1]
  simp only
  have hfinal : ∃ fin, addBlock env
      (⟨(s.blocks ++ [tip]) ++ [Node.blockOf env cfg n c ts rid (Node.keptOf env cfg n ts perm copy)],
           c.utxos, s.reg.update tip.addedL tip.removedL⟩ : Ledger)
      ((⟨(s.blocks ++ [tip]) ++ [Node.blockOf env cfg n c ts rid (Node.keptOf env cfg n ts perm copy)],
           c.utxos, s.reg.update tip.addedL tip.removedL⟩ : Ledger).lastTs + cfg.interval) [] [] = .ok fin := by
    -- the final AddBlock confirms the produced block
    obtain ⟨fin, hfin⟩ := Node.agree_block_replays env cfg n.led.utxos n.led.lastTxs ts n.led.lastTs
      (n.led.lastTs + cfg.interval) perm copy rid cfg.validator ts
      (Node.feesOf env cfg n ts (Node.keptOf env cfg n ts perm copy)) hu hf1 (by rw [hltx]; exact hf2) hf3
      c.utxos tip.ts ts (by rw [hltx]; exact hu')
    have hint : 0 < cfg.interval := by
      rcases Node.fee_produce_some_after_tip hprod with hb | hlt
      · rw [hchain] at hb; simp at hb
      · rw [hlts] at hlt; omega
    rw [addBlock_of_after_tip (Or.inr (by omega))]
    unfold confirmLast
    simp only [List.getLast?_append, List.getLast?_singleton, Option.some_or]
    have : (Node.blockOf env cfg n c ts rid (Node.keptOf env cfg n ts perm copy)).txs =
        Node.keptOf env cfg n ts perm copy ++ [Node.rewardTx rid cfg.validator false ts
          (Node.feesOf env cfg n ts (Node.keptOf env cfg n ts perm copy))] := by
      simp [Node.blockOf, mkBlock, hb0]
    rw [this]
    have hbts : (Node.blockOf env cfg n c ts rid (Node.keptOf env cfg n ts perm copy)).ts = ts := rfl
    rw [hbts]
    have hfin' : c.utxos.update (Node.keptOf env cfg n ts perm copy ++ [Node.rewardTx rid cfg.validator false ts
          (Node.feesOf env cfg n ts (Node.keptOf env cfg n ts perm copy))]) ts = .ok fin := hfin
    rw [hfin']
    exact ⟨_, rfl⟩
  obtain ⟨fin, hfin⟩ := hfinal
  exact ⟨_, fin, by unfold verifyLoop; rfl, hfin⟩

end Ledger

/-! ## consequences of `Derived` -/

theorem agree_replay_byId_none {c c' : Conf} {bs : List Block} (h : Conf.replay c bs = .ok c') {k : String}
    (hk : c.utxos.byId[k]? = none) (hne : ∀ b ∈ bs, ∀ t ∈ b.txs, t.id ≠ k) : c'.utxos.byId[k]? = none := by
  induction bs generalizing c with
  | nil => simp only [Conf.replay] at h; injection h with h; subst h; exact hk
  | cons b bs ih =>
    simp only [Conf.replay] at h
    cases hs : c.step b with
    | error e => rw [hs] at h; cases h
    | ok c1 =>
      rw [hs] at h
      unfold Conf.step at hs
      cases hu : c.utxos.update b.txs b.ts with
      | error e => rw [hu] at hs; cases hs
      | ok u =>
        rw [hu] at hs
        injection hs with hs
        subst hs
        apply ih h
        · exact UtxoReg.agree_applyTxs_byId_none (UtxoReg.update_ok_iff.mp hu).1 hk (hne b List.mem_cons_self)
        · exact fun b' hb' => hne b' (List.mem_cons_of_mem _ hb')

/-- keys of the confirmed registry of a derived ledger are ids of transactions of the chain below the tip -/
theorem agree_derived_byId_none {l : Ledger} (hd : Derived l) {k : String}
    (hne : ∀ b ∈ l.blocks.dropLast, ∀ t ∈ b.txs, t.id ≠ k) : l.utxos.byId[k]? = none := by
  have := agree_replay_byId_none hd (k := k) (by simp [Conf.empty, UtxoReg.empty]) hne
  exact this

/-- two derived ledgers with the same chain have the same confirmed outputs and registered set -/
theorem agree_derived_same {l1 l2 : Ledger} (h1 : Derived l1) (h2 : Derived l2) (hb : l1.blocks = l2.blocks) :
    l1.utxos = l2.utxos ∧ l1.reg.registered = l2.reg.registered := by
  unfold Derived at h1 h2
  rw [hb, h2] at h1
  injection h1 with h1
  simp only [Ledger.conf, Conf.mk.injEq] at h1
  exact ⟨h1.1.symm, h1.2.symm⟩

/-- a derived ledger with a one-block chain has the empty confirmed state -/
theorem agree_derived_single {l : Ledger} (hd : Derived l) {tip : Block} (hb : l.blocks = [tip]) :
    l.utxos = .empty ∧ l.reg.registered = ({} : TreeSet String) := by
  unfold Derived at hd
  rw [hb] at hd
  simp only [List.dropLast_singleton, Conf.replay] at hd
  injection hd with hd
  simp only [Ledger.conf, Conf.empty, Conf.mk.injEq] at hd
  exact ⟨hd.1.symm, hd.2.symm⟩


/-! ## a verified answer becomes a fork-choice candidate -/

theorem agree_mem_set_self (c : Cands) (t : String) (bs : List Block) : (t, bs) ∈ Cands.set c t bs := by
  unfold Cands.set
  split
  · rename_i h
    rw [List.any_eq_true] at h
    obtain ⟨x, hx, hxt⟩ := h
    rw [List.mem_map]
    exact ⟨x, hx, by simp [hxt]⟩
  · simp

theorem agree_step1_keeps (env : Env) (cfg : Cfg) (host : Ledger) (now : Int) (r : Resp) (c : Cands)
    {kv : String × List Block} (hkv : kv ∈ c) (hne : r.target ≠ kv.1) : kv ∈ SL.Sync.step1 env cfg host now r c := by
  rcases SL.Sync.step1_cases env cfg host now r c with e | ⟨nb, _, _, e⟩
  · rw [e]; exact hkv
  · rw [e]; exact SL.Cands.set_keeps hkv (Ne.symm hne)

theorem agree_phase1_keeps (env : Env) (cfg : Cfg) (host : Ledger) (now : Int) (rs : List Resp) (c : Cands)
    {kv : String × List Block} (hkv : kv ∈ c) (hne : ∀ r ∈ rs, r.target ≠ kv.1) :
    kv ∈ Sync.phase1 env cfg host now rs c := by
  induction rs generalizing c with
  | nil => simpa [Sync.phase1] using hkv
  | cons r rs ih =>
    rw [SL.Sync.phase1_cons]
    exact ih _ (agree_step1_keeps env cfg host now r c hkv (hne r List.mem_cons_self))
      (fun r' hr' => hne r' (List.mem_cons_of_mem _ hr'))

/-- an answer that passes incremental verification is a candidate after phase 1, provided no later answer comes
    from the same target -/
theorem agree_phase1_has (env : Env) (cfg : Cfg) (host : Ledger) (now : Int) (pre post : List Resp) (r : Resp)
    (c : Cands) (nb : List Block) (hf : r.first = some nb)
    (hv : Ledger.verify env cfg host host.blocks.getLast?.toList nb host.blocks.dropLast now = .ok nb)
    (hpost : ∀ r' ∈ post, r'.target ≠ r.target) :
    (r.target, host.blocks.dropLast ++ nb) ∈ Sync.phase1 env cfg host now (pre ++ r :: post) c := by
  induction pre generalizing c with
  | nil =>
    simp only [List.nil_append]
    rw [SL.Sync.phase1_cons]
    apply agree_phase1_keeps env cfg host now post _ _ hpost
    unfold SL.Sync.step1
    rw [hf]
    simp only
    rw [hv]
    exact agree_mem_set_self _ _ _
  | cons x xs ih =>
    simp only [List.cons_append]
    rw [SL.Sync.phase1_cons]
    exact ih _

/-- ... and of the whole round (`Sync.choose`), when the host has more than two blocks and no neighbour is called
    "host" -/
theorem agree_choose_has (env : Env) (cfg : Cfg) (host : Ledger) (now : Int) (pre post : List Resp) (r : Resp)
    (nb : List Block) (hlen : host.blocks.length > 2) (hf : r.first = some nb)
    (hv : Ledger.verify env cfg host host.blocks.getLast?.toList nb host.blocks.dropLast now = .ok nb)
    (hhost : ∀ r' ∈ pre ++ r :: post, r'.target ≠ "host") (hpost : ∀ r' ∈ post, r'.target ≠ r.target) :
    (r.target, host.blocks.dropLast ++ nb) ∈ (Sync.choose env cfg host now (pre ++ r :: post)).cands := by
  have h1 : (r.target, host.blocks.dropLast ++ nb) ∈ SL.Sync.cands1 env cfg host now (pre ++ r :: post) := by
    unfold SL.Sync.cands1
    rw [if_pos hlen]
    exact agree_phase1_has env cfg host now pre post r _ nb hf hv hpost
  have h2 : ("host", host.blocks) ∈ SL.Sync.cands1 env cfg host now (pre ++ r :: post) := by
    unfold SL.Sync.cands1
    rw [if_pos hlen]
    apply agree_phase1_keeps env cfg host now _ _ _ hhost
    unfold SL.Sync.hostCands
    rw [if_pos hlen]; simp
  have hne : (r.target, host.blocks.dropLast ++ nb) ≠ ("host", host.blocks) := by
    intro e
    injection e with e1 _
    exact hhost r (by simp) e1
  have hlen2 := SL.length_ge_two_of_mem h1 h2 hne
  have hnf : (Sync.choose env cfg host now (pre ++ r :: post)).isFork = false := by
    rw [SL.Sync.choose_isFork]
    have : decide ((SL.Sync.cands1 env cfg host now (pre ++ r :: post)).length < 2) = false := by
      simp; omega
    rw [this]; simp
  rw [SL.Sync.choose_cands_nofork hnf]
  exact h1


/-! ## the competitor case: the verifier has already confirmed the tip -/

namespace UtxoReg

theorem agree_tsim_live {a b : UtxoReg} (h : TSim a b) {id : String} {idx : Nat} {v : Utxo}
    (hv : live b id idx = some v) : ∃ w, live a id idx = some w := by
  obtain ⟨sb, hsb, hvb⟩ := live_eq_some_iff.mp hv
  have hk := h.1 id
  simp only [viewI, hsb, Option.map_some] at hk
  cases hsa : a.byId[id]? with
  | none => rw [hsa] at hk; cases hk
  | some sa =>
    rw [hsa] at hk
    simp only [Option.map_some, Option.some.injEq] at hk
    have hidx : (sa[idx]?).map (Option.map ztime) = (sb[idx]?).map (Option.map ztime) := by
      rw [← List.getElem?_map, ← List.getElem?_map, hk]
    rw [hvb] at hidx
    cases h1 : sa[idx]? with
    | none => rw [h1] at hidx; cases hidx
    | some o =>
      rw [h1] at hidx
      cases o with
      | none => simp at hidx
      | some w => exact ⟨w, live_eq_some_iff.mpr ⟨sa, hsa, h1⟩⟩

theorem agree_sumInputs_congr (val : Nat → Bool → Int → Nat) (m1 m2 : TreeMap String (List (Option Utxo))) (ts : Int)
    (is : List Input) (acc : Nat) (h : ∀ i ∈ is, lookup m1 i = lookup m2 i) :
    sumInputs val m1 ts is acc = sumInputs val m2 ts is acc := by
  induction is generalizing acc with
  | nil => rfl
  | cons i is ih =>
    unfold sumInputs
    rw [h i List.mem_cons_self]
    cases lookup m2 i with
    | error e => rfl
    | ok u =>
      dsimp only
      split
      · rfl
      · split
        · rfl
        · exact ih _ (fun j hj => h j (List.mem_cons_of_mem _ hj))

theorem agree_calculateFee_congr (val : Nat → Bool → Int → Nat) (minFee : Nat) (r1 r2 : UtxoReg) (tx : Tx) (ts : Int)
    (h : ∀ i ∈ tx.inputs, lookup r1.byId i = lookup r2.byId i) :
    calculateFee val minFee r1 tx ts = calculateFee val minFee r2 tx ts := by
  unfold calculateFee
  rw [agree_sumInputs_congr val r1.byId r2.byId ts tx.inputs 0 h]

end UtxoReg

namespace Node

/-- no transaction of `txs` carries the id of an output that is live in `r` -/
def NoRecreation (r : UtxoReg) (txs : List Tx) : Prop :=
  ∀ (id : String) (idx : Nat) (u : Utxo), UtxoReg.live r id idx = some u → ∀ t ∈ txs, t.id ≠ id

/-- an input of a kept transaction names the same output in the confirmed registry and in the registry with the
    last block applied, when neither the last block nor a transaction tried re-creates a live id -/
theorem agree_kept_lookup (env : Env) (cfg : Cfg) (confirmed : UtxoReg) (lastTxs : List Tx) (ts last next : Int)
    (perm : List Tx) (copy u' : UtxoReg) (t1 : Int)
    (hu : confirmed.update lastTxs next = .ok copy) (hu' : confirmed.update lastTxs t1 = .ok u')
    (hnr1 : NoRecreation confirmed lastTxs) (hnr2 : NoRecreation confirmed perm)
    (t : Tx) (ht : t ∈ (greedy env cfg confirmed ts last next perm copy).1) (i : Input) (hi : i ∈ t.inputs) :
    UtxoReg.lookup u'.byId i = UtxoReg.lookup confirmed.byId i := by
  obtain ⟨pre, post, hperm, hk⟩ := greedy_mem env cfg confirmed ts last next ht
  obtain ⟨_, _, _, ⟨f1, hf1⟩, ⟨f2, hf2⟩, _⟩ := (keeps_eq_true_iff _ _ _ _ _ _ _ _).mp hk
  -- the output in the confirmed registry
  obtain ⟨u0, hl0, _⟩ := UtxoReg.calculateFee_owner hf2 i hi
  have hlive0 := (UtxoReg.lookup_iff_live confirmed i u0).mp hl0
  -- the output in the running copy
  obtain ⟨uk, hlk, _⟩ := UtxoReg.calculateFee_owner hf1 i hi
  have hlivek := (UtxoReg.lookup_iff_live _ i uk).mp hlk
  -- back to the initial copy
  obtain ⟨ha0, hi0⟩ := UtxoReg.update_ok_iff.mp hu
  obtain ⟨hpre, _⟩ := agree_greedy_applyTxs env cfg confirmed ts last next pre copy hi0
  have hne_pre : ∀ t' ∈ (greedy env cfg confirmed ts last next pre copy).1, t'.id ≠ i.txId := by
    intro t' ht'
    apply hnr2 _ _ _ hlive0 t'
    rw [hperm]
    exact List.mem_append_left _ ((greedy_sublist env cfg confirmed ts last next pre copy).subset ht')
  have hlivec := UtxoReg.applyTxs_live_back_other hpre hne_pre hlivek
  -- across the timestamp simulation to `u'`
  have hsim : UtxoReg.TSim u' copy := by
    have := UtxoReg.update_sim (UtxoReg.TSim.refl confirmed) lastTxs t1 next
    rw [hu', hu] at this
    exact this
  obtain ⟨w, hw⟩ := UtxoReg.agree_tsim_live hsim hlivec
  -- back across the last block to the confirmed registry
  have hback := UtxoReg.applyTxs_live_back_other (UtxoReg.update_ok_iff.mp hu').1
    (fun t' ht' => hnr1 _ _ _ hlive0 t' ht') hw
  rw [hlive0] at hback
  injection hback with hback
  subst hback
  rw [hl0]
  exact (UtxoReg.lookup_iff_live u' i u0).mpr hw

/-- every kept transaction of a non-first tick passes all the verifier's per-transaction checks, with the same
    fee, against a ledger holding the producer's outputs and registered set AFTER confirming the tip -/
theorem agree_kept_ok_post (env : Env) (cfg : Cfg) (n : Node) (c : Ledger) (ts : Int) (perm : List Tx) (rid : String)
    (copy : UtxoReg) (hmin : 1 ≤ cfg.minFee) (t1 : Int)
    (hu : n.led.utxos.update n.led.lastTxs (n.led.lastTs + cfg.interval) = .ok copy)
    (hu' : n.led.utxos.update n.led.lastTxs t1 = .ok c.utxos)
    (hnr1 : NoRecreation n.led.utxos n.led.lastTxs) (hnr2 : NoRecreation n.led.utxos perm)
    (l : Ledger) (hlu : l.utxos = c.utxos) (hlr : l.reg.registered = c.reg.registered) :
    (∀ t ∈ keptOf env cfg n ts perm copy,
      Ledger.agreeTxOk env cfg l (blockOf env cfg n c ts rid (keptOf env cfg n ts perm copy)) n.led.lastTs t) ∧
    (keptOf env cfg n ts perm copy).map (feeOf env.val cfg.minFee l.utxos ts) =
      (keptOf env cfg n ts perm copy).map (feeOf env.val cfg.minFee n.led.utxos ts) := by
  have hfee : ∀ t ∈ keptOf env cfg n ts perm copy,
      l.utxos.calculateFee env.val cfg.minFee t ts = n.led.utxos.calculateFee env.val cfg.minFee t ts := by
    intro t ht
    rw [hlu]
    apply UtxoReg.agree_calculateFee_congr
    intro i hi
    exact agree_kept_lookup env cfg n.led.utxos n.led.lastTxs ts n.led.lastTs (n.led.lastTs + cfg.interval) perm copy
      c.utxos t1 hu hu' hnr1 hnr2 t ht i hi
  refine ⟨?_, ?_⟩
  · intro t ht
    obtain ⟨h1, h2, h3, f, hf⟩ := greedy_mem_keeps_parts env cfg n.led.utxos ts n.led.lastTs _ ht
    refine ⟨?_, h1, h2, h3, ?_, ?_⟩
    · cases hr : t.hasReward with
      | false => rfl
      | true =>
        obtain ⟨e, he⟩ := UtxoReg.calculateFee_noInputs_error env.val cfg.minFee hmin n.led.utxos t ts hr
        rw [he] at hf; cases hf
    · rw [agree_verifier_yield_rule]
      intro o ho hy
      cases hreg : c.reg.isRegistered o.address with
      | false =>
        left
        exact agree_producer_lists env n.led c ts _ (keptOf env cfg n ts perm copy) _ t ht o ho hy (Or.inl hreg)
      | true =>
        right
        simpa [AddrReg.isRegistered, hlr] using hreg
    · show (l.utxos.calculateFee env.val cfg.minFee t ts).isOk = true
      rw [hfee t ht, hf]; rfl
  · apply List.map_congr_left
    intro t ht
    simp only [feeOf, hfee t ht]

end Node

namespace Ledger

/-- The single loop iteration and the final `AddBlock` of `verify lastHost nb=[b]` started from a state `s` that
    holds the whole chain `old ++ [tip]` with the tip already confirmed. -/
theorem agree_competitor_loop (env : Env) (cfg : Cfg) (n n' : Node) (ts : Int) (perm : List Tx) (rid : String)
    (old : List Block) (tip : Block) (now : Int) (s : Ledger) (lastHost : List Block)
    (hprod : n.produce env cfg ts perm rid = some n')
    (hchain : n.led.blocks = old ++ [tip])
    (hsched : ts = tip.ts + cfg.interval) (hmin : 1 ≤ cfg.minFee) (htip0 : tip.ts ≠ 0) (hts0 : ts ≠ 0)
    (hnow : ts ≤ now)
    (hf1 : n.led.utxos.byId[rid]? = none) (hf2 : ∀ t ∈ tip.txs, t.id ≠ rid) (hf3 : ∀ t ∈ perm, t.id ≠ rid)
    (hnr1 : Node.NoRecreation n.led.utxos tip.txs) (hnr2 : Node.NoRecreation n.led.utxos perm)
    (hs : ∀ c, n.led.confirmLast = .ok c → s.utxos = c.utxos ∧ s.reg.registered = c.reg.registered) :
    ∃ b, n'.led.blocks = old ++ [tip, b] ∧ b.ts = ts ∧ b.prevHash = env.hash tip ∧
      ∃ nl fin, verifyLoop env cfg now lastHost s (some tip) [b] 0 = .ok nl ∧
        nl.addBlock env (nl.lastTs + cfg.interval) [] [] = .ok fin := by
  obtain ⟨hlts, hltx, hlast⟩ := agree_lastTs_append n.led old tip hchain
  obtain ⟨_, copy, c, hu, hc, hn'⟩ := Node.fee_produce_some hprod
  obtain ⟨hu', hcb, hcr⟩ := agree_confirmLast_some hlast hc
  obtain ⟨hsu, hsr⟩ := hs c hc
  have hl0 : n.led.lastTs ≠ 0 := by rw [hlts]; exact htip0
  have hb0 : (n.led.lastTs == 0) = false := by simpa using hl0
  have hp : (Node.blockOf env cfg n c ts rid (Node.keptOf env cfg n ts perm copy)).prevHash = env.hash tip := by
    simp [Node.blockOf, mkBlock, prevHashOf, hcb, hlast]
  refine ⟨Node.blockOf env cfg n c ts rid (Node.keptOf env cfg n ts perm copy), ?_, rfl, hp, ?_⟩
  · rw [hn']; simp [hcb, hchain]
  obtain ⟨hok, hfees⟩ := Node.agree_kept_ok_post env cfg n c ts perm rid copy hmin tip.ts hu
    (by rw [hltx]; exact hu') (by rw [hltx]; exact hnr1) hnr2 s hsu hsr
  have hvb : verifyBlock env cfg s
      (Node.blockOf env cfg n c ts rid (Node.keptOf env cfg n ts perm copy)) tip.ts now = .ok () := by
    apply agree_verifyBlock env cfg _ _ tip.ts now (Node.keptOf env cfg n ts perm copy)
      (Node.rewardTx rid cfg.validator (n.led.lastTs == 0) ts
        (Node.feesOf env cfg n ts (Node.keptOf env cfg n ts perm copy))) hsched hts0 hnow rfl rfl
    · rw [hlts] at hok; exact hok
    · show Node.feesOf env cfg n ts (Node.keptOf env cfg n ts perm copy) ≤ _
      simp only [Node.feesOf, Node.startReward, hb0]
      have e : (Node.blockOf env cfg n c ts rid (Node.keptOf env cfg n ts perm copy)).ts = ts := rfl
      rw [e, hfees]
      exact Nat.le_refl _
  rw [verifyLoop_cons]
  have hchk : loopCheck env cfg now lastHost s (some tip)
      (Node.blockOf env cfg n c ts rid (Node.keptOf env cfg n ts perm copy)) 0 = .ok () := by
    unfold loopCheck
    simp [hp, hvb]
  rw [hchk]
  have happ : loopAppend s (Node.blockOf env cfg n c ts rid (Node.keptOf env cfg n ts perm copy)) 0 =
      .ok { s with blocks := s.blocks ++ [Node.blockOf env cfg n c ts rid (Node.keptOf env cfg n ts perm copy)] } := by
    simp [loopAppend]
  rw [happ]
  simp only
  have hfinal : ∃ fin, addBlock env
      ({ s with blocks := s.blocks ++ [Node.blockOf env cfg n c ts rid (Node.keptOf env cfg n ts perm copy)] } : Ledger)
      (({ s with blocks := s.blocks ++ [Node.blockOf env cfg n c ts rid (Node.keptOf env cfg n ts perm copy)] } : Ledger).lastTs
        + cfg.interval) [] [] = .ok fin := by
    obtain ⟨fin, hfin⟩ := Node.agree_block_replays env cfg n.led.utxos n.led.lastTxs ts n.led.lastTs
      (n.led.lastTs + cfg.interval) perm copy rid cfg.validator ts
      (Node.feesOf env cfg n ts (Node.keptOf env cfg n ts perm copy)) hu hf1 (by rw [hltx]; exact hf2) hf3
      c.utxos tip.ts ts (by rw [hltx]; exact hu')
    have hint : 0 < cfg.interval := by
      rcases Node.fee_produce_some_after_tip hprod with hb | hlt
      · rw [hchain] at hb; simp at hb
      · rw [hlts] at hlt; omega
    rw [addBlock_of_after_tip (Or.inr (by omega))]
    unfold confirmLast
    simp only [List.getLast?_append, List.getLast?_singleton, Option.some_or]
    have : (Node.blockOf env cfg n c ts rid (Node.keptOf env cfg n ts perm copy)).txs =
        Node.keptOf env cfg n ts perm copy ++ [Node.rewardTx rid cfg.validator false ts
          (Node.feesOf env cfg n ts (Node.keptOf env cfg n ts perm copy))] := by
      simp [Node.blockOf, mkBlock, hb0]
    rw [this]
    have hbts : (Node.blockOf env cfg n c ts rid (Node.keptOf env cfg n ts perm copy)).ts = ts := rfl
    rw [hbts, hsu]
    have hfin' : c.utxos.update (Node.keptOf env cfg n ts perm copy ++ [Node.rewardTx rid cfg.validator false ts
          (Node.feesOf env cfg n ts (Node.keptOf env cfg n ts perm copy))]) ts = .ok fin := hfin
    rw [hfin']
    exact ⟨_, rfl⟩
  obtain ⟨fin, hfin⟩ := hfinal
  exact ⟨_, fin, by unfold verifyLoop; rfl, hfin⟩

end Ledger

/-! ## the re-sync case: the produced block as the last block of a chain verified from height 0 -/

namespace Ledger

theorem agree_getLast?_or_cons {α} (x : α) (xs : List α) (prev : Option α) :
    ((x :: xs).getLast?).or prev = (xs.getLast?).or (some x) := by
  cases xs with
  | nil => simp
  | cons y ys =>
    rw [List.getLast?_cons_cons]
    cases h : (y :: ys).getLast? with
    | none => simp at h
    | some z => simp

theorem agree_verifyLoop_append (env : Env) (cfg : Cfg) (now : Int) (lastHost : List Block) (xs ys : List Block)
    (nl : Ledger) (prev : Option Block) (i : Nat) :
    verifyLoop env cfg now lastHost nl prev (xs ++ ys) i =
      match verifyLoop env cfg now lastHost nl prev xs i with
      | .error e => .error e
      | .ok nl1 => verifyLoop env cfg now lastHost nl1 ((xs.getLast?).or prev) ys (i + xs.length) := by
  induction xs generalizing nl prev i with
  | nil =>
    have e : verifyLoop env cfg now lastHost nl prev [] i = .ok nl := by unfold verifyLoop; rfl
    rw [e]
    simp
  | cons x xs ih =>
    simp only [List.cons_append]
    rw [verifyLoop_cons, verifyLoop_cons]
    cases loopCheck env cfg now lastHost nl prev x i with
    | error e => rfl
    | ok u =>
      cases u
      simp only
      cases loopAppend nl x i with
      | error e => rfl
      | ok nl1 =>
        simp only
        rw [ih, agree_getLast?_or_cons]
        have : i + 1 + xs.length = i + (x :: xs).length := by simp; omega
        rw [this]

/-- One loop iteration at an index `i ≠ 0` plus the final `AddBlock`, for the produced block, started from any
    state `nl` whose tip is the producer's tip and that holds the producer's confirmed outputs and registered
    set; `lastHost` is arbitrary (a block identical to the host's is skipped, any other is verified). -/
theorem agree_last_iteration (env : Env) (cfg : Cfg) (n n' : Node) (ts : Int) (perm : List Tx) (rid : String)
    (old : List Block) (tip : Block) (now : Int) (nl : Ledger) (lastHost : List Block) (i : Nat) (hi : i ≠ 0)
    (hprod : n.produce env cfg ts perm rid = some n')
    (hchain : n.led.blocks = old ++ [tip])
    (hsched : ts = tip.ts + cfg.interval) (hmin : 1 ≤ cfg.minFee) (htip0 : tip.ts ≠ 0) (hts0 : ts ≠ 0)
    (hnow : ts ≤ now)
    (hf1 : n.led.utxos.byId[rid]? = none) (hf2 : ∀ t ∈ tip.txs, t.id ≠ rid) (hf3 : ∀ t ∈ perm, t.id ≠ rid)
    (hnb : nl.blocks.getLast? = some tip) (hnu : nl.utxos = n.led.utxos)
    (hnr : nl.reg.registered = n.led.reg.registered) :
    ∃ b, n'.led.blocks = old ++ [tip, b] ∧ b.ts = ts ∧
      ∃ nl2 fin, verifyLoop env cfg now lastHost nl (some tip) [b] i = .ok nl2 ∧
        nl2.addBlock env (nl2.lastTs + cfg.interval) [] [] = .ok fin := by
  obtain ⟨hlts, hltx, hlast⟩ := agree_lastTs_append n.led old tip hchain
  obtain ⟨_, copy, c, hu, hc, hn'⟩ := Node.fee_produce_some hprod
  obtain ⟨hu', hcb, hcr⟩ := agree_confirmLast_some hlast hc
  have hl0 : n.led.lastTs ≠ 0 := by rw [hlts]; exact htip0
  have hb0 : (n.led.lastTs == 0) = false := by simpa using hl0
  have hi0 : (i == 0) = false := by simp [hi]
  refine ⟨Node.blockOf env cfg n c ts rid (Node.keptOf env cfg n ts perm copy), ?_, rfl, ?_⟩
  · rw [hn']; simp [hcb, hchain]
  rw [verifyLoop_cons]
  have hvb : verifyBlock env cfg nl
      (Node.blockOf env cfg n c ts rid (Node.keptOf env cfg n ts perm copy)) tip.ts now = .ok () := by
    apply agree_verifyBlock env cfg _ _ tip.ts now (Node.keptOf env cfg n ts perm copy)
      (Node.rewardTx rid cfg.validator (n.led.lastTs == 0) ts
        (Node.feesOf env cfg n ts (Node.keptOf env cfg n ts perm copy))) hsched hts0 hnow rfl rfl
    · have := Node.agree_kept_ok env cfg n c ts perm rid copy hmin nl hnu hnr
      rw [hlts] at this
      exact this
    · show Node.feesOf env cfg n ts (Node.keptOf env cfg n ts perm copy) ≤ _
      simp only [Node.feesOf, Node.startReward, hb0]
      rw [hnu]
      exact Nat.le_refl _
  have hp : (Node.blockOf env cfg n c ts rid (Node.keptOf env cfg n ts perm copy)).prevHash = env.hash tip := by
    simp [Node.blockOf, mkBlock, prevHashOf, hcb, hlast]
  have hchk : loopCheck env cfg now lastHost nl (some tip)
      (Node.blockOf env cfg n c ts rid (Node.keptOf env cfg n ts perm copy)) i = .ok () := by
    unfold loopCheck
    simp [hp, hvb]
  rw [hchk]
  have happ : loopAppend nl (Node.blockOf env cfg n c ts rid (Node.keptOf env cfg n ts perm copy)) i =
      .ok ⟨nl.blocks ++ [Node.blockOf env cfg n c ts rid (Node.keptOf env cfg n ts perm copy)],
           c.utxos, nl.reg.update tip.addedL tip.removedL⟩ := by
    simp [loopAppend, hi0, addBlockRaw, hnb, hnu, hu']
  rw [happ]
  simp only
  have hfinal : ∃ fin, addBlock env
      (⟨nl.blocks ++ [Node.blockOf env cfg n c ts rid (Node.keptOf env cfg n ts perm copy)],
           c.utxos, nl.reg.update tip.addedL tip.removedL⟩ : Ledger)
      ((⟨nl.blocks ++ [Node.blockOf env cfg n c ts rid (Node.keptOf env cfg n ts perm copy)],
           c.utxos, nl.reg.update tip.addedL tip.removedL⟩ : Ledger).lastTs + cfg.interval) [] [] = .ok fin := by
    obtain ⟨fin, hfin⟩ := Node.agree_block_replays env cfg n.led.utxos n.led.lastTxs ts n.led.lastTs
      (n.led.lastTs + cfg.interval) perm copy rid cfg.validator ts
      (Node.feesOf env cfg n ts (Node.keptOf env cfg n ts perm copy)) hu hf1 (by rw [hltx]; exact hf2) hf3
      c.utxos tip.ts ts (by rw [hltx]; exact hu')
    have hint : 0 < cfg.interval := by
      rcases Node.fee_produce_some_after_tip hprod with hb | hlt
      · rw [hchain] at hb; simp at hb
      · rw [hlts] at hlt; omega
    rw [addBlock_of_after_tip (Or.inr (by omega))]
    unfold confirmLast
    simp only [List.getLast?_append, List.getLast?_singleton, Option.some_or]
    have : (Node.blockOf env cfg n c ts rid (Node.keptOf env cfg n ts perm copy)).txs =
        Node.keptOf env cfg n ts perm copy ++ [Node.rewardTx rid cfg.validator false ts
          (Node.feesOf env cfg n ts (Node.keptOf env cfg n ts perm copy))] := by
      simp [Node.blockOf, mkBlock, hb0]
    rw [this]
    have hbts : (Node.blockOf env cfg n c ts rid (Node.keptOf env cfg n ts perm copy)).ts = ts := rfl
    rw [hbts]
    have hfin' : c.utxos.update (Node.keptOf env cfg n ts perm copy ++ [Node.rewardTx rid cfg.validator false ts
          (Node.feesOf env cfg n ts (Node.keptOf env cfg n ts perm copy))]) ts = .ok fin := hfin
    rw [hfin']
    exact ⟨_, rfl⟩
  obtain ⟨fin, hfin⟩ := hfinal
  exact ⟨_, fin, by unfold verifyLoop; rfl, hfin⟩

end Ledger

/-! ## acceptance is monotone in the verifier's clock -/

namespace Ledger

theorem agree_verifyBlock_mono {env : Env} {cfg : Cfg} {l : Ledger} {b : Block} {prevTs now now2 : Int}
    (h : verifyBlock env cfg l b prevTs now = .ok ()) (hle : now ≤ now2) :
    verifyBlock env cfg l b prevTs now2 = .ok () := by
  unfold verifyBlock at h ⊢
  by_cases c1 : b.ts ≠ prevTs + cfg.interval
  · rw [if_pos c1] at h; cases h
  rw [if_neg c1] at h ⊢
  by_cases c0 : (b.ts == 0) = true
  · rw [if_pos c0] at h; cases h
  rw [if_neg c0] at h ⊢
  by_cases c2 : b.ts > now
  · rw [if_pos c2] at h; cases h
  rw [if_neg c2] at h
  rw [if_neg (by omega)]
  exact h

theorem agree_loopCheck_eq (env : Env) (cfg : Cfg) (nw : Int) (lastHost : List Block) (nl : Ledger)
    (prev : Option Block) (b : Block) (i : Nat) :
    loopCheck env cfg nw lastHost nl prev b i =
      (if b.prevHash ≠ SL.prevHashOpt env prev then .error "bad-prev-hash"
       else if ((match lastHost[i]? with | none => true | some hb => env.hash b != env.hash hb) && !prev.isNone) = true
         then verifyBlock env cfg nl b (match prev with | some p => p.ts | none => 0) nw
         else .ok ()) := rfl

theorem agree_loopCheck_mono {env : Env} {cfg : Cfg} {now now2 : Int} {lastHost : List Block} {nl : Ledger}
    {prev : Option Block} {b : Block} {i : Nat}
    (h : loopCheck env cfg now lastHost nl prev b i = .ok ()) (hle : now ≤ now2) :
    loopCheck env cfg now2 lastHost nl prev b i = .ok () := by
  rw [agree_loopCheck_eq] at h ⊢
  by_cases c : b.prevHash ≠ SL.prevHashOpt env prev
  · rw [if_pos c] at h; cases h
  · rw [if_neg c] at h ⊢
    revert h
    generalize ((match lastHost[i]? with | none => true | some hb => env.hash b != env.hash hb) && !prev.isNone)
      = cond
    intro h
    cases cond with
    | false => rfl
    | true => exact agree_verifyBlock_mono h hle

theorem agree_verifyLoop_mono {env : Env} {cfg : Cfg} {now now2 : Int} {lastHost : List Block} (hle : now ≤ now2) :
    ∀ (bs : List Block) (nl : Ledger) (prev : Option Block) (i : Nat) (out : Ledger),
      verifyLoop env cfg now lastHost nl prev bs i = .ok out →
      verifyLoop env cfg now2 lastHost nl prev bs i = .ok out := by
  intro bs
  induction bs with
  | nil => intro nl prev i out h; unfold verifyLoop at h ⊢; exact h
  | cons b rest ih =>
    intro nl prev i out h
    rw [verifyLoop_cons] at h ⊢
    cases hc : loopCheck env cfg now lastHost nl prev b i with
    | error e => rw [hc] at h; cases h
    | ok u =>
      cases u
      rw [hc] at h
      rw [agree_loopCheck_mono hc hle]
      simp only at h ⊢
      cases ha : loopAppend nl b i with
      | error e => rw [ha] at h; cases h
      | ok nl1 =>
        rw [ha] at h
        simp only at h ⊢
        exact ih _ _ _ _ h

/-- a chain accepted at time `now` is accepted at any later time -/
theorem agree_verify_mono {env : Env} {cfg : Cfg} {host : Ledger} {lastHost nb oldHost v : List Block}
    {now now2 : Int} (h : verify env cfg host lastHost nb oldHost now = .ok v) (hle : now ≤ now2) :
    verify env cfg host lastHost nb oldHost now2 = .ok v := by
  rw [SL.verify_eq] at h ⊢
  split
  · rename_i c; rw [if_pos c] at h; cases h
  · rename_i c
    rw [if_neg c] at h
    split
    · rename_i c2; rw [if_pos c2] at h; cases h
    · rename_i c2
      rw [if_neg c2] at h
      cases hl : verifyLoop env cfg now lastHost
          (if oldHost.isEmpty then ⟨[], .empty, .empty⟩ else ⟨oldHost, host.utxos, host.reg⟩)
          oldHost.getLast? nb 0 with
      | error e => rw [hl] at h; cases h
      | ok nl =>
        rw [hl] at h
        rw [agree_verifyLoop_mono hle _ _ _ _ _ hl]
        exact h

end Ledger
end Ru
