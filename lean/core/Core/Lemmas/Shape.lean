/-
  Core/Lemmas/Shape.lean — block shape at chain level (C04): `Shape`, aligned histories, what `verifyLoop`
  establishes block by block, and the step lemma behind `C04_chain_invariant`.
-/
import Core.Lemmas.VerifyReplay
import Core.Lemmas.SyncL
import Core.Props.C04
import Core.Props.C06
import Core.Props.C08
import Core.Props.C12
open Std

namespace Ru

/-- the C04 clauses for a block `b` sitting directly on `a` -/
def BlockStep (cfg : Cfg) (a b : Block) : Prop :=
  b.ts = a.ts + cfg.interval ∧ (b.txs.filter (·.hasReward)).length = 1 ∧
  ∀ t ∈ b.txs, t.hasReward = false → a.ts ≤ t.ts ∧ t.ts ≤ b.ts

/-- C04 shape of a chain: every pair of consecutive blocks is spaced by exactly the validation interval,
    the upper block carries exactly one reward transaction and its ordinary transactions are dated
    between the two blocks -/
def Shape (cfg : Cfg) (bs : List Block) : Prop :=
  ∀ i a b, bs[i]? = some a → bs[i+1]? = some b → BlockStep cfg a b

namespace ShapeL

/-- recursive form of `Shape`, with an optional block below the list -/
def shapeFrom (cfg : Cfg) : Option Block → List Block → Prop
  | _, [] => True
  | prev, b :: rest => (∀ a, prev = some a → BlockStep cfg a b) ∧ shapeFrom cfg (some b) rest

theorem shape_cons (cfg : Cfg) (b : Block) (rest : List Block) :
    Shape cfg (b :: rest) ↔ (∀ c, rest.head? = some c → BlockStep cfg b c) ∧ Shape cfg rest := by
  constructor
  · intro h
    refine ⟨?_, ?_⟩
    · intro c hc
      apply h 0 b c (by simp)
      cases rest <;> simp_all
    · intro i a c ha hc
      exact h (i+1) a c (by simpa using ha) (by simpa using hc)
  · rintro ⟨h1, h2⟩ i a c ha hc
    cases i with
    | zero =>
      simp at ha; subst ha
      apply h1
      cases rest <;> simp_all
    | succ i => exact h2 i a c (by simpa using ha) (by simpa using hc)

theorem shapeFrom_iff (cfg : Cfg) (prev : Option Block) (bs : List Block) :
    shapeFrom cfg prev bs ↔ (∀ a b, prev = some a → bs.head? = some b → BlockStep cfg a b) ∧ Shape cfg bs := by
  induction bs generalizing prev with
  | nil => simp [shapeFrom, Shape]
  | cons b rest ih =>
    rw [shapeFrom, shape_cons, ih]
    simp only [List.head?_cons, Option.some.injEq]
    constructor
    · rintro ⟨h1, h2, h3⟩
      exact ⟨fun a b' ha hb => hb ▸ h1 a ha, fun c hc => h2 b c rfl hc, h3⟩
    · rintro ⟨h1, h2, h3⟩
      exact ⟨fun a ha => h1 a b ha rfl, fun a c ha hc => by cases ha; exact h2 c hc, h3⟩

theorem shape_iff (cfg : Cfg) (bs : List Block) : Shape cfg bs ↔ shapeFrom cfg none bs := by
  rw [shapeFrom_iff]; simp

/-- the block a successor of `xs` sits on -/
def tipOr (prev : Option Block) (xs : List Block) : Option Block :=
  match xs.getLast? with
  | some a => some a
  | none => prev

theorem shapeFrom_append (cfg : Cfg) (prev : Option Block) (xs ys : List Block) :
    shapeFrom cfg prev (xs ++ ys) ↔ shapeFrom cfg prev xs ∧ shapeFrom cfg (tipOr prev xs) ys := by
  induction xs generalizing prev with
  | nil => simp [shapeFrom, tipOr]
  | cons x rest ih =>
    simp only [List.cons_append, shapeFrom, ih, and_assoc]
    have : tipOr (some x) rest = tipOr prev (x :: rest) := by
      unfold tipOr
      cases rest with
      | nil => simp
      | cons y r =>
        rw [List.getLast?_cons_cons, List.getLast?_eq_some_getLast (List.cons_ne_nil y r)]
    rw [this]

/-- timestamps never decrease along a shaped chain when the interval is not negative -/
theorem ts_le_last (cfg : Cfg) (hI : 0 ≤ cfg.interval) :
    ∀ (bs : List Block) (prev : Option Block) (l : Block), shapeFrom cfg prev bs → bs.getLast? = some l →
      (∀ p, prev = some p → p.ts ≤ l.ts) ∧ ∀ x ∈ bs, x.ts ≤ l.ts := by
  intro bs
  induction bs with
  | nil => intro prev l _ h; cases h
  | cons b rest ih =>
    intro prev l hs hl
    obtain ⟨h1, h2⟩ := hs
    cases rest with
    | nil =>
      simp at hl; subst hl
      refine ⟨fun p hp => ?_, by simp⟩
      have := (h1 p hp).1; omega
    | cons c r =>
      rw [List.getLast?_cons_cons] at hl
      obtain ⟨i1, i2⟩ := ih (some b) l h2 hl
      have hb := i1 b rfl
      refine ⟨fun p hp => ?_, ?_⟩
      · have := (h1 p hp).1; omega
      · intro x hx
        rcases List.mem_cons.mp hx with rfl | hx
        · exact hb
        · exact i2 x hx

end ShapeL
namespace ShapeL

/-- what one accepted loop iteration establishes for block `b` at loop index `i` on top of `prev` -/
def BlockFact (env : Env) (cfg : Cfg) (now : Int) (lastHost : List Block) (prev : Option Block) (b : Block)
    (i : Nat) : Prop :=
  b.prevHash = SL.prevHashOpt env prev ∧
  ∀ p, prev = some p →
    (∃ x, lastHost[i]? = some x ∧ env.hash b = env.hash x) ∨ (BlockStep cfg p b ∧ b.ts ≤ now ∧ b.ts ≠ 0)

def loopFacts (env : Env) (cfg : Cfg) (now : Int) (lastHost : List Block) : Option Block → List Block → Nat → Prop
  | _, [], _ => True
  | prev, b :: rest, i => BlockFact env cfg now lastHost prev b i ∧ loopFacts env cfg now lastHost (some b) rest (i + 1)

/-- the zero-timestamp guard of `verifyBlock` (fix: commit) -/
theorem verifyBlock_ts_ne_zero {env : Env} {cfg : Cfg} {l : Ledger} {b : Block} {prevTs now : Int}
    (h : Ledger.verifyBlock env cfg l b prevTs now = .ok ()) : b.ts ≠ 0 := by
  unfold Ledger.verifyBlock at h
  by_cases c1 : b.ts ≠ prevTs + cfg.interval
  · rw [if_pos c1] at h; cases h
  · rw [if_neg c1] at h
    by_cases c2 : (b.ts == 0) = true
    · rw [if_pos c2] at h; cases h
    · intro e; exact c2 (by simp [e])

theorem loopCheck_fact {env : Env} {cfg : Cfg} {now : Int} {lastHost : List Block} {nl : Ledger}
    {prev : Option Block} {b : Block} {i : Nat}
    (h : Ledger.loopCheck env cfg now lastHost nl prev b i = .ok ()) : BlockFact env cfg now lastHost prev b i := by
  unfold Ledger.loopCheck at h
  simp only at h
  cases prev with
  | none =>
    simp only at h
    split at h
    · cases h
    · rename_i hp
      exact ⟨by simpa [SL.prevHashOpt] using hp, fun p hp => by cases hp⟩
  | some p =>
    simp only at h
    split at h
    · cases h
    · rename_i hp
      refine ⟨by simpa [SL.prevHashOpt] using hp, ?_⟩
      intro p' hp'
      cases hp'
      simp only [Option.isNone_some, Bool.not_false, Bool.and_true] at h
      cases hx : lastHost[i]? with
      | none =>
        simp only [hx, if_true] at h
        obtain ⟨h1, h2, h3, h4⟩ := C04_verifyBlock_shape env cfg nl b p.ts now h
        right; exact ⟨⟨h1, h3, h4⟩, h2, verifyBlock_ts_ne_zero h⟩
      | some x =>
        simp only [hx] at h
        by_cases he : env.hash b = env.hash x
        · left; exact ⟨x, rfl, he⟩
        · have : (env.hash b != env.hash x) = true := by simpa using he
          rw [if_pos this] at h
          obtain ⟨h1, h2, h3, h4⟩ := C04_verifyBlock_shape env cfg nl b p.ts now h
          right; exact ⟨⟨h1, h3, h4⟩, h2, verifyBlock_ts_ne_zero h⟩

theorem verifyLoop_facts {env : Env} {cfg : Cfg} {now : Int} {lastHost : List Block} :
    ∀ (bs : List Block) (nl : Ledger) (prev : Option Block) (i : Nat) (out : Ledger),
    Ledger.verifyLoop env cfg now lastHost nl prev bs i = .ok out → loopFacts env cfg now lastHost prev bs i := by
  intro bs
  induction bs with
  | nil => intros; trivial
  | cons b rest ih =>
    intro nl prev i out h
    rw [verifyLoop_cons] at h
    cases hc : Ledger.loopCheck env cfg now lastHost nl prev b i with
    | error e => rw [hc] at h; cases h
    | ok u =>
      cases u
      rw [hc] at h
      simp only at h
      cases ha : Ledger.loopAppend nl b i with
      | error e => rw [ha] at h; cases h
      | ok nl1 =>
        rw [ha] at h
        exact ⟨loopCheck_fact hc, ih _ _ _ _ h⟩

end ShapeL
namespace ShapeL

/-- blocks accepted by the loop against host blocks `lastHost` = `hb` from height `off`: every accepted
    block either passed `verifyBlock` on its predecessor, or IS (injective hash) the host block at the same
    height sitting on the same predecessor, whose shape the host chain already has -/
theorem loopFacts_shape {env : Env} {cfg : Cfg} {now : Int} {lastHost hb : List Block} {off : Nat}
    (hinj : Function.Injective env.hash) (hlinked : SL.Consec env hb) (hshape : Shape cfg hb)
    (hoff : ∀ i x, lastHost[i]? = some x → hb[off + i]? = some x) :
    ∀ (bs : List Block) (prev : Option Block) (i : Nat), loopFacts env cfg now lastHost prev bs i →
      (∀ p, prev = some p → 1 ≤ off + i) → shapeFrom cfg prev bs := by
  intro bs
  induction bs with
  | nil => intros; trivial
  | cons b rest ih =>
    intro prev i hf hp
    obtain ⟨⟨hlink, hcase⟩, hrest⟩ := hf
    refine ⟨?_, ih (some b) (i + 1) hrest (fun _ _ => by omega)⟩
    intro a ha
    subst ha
    rcases hcase a rfl with ⟨x, hx, he⟩ | ⟨hs, _⟩
    · have hbx : b = x := hinj he
      subst hbx
      have hpos := hp a rfl
      obtain ⟨j, hj⟩ : ∃ j, off + i = j + 1 := ⟨off + i - 1, by omega⟩
      have hbj : hb[j + 1]? = some b := by rw [← hj]; exact hoff i b hx
      have hlt : j < hb.length := by
        have := (List.getElem?_eq_some_iff.mp hbj).1; omega
      have hc : hb[j]? = some hb[j] := List.getElem?_eq_getElem hlt
      have h1 : b.prevHash = env.hash hb[j] := hlinked j _ _ hc hbj
      have h2 : env.hash a = env.hash hb[j] := by
        rw [← h1, hlink]; rfl
      have : a = hb[j] := hinj h2
      rw [this]
      exact hshape j _ _ hc hbj
    · exact hs

/-- index form of `loopFacts` -/
theorem loopFacts_get {env : Env} {cfg : Cfg} {now : Int} {lastHost : List Block} :
    ∀ (bs : List Block) (prev : Option Block) (i : Nat), loopFacts env cfg now lastHost prev bs i →
    ∀ j b, bs[j]? = some b →
      BlockFact env cfg now lastHost (if j = 0 then prev else bs[j - 1]?) b (i + j) := by
  intro bs
  induction bs with
  | nil => intro _ _ _ j b h; cases h
  | cons c rest ih =>
    intro prev i hf j b hj
    cases j with
    | zero =>
      simp at hj; subst hj
      simpa using hf.1
    | succ j =>
      have := ih (some c) (i + 1) hf.2 j b (by simpa using hj)
      have e : i + 1 + j = i + (j + 1) := by omega
      rw [e] at this
      cases j with
      | zero => simpa using this
      | succ j => simpa using this

end ShapeL
namespace ShapeL

theorem verify_facts {env : Env} {cfg : Cfg} {host : Ledger} {lastHost nb oldHost v : List Block} {now : Int}
    (h : Ledger.verify env cfg host lastHost nb oldHost now = .ok v) :
    loopFacts env cfg now lastHost oldHost.getLast? nb 0 := by
  obtain ⟨_, _, _, nl, hl⟩ := SL.verify_ok h
  exact verifyLoop_facts _ _ _ _ _ hl

theorem dropLast_getElem? (hb : List Block) (i : Nat) (x : Block) (h : hb.dropLast[i]? = some x) :
    hb[i]? = some x := by
  rw [List.getElem?_dropLast] at h
  split at h
  · exact h
  · cases h

theorem tipList_getElem? (hb : List Block) (i : Nat) (x : Block) (h : hb.getLast?.toList[i]? = some x) :
    hb[hb.length - 1 + i]? = some x := by
  cases hl : hb.getLast? with
  | none => rw [hl] at h; simp at h
  | some t =>
    rw [hl] at h
    cases i with
    | zero =>
      simp at h; subst h
      rw [List.getLast?_eq_getElem?] at hl
      simpa using hl
    | succ i => simp at h

theorem shape_phase1 {env : Env} {cfg : Cfg} {host : Ledger} {hb nb : List Block} {now : Int}
    (hinj : Function.Injective env.hash) (hlinked : SL.Consec env hb) (hshape : Shape cfg hb)
    (h2 : hb.length > 2)
    (hv : Ledger.verify env cfg host hb.getLast?.toList nb hb.dropLast now = .ok nb) :
    Shape cfg (hb.dropLast ++ nb) := by
  have hf := verify_facts hv
  have hs := loopFacts_shape (off := hb.length - 1) hinj hlinked hshape (tipList_getElem? hb) nb _ 0 hf
    (fun _ _ => by omega)
  rw [shape_iff, shapeFrom_append]
  refine ⟨?_, ?_⟩
  · have hne : hb ≠ [] := by intro e; rw [e] at h2; simp at h2
    have := (shape_iff cfg hb).mp hshape
    rw [← List.dropLast_concat_getLast hne, shapeFrom_append] at this
    exact this.1
  · have : tipOr none hb.dropLast = hb.dropLast.getLast? := by
      unfold tipOr; cases hb.dropLast.getLast? <;> rfl
    rw [this]; exact hs

theorem shape_phase2 {env : Env} {cfg : Cfg} {host : Ledger} {hb nb : List Block} {now : Int}
    (hinj : Function.Injective env.hash) (hlinked : SL.Consec env hb) (hshape : Shape cfg hb)
    (hv : Ledger.verify env cfg host hb.dropLast nb [] now = .ok nb) :
    Shape cfg nb := by
  have hf := verify_facts hv
  have hs := loopFacts_shape (off := 0) hinj hlinked hshape
    (fun i x hx => by rw [Nat.zero_add]; exact dropLast_getElem? hb i x hx) nb _ 0 hf
    (fun p hp => by simp at hp)
  rw [shape_iff]
  simpa using hs

end ShapeL
/-- honest clock: a tick on a non-empty chain is dated on the block grid, at or after the tip
    (`k = 0` a repeated tick, `k = 1` the tick on time, `k ≥ 2` skipped/late ticks) -/
def TickAligned (cfg : Cfg) (n : Node) : Op → Prop
  | .tick ts _ _ => n.led.blocks ≠ [] → ∃ k : Nat, ts = n.led.lastTs + k * cfg.interval
  | _ => True

/-- the excluded case: no tick is applied to a non-empty chain whose tip is dated 0
    (`Validate` takes `lastTs = 0` for "no block yet") -/
def TipNonzero (n : Node) : Op → Prop
  | .tick _ _ _ => n.led.blocks ≠ [] → n.led.lastTs ≠ 0
  | _ => True

/-- `P m op` holds for every operation `op` of the history, `m` being the state it is applied to -/
def Along (env : Env) (cfg : Cfg) (P : Node → Op → Prop) : Node → List Op → Prop
  | _, [] => True
  | n, op :: rest => P n op ∧ Along env cfg P (Ru.step env cfg n op) rest

namespace ShapeL

theorem lastTs_of_getLast {l : Ledger} {a : Block} (h : l.blocks.getLast? = some a) : l.lastTs = a.ts := by
  unfold Ledger.lastTs; rw [h]

theorem shape_step {env : Env} {cfg : Cfg} (hmin : 1 ≤ cfg.minFee) (hinj : Function.Injective env.hash)
    (hI : 0 ≤ cfg.interval) {n : Node} (hr : Reachable env cfg n) (hs : Shape cfg n.led.blocks)
    (op : Op) (hw : op.WF) (ha : TickAligned cfg n op) (hz : TipNonzero n op) :
    Shape cfg (Ru.step env cfg n op).led.blocks := by
  have hstep := C12_step_prefix env cfg n op hw
  cases op with
  | submit tx => simp only at hstep; rw [hstep]; exact hs
  | regsync newly => simp only at hstep; rw [hstep]; exact hs
  | tick ts perm rewardId =>
    rw [SL.step_tick]
    split
    · cases hp : n.produce env cfg ts perm rewardId with
      | none => exact hs
      | some n' =>
        simp only [Option.getD_some]
        obtain ⟨b, hb, _, hts, _, hwin, htx, hrw⟩ := C04_produced_shape env cfg n n' ts perm rewardId hp
        rw [hb, shape_iff, shapeFrom_append]
        refine ⟨(shape_iff _ _).mp hs, ?_, trivial⟩
        intro a hta
        have hne : n.led.blocks ≠ [] := by
          intro e; rw [e] at hta; simp [tipOr] at hta
        have hlast : n.led.blocks.getLast? = some a := by
          unfold tipOr at hta
          cases hl : n.led.blocks.getLast? with
          | none => rw [hl] at hta; cases hta
          | some x => rw [hl] at hta; exact hta
        have hlt := lastTs_of_getLast hlast
        obtain ⟨k, hk⟩ := ha hne
        have hnz := hz hne
        rcases hwin with h0 | ⟨h1, h2⟩
        · exact absurd h0 hnz
        · have hspace : ts = n.led.lastTs + cfg.interval := by
            match k, hk with
            | 0, hk => simp at hk; exact absurd hk h1
            | 1, hk => simpa using hk
            | k + 2, hk =>
              have hP : 0 ≤ (k : Int) * cfg.interval := Int.mul_nonneg (Int.natCast_nonneg k) hI
              have e : ((k + 2 : Nat) : Int) * cfg.interval = (k : Int) * cfg.interval + 2 * cfg.interval := by
                rw [Int.natCast_add, Int.add_mul]; rfl
              rw [e] at hk
              omega
          refine ⟨by rw [hts, hspace, hlt], hrw hmin, ?_⟩
          intro t ht hrt
          have := htx t ht hrt
          rw [hlt] at this
          exact this
    · exact hs
  | sync now resps pick =>
    simp only at hstep
    have hlinked := (C12_chain_linked_invariant env cfg n hr).2
    rcases hstep with h | ⟨_, h2, nb, hv, hb⟩ | ⟨_, nb, hv, hb⟩
    · rw [h]; exact hs
    · rw [hb]; exact shape_phase1 hinj hlinked hs h2 hv
    · rw [hb]; exact shape_phase2 hinj hlinked hs hv

theorem shape_run {env : Env} {cfg : Cfg} (hmin : 1 ≤ cfg.minFee) (hinj : Function.Injective env.hash)
    (hI : 0 ≤ cfg.interval) :
    ∀ (ops : List Op) (n : Node), Reachable env cfg n → Shape cfg n.led.blocks → (∀ o ∈ ops, o.WF) →
      Along env cfg (TickAligned cfg) n ops → Along env cfg TipNonzero n ops →
      Shape cfg (Ru.run env cfg n ops).led.blocks := by
  intro ops
  induction ops with
  | nil => intro n _ hs _ _ _; simpa [Ru.run] using hs
  | cons op rest ih =>
    intro n hr hs hw ha hz
    have ho : op.WF := hw op (by simp)
    have : Ru.run env cfg n (op :: rest) = Ru.run env cfg (Ru.step env cfg n op) rest := by simp [Ru.run]
    rw [this]
    exact ih _ (hr.next op ho) (shape_step hmin hinj hI hr hs op ho ha.1 hz.1)
      (fun x hx => hw x (by simp [hx])) ha.2 hz.2

end ShapeL
namespace ShapeL

theorem isDifferent_same_len {env : Env} {hb sel : List Block} {z tip : Block}
    (hd : Sync.isDifferent env hb sel = true) (hlen : sel.length = hb.length)
    (hz : sel.getLast? = some z) (ht : hb.getLast? = some tip) : env.hash z ≠ env.hash tip := by
  unfold Sync.isDifferent at hd
  rw [if_neg (by omega), hz, ht] at hd
  split at hd
  · simpa using hd
  · cases hd

/-- every block of a chain adopted in a sync round is dated at or before the round's `now` -/
theorem adopted_not_future {env : Env} {cfg : Cfg} (hinj : Function.Injective env.hash) (hI : 0 ≤ cfg.interval)
    {n : Node} (hr : Reachable env cfg n) (hs : Shape cfg n.led.blocks) {now : Int} {resps : List Resp}
    (ht : ∀ r ∈ resps, r.target ≠ "host") {l : Ledger} (h : l ∈ Sync.outcomes env cfg n.led now resps) :
    l = n.led ∨ ∀ b ∈ l.blocks, b.ts ≤ now := by
  have hlinked := (C12_chain_linked_invariant env cfg n hr).2
  rcases SL.Sync.outcome_cases ht h with h | ⟨sel, hsel, hd, _, hb⟩
  · left; exact h
  · right
    rw [hb]
    have hlen := (C06_selected_spec env cfg n.led now resps sel hsel).2.1
    obtain ⟨_, t, hsv, _⟩ := SL.Sync.mem_selectionSet.mp hsel
    -- it suffices to bound the last block
    have key : Shape cfg sel → ∀ z, sel.getLast? = some z → z.ts ≤ now → ∀ b ∈ sel, b.ts ≤ now := by
      intro hsh z hz hzn b hbm
      have := (ts_le_last cfg hI sel none z ((shape_iff _ _).mp hsh) hz).2 b hbm
      omega
    rcases SL.Sync.cand_origin ht (SL.Sync.survivors_sub_cands hsv) with ⟨h1, _⟩ | ⟨_, h2, r, _, nb, _, hv, h1⟩ |
        ⟨_, r, _, nb, _, hv, h1⟩
    · have e : sel = n.led.blocks := (Prod.mk.inj h1).2
      rw [e, SL.Sync.isDifferent_self] at hd; cases hd
    · have e : sel = n.led.blocks.dropLast ++ nb := (Prod.mk.inj h1).2
      have hne : nb ≠ [] := (SL.verify_ok hv).2.2.1
      have hsh : Shape cfg sel := by rw [e]; exact shape_phase1 hinj hlinked hs h2 hv
      have hz : sel.getLast? = some (nb.getLast hne) := by
        rw [e, List.getLast?_append, List.getLast?_eq_some_getLast hne]; rfl
      refine key hsh _ hz ?_
      have hf := verify_facts hv
      have hj : nb[nb.length - 1]? = some (nb.getLast hne) := by
        rw [← List.getLast?_eq_getElem?, List.getLast?_eq_some_getLast hne]
      have hfact := loopFacts_get nb _ 0 hf _ _ hj
      obtain ⟨p, hp⟩ : ∃ p, (if nb.length - 1 = 0 then n.led.blocks.dropLast.getLast? else nb[nb.length - 1 - 1]?) = some p := by
        split
        · have : n.led.blocks.dropLast ≠ [] := by
            intro e'; have := congrArg List.length e'; simp at this; omega
          exact ⟨_, List.getLast?_eq_some_getLast this⟩
        · have hl := List.length_pos_iff.mpr hne
          exact ⟨nb[nb.length - 1 - 1]'(by omega), List.getElem?_eq_getElem (by omega)⟩
      rcases hfact.2 p hp with ⟨x, hx, he⟩ | ⟨_, hle, _⟩
      · exfalso
        have hne' : n.led.blocks ≠ [] := by intro e'; rw [e'] at h2; simp at h2
        have htl : n.led.blocks.getLast? = some (n.led.blocks.getLast hne') := List.getLast?_eq_some_getLast hne'
        rw [htl] at hx
        have hj0 : 0 + (nb.length - 1) = 0 := by
          cases hh : 0 + (nb.length - 1) with
          | zero => rfl
          | succ m => rw [hh] at hx; simp at hx
        rw [hj0] at hx
        simp at hx
        subst hx
        have hl1 : nb.length = 1 := by have := List.length_pos_iff.mpr hne; omega
        have hlen' : sel.length = n.led.blocks.length := by
          rw [e, List.length_append, List.length_dropLast, hl1]; omega
        exact isDifferent_same_len hd hlen' hz htl he
      · exact hle
    · have e : sel = nb := (Prod.mk.inj h1).2
      have hne : nb ≠ [] := (SL.verify_ok hv).2.2.1
      have hl2 : 2 ≤ nb.length := (SL.verify_ok hv).2.1 rfl
      have hsh : Shape cfg sel := by rw [e]; exact shape_phase2 hinj hlinked hs hv
      have hz : sel.getLast? = some (nb.getLast hne) := by
        rw [e, List.getLast?_eq_some_getLast hne]
      refine key hsh _ hz ?_
      have hf := verify_facts hv
      have hj : nb[nb.length - 1]? = some (nb.getLast hne) := by
        rw [← List.getLast?_eq_getElem?, List.getLast?_eq_some_getLast hne]
      have hfact := loopFacts_get nb _ 0 hf _ _ hj
      have hp : (if nb.length - 1 = 0 then ([] : List Block).getLast? else nb[nb.length - 1 - 1]?) =
          some (nb[nb.length - 1 - 1]'(by omega)) := by
        rw [if_neg (by omega)]; exact List.getElem?_eq_getElem (by omega)
      rcases hfact.2 _ hp with ⟨x, hx, _⟩ | ⟨_, hle, _⟩
      · exfalso
        rw [List.getElem?_dropLast] at hx
        split at hx
        · rw [e] at hlen; omega
        · cases hx
      · exact hle

end ShapeL
/-- honest clock: no tick is dated 0 (a real clock never reads the epoch) -/
def TickNonzero : Op → Prop
  | .tick ts _ _ => ts ≠ 0
  | _ => True

/-- no block above the first is dated 0, and a one-block chain is not dated 0: `lastTs = 0` (what
    `Validate` and the pool read as "no block yet") then holds of the empty chain only -/
def TsOk (bs : List Block) : Prop :=
  (∀ i b, bs[i]? = some b → 1 ≤ i → b.ts ≠ 0) ∧ (∀ b, bs = [b] → b.ts ≠ 0)

namespace ShapeL

theorem tsok_nil : TsOk [] := ⟨fun i b hb _ => (by cases hb), fun b e => (by cases e)⟩

theorem shape_nil (cfg : Cfg) : Shape cfg [] := fun i a b ha _ => by cases ha

theorem tsok_tip {bs : List Block} (h : TsOk bs) {a : Block} (ha : bs.getLast? = some a) : a.ts ≠ 0 := by
  rw [List.getLast?_eq_getElem?] at ha
  by_cases h1 : 1 ≤ bs.length - 1
  · exact h.1 _ a ha h1
  · have hlen : bs.length = 1 := by
      have := (List.getElem?_eq_some_iff.mp ha).1; omega
    match bs, hlen, ha with
    | [b], _, ha => simp at ha; subst ha; exact h.2 b rfl

/-- accepted blocks that have a predecessor and stand at chain height ≥ 1 are not dated 0: they passed
    `verifyBlock` (zero guard) or are (injective hash) the host block at the same height -/
theorem loopFacts_tsok {env : Env} {cfg : Cfg} {now : Int} {lastHost hb : List Block} {off : Nat}
    (hinj : Function.Injective env.hash) (hts : TsOk hb)
    (hoff : ∀ i x, lastHost[i]? = some x → hb[off + i]? = some x)
    {bs : List Block} {prev : Option Block} (hf : loopFacts env cfg now lastHost prev bs 0)
    {j : Nat} {b p : Block} (hb : bs[j]? = some b) (hp : (if j = 0 then prev else bs[j - 1]?) = some p)
    (hpos : 1 ≤ off + j) : b.ts ≠ 0 := by
  have hfact := loopFacts_get bs prev 0 hf j b hb
  rcases hfact.2 p hp with ⟨x, hx, he⟩ | ⟨_, _, hnz⟩
  · have : b = x := hinj he
    subst this
    rw [Nat.zero_add] at hx
    exact hts.1 _ b (hoff j b hx) hpos
  · exact hnz

theorem tsok_phase1 {env : Env} {cfg : Cfg} {host : Ledger} {hb nb : List Block} {now : Int}
    (hinj : Function.Injective env.hash) (hts : TsOk hb) (h2 : hb.length > 2)
    (hv : Ledger.verify env cfg host hb.getLast?.toList nb hb.dropLast now = .ok nb) :
    TsOk (hb.dropLast ++ nb) := by
  have hf := verify_facts hv
  have hne : nb ≠ [] := (SL.verify_ok hv).2.2.1
  have hdl : hb.dropLast.length = hb.length - 1 := List.length_dropLast
  refine ⟨?_, ?_⟩
  · intro i b hb' hi
    by_cases hlt : i < hb.dropLast.length
    · rw [List.getElem?_append_left hlt] at hb'
      exact hts.1 i b (dropLast_getElem? hb i b hb') hi
    · rw [List.getElem?_append_right (by omega)] at hb'
      have hp : ∃ p, (if i - hb.dropLast.length = 0 then hb.dropLast.getLast? else nb[i - hb.dropLast.length - 1]?) = some p := by
        split
        · have : hb.dropLast ≠ [] := by intro e; rw [e] at hdl; simp at hdl; omega
          exact ⟨_, List.getLast?_eq_some_getLast this⟩
        · have hl := (List.getElem?_eq_some_iff.mp hb').1
          exact ⟨nb[i - hb.dropLast.length - 1]'(by omega), List.getElem?_eq_getElem (by omega)⟩
      obtain ⟨p, hp⟩ := hp
      exact loopFacts_tsok (off := hb.length - 1) hinj hts (tipList_getElem? hb) hf hb' hp (by omega)
  · intro b e
    have := congrArg List.length e
    simp at this
    have := List.length_pos_iff.mpr hne
    omega

theorem tsok_phase2 {env : Env} {cfg : Cfg} {host : Ledger} {hb nb : List Block} {now : Int}
    (hinj : Function.Injective env.hash) (hts : TsOk hb)
    (hv : Ledger.verify env cfg host hb.dropLast nb [] now = .ok nb) : TsOk nb := by
  have hf := verify_facts hv
  have hl2 : 2 ≤ nb.length := (SL.verify_ok hv).2.1 rfl
  refine ⟨?_, ?_⟩
  · intro i b hb' hi
    have hl := (List.getElem?_eq_some_iff.mp hb').1
    have hp : (if i = 0 then ([] : List Block).getLast? else nb[i - 1]?) = some (nb[i - 1]'(by omega)) := by
      rw [if_neg (by omega)]; exact List.getElem?_eq_getElem (by omega)
    exact loopFacts_tsok (off := 0) hinj hts
      (fun i x hx => by rw [Nat.zero_add]; exact dropLast_getElem? hb i x hx) hf hb' hp (by omega)
  · intro b e; rw [e] at hl2; simp at hl2

theorem tsok_step {env : Env} {cfg : Cfg} (hinj : Function.Injective env.hash) {n : Node}
    (hts : TsOk n.led.blocks) (op : Op) (hw : op.WF) (hnz : TickNonzero op) :
    TsOk (Ru.step env cfg n op).led.blocks := by
  have hstep := C12_step_prefix env cfg n op hw
  cases op with
  | submit tx => simp only at hstep; rw [hstep]; exact hts
  | regsync newly => simp only at hstep; rw [hstep]; exact hts
  | tick ts perm rewardId =>
    simp only at hstep
    rcases hstep with h | ⟨b, h, hbt⟩
    · rw [h]; exact hts
    · rw [h]
      have hb0 : b.ts ≠ 0 := by rw [hbt]; exact hnz
      refine ⟨?_, ?_⟩
      · intro i c hc hi
        by_cases hlt : i < n.led.blocks.length
        · rw [List.getElem?_append_left hlt] at hc
          exact hts.1 i c hc hi
        · rw [List.getElem?_append_right (by omega)] at hc
          cases hh : i - n.led.blocks.length with
          | zero => rw [hh] at hc; simp at hc; subst hc; exact hb0
          | succ m => rw [hh] at hc; simp at hc
      · intro c e
        have hl := congrArg List.length e
        simp at hl
        rw [hl] at e; simp at e; subst e; exact hb0
  | sync now resps pick =>
    simp only at hstep
    rcases hstep with h | ⟨_, h2, nb, hv, hb⟩ | ⟨_, nb, hv, hb⟩
    · rw [h]; exact hts
    · rw [hb]; exact tsok_phase1 hinj hts h2 hv
    · rw [hb]; exact tsok_phase2 hinj hts hv

/-- both invariants along a history driven by an honest clock -/
theorem shape_tsok_run {env : Env} {cfg : Cfg} (hmin : 1 ≤ cfg.minFee) (hinj : Function.Injective env.hash)
    (hI : 0 ≤ cfg.interval) :
    ∀ (ops : List Op) (n : Node), Reachable env cfg n → Shape cfg n.led.blocks → TsOk n.led.blocks →
      (∀ o ∈ ops, o.WF) → Along env cfg (TickAligned cfg) n ops → (∀ o ∈ ops, TickNonzero o) →
      Shape cfg (Ru.run env cfg n ops).led.blocks := by
  intro ops
  induction ops with
  | nil => intro n _ hs _ _ _ _; simpa [Ru.run] using hs
  | cons op rest ih =>
    intro n hr hs hts hw ha hnz
    have ho : op.WF := hw op (by simp)
    have hz : TipNonzero n op := by
      cases op with
      | tick ts perm rid =>
        intro hne
        have := List.getLast?_eq_some_getLast hne
        rw [lastTs_of_getLast this]
        exact tsok_tip hts this
      | submit _ => trivial
      | sync _ _ _ => trivial
      | regsync _ => trivial
    have : Ru.run env cfg n (op :: rest) = Ru.run env cfg (Ru.step env cfg n op) rest := by simp [Ru.run]
    rw [this]
    exact ih _ (hr.next op ho) (shape_step hmin hinj hI hr hs op ho ha.1 hz)
      (tsok_step hinj hts op ho (hnz op (by simp)))
      (fun x hx => hw x (by simp [hx])) ha.2 (fun x hx => hnz x (by simp [hx]))

theorem tsok_run {env : Env} {cfg : Cfg} (hinj : Function.Injective env.hash) :
    ∀ (ops : List Op) (n : Node), TsOk n.led.blocks → (∀ o ∈ ops, o.WF) → (∀ o ∈ ops, TickNonzero o) →
      TsOk (Ru.run env cfg n ops).led.blocks := by
  intro ops
  induction ops with
  | nil => intro n h _ _; simpa [Ru.run] using h
  | cons op rest ih =>
    intro n hts hw hnz
    have : Ru.run env cfg n (op :: rest) = Ru.run env cfg (Ru.step env cfg n op) rest := by simp [Ru.run]
    rw [this]
    exact ih _ (tsok_step hinj hts op (hw op (by simp)) (hnz op (by simp)))
      (fun x hx => hw x (by simp [hx])) (fun x hx => hnz x (by simp [hx]))

end ShapeL
namespace ProgressL
open Sync SL SL.Sync

theorem set_mem_self (c : Cands) (t : String) (bs : List Block) : (t, bs) ∈ Cands.set c t bs := by
  unfold Cands.set
  split
  · rename_i h
    rw [List.any_eq_true] at h
    obtain ⟨x, hx, hxt⟩ := h
    rw [List.mem_map]
    exact ⟨x, hx, by simp [hxt]⟩
  · simp

/-- the window an honest neighbour serves from height `k-1`, glued on the host's blocks below the tip -/
theorem window_chain (p : Nat) (C : List Block) (k : Nat) (hk : 1 ≤ k) (hkL : k < C.length) :
    (C.take k).dropLast ++ Ledger.page p C (k - 1) = C.take (k - 1 + p) := by
  rw [C08_page_spec, if_pos (by omega), List.dropLast_eq_take, List.length_take, List.take_take, List.take_add]
  congr 2
  omega

section
variable {env : Env} {cfg : Cfg} {host : Ledger} {now : Int} {resps : List Resp} {W : List Block}

theorem phase1_uniform (hacc : Ledger.verify env cfg host host.blocks.getLast?.toList W host.blocks.dropLast now = .ok W) :
    ∀ (rs : List Resp) (c : Cands), (∀ r ∈ rs, r.first = some W) →
    phase1 env cfg host now rs c = rs.foldl (fun (c : Cands) r => c.set r.target (host.blocks.dropLast ++ W)) c := by
  intro rs
  induction rs with
  | nil => intro c _; rfl
  | cons r rs ih =>
    intro c h
    rw [phase1_cons, List.foldl_cons]
    have : step1 env cfg host now r c = c.set r.target (host.blocks.dropLast ++ W) := by
      unfold step1
      rw [h r (by simp)]
      simp only [hacc]
    rw [this]
    exact ih _ (fun r' hr' => h r' (by simp [hr']))

theorem foldl_set_keeps (X : List Block) (kv : String × List Block) :
    ∀ (rs : List Resp) (c : Cands), kv ∈ c → (∀ r ∈ rs, r.target ≠ kv.1) →
    kv ∈ rs.foldl (fun (c : Cands) r => c.set r.target X) c := by
  intro rs
  induction rs with
  | nil => intro c h _; exact h
  | cons r rs ih =>
    intro c h ht
    rw [List.foldl_cons]
    exact ih _ (Cands.set_keeps h (fun e => ht r (by simp) e.symm)) (fun r' hr' => ht r' (by simp [hr']))

theorem foldl_set_has (X : List Block) :
    ∀ (rs : List Resp) (c : Cands), (∃ t, (t, X) ∈ c) → ∃ t, (t, X) ∈ rs.foldl (fun (c : Cands) r => c.set r.target X) c := by
  intro rs
  induction rs with
  | nil => intro c h; exact h
  | cons r rs ih =>
    intro c _
    rw [List.foldl_cons]
    exact ih _ ⟨r.target, set_mem_self c r.target X⟩

end
theorem outcomes_of_nonempty {env : Env} {cfg : Cfg} {host : Ledger} {now : Int} {resps : List Resp}
    (hne : selectionSet (choose env cfg host now resps) ≠ []) {l : Ledger}
    (h : l ∈ outcomes env cfg host now resps) :
    ∃ sel ∈ selectionSet (choose env cfg host now resps), l = commit env (choose env cfg host now resps).isFork host sel := by
  have e : outcomes env cfg host now resps =
      (selectionSet (choose env cfg host now resps)).map (commit env (choose env cfg host now resps).isFork host) := by
    show (match selectionSet (choose env cfg host now resps) with
      | [] => [host]
      | sels => sels.map (commit env (choose env cfg host now resps).isFork host)) = _
    cases hs : selectionSet (choose env cfg host now resps) with
    | nil => exact absurd hs hne
    | cons a as => rfl
  rw [e, List.mem_map] at h
  obtain ⟨sel, hs, rfl⟩ := h
  exact ⟨sel, hs, rfl⟩

/-- one round against neighbours that all serve the same accepted window `W` on a host with more than two
    blocks: every outcome carries `host.blocks.dropLast ++ W`, provided that chain is strictly longer than
    the host's, agrees with it on the previous hash at the host's tip height, and has a positive age -/
theorem uniform_round {env : Env} {cfg : Cfg} {host : Ledger} {now : Int} {resps : List Resp} {W : List Block}
    (h2 : host.blocks.length > 2) (hne : resps ≠ []) (ht : ∀ r ∈ resps, r.target ≠ "host")
    (hresp : ∀ r ∈ resps, r.first = some W)
    (hacc : Ledger.verify env cfg host host.blocks.getLast?.toList W host.blocks.dropLast now = .ok W)
    (hlen : host.blocks.length < (host.blocks.dropLast ++ W).length)
    (hprev : prevHashAt (host.blocks.dropLast ++ W) (host.blocks.length - 1) =
      prevHashAt host.blocks (host.blocks.length - 1))
    (hage : 0 < age (host.blocks.dropLast ++ W)) :
    ∀ l ∈ outcomes env cfg host now resps, l.blocks = host.blocks.dropLast ++ W := by
  generalize hX : host.blocks.dropLast ++ W = X at hlen hprev hage ⊢
  -- candidates after phase 1
  have hc1 : SL.Sync.cands1 env cfg host now resps =
      resps.foldl (fun (c : Cands) r => c.set r.target X) [("host", host.blocks)] := by
    unfold SL.Sync.cands1 hostCands
    rw [if_pos h2, if_pos h2, phase1_uniform hacc resps _ hresp, hX]
  have hhost1 : ("host", host.blocks) ∈ SL.Sync.cands1 env cfg host now resps := by
    rw [hc1]; exact foldl_set_keeps X _ resps _ (by simp) ht
  obtain ⟨t0, ht0⟩ : ∃ t, (t, X) ∈ SL.Sync.cands1 env cfg host now resps := by
    rw [hc1]
    cases resps with
    | nil => exact absurd rfl hne
    | cons r rs =>
      rw [List.foldl_cons]
      exact foldl_set_has X rs _ ⟨r.target, set_mem_self _ _ _⟩
  have hXne : X ≠ host.blocks := by intro e; rw [e] at hlen; omega
  have hfork : (choose env cfg host now resps).isFork = false := by
    rw [choose_isFork]
    have : 2 ≤ (SL.Sync.cands1 env cfg host now resps).length :=
      length_ge_two_of_mem hhost1 ht0 (by intro e; exact hXne (Prod.mk.inj e).2.symm)
    simp; omega
  have hcands := choose_cands_nofork hfork
  -- every candidate is the host chain or X
  have hE : ∀ kv ∈ (choose env cfg host now resps).cands, kv.2 = host.blocks ∨ kv.2 = X := by
    intro kv hkv
    rcases cand_origin ht hkv with ⟨h1, _⟩ | ⟨_, _, r, hr, nb, h3, _, h1⟩ | ⟨hf, _⟩
    · left; rw [h1]
    · right
      rw [hresp r hr] at h3
      cases h3
      rw [h1]; exact hX
    · rw [hfork] at hf; cases hf
  have hM : (t0, X) ∈ (choose env cfg host now resps).cands := by rw [hcands]; exact ht0
  -- lengths
  have hmaxle : maxLen host.blocks.length (choose env cfg host now resps).cands ≤ X.length :=
    foldl_max_le (fun (kv : String × List Block) => kv.2.length) _ _ _ (by omega)
      (fun kv hkv => by rcases hE kv hkv with e | e <;> rw [e] <;> omega)
  have hmin : minLen host.blocks.length (choose env cfg host now resps).cands = host.blocks.length :=
    Nat.le_antisymm (minLen_le _ _) (minLen_ge _ _ _ (Nat.le_refl _)
      (fun kv hkv => by rcases hE kv hkv with e | e <;> rw [e] <;> omega))
  -- (t0, X) survives both filters
  have hsv : (t0, X) ∈ (choose env cfg host now resps).survivors := by
    rw [choose_survivors, List.mem_filter]
    refine ⟨?_, by simp only [Bool.not_eq_true', decide_eq_false_iff_not]; omega⟩
    unfold majorityFilter
    rw [List.mem_filter]
    refine ⟨hM, ?_⟩
    simp only [hmin]
    have hall : (choose env cfg host now resps).cands.filter (fun other =>
        prevHashAt X (host.blocks.length - 1) == prevHashAt other.2 (host.blocks.length - 1)) =
        (choose env cfg host now resps).cands := by
      rw [List.filter_eq_self]
      intro kv hkv
      rcases hE kv hkv with e | e <;> rw [e]
      · rw [hprev]; exact beq_self_eq_true _
      · exact beq_self_eq_true _
    rw [hall]
    simp only [Bool.not_eq_true', decide_eq_false_iff_not]
    have := Nat.div_le_self (choose env cfg host now resps).cands.length 2
    omega
  -- every survivor carries X
  have hsvX : ∀ kv ∈ (choose env cfg host now resps).survivors, kv.2 = X := by
    intro kv hkv
    have hkc := survivors_sub_cands hkv
    rw [choose_survivors, List.mem_filter] at hkv
    have hl := hkv.2
    simp only [Bool.not_eq_true', decide_eq_false_iff_not, Nat.not_lt] at hl
    have hge : X.length ≤ maxLen host.blocks.length (choose env cfg host now resps).cands :=
      maxLen_ge_mem _ _ hM
    rcases hE kv hkc with e | e
    · rw [e] at hl; omega
    · exact e
  -- the maximal age is the age of X
  have hmaxage : (choose env cfg host now resps).maxAge = age X := by
    rw [choose_maxAge]
    have hge := foldl_max_ge_mem (fun (kv : String × List Block) => age kv.2)
      (choose env cfg host now resps).survivors 0 hsv
    rcases foldl_max_attained (fun (kv : String × List Block) => age kv.2)
      (choose env cfg host now resps).survivors 0 with h | ⟨kv, hkv, h⟩
    · rw [h] at hge; have hge' : age X ≤ 0 := hge; omega
    · rw [h]; show age kv.2 = age X; rw [hsvX kv hkv]
  have hselX : X ∈ selectionSet (choose env cfg host now resps) :=
    mem_selectionSet.mpr ⟨by omega, t0, hsv, hmaxage.symm⟩
  intro l hl
  obtain ⟨sel, hsel, rfl⟩ := outcomes_of_nonempty (List.ne_nil_of_mem hselX) hl
  obtain ⟨_, t, hsvs, _⟩ := mem_selectionSet.mp hsel
  have hsx : sel = X := hsvX _ hsvs
  rw [hsx, hfork, ← hX]
  apply commit_phase1 h2 hacc
  rw [hX]
  unfold isDifferent
  rw [if_pos hlen]

theorem ageScan_ge (who : String) : ∀ (l : List Block) (a : Nat), a ≤ ageScan who l a := by
  intro l
  induction l with
  | nil => intro a; exact Nat.le_refl _
  | cons b rest ih =>
    intro a
    unfold ageScan
    split
    · exact ih a
    · split
      · omega
      · exact Nat.le_trans (Nat.le_succ a) (ih (a + 1))

theorem age_pos_of_reward (pre : List Block) (a tip : Block) (t : Tx) (h : firstReward a = some t) :
    0 < age (pre ++ [a, tip]) := by
  unfold age
  have h1 : (pre ++ [a, tip]).getLast? = some tip := by simp
  have h2 : (pre ++ [a, tip]).dropLast.reverse = a :: pre.reverse := by
    rw [List.dropLast_append_of_ne_nil (by simp)]; simp
  rw [h1]
  simp only [h2]
  unfold ageScan
  rw [h]
  simp only
  split
  · omega
  · exact Nat.lt_of_lt_of_le (by omega) (ageScan_ge _ _ (0 + 1))

/-- a shaped chain of at least three blocks has a positive age: the block below the tip is not a first
    block, so it carries a reward transaction -/
theorem age_pos_of_shape {cfg : Cfg} {bs : List Block} (hs : Shape cfg bs) (h3 : 3 ≤ bs.length) : 0 < age bs := by
  have hne : bs ≠ [] := by intro e; rw [e] at h3; simp at h3
  have e1 := List.dropLast_concat_getLast hne
  have hne2 : bs.dropLast ≠ [] := by
    intro e; have := congrArg List.length e; simp at this; omega
  have e2 := List.dropLast_concat_getLast hne2
  have hne3 : bs.dropLast.dropLast ≠ [] := by
    intro e; have := congrArg List.length e; simp at this; omega
  have e3 := List.dropLast_concat_getLast hne3
  generalize bs.getLast hne = tip at e1
  generalize bs.dropLast.getLast hne2 = a at e2
  generalize bs.dropLast.dropLast.getLast hne3 = z at e3
  generalize bs.dropLast.dropLast.dropLast = d at e3
  have e : bs = d ++ [z, a, tip] := by
    rw [← e1, ← e2, ← e3]; simp
  have hz : bs[d.length]? = some z := by rw [e]; simp
  have ha : bs[d.length + 1]? = some a := by rw [e]; simp
  have hrw := (hs d.length z a hz ha).2.1
  have : ∃ t, firstReward a = some t := by
    unfold firstReward
    cases hf : a.txs.find? (·.hasReward) with
    | some t => exact ⟨t, rfl⟩
    | none =>
      rw [List.find?_eq_none] at hf
      have : a.txs.filter (·.hasReward) = [] := by
        rw [List.filter_eq_nil_iff]; exact hf
      rw [this] at hrw; cases hrw
  obtain ⟨t, ht⟩ := this
  have e' : bs = (d ++ [z]) ++ [a, tip] := by rw [e]; simp
  rw [e']
  exact age_pos_of_reward _ a tip t ht

/-- the catch-up recurrence `k ↦ min L (k - 1 + p)` gains `p - 1` blocks per round until it reaches `L` -/
theorem iter_ge (L p : Nat) (hp : 2 ≤ p) (k0 : Nat) (h1 : 1 ≤ k0) (hL : k0 ≤ L) : ∀ n : Nat,
    min L (k0 + n * (p - 1)) ≤ Nat.repeat (fun k => min L (k - 1 + p)) n k0 ∧
    Nat.repeat (fun k => min L (k - 1 + p)) n k0 ≤ L := by
  intro n
  induction n with
  | zero => simp only [Nat.repeat]; omega
  | succ n ih =>
    simp only [Nat.repeat]
    obtain ⟨i1, i2⟩ := ih
    have e : (n + 1) * (p - 1) = n * (p - 1) + (p - 1) := Nat.succ_mul _ _
    rw [e]
    generalize n * (p - 1) = q at i1 ⊢
    generalize Nat.repeat (fun k => min L (k - 1 + p)) n k0 = r at i1 i2 ⊢
    omega

end ProgressL
end Ru
