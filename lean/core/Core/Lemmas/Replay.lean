/-
  Core/Lemmas/Replay.lean — "derived state = replay of the chain minus its tip" (C07): definitions and
  the lemmas relating `confirmLast`, `Sync.replay` and `verifyLoop` to a plain left fold over blocks.
-/
import Core.Machine
open Std

namespace Ru

/-- the confirmed state that matters for C07: spendable outputs and the registered set
    (the pending-removal list is not derived from the chain) -/
structure Conf where
  utxos : UtxoReg
  registered : TreeSet String

def Conf.empty : Conf := ⟨.empty, {}⟩

def applyRegistered (s : TreeSet String) (added removed : List String) : TreeSet String :=
  added.foldl (fun s a => s.insert a) (removed.foldl (fun s a => s.erase a) s)

/-- apply one block to the confirmed state -/
def Conf.step (c : Conf) (b : Block) : Except String Conf :=
  match c.utxos.update b.txs b.ts with
  | .error e => .error e
  | .ok u => .ok ⟨u, applyRegistered c.registered b.addedL b.removedL⟩

/-- apply blocks in order; fails if any block does not replay -/
def Conf.replay : Conf → List Block → Except String Conf
  | c, [] => .ok c
  | c, b :: bs =>
    match c.step b with
    | .error e => .error e
    | .ok c' => Conf.replay c' bs

def Ledger.conf (l : Ledger) : Conf := ⟨l.utxos, l.reg.registered⟩

/-- C07's statement for one ledger: outputs and registered addresses are exactly the replay, from the empty
    state, of every block of the chain except the last -/
def Derived (l : Ledger) : Prop := Conf.replay Conf.empty l.blocks.dropLast = .ok l.conf

theorem Conf.replay_append (c : Conf) (xs ys : List Block) :
    Conf.replay c (xs ++ ys) =
      match Conf.replay c xs with
      | .error e => .error e
      | .ok c' => Conf.replay c' ys := by
  induction xs generalizing c with
  | nil => simp [Conf.replay]
  | cons x xs ih =>
    simp only [List.cons_append, Conf.replay]
    cases h : c.step x with
    | error e => simp
    | ok c' => simpa using ih c'

theorem applyRemovals_registered (r : AddrReg) (removed : List String) :
    (AddrReg.applyRemovals r removed).registered = removed.foldl (fun s a => s.erase a) r.registered := by
  induction removed generalizing r with
  | nil => simp [AddrReg.applyRemovals]
  | cons a as ih => simp [AddrReg.applyRemovals, ih]

theorem update_registered (r : AddrReg) (added removed : List String) :
    (r.update added removed).registered = applyRegistered r.registered added removed := by
  simp [AddrReg.update, applyRegistered, applyRemovals_registered]

/-- `confirmLast` is exactly one replay step with the tip -/
theorem confirmLast_conf (l c : Ledger) (h : l.confirmLast = .ok c) :
    c.blocks = l.blocks ∧
    (match l.blocks.getLast? with
     | none => c.conf = l.conf
     | some last => l.conf.step last = .ok c.conf) := by
  unfold Ledger.confirmLast at h
  cases hl : l.blocks.getLast? with
  | none =>
    simp [hl] at h
    subst h
    simp
  | some last =>
    simp only [hl] at h
    cases hu : l.utxos.update last.txs last.ts with
    | error e => simp [hu] at h
    | ok u' =>
      simp only [hu] at h
      injection h with h
      subst h
      simp [Conf.step, Ledger.conf, hu, update_registered]

theorem dropLast_append_getLast? {α} (l : List α) (a : α) (h : l.getLast? = some a) :
    l = l.dropLast ++ [a] := by
  obtain ⟨ys, rfl⟩ := List.getLast?_eq_some_iff.mp h
  simp

/-- after confirming the tip, the confirmed state is the replay of the WHOLE chain -/
theorem confirmLast_replays_all (l c : Ledger) (hd : Derived l) (h : l.confirmLast = .ok c) :
    c.blocks = l.blocks ∧ Conf.replay Conf.empty l.blocks = .ok c.conf := by
  obtain ⟨hb, hm⟩ := confirmLast_conf l c h
  refine ⟨hb, ?_⟩
  cases hl : l.blocks.getLast? with
  | none =>
    simp only [hl] at hm
    have : l.blocks = [] := by
      cases hbk : l.blocks with
      | nil => rfl
      | cons x xs => simp [hbk] at hl
    unfold Derived at hd
    rw [this] at hd ⊢
    simpa [hm] using hd
  | some last =>
    simp only [hl] at hm
    have hsplit := dropLast_append_getLast? l.blocks last hl
    unfold Derived at hd
    rw [hsplit, Conf.replay_append, hd]
    simp [Conf.replay, hm]

/-- `Sync.replay` that reports success is a `Conf.replay` -/
theorem syncReplay_ok (l l' : Ledger) (bs : List Block) (h : Sync.replay l bs = (l', true)) :
    l'.blocks = l.blocks ∧ l'.reg.pending = (bs.foldl (fun (r : AddrReg) b => r.update b.addedL b.removedL) l.reg).pending ∧
    Conf.replay l.conf bs = .ok l'.conf := by
  induction bs generalizing l with
  | nil =>
    simp [Sync.replay] at h
    subst h
    simp [Conf.replay]
  | cons b bs ih =>
    unfold Sync.replay at h
    cases hu : l.utxos.update b.txs b.ts with
    | error e =>
      simp only [hu] at h
      -- the failing branch always reports `false`
      cases hr : Sync.replay l bs with
      | mk x y => simp [hr] at h
    | ok u' =>
      simp only [hu] at h
      have := ih ⟨l.blocks, u', l.reg.update b.addedL b.removedL⟩ h
      obtain ⟨h1, h2, h3⟩ := this
      refine ⟨h1, ?_, ?_⟩
      · simpa using h2
      · simp only [Conf.replay, Conf.step, Ledger.conf, hu]
        simpa [Ledger.conf, update_registered] using h3

/-- conversely, when every block replays, `Sync.replay` reports success -/
theorem syncReplay_of_replay (l : Ledger) (bs : List Block) (c : Conf) (h : Conf.replay l.conf bs = .ok c) :
    ∃ l', Sync.replay l bs = (l', true) ∧ l'.conf = c := by
  induction bs generalizing l with
  | nil =>
    simp [Conf.replay] at h
    exact ⟨l, by simp [Sync.replay], h⟩
  | cons b bs ih =>
    simp only [Conf.replay, Conf.step, Ledger.conf] at h
    cases hu : l.utxos.update b.txs b.ts with
    | error e => simp [hu] at h
    | ok u' =>
      simp only [hu] at h
      have := ih ⟨l.blocks, u', l.reg.update b.addedL b.removedL⟩ (by simpa [Ledger.conf, update_registered] using h)
      obtain ⟨l', h1, h2⟩ := this
      exact ⟨l', by simp [Sync.replay, hu, h1], h2⟩

end Ru
