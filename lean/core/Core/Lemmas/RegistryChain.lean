/-
  Core/Lemmas/RegistryChain.lean — the batch-level registry lemmas (Core/Lemmas/Registry.lean) lifted to
  `Conf.replay` over whole chains (Core/Lemmas/Replay.lean).  Used by Core/Props/C02chain.lean.
-/
import Core.Lemmas.Registry
import Core.Lemmas.VerifyReplay
open Std

namespace Ru
open UtxoReg

/-! ### more batch-level facts (positional) -/

namespace UtxoReg

/-- every input a successful `consumeAll` went through was live at the start -/
theorem consumeAll_mem_live {st st' : UtxoReg} {is : List Input} (h : consumeAll st is = .ok st')
    {i : Input} (hi : i ∈ is) : ∃ u, live st i.txId i.index = some u := by
  induction is generalizing st with
  | nil => cases hi
  | cons k is ih =>
    obtain ⟨st1, h1, h2⟩ := consumeAll_cons_ok h
    rcases List.mem_cons.1 hi with e | hm
    · subst e; exact consume_ok_live h1
    · obtain ⟨u, hu⟩ := ih h2 hm
      exact ⟨u, consume_live_back h1 hu⟩

/-- a live slot under the transaction's own id right after the creation step is one of its outputs -/
theorem afterCreate_live_self {st : UtxoReg} {tx : Tx} {ts : Int} (hf : st.byId[tx.id]? = none)
    {idx : Nat} {v : Utxo} (hv : live (afterCreate st tx ts) tx.id idx = some v) :
    creates tx = true ∧ ∃ o, tx.outputs[idx]? = some o ∧ v = ⟨tx.id, idx, o, ts⟩ := by
  by_cases hcr : creates tx = true
  · refine ⟨hcr, ?_⟩
    obtain ⟨slots, hs, hv'⟩ := live_eq_some_iff.1 hv
    unfold afterCreate at hs
    rw [if_pos hcr] at hs
    dsimp only at hs
    rw [TreeMap.getElem?_insert] at hs
    simp only [compare_eq_iff_eq, if_true] at hs
    injection hs with hs
    subst hs
    rw [List.getElem?_map, mkUtxos_getElem?] at hv'
    cases ho : tx.outputs[idx]? with
    | none => rw [ho] at hv'; cases hv'
    | some o =>
      rw [ho] at hv'
      simp only [Option.map_some, Option.some.injEq, Nat.zero_add] at hv'
      exact ⟨o, rfl, hv'.symm⟩
  · have : afterCreate st tx ts = st := by unfold afterCreate; rw [if_neg hcr]
    rw [this, live_eq_none_of_byId_none hf] at hv; cases hv

/-- a reference consumed by the transaction at position `k` and not re-created at a later position of the
    batch is dead afterwards -/
theorem applyTxs_dead_at {st st' : UtxoReg} {txs : List Tx} {ts : Int} (h : applyTxs st txs ts = .ok st')
    {k : Nat} {t : Tx} (hk : txs[k]? = some t) {j : Input} (hj : j ∈ t.inputs)
    (hne : ∀ k' t', k < k' → txs[k']? = some t' → t'.id ≠ j.txId) : live st' j.txId j.index = none := by
  induction txs generalizing st k with
  | nil => simp at hk
  | cons t0 txs ih =>
    obtain ⟨st1, h1, h2⟩ := applyTxs_cons_ok h
    cases k with
    | zero =>
      simp at hk; subst hk
      cases hl : live st' j.txId j.index with
      | none => rfl
      | some v =>
        have hne' : ∀ t' ∈ txs, t'.id ≠ j.txId := by
          intro t' ht'
          obtain ⟨m, hm⟩ := List.mem_iff_getElem?.1 ht'
          exact hne (m + 1) t' (by omega) (by simpa using hm)
        have := applyTxs_live_back_other h2 hne' hl
        rw [applyTx_dead h1 hj] at this; cases this
    | succ k =>
      simp at hk
      exact ih h2 hk (fun k' t' hlt ht' => hne (k' + 1) t' (by omega) (by simpa using ht'))

/-- every transaction of an accepted batch was accepted by `applyTx` on some intermediate state -/
theorem applyTxs_tx_ok {st st' : UtxoReg} {txs : List Tx} {ts : Int} (h : applyTxs st txs ts = .ok st')
    {k : Nat} {t : Tx} (hk : txs[k]? = some t) : ∃ s1 s2, applyTx s1 t ts = .ok s2 := by
  induction txs generalizing st k with
  | nil => simp at hk
  | cons t0 txs ih =>
    obtain ⟨st1, h1, h2⟩ := applyTxs_cons_ok h
    cases k with
    | zero => simp at hk; subst hk; exact ⟨_, _, h1⟩
    | succ k => simp at hk; exact ih h2 hk

/-- where the output an input consumes comes from, inside one batch: it was live before the batch, or it
    is an output of a transaction at a position `≤ k` (`= k`: the transaction's own output — the code creates
    before it consumes) -/
theorem applyTxs_input_origin {st st' : UtxoReg} {txs : List Tx} {ts : Int} (h : applyTxs st txs ts = .ok st')
    {k : Nat} {t : Tx} (hk : txs[k]? = some t) {i : Input} (hi : i ∈ t.inputs) :
    (∃ u, live st i.txId i.index = some u) ∨
    ∃ k' t' o, k' ≤ k ∧ txs[k']? = some t' ∧ t'.id = i.txId ∧ creates t' = true ∧ t'.outputs[i.index]? = some o := by
  induction txs generalizing st k with
  | nil => simp at hk
  | cons t0 txs ih =>
    obtain ⟨st1, h1, h2⟩ := applyTxs_cons_ok h
    cases k with
    | zero =>
      simp at hk; subst hk
      obtain ⟨hf, -, hc⟩ := applyTx_ok h1
      obtain ⟨u, hu⟩ := consumeAll_mem_live hc hi
      by_cases hid : i.txId = t0.id
      · right
        rw [hid] at hu
        obtain ⟨hcr, o, ho, -⟩ := afterCreate_live_self hf hu
        exact ⟨0, t0, o, Nat.le_refl _, by simp, hid.symm, hcr, ho⟩
      · left
        rw [afterCreate_live_other st t0 ts hid] at hu
        exact ⟨u, hu⟩
    | succ k =>
      simp at hk
      rcases ih h2 hk with ⟨u, hu⟩ | ⟨k', t', o, hle, hk', hid, hcr, ho⟩
      · rcases applyTx_live_provenance h1 hu with ⟨-, h0⟩ | ⟨hid, hcr, o, ho, -⟩
        · exact Or.inl ⟨u, h0⟩
        · exact Or.inr ⟨0, t0, o, Nat.zero_le _, by simp, hid.symm, hcr, ho⟩
      · exact Or.inr ⟨k' + 1, t', o, by omega, by simpa using hk', hid, hcr, ho⟩

end UtxoReg

/-! ### `Conf.step`, `Conf.replay` -/

theorem Conf.step_ok {c c' : Conf} {b : Block} (h : c.step b = .ok c') :
    UtxoReg.update c.utxos b.txs b.ts = .ok c'.utxos ∧
    c'.registered = applyRegistered c.registered b.addedL b.removedL := by
  unfold Conf.step at h
  split at h
  · cases h
  · rename_i u hu
    injection h with h
    subst h
    exact ⟨hu, rfl⟩

theorem Conf.step_applyTxs {c c' : Conf} {b : Block} (h : c.step b = .ok c') :
    applyTxs c.utxos b.txs b.ts = .ok c'.utxos ∧ incomesOk c'.utxos.byAddr = true :=
  update_ok_iff.1 (Conf.step_ok h).1

theorem Conf.step_error_of_applyTxs_error {c : Conf} {b : Block} {e : String}
    (h : applyTxs c.utxos b.txs b.ts = .error e) : c.step b = .error e := by
  unfold Conf.step
  rw [update_error_of_applyTxs_error h]

theorem Conf.replay_cons_ok {c c' : Conf} {b : Block} {bs : List Block} (h : Conf.replay c (b :: bs) = .ok c') :
    ∃ c1, c.step b = .ok c1 ∧ Conf.replay c1 bs = .ok c' := by
  unfold Conf.replay at h
  split at h
  · cases h
  · exact ⟨_, ‹_›, h⟩

theorem Conf.replay_cons_error {c : Conf} {b : Block} {bs : List Block} {e : String} (h : c.step b = .error e) :
    Conf.replay c (b :: bs) = .error e := by
  unfold Conf.replay; rw [h]

theorem Conf.replay_cons_of_ok {c c1 : Conf} {b : Block} {bs : List Block} (h : c.step b = .ok c1) :
    Conf.replay c (b :: bs) = Conf.replay c1 bs := by
  conv => lhs; unfold Conf.replay
  rw [h]

/-- generic induction along a successful replay -/
theorem Conf.replay_induct {P : Conf → Prop} (hstep : ∀ c b c', P c → c.step b = .ok c' → P c')
    {c c' : Conf} {bs : List Block} (h0 : P c) (h : Conf.replay c bs = .ok c') : P c' := by
  induction bs generalizing c with
  | nil => unfold Conf.replay at h; injection h with h; subst h; exact h0
  | cons b bs ih =>
    obtain ⟨c1, h1, h2⟩ := Conf.replay_cons_ok h
    exact ih (hstep _ _ _ h0 h1) h2

/-- every block of a successful replay was accepted by `Conf.step` on some intermediate state -/
theorem Conf.replay_block_ok {c c' : Conf} {bs : List Block} (h : Conf.replay c bs = .ok c')
    {q : Nat} {b : Block} (hq : bs[q]? = some b) : ∃ c1 c2 : Conf, Conf.step c1 b = .ok c2 := by
  induction bs generalizing c q with
  | nil => simp at hq
  | cons b0 bs ih =>
    obtain ⟨c1, h1, h2⟩ := Conf.replay_cons_ok h
    cases q with
    | zero => simp at hq; subst hq; exact ⟨_, _, h1⟩
    | succ q => simp at hq; exact ih h2 hq

/-- outputs of ids no block of the replayed list (re-)creates are never created or altered -/
theorem Conf.replay_live_back_other {c c' : Conf} {bs : List Block} (h : Conf.replay c bs = .ok c')
    {id : String} (hne : ∀ b ∈ bs, ∀ t ∈ b.txs, t.id ≠ id) {idx : Nat} {v : Utxo}
    (hv : live c'.utxos id idx = some v) : live c.utxos id idx = some v := by
  induction bs generalizing c with
  | nil => unfold Conf.replay at h; injection h with h; subst h; exact hv
  | cons b bs ih =>
    obtain ⟨c1, h1, h2⟩ := Conf.replay_cons_ok h
    exact applyTxs_live_back_other (Conf.step_applyTxs h1).1 (hne b List.mem_cons_self)
      (ih h2 (fun b' hb' => hne b' (List.mem_cons_of_mem _ hb')))

/-- provenance along a replay: a live output was live at the start or was created by a transaction of one
    of the replayed blocks, stamped with that block's time -/
theorem Conf.replay_live_provenance {c c' : Conf} {bs : List Block} (h : Conf.replay c bs = .ok c')
    {id : String} {idx : Nat} {v : Utxo} (hv : live c'.utxos id idx = some v) :
    live c.utxos id idx = some v ∨
    ∃ (p : Nat) (b : Block) (t : Tx), bs[p]? = some b ∧ t ∈ b.txs ∧ t.id = id ∧ creates t = true ∧
      ∃ o, t.outputs[idx]? = some o ∧ v = ⟨id, idx, o, b.ts⟩ := by
  induction bs generalizing c with
  | nil => unfold Conf.replay at h; injection h with h; subst h; exact Or.inl hv
  | cons b0 bs ih =>
    obtain ⟨c1, h1, h2⟩ := Conf.replay_cons_ok h
    rcases ih h2 with hl | ⟨p, b, t, hp, rest⟩
    · rcases applyTxs_live_provenance (Conf.step_applyTxs h1).1 hl with h0 | ⟨t, ht, rest⟩
      · exact Or.inl h0
      · exact Or.inr ⟨0, b0, t, by simp, ht, rest⟩
    · exact Or.inr ⟨p + 1, b, t, by simpa using hp, rest⟩

/-- an input (block `q`, transaction `k`) whose reference is dead in the start state and whose id no
    transaction before it — in an earlier block, or at a position `≤ k` of block `q` — carries, makes the
    replay fail -/
theorem Conf.replay_error_of_dead_at {c : Conf} {bs : List Block} {q k : Nat} {b : Block} {t : Tx} {i : Input}
    (hq : bs[q]? = some b) (hk : b.txs[k]? = some t) (hi : i ∈ t.inputs)
    (hd : live c.utxos i.txId i.index = none)
    (hne1 : ∀ r b', r < q → bs[r]? = some b' → ∀ t' ∈ b'.txs, t'.id ≠ i.txId)
    (hne2 : ∀ k' t', k' ≤ k → b.txs[k']? = some t' → t'.id ≠ i.txId) :
    ∃ e, Conf.replay c bs = .error e := by
  induction bs generalizing c q with
  | nil => simp at hq
  | cons b0 bs ih =>
    cases h1 : c.step b0 with
    | error e => exact ⟨e, Conf.replay_cons_error h1⟩
    | ok c1 =>
      rw [Conf.replay_cons_of_ok h1]
      cases q with
      | zero =>
        simp at hq; subst hq
        obtain ⟨e, he⟩ := applyTxs_error_of_dead_at (st := c.utxos) (ts := b0.ts) hk hi hd hne2
        have := (Conf.step_applyTxs h1).1
        rw [he] at this
        cases this
      | succ q =>
        simp at hq
        refine ih hq ?_ (fun r b' hr hb' => hne1 (r + 1) b' (by omega) (by simpa using hb'))
        cases hl : live c1.utxos i.txId i.index with
        | none => rfl
        | some v =>
          have := applyTxs_live_back_other (Conf.step_applyTxs h1).1
            (hne1 0 b0 (by omega) (by simp)) hl
          rw [this] at hd; cases hd

/-- two inputs with the same reference in blocks `p < q`, the reference not re-created in between (later in
    block `p`, in a block strictly between, or in block `q` up to the second spender), make the replay fail -/
theorem Conf.replay_error_of_dup_at {c : Conf} {bs : List Block} {p q k1 k2 : Nat} {bp bq : Block} {t1 t2 : Tx}
    {i j : Input} (hpq : p < q) (hp : bs[p]? = some bp) (hq : bs[q]? = some bq)
    (hk1 : bp.txs[k1]? = some t1) (hk2 : bq.txs[k2]? = some t2) (hi : i ∈ t1.inputs) (hj : j ∈ t2.inputs)
    (hid : i.txId = j.txId) (hix : i.index = j.index)
    (hneP : ∀ k' t', k1 < k' → bp.txs[k']? = some t' → t'.id ≠ i.txId)
    (hneM : ∀ r b', p < r → r < q → bs[r]? = some b' → ∀ t' ∈ b'.txs, t'.id ≠ i.txId)
    (hneQ : ∀ k' t', k' ≤ k2 → bq.txs[k']? = some t' → t'.id ≠ i.txId) :
    ∃ e, Conf.replay c bs = .error e := by
  induction bs generalizing c p q with
  | nil => simp at hp
  | cons b0 bs ih =>
    cases h1 : c.step b0 with
    | error e => exact ⟨e, Conf.replay_cons_error h1⟩
    | ok c1 =>
      rw [Conf.replay_cons_of_ok h1]
      obtain ⟨q', rfl⟩ : ∃ q', q = q' + 1 := ⟨q - 1, by omega⟩
      simp at hq
      cases p with
      | zero =>
        simp at hp; subst hp
        have hd : live c1.utxos j.txId j.index = none := by
          rw [← hid, ← hix]
          exact applyTxs_dead_at (Conf.step_applyTxs h1).1 hk1 hi hneP
        exact Conf.replay_error_of_dead_at hq hk2 hj hd
          (fun r b' hr hb' => hid ▸ hneM (r + 1) b' (by omega) (by omega) (by simpa using hb'))
          (fun k' t' hk' ht' => hid ▸ hneQ k' t' hk' ht')
      | succ p' =>
        simp at hp
        exact ih (by omega) hp hq
          (fun r b' h1 h2 hb' => hneM (r + 1) b' (by omega) (by omega) (by simpa using hb'))

/-- where the output an input consumes comes from, along a replay -/
theorem Conf.replay_input_origin {c c' : Conf} {bs : List Block} (h : Conf.replay c bs = .ok c')
    {q k : Nat} {b : Block} {t : Tx} {i : Input} (hq : bs[q]? = some b) (hk : b.txs[k]? = some t) (hi : i ∈ t.inputs) :
    (∃ u, live c.utxos i.txId i.index = some u) ∨
    ∃ (p : Nat) (b' : Block) (k' : Nat) (t' : Tx) (o : Output), bs[p]? = some b' ∧ b'.txs[k']? = some t' ∧ t'.id = i.txId ∧ creates t' = true ∧
      t'.outputs[i.index]? = some o ∧ (p < q ∨ (p = q ∧ k' ≤ k)) := by
  induction bs generalizing c q with
  | nil => simp at hq
  | cons b0 bs ih =>
    obtain ⟨c1, h1, h2⟩ := Conf.replay_cons_ok h
    cases q with
    | zero =>
      simp at hq; subst hq
      rcases applyTxs_input_origin (Conf.step_applyTxs h1).1 hk hi with hl | ⟨k', t', o, hle, hk', hid, hcr, ho⟩
      · exact Or.inl hl
      · exact Or.inr ⟨0, b0, k', t', o, by simp, hk', hid, hcr, ho, Or.inr ⟨rfl, hle⟩⟩
    | succ q =>
      simp at hq
      rcases ih h2 hq with ⟨u, hu⟩ | ⟨p, b', k', t', o, hp, hk', hid, hcr, ho, hpos⟩
      · rcases applyTxs_live_provenance (Conf.step_applyTxs h1).1 hu with h0 | ⟨t', ht', hid, hcr, o, ho, -⟩
        · exact Or.inl ⟨u, h0⟩
        · obtain ⟨k', hk'⟩ := List.mem_iff_getElem?.1 ht'
          exact Or.inr ⟨0, b0, k', t', o, by simp, hk', hid, hcr, ho, Or.inl (by omega)⟩
      · refine Or.inr ⟨p + 1, b', k', t', o, by simpa using hp, hk', hid, hcr, ho, ?_⟩
        rcases hpos with h | ⟨h, h'⟩
        · exact Or.inl (by omega)
        · exact Or.inr ⟨by omega, h'⟩

/-! ### invariants carried along a replay -/

theorem Conf.replay_indexedW {c c' : Conf} {bs : List Block} (hW : IndexedW c.utxos)
    (h : Conf.replay c bs = .ok c') : IndexedW c'.utxos :=
  Conf.replay_induct (P := fun c => IndexedW c.utxos)
    (fun _ _ _ hp hs => applyTxs_indexedW hp (Conf.step_applyTxs hs).1) hW h

theorem Conf.replay_incomesOk {c c' : Conf} {bs : List Block} (h0 : incomesOk c.utxos.byAddr = true)
    (h : Conf.replay c bs = .ok c') : incomesOk c'.utxos.byAddr = true :=
  Conf.replay_induct (P := fun c => incomesOk c.utxos.byAddr = true)
    (fun _ _ _ _ hs => (Conf.step_applyTxs hs).2) h0 h

theorem Conf.replay_indexedS {c c' : Conf} {bs : List Block} (hS : IndexedS c.utxos)
    (huse : ∀ b ∈ bs, ∀ t ∈ b.txs, UsefulOutputs t) (h : Conf.replay c bs = .ok c') : IndexedS c'.utxos := by
  induction bs generalizing c with
  | nil => unfold Conf.replay at h; injection h with h; subst h; exact hS
  | cons b bs ih =>
    obtain ⟨c1, h1, h2⟩ := Conf.replay_cons_ok h
    exact ih (applyTxs_indexedS hS (huse b List.mem_cons_self) (Conf.step_applyTxs h1).1)
      (fun b' hb' => huse b' (List.mem_cons_of_mem _ hb')) h2

theorem incomesOk_empty : incomesOk UtxoReg.empty.byAddr = true := by decide

theorem Conf.empty_utxos : Conf.empty.utxos = UtxoReg.empty := rfl

theorem live_empty (id : String) (idx : Nat) : live UtxoReg.empty id idx = none := by
  simp [live, UtxoReg.empty]

/-! ### concrete values for the chain-level examples -/

namespace RegEx

def chB1 : Block := ⟨zeroHash, none, none, 10, [xTxG]⟩
def chB2 : Block := ⟨"h", none, none, 20, [{ xTxA with ts := 15 }]⟩
def chB3 : Block := ⟨"h", none, none, 30, [{ xTxB with ts := 25 }]⟩
/-- a transaction whose id is the id its own input refers to (impossible for sha256 ids, possible in the
    model where ids are data): it spends the output it creates -/
def chSelf : Tx := ⟨"S", [xIn "S" 0 "Q"], [⟨"Q", false, 3⟩], 15⟩

end RegEx

end Ru
