/-
  Core/Lemmas/ForkRound.lean — one sync round of a host with ONE or TWO blocks (no incremental phase: every
  neighbour is asked for its chain from height 0) against neighbours that all serve the same accepted list `X`:
  every outcome carries `X`.
-/
import Core.Lemmas.Shape
open Std

namespace Ru
namespace ProgressL
open Sync SL SL.Sync

section
variable {env : Env} {cfg : Cfg} {host : Ledger} {now : Int} {resps : List Resp} {X : List Block}

theorem phase2_uniform (hacc : Ledger.verify env cfg host host.blocks.dropLast X [] now = .ok X) :
    ∀ (rs : List Resp) (c : Cands), (∀ r ∈ rs, r.second = some X) →
    phase2 env cfg host now rs c = rs.foldl (fun (c : Cands) r => c.set r.target X) c := by
  intro rs
  induction rs with
  | nil => intro c _; rfl
  | cons r rs ih =>
    intro c h
    rw [phase2_cons, List.foldl_cons]
    have : step2 env cfg host now r c = c.set r.target X := by
      unfold step2
      rw [h r (by simp)]
      simp only [hacc]
    rw [this]
    exact ih _ (fun r' hr' => h r' (by simp [hr']))

theorem foldl_set_only (Y : List Block) :
    ∀ (rs : List Resp) (c : Cands) (kv : String × List Block),
      kv ∈ rs.foldl (fun (c : Cands) r => c.set r.target Y) c → kv ∈ c ∨ kv.2 = Y := by
  intro rs
  induction rs with
  | nil => intro c kv h; exact Or.inl h
  | cons r rs ih =>
    intro c kv h
    rw [List.foldl_cons] at h
    rcases ih _ kv h with h1 | h1
    · rcases Cands.mem_set h1 with h2 | h2
      · right; rw [h2]
      · exact Or.inl h2
    · exact Or.inr h1

/-- **short host, uniform answers.**  The host holds one or two blocks; every neighbour serves `X` from height 0;
    `verify` accepts `X` from height 0; `X` is longer than the host's chain and has a positive age.  Then every
    outcome of the round — whatever the map order — holds exactly `X`. -/
theorem uniform_round_fork (h1 : 0 < host.blocks.length) (h2 : host.blocks.length ≤ 2)
    (hne : resps ≠ []) (ht : ∀ r ∈ resps, r.target ≠ "host")
    (hresp : ∀ r ∈ resps, r.second = some X)
    (hacc : Ledger.verify env cfg host host.blocks.dropLast X [] now = .ok X)
    (hlen : host.blocks.length < X.length)
    (hage : 0 < age X) :
    ∀ l ∈ outcomes env cfg host now resps, l.blocks = X := by
  have hhc : hostCands host = [] := by unfold hostCands; rw [if_neg (by omega)]
  have hc1 : SL.Sync.cands1 env cfg host now resps = [] := by
    unfold SL.Sync.cands1; rw [if_neg (by omega), hhc]
  have hrl : 0 < resps.length := List.length_pos_iff.mpr hne
  have hfork : (choose env cfg host now resps).isFork = true := by
    rw [choose_isFork, hc1]
    simp [h1, hrl]
  have hcands : (choose env cfg host now resps).cands =
      resps.foldl (fun (c : Cands) r => c.set r.target X) [] := by
    rw [choose_cands_fork ht hfork, hhc, phase2_uniform hacc resps _ hresp]
  obtain ⟨t0, ht0⟩ : ∃ t, (t, X) ∈ (choose env cfg host now resps).cands := by
    rw [hcands]
    cases resps with
    | nil => exact absurd rfl hne
    | cons r rs =>
      rw [List.foldl_cons]
      exact foldl_set_has X rs _ ⟨r.target, set_mem_self _ _ _⟩
  have hE : ∀ kv ∈ (choose env cfg host now resps).cands, kv.2 = X := by
    intro kv hkv
    rw [hcands] at hkv
    rcases foldl_set_only X resps [] kv hkv with h | h
    · cases h
    · exact h
  -- lengths
  have hmaxle : maxLen host.blocks.length (choose env cfg host now resps).cands ≤ X.length :=
    foldl_max_le (fun (kv : String × List Block) => kv.2.length) _ _ _ (by omega)
      (fun kv hkv => by rw [hE kv hkv]; exact Nat.le_refl _)
  have hmin : minLen host.blocks.length (choose env cfg host now resps).cands = host.blocks.length :=
    Nat.le_antisymm (minLen_le _ _) (minLen_ge _ _ _ (Nat.le_refl _)
      (fun kv hkv => by rw [hE kv hkv]; omega))
  -- (t0, X) survives both filters
  have hsv : (t0, X) ∈ (choose env cfg host now resps).survivors := by
    rw [choose_survivors, List.mem_filter]
    refine ⟨?_, by simp only [Bool.not_eq_true', decide_eq_false_iff_not]; omega⟩
    unfold majorityFilter
    rw [List.mem_filter]
    refine ⟨ht0, ?_⟩
    simp only [hmin]
    have hall : (choose env cfg host now resps).cands.filter (fun other =>
        prevHashAt X (host.blocks.length - 1) == prevHashAt other.2 (host.blocks.length - 1)) =
        (choose env cfg host now resps).cands := by
      rw [List.filter_eq_self]
      intro kv hkv
      rw [hE kv hkv]
      exact beq_self_eq_true _
    rw [hall]
    simp only [Bool.not_eq_true', decide_eq_false_iff_not]
    have := Nat.div_le_self (choose env cfg host now resps).cands.length 2
    omega
  have hsvX : ∀ kv ∈ (choose env cfg host now resps).survivors, kv.2 = X :=
    fun kv hkv => hE kv (survivors_sub_cands hkv)
  have hmaxage : (choose env cfg host now resps).maxAge = age X := by
    rw [choose_maxAge]
    have hge := foldl_max_ge_mem (fun (kv : String × List Block) => age kv.2)
      (choose env cfg host now resps).survivors 0 hsv
    rcases foldl_max_attained (fun (kv : String × List Block) => age kv.2)
      (choose env cfg host now resps).survivors 0 with h | ⟨kv, hkv, h⟩
    · rw [h] at hge; have hge' : age X ≤ 0 := hge; omega
    · rw [h]; show age kv.2 = age X; rw [hsvX kv hkv]
  have hselX : X ∈ selectionSet (choose env cfg host now resps) :=
    mem_selectionSet.mpr ⟨by omega, t0, hsv, hmaxage.symm⟩
  intro l hl
  obtain ⟨sel, hsel, rfl⟩ := outcomes_of_nonempty (List.ne_nil_of_mem hselX) hl
  obtain ⟨_, t, hsvs, _⟩ := mem_selectionSet.mp hsel
  have hsx : sel = X := hsvX _ hsvs
  rw [hsx, hfork]
  apply commit_phase2 hacc
  unfold isDifferent
  rw [if_pos hlen]

theorem set_cons_ne (a : String × List Block) (c : Cands) (t : String) (bs : List Block) (h : a.1 ≠ t) :
    Cands.set (a :: c) t bs = a :: Cands.set c t bs := by
  unfold Cands.set
  have hb : (a.1 == t) = false := by simpa using h
  simp only [List.any_cons, hb, Bool.false_or, List.map_cons]
  split
  · simp
  · simp

theorem foldl_set_cons (Y : List Block) (a : String × List Block) :
    ∀ (rs : List Resp) (c : Cands), (∀ r ∈ rs, r.target ≠ a.1) →
      rs.foldl (fun (c : Cands) r => c.set r.target Y) (a :: c) =
        a :: rs.foldl (fun (c : Cands) r => c.set r.target Y) c := by
  intro rs
  induction rs with
  | nil => intro c _; rfl
  | cons r rs ih =>
    intro c h
    rw [List.foldl_cons, List.foldl_cons, set_cons_ne a c r.target Y (fun e => h r (by simp) e.symm)]
    exact ih _ (fun r' hr' => h r' (by simp [hr']))

/-- **private chain of three or more blocks, uniform answers.**  The host holds more than two blocks; every incremental
    answer is refused (its chain is not the neighbours'); every neighbour serves `X` from height 0, accepted from
    height 0, longer than the host's chain, of positive age.  Then every outcome of the round holds exactly `X`: the
    host's own chain is a candidate but loses to the longer `X`. -/
theorem uniform_round_fork_private (h3 : 2 < host.blocks.length)
    (hne : resps ≠ []) (ht : ∀ r ∈ resps, r.target ≠ "host")
    (hrej : ∀ r ∈ resps, ∀ nb, r.first = some nb →
      ∃ e, Ledger.verify env cfg host host.blocks.getLast?.toList nb host.blocks.dropLast now = .error e)
    (hresp : ∀ r ∈ resps, r.second = some X)
    (hacc : Ledger.verify env cfg host host.blocks.dropLast X [] now = .ok X)
    (hlen : host.blocks.length < X.length)
    (hage : 0 < age X) :
    ∀ l ∈ outcomes env cfg host now resps, l.blocks = X := by
  have hhc : hostCands host = [("host", host.blocks)] := by unfold hostCands; rw [if_pos h3]
  have hc1 : SL.Sync.cands1 env cfg host now resps = [("host", host.blocks)] := by
    unfold SL.Sync.cands1; rw [if_pos h3, hhc, phase1_noop resps _ hrej]
  have hrl : 0 < resps.length := List.length_pos_iff.mpr hne
  have hfork : (choose env cfg host now resps).isFork = true := by
    rw [choose_isFork, hc1]
    have : 0 < host.blocks.length := by omega
    simp [this, hrl]
  -- the candidates: the host's entry, then entries that all carry X
  have hcands : (choose env cfg host now resps).cands =
      ("host", host.blocks) :: resps.foldl (fun (c : Cands) r => c.set r.target X) [] := by
    rw [choose_cands_fork ht hfork, hhc, phase2_uniform hacc resps _ hresp,
      foldl_set_cons X ("host", host.blocks) resps [] ht]
  have hY : ∀ kv ∈ resps.foldl (fun (c : Cands) r => c.set r.target X) [], kv.2 = X := by
    intro kv hkv
    rcases foldl_set_only X resps [] kv hkv with h | h
    · cases h
    · exact h
  obtain ⟨t0, ht0Y⟩ : ∃ t, (t, X) ∈ resps.foldl (fun (c : Cands) r => c.set r.target X) [] := by
    cases resps with
    | nil => exact absurd rfl hne
    | cons r rs =>
      rw [List.foldl_cons]
      exact foldl_set_has X rs _ ⟨r.target, set_mem_self _ _ _⟩
  have ht0 : (t0, X) ∈ (choose env cfg host now resps).cands := by
    rw [hcands]; exact List.mem_cons_of_mem _ ht0Y
  have hE : ∀ kv ∈ (choose env cfg host now resps).cands, kv.2 = host.blocks ∨ kv.2 = X := by
    intro kv hkv
    rw [hcands] at hkv
    rcases List.mem_cons.mp hkv with h | h
    · left; rw [h]
    · right; exact hY kv h
  have hmaxle : maxLen host.blocks.length (choose env cfg host now resps).cands ≤ X.length :=
    foldl_max_le (fun (kv : String × List Block) => kv.2.length) _ _ _ (by omega)
      (fun kv hkv => by rcases hE kv hkv with e | e <;> rw [e] <;> omega)
  have hmin : minLen host.blocks.length (choose env cfg host now resps).cands = host.blocks.length :=
    Nat.le_antisymm (minLen_le _ _) (minLen_ge _ _ _ (Nat.le_refl _)
      (fun kv hkv => by rcases hE kv hkv with e | e <;> rw [e] <;> omega))
  -- (t0, X) survives both filters
  have hsv : (t0, X) ∈ (choose env cfg host now resps).survivors := by
    rw [choose_survivors, List.mem_filter]
    refine ⟨?_, by simp only [Bool.not_eq_true', decide_eq_false_iff_not]; omega⟩
    unfold majorityFilter
    rw [List.mem_filter]
    refine ⟨ht0, ?_⟩
    simp only [hmin]
    -- all the entries that carry X agree with X on the previous hash: at least |cands| − 1 of them
    have hge : (resps.foldl (fun (c : Cands) r => c.set r.target X) []).length ≤
        ((choose env cfg host now resps).cands.filter (fun other =>
          prevHashAt X (host.blocks.length - 1) == prevHashAt other.2 (host.blocks.length - 1))).length := by
      rw [hcands, List.filter_cons]
      have hall : (resps.foldl (fun (c : Cands) r => c.set r.target X) []).filter (fun other =>
          prevHashAt X (host.blocks.length - 1) == prevHashAt other.2 (host.blocks.length - 1)) =
          resps.foldl (fun (c : Cands) r => c.set r.target X) [] := by
        rw [List.filter_eq_self]
        intro kv hkv
        rw [hY kv hkv]
        exact beq_self_eq_true _
      split
      · rw [List.length_cons, hall]; omega
      · rw [hall]; exact Nat.le_refl _
    have hYpos : 0 < (resps.foldl (fun (c : Cands) r => c.set r.target X) []).length :=
      List.length_pos_of_mem ht0Y
    have hcl : (choose env cfg host now resps).cands.length =
        (resps.foldl (fun (c : Cands) r => c.set r.target X) []).length + 1 := by rw [hcands]; simp
    simp only [Bool.not_eq_true', decide_eq_false_iff_not]
    rw [hcl]
    omega
  have hsvX : ∀ kv ∈ (choose env cfg host now resps).survivors, kv.2 = X := by
    intro kv hkv
    have hkc := survivors_sub_cands hkv
    rw [choose_survivors, List.mem_filter] at hkv
    have hl := hkv.2
    simp only [Bool.not_eq_true', decide_eq_false_iff_not, Nat.not_lt] at hl
    have hge : X.length ≤ maxLen host.blocks.length (choose env cfg host now resps).cands :=
      maxLen_ge_mem _ _ ht0
    rcases hE kv hkc with e | e
    · rw [e] at hl; omega
    · exact e
  have hmaxage : (choose env cfg host now resps).maxAge = age X := by
    rw [choose_maxAge]
    have hge := foldl_max_ge_mem (fun (kv : String × List Block) => age kv.2)
      (choose env cfg host now resps).survivors 0 hsv
    rcases foldl_max_attained (fun (kv : String × List Block) => age kv.2)
      (choose env cfg host now resps).survivors 0 with h | ⟨kv, hkv, h⟩
    · rw [h] at hge; have hge' : age X ≤ 0 := hge; omega
    · rw [h]; show age kv.2 = age X; rw [hsvX kv hkv]
  have hselX : X ∈ selectionSet (choose env cfg host now resps) :=
    mem_selectionSet.mpr ⟨by omega, t0, hsv, hmaxage.symm⟩
  intro l hl
  obtain ⟨sel, hsel, rfl⟩ := outcomes_of_nonempty (List.ne_nil_of_mem hselX) hl
  obtain ⟨_, t, hsvs, _⟩ := mem_selectionSet.mp hsel
  have hsx : sel = X := hsvX _ hsvs
  rw [hsx, hfork]
  apply commit_phase2 hacc
  unfold isDifferent
  rw [if_pos hlen]

end
end ProgressL
end Ru
