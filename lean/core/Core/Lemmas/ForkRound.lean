/-
  Core/Lemmas/ForkRound.lean — one sync round of a host with ONE or TWO blocks (no incremental phase: every
  neighbour is asked for its chain from height 0) against neighbours that all serve the same accepted list `X`:
  every outcome carries `X`.
-/
import Core.Lemmas.Shape
open Std

namespace Ru
namespace ProgressL
open Sync SL SL.Sync

section
variable {env : Env} {cfg : Cfg} {host : Ledger} {now : Int} {resps : List Resp} {X : List Block}

theorem phase2_uniform (hacc : Ledger.verify env cfg host host.blocks.dropLast X [] now = .ok X) :
    ∀ (rs : List Resp) (c : Cands), (∀ r ∈ rs, r.second = some X) →
    phase2 env cfg host now rs c = rs.foldl (fun (c : Cands) r => c.set r.target X) c := by
  intro rs
  induction rs with
  | nil => intro c _; rfl
  | cons r rs ih =>
    intro c h
    rw [phase2_cons, List.foldl_cons]
    have : step2 env cfg host now r c = c.set r.target X := by
      unfold step2
      rw [h r (by simp)]
      simp only [hacc]
    rw [this]
    exact ih _ (fun r' hr' => h r' (by simp [hr']))

theorem foldl_set_only (Y : List Block) :
    ∀ (rs : List Resp) (c : Cands) (kv : String × List Block),
      kv ∈ rs.foldl (fun (c : Cands) r => c.set r.target Y) c → kv ∈ c ∨ kv.2 = Y := by
  intro rs
  induction rs with
  | nil => intro c kv h; exact Or.inl h
  | cons r rs ih =>
    intro c kv h
    rw [List.foldl_cons] at h
    rcases ih _ kv h with h1 | h1
    · rcases Cands.mem_set h1 with h2 | h2
      · right; rw [h2]
      · exact Or.inl h2
    · exact Or.inr h1

/-- **short host, uniform answers.**  The host holds one or two blocks; every neighbour serves `X` from height 0;
    `verify` accepts `X` from height 0; `X` is longer than the host's chain and has a positive age.  Then every
    outcome of the round — whatever the map order — holds exactly `X`. -/
theorem uniform_round_fork (h1 : 0 < host.blocks.length) (h2 : host.blocks.length ≤ 2)
    (hne : resps ≠ []) (ht : ∀ r ∈ resps, r.target ≠ "host")
    (hresp : ∀ r ∈ resps, r.second = some X)
    (hacc : Ledger.verify env cfg host host.blocks.dropLast X [] now = .ok X)
    (hlen : host.blocks.length < X.length)
    (hage : 0 < age X) :
    ∀ l ∈ outcomes env cfg host now resps, l.blocks = X := by
  have hhc : hostCands host = [] := by unfold hostCands; rw [if_neg (by omega)]
  have hc1 : SL.Sync.cands1 env cfg host now resps = [] := by
    unfold SL.Sync.cands1; rw [if_neg (by omega), hhc]
  have hrl : 0 < resps.length := List.length_pos_iff.mpr hne
  have hfork : (choose env cfg host now resps).isFork = true := by
    rw [choose_isFork, hc1]
    simp [h1, hrl]
  have hcands : (choose env cfg host now resps).cands =
      resps.foldl (fun (c : Cands) r => c.set r.target X) [] := by
    rw [choose_cands_fork ht hfork, hhc, phase2_uniform hacc resps _ hresp]
  obtain ⟨t0, ht0⟩ : ∃ t, (t, X) ∈ (choose env cfg host now resps).cands := by
    rw [hcands]
    cases resps with
    | nil => exact absurd rfl hne
    | cons r rs =>
      rw [List.foldl_cons]
      exact foldl_set_has X rs _ ⟨r.target, set_mem_self _ _ _⟩
  have hE : ∀ kv ∈ (choose env cfg host now resps).cands, kv.2 = X := by
    intro kv hkv
    rw [hcands] at hkv
    rcases foldl_set_only X resps [] kv hkv with h | h
    · cases h
    · exact h
  -- lengths
  have hmaxle : maxLen host.blocks.length (choose env cfg host now resps).cands ≤ X.length :=
    foldl_max_le (fun (kv : String × List Block) => kv.2.length) _ _ _ (by omega)
      (fun kv hkv => by rw [hE kv hkv]; exact Nat.le_refl _)
  have hmin : minLen host.blocks.length (choose env cfg host now resps).cands = host.blocks.length :=
    Nat.le_antisymm (minLen_le _ _) (minLen_ge _ _ _ (Nat.le_refl _)
      (fun kv hkv => by rw [hE kv hkv]; omega))
  -- (t0, X) survives both filters
  have hsv : (t0, X) ∈ (choose env cfg host now resps).survivors := by
    rw [choose_survivors, List.mem_filter]
    refine ⟨?_, by simp only [Bool.not_eq_true', decide_eq_false_iff_not]; omega⟩
    unfold majorityFilter
    rw [List.mem_filter]
    refine ⟨ht0, ?_⟩
    simp only [hmin]
    have hall : (choose env cfg host now resps).cands.filter (fun other =>
        prevHashAt X (host.blocks.length - 1) == prevHashAt other.2 (host.blocks.length - 1)) =
        (choose env cfg host now resps).cands := by
      rw [List.filter_eq_self]
      intro kv hkv
      rw [hE kv hkv]
      exact beq_self_eq_true _
    rw [hall]
    simp only [Bool.not_eq_true', decide_eq_false_iff_not]
    have := Nat.div_le_self (choose env cfg host now resps).cands.length 2
    omega
  have hsvX : ∀ kv ∈ (choose env cfg host now resps).survivors, kv.2 = X :=
    fun kv hkv => hE kv (survivors_sub_cands hkv)
  have hmaxage : (choose env cfg host now resps).maxAge = age X := by
    rw [choose_maxAge]
    have hge := foldl_max_ge_mem (fun (kv : String × List Block) => age kv.2)
      (choose env cfg host now resps).survivors 0 hsv
    rcases foldl_max_attained (fun (kv : String × List Block) => age kv.2)
      (choose env cfg host now resps).survivors 0 with h | ⟨kv, hkv, h⟩
    · rw [h] at hge; have hge' : age X ≤ 0 := hge; omega
    · rw [h]; show age kv.2 = age X; rw [hsvX kv hkv]
  have hselX : X ∈ selectionSet (choose env cfg host now resps) :=
    mem_selectionSet.mpr ⟨by omega, t0, hsv, hmaxage.symm⟩
  intro l hl
  obtain ⟨sel, hsel, rfl⟩ := outcomes_of_nonempty (List.ne_nil_of_mem hselX) hl
  obtain ⟨_, t, hsvs, _⟩ := mem_selectionSet.mp hsel
  have hsx : sel = X := hsvX _ hsvs
  rw [hsx, hfork]
  apply commit_phase2 hacc
  unfold isDifferent
  rw [if_pos hlen]

end
end ProgressL
end Ru
