/-
  Core/Lemmas/Window.lean — from full verification to incremental verification: when a chain `C` is acceptable from
  height 0, a derived host that holds the first `k` blocks of `C` accepts, in the incremental mode of `verify`, the
  window of `C` an honest neighbour serves from height `k − 1`.
-/
import Core.Lemmas.VerifyReplay
import Core.Lemmas.Agree
import Core.Lemmas.SyncL
open Std

namespace Ru
open Ledger

/-- two ledgers that differ at most in the registry's pending-removal list -/
def LSim (a b : Ledger) : Prop := a.blocks = b.blocks ∧ a.utxos = b.utxos ∧ a.reg.registered = b.reg.registered

theorem LSim.refl (a : Ledger) : LSim a a := ⟨rfl, rfl, rfl⟩

theorem update_registered_congr (r s : AddrReg) (h : r.registered = s.registered) (ad rm : List String) :
    (r.update ad rm).registered = (s.update ad rm).registered := by
  unfold AddrReg.update
  simp only []
  rw [Ru.applyRemovals_registered r rm, Ru.applyRemovals_registered s rm, h]

theorem yieldsRegistered_congr (r s : AddrReg) (h : r.registered = s.registered) (added : List String) (tx : Tx) :
    yieldsRegistered r added tx = yieldsRegistered s added tx := by
  unfold yieldsRegistered AddrReg.isRegistered
  rw [h]

theorem verifyTxs_congr (env : Env) (cfg : Cfg) {a b : Ledger} (h : LSim a b) (blk : Block) (prevTs : Int) :
    ∀ (txs : List Tx) (rw : Bool) (r t : Nat),
      verifyTxs env cfg a blk prevTs txs rw r t = verifyTxs env cfg b blk prevTs txs rw r t := by
  intro txs
  induction txs with
  | nil => intro rw r t; simp [verifyTxs]
  | cons x xs ih =>
    intro rw r t
    simp only [verifyTxs]
    rw [yieldsRegistered_congr a.reg b.reg h.2.2, h.2.1]
    simp only [ih]

theorem verifyBlock_congr (env : Env) (cfg : Cfg) {a b : Ledger} (h : LSim a b) (blk : Block) (prevTs now : Int) :
    verifyBlock env cfg a blk prevTs now = verifyBlock env cfg b blk prevTs now := by
  unfold verifyBlock
  rw [verifyTxs_congr env cfg h]

theorem loopCheck_congr (env : Env) (cfg : Cfg) (now : Int) (lastHost : List Block) {a b : Ledger} (h : LSim a b)
    (prev : Option Block) (blk : Block) (i : Nat) :
    loopCheck env cfg now lastHost a prev blk i = loopCheck env cfg now lastHost b prev blk i := by
  unfold loopCheck
  simp only [verifyBlock_congr env cfg h]

theorem addBlockRaw_sim {a b a' : Ledger} (h : LSim a b) (x : Block) (ha : a.addBlockRaw x = .ok a') :
    ∃ b', b.addBlockRaw x = .ok b' ∧ LSim a' b' := by
  obtain ⟨hb, hu, hr⟩ := h
  unfold addBlockRaw at ha ⊢
  rw [← hb, ← hu]
  cases hl : a.blocks.getLast? with
  | none =>
    rw [hl] at ha
    simp only [] at ha ⊢
    injection ha with ha
    subst ha
    exact ⟨_, rfl, by simp [hb], rfl, hr⟩
  | some last =>
    rw [hl] at ha
    simp only [] at ha ⊢
    cases hup : a.utxos.update last.txs last.ts with
    | error e => rw [hup] at ha; cases ha
    | ok u' =>
      rw [hup] at ha
      simp only [] at ha ⊢
      injection ha with ha
      subst ha
      exact ⟨_, rfl, rfl, rfl, update_registered_congr _ _ hr _ _⟩

theorem loopAppend_sim {a b a' : Ledger} (h : LSim a b) (x : Block) (i : Nat) (ha : loopAppend a x i = .ok a') :
    ∃ b', loopAppend b x i = .ok b' ∧ LSim a' b' := by
  unfold loopAppend at ha ⊢
  by_cases hi : (i == 0) = true
  · rw [if_pos hi] at ha ⊢
    injection ha with ha
    subst ha
    exact ⟨_, rfl, by simp [h.1], h.2.1, h.2.2⟩
  · rw [if_neg hi] at ha ⊢
    exact addBlockRaw_sim h x ha

/-- the loop of `verify` does not read the pending-removal list -/
theorem verifyLoop_sim (env : Env) (cfg : Cfg) (now : Int) (lastHost : List Block) :
    ∀ (rest : List Block) (a b a' : Ledger) (prev : Option Block) (i : Nat), LSim a b →
      verifyLoop env cfg now lastHost a prev rest i = .ok a' →
      ∃ b', verifyLoop env cfg now lastHost b prev rest i = .ok b' ∧ LSim a' b' := by
  intro rest
  induction rest with
  | nil =>
    intro a b a' prev i h ha
    simp only [verifyLoop] at ha ⊢
    injection ha with ha
    subst ha
    exact ⟨b, rfl, h⟩
  | cons x xs ih =>
    intro a b a' prev i h ha
    rw [verifyLoop_cons] at ha ⊢
    rw [← loopCheck_congr env cfg now lastHost h]
    cases hc : loopCheck env cfg now lastHost a prev x i with
    | error e => rw [hc] at ha; cases ha
    | ok u =>
      cases u
      rw [hc] at ha
      simp only [] at ha ⊢
      cases hap : loopAppend a x i with
      | error e => rw [hap] at ha; cases ha
      | ok a1 =>
        rw [hap] at ha
        simp only [] at ha
        obtain ⟨b1, hb1, hs1⟩ := loopAppend_sim h x i hap
        rw [hb1]
        simp only []
        exact ih a1 b1 a' (some x) (i + 1) hs1 ha

/-- past the compared host blocks the index only distinguishes "first block of the answer" from the others -/
theorem verifyLoop_index (env : Env) (cfg : Cfg) (now : Int) (tip : Block) :
    ∀ (rest : List Block) (nl : Ledger) (prev : Option Block) (i j : Nat), i ≠ 0 → j ≠ 0 →
      verifyLoop env cfg now [] nl prev rest i = verifyLoop env cfg now [tip] nl prev rest j := by
  intro rest
  induction rest with
  | nil => intro nl prev i j _ _; simp [verifyLoop]
  | cons x xs ih =>
    intro nl prev i j hi hj
    rw [verifyLoop_cons, verifyLoop_cons]
    have hc : loopCheck env cfg now [] nl prev x i = loopCheck env cfg now [tip] nl prev x j := by
      unfold loopCheck
      have e1 : ([] : List Block)[i]? = none := by simp
      have e2 : ([tip] : List Block)[j]? = none := by
        cases j with
        | zero => exact absurd rfl hj
        | succ m => simp
      rw [e1, e2]
    have ha : loopAppend nl x i = loopAppend nl x j := by
      unfold loopAppend
      have e1 : (i == 0) = false := by simpa using hi
      have e2 : (j == 0) = false := by simpa using hj
      rw [e1, e2]
    rw [hc, ha]
    cases loopCheck env cfg now [tip] nl prev x j with
    | error e => rfl
    | ok u =>
      cases u
      simp only []
      cases loopAppend nl x j with
      | error e => rfl
      | ok nl1 =>
        simp only []
        exact ih nl1 (some x) (i + 1) (j + 1) (by omega) (by omega)

/-- a prefix of a successfully verified list is successfully verified -/
theorem verifyLoop_prefix_ok {env : Env} {cfg : Cfg} {now : Int} {lastHost : List Block} {xs ys : List Block}
    {nl out : Ledger} {prev : Option Block} {i : Nat}
    (h : verifyLoop env cfg now lastHost nl prev (xs ++ ys) i = .ok out) :
    ∃ nl1, verifyLoop env cfg now lastHost nl prev xs i = .ok nl1 ∧
      verifyLoop env cfg now lastHost nl1 ((xs.getLast?).or prev) ys (i + xs.length) = .ok out := by
  rw [agree_verifyLoop_append] at h
  cases hx : verifyLoop env cfg now lastHost nl prev xs i with
  | error e => rw [hx] at h; cases h
  | ok nl1 => rw [hx] at h; exact ⟨nl1, rfl, h⟩

/-- the probe `AddBlock(next, nil, nil)` succeeds on a similar ledger -/
theorem addBlock_probe_sim {env : Env} {a b fin : Ledger} (h : LSim a b) (ts : Int)
    (ha : a.addBlock env ts [] [] = .ok fin) : ∃ fin', b.addBlock env ts [] [] = .ok fin' := by
  obtain ⟨hat, c, hc, _⟩ := addBlock_inv ha
  have hlt : b.lastTs = a.lastTs := by unfold lastTs; rw [h.1]
  have hat' : b.blocks = [] ∨ b.lastTs < ts := by rw [← h.1, hlt]; exact hat
  rw [addBlock_of_after_tip hat']
  -- confirmLast on b
  unfold confirmLast at hc ⊢
  rw [← h.1, ← h.2.1]
  cases hl : a.blocks.getLast? with
  | none => simp
  | some last =>
    rw [hl] at hc
    simp only [] at hc ⊢
    cases hup : a.utxos.update last.txs last.ts with
    | error e => rw [hup] at hc; cases hc
    | ok u' => simp

/-- the probe succeeds when the next loop step (an `addBlockRaw`) did -/
theorem addBlock_probe_of_raw {env : Env} {cfg : Cfg} {a a1 : Ledger} {x : Block} (hI : 0 < cfg.interval)
    (h : a.addBlockRaw x = .ok a1) : ∃ fin, a.addBlock env (a.lastTs + cfg.interval) [] [] = .ok fin := by
  have hat : a.blocks = [] ∨ a.lastTs < a.lastTs + cfg.interval := Or.inr (by omega)
  rw [addBlock_of_after_tip hat]
  unfold addBlockRaw at h
  unfold confirmLast
  cases hl : a.blocks.getLast? with
  | none => simp
  | some last =>
    rw [hl] at h
    simp only [] at h ⊢
    cases hup : a.utxos.update last.txs last.ts with
    | error e => rw [hup] at h; cases h
    | ok u' => simp

end Ru

namespace Ru
open Ledger

/-- **from full to incremental verification.**  `C` is acceptable from height 0 (every block verified: no host block
    to compare with); a derived host holding the first `k ≥ 2` blocks of `C` accepts the window
    `tip :: W'` (`W'` any prefix of the blocks of `C` above its tip) in incremental mode. -/
theorem verify_window_of_full (env : Env) (cfg : Cfg) (hI : 0 < cfg.interval) (anyhost host : Ledger)
    (old : List Block) (tip : Block) (W' R : List Block) (now : Int)
    (hold : old ≠ [])
    (hb : host.blocks = old ++ [tip]) (hd : Derived host)
    (hfull : verify env cfg anyhost [] ((old ++ [tip]) ++ (W' ++ R)) [] now = .ok ((old ++ [tip]) ++ (W' ++ R))) :
    verify env cfg host [tip] (tip :: W') old now = .ok (tip :: W') := by
  -- the full run
  obtain ⟨_, nlC, fin, hloop, hprobe⟩ := verify_inv env cfg anyhost [] _ [] _ now hfull
  simp only [List.isEmpty_nil, if_true, List.getLast?_nil] at hloop
  obtain ⟨nl1, h1, h2⟩ := verifyLoop_prefix_ok hloop
  have hlast1 : (old ++ [tip]).getLast? = some tip := by simp
  rw [hlast1] at h2
  simp only [Option.some_or, Nat.zero_add] at h2
  obtain ⟨hb1, hr1⟩ := verifyLoop_replays env cfg now [] _ nl1 none _ h1
  have e0 : (⟨[], UtxoReg.empty, AddrReg.empty⟩ : Ledger).conf = Conf.empty := rfl
  rw [e0] at hr1
  simp only [List.nil_append] at hb1
  -- the host's state is the state of the full run after `old ++ [tip]`
  have hconf : nl1.conf = host.conf := by
    unfold Derived at hd
    rw [hb] at hd
    rw [hd] at hr1
    injection hr1 with hr1
    exact hr1.symm
  have hu : nl1.utxos = host.utxos := congrArg Conf.utxos hconf
  have hreg : nl1.reg.registered = host.reg.registered := congrArg Conf.registered hconf
  -- the hash link of the tip
  have hlink : tip.prevHash = SL.prevHashOpt env old.getLast? := by
    obtain ⟨nl0, h0, h0'⟩ := verifyLoop_prefix_ok h1
    simp only [Option.or_none, Nat.zero_add] at h0'
    exact (SL.verifyLoop_cons_ok h0').1
  -- the blocks above the tip
  obtain ⟨nl2, h3, h4⟩ := verifyLoop_prefix_ok h2
  have hk : (old ++ [tip]).length ≠ 0 := by simp
  rw [verifyLoop_index env cfg now tip W' nl1 (some tip) _ 1 hk (by omega)] at h3
  -- the incremental run
  rw [SL.verify_eq]
  have hne : old.isEmpty = false := by
    cases old with
    | nil => exact absurd rfl hold
    | cons _ _ => rfl
  have hfork : SL.forkCond [tip] (tip :: W') = false := by simp [SL.forkCond]
  simp only [hne, hfork, Bool.false_and, Bool.not_false, Bool.and_false, Bool.false_eq_true, if_false]
  rw [verifyLoop_cons]
  have hcheck : loopCheck env cfg now [tip] ⟨old, host.utxos, host.reg⟩ old.getLast? tip 0 = .ok () := by
    unfold loopCheck
    cases hg : old.getLast? with
    | none =>
      rw [hg] at hlink
      simp only [SL.prevHashOpt] at hlink
      simp [hlink]
    | some q =>
      rw [hg] at hlink
      simp only [SL.prevHashOpt] at hlink
      simp [hlink]
  rw [hcheck]
  simp only [loopAppend, beq_self_eq_true, if_true]
  have hs1 : LSim nl1 ⟨old ++ [tip], host.utxos, host.reg⟩ := ⟨hb1, hu, hreg⟩
  obtain ⟨b2, hb2, hs2⟩ := verifyLoop_sim env cfg now [tip] W' nl1 _ nl2 (some tip) 1 hs1 h3
  simp only [Nat.zero_add]
  rw [hb2]
  simp only []
  -- the probe
  have hprobe2 : ∃ f, nl2.addBlock env (nl2.lastTs + cfg.interval) [] [] = .ok f := by
    cases R with
    | nil =>
      simp only [verifyLoop] at h4
      injection h4 with h4
      subst h4
      exact ⟨fin, hprobe⟩
    | cons r R' =>
      obtain ⟨nl3, ha3, _⟩ := verifyLoop_cons_ok h4
      unfold loopAppend at ha3
      have : ((old ++ [tip]).length + W'.length == 0) = false := by simp
      rw [this] at ha3
      exact addBlock_probe_of_raw hI ha3
  obtain ⟨f, hf⟩ := hprobe2
  have hlt : b2.lastTs = nl2.lastTs := by unfold lastTs; rw [hs2.1]
  obtain ⟨f', hf'⟩ := addBlock_probe_sim hs2 _ hf
  rw [hlt, hf']

/-- comparing with host blocks only SKIPS checks: what passes with no host block to compare passes with any -/
theorem loopCheck_skip {env : Env} {cfg : Cfg} {now : Int} (lastHost : List Block) {nl : Ledger} {prev : Option Block}
    {b : Block} {i : Nat} (h : loopCheck env cfg now [] nl prev b i = .ok ()) :
    loopCheck env cfg now lastHost nl prev b i = .ok () := by
  rw [agree_loopCheck_eq] at h ⊢
  by_cases c : b.prevHash ≠ SL.prevHashOpt env prev
  · rw [if_pos c] at h; cases h
  · rw [if_neg c] at h ⊢
    have e1 : ([] : List Block)[i]? = none := by simp
    rw [e1] at h
    simp only [Bool.true_and] at h
    cases hcond : ((match lastHost[i]? with | none => true | some hb => env.hash b != env.hash hb) && !prev.isNone) with
    | false => simp
    | true =>
      have hprev : (!prev.isNone) = true := by
        rw [Bool.and_eq_true] at hcond
        exact hcond.2
      rw [hprev] at h
      simpa using h

theorem verifyLoop_skip (env : Env) (cfg : Cfg) (now : Int) (lastHost : List Block) :
    ∀ (rest : List Block) (nl out : Ledger) (prev : Option Block) (i : Nat),
      verifyLoop env cfg now [] nl prev rest i = .ok out → verifyLoop env cfg now lastHost nl prev rest i = .ok out := by
  intro rest
  induction rest with
  | nil => intro nl out prev i h; simpa [verifyLoop] using h
  | cons x xs ih =>
    intro nl out prev i h
    rw [verifyLoop_cons] at h ⊢
    cases hc : loopCheck env cfg now [] nl prev x i with
    | error e => rw [hc] at h; cases h
    | ok u =>
      cases u
      rw [hc] at h
      rw [loopCheck_skip lastHost hc]
      simp only [] at h ⊢
      cases ha : loopAppend nl x i with
      | error e => rw [ha] at h; cases h
      | ok nl1 =>
        rw [ha] at h
        simp only [] at h ⊢
        exact ih nl1 out (some x) (i + 1) h

/-- **a chain acceptable from height 0 to a verifier that checks every block is acceptable from height 0 to every
    verifier**, whatever its own chain and state (full mode starts from the empty state and reads nothing of the host;
    its host blocks only make it skip checks) -/
theorem verify_full_any {env : Env} {cfg : Cfg} {host : Ledger} {nb v : List Block} {now : Int}
    (host' : Ledger) (lastHost : List Block)
    (h : verify env cfg host [] nb [] now = .ok v) : verify env cfg host' lastHost nb [] now = .ok v := by
  rw [SL.verify_eq] at h ⊢
  simp only [List.isEmpty_nil, Bool.true_and, Bool.not_true, Bool.false_and, Bool.false_eq_true, if_false, if_true,
    List.getLast?_nil] at h ⊢
  split at h
  · cases h
  · rename_i hlen
    rw [if_neg hlen]
    cases hl : verifyLoop env cfg now [] ⟨[], .empty, .empty⟩ none nb 0 with
    | error e => rw [hl] at h; cases h
    | ok nl =>
      rw [hl] at h
      rw [verifyLoop_skip env cfg now lastHost nb _ nl none 0 hl]
      exact h

/-- **a prefix (of at least two blocks) of a chain acceptable from height 0 is acceptable from height 0** — what a
    neighbour serves for `GetBlocks(0)` when its chain is longer than a page -/
theorem verify_prefix_of_full {env : Env} {cfg : Cfg} (hI : 0 < cfg.interval) {host : Ledger} {xs ys : List Block}
    {now : Int} (hlen : 2 ≤ xs.length)
    (h : verify env cfg host [] (xs ++ ys) [] now = .ok (xs ++ ys)) :
    verify env cfg host [] xs [] now = .ok xs := by
  obtain ⟨_, nlC, fin, hloop, hprobe⟩ := verify_inv env cfg host [] _ [] _ now h
  simp only [List.isEmpty_nil, if_true, List.getLast?_nil] at hloop
  obtain ⟨nl1, h1, h2⟩ := verifyLoop_prefix_ok hloop
  rw [SL.verify_eq]
  have hdec : decide (xs.length < 2) = false := by
    rw [decide_eq_false_iff_not]; omega
  simp only [hdec, List.isEmpty_nil, Bool.not_true, Bool.false_and, Bool.and_false, Bool.false_eq_true, if_false, if_true,
    List.getLast?_nil]
  rw [h1]
  simp only []
  have hp : ∃ f, nl1.addBlock env (nl1.lastTs + cfg.interval) [] [] = .ok f := by
    cases ys with
    | nil =>
      simp only [verifyLoop] at h2
      injection h2 with h2
      subst h2
      exact ⟨fin, hprobe⟩
    | cons r R' =>
      obtain ⟨nl3, ha3, _⟩ := verifyLoop_cons_ok h2
      unfold loopAppend at ha3
      have : (0 + xs.length == 0) = false := by
        rw [Nat.zero_add]
        cases hx : xs.length with
        | zero => omega
        | succ m => rfl
      rw [this] at ha3
      exact addBlock_probe_of_raw hI ha3
  obtain ⟨f, hf⟩ := hp
  rw [hf]

end Ru
