/-
  Core/Lemmas/Fee.lean — helper lemmas for the fee rule (CalculateFee), the transactions loop of verifyBlock,
  the timestamp-independence of UpdateUtxos' success, and the greedy specification of the Validate loop.
  Core Lean only.
-/
import Core.Pool
open Std

namespace Ru

/-! ## exact sums -/

/-- exact (Nat) sum of the output values of a transaction -/
def outSum (tx : Tx) : Nat := (tx.outputs.map (·.value)).sum

/-- exact (Nat) value of a list of consumed outputs at time `ts` -/
def inSum (val : Nat → Bool → Int → Nat) (ts : Int) (us : List Utxo) : Nat :=
  (us.map (fun u => val u.out.value u.out.yielding (ts - u.created))).sum

/-- the fee `CalculateFee` returns, 0 when it refuses -/
def feeOf (val : Nat → Bool → Int → Nat) (minFee : Nat) (r : UtxoReg) (ts : Int) (tx : Tx) : Nat :=
  match r.calculateFee val minFee tx ts with
  | .ok f => f
  | .error _ => 0

theorem fee_isOk_iff_exists {ε α} (x : Except ε α) : x.isOk = true ↔ ∃ a, x = .ok a := by
  cases x <;> simp [Except.isOk, Except.toBool]

theorem fee_isOk_false_iff_exists {ε α} (x : Except ε α) : x.isOk = false ↔ ∃ e, x = .error e := by
  cases x <;> simp [Except.isOk, Except.toBool]

theorem feeOf_eq_of_ok {val minFee r ts tx fee} (h : UtxoReg.calculateFee val minFee r tx ts = .ok fee) :
    feeOf val minFee r ts tx = fee := by
  simp [feeOf, h]

namespace UtxoReg

/-! ## the outputs loop -/

theorem sumOutputs_ok_iff (os : List Output) (acc v : Nat) (hacc : acc < U64) :
    sumOutputs os acc = .ok v ↔ v = acc + (os.map (·.value)).sum ∧ acc + (os.map (·.value)).sum < U64 := by
  induction os generalizing acc with
  | nil => simp [sumOutputs]; omega
  | cons o os ih =>
    unfold sumOutputs
    by_cases h : acc + o.value ≥ U64
    · simp [h]; omega
    · have h' : acc + o.value < U64 := by omega
      simp only [h, if_false]
      rw [ih _ h']
      simp only [List.map_cons, List.sum_cons]
      omega

theorem sumOutputs_error_of_ge (os : List Output) (acc : Nat) (hacc : acc < U64)
    (h : acc + (os.map (·.value)).sum ≥ U64) : ∃ e, sumOutputs os acc = .error e := by
  cases hr : sumOutputs os acc with
  | error e => exact ⟨e, rfl⟩
  | ok v => have := (sumOutputs_ok_iff os acc v hacc).mp hr; omega

/-! ## the inputs loop -/

theorem sumInputs_ok_iff (val : Nat → Bool → Int → Nat) (byId : TreeMap String (List (Option Utxo))) (ts : Int)
    (is : List Input) (acc v : Nat) (hacc : acc < U64) :
    sumInputs val byId ts is acc = .ok v ↔
      ∃ us : List Utxo, is.map (lookup byId) = us.map Except.ok ∧ us.map (·.out.address) = is.map (·.address) ∧
        v = acc + inSum val ts us ∧ acc + inSum val ts us < U64 := by
  induction is generalizing acc with
  | nil =>
    simp only [sumInputs, List.map_nil, Except.ok.injEq]
    constructor
    · intro h; exact ⟨[], by simp [inSum]; omega⟩
    · rintro ⟨us, h1, _, h3, _⟩
      have : us = [] := by simpa using h1.symm
      subst this; simp [inSum] at h3; omega
  | cons i is ih =>
    unfold sumInputs
    cases hl : lookup byId i with
    | error e =>
      simp only [reduceCtorEq, false_iff]
      rintro ⟨us, h1, _⟩
      cases us with
      | nil => simp at h1
      | cons u us => simp [hl] at h1
    | ok u =>
      dsimp only
      by_cases ha : u.out.address ≠ i.address
      · rw [if_pos ha]
        simp only [reduceCtorEq, false_iff]
        rintro ⟨us, h1, h2, _⟩
        cases us with
        | nil => simp at h1
        | cons u' us =>
          simp [hl] at h1
          simp at h2
          exact ha (h1.1 ▸ h2.1)
      · have ha' : u.out.address = i.address := by simpa using ha
        rw [if_neg ha]
        by_cases ho : acc + val u.out.value u.out.yielding (ts - u.created) ≥ U64
        · rw [if_pos ho]
          simp only [reduceCtorEq, false_iff]
          rintro ⟨us, h1, _, _, h4⟩
          cases us with
          | nil => simp at h1
          | cons u' us =>
            simp [hl] at h1
            obtain ⟨rfl, _⟩ := h1
            simp [inSum] at h4
            omega
        · rw [if_neg ho]
          rw [ih _ (by omega)]
          constructor
          · rintro ⟨us, h1, h2, h3, h4⟩
            refine ⟨u :: us, by simp [hl, h1], by simp [ha', h2], ?_, ?_⟩
            · simp only [inSum, List.map_cons, List.sum_cons] at *; omega
            · simp only [inSum, List.map_cons, List.sum_cons] at *; omega
          · rintro ⟨us, h1, h2, h3, h4⟩
            cases us with
            | nil => simp at h1
            | cons u' us =>
              simp [hl] at h1
              obtain ⟨rfl, h1⟩ := h1
              simp at h2
              refine ⟨us, h1, h2.2, ?_, ?_⟩
              · simp only [inSum, List.map_cons, List.sum_cons] at *; omega
              · simp only [inSum, List.map_cons, List.sum_cons] at *; omega

/-- the list of consumed outputs is determined by the inputs -/
theorem lookups_unique {byId : TreeMap String (List (Option Utxo))} {is : List Input} {us vs : List Utxo}
    (h1 : is.map (lookup byId) = us.map Except.ok) (h2 : is.map (lookup byId) = vs.map Except.ok) : us = vs := by
  have : us.map (Except.ok (ε := String)) = vs.map Except.ok := h1.symm.trans h2
  clear h1 h2
  induction us generalizing vs with
  | nil => cases vs <;> simp_all
  | cons u us ih =>
    cases vs with
    | nil => simp at this
    | cons v vs =>
      simp only [List.map_cons, List.cons.injEq, Except.ok.injEq] at this
      rw [this.1, ih this.2]

/-! ## CalculateFee -/

/-- complete characterisation of a successful `CalculateFee` in exact arithmetic -/
theorem calculateFee_ok_iff (val : Nat → Bool → Int → Nat) (minFee : Nat) (r : UtxoReg) (tx : Tx) (ts : Int) (fee : Nat) :
    calculateFee val minFee r tx ts = .ok fee ↔
      ∃ us : List Utxo, tx.inputs.map (lookup r.byId) = us.map Except.ok ∧
        us.map (·.out.address) = tx.inputs.map (·.address) ∧
        inSum val ts us = fee + outSum tx ∧ minFee ≤ fee ∧ inSum val ts us < U64 := by
  have h0 : (0 : Nat) < U64 := by decide
  unfold calculateFee
  constructor
  · intro h
    cases hi : sumInputs val r.byId ts tx.inputs 0 with
    | error e => simp [hi] at h
    | ok inV =>
      cases ho : sumOutputs tx.outputs 0 with
      | error e => simp [hi, ho] at h
      | ok outV =>
        simp only [hi, ho] at h
        obtain ⟨us, h1, h2, h3, h4⟩ := (sumInputs_ok_iff val r.byId ts tx.inputs 0 inV h0).mp hi
        obtain ⟨h5, h6⟩ := (sumOutputs_ok_iff tx.outputs 0 outV h0).mp ho
        split at h
        · simp at h
        · split at h
          · simp at h
          · injection h with h
            exact ⟨us, h1, h2, by simp only [outSum]; omega, by omega, by omega⟩
  · rintro ⟨us, h1, h2, h3, h4, h5⟩
    have hi : sumInputs val r.byId ts tx.inputs 0 = .ok (inSum val ts us) :=
      (sumInputs_ok_iff val r.byId ts tx.inputs 0 _ h0).mpr ⟨us, h1, h2, by omega, by omega⟩
    have ho : sumOutputs tx.outputs 0 = .ok (outSum tx) :=
      (sumOutputs_ok_iff tx.outputs 0 _ h0).mpr ⟨by simp [outSum], by simp only [outSum] at h3; omega⟩
    simp only [hi, ho]
    rw [if_neg (by omega), if_neg (by omega)]
    congr 1; omega

/-- a transaction without inputs never passes the fee rule when the minimal fee is positive -/
theorem calculateFee_noInputs_error (val : Nat → Bool → Int → Nat) (minFee : Nat) (hmin : 1 ≤ minFee) (r : UtxoReg)
    (tx : Tx) (ts : Int) (h : tx.hasReward = true) : ∃ e, calculateFee val minFee r tx ts = .error e := by
  cases hc : calculateFee val minFee r tx ts with
  | error e => exact ⟨e, rfl⟩
  | ok fee =>
    obtain ⟨us, h1, _, h3, h4, _⟩ := (calculateFee_ok_iff val minFee r tx ts fee).mp hc
    have hin : tx.inputs = [] := by simpa [Tx.hasReward] using h
    rw [hin] at h1
    have : us = [] := by simpa using h1.symm
    subst this
    simp [inSum] at h3
    omega

end UtxoReg

/-! ## the transactions loop of verifyBlock -/

namespace Ledger

/-- what `verifyBlock` checks of one ordinary transaction -/
def txOk (env : Env) (cfg : Cfg) (l : Ledger) (b : Block) (prevTs : Int) (t : Tx) : Prop :=
  prevTs ≤ t.ts ∧ t.ts ≤ b.ts ∧ t.inputs.all (·.sigValid) = true ∧ yieldsRegistered l.reg b.addedL t = true ∧
    ∃ fee, l.utxos.calculateFee env.val cfg.minFee t b.ts = .ok fee

theorem fee_verifyTxs_spec (env : Env) (cfg : Cfg) (l : Ledger) (b : Block) (prevTs : Int) (txs : List Tx)
    (rewarded : Bool) (reward total : Nat) (rw' : Bool) (rv' tot' : Nat)
    (h : verifyTxs env cfg l b prevTs txs rewarded reward total = .ok (rw', rv', tot')) :
    (∀ t ∈ txs, t.hasReward = false → txOk env cfg l b prevTs t) ∧
    ((txs.filter (·.hasReward)).length + (if rewarded then 1 else 0) = (if rw' then 1 else 0)) ∧
    tot' ≤ total + ((txs.filter (fun t => !t.hasReward)).map (feeOf env.val cfg.minFee l.utxos b.ts)).sum ∧
    rv' = (match txs.filter (·.hasReward) with | [] => reward | t :: _ => t.rewardValue) := by
  induction txs generalizing rewarded reward total with
  | nil =>
    simp only [verifyTxs, Except.ok.injEq, Prod.mk.injEq] at h
    obtain ⟨rfl, rfl, rfl⟩ := h
    simp
  | cons t ts ih =>
    unfold verifyTxs at h
    by_cases hr : t.hasReward = true
    · rw [if_pos hr] at h
      by_cases hrw : rewarded = true
      · rw [if_pos hrw] at h; cases h
      · rw [if_neg hrw] at h
        have hrw' : rewarded = false := by simpa using hrw
        subst hrw'
        obtain ⟨h1, h2, h3, h4⟩ := ih _ _ _ h
        have hF : ts.filter (·.hasReward) = [] := by
          have : (ts.filter (·.hasReward)).length = 0 := by
            cases rw' <;> simp at h2 ⊢
            exact h2
          exact List.eq_nil_of_length_eq_zero this
        refine ⟨?_, ?_, ?_, ?_⟩
        · intro x hx hxr
          rcases List.mem_cons.mp hx with rfl | hx
          · simp [hr] at hxr
          · exact h1 x hx hxr
        · simp only [List.filter_cons, hr, if_true, List.length_cons] at h2 ⊢
          simp at h2 ⊢; omega
        · simpa [List.filter_cons, hr] using h3
        · simp only [List.filter_cons, hr, if_true]
          rw [hF] at h4; exact h4
    · rw [if_neg hr] at h
      have hr' : t.hasReward = false := by simpa using hr
      by_cases c1 : b.ts < t.ts
      · rw [if_pos c1] at h; cases h
      rw [if_neg c1] at h
      by_cases c2 : t.ts < prevTs
      · rw [if_pos c2] at h; cases h
      rw [if_neg c2] at h
      by_cases c3 : (!(t.inputs.all (·.sigValid))) = true
      · rw [if_pos c3] at h; cases h
      rw [if_neg c3] at h
      by_cases c4 : (!(yieldsRegistered l.reg b.addedL t)) = true
      · rw [if_pos c4] at h; cases h
      rw [if_neg c4] at h
      cases hf : l.utxos.calculateFee env.val cfg.minFee t b.ts with
      | error e => rw [hf] at h; cases h
      | ok fee =>
        rw [hf] at h
        dsimp only at h
        obtain ⟨h1, h2, h3, h4⟩ := ih _ _ _ h
        refine ⟨?_, ?_, ?_, ?_⟩
        · intro x hx hxr
          rcases List.mem_cons.mp hx with rfl | hx
          · exact ⟨by omega, by omega, by simpa using c3, by simpa using c4, fee, hf⟩
          · exact h1 x hx hxr
        · simpa [List.filter_cons, hr'] using h2
        · simp only [List.filter_cons, hr', Bool.not_false, if_true, List.map_cons, List.sum_cons,
            feeOf_eq_of_ok hf]
          have : (total + fee) % U64 ≤ total + fee := Nat.mod_le _ _
          omega
        · simpa [List.filter_cons, hr'] using h4

/-- a block dated 0 is never accepted -/
theorem fee_verifyBlock_ts_ne_zero {env : Env} {cfg : Cfg} {l : Ledger} {b : Block} {prevTs now : Int}
    (h : verifyBlock env cfg l b prevTs now = .ok ()) : b.ts ≠ 0 := by
  unfold verifyBlock at h
  by_cases c1 : b.ts ≠ prevTs + cfg.interval
  · rw [if_pos c1] at h; cases h
  rw [if_neg c1] at h
  by_cases c0 : (b.ts == 0) = true
  · rw [if_pos c0] at h; cases h
  · simpa using c0

/-- everything a successful `verifyBlock` establishes -/
theorem fee_verifyBlock_ok {env : Env} {cfg : Cfg} {l : Ledger} {b : Block} {prevTs now : Int}
    (h : verifyBlock env cfg l b prevTs now = .ok ()) :
    b.ts = prevTs + cfg.interval ∧ b.ts ≤ now ∧
    (∃ rt, b.txs.filter (·.hasReward) = [rt] ∧
      rt.rewardValue ≤ ((b.txs.filter (fun t => !t.hasReward)).map (feeOf env.val cfg.minFee l.utxos b.ts)).sum) ∧
    ∀ t ∈ b.txs, t.hasReward = false → txOk env cfg l b prevTs t := by
  unfold verifyBlock at h
  by_cases c1 : b.ts ≠ prevTs + cfg.interval
  · rw [if_pos c1] at h; cases h
  rw [if_neg c1] at h
  by_cases c0 : (b.ts == 0) = true
  · rw [if_pos c0] at h; cases h
  rw [if_neg c0] at h
  by_cases c2 : b.ts > now
  · rw [if_pos c2] at h; cases h
  rw [if_neg c2] at h
  cases hv : verifyTxs env cfg l b prevTs b.txs false 0 0 with
  | error e => rw [hv] at h; cases h
  | ok res =>
    obtain ⟨rw', rv', tot'⟩ := res
    rw [hv] at h
    dsimp only at h
    obtain ⟨h1, h2, h3, h4⟩ := fee_verifyTxs_spec env cfg l b prevTs b.txs false 0 0 rw' rv' tot' hv
    cases rw' with
    | false => simp at h
    | true =>
      simp only [Bool.not_true, Bool.false_eq_true, if_false] at h
      by_cases c3 : rv' > tot'
      · rw [if_pos c3] at h; cases h
      simp only [Bool.false_eq_true, if_false, if_true, Nat.add_zero] at h2
      refine ⟨by simpa using c1, by omega, ?_, h1⟩
      cases hF : b.txs.filter (·.hasReward) with
      | nil => rw [hF] at h2; simp at h2
      | cons rt rest =>
        rw [hF] at h2 h4
        have : rest = [] := by simpa using h2
        subst this
        refine ⟨rt, rfl, ?_⟩
        simp only at h4
        omega

end Ledger
namespace UtxoReg

/-! ## success of UpdateUtxos does not depend on the timestamp -/

/-- forget the creation time -/
def ztime (u : Utxo) : Utxo := { u with created := 0 }

def viewI (m : TreeMap String (List (Option Utxo))) (k : String) : Option (List (Option Utxo)) :=
  (m[k]?).map (List.map (Option.map ztime))

def viewA (m : TreeMap String (List Utxo)) (k : String) : Option (List Utxo) :=
  (m[k]?).map (List.map ztime)

/-- equal up to creation times -/
def TSim (a b : UtxoReg) : Prop :=
  (∀ k, viewI a.byId k = viewI b.byId k) ∧ (∀ k, viewA a.byAddr k = viewA b.byAddr k)

def TSimE : Except String UtxoReg → Except String UtxoReg → Prop
  | .ok a, .ok b => TSim a b
  | .error _, .error _ => True
  | _, _ => False

theorem TSim.refl (a : UtxoReg) : TSim a a := ⟨fun _ => rfl, fun _ => rfl⟩

theorem ztime_eq {u v : Utxo} (h : ztime u = ztime v) : u.out = v.out ∧ u.txId = v.txId ∧ u.index = v.index := by
  cases u; cases v
  simp only [ztime, Utxo.mk.injEq] at h
  simp [h]

theorem map_eraseFirst_ztime (p : Utxo → Bool) (hp : ∀ x, p (ztime x) = p x) (l : List Utxo) :
    (eraseFirst p l).map ztime = eraseFirst p (l.map ztime) := by
  induction l with
  | nil => simp [eraseFirst]
  | cons x xs ih =>
    simp only [eraseFirst, List.map_cons, hp]
    split <;> simp [ih]

theorem countYielding_ztime (l : List Utxo) : countYielding (l.map ztime) = countYielding l := by
  induction l with
  | nil => rfl
  | cons x xs ih =>
    simp only [countYielding, List.map_cons, List.filter_cons] at ih ⊢
    have : (ztime x).out.yielding = x.out.yielding := rfl
    rw [this]
    split <;> simp [ih]

theorem fee_incomesOk_iff (m : TreeMap String (List Utxo)) :
    incomesOk m = true ↔ ∀ (k : String) (v : List Utxo), m[k]? = some v → countYielding v ≤ 1 := by
  unfold incomesOk
  rw [List.all_eq_true]
  constructor
  · intro h k v hk
    have := h (k, v) (TreeMap.mem_toList_iff_getElem?_eq_some.mpr hk)
    simpa using this
  · intro h kv hkv
    have := h kv.1 kv.2 (TreeMap.mem_toList_iff_getElem?_eq_some.mp hkv)
    simpa using this

theorem incomesOk_sim_imp {a b : TreeMap String (List Utxo)} (h : ∀ k, viewA a k = viewA b k)
    (ha : incomesOk a = true) : incomesOk b = true := by
  rw [fee_incomesOk_iff] at ha ⊢
  intro k v hk
  have hv := h k
  simp only [viewA, hk, Option.map_some] at hv
  cases hak : a[k]? with
  | none => simp [hak] at hv
  | some w =>
    simp only [hak, Option.map_some, Option.some.injEq] at hv
    have := ha k w hak
    rw [← countYielding_ztime, hv, countYielding_ztime] at this
    exact this

theorem incomesOk_sim {a b : UtxoReg} (h : TSim a b) : incomesOk a.byAddr = incomesOk b.byAddr := by
  cases ha : incomesOk a.byAddr with
  | true => exact (incomesOk_sim_imp h.2 ha).symm
  | false =>
    cases hb : incomesOk b.byAddr with
    | false => rfl
    | true =>
      have := incomesOk_sim_imp (fun k => (h.2 k).symm) hb
      rw [ha] at this; cases this

theorem mkUtxos_ztime (id : String) (t1 t2 : Int) (os : List Output) (j : Nat) :
    (mkUtxos id t1 os j).map ztime = (mkUtxos id t2 os j).map ztime := by
  induction os generalizing j with
  | nil => rfl
  | cons o os ih => simp [mkUtxos, ih, ztime]

theorem getD_of_viewA {a b : TreeMap String (List Utxo)} (h : ∀ k, viewA a k = viewA b k) (k : String) :
    (a[k]?.getD []).map ztime = (b[k]?.getD []).map ztime := by
  have := h k
  simp only [viewA] at this
  cases ha : a[k]? <;> cases hb : b[k]? <;> simp_all

theorem addByAddr_sim {a b : TreeMap String (List Utxo)} (us vs : List Utxo)
    (h : ∀ k, viewA a k = viewA b k) (huv : us.map ztime = vs.map ztime) :
    ∀ k, viewA (addByAddr a us) k = viewA (addByAddr b vs) k := by
  induction us generalizing a b vs with
  | nil =>
    have : vs = [] := by simpa using huv.symm
    subst this; simpa [addByAddr] using h
  | cons u us ih =>
    cases vs with
    | nil => simp at huv
    | cons v vs =>
      simp only [List.map_cons, List.cons.injEq] at huv
      obtain ⟨huv1, huv2⟩ := huv
      have hout := (ztime_eq huv1).1
      simp only [addByAddr]
      apply ih vs _ huv2
      intro k
      simp only [viewA, TreeMap.getElem?_insert, hout]
      split
      · simp only [Option.map_some, List.map_append, List.map_cons, List.map_nil, huv1]
        rw [getD_of_viewA h]
      · exact h k

theorem consume_sim {a b : UtxoReg} (h : TSim a b) (i : Input) : TSimE (consume a i) (consume b i) := by
  unfold consume
  have hk := h.1 i.txId
  simp only [viewI] at hk
  cases ha : a.byId[i.txId]? with
  | none =>
    cases hb : b.byId[i.txId]? with
    | none => simp [TSimE]
    | some s2 => simp [ha, hb] at hk
  | some s1 =>
    cases hb : b.byId[i.txId]? with
    | none => simp [ha, hb] at hk
    | some s2 =>
      simp only [ha, hb, Option.map_some, Option.some.injEq] at hk
      have hidx : (s1[i.index]?).map (Option.map ztime) = (s2[i.index]?).map (Option.map ztime) := by
        rw [← List.getElem?_map, ← List.getElem?_map, hk]
      dsimp only
      cases h1 : s1[i.index]? with
      | none =>
        cases h2 : s2[i.index]? with
        | none => simp [TSimE]
        | some o2 => simp [h1, h2] at hidx
      | some o1 =>
        cases h2 : s2[i.index]? with
        | none => simp [h1, h2] at hidx
        | some o2 =>
          simp only [h1, h2, Option.map_some, Option.some.injEq] at hidx
          cases o1 with
          | none =>
            cases o2 with
            | none => simp [TSimE]
            | some u2 => simp at hidx
          | some u1 =>
            cases o2 with
            | none => simp at hidx
            | some u2 =>
              simp only [Option.map_some, Option.some.injEq] at hidx
              have hout := (ztime_eq hidx).1
              simp only [TSimE]
              have hset : (s1.set i.index none).map (Option.map ztime) = (s2.set i.index none).map (Option.map ztime) := by
                simp [List.map_set, hk]
              have hany : (s1.set i.index none).any slotLive = (s2.set i.index none).any slotLive := by
                have e : ∀ l : List (Option Utxo), l.any slotLive = (l.map (Option.map ztime)).any slotLive := by
                  intro l
                  rw [List.any_map]
                  congr 1
                  funext s
                  cases s <;> rfl
                rw [e, hset, ← e]
              have hp : ∀ x : Utxo, (fun (x : Utxo) => x.txId == i.txId && x.index == i.index) (ztime x) =
                  (fun (x : Utxo) => x.txId == i.txId && x.index == i.index) x := fun _ => rfl
              have herase :
                  (eraseFirst (fun (x : Utxo) => x.txId == i.txId && x.index == i.index) (a.byAddr[u1.out.address]?.getD [])).map ztime =
                  (eraseFirst (fun (x : Utxo) => x.txId == i.txId && x.index == i.index) (b.byAddr[u2.out.address]?.getD [])).map ztime := by
                rw [map_eraseFirst_ztime _ hp, map_eraseFirst_ztime _ hp, hout, getD_of_viewA h.2]
              have hemp :
                  (eraseFirst (fun (x : Utxo) => x.txId == i.txId && x.index == i.index) (a.byAddr[u1.out.address]?.getD [])).isEmpty =
                  (eraseFirst (fun (x : Utxo) => x.txId == i.txId && x.index == i.index) (b.byAddr[u2.out.address]?.getD [])).isEmpty := by
                have e : ∀ l : List Utxo, l.isEmpty = (l.map ztime).isEmpty := by intro l; cases l <;> rfl
                rw [e, herase, ← e]
              constructor
              · intro k
                dsimp only
                rw [hany]
                split
                · simp only [viewI, TreeMap.getElem?_insert]
                  split
                  · simp [hset]
                  · exact h.1 k
                · simp only [viewI, TreeMap.getElem?_erase]
                  split
                  · rfl
                  · exact h.1 k
              · intro k
                dsimp only
                rw [hemp]
                split
                · simp only [viewA, TreeMap.getElem?_erase, hout]
                  split
                  · rfl
                  · exact h.2 k
                · simp only [viewA, TreeMap.getElem?_insert, hout]
                  split
                  · rw [hout] at herase; simp [herase]
                  · exact h.2 k


theorem consumeAll_sim {a b : UtxoReg} (h : TSim a b) (is : List Input) : TSimE (consumeAll a is) (consumeAll b is) := by
  induction is generalizing a b with
  | nil => simpa [consumeAll, TSimE] using h
  | cons i is ih =>
    have hc := consume_sim h i
    unfold consumeAll
    cases h1 : consume a i <;> cases h2 : consume b i <;> rw [h1, h2] at hc <;> simp only [TSimE] at hc ⊢
    exact ih hc

theorem contains_sim {a b : UtxoReg} (h : TSim a b) (k : String) : a.byId.contains k = b.byId.contains k := by
  have := h.1 k
  simp only [viewI] at this
  rw [TreeMap.contains_eq_isSome_getElem?, TreeMap.contains_eq_isSome_getElem?]
  cases ha : a.byId[k]? <;> cases hb : b.byId[k]? <;> simp_all

theorem applyTx_sim {a b : UtxoReg} (h : TSim a b) (tx : Tx) (t1 t2 : Int) :
    TSimE (applyTx a tx t1) (applyTx b tx t2) := by
  unfold applyTx
  rw [contains_sim h]
  split
  · simp [TSimE]
  split
  · simp [TSimE]
  apply consumeAll_sim
  split
  · constructor
    · intro k
      simp only [viewI, TreeMap.getElem?_insert]
      split
      · simp only [Option.map_some, List.map_map, Option.some.injEq]
        have := mkUtxos_ztime tx.id t1 t2 tx.outputs 0
        have e : ∀ l : List Utxo, List.map (Option.map ztime ∘ some) l = (l.map ztime).map some := by
          intro l; simp
        rw [e, e, this]
      · exact h.1 k
    · exact addByAddr_sim _ _ h.2 (mkUtxos_ztime tx.id t1 t2 tx.outputs 0)
  · exact h

theorem applyTxs_sim {a b : UtxoReg} (h : TSim a b) (txs : List Tx) (t1 t2 : Int) :
    TSimE (applyTxs a txs t1) (applyTxs b txs t2) := by
  induction txs generalizing a b with
  | nil => simpa [applyTxs, TSimE] using h
  | cons t ts ih =>
    have hc := applyTx_sim h t t1 t2
    unfold applyTxs
    cases h1 : applyTx a t t1 <;> cases h2 : applyTx b t t2 <;> rw [h1, h2] at hc <;> simp only [TSimE] at hc ⊢
    exact ih hc

theorem update_sim {a b : UtxoReg} (h : TSim a b) (txs : List Tx) (t1 t2 : Int) :
    TSimE (update a txs t1) (update b txs t2) := by
  have hc := applyTxs_sim h txs t1 t2
  unfold update
  cases h1 : applyTxs a txs t1 with
  | error e1 =>
    cases h2 : applyTxs b txs t2 with
    | error e2 => simp [TSimE]
    | ok y => rw [h1, h2] at hc; simp [TSimE] at hc
  | ok x =>
    cases h2 : applyTxs b txs t2 with
    | error e2 => rw [h1, h2] at hc; simp [TSimE] at hc
    | ok y =>
      rw [h1, h2] at hc
      simp only [TSimE] at hc
      dsimp only
      rw [incomesOk_sim hc]
      by_cases hi : incomesOk y.byAddr = true
      · rw [if_pos hi, if_pos hi]; exact hc
      · rw [if_neg hi, if_neg hi]; trivial

/-- whether `UpdateUtxos` succeeds does not depend on its timestamp argument -/
theorem update_isOk_indep_ts (r : UtxoReg) (txs : List Tx) (t1 t2 : Int) :
    (r.update txs t1).isOk = (r.update txs t2).isOk := by
  have := update_sim (TSim.refl r) txs t1 t2
  cases h1 : r.update txs t1 <;> cases h2 : r.update txs t2 <;> rw [h1, h2] at this <;>
    simp [TSimE, Except.isOk, Except.toBool] at this ⊢

end UtxoReg

/-! ## uint64 accumulation -/

/-- the Go accumulation `reward += fee` on uint64, from `start` -/
def wrapAdd (start : Nat) (fees : List Nat) : Nat := fees.foldl (fun a f => (a + f) % U64) start

theorem wrapAdd_mod (start : Nat) (fees : List Nat) : wrapAdd start fees % U64 = (start + fees.sum) % U64 := by
  induction fees generalizing start with
  | nil => simp [wrapAdd]
  | cons f fs ih =>
    simp only [wrapAdd, List.foldl_cons, List.sum_cons] at ih ⊢
    rw [ih, Nat.mod_add_mod, Nat.add_assoc]

theorem wrapAdd_lt (start : Nat) (fees : List Nat) (h : fees ≠ [] ∨ start < U64) : wrapAdd start fees < U64 := by
  induction fees generalizing start with
  | nil => simpa [wrapAdd] using h
  | cons f fs ih =>
    simp only [wrapAdd, List.foldl_cons] at ih ⊢
    exact ih _ (Or.inr (Nat.mod_lt _ (by decide)))

theorem wrapAdd_eq_mod (start : Nat) (fees : List Nat) (h : fees ≠ [] ∨ start < U64) :
    wrapAdd start fees = (start + fees.sum) % U64 := by
  rw [← wrapAdd_mod, Nat.mod_eq_of_lt (wrapAdd_lt start fees h)]

theorem wrapAdd_le (start : Nat) (fees : List Nat) : wrapAdd start fees ≤ start + fees.sum := by
  induction fees generalizing start with
  | nil => simp [wrapAdd]
  | cons f fs ih =>
    simp only [wrapAdd, List.foldl_cons, List.sum_cons] at ih ⊢
    have := ih ((start + f) % U64)
    have := Nat.mod_le (start + f) U64
    omega

theorem wrapAdd_exact (start : Nat) (fees : List Nat) (h : start + fees.sum < U64) :
    wrapAdd start fees = start + fees.sum := by
  have hs : start < U64 := by omega
  rw [wrapAdd_eq_mod start fees (Or.inr hs), Nat.mod_eq_of_lt h]

namespace Node

/-! ## the greedy specification of the Validate loop -/

/-- the tests `Validate` applies to one pooled transaction on the running copy -/
def keeps (env : Env) (cfg : Cfg) (confirmed : UtxoReg) (ts last next : Int) (copy : UtxoReg) (t : Tx) : Bool :=
  decide (last ≤ t.ts) && decide (t.ts ≤ ts) && t.inputs.all (·.sigValid) &&
    (copy.calculateFee env.val cfg.minFee t ts).isOk && (confirmed.calculateFee env.val cfg.minFee t ts).isOk &&
    (copy.update [t] next).isOk

/-- the running copy after a kept transaction -/
def advance (next : Int) (copy : UtxoReg) (t : Tx) : UtxoReg :=
  match copy.update [t] next with
  | .ok c => c
  | .error _ => copy

/-- greedy left-to-right filter: kept transactions (in order) and the final running copy -/
def greedy (env : Env) (cfg : Cfg) (confirmed : UtxoReg) (ts last next : Int) : List Tx → UtxoReg → List Tx × UtxoReg
  | [], copy => ([], copy)
  | t :: rest, copy =>
    if keeps env cfg confirmed ts last next copy t then
      ((t :: (greedy env cfg confirmed ts last next rest (advance next copy t)).1),
        (greedy env cfg confirmed ts last next rest (advance next copy t)).2)
    else greedy env cfg confirmed ts last next rest copy

theorem keeps_eq_true_iff (env : Env) (cfg : Cfg) (confirmed : UtxoReg) (ts last next : Int) (copy : UtxoReg) (t : Tx) :
    keeps env cfg confirmed ts last next copy t = true ↔
      last ≤ t.ts ∧ t.ts ≤ ts ∧ (∀ i ∈ t.inputs, i.sigValid = true) ∧
      (∃ f, copy.calculateFee env.val cfg.minFee t ts = .ok f) ∧
      (∃ f, confirmed.calculateFee env.val cfg.minFee t ts = .ok f) ∧
      (∃ c, copy.update [t] next = .ok c) := by
  simp only [keeps, Bool.and_eq_true, decide_eq_true_eq, List.all_eq_true, fee_isOk_iff_exists, and_assoc]

theorem keeps_eq_false_iff (env : Env) (cfg : Cfg) (confirmed : UtxoReg) (ts last next : Int) (copy : UtxoReg) (t : Tx) :
    keeps env cfg confirmed ts last next copy t = false ↔
      t.ts < last ∨ ts < t.ts ∨ (∃ i ∈ t.inputs, i.sigValid = false) ∨
      (∃ e, copy.calculateFee env.val cfg.minFee t ts = .error e) ∨
      (∃ e, confirmed.calculateFee env.val cfg.minFee t ts = .error e) ∨
      (∃ e, copy.update [t] next = .error e) := by
  simp only [keeps, Bool.and_eq_false_iff, decide_eq_false_iff_not, List.all_eq_false, fee_isOk_false_iff_exists,
    Bool.not_eq_true, Int.not_le, or_assoc]

theorem produceLoop_eq_greedy (env : Env) (cfg : Cfg) (confirmed : UtxoReg) (ts last next : Int)
    (perm : List Tx) (copy : UtxoReg) (reward : Nat) (kept : List Tx) :
    produceLoop env cfg confirmed ts last next perm copy reward kept =
      (kept ++ (greedy env cfg confirmed ts last next perm copy).1,
       wrapAdd reward ((greedy env cfg confirmed ts last next perm copy).1.map (feeOf env.val cfg.minFee confirmed ts)),
       (greedy env cfg confirmed ts last next perm copy).2) := by
  induction perm generalizing copy reward kept with
  | nil => simp [produceLoop, greedy, wrapAdd]
  | cons t rest ih =>
    unfold produceLoop greedy
    by_cases c1 : ts < t.ts
    · have hk : keeps env cfg confirmed ts last next copy t = false := by
        rw [keeps_eq_false_iff]; exact Or.inr (Or.inl c1)
      rw [if_pos c1, hk, ih]; rfl
    rw [if_neg c1]
    by_cases c2 : t.ts < last
    · have hk : keeps env cfg confirmed ts last next copy t = false := by
        rw [keeps_eq_false_iff]; exact Or.inl c2
      rw [if_pos c2, hk, ih]; rfl
    rw [if_neg c2]
    by_cases c3 : (!(t.inputs.all (·.sigValid))) = true
    · have hk : keeps env cfg confirmed ts last next copy t = false := by
        simp only [Bool.not_eq_true', List.all_eq_false] at c3
        rw [keeps_eq_false_iff]; exact Or.inr (Or.inr (Or.inl (by simpa using c3)))
      rw [if_pos c3, hk, ih]; rfl
    rw [if_neg c3]
    cases h4 : copy.calculateFee env.val cfg.minFee t ts with
    | error e =>
      have hk : keeps env cfg confirmed ts last next copy t = false := by
        rw [keeps_eq_false_iff]; exact Or.inr (Or.inr (Or.inr (Or.inl ⟨e, h4⟩)))
      rw [hk, ih]; rfl
    | ok f0 =>
      dsimp only
      cases h5 : confirmed.calculateFee env.val cfg.minFee t ts with
      | error e =>
        have hk : keeps env cfg confirmed ts last next copy t = false := by
          rw [keeps_eq_false_iff]; exact Or.inr (Or.inr (Or.inr (Or.inr (Or.inl ⟨e, h5⟩))))
        rw [hk, ih]; rfl
      | ok fee =>
        dsimp only
        cases h6 : copy.update [t] next with
        | error e =>
          have hk : keeps env cfg confirmed ts last next copy t = false := by
            rw [keeps_eq_false_iff]; exact Or.inr (Or.inr (Or.inr (Or.inr (Or.inr ⟨e, h6⟩))))
          rw [hk, ih]; rfl
        | ok copy' =>
          dsimp only
          have hk : keeps env cfg confirmed ts last next copy t = true := by
            rw [keeps_eq_true_iff]
            refine ⟨by omega, by omega, ?_, ⟨f0, h4⟩, ⟨fee, h5⟩, ⟨copy', h6⟩⟩
            simpa using c3
          have ha : advance next copy t = copy' := by simp [advance, h6]
          rw [hk, ih, ha]
          simp [wrapAdd, feeOf_eq_of_ok h5]


section greedy
variable (env : Env) (cfg : Cfg) (confirmed : UtxoReg) (ts last next : Int)

theorem greedy_cons_true {copy : UtxoReg} {t : Tx} (rest : List Tx)
    (h : keeps env cfg confirmed ts last next copy t = true) :
    greedy env cfg confirmed ts last next (t :: rest) copy =
      (t :: (greedy env cfg confirmed ts last next rest (advance next copy t)).1,
       (greedy env cfg confirmed ts last next rest (advance next copy t)).2) := by
  rw [greedy, if_pos h]

theorem greedy_cons_false {copy : UtxoReg} {t : Tx} (rest : List Tx)
    (h : keeps env cfg confirmed ts last next copy t = false) :
    greedy env cfg confirmed ts last next (t :: rest) copy = greedy env cfg confirmed ts last next rest copy := by
  rw [greedy, if_neg (by simp [h])]

theorem greedy_append (a b : List Tx) (copy : UtxoReg) :
    greedy env cfg confirmed ts last next (a ++ b) copy =
      ((greedy env cfg confirmed ts last next a copy).1 ++
        (greedy env cfg confirmed ts last next b (greedy env cfg confirmed ts last next a copy).2).1,
       (greedy env cfg confirmed ts last next b (greedy env cfg confirmed ts last next a copy).2).2) := by
  induction a generalizing copy with
  | nil => simp [greedy]
  | cons t rest ih =>
    cases hk : keeps env cfg confirmed ts last next copy t with
    | true => simp only [List.cons_append, greedy_cons_true _ _ _ _ _ _ _ hk, ih, List.cons_append]
    | false => simp only [List.cons_append, greedy_cons_false _ _ _ _ _ _ _ hk, ih]

theorem greedy_sublist (perm : List Tx) (copy : UtxoReg) :
    (greedy env cfg confirmed ts last next perm copy).1.Sublist perm := by
  induction perm generalizing copy with
  | nil => simp [greedy]
  | cons t rest ih =>
    cases hk : keeps env cfg confirmed ts last next copy t with
    | true => rw [greedy_cons_true _ _ _ _ _ _ _ hk]; exact (ih _).cons_cons t
    | false => rw [greedy_cons_false _ _ _ _ _ _ _ hk]; exact (ih _).cons t

/-- a kept transaction passed every test on the running copy at its turn -/
theorem greedy_mem {perm : List Tx} {copy : UtxoReg} {t : Tx}
    (h : t ∈ (greedy env cfg confirmed ts last next perm copy).1) :
    ∃ pre post, perm = pre ++ t :: post ∧
      keeps env cfg confirmed ts last next (greedy env cfg confirmed ts last next pre copy).2 t = true := by
  induction perm generalizing copy with
  | nil => simp [greedy] at h
  | cons x rest ih =>
    cases hk : keeps env cfg confirmed ts last next copy x with
    | true =>
      rw [greedy_cons_true _ _ _ _ _ _ _ hk] at h
      rcases List.mem_cons.mp h with rfl | h
      · exact ⟨[], rest, rfl, by simpa [greedy] using hk⟩
      · obtain ⟨pre, post, rfl, hp⟩ := ih h
        exact ⟨x :: pre, post, rfl, by rw [greedy_cons_true _ _ _ _ _ _ _ hk]; exact hp⟩
    | false =>
      rw [greedy_cons_false _ _ _ _ _ _ _ hk] at h
      obtain ⟨pre, post, rfl, hp⟩ := ih h
      exact ⟨x :: pre, post, rfl, by rw [greedy_cons_false _ _ _ _ _ _ _ hk]; exact hp⟩

/-- a position whose transaction passes every test on the running copy is kept there -/
theorem greedy_at_true (pre post : List Tx) (t : Tx) (copy : UtxoReg)
    (h : keeps env cfg confirmed ts last next (greedy env cfg confirmed ts last next pre copy).2 t = true) :
    (greedy env cfg confirmed ts last next (pre ++ t :: post) copy).1 =
      (greedy env cfg confirmed ts last next pre copy).1 ++ t ::
        (greedy env cfg confirmed ts last next post
          (advance next (greedy env cfg confirmed ts last next pre copy).2 t)).1 := by
  rw [greedy_append, greedy_cons_true _ _ _ _ _ _ _ h]

/-- a position whose transaction fails a test on the running copy contributes nothing and leaves the copy alone -/
theorem greedy_at_false (pre post : List Tx) (t : Tx) (copy : UtxoReg)
    (h : keeps env cfg confirmed ts last next (greedy env cfg confirmed ts last next pre copy).2 t = false) :
    greedy env cfg confirmed ts last next (pre ++ t :: post) copy =
      greedy env cfg confirmed ts last next (pre ++ post) copy := by
  rw [greedy_append, greedy_cons_false _ _ _ _ _ _ _ h, greedy_append]

/-- a transaction of `perm` that is not kept failed a test on the running copy at (each of) its turn(s) -/
theorem greedy_not_mem {perm : List Tx} {copy : UtxoReg} {t : Tx}
    (hnot : t ∉ (greedy env cfg confirmed ts last next perm copy).1) (pre post : List Tx)
    (hp : perm = pre ++ t :: post) :
    keeps env cfg confirmed ts last next (greedy env cfg confirmed ts last next pre copy).2 t = false := by
  cases hk : keeps env cfg confirmed ts last next (greedy env cfg confirmed ts last next pre copy).2 t with
  | false => rfl
  | true =>
    exfalso; apply hnot
    rw [hp, greedy_at_true _ _ _ _ _ _ _ _ _ _ hk]
    simp

theorem greedy_mem_keeps_parts {perm : List Tx} {copy : UtxoReg} {t : Tx}
    (h : t ∈ (greedy env cfg confirmed ts last next perm copy).1) :
    last ≤ t.ts ∧ t.ts ≤ ts ∧ (∀ i ∈ t.inputs, i.sigValid = true) ∧
      (∃ f, confirmed.calculateFee env.val cfg.minFee t ts = .ok f) := by
  obtain ⟨pre, post, _, hk⟩ := greedy_mem _ _ _ _ _ _ h
  rw [keeps_eq_true_iff] at hk
  exact ⟨hk.1, hk.2.1, hk.2.2.1, hk.2.2.2.2.1⟩

end greedy

end Node

/-! ## AddBlock after the copy replay -/

namespace Ledger

theorem fee_confirmLast_blocks {l c : Ledger} (h : l.confirmLast = .ok c) : c.blocks = l.blocks := by
  unfold confirmLast at h
  split at h
  · injection h with h; rw [← h]
  · split at h
    · cases h
    · injection h with h; rw [← h]

/-- on a non-empty chain `confirmLastBlock` succeeds exactly when the tip replays (at any timestamp) -/
theorem confirmLast_isOk_eq (l : Ledger) (t : Int) (hne : l.blocks ≠ []) :
    l.confirmLast.isOk = (l.utxos.update l.lastTxs t).isOk := by
  unfold confirmLast lastTxs
  cases hl : l.blocks.getLast? with
  | none => simp at hl; exact absurd hl hne
  | some b =>
    dsimp only
    rw [UtxoReg.update_isOk_indep_ts l.utxos b.txs t b.ts]
    cases l.utxos.update b.txs b.ts <;> rfl

/-- a production that passed the copy replay does not fail at AddBlock -/
theorem confirmLast_ok_of_update_ok (l : Ledger) (t : Int) (h : (l.utxos.update l.lastTxs t).isOk = true) :
    l.confirmLast.isOk = true := by
  by_cases hne : l.blocks = []
  · simp [confirmLast, hne, Except.isOk, Except.toBool]
  · rw [confirmLast_isOk_eq l t hne]; exact h

end Ledger
namespace Node

/-- start value of the reward accumulator: the genesis amount in a first block -/
def startReward (cfg : Cfg) (last : Int) : Nat := if last == 0 then cfg.genesis else 0

/-- the kept transactions of a tick, given the replayed copy -/
def keptOf (env : Env) (cfg : Cfg) (n : Node) (ts : Int) (perm : List Tx) (copy : UtxoReg) : List Tx :=
  (greedy env cfg n.led.utxos ts n.led.lastTs (n.led.lastTs + cfg.interval) perm copy).1

/-- the reward of a tick -/
def feesOf (env : Env) (cfg : Cfg) (n : Node) (ts : Int) (kept : List Tx) : Nat :=
  wrapAdd (startReward cfg n.led.lastTs) (kept.map (feeOf env.val cfg.minFee n.led.utxos ts))

/-- the block of a tick -/
def blockOf (env : Env) (cfg : Cfg) (n : Node) (c : Ledger) (ts : Int) (rewardId : String) (kept : List Tx) : Block :=
  Ledger.mkBlock env n.led c ts
    (kept ++ [rewardTx rewardId cfg.validator (n.led.lastTs == 0) ts (feesOf env cfg n ts kept)])
    ((if n.led.lastTs == 0 then [cfg.validator] else []) ++ yieldingAddrs kept)

/-- `Validate` as a closed formula -/
theorem fee_produce_eq (env : Env) (cfg : Cfg) (n : Node) (ts : Int) (perm : List Tx) (rewardId : String) :
    n.produce env cfg ts perm rewardId =
      if n.led.lastTs ≠ 0 ∧ (ts = n.led.lastTs ∨ ts > n.led.lastTs + cfg.interval) then none
      else
        match n.led.utxos.update n.led.lastTxs (n.led.lastTs + cfg.interval) with
        | .error _ => none
        | .ok copy =>
          if (!n.led.blocks.isEmpty && decide (ts ≤ n.led.lastTs)) = true then none
          else
          match n.led.confirmLast with
          | .error _ => none
          | .ok c =>
            some ⟨{ c with blocks := c.blocks ++ [blockOf env cfg n c ts rewardId (keptOf env cfg n ts perm copy)] }, []⟩ := by
  by_cases h0 : n.led.lastTs = 0
  · have hb : (n.led.lastTs == 0) = true := by simp [h0]
    have hcond : ¬(n.led.lastTs ≠ 0 ∧ (ts = n.led.lastTs ∨ ts > n.led.lastTs + cfg.interval)) := by simp [h0]
    rw [if_neg hcond]
    unfold produce
    dsimp only
    simp only [hb, Bool.not_true, Bool.false_and, Bool.false_eq_true, if_false, if_true]
    cases hu : n.led.utxos.update n.led.lastTxs (n.led.lastTs + cfg.interval) with
    | error e => rfl
    | ok copy =>
      dsimp only
      rw [produceLoop_eq_greedy]
      dsimp only
      unfold Ledger.addBlock
      by_cases hnt : (!n.led.blocks.isEmpty && decide (ts ≤ n.led.lastTs)) = true
      · rw [if_pos hnt, if_pos hnt]
      · rw [if_neg hnt, if_neg hnt]
        cases hc : n.led.confirmLast with
        | error e => rfl
        | ok c =>
          simp [blockOf, keptOf, feesOf, startReward, hb]
  · have hb : (n.led.lastTs == 0) = false := by simp [h0]
    by_cases h1 : n.led.lastTs = ts
    · rw [if_pos ⟨h0, Or.inl h1.symm⟩]
      unfold produce
      dsimp only
      have e1 : (n.led.lastTs == ts) = true := by simp [h1]
      simp only [hb, e1, Bool.not_false, Bool.and_self, if_true]
    by_cases h2 : ts > n.led.lastTs + cfg.interval
    · rw [if_pos ⟨h0, Or.inr h2⟩]
      unfold produce
      dsimp only
      have e2 : decide (ts > n.led.lastTs + cfg.interval) = true := by simpa using h2
      simp only [hb, e2, Bool.not_false, Bool.and_self, if_true, ite_self]
    have hcond : ¬(n.led.lastTs ≠ 0 ∧ (ts = n.led.lastTs ∨ ts > n.led.lastTs + cfg.interval)) := by
      intro ⟨_, h⟩; rcases h with h | h
      · exact h1 h.symm
      · exact h2 h
    rw [if_neg hcond]
    unfold produce
    dsimp only
    have e1 : (n.led.lastTs == ts) = false := by simp [h1]
    have e2 : decide (ts > n.led.lastTs + cfg.interval) = false := by simpa using h2
    simp only [hb, e1, e2, Bool.not_false, Bool.and_false, Bool.false_eq_true, if_false]
    cases hu : n.led.utxos.update n.led.lastTxs (n.led.lastTs + cfg.interval) with
    | error e => rfl
    | ok copy =>
      dsimp only
      rw [produceLoop_eq_greedy]
      dsimp only
      unfold Ledger.addBlock
      by_cases hnt : (!n.led.blocks.isEmpty && decide (ts ≤ n.led.lastTs)) = true
      · rw [if_pos hnt, if_pos hnt]
      · rw [if_neg hnt, if_neg hnt]
        cases hc : n.led.confirmLast with
        | error e => rfl
        | ok c =>
          simp [blockOf, keptOf, feesOf, startReward, hb]

end Node
namespace Node

/-- complete characterisation of admission -/
theorem admitCheck_ok_iff (env : Env) (cfg : Cfg) (n : Node) (tx : Tx) :
    admitCheck env cfg n tx = .ok () ↔
      n.led.lastTs ≠ 0 ∧ n.led.lastTs ≤ tx.ts ∧ tx.ts ≤ n.led.lastTs + cfg.interval ∧
      (∀ p ∈ n.pool, p.id ≠ tx.id) ∧ (∀ i ∈ tx.inputs, i.sigValid = true) ∧
      ∃ c1 c2, n.led.utxos.update n.led.lastTxs (n.led.lastTs + cfg.interval) = .ok c1 ∧
        c1.update n.pool (n.led.lastTs + cfg.interval) = .ok c2 ∧
        (c2.calculateFee env.val cfg.minFee tx (n.led.lastTs + cfg.interval)).isOk = true ∧
        (n.led.utxos.calculateFee env.val cfg.minFee tx (n.led.lastTs + cfg.interval)).isOk = true ∧
        (c2.update [tx] (n.led.lastTs + cfg.interval)).isOk = true := by
  unfold admitCheck
  dsimp only
  by_cases h0 : n.led.lastTs = 0
  · simp [h0]
  rw [if_neg (by simpa using h0)]
  by_cases h1 : n.led.lastTs + cfg.interval < tx.ts
  · rw [if_pos h1]; simp only [reduceCtorEq, false_iff]; intro h; omega
  rw [if_neg h1]
  by_cases h2 : tx.ts < n.led.lastTs
  · rw [if_pos h2]; simp only [reduceCtorEq, false_iff]; intro h; omega
  rw [if_neg h2]
  by_cases h3 : (n.pool.any (fun p => p.id == tx.id)) = true
  · rw [if_pos h3]; simp only [reduceCtorEq, false_iff]
    intro h
    obtain ⟨p, hp, hpe⟩ := List.any_eq_true.mp h3
    exact h.2.2.2.1 p hp (by simpa using hpe)
  rw [if_neg h3]
  have h3' : ∀ p ∈ n.pool, p.id ≠ tx.id := by
    intro p hp he
    exact h3 (List.any_eq_true.mpr ⟨p, hp, by simpa using he⟩)
  by_cases h4 : (!(tx.inputs.all (·.sigValid))) = true
  · rw [if_pos h4]; simp only [reduceCtorEq, false_iff]
    intro h
    have : tx.inputs.all (·.sigValid) = true := List.all_eq_true.mpr h.2.2.2.2.1
    simp [this] at h4
  rw [if_neg h4]
  have h4' : ∀ i ∈ tx.inputs, i.sigValid = true := by
    have : tx.inputs.all (·.sigValid) = true := by simpa using h4
    exact List.all_eq_true.mp this
  have herr : ∀ {α : Type} (e : String), ((Except.error e : Except String α).isOk = true) = False := by
    intro α e; simp [Except.isOk, Except.toBool]
  cases hu1 : n.led.utxos.update n.led.lastTxs (n.led.lastTs + cfg.interval) with
  | error e =>
    simp only [reduceCtorEq, false_iff]
    rintro ⟨_, _, _, _, _, c1', c2', e1, _⟩
    cases e1
  | ok c1 =>
    dsimp only
    cases hu2 : c1.update n.pool (n.led.lastTs + cfg.interval) with
    | error e =>
      simp only [reduceCtorEq, false_iff]
      rintro ⟨_, _, _, _, _, c1', c2', e1, e2, _⟩
      cases e1; rw [hu2] at e2; cases e2
    | ok c2 =>
      dsimp only
      cases hf1 : c2.calculateFee env.val cfg.minFee tx (n.led.lastTs + cfg.interval) with
      | error e =>
        simp only [reduceCtorEq, false_iff]
        rintro ⟨_, _, _, _, _, c1', c2', e1, e2, e3, _⟩
        cases e1; rw [hu2] at e2; cases e2; rw [hf1, herr] at e3; exact e3
      | ok f1 =>
        dsimp only
        cases hf2 : n.led.utxos.calculateFee env.val cfg.minFee tx (n.led.lastTs + cfg.interval) with
        | error e =>
          simp only [reduceCtorEq, false_iff]
          rintro ⟨_, _, _, _, _, c1', c2', e1, e2, e3, e4, _⟩
          rw [herr] at e4; exact e4
        | ok f2 =>
          dsimp only
          cases hu3 : c2.update [tx] (n.led.lastTs + cfg.interval) with
          | error e =>
            simp only [reduceCtorEq, false_iff]
            rintro ⟨_, _, _, _, _, c1', c2', e1, e2, e3, e4, e5⟩
            cases e1; rw [hu2] at e2; cases e2; rw [hu3, herr] at e5; exact e5
          | ok c3 =>
            simp only [true_iff]
            exact ⟨h0, by omega, by omega, h3', h4', c1, c2, rfl, hu2, by rw [hf1]; rfl, rfl, by rw [hu3]; rfl⟩

end Node

namespace UtxoReg

/-- positional reading of `is.map lookup = us.map ok` -/
theorem lookups_index {byId : TreeMap String (List (Option Utxo))} {is : List Input} {us : List Utxo}
    (h : is.map (lookup byId) = us.map Except.ok) :
    us.length = is.length ∧ ∀ (k : Nat) (hk : k < is.length) (hk' : k < us.length), lookup byId is[k] = .ok us[k] := by
  have hl : us.length = is.length := by simpa using (congrArg List.length h).symm
  refine ⟨hl, ?_⟩
  intro k hk hk'
  have := congrArg (fun l => l[k]?) h
  simpa [List.getElem?_map, List.getElem?_eq_getElem hk, List.getElem?_eq_getElem hk'] using this

end UtxoReg
namespace Node

theorem fee_produce_some {env : Env} {cfg : Cfg} {n : Node} {ts : Int} {perm : List Tx} {rewardId : String} {n' : Node}
    (h : n.produce env cfg ts perm rewardId = some n') :
    (n.led.lastTs = 0 ∨ (ts ≠ n.led.lastTs ∧ ts ≤ n.led.lastTs + cfg.interval)) ∧
    ∃ copy c, n.led.utxos.update n.led.lastTxs (n.led.lastTs + cfg.interval) = .ok copy ∧
      n.led.confirmLast = .ok c ∧
      n' = ⟨{ c with blocks := c.blocks ++ [blockOf env cfg n c ts rewardId (keptOf env cfg n ts perm copy)] }, []⟩ := by
  rw [fee_produce_eq] at h
  by_cases hc : n.led.lastTs ≠ 0 ∧ (ts = n.led.lastTs ∨ ts > n.led.lastTs + cfg.interval)
  · rw [if_pos hc] at h; cases h
  rw [if_neg hc] at h
  refine ⟨?_, ?_⟩
  · by_cases h0 : n.led.lastTs = 0
    · exact Or.inl h0
    · right
      constructor
      · intro e; exact hc ⟨h0, Or.inl e⟩
      · apply Int.not_lt.mp; intro e; exact hc ⟨h0, Or.inr e⟩
  · cases hu : n.led.utxos.update n.led.lastTxs (n.led.lastTs + cfg.interval) with
    | error e => rw [hu] at h; cases h
    | ok copy =>
      rw [hu] at h
      dsimp only at h
      by_cases hnt : (!n.led.blocks.isEmpty && decide (ts ≤ n.led.lastTs)) = true
      · rw [if_pos hnt] at h; cases h
      rw [if_neg hnt] at h
      cases hcl : n.led.confirmLast with
      | error e => rw [hcl] at h; cases h
      | ok c =>
        rw [hcl] at h
        injection h with h
        exact ⟨copy, c, rfl, rfl, h.symm⟩

/-- a produced block is dated after the tip it extends (the `AddBlock` guard) -/
theorem fee_produce_some_after_tip {env : Env} {cfg : Cfg} {n : Node} {ts : Int} {perm : List Tx} {rewardId : String} {n' : Node}
    (h : n.produce env cfg ts perm rewardId = some n') : n.led.blocks = [] ∨ n.led.lastTs < ts := by
  rw [fee_produce_eq] at h
  by_cases hc : n.led.lastTs ≠ 0 ∧ (ts = n.led.lastTs ∨ ts > n.led.lastTs + cfg.interval)
  · rw [if_pos hc] at h; cases h
  rw [if_neg hc] at h
  cases hu : n.led.utxos.update n.led.lastTxs (n.led.lastTs + cfg.interval) with
  | error e => rw [hu] at h; cases h
  | ok copy =>
    rw [hu] at h
    dsimp only at h
    by_cases hnt : (!n.led.blocks.isEmpty && decide (ts ≤ n.led.lastTs)) = true
    · rw [if_pos hnt] at h; cases h
    · by_cases hb : n.led.blocks = []
      · exact Or.inl hb
      · right
        have : ¬ (ts ≤ n.led.lastTs) := by
          intro hle; apply hnt; simp [hb, hle]
        omega

/-- exactly when a tick is refused -/
theorem fee_produce_none_iff (env : Env) (cfg : Cfg) (n : Node) (ts : Int) (perm : List Tx) (rewardId : String) :
    n.produce env cfg ts perm rewardId = none ↔
      (n.led.lastTs ≠ 0 ∧ (ts = n.led.lastTs ∨ ts > n.led.lastTs + cfg.interval)) ∨
      (n.led.utxos.update n.led.lastTxs (n.led.lastTs + cfg.interval)).isOk = false ∨
      (n.led.blocks ≠ [] ∧ ts ≤ n.led.lastTs) ∨
      n.led.confirmLast.isOk = false := by
  rw [fee_produce_eq]
  by_cases hc : n.led.lastTs ≠ 0 ∧ (ts = n.led.lastTs ∨ ts > n.led.lastTs + cfg.interval)
  · rw [if_pos hc]; simp only [true_iff]; exact Or.inl hc
  rw [if_neg hc]
  cases hu : n.led.utxos.update n.led.lastTxs (n.led.lastTs + cfg.interval) with
  | error e => simp [Except.isOk, Except.toBool]
  | ok copy =>
    dsimp only
    by_cases hnt : (!n.led.blocks.isEmpty && decide (ts ≤ n.led.lastTs)) = true
    · rw [if_pos hnt]
      simp only [true_iff]
      right; right; left
      simpa using hnt
    rw [if_neg hnt]
    have hnt' : ¬ (n.led.blocks ≠ [] ∧ ts ≤ n.led.lastTs) := by
      intro ⟨a, b⟩; apply hnt; simp [a, b]
    cases hcl : n.led.confirmLast with
    | error e => simp [Except.isOk, Except.toBool]
    | ok c => simp [Except.isOk, Except.toBool, hc, hnt']

theorem filter_hasReward_append_reward (kept : List Tx) (rtx : Tx) (hk : ∀ t ∈ kept, t.hasReward = false)
    (hr : rtx.hasReward = true) : (kept ++ [rtx]).filter (·.hasReward) = [rtx] := by
  rw [List.filter_append]
  have : kept.filter (·.hasReward) = [] := by
    rw [List.filter_eq_nil_iff]; intro t ht; simp [hk t ht]
  rw [this]; simp [hr]

theorem filter_not_hasReward_append_reward (kept : List Tx) (rtx : Tx) (hk : ∀ t ∈ kept, t.hasReward = false)
    (hr : rtx.hasReward = true) : (kept ++ [rtx]).filter (fun t => !t.hasReward) = kept := by
  rw [List.filter_append]
  have : kept.filter (fun t => !t.hasReward) = kept := by
    rw [List.filter_eq_self]; intro t ht; simp [hk t ht]
  rw [this]; simp [hr]

end Node

namespace UtxoReg

theorem owner_of_maps {byId : TreeMap String (List (Option Utxo))} {is : List Input} {us : List Utxo}
    (h1 : is.map (lookup byId) = us.map Except.ok) (h2 : us.map (·.out.address) = is.map (·.address)) :
    ∀ i ∈ is, ∃ u, lookup byId i = .ok u ∧ u.out.address = i.address := by
  induction is generalizing us with
  | nil => simp
  | cons x xs ih =>
    cases us with
    | nil => simp at h1
    | cons u us =>
      simp only [List.map_cons, List.cons.injEq] at h1 h2
      intro i hi
      rcases List.mem_cons.mp hi with rfl | hi
      · exact ⟨u, h1.1, h2.1⟩
      · exact ih h1.2 h2.2 i hi

/-- the owner check of `CalculateFee`: every input's address is the recipient of the output it names -/
theorem calculateFee_owner {val : Nat → Bool → Int → Nat} {minFee : Nat} {r : UtxoReg} {tx : Tx} {ts : Int} {fee : Nat}
    (h : calculateFee val minFee r tx ts = .ok fee) :
    ∀ i ∈ tx.inputs, ∃ u, lookup r.byId i = .ok u ∧ u.out.address = i.address := by
  obtain ⟨us, h1, h2, _⟩ := (calculateFee_ok_iff val minFee r tx ts fee).mp h
  exact owner_of_maps h1 h2

end UtxoReg

/-! ## conservation over a list of transactions -/

/-- the live outputs a transaction's inputs name in `r` (those that resolve) -/
def consumedOf (r : UtxoReg) (t : Tx) : List Utxo :=
  t.inputs.filterMap (fun i => match UtxoReg.lookup r.byId i with | .ok u => some u | .error _ => none)

theorem consumedOf_eq {r : UtxoReg} {t : Tx} {us : List Utxo}
    (h : t.inputs.map (UtxoReg.lookup r.byId) = us.map Except.ok) : consumedOf r t = us := by
  unfold consumedOf
  generalize t.inputs = is at h
  induction is generalizing us with
  | nil =>
    have : us = [] := by simpa using h.symm
    simp [this]
  | cons i is ih =>
    cases us with
    | nil => simp at h
    | cons u us =>
      simp only [List.map_cons, List.cons.injEq] at h
      rw [List.filterMap_cons, h.1]
      simp [ih h.2]

theorem fees_conservation (val : Nat → Bool → Int → Nat) (minFee : Nat) (r : UtxoReg) (ts : Int) (txs : List Tx)
    (h : ∀ t ∈ txs, (r.calculateFee val minFee t ts).isOk = true) :
    (txs.map (fun t => inSum val ts (consumedOf r t))).sum =
      (txs.map (feeOf val minFee r ts)).sum + (txs.map outSum).sum := by
  induction txs with
  | nil => rfl
  | cons t rest ih =>
    have ht := h t (by simp)
    obtain ⟨fee, hf⟩ := (fee_isOk_iff_exists _).mp ht
    obtain ⟨us, h1, _, h3, _, _⟩ := (UtxoReg.calculateFee_ok_iff val minFee r t ts fee).mp hf
    have := ih (fun x hx => h x (by simp [hx]))
    simp only [List.map_cons, List.sum_cons, consumedOf_eq h1, feeOf_eq_of_ok hf, h3, this]
    omega
end Ru
