/-
  Core/Lemmas/InjHash.lean — an injective block hash EXISTS in the model (non-vacuity of every theorem that takes
  `Function.Injective env.hash` as a hypothesis).  Noncomputable: a block is encoded as a natural number
  (`Encodable`, by injections into tuples of encodable types) and the number is written in unary.
-/
import Mathlib.Logic.Equiv.List
import Core.Basic

namespace Ru
namespace InjHash

noncomputable instance : Encodable Char := Encodable.ofInj Char.toNat (fun _ _ h => Char.toNat_inj.mp h)
noncomputable instance : Encodable String := Encodable.ofInj String.toList (fun _ _ h => String.toList_inj.mp h)
noncomputable instance : Encodable Output :=
  Encodable.ofInj (fun o => (o.address, o.yielding, o.value)) (fun a b h => by cases a; cases b; simp_all)
noncomputable instance : Encodable Input :=
  Encodable.ofInj (fun i => (i.txId, i.index, i.pk, i.sig, i.address, i.sigValid))
    (fun a b h => by cases a; cases b; simp_all)
noncomputable instance : Encodable Tx :=
  Encodable.ofInj (fun t => (t.id, t.inputs, t.outputs, t.ts)) (fun a b h => by cases a; cases b; simp_all)
noncomputable instance : Encodable Block :=
  Encodable.ofInj (fun b => (b.prevHash, b.added, b.removed, b.ts, b.txs)) (fun a b h => by cases a; cases b; simp_all)

/-- an injective block hash: the block's code written in unary -/
noncomputable def injHash (b : Block) : Hash := String.ofList (List.replicate (Encodable.encode b) 'a')

theorem injHash_injective : Function.Injective injHash := by
  intro a b h
  have h1 := String.ofList_injective h
  have h2 := congrArg List.length h1
  simp only [List.length_replicate] at h2
  exact Encodable.encode_injective h2

/-- an environment with an injective hash (valuation: the identity on the initial value) -/
noncomputable def env : Env := ⟨fun v _ _ => v, injHash⟩

theorem env_injective : Function.Injective env.hash := injHash_injective

end InjHash
end Ru
