/-
  Core/Chain.lean — model of verification/blockchain.go: AddBlock/addBlock, Blocks, verifyBlock, verify.
  The confirmed state (outputs, registered addresses) lags the tip by one block, exactly as in Go:
  appending a block first applies the previous tip.
-/
import Core.Utxos
import Core.Addr
open Std

namespace Ru

/-- chain + derived state (what `Blockchain`, `UtxosRegistry`, `AddressesRegistry` hold together) -/
structure Ledger where
  blocks : List Block
  utxos  : UtxoReg
  reg    : AddrReg

namespace Ledger

def empty : Ledger := ⟨[], .empty, .empty⟩

def lastTs (l : Ledger) : Int :=
  match l.blocks.getLast? with
  | some b => b.ts
  | none => 0

def firstTs (l : Ledger) : Int :=
  match l.blocks with
  | b :: _ => b.ts
  | [] => 0

def lastTxs (l : Ledger) : List Tx :=
  match l.blocks.getLast? with
  | some b => b.txs
  | none => []

/-- `addBlock`: apply the previous tip to outputs and registry, then append -/
def addBlockRaw (l : Ledger) (b : Block) : Except String Ledger :=
  match l.blocks.getLast? with
  | none => .ok { l with blocks := l.blocks ++ [b] }
  | some last =>
    match l.utxos.update last.txs last.ts with
    | .error e => .error ("add-utxo-failed:" ++ e)
    | .ok u' => .ok ⟨l.blocks ++ [b], u', l.reg.update last.addedL last.removedL⟩

def prevHashOf (env : Env) (l : Ledger) : Hash :=
  match l.blocks.getLast? with
  | some b => env.hash b
  | none => zeroHash

/-- `confirmLastBlock`: apply the tip to outputs and registry (the chain itself is unchanged) -/
def confirmLast (l : Ledger) : Except String Ledger :=
  match l.blocks.getLast? with
  | none => .ok l
  | some last =>
    match l.utxos.update last.txs last.ts with
    | .error e => .error ("add-utxo-failed:" ++ e)
    | .ok u' => .ok ⟨l.blocks, u', l.reg.update last.addedL last.removedL⟩

/-- union of the two `Filter` results as `AddBlock` builds it: the second list's addresses not yet listed
    are appended; nil stays nil when nothing is listed -/
def unionAdded (a b : Option (List String)) : Option (List String) :=
  match b with
  | none => a
  | some bl =>
    match bl.foldl (fun (acc : List String) x => if acc.contains x then acc else acc ++ [x]) (a.getD []) with
    | [] => a
    | l => some l

/-- the block `AddBlock(timestamp, transactions, newAddresses)` builds (after the fix: commits): `l` is the
    ledger before, `c` the ledger with the previous tip confirmed; an address is listed as newly registered
    when it is unregistered in either state; `RemovedAddresses` is read after confirming -/
def mkBlock (env : Env) (l c : Ledger) (ts : Int) (txs : List Tx) (newAddresses : List String) : Block :=
  { prevHash := prevHashOf env c, added := unionAdded (l.reg.filter newAddresses) (c.reg.filter newAddresses),
    removed := c.reg.pending, ts := ts, txs := txs }

/-- `AddBlock`: refuse a block not dated after the current tip (fix: commit — the caller computed the timestamp
    from a tip it read earlier), confirm the previous tip, build the block, append -/
def addBlock (env : Env) (l : Ledger) (ts : Int) (txs : List Tx) (newAddresses : List String) : Except String Ledger :=
  if !l.blocks.isEmpty && ts ≤ l.lastTs then .error "not-after-tip"
  else
    match l.confirmLast with
    | .error e => .error e
    | .ok c => .ok { c with blocks := c.blocks ++ [mkBlock env l c ts txs newAddresses] }

/-- `Blocks(startingBlockHeight)` -/
def page (pageSize : Nat) (blocks : List Block) (h : Nat) : List Block :=
  if blocks.isEmpty || h > blocks.length - 1 || pageSize == 0 then []
  else if h + pageSize < blocks.length then (blocks.drop h).take pageSize
  else blocks.drop h

/-- yielding-output registration check of verifyBlock for one transaction -/
def yieldsRegistered (reg : AddrReg) (added : List String) (tx : Tx) : Bool :=
  tx.outputs.all (fun o => !o.yielding || added.contains o.address || reg.isRegistered o.address)

/-- transactions loop of verifyBlock; state = (rewarded, reward, totalFees) -/
def verifyTxs (env : Env) (cfg : Cfg) (l : Ledger) (b : Block) (prevTs : Int) :
    List Tx → Bool → Nat → Nat → Except String (Bool × Nat × Nat)
  | [], rewarded, reward, total => .ok (rewarded, reward, total)
  | t :: ts, rewarded, reward, total =>
    if t.hasReward then
      if rewarded then .error "multi-reward"
      else verifyTxs env cfg l b prevTs ts true t.rewardValue total
    else if b.ts < t.ts then .error "tx-future"
    else if t.ts < prevTs then .error "tx-old"
    else if !(t.inputs.all (·.sigValid)) then .error "bad-signature"
    else if !(yieldsRegistered l.reg b.addedL t) then .error "yield-unregistered"
    else
      match l.utxos.calculateFee env.val cfg.minFee t b.ts with
      | .error e => .error e
      | .ok fee => verifyTxs env cfg l b prevTs ts rewarded reward ((total + fee) % U64)

/-- `verifyBlock(neighborBlock, previousBlockTimestamp, timestamp)` on the state `l` -/
def verifyBlock (env : Env) (cfg : Cfg) (l : Ledger) (b : Block) (prevTs now : Int) : Except String Unit :=
  if b.ts ≠ prevTs + cfg.interval then .error "bad-block-ts"
  else if b.ts == 0 then .error "zero-block-ts"      -- 0 is what the pool reads as "no block yet" (fix: commit)
  else if b.ts > now then .error "future-block"
  else
    match verifyTxs env cfg l b prevTs b.txs false 0 0 with
    | .error e => .error e
    | .ok (rewarded, reward, total) =>
      if !rewarded then .error "no-reward"
      else if reward > total then .error "reward-exceeds"
      else .ok ()

/-- the loop of `verify`.  `nl` is the neighbour's chain under construction (`neighborBlockchain`),
    `prev` the previous block (none for a first block), `lastHost` the host blocks compared by hash,
    `i` the index. -/
def verifyLoop (env : Env) (cfg : Cfg) (now : Int) (lastHost : List Block) :
    Ledger → Option Block → List Block → Nat → Except String Ledger
  | nl, _, [], _ => .ok nl
  | nl, prev, b :: rest, i =>
    let prevTs : Int := match prev with | some p => p.ts | none => 0
    let prevHash : Hash := match prev with | some p => env.hash p | none => zeroHash
    if b.prevHash ≠ prevHash then .error "bad-prev-hash"
    else
      let isNew : Bool := match lastHost[i]? with
        | none => true
        | some hb => env.hash b != env.hash hb
      let isGenesis : Bool := prev.isNone
      match (if isNew && !isGenesis then verifyBlock env cfg nl b prevTs now else .ok ()) with
      | .error e => .error e
      | .ok () =>
        match (if i == 0 then .ok { nl with blocks := nl.blocks ++ [b] } else nl.addBlockRaw b) with
        | .error e => .error e
        | .ok nl' => verifyLoop env cfg now lastHost nl' (some b) rest (i + 1)

/-- `verify(lastHostBlocks, neighborBlocks, oldHostBlocks, timestamp)` run on host state `host`
    (only its outputs and registry are read — copied).  Returns the verified blocks. -/
def verify (env : Env) (cfg : Cfg) (host : Ledger) (lastHost nb oldHost : List Block) (now : Int) :
    Except String (List Block) :=
  if oldHost.isEmpty && nb.length < 2 then .error "too-short"
  else if !oldHost.isEmpty &&
      (match lastHost, nb with
       | lh :: _, n0 :: _ => lh.prevHash != n0.prevHash
       | _, _ => true) then .error "fork"
  else
    let start : Ledger :=
      if oldHost.isEmpty then ⟨[], .empty, .empty⟩ else ⟨oldHost, host.utxos, host.reg⟩
    match verifyLoop env cfg now lastHost start oldHost.getLast? nb 0 with
    | .error e => .error e
    | .ok nl =>
      -- final `AddBlock(next, nil, nil)`: replays the last neighbour block
      match nl.addBlock env (nl.lastTs + cfg.interval) [] [] with
      | .error e => .error e
      | .ok _ => .ok nb

end Ledger
end Ru
