/-
  Core/Basic.lean — data of the model (core Lean only; executable).

  Mirrors validatornode/domain/ledger: Output, Input, Transaction, Block, Utxo, and the protocol settings
  the core uses.  Cryptography and hashing are *parameters* (DESIGN.md §3, §4):
    * each input carries `address` (PublicKey.Address()) and `sigValid` (Input.VerifySignature() == nil)
      as computed by the real primitives,
    * transaction ids are data (the real decoder has checked id = sha256(render …)),
    * block hashes come from `Env.hash`,
    * `Env.val initial yielding elapsed` is ledger.Utxo.Value.
-/
namespace Ru

abbrev Hash := String

/-- the all-zero previous hash of a first block -/
def zeroHash : Hash := "0000000000000000000000000000000000000000000000000000000000000000"

structure Output where
  address  : String
  yielding : Bool
  value    : Nat            -- uint64
deriving DecidableEq, Repr, Inhabited

structure Input where
  txId     : String
  index    : Nat            -- uint16
  pk       : String         -- hex, as on the wire (identity only)
  sig      : String         -- hex, as on the wire (identity only)
  address  : String         -- PublicKey.Address()
  sigValid : Bool           -- VerifySignature() == nil
deriving DecidableEq, Repr, Inhabited

structure Tx where
  id      : String
  inputs  : List Input
  outputs : List Output
  ts      : Int
deriving DecidableEq, Repr, Inhabited

/-- `hasReward` is set by the decoder exactly when there is no input (then there is exactly one output),
    and by `NewRewardTransaction` (no input, one output). -/
def Tx.hasReward (t : Tx) : Bool := t.inputs.isEmpty

def Tx.rewardRecipient (t : Tx) : String :=
  match t.outputs with
  | o :: _ => o.address
  | [] => ""

def Tx.rewardValue (t : Tx) : Nat :=
  match t.outputs with
  | o :: _ => o.value
  | [] => 0

/-- What the (repaired) decoder guarantees for every transaction that reaches the core. -/
def Tx.WF (t : Tx) : Prop :=
  t.outputs ≠ [] ∧ (t.inputs = [] → t.outputs.length = 1)

instance (t : Tx) : Decidable t.WF := by unfold Tx.WF; exact inferInstance

structure Block where
  prevHash : Hash
  added    : Option (List String)     -- none = Go nil slice (rendered `null`), some [] = empty non-nil
  removed  : Option (List String)
  ts       : Int
  txs      : List Tx
deriving DecidableEq, Repr, Inhabited

def Block.addedL (b : Block) : List String := b.added.getD []
def Block.removedL (b : Block) : List String := b.removed.getD []

structure Utxo where
  txId    : String
  index   : Nat
  out     : Output
  created : Int
deriving DecidableEq, Repr, Inhabited

structure Cfg where
  pageSize  : Nat      -- BlocksCountLimit
  genesis   : Nat      -- GenesisAmount
  minFee    : Nat      -- MinimalTransactionFee
  interval  : Int      -- ValidationTimestamp
  validator : String   -- the node's reward address
deriving Repr, Inhabited

structure Env where
  val  : Nat → Bool → Int → Nat       -- ledger.Utxo.Value as a function of (initial, yielding, now - created)
  hash : Block → Hash                 -- Block.Hash()

def U64 : Nat := 18446744073709551616   -- 2^64

/-- first matching element removed (Go: `append(s[:i], s[i+1:]...)` on the first hit) -/
def eraseFirst {α} (p : α → Bool) : List α → List α
  | [] => []
  | x :: xs => if p x then xs else x :: eraseFirst p xs

theorem length_eraseFirst_le {α} (p : α → Bool) (l : List α) : (eraseFirst p l).length ≤ l.length := by
  induction l with
  | nil => simp [eraseFirst]
  | cons x xs ih => unfold eraseFirst; split <;> simp <;> omega

end Ru
