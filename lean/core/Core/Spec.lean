/-
  Core/Spec.lean — the properties C01–C04, C07, C10 as plain executable predicates over a chain, stated
  independently of the registry representation: a chain is replayed over a LIST of live outputs in exact
  natural-number arithmetic.  The driver evaluates them on the IMPLEMENTATION's observed chain after every
  operation (failing-input search with the formal statement as oracle); RuProps proves them for the model.
-/
import Core.Pool
open Std

namespace Ru
namespace Spec

structure St where
  live : List Utxo          -- created and not consumed (a re-created id replaces the old slots of that id)
  reg  : List String        -- registered addresses (as a set)
deriving Repr

def St.empty : St := ⟨[], []⟩

def find (live : List Utxo) (i : Input) : Option Utxo :=
  live.find? (fun u => u.txId == i.txId && u.index == i.index)

def removeRef (live : List Utxo) (i : Input) : List Utxo :=
  eraseFirst (fun u => u.txId == i.txId && u.index == i.index) live

/-- consume all inputs; none when some input has no live output -/
def consumeAll : List Utxo → List Input → Option (List Utxo × List Utxo)
  | live, [] => some (live, [])
  | live, i :: is =>
    match find live i with
    | none => none
    | some u =>
      match consumeAll (removeRef live i) is with
      | none => none
      | some (l', us) => some (l', u :: us)

def create (live : List Utxo) (t : Tx) (ts : Int) : List Utxo :=
  if UtxoReg.creates t then
    (live.filter (fun u => u.txId != t.id)) ++ UtxoReg.mkUtxos t.id ts t.outputs 0
  else live

/-- one transaction: create, then consume (a transaction may not spend its own outputs' siblings before
    creation, but the code creates first — mirrored); returns the consumed outputs -/
def applyTx (live : List Utxo) (t : Tx) (ts : Int) : Option (List Utxo × List Utxo) :=
  consumeAll (create live t ts) t.inputs

def applyTxs : List Utxo → List Tx → Int → Option (List Utxo)
  | live, [], _ => some live
  | live, t :: ts', time =>
    match applyTx live t time with
    | none => none
    | some (l', _) => applyTxs l' ts' time

def applyReg (reg : List String) (b : Block) : List String :=
  let r1 := reg.filter (fun a => !b.removedL.contains a)
  b.addedL.foldl (fun r a => if r.contains a then r else r ++ [a]) r1

def applyBlock (s : St) (b : Block) : Option St :=
  match applyTxs s.live b.txs b.ts with
  | none => none
  | some l => some ⟨l, applyReg s.reg b⟩

def sumOut (t : Tx) : Nat := (t.outputs.map (·.value)).sum

def sumVal (env : Env) (us : List Utxo) (ts : Int) : Nat :=
  (us.map (fun u => env.val u.out.value u.out.yielding (ts - u.created))).sum

def yieldingCountOk (live : List Utxo) : Bool :=
  live.all (fun u => !u.out.yielding ||
    (live.filter (fun v => v.out.yielding && v.out.address == u.out.address)).length ≤ 1)

/-- Check one non-genesis block `b` (height `h`) against the state `conf` = all earlier blocks applied,
    `prevConf` = all blocks before the previous one applied (the producer's registration view),
    and return failures as text. -/
def checkBlock (env : Env) (cfg : Cfg) (h : Nat) (prev : Block) (prevConf conf : St) (b : Block) : List String :=
  let shape :=
    (if b.prevHash != env.hash prev then [s!"C04 prev-hash h={h}"] else []) ++
    (if b.ts != prev.ts + cfg.interval then [s!"C04 block-ts h={h}"] else []) ++
    (if (b.txs.filter (·.hasReward)).length != 1 then [s!"C04 reward-count h={h}"] else []) ++
    (b.txs.filter (fun t => !t.hasReward && (t.ts < prev.ts || b.ts < t.ts))).map (fun t => s!"C04 tx-window h={h} tx={t.id}")
  -- per transaction, sequentially over the live set
  let rec go (live : List Utxo) (txs : List Tx) (fees : Nat) (acc : List String) : List String × Nat × Option (List Utxo) :=
    match txs with
    | [] => (acc, fees, some live)
    | t :: rest =>
      match applyTx live t b.ts with
      | none =>
        -- an input that is not live is worth nothing: what the transaction pays out comes from nowhere (C01), besides
        -- consuming an output that does not exist or was already consumed (C02)
        (acc ++ [s!"C02 input-not-live h={h} tx={t.id}"] ++
          (if !t.hasReward && sumOut t + cfg.minFee > 0 then
            [s!"C01 outputs-paid-from-an-input-that-is-not-live h={h} tx={t.id} out={sumOut t}"] else []), fees, none)
      | some (live', consumed) =>
        if t.hasReward then go live' rest fees acc
        else
          let inV := sumVal env consumed b.ts
          let acc0 := if consumed.any (fun u => u.created == b.ts) then acc ++ [s!"C02 spends-output-of-same-block h={h} tx={t.id}"] else acc
          let acc := acc0
          let acc1 := if sumOut t + cfg.minFee > inV then acc ++ [s!"C01 outputs+fee>inputs h={h} tx={t.id} out={sumOut t} in={inV}"] else acc
          let acc2 := if (List.zip t.inputs consumed).all (fun (i, u) => i.sigValid && i.address == u.out.address) then acc1
                      else acc1 ++ [s!"C03 owner-or-signature h={h} tx={t.id}"]
          let acc3 := if t.outputs.all (fun o => !o.yielding || b.addedL.contains o.address || conf.reg.contains o.address || prevConf.reg.contains o.address) then acc2
                      else acc2 ++ [s!"C10 yield-unregistered h={h} tx={t.id}"]
          go live' rest (fees + (inV - sumOut t)) acc3
  let (fails, fees, live') := go conf.live b.txs 0 []
  let rewardV := ((b.txs.filter (·.hasReward)).map (·.rewardValue)).sum
  let rw := if rewardV > fees && live'.isSome then [s!"C01 reward>fees h={h} reward={rewardV} fees={fees}"] else []
  let inc := match live' with
    | some l => if yieldingCountOk l then [] else [s!"C10 two-yielding-outputs h={h}"]
    | none => []
  shape ++ fails ++ rw ++ inc

/-- exact fees left over by the ordinary transactions of block `b` replayed on the live list `live`
    (none when some input is not live) -/
def blockFees (env : Env) (live : List Utxo) (b : Block) : Option Nat :=
  let rec go (live : List Utxo) (txs : List Tx) (fees : Nat) : Option Nat :=
    match txs with
    | [] => some fees
    | t :: rest =>
      match applyTx live t b.ts with
      | none => none
      | some (live', consumed) =>
        if t.hasReward then go live' rest fees
        else go live' rest (fees + (sumVal env consumed b.ts - sumOut t))
  go live b.txs 0

/-- C11 clauses for a block the node has just PRODUCED on top of `conf` (all earlier blocks applied):
    exactly one reward, paid to the validator, equal to the fees collected (plus the genesis amount in a
    first block), no transaction twice -/
def checkProduced (env : Env) (cfg : Cfg) (first : Bool) (conf : St) (b : Block) : List String :=
  let rewards := b.txs.filter (·.hasReward)
  let ids := b.txs.map (·.id)
  (if rewards.length != 1 then [s!"C11 produced block has {rewards.length} rewards"] else []) ++
  (if rewards.any (fun r => r.rewardRecipient != cfg.validator) then ["C11 reward not paid to the producer's address"] else []) ++
  (if ids.eraseDups.length != ids.length then ["C11 transaction twice in a produced block"] else []) ++
  -- C10 at production: a yielding output goes to an address registered in the chain's confirmed state (every earlier
  -- block applied, the previous tip included) or listed by the block as newly registered
  ((b.txs.flatMap (fun t => t.outputs)).filter
      (fun o => o.yielding && !conf.reg.contains o.address && !b.addedL.contains o.address)).map
    (fun o => s!"C10 produced-block-yields-to-an-address-neither-registered-nor-listed {o.address}") ++
  (match blockFees env conf.live b with
   | none => ["C11 produced block does not replay on the producer's confirmed outputs"]
   | some fees =>
     let want := (if first then cfg.genesis else 0) + fees
     let got := (rewards.map (·.rewardValue)).sum
     if want < U64 && got != want then [s!"C11 reward {got} differs from the fees collected {want}"] else [])

/-- Check a whole chain (all blocks including the tip).  Returns failures and the state with all blocks
    but the last applied (what the node's derived state must equal, C07). -/
def checkChain (env : Env) (cfg : Cfg) (blocks : List Block) : List String × Option St :=
  let rec go (h : Nat) (prev : Option Block) (prevConf conf : Option St) (bs : List Block) (acc : List String) :
      List String × Option St :=
    match bs with
    | [] => (acc, prevConf)
    | b :: rest =>
      match conf with
      | none => (acc, none)
      | some c =>
        let acc' := match prev, prevConf with
          | some p, some pc => acc ++ checkBlock env cfg h p pc c b
          | _, _ => acc
        go (h + 1) (some b) (some c) (applyBlock c b) rest acc'
  go 0 none (some St.empty) (some St.empty) blocks []

end Spec
end Ru
