/-
  Core/Utxos.lean — model of verification/utxos_registry.go (after the fix: commits).
  Same checks in the same order; Go maps are Std.TreeMap; nil slots are `none`.
-/
import Std.Data.TreeMap
import Core.Basic
open Std

namespace Ru

structure UtxoReg where
  byId   : TreeMap String (List (Option Utxo))   -- utxosById: per transaction id, output slots (none = consumed)
  byAddr : TreeMap String (List Utxo)            -- utxosByAddress: per address, outputs in append order

namespace UtxoReg

def empty : UtxoReg := ⟨{}, {}⟩

/-- `Utxos(address)` -/
def utxos (r : UtxoReg) (a : String) : List Utxo := r.byAddr[a]?.getD []

/-- the lookup shared by CalculateFee and UpdateUtxos: id known, index in range, slot not nil -/
def lookup (byId : TreeMap String (List (Option Utxo))) (i : Input) : Except String Utxo :=
  match byId[i.txId]? with
  | none => .error "no-tx-id"
  | some slots =>
    match slots[i.index]? with
    | some (some u) => .ok u
    | _ => .error "no-output-index"

/-- inputs loop of CalculateFee: owner check, valuation, checked sum -/
def sumInputs (val : Nat → Bool → Int → Nat) (byId : TreeMap String (List (Option Utxo))) (ts : Int) :
    List Input → Nat → Except String Nat
  | [], acc => .ok acc
  | i :: is, acc =>
    match lookup byId i with
    | .error e => .error e
    | .ok u =>
      if u.out.address ≠ i.address then .error "wrong-owner"
      else
        let v := val u.out.value u.out.yielding (ts - u.created)
        if acc + v ≥ U64 then .error "overflow"
        else sumInputs val byId ts is (acc + v)

/-- outputs loop of CalculateFee: checked sum -/
def sumOutputs : List Output → Nat → Except String Nat
  | [], acc => .ok acc
  | o :: os, acc => if acc + o.value ≥ U64 then .error "overflow" else sumOutputs os (acc + o.value)

/-- `CalculateFee(transaction, timestamp)` -/
def calculateFee (val : Nat → Bool → Int → Nat) (minFee : Nat) (r : UtxoReg) (tx : Tx) (ts : Int) : Except String Nat :=
  match sumInputs val r.byId ts tx.inputs 0 with
  | .error e => .error e
  | .ok inV =>
    match sumOutputs tx.outputs 0 with
    | .error e => .error e
    | .ok outV =>
      if inV < outV then .error "fee-negative"
      else if inV - outV < minFee then .error "fee-low"
      else .ok (inV - outV)

/-- the creation rule of UpdateUtxos: `len(outputs) > 1 || outputs[0].value > 0 || outputs[0].yielding` -/
def creates (tx : Tx) : Bool :=
  match tx.outputs with
  | [] => false
  | o :: rest => !rest.isEmpty || o.value > 0 || o.yielding

def mkUtxos (id : String) (ts : Int) : List Output → Nat → List Utxo
  | [], _ => []
  | o :: os, j => ⟨id, j, o, ts⟩ :: mkUtxos id ts os (j + 1)

def addByAddr (m : TreeMap String (List Utxo)) : List Utxo → TreeMap String (List Utxo)
  | [] => m
  | u :: us => addByAddr (m.insert u.out.address ((m[u.out.address]?.getD []) ++ [u])) us

def slotLive (s : Option Utxo) : Bool :=
  match s with
  | some u => u.out.value > 0 || u.out.yielding
  | none => false

/-- consumption of one input inside UpdateUtxos -/
def consume (st : UtxoReg) (i : Input) : Except String UtxoReg :=
  match st.byId[i.txId]? with
  | none => .error "no-tx-id"
  | some slots =>
    match slots[i.index]? with
    | some (some u) =>
      let addrList := eraseFirst (fun (x : Utxo) => x.txId == i.txId && x.index == i.index) (st.byAddr[u.out.address]?.getD [])
      let slots' := slots.set i.index none
      let byId' := if slots'.any slotLive then st.byId.insert i.txId slots' else st.byId.erase i.txId
      let byAddr' := if addrList.isEmpty then st.byAddr.erase u.out.address else st.byAddr.insert u.out.address addrList
      .ok ⟨byId', byAddr'⟩
    | _ => .error "no-output-index"

def consumeAll : UtxoReg → List Input → Except String UtxoReg
  | st, [] => .ok st
  | st, i :: is =>
    match consume st i with
    | .error e => .error e
    | .ok st' => consumeAll st' is

/-- one iteration of the transactions loop of UpdateUtxos -/
def applyTx (st : UtxoReg) (tx : Tx) (ts : Int) : Except String UtxoReg :=
  if st.byId.contains tx.id then .error "id-exists"
  else if tx.outputs.isEmpty then .error "PANIC:outputs[0]"      -- index out of range in Go; unreachable after the decoder fix
  else
    let st1 : UtxoReg :=
      if creates tx then
        let us := mkUtxos tx.id ts tx.outputs 0
        ⟨st.byId.insert tx.id (us.map some), addByAddr st.byAddr us⟩
      else st
    consumeAll st1 tx.inputs

def applyTxs : UtxoReg → List Tx → Int → Except String UtxoReg
  | st, [], _ => .ok st
  | st, t :: ts', time =>
    match applyTx st t time with
    | .error e => .error e
    | .ok st' => applyTxs st' ts' time

def countYielding (l : List Utxo) : Nat := (l.filter (fun u => u.out.yielding)).length

/-- verifyIncomes: no address with two yielding outputs -/
def incomesOk (byAddr : TreeMap String (List Utxo)) : Bool :=
  byAddr.toList.all (fun kv => countYielding kv.2 ≤ 1)

/-- `UpdateUtxos(transactions, timestamp)`: all-or-nothing -/
def update (r : UtxoReg) (txs : List Tx) (ts : Int) : Except String UtxoReg :=
  match applyTxs r txs ts with
  | .error e => .error e
  | .ok st => if incomesOk st.byAddr then .ok st else .error "multi-income"

end UtxoReg
end Ru
