/-
  Core/Pool.lean — model of validation/transactions_pool.go (after the fix: commits: a transaction must
  pass the fee rule on the CONFIRMED outputs as well as on the copy that has replayed the last block and
  the transactions pooled before it, and must itself replay on that copy; a nil transaction is refused).
-/
import Core.Chain
open Std

namespace Ru

structure Node where
  led  : Ledger
  pool : List Tx

namespace Node

def empty : Node := ⟨.empty, []⟩

/-- `addTransaction`: returns the reason on refusal -/
def admitCheck (env : Env) (cfg : Cfg) (n : Node) (tx : Tx) : Except String Unit :=
  let last := n.led.lastTs
  if last == 0 then .error "empty-chain"
  else
    let next := last + cfg.interval
    if next < tx.ts then .error "tx-future"
    else if tx.ts < last then .error "tx-old"
    else if n.pool.any (fun p => p.id == tx.id) then .error "duplicate"
    else if !(tx.inputs.all (·.sigValid)) then .error "bad-signature"
    else
      match n.led.utxos.update n.led.lastTxs next with
      | .error e => .error ("update-failed:" ++ e)
      | .ok c1 =>
        match c1.update n.pool next with
        | .error e => .error ("update-failed:" ++ e)
        | .ok c2 =>
          match c2.calculateFee env.val cfg.minFee tx next with
          | .error e => .error e
          | .ok _ =>
            match n.led.utxos.calculateFee env.val cfg.minFee tx next with
            | .error e => .error e
            | .ok _ =>
              -- the transaction itself is replayed on the copy (refuses e.g. the same output spent twice)
              match c2.update [tx] next with
              | .error e => .error ("update-failed:" ++ e)
              | .ok _ => .ok ()

/-- `AddTransaction` (pool effect only) -/
def admitTx (env : Env) (cfg : Cfg) (n : Node) (tx : Tx) : Node :=
  match admitCheck env cfg n tx with
  | .ok () => { n with pool := n.pool ++ [tx] }
  | .error _ => n

/-- the per-transaction loop of `Validate` on the running copy; returns kept transactions (in order),
    the accumulated reward (uint64 wrap as in Go) and the running copy -/
def produceLoop (env : Env) (cfg : Cfg) (confirmed : UtxoReg) (ts last next : Int) :
    List Tx → UtxoReg → Nat → List Tx → (List Tx × Nat × UtxoReg)
  | [], copy, reward, kept => (kept, reward, copy)
  | t :: rest, copy, reward, kept =>
    if ts < t.ts then produceLoop env cfg confirmed ts last next rest copy reward kept
    else if t.ts < last then produceLoop env cfg confirmed ts last next rest copy reward kept
    else if !(t.inputs.all (·.sigValid)) then produceLoop env cfg confirmed ts last next rest copy reward kept
    else
      match copy.calculateFee env.val cfg.minFee t ts with
      | .error _ => produceLoop env cfg confirmed ts last next rest copy reward kept
      | .ok _ =>
        match confirmed.calculateFee env.val cfg.minFee t ts with
        | .error _ => produceLoop env cfg confirmed ts last next rest copy reward kept
        | .ok fee =>
          match copy.update [t] next with
          | .error _ => produceLoop env cfg confirmed ts last next rest copy reward kept
          | .ok copy' => produceLoop env cfg confirmed ts last next rest copy' ((reward + fee) % U64) (kept ++ [t])

def yieldingAddrs (txs : List Tx) : List String :=
  txs.flatMap (fun t => (t.outputs.filter (·.yielding)).map (·.address))

/-- the reward transaction: id is data (sha256 of the rendering), supplied by `rewardId` -/
def rewardTx (id : String) (address : String) (yielding : Bool) (ts : Int) (value : Nat) : Tx :=
  { id := id, inputs := [], outputs := [⟨address, yielding, value⟩], ts := ts }

/-- `Validate(timestamp)`.  `perm` is the pool after `rand.Shuffle` (any permutation of the pool),
    `rewardId` the id the real code computes for the reward transaction.
    Returns none when the tick is refused (node unchanged). -/
def produce (env : Env) (cfg : Cfg) (n : Node) (ts : Int) (perm : List Tx) (rewardId : String) : Option Node :=
  let last := n.led.lastTs
  let next := last + cfg.interval
  let genesis := last == 0
  if !genesis && last == ts then none
  else if !genesis && ts > next then none
  else
    match n.led.utxos.update n.led.lastTxs next with
    | .error _ => none
    | .ok copy =>
      let (kept, fees, _) := produceLoop env cfg n.led.utxos ts last next perm copy (if genesis then cfg.genesis else 0) []
      let newAddrs := (if genesis then [cfg.validator] else []) ++ yieldingAddrs kept
      let rtx := rewardTx rewardId cfg.validator genesis ts fees
      match n.led.addBlock env ts (kept ++ [rtx]) newAddrs with
      | .error _ => none        -- pool left shuffled/shifted in Go; unreachable sequentially (see C11 addBlock_after_copy_ok)
      | .ok led' => some ⟨led', []⟩

end Node
end Ru
