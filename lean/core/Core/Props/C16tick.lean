/-
  Core/Props/C16tick.lean — a sync round committing INSIDE block production (between `Validate`'s reads and its
  `AddBlock`), in the model:
    * `produce_eq_produceOn`      : block production is `produceOn` reading and writing the same ledger;
    * `tickSync_round_kept`       : when the round leaves the ledger as it was, the interleaved execution IS the tick;
    * `C16_tickSync_counterexample`: otherwise the outcome need not be one any sequential history produces — a
      concrete reachable node, an honest neighbour (a reachable node itself) and a pooled transaction for which the
      node ends with a chain that double-spends: nobody can replay it, the node's own next `AddBlock` fails and a
      fresh peer refuses the chain.  This is the known finding of C16 (`tipswap-conflict`), replayed on the
      implementation by the ruconc placements of the same name.
-/
import Core.Interleave
import Core.Props.C05
import Core.Props.C02chain
import Core.Props.C07
open Std

set_option maxRecDepth 100000

namespace Ru
open SL.SyncEx

theorem produce_eq_produceOn (env : Env) (cfg : Cfg) (n : Node) (ts : Int) (perm : List Tx) (rid : String) :
    n.produce env cfg ts perm rid = (Node.produceOn env cfg n.led n.led ts perm rid).map (fun l => ⟨l, []⟩) := by
  unfold Node.produce Node.produceOn
  simp only []
  split
  · rfl
  · split
    · rfl
    · cases n.led.utxos.update n.led.lastTxs (n.led.lastTs + cfg.interval) with
      | error e => rfl
      | ok copy =>
        simp only []
        cases n.led.addBlock env ts _ _ <;> rfl

/-- the round kept the ledger (nothing better was offered): the interleaved execution is the tick alone -/
theorem tickSync_round_kept (env : Env) (cfg : Cfg) (n : Node) (ts : Int) (perm : List Tx) (rid : String)
    (now : Int) (resps : List Resp) (pick : Nat)
    (hkept : (Sync.outcomes env cfg n.led now resps)[pick]? = some n.led) :
    stepTickSync env cfg n ts perm rid now resps pick = step env cfg n (.tick ts perm rid) := by
  unfold stepTickSync
  simp only [step]
  split
  · rw [hkept]
    simp only []
    rw [produce_eq_produceOn]
    cases Node.produceOn env cfg n.led n.led ts perm rid <;> rfl
  · rfl

/-- what survives the unserializable interleaving: the ledger is still DERIVED (C07) — the state is the replay of the
    chain minus its tip — and the chain is never shorter than the round's outcome; what is lost is that the new tip
    replays on that state (C02 for the next confirmation), as the counterexample below shows -/
theorem tickSync_derived (env : Env) (cfg : Cfg) (n : Node) (ts : Int) (perm : List Tx) (rid : String)
    (now : Int) (resps : List Resp) (pick : Nat) (hd : Derived n.led) :
    Derived (stepTickSync env cfg n ts perm rid now resps pick).led := by
  unfold stepTickSync
  split
  · cases hpick : (Sync.outcomes env cfg n.led now resps)[pick]? with
    | none =>
      simp only []
      -- the plain tick
      rename_i hperm
      simp only [step, hperm, if_true]
      cases hp : n.produce env cfg ts perm rid with
      | none => simpa using hd
      | some n' =>
        simp only [Option.getD_some]
        obtain ⟨txs, addrs, ha⟩ := produce_addBlock env cfg n n' ts perm rid hp
        exact addBlock_derived env _ _ _ _ _ hd ha
    | some l' =>
      simp only []
      have hd' : Derived l' := outcomes_derived env cfg n.led now resps hd l' (List.mem_of_getElem? hpick)
      cases hpo : Node.produceOn env cfg n.led l' ts perm rid with
      | none => exact hd'
      | some led =>
        simp only []
        -- `produceOn` ended with a successful `AddBlock` on `l'`
        unfold Node.produceOn at hpo
        simp only [] at hpo
        split at hpo
        · cases hpo
        · split at hpo
          · cases hpo
          · cases hu : n.led.utxos.update n.led.lastTxs (n.led.lastTs + cfg.interval) with
            | error e => rw [hu] at hpo; cases hpo
            | ok copy =>
              rw [hu] at hpo
              simp only [] at hpo
              split at hpo
              · cases hpo
              · rename_i led' ha
                injection hpo with hpo
                subst hpo
                exact addBlock_derived env _ _ _ _ _ hd' ha
  · exact hd

/-- a round that left a tip dated at or after the tick's own timestamp (it adopted the block of that very slot):
    `AddBlock` refuses, nothing is appended, the node holds the round's outcome and its pool as it was -/
theorem tickSync_stale_refused (env : Env) (cfg : Cfg) (n : Node) (ts : Int) (perm : List Tx) (rid : String)
    (now : Int) (resps : List Resp) (pick : Nat) (l' : Ledger)
    (hperm : perm.isPerm n.pool = true)
    (hpick : (Sync.outcomes env cfg n.led now resps)[pick]? = some l')
    (hne : l'.blocks ≠ []) (hstale : ts ≤ l'.lastTs) :
    stepTickSync env cfg n ts perm rid now resps pick = { n with led := l' } := by
  unfold stepTickSync
  rw [if_pos hperm, hpick]
  simp only []
  have hnone : Node.produceOn env cfg n.led l' ts perm rid = none := by
    unfold Node.produceOn
    simp only []
    split
    · rfl
    · split
      · rfl
      · cases n.led.utxos.update n.led.lastTxs (n.led.lastTs + cfg.interval) with
        | error e => rfl
        | ok copy =>
          simp only []
          have hab : ∀ txs na, l'.addBlock env ts txs na = .error "not-after-tip" := by
            intro txs na
            unfold Ledger.addBlock
            have : (!l'.blocks.isEmpty && decide (ts ≤ l'.lastTs)) = true := by
              cases hb : l'.blocks with
              | nil => exact absurd hb hne
              | cons _ _ => simp [hstale]
            rw [if_pos this]
          rw [hab]
  rw [hnone]

/-- C02 for any DERIVED ledger: its confirmed part (the chain minus the tip) contains no double spend and spends only
    outputs created earlier in it -/
theorem C02_of_derived (l : Ledger) (hd : Derived l) :
    (∀ (q1 k1 m1 q2 k2 m2 : Nat) (b1 b2 : Block) (t1 t2 : Tx) (i j : Input),
        l.blocks.dropLast[q1]? = some b1 → b1.txs[k1]? = some t1 → t1.inputs[m1]? = some i →
        l.blocks.dropLast[q2]? = some b2 → b2.txs[k2]? = some t2 → t2.inputs[m2]? = some j →
        (q1, k1, m1) ≠ (q2, k2, m2) → i.txId = j.txId → i.index = j.index →
        ∃ b ∈ l.blocks.dropLast, ∃ t ∈ b.txs, t.id = i.txId) ∧
    (∀ (q k : Nat) (b : Block) (t : Tx) (i : Input),
        l.blocks.dropLast[q]? = some b → b.txs[k]? = some t → i ∈ t.inputs →
        ∃ (p : Nat) (b' : Block) (k' : Nat) (t' : Tx) (o : Output),
          l.blocks.dropLast[p]? = some b' ∧ b'.txs[k']? = some t' ∧ t'.id = i.txId ∧ UtxoReg.creates t' = true ∧
          t'.outputs[i.index]? = some o ∧ (p < q ∨ (p = q ∧ k' ≤ k))) := by
  refine ⟨?_, ?_⟩
  · intro q1 k1 m1 q2 k2 m2 b1 b2 t1 t2 i j hq1 hk1 hm1 hq2 hk2 hm2 hpos hid hix
    exact C02_replay_no_double_spend _ _ _ hd q1 k1 m1 q2 k2 m2 b1 b2 t1 t2 i j hq1 hk1 hm1 hq2 hk2 hm2 hpos hid hix
  · intro q k b t i hq hk hi
    exact C02_replay_input_was_created_earlier _ _ hd q k b t i hq hk hi

/-- **what the unserializable interleaving does NOT break**: even then the CONFIRMED part of the node's chain has no
    double spend (C02) — the conflicting block is the unconfirmed tip, whose confirmation fails, so it never enters the
    confirmed ledger; what is lost is liveness (no further block) and the tip's acceptability to peers -/
theorem C02_confirmed_part_after_tickSync (env : Env) (cfg : Cfg) (n : Node) (ts : Int) (perm : List Tx) (rid : String)
    (now : Int) (resps : List Resp) (pick : Nat) (hd : Derived n.led)
    (q1 k1 m1 q2 k2 m2 : Nat) (b1 b2 : Block) (t1 t2 : Tx) (i j : Input) :
    (stepTickSync env cfg n ts perm rid now resps pick).led.blocks.dropLast[q1]? = some b1 → b1.txs[k1]? = some t1 →
    t1.inputs[m1]? = some i →
    (stepTickSync env cfg n ts perm rid now resps pick).led.blocks.dropLast[q2]? = some b2 → b2.txs[k2]? = some t2 →
    t2.inputs[m2]? = some j →
    (q1, k1, m1) ≠ (q2, k2, m2) → i.txId = j.txId → i.index = j.index →
    ∃ b ∈ (stepTickSync env cfg n ts perm rid now resps pick).led.blocks.dropLast, ∃ t ∈ b.txs, t.id = i.txId :=
  (C02_of_derived _ (tickSync_derived env cfg n ts perm rid now resps pick hd)).1 q1 k1 m1 q2 k2 m2 b1 b2 t1 t2 i j

namespace C16ex

/-- a second transaction spending the genesis reward (the output `C05ex.tx` spends) -/
def tx2 : Tx := ⟨"t2", [⟨"r0", 0, "", "", "v", true⟩], [⟨"z", false, 80⟩], 250⟩
/-- the host: three blocks, its own empty fourth block, `tx2` pooled -/
def host : Node := Ru.step env cfg (Ru.step env cfg n3 (.tick 240 [] "r3h")) (.submit tx2)
/-- the honest neighbour `C05ex.nB` (three blocks + a fourth one holding `C05ex.tx`) answers `GetBlocks(3)` -/
def resp : Resp := ⟨"p:1", some (C05ex.nB.led.blocks.drop 3), none⟩
/-- the host's tick at 300 with the round committing (outcome 1 = the neighbour's tip wins) before `AddBlock` -/
def after : Node := stepTickSync env cfg host 300 [tx2] "r4" 300 [resp] 1

theorem host_reachable : Reachable env cfg host :=
  (C05ex.reach3.next _ (by simp [Op.WF])).next _ (by simp only [Op.WF]; decide)

theorem neighbour_reachable : Reachable env cfg C05ex.nB := C05ex.reachA.next _ (by simp [Op.WF])

end C16ex

open C16ex in
/-- **C16, the interleaving that is not serializable (known finding, in the model).**  From a reachable host with a
    pooled transaction, against an honest reachable neighbour, a round that commits between `Validate`'s reads and
    its `AddBlock` leaves the host with the neighbour's tip and, on top of it, a block spending the output that tip
    already spends: the chain replays nowhere (C02 fails for it), the host's next block production fails, and a fresh
    peer refuses the chain — although the state still is the replay of the chain minus its tip (C07 holds). -/
theorem C16_tickSync_counterexample :
    -- the round's outcome 1 is the tip swap to the neighbour's chain
    ((Sync.outcomes env cfg host.led 300 [resp])[1]?.map (·.blocks)) = some C05ex.nB.led.blocks ∧
    -- what the host holds afterwards
    after.led.blocks.map (fun b => (b.ts, b.txs.map (·.id))) =
      [(60, ["r0"]), (120, ["r1"]), (180, ["r2"]), (240, ["t1", "r3"]), (300, ["t2", "r4"])] ∧
    -- both `t1` and `t2` spend output 0 of `r0`
    (C05ex.tx.inputs.map (fun i => (i.txId, i.index)) = [("r0", 0)] ∧ tx2.inputs.map (fun i => (i.txId, i.index)) = [("r0", 0)]) ∧
    (Conf.replay Conf.empty after.led.blocks).isOk = false ∧
    after.led.confirmLast.isOk = false ∧
    (after.produce env cfg 360 [] "r5").isSome = false ∧
    (Ledger.verify env cfg Node.empty.led Node.empty.led.blocks.dropLast after.led.blocks [] 400).isOk = false ∧
    ((Conf.replay Conf.empty after.led.blocks.dropLast).toOption.map
        (fun c => c.utxos.byId.toList == after.led.utxos.byId.toList &&
                  c.utxos.byAddr.toList == after.led.utxos.byAddr.toList &&
                  c.registered.toList == after.led.reg.registered.toList)) = some true := by
  refine ⟨by decide, by decide, ⟨by decide, by decide⟩, by decide, by decide, by decide, by decide, by decide⟩

open C16ex in
/-- the same execution, sequentially (either order), is fine: tick then round, and round then tick, both leave a
    chain that replays -/
theorem C16_tickSync_sequential_orders_fine :
    (Conf.replay Conf.empty (Ru.run env cfg host [.tick 300 [tx2] "r4", .sync 300 [resp] 1]).led.blocks).isOk = true ∧
    (Conf.replay Conf.empty (Ru.run env cfg host [.sync 300 [resp] 1, .tick 300 [tx2] "r4"]).led.blocks).isOk = true := by
  refine ⟨by decide, by decide⟩

end Ru
