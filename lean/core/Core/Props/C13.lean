/-
  Core/Props/C13.lean — state part of C13:
  "each sync round … leaves the chain, spendable outputs, registered and pending-removal addresses exactly
   as they were unless a fully valid better chain was offered."
-/
import Core.Lemmas.SyncL
open Std

set_option maxRecDepth 100000

namespace Ru
open SL Sync SL.Sync SL.SyncEx

/-- If no neighbour answer passes `verify` (unreachable, undecodable or invalid), the round ends in the
    host ledger itself — chain, outputs, registered and pending addresses untouched — whatever the map order. -/
theorem C13_no_candidate_unchanged (env : Env) (cfg : Cfg) (host : Ledger) (now : Int) (resps : List Resp)
    (hfail : ∀ r ∈ resps,
      (∀ nb, r.first = some nb →
        ∃ e, Ledger.verify env cfg host host.blocks.getLast?.toList nb host.blocks.dropLast now = .error e) ∧
      (∀ nb, r.second = some nb →
        ∃ e, Ledger.verify env cfg host host.blocks.dropLast nb [] now = .error e)) :
    Sync.outcomes env cfg host now resps = [host] :=
  Sync.outcomes_of_host_cands (Sync.cands_of_all_fail hfail)

/-- non-vacuity: silent neighbours and neighbours offering the empty list both fail -/
example (env : Env) (cfg : Cfg) (host : Ledger) (now : Int) :
    Sync.outcomes env cfg host now [⟨"n1:8106", none, none⟩, ⟨"n2:8106", some [], some []⟩] = [host] := by
  apply C13_no_candidate_unchanged
  intro r hr
  simp only [List.mem_cons, List.not_mem_nil, or_false] at hr
  rcases hr with rfl | rfl
  · refine ⟨fun nb h => ?_, fun nb h => ?_⟩ <;> simp at h
  · refine ⟨fun nb h => ?_, fun nb h => ?_⟩ <;> cases h
    · cases hv : Ledger.verify env cfg host host.blocks.getLast?.toList [] host.blocks.dropLast now with
      | error e => exact ⟨e, rfl⟩
      | ok v => exact absurd rfl (verify_ok hv).2.2.1
    · cases hv : Ledger.verify env cfg host host.blocks.dropLast [] [] now with
      | error e => exact ⟨e, rfl⟩
      | ok v => exact absurd rfl (verify_ok hv).2.2.1

/-- Every ledger a sync round can end in is the host ledger unchanged, or carries a chain that passed
    `verify` (tip-incremental when no fork was declared, from height 0 otherwise) and differs from the
    host chain. -/
theorem C13_unchanged_or_verified (env : Env) (cfg : Cfg) (host : Ledger) (now : Int) (resps : List Resp)
    (ht : ∀ r ∈ resps, r.target ≠ "host") (l : Ledger) (h : l ∈ Sync.outcomes env cfg host now resps) :
    l = host ∨
    (l.blocks ≠ host.blocks ∧ Sync.isDifferent env host.blocks l.blocks = true ∧
      (((Sync.choose env cfg host now resps).isFork = false ∧ host.blocks.length > 2 ∧
        ∃ r ∈ resps, ∃ nb, r.first = some nb ∧
          Ledger.verify env cfg host host.blocks.getLast?.toList nb host.blocks.dropLast now = .ok nb ∧
          l.blocks = host.blocks.dropLast ++ nb) ∨
       ((Sync.choose env cfg host now resps).isFork = true ∧
        ∃ r ∈ resps, ∃ nb, r.second = some nb ∧
          Ledger.verify env cfg host host.blocks.dropLast nb [] now = .ok nb ∧ l.blocks = nb))) := by
  rcases Sync.outcome_cases ht h with h | ⟨sel, hs, hd, _, hb⟩
  · left; exact h
  · right
    rw [hb]
    have hne : sel ≠ host.blocks := by
      intro e; rw [e, Sync.isDifferent_self] at hd; cases hd
    refine ⟨hne, hd, ?_⟩
    obtain ⟨_, t, hsv, _⟩ := Sync.mem_selectionSet.mp hs
    rcases Sync.cand_origin ht (Sync.survivors_sub_cands hsv) with ⟨h1, _⟩ | ⟨hf, h2, r, hr, nb, h3, hv, h1⟩ |
        ⟨hf, r, hr, nb, h3, hv, h1⟩
    · exact absurd (Prod.mk.inj h1).2 hne
    · left; exact ⟨hf, h2, r, hr, nb, h3, hv, (Prod.mk.inj h1).2⟩
    · right; exact ⟨hf, r, hr, nb, h3, hv, (Prod.mk.inj h1).2⟩

/-- non-vacuity: both disjuncts occur — a verified longer chain is adopted (tip-incremental), a verified
    chain from another genesis is adopted after a declared fork, and a silent peer changes nothing -/
example : (∀ r ∈ [respAhead], r.target ≠ "host") ∧
    (∃ l ∈ Sync.outcomes env cfg n3.led 300 [respAhead], l.blocks ≠ n3.led.blocks) := by decide
example : (Sync.choose env cfg m1.led 300 [respFull]).isFork = true ∧
    (Sync.outcomes env cfg m1.led 300 [respFull]).map (·.blocks) = [n3.led.blocks] := by decide
example : Sync.outcomes env cfg n3.led 300 [⟨"p:1", none, none⟩] = [n3.led] :=
  C13_no_candidate_unchanged _ _ _ _ _ (by simp)

/-- Submitting a transaction never touches the ledger; a registry refresh changes only the pending-removal
    list; a refused tick (wrong shuffle or refused production) changes nothing at all. -/
theorem C13_regsync_submit_frame (env : Env) (cfg : Cfg) (n : Node) :
    (∀ tx, (Ru.step env cfg n (.submit tx)).led = n.led) ∧
    (∀ newly, (Ru.step env cfg n (.regsync newly)).led.blocks = n.led.blocks ∧
      (Ru.step env cfg n (.regsync newly)).led.utxos = n.led.utxos ∧
      (Ru.step env cfg n (.regsync newly)).led.reg.registered = n.led.reg.registered ∧
      (Ru.step env cfg n (.regsync newly)).pool = n.pool) ∧
    (∀ ts perm rewardId, (¬ perm.isPerm n.pool ∨ n.produce env cfg ts perm rewardId = none) →
      Ru.step env cfg n (.tick ts perm rewardId) = n) := by
  refine ⟨?_, ?_, ?_⟩
  · intro tx
    rw [step_submit]; unfold Node.admitTx
    split <;> rfl
  · intro newly
    rw [step_regsync]
    split
    · unfold AddrReg.appendPending
      split <;> exact ⟨rfl, rfl, rfl, rfl⟩
    · exact ⟨rfl, rfl, rfl, rfl⟩
  · intro ts perm rewardId h
    rw [step_tick]
    rcases h with h | h
    · rw [if_neg h]
    · split
      · rw [h]; rfl
      · rfl

example : Ru.step env cfg n3 (.tick 240 [⟨"x", [], [], 0⟩] "r") = n3 := by
  apply (C13_regsync_submit_frame _ _ _).2.2
  left; decide
/-- a tick at the tip's own timestamp is refused by `produce` -/
example : n3.produce env cfg 180 [] "r" = none := by decide

end Ru
