/-
  Core/Props/C07.lean — property theorems for C07:
  "the spendable outputs a node reports and its set of registered addresses are exactly what results from
   applying, in order and from an empty state, every block of its current chain except the last — after
   block production, after incremental adoption, after a tip swap and after a full re-sync alike."

  `Derived l` (Core/Lemmas/Replay.lean) is that statement for one ledger; `C07_invariant` proves it for
  every state reachable by ANY sequence of ticks, submissions, sync rounds (with arbitrary neighbour
  answers and any admissible selection) and registry refreshes.
-/
import Core.Lemmas.VerifyReplay
open Std

namespace Ru

theorem isDifferent_self (env : Env) (hb : List Block) : Sync.isDifferent env hb hb = false := by
  unfold Sync.isDifferent
  simp only [Nat.lt_irrefl, if_false]
  split
  · cases h : hb.getLast? with
    | none => simp
    | some a => simp
  · rfl

theorem verify_nonempty (env : Env) (cfg : Cfg) (host : Ledger) (lastHost nb oldHost v : List Block) (now : Int)
    (h : Ledger.verify env cfg host lastHost nb oldHost now = .ok v) : nb ≠ [] := by
  intro hn
  subst hn
  cases oldHost with
  | nil => simp [Ledger.verify] at h
  | cons o os => cases lastHost <;> simp [Ledger.verify] at h

/-- committing a candidate that `verify` accepted keeps "derived state = replay of chain minus tip" -/
theorem commit_derived (env : Env) (cfg : Cfg) (host : Ledger) (now : Int) (isFork : Bool) (sel : List Block)
    (hd : Derived host) (ho : CandOrigin env cfg host now isFork sel) :
    Derived (Sync.commit env isFork host sel) := by
  unfold Sync.commit
  by_cases hg : (!(Sync.isDifferent env host.blocks sel && sel.length != 0)) = true
  · simp only [hg, if_true]; exact hd
  · simp only [hg]
    simp only [Bool.false_eq_true, if_false]
    -- the selected chain is different and non-empty
    have hrepl : Sync.isDifferent env host.blocks sel = true := by
      simp at hg; exact hg.1
    cases ho with
    | host h =>
      subst h
      rw [isDifferent_self] at hrepl
      simp at hrepl
    | incremental nb hv hbs =>
      have hne := verify_nonempty env cfg host _ nb _ nb now hv
      obtain ⟨_, c, hr⟩ := verify_replays env cfg host _ nb _ nb now hv
      -- verification started from the host's confirmed state
      have hstart : (verifyStart host host.blocks.dropLast).conf = host.conf := by
        unfold verifyStart
        by_cases he : host.blocks.dropLast.isEmpty = true
        · simp only [he, if_true]
          have : host.blocks.dropLast = [] := by simpa using he
          unfold Derived at hd
          rw [this] at hd
          have hd' : Conf.empty = host.conf := Except.ok.inj hd
          rw [← hd']
          rfl
        · simp only [he]
          rfl
      rw [hstart] at hr
      have hsplit : nb = nb.dropLast ++ [nb.getLast hne] := (List.dropLast_concat_getLast hne).symm
      rw [hsplit] at hr
      obtain ⟨c1, hr1, _⟩ := Conf.replay_prefix _ _ _ _ hr
      have hseldl : sel.dropLast = host.blocks.dropLast ++ nb.dropLast := by
        rw [hbs, List.dropLast_append_of_ne_nil hne]
      cases isFork with
      | true =>
        simp only [if_true]
        -- cleared state, replay of everything but the last block
        have hall : Conf.replay (⟨host.blocks, .empty, .empty⟩ : Ledger).conf sel.dropLast = .ok c1 := by
          rw [hseldl, Conf.replay_append]
          have : (⟨host.blocks, .empty, .empty⟩ : Ledger).conf = Conf.empty := rfl
          rw [this]
          unfold Derived at hd
          rw [hd]
          exact hr1
        obtain ⟨l', hl', hc'⟩ := syncReplay_of_replay _ _ _ hall
        simp only [hl']
        rw [if_pos trivial]
        show Conf.replay Conf.empty sel.dropLast = Except.ok l'.conf
        rw [hseldl, Conf.replay_append]
        unfold Derived at hd
        rw [hd, hc']
        exact hr1
      | false =>
        simp only [Bool.false_eq_true, if_false]
        have hnew : (if host.blocks.length < sel.length then (sel.drop (host.blocks.length - 1)).dropLast else []) = nb.dropLast := by
          have hl : sel.length = host.blocks.length - 1 + nb.length := by
            rw [hbs, List.length_append, List.length_dropLast]
          split
          · have : sel.drop (host.blocks.length - 1) = nb := by
              rw [hbs]
              have : host.blocks.dropLast.length = host.blocks.length - 1 := List.length_dropLast
              rw [← this, List.drop_left]
            rw [this]
          · rename_i hlt
            have hnl : 0 < nb.length := by
              cases nb with
              | nil => exact absurd rfl hne
              | cons _ _ => simp
            have : nb.length = 1 := by
              by_cases hb0 : host.blocks.length = 0
              · omega
              · omega
            cases nb with
            | nil => simp at hne
            | cons x xs =>
              have : xs = [] := by
                cases xs with
                | nil => rfl
                | cons y ys => simp at this
              subst this
              simp
        rw [hnew]
        obtain ⟨l', hl', hc'⟩ := syncReplay_of_replay host nb.dropLast c1 hr1
        simp only [hl']
        rw [if_pos trivial]
        show Conf.replay Conf.empty sel.dropLast = Except.ok l'.conf
        rw [hseldl, Conf.replay_append]
        unfold Derived at hd
        rw [hd, hc']
        exact hr1
    | full hf nb hv hbs =>
      subst hf
      subst hbs
      have hne := verify_nonempty env cfg host _ sel _ sel now hv
      obtain ⟨_, c, hr⟩ := verify_replays env cfg host _ sel [] sel now hv
      have hstart : (verifyStart host []).conf = Conf.empty := rfl
      rw [hstart] at hr
      have hsplit : sel = sel.dropLast ++ [sel.getLast hne] := (List.dropLast_concat_getLast hne).symm
      rw [hsplit] at hr
      obtain ⟨c1, hr1, _⟩ := Conf.replay_prefix _ _ _ _ hr
      simp only [if_true]
      have hall : Conf.replay (⟨host.blocks, .empty, .empty⟩ : Ledger).conf sel.dropLast = .ok c1 := hr1
      obtain ⟨l', hl', hc'⟩ := syncReplay_of_replay _ _ _ hall
      simp only [hl']
      rw [if_pos trivial]
      show Conf.replay Conf.empty sel.dropLast = Except.ok l'.conf
      rw [hc']
      exact hr1

theorem selectionSet_subset_cands (ch : Sync.Choice) (sel : List Block) (h : sel ∈ Sync.selectionSet ch) :
    ∃ t, (t, sel) ∈ ch.survivors := by
  unfold Sync.selectionSet at h
  split at h
  · simp at h
  · simp only [List.mem_map, List.mem_filter] at h
    obtain ⟨⟨t, bs⟩, ⟨hm, _⟩, rfl⟩ := h
    exact ⟨t, hm⟩

theorem survivors_subset_cands (env : Env) (cfg : Cfg) (host : Ledger) (now : Int) (resps : List Resp)
    (x : String × List Block) (h : x ∈ (Sync.choose env cfg host now resps).survivors) :
    x ∈ (Sync.choose env cfg host now resps).cands := by
  unfold Sync.choose at h ⊢
  simp only [] at h ⊢
  have h1 := (List.mem_filter.mp h).1
  unfold Sync.majorityFilter at h1
  exact (List.mem_filter.mp h1).1

/-- every outcome of a sync round satisfies C07 when the host did -/
theorem outcomes_derived (env : Env) (cfg : Cfg) (host : Ledger) (now : Int) (resps : List Resp)
    (hd : Derived host) (l : Ledger) (hl : l ∈ Sync.outcomes env cfg host now resps) : Derived l := by
  unfold Sync.outcomes at hl
  simp only [] at hl
  cases hs : Sync.selectionSet (Sync.choose env cfg host now resps) with
  | nil =>
    rw [hs] at hl
    simp at hl; subst hl; exact hd
  | cons s0 ss =>
    rw [hs] at hl
    simp only [List.mem_map] at hl
    obtain ⟨sel, hm, rfl⟩ := hl
    have hm' : sel ∈ Sync.selectionSet (Sync.choose env cfg host now resps) := by rw [hs]; exact hm
    obtain ⟨t, hst⟩ := selectionSet_subset_cands _ sel hm'
    have hc := survivors_subset_cands env cfg host now resps _ hst
    exact commit_derived env cfg host now _ sel hd (choose_origin env cfg host now resps _ hc)

/-- a successful production is an `AddBlock` on the node's ledger -/
theorem produce_addBlock (env : Env) (cfg : Cfg) (n n' : Node) (ts : Int) (perm : List Tx) (rid : String)
    (h : n.produce env cfg ts perm rid = some n') :
    ∃ txs addrs, n.led.addBlock env ts txs addrs = .ok n'.led := by
  unfold Node.produce at h
  simp only [] at h
  split_ifs at h
  all_goals
    cases hu : n.led.utxos.update n.led.lastTxs (n.led.lastTs + cfg.interval) with
    | error e => simp [hu] at h
    | ok copy =>
      simp only [hu] at h
      split at h
      · simp at h
      · rename_i led' ha
        injection h with h
        subst h
        exact ⟨_, _, ha⟩

/-- block production keeps C07 -/
theorem addBlock_derived (env : Env) (l l' : Ledger) (ts : Int) (txs : List Tx) (newAddrs : List String)
    (hd : Derived l) (h : l.addBlock env ts txs newAddrs = .ok l') : Derived l' := by
  obtain ⟨_, c, hc, h⟩ := Ledger.addBlock_inv h
  · subst h
    obtain ⟨hb, hr⟩ := confirmLast_replays_all l c hd hc
    unfold Derived
    simp only [List.dropLast_concat]
    rw [hb]
    simpa [Ledger.conf] using hr

/-- **C07.** In every reachable state — after any interleaving (at operation granularity) of block
    production, transaction submission, registry refreshes and sync rounds against arbitrary neighbours —
    the node's outputs and registered addresses are the replay, from the empty state, of its chain minus
    the last block. -/
theorem C07_invariant (env : Env) (cfg : Cfg) (n : Node) (h : Reachable env cfg n) : Derived n.led := by
  refine Reachable.induction (env := env) (cfg := cfg) (fun n => Derived n.led) ?_ ?_ n h
  · simp [Derived, Node.empty, Ledger.empty, Conf.replay, Ledger.conf, Conf.empty, AddrReg.empty]
  · intro n o _ hd _
    cases o with
    | tick ts perm rewardId =>
      simp only [step]
      split
      · cases hp : n.produce env cfg ts perm rewardId with
        | none => simpa using hd
        | some n' =>
          simp only [Option.getD_some]
          obtain ⟨txs, addrs, ha⟩ := produce_addBlock env cfg n n' ts perm rewardId hp
          exact addBlock_derived env _ _ _ _ _ hd ha
      · exact hd
    | submit tx =>
      simp only [step, Node.admitTx]
      split <;> exact hd
    | sync now resps pick =>
      simp only [step]
      split
      · rename_i l hl
        exact outcomes_derived env cfg n.led now resps hd l (List.mem_of_getElem? hl)
      · exact hd
    | regsync newly =>
      simp only [step]
      split
      · unfold Derived at hd ⊢
        simp only [Ledger.conf] at hd ⊢
        cases newly with
        | nil => simpa [AddrReg.appendPending] using hd
        | cons a as => simpa [AddrReg.appendPending] using hd
      · exact hd

/-- corollary in the property's words: what `Utxos(address)` reports is what the replay reports -/
theorem C07_reported_outputs (env : Env) (cfg : Cfg) (n : Node) (h : Reachable env cfg n) :
    ∃ c, Conf.replay Conf.empty n.led.blocks.dropLast = .ok c ∧
      (∀ a, n.led.utxos.utxos a = c.utxos.utxos a) ∧
      (∀ a, n.led.reg.isRegistered a = c.registered.contains a) := by
  refine ⟨n.led.conf, C07_invariant env cfg n h, ?_, ?_⟩ <;> intro a <;> rfl

/-- non-vacuity: the empty node is reachable and a first block can be produced from it -/
example (env : Env) (cfg : Cfg) : Reachable env cfg Node.empty := Reachable.empty env cfg

end Ru
