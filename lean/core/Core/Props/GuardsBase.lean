/-
  Core/Props/GuardsBase.lean — Int64 facts used by the theorems over the regenerated integer guards.
-/
open Std

namespace Ru

/-- the value fits in Go's int64 -/
def I64ok (x : Int) : Prop := -(2 ^ 63) ≤ x ∧ x < 2 ^ 63

theorem Int64.toInt_add_of_ok (a b : Int64) (h : I64ok (a.toInt + b.toInt)) : (a + b).toInt = a.toInt + b.toInt := by
  rw [Int64.toInt_add]
  unfold I64ok at h
  apply Int.bmod_eq_of_le <;> omega

theorem Int64.bne_iff (a b : Int64) : (a != b) = decide (a.toInt ≠ b.toInt) := by
  by_cases h : a = b
  · subst h; simp
  · have : a.toInt ≠ b.toInt := fun e => h (Int64.toInt_inj.mp e)
    simp [h, this]

theorem Int64.beq_iff (a b : Int64) : (a == b) = decide (a.toInt = b.toInt) := by
  by_cases h : a = b
  · subst h; simp
  · have : a.toInt ≠ b.toInt := fun e => h (Int64.toInt_inj.mp e)
    simp [h, this]

example : I64ok ((1700000000000000000 : Int64).toInt + (60000000000 : Int64).toInt) := by
  unfold I64ok; decide

end Ru
