/-
  Core/Props/GuardsBase.lean — Int64 facts used by the theorems over the regenerated integer guards.
-/
open Std

namespace Ru

/-- the value fits in Go's int64 -/
def I64ok (x : Int) : Prop := -(2 ^ 63) ≤ x ∧ x < 2 ^ 63

theorem Int64.toInt_add_of_ok (a b : Int64) (h : I64ok (a.toInt + b.toInt)) : (a + b).toInt = a.toInt + b.toInt := by
  rw [Int64.toInt_add]
  unfold I64ok at h
  apply Int.bmod_eq_of_le <;> omega

theorem Int64.bne_iff (a b : Int64) : (a != b) = decide (a.toInt ≠ b.toInt) := by
  by_cases h : a = b
  · subst h; simp
  · have : a.toInt ≠ b.toInt := fun e => h (Int64.toInt_inj.mp e)
    simp [h, this]

theorem Int64.beq_iff (a b : Int64) : (a == b) = decide (a.toInt = b.toInt) := by
  by_cases h : a = b
  · subst h; simp
  · have : a.toInt ≠ b.toInt := fun e => h (Int64.toInt_inj.mp e)
    simp [h, this]

/-- Go's overflow test for `a + b` with `b ≥ 0`: the wrapped sum is below `a` exactly when the exact sum does not fit;
    when it fits, the wrapped sum is the exact one -/
theorem Int64.add_wraps_iff (a b : Int64) (hb : 0 ≤ b.toInt) :
    ((a + b < a) ↔ 2 ^ 63 ≤ a.toInt + b.toInt) ∧ (a.toInt + b.toInt < 2 ^ 63 → (a + b).toInt = a.toInt + b.toInt) := by
  have ha1 := Int64.toInt_lt a
  have ha2 := Int64.le_toInt a
  have hb1 := Int64.toInt_lt b
  rw [Int64.lt_iff_toInt_lt, Int64.toInt_add]
  constructor
  · constructor
    · intro h
      apply Decidable.byContradiction
      intro hn
      have : (a.toInt + b.toInt).bmod (2 ^ 64) = a.toInt + b.toInt := by
        apply Int.bmod_eq_of_le <;> omega
      omega
    · intro h
      have : (a.toInt + b.toInt).bmod (2 ^ 64) = a.toInt + b.toInt - 2 ^ 64 := by
        rw [Int.bmod_def]
        have h1 : (a.toInt + b.toInt) % ((2 ^ 64 : Nat) : Int) = a.toInt + b.toInt := by
          apply Int.emod_eq_of_lt <;> omega
        rw [h1]
        split <;> omega
      omega
  · intro h
    apply Int.bmod_eq_of_le <;> omega

example : I64ok ((1700000000000000000 : Int64).toInt + (60000000000 : Int64).toInt) := by
  unfold I64ok; decide

end Ru
