/-
  Core/Props/C05hist.lean — C05 (full re-sync) lifted from one produced block to whole producer histories:
  once a producer's chain is acceptable from height 0, it stays acceptable — to ANY verifying host, at any later
  time — after any history of on-schedule ticks (whatever the pool, the shuffles, the submissions and the registry
  refreshes in between).  Induction over the history with `C05_resync_general` as the step.
-/
import Core.Props.C05
import Core.Lemmas.Shape
open Std

set_option maxRecDepth 100000

namespace Ru
open SL.SyncEx

/-- what a solo producer does: on-schedule ticks on a non-empty chain whose tip is not dated 0, with reward ids that
    are new (they are hashes of the reward transaction), submissions, registry refreshes — no sync round -/
def SoloStep (cfg : Cfg) (n : Node) : Op → Prop
  | .tick ts perm rid =>
      n.led.blocks ≠ [] ∧ ts = n.led.lastTs + cfg.interval ∧ n.led.lastTs ≠ 0 ∧ ts ≠ 0 ∧
      (∀ blk ∈ n.led.blocks, ∀ t ∈ blk.txs, t.id ≠ rid) ∧ (∀ t ∈ perm, t.id ≠ rid)
  | .submit _ => True
  | .regsync _ => True
  | .sync _ _ _ => False

/-- acceptable from height 0 by `host`/`lastHost` at every time from `t` on -/
def AcceptedFrom (env : Env) (cfg : Cfg) (host : Ledger) (lastHost : List Block) (bs : List Block) (t : Int) : Prop :=
  ∀ now, t ≤ now → Ledger.verify env cfg host lastHost bs [] now = .ok bs

theorem C05_solo_step (env : Env) (cfg : Cfg) (hmin : 1 ≤ cfg.minFee) (hI : 0 ≤ cfg.interval)
    (host : Ledger) (lastHost : List Block) (n : Node) (hn : Reachable env cfg n) (op : Op) (hs : SoloStep cfg n op)
    (hacc : AcceptedFrom env cfg host lastHost n.led.blocks n.led.lastTs) :
    AcceptedFrom env cfg host lastHost (Ru.step env cfg n op).led.blocks (Ru.step env cfg n op).led.lastTs := by
  cases op with
  | tick ts perm rid =>
    obtain ⟨hne, hsched, htip0, hts0, hfresh, hfreshP⟩ := hs
    simp only [step]
    split
    · cases hprod : n.produce env cfg ts perm rid with
      | none => simpa using hacc
      | some n' =>
        simp only [Option.getD_some]
        obtain ⟨tip, hlast⟩ : ∃ tip, n.led.blocks.getLast? = some tip := by
          cases h : n.led.blocks.getLast? with
          | none => exact absurd (List.getLast?_eq_none_iff.mp h) hne
          | some t => exact ⟨t, rfl⟩
        have hchain : n.led.blocks = n.led.blocks.dropLast ++ [tip] := Ru.dropLast_append_getLast? n.led.blocks tip hlast
        have hlt : n.led.lastTs = tip.ts := ShapeL.lastTs_of_getLast hlast
        have hsched' : ts = tip.ts + cfg.interval := by rw [hsched, hlt]
        have htip0' : tip.ts ≠ 0 := by rw [← hlt]; exact htip0
        -- the new tip is dated `ts`
        obtain ⟨b, hb, hbts, _⟩ := C05_resync_general env cfg n n' host lastHost ts perm rid n.led.blocks.dropLast tip
          ts n.led.lastTs hn hchain hprod hsched' hmin htip0' hts0 (Int.le_refl _) hfresh hfreshP
          (by rw [hsched]; omega) (hacc _ (Int.le_refl _))
        have hl' : n'.led.lastTs = ts := by
          have : n'.led.blocks.getLast? = some b := by rw [hb]; simp
          rw [ShapeL.lastTs_of_getLast this, hbts]
        intro now hnow
        rw [hl'] at hnow
        obtain ⟨_, _, _, h⟩ := C05_resync_general env cfg n n' host lastHost ts perm rid n.led.blocks.dropLast tip
          now n.led.lastTs hn hchain hprod hsched' hmin htip0' hts0
          hnow hfresh hfreshP (by rw [hsched] at hnow; omega) (hacc _ (Int.le_refl _))
        exact h
    · exact hacc
  | submit tx =>
    have : (Ru.step env cfg n (.submit tx)).led = n.led := by
      simp only [step, Node.admitTx]; split <;> rfl
    rw [this]; exact hacc
  | regsync newly =>
    have hb : (Ru.step env cfg n (.regsync newly)).led.blocks = n.led.blocks := by
      simp only [step]; split <;> rfl
    have hl : (Ru.step env cfg n (.regsync newly)).led.lastTs = n.led.lastTs := by
      unfold Ledger.lastTs; rw [hb]
    rw [hb, hl]; exact hacc
  | sync now resps pick => exact absurd hs (by simp [SoloStep])

/-- **C05 over producer histories (full re-sync).**  A reachable producer whose chain is acceptable from height 0
    (to the given verifier, from the tip's date on) keeps an acceptable chain through every history of on-schedule
    ticks, submissions and registry refreshes: at every time not before its tip, a peer that asks for the whole chain
    verifies it successfully. -/
theorem C05_solo_history (env : Env) (cfg : Cfg) (hmin : 1 ≤ cfg.minFee) (hI : 0 ≤ cfg.interval)
    (host : Ledger) (lastHost : List Block) :
    ∀ (ops : List Op) (n : Node), Reachable env cfg n → (∀ o ∈ ops, o.WF) → Along env cfg (SoloStep cfg) n ops →
      AcceptedFrom env cfg host lastHost n.led.blocks n.led.lastTs →
      AcceptedFrom env cfg host lastHost (Ru.run env cfg n ops).led.blocks (Ru.run env cfg n ops).led.lastTs := by
  intro ops
  induction ops with
  | nil => intro n _ _ _ h; simpa [run] using h
  | cons o os ih =>
    intro n hn hw ha hacc
    obtain ⟨ho, hrest⟩ := ha
    have : Ru.run env cfg n (o :: os) = Ru.run env cfg (Ru.step env cfg n o) os := by simp [run]
    rw [this]
    exact ih _ (hn.next o (hw o (by simp))) (fun x hx => hw x (by simp [hx])) hrest
      (C05_solo_step env cfg hmin hI host lastHost n hn o ho hacc)

/-- non-vacuity: the three-block chain of `n3` is acceptable from scratch (checked at its tip's date, then by
    monotonicity); the history "submit `t1`, tick at 240 including it, empty tick at 300" meets `SoloStep` at every
    step; hence a fresh peer accepts the five-block chain at time 400 -/
example : Ledger.verify env cfg Node.empty.led [] (Ru.run env cfg n3 [.submit C05ex.tx, .tick 240 [C05ex.tx] "r3", .tick 300 [] "r4"]).led.blocks [] 400
    = .ok (Ru.run env cfg n3 [.submit C05ex.tx, .tick 240 [C05ex.tx] "r3", .tick 300 [] "r4"]).led.blocks := by
  have hacc : AcceptedFrom env cfg Node.empty.led [] n3.led.blocks n3.led.lastTs := by
    intro now hnow
    have h0 : Ledger.verify env cfg Node.empty.led [] n3.led.blocks [] 180 = .ok n3.led.blocks := by rfl
    exact Ledger.agree_verify_mono h0 (by have : n3.led.lastTs = 180 := by decide
                                          omega)
  have hw : ∀ o ∈ ([.submit C05ex.tx, .tick 240 [C05ex.tx] "r3", .tick 300 [] "r4"] : List Op), o.WF := by
    intro o ho
    simp only [List.mem_cons, List.mem_nil_iff, or_false] at ho
    rcases ho with rfl | rfl | rfl
    · simp only [Op.WF]; decide
    · simp [Op.WF]
    · simp [Op.WF]
  have ha : Along env cfg (SoloStep cfg) n3 [.submit C05ex.tx, .tick 240 [C05ex.tx] "r3", .tick 300 [] "r4"] := by
    refine ⟨trivial, ?_, ?_, trivial⟩
    · show SoloStep cfg (Ru.step env cfg n3 (.submit C05ex.tx)) (.tick 240 [C05ex.tx] "r3")
      simp only [SoloStep]
      refine ⟨by decide, by decide, by decide, by decide, by decide, by decide⟩
    · show SoloStep cfg (Ru.step env cfg (Ru.step env cfg n3 (.submit C05ex.tx)) (.tick 240 [C05ex.tx] "r3")) (.tick 300 [] "r4")
      simp only [SoloStep]
      refine ⟨by decide, by decide, by decide, by decide, by decide, by decide⟩
  have := C05_solo_history env cfg (by decide) (by decide) Node.empty.led [] _ n3 C05ex.reach3 hw ha hacc 400
    (by have : (Ru.run env cfg n3 [.submit C05ex.tx, .tick 240 [C05ex.tx] "r3", .tick 300 [] "r4"]).led.lastTs = 300 := by decide
        omega)
  exact this

end Ru
