/-
  Core/Props/C08gen.lean — the arithmetic of `(*Blockchain).Blocks` REGENERATED from blockchain.go on every run
  (`Gen.blocksRange`, Core/GenBlocks.lean, by harness/cmd/ruextract-arith: Go's wrapping uint64 arithmetic as Lean
  `UInt64`) against the hand-written model `Ledger.page`:
    * `C14_blocks_no_slice_panic` : for EVERY requested height (all 2^64 of them) the slice bounds are in order and within
      the chain — the request cannot make `Blocks` panic;
    * `C08_blocks_gen_eq_page`    : the slice the code takes is the page of the model, so the paging theorems of C08
      (`C08_page_*`, `C08_pages_*`) are theorems about the code's own arithmetic.
  Hypotheses: the chain has fewer than 2^63 blocks (a Go slice length is an `int`), the page limit is below 2^63 (a
  node setting, not peer input; with a limit near 2^64 the sum `start + limit` of the code would wrap).
-/
import Core.GenBlocks
import Core.Chain
open Std

namespace Ru

theorem ofNat_toNat_of_lt {n : Nat} (h : n < 2 ^ 63) : (UInt64.ofNat n).toNat = n := by
  rw [UInt64.toNat_ofNat']
  omega

/-- what the generated bounds are, in natural numbers -/
theorem Gen_blocksRange_spec (s l : UInt64) (n : Nat) (hn : n < 2 ^ 63) (hl : l.toNat < 2 ^ 63) :
    Gen.blocksRange s l n =
      if n = 0 ∨ s.toNat > n - 1 ∨ l.toNat = 0 then none
      else if s.toNat + l.toNat < n then some (s, s + l)
      else some (s, UInt64.ofNat n) := by
  unfold Gen.blocksRange
  have hs := UInt64.toNat_lt s
  have hnn : (UInt64.ofNat n).toNat = n := ofNat_toNat_of_lt hn
  by_cases h0 : n = 0
  · subst h0; simp
  · have hsub : (UInt64.ofNat n - 1).toNat = n - 1 := by
      rw [UInt64.toNat_sub, hnn]
      have : (1 : UInt64).toNat = 1 := rfl
      rw [this]; omega
    have hgt : (s > UInt64.ofNat n - 1) ↔ s.toNat > n - 1 := by
      show (UInt64.ofNat n - 1 < s) ↔ _
      rw [UInt64.lt_iff_toNat_lt, hsub]
    have hl0 : (l == (0 : UInt64)) = decide (l.toNat = 0) := by
      by_cases e : l = 0
      · subst e; simp
      · have : l.toNat ≠ 0 := fun h => e (UInt64.toNat_inj.mp (by simpa using h))
        simp [e, this]
    have hn0 : (n == 0) = false := by simpa using h0
    simp only [hn0, Bool.false_or, hl0, h0, false_or]
    by_cases hg : s.toNat > n - 1
    · have : decide (s > UInt64.ofNat n - 1) = true := by simpa using hgt.mpr hg
      simp [this, hg]
    · have : decide (s > UInt64.ofNat n - 1) = false := by
        simpa using fun h => hg (hgt.mp h)
      simp only [this, Bool.false_or, hg, false_or]
      by_cases hz : l.toNat = 0
      · simp [hz]
      · simp only [hz, decide_false, Bool.false_eq_true, if_false]
        have hadd : (s + l).toNat = s.toNat + l.toNat := by
          rw [UInt64.toNat_add]; omega
        have hlt : (s + l < UInt64.ofNat n) ↔ s.toNat + l.toNat < n := by
          rw [UInt64.lt_iff_toNat_lt, hadd, hnn]
        by_cases hc : s.toNat + l.toNat < n
        · have : decide (s + l < UInt64.ofNat n) = true := by simpa using hlt.mpr hc
          simp [this, hc]
        · have : decide (s + l < UInt64.ofNat n) = false := by simpa using fun h => hc (hlt.mp h)
          simp [this, hc]

/-- **C14, for all 2^64 request heights**: the bounds `Blocks` slices with are in order and within the chain -/
theorem C14_blocks_no_slice_panic (s l : UInt64) (n : Nat) (hn : n < 2 ^ 63) (hl : l.toNat < 2 ^ 63) (a b : UInt64)
    (h : Gen.blocksRange s l n = some (a, b)) : a.toNat ≤ b.toNat ∧ b.toNat ≤ n := by
  rw [Gen_blocksRange_spec s l n hn hl] at h
  have hs := UInt64.toNat_lt s
  split at h
  · cases h
  · rename_i hc
    split at h
    · rename_i hlt
      injection h with h
      injection h with ha hb
      subst ha; subst hb
      have hadd : (s + l).toNat = s.toNat + l.toNat := by rw [UInt64.toNat_add]; omega
      rw [hadd]; omega
    · injection h with h
      injection h with ha hb
      subst ha; subst hb
      rw [ofNat_toNat_of_lt hn]
      omega

/-- **C08: the code's slice is the model's page** -/
theorem C08_blocks_gen_eq_page (bs : List Block) (s l : UInt64) (hn : bs.length < 2 ^ 63) (hl : l.toNat < 2 ^ 63) :
    (match Gen.blocksRange s l bs.length with
      | none => []
      | some (a, b) => (bs.take b.toNat).drop a.toNat) = Ledger.page l.toNat bs s.toNat := by
  rw [Gen_blocksRange_spec s l bs.length hn hl]
  unfold Ledger.page
  have hs := UInt64.toNat_lt s
  by_cases h0 : bs.length = 0
  · have : bs = [] := List.eq_nil_of_length_eq_zero h0
    subst this; simp
  · have hne : bs.isEmpty = false := by
      cases bs with
      | nil => simp at h0
      | cons _ _ => rfl
    by_cases hg : s.toNat > bs.length - 1
    · simp [h0, hg, hne]
    · by_cases hz : l.toNat = 0
      · simp [h0, hg, hz, hne]
      · have hz' : (l.toNat == 0) = false := by simpa using hz
        have hg' : decide (s.toNat > bs.length - 1) = false := by simpa using hg
        simp only [h0, hg, hz, false_or, if_false, hne, hg', hz', Bool.false_or, Bool.false_eq_true]
        by_cases hc : s.toNat + l.toNat < bs.length
        · have hadd : (s + l).toNat = s.toNat + l.toNat := by rw [UInt64.toNat_add]; omega
          simp only [hc, if_true, hadd]
          rw [List.drop_take]
          congr 1
          omega
        · simp only [hc, if_false, ofNat_toNat_of_lt hn]
          rw [List.take_of_length_le (Nat.le_refl _)]
          simp

-- non-vacuity / the boundary case of the seeded change C14-d: height 2^64 − 1 on a three-block chain, pages of 2
example : Gen.blocksRange 18446744073709551615 2 3 = none := by decide
example : Gen.blocksRange 1 2 3 = some (1, 3) := by decide
example : Gen.blocksRange 0 2 3 = some (0, 2) := by decide

end Ru
