/-
  Core/Props/C04.lean — block shape, block-level part: what `verifyBlock` enforces of an adopted block and what
  `Validate`/`AddBlock` build.  (Chain-level theorems are added separately.)
-/
import Core.Lemmas.Fee
import Core.Props.C01
import Core.Props.C11
open Std

namespace Ru

/-- C04 (adopted blocks): a block that passes `verifyBlock` is dated exactly one validation interval after the
    previous block and not after the adopting node's current time; it carries exactly one reward transaction;
    every ordinary transaction is dated no earlier than the previous block and no later than the block. -/
theorem C04_verifyBlock_shape (env : Env) (cfg : Cfg) (l : Ledger) (b : Block) (prevTs now : Int)
    (h : Ledger.verifyBlock env cfg l b prevTs now = .ok ()) :
    b.ts = prevTs + cfg.interval ∧ b.ts ≤ now ∧ (b.txs.filter (·.hasReward)).length = 1 ∧
    ∀ t ∈ b.txs, t.hasReward = false → prevTs ≤ t.ts ∧ t.ts ≤ b.ts := by
  obtain ⟨h1, h2, ⟨rt, hrt, _⟩, hall⟩ := Ledger.fee_verifyBlock_ok h
  refine ⟨h1, h2, by rw [hrt]; rfl, ?_⟩
  intro t ht hr
  obtain ⟨h3, h4, _⟩ := hall t ht hr
  exact ⟨h3, h4⟩

example : Ledger.verifyBlock C01ex.env C01ex.cfg C01ex.led C01ex.b2 10 20 = .ok () := by rfl
/-- wrong spacing, a block from the future, a missing reward and a stale transaction are all refused -/
example : (Ledger.verifyBlock C01ex.env C01ex.cfg C01ex.led { C01ex.b2 with ts := 16 } 10 20).isOk = false := by rfl
example : (Ledger.verifyBlock C01ex.env C01ex.cfg C01ex.led C01ex.b2 10 14).isOk = false := by rfl
example : (Ledger.verifyBlock C01ex.env C01ex.cfg C01ex.led { C01ex.b2 with txs := [C01ex.tx2] } 10 20).isOk = false := by rfl
example : (Ledger.verifyBlock C01ex.env C01ex.cfg C01ex.led
    { C01ex.b2 with txs := [{ C01ex.tx2 with ts := 9 }, ⟨"r2", [], [⟨"V", false, 3⟩], 15⟩] } 10 20).isOk = false := by rfl

/-- C04 (adopted blocks): a block dated 0 — the value the pool reads as "no block yet" — is never accepted. -/
theorem C04_verifyBlock_ts_nonzero (env : Env) (cfg : Cfg) (l : Ledger) (b : Block) (prevTs now : Int)
    (h : Ledger.verifyBlock env cfg l b prevTs now = .ok ()) : b.ts ≠ 0 :=
  Ledger.fee_verifyBlock_ts_ne_zero h

example : (Ledger.verifyBlock C01ex.env C01ex.cfg C01ex.led { C01ex.b2 with ts := 0 } (-5) 20).isOk = false := by rfl

/-- C04 (produced blocks): the block a tick appends links to the previous tip by hash (the zero hash for a first
    block), is dated at the tick's timestamp — hence exactly one interval after the previous block when the
    tick is on schedule; a tick on a non-empty chain is only accepted at a time different from the last
    block's and not beyond the next block time — and every ordinary transaction in it is dated between the
    previous block and the block; with a positive minimal fee it carries exactly one reward transaction. -/
theorem C04_produced_shape (env : Env) (cfg : Cfg) (n n' : Node) (ts : Int) (perm : List Tx) (rewardId : String)
    (h : n.produce env cfg ts perm rewardId = some n') :
    ∃ b, n'.led.blocks = n.led.blocks ++ [b] ∧
      b.prevHash = (match n.led.blocks.getLast? with | some p => env.hash p | none => zeroHash) ∧
      b.ts = ts ∧
      (ts = n.led.lastTs + cfg.interval → b.ts = n.led.lastTs + cfg.interval) ∧
      (n.led.lastTs = 0 ∨ (ts ≠ n.led.lastTs ∧ ts ≤ n.led.lastTs + cfg.interval)) ∧
      (∀ t ∈ b.txs, t.hasReward = false → n.led.lastTs ≤ t.ts ∧ t.ts ≤ b.ts) ∧
      (1 ≤ cfg.minFee → (b.txs.filter (·.hasReward)).length = 1) := by
  have hwin := (Node.fee_produce_some h).1
  obtain ⟨_, copy, c, kept, fees, _, hc, hb, _, _, _, _, hk, _, _, _, _, hv, _⟩ :=
    C11_produce_spec env cfg n n' ts perm rewardId h
  refine ⟨_, hb, ?_, rfl, fun e => e, hwin, ?_, ?_⟩
  · simp only [Ledger.mkBlock, Ledger.prevHashOf, Ledger.fee_confirmLast_blocks hc]
    cases n.led.blocks.getLast? <;> rfl
  · intro t ht hr
    simp only [Ledger.mkBlock, List.mem_append, List.mem_singleton] at ht
    rcases ht with ht | rfl
    · obtain ⟨h1, h2, _⟩ := hk t ht
      exact ⟨h1, h2⟩
    · simp [Node.rewardTx, Tx.hasReward] at hr
  · intro hmin
    simp only [Ledger.mkBlock]
    rw [(hv hmin).2.1]; rfl

example : (C11ex.node1.produce C11ex.env C11ex.cfg 15 [C11ex.tx] "r2").isSome = true := by rfl
example : ((C11ex.node1.produce C11ex.env C11ex.cfg 15 [C11ex.tx] "r2").map
    (fun n' => n'.led.blocks.getLast?.map (fun b => (b.prevHash, b.ts)))) = some (some ("10", 15)) := by rfl

/-- OBSERVATION: a tick dated BEFORE the last block passes `Validate`'s own tests (only `= last` and
    `> last + interval` are refused there) and is refused by `AddBlock`'s not-after-tip guard (fix: commit); a tick
    strictly between `last` and `last + interval` still produces an off-grid block, so the spacing of a produced
    block is `interval` only for an on-schedule tick (`ts = last + interval`, the clock's obligation);
    here last = 10: a tick at 7 is refused, a tick at 12 produces a block dated 12. -/
example : C11ex.node1.produce C11ex.env C11ex.cfg 7 [C11ex.tx] "r2" = none := by rfl
example : ((C11ex.node1.produce C11ex.env C11ex.cfg 12 [C11ex.tx] "r2").map
    (fun n' => n'.led.blocks.map (·.ts))) = some [5, 10, 12] := by rfl

end Ru
