/-
  Core/Props/C05.lean — C05 (agreement):
  "Whatever an honest node's pool contains, the block it produces on top of a chain is accepted by every honest
   node that holds that same chain under the same settings — whether the block reaches it as an extension of
   its tip, as a competitor to its own tip, or as part of a full re-sync from the first block."

  Setting of every theorem: `n` reachable, non-empty chain `old ++ [tip]`, a tick ON SCHEDULE
  (`ts = tip.ts + cfg.interval`) that produces `n'`, positive minimal fee, `tip.ts ≠ 0` (the model, like the Go
  code, treats a last-block timestamp 0 as "empty chain"), `ts ≠ 0` (a block dated 0 is refused by every
  verifier), `ts ≤ now` at the verifier, and a FRESH reward id:
  `rid` is not the id of a transaction of the chain nor of the pool order tried.
-/
import Core.Lemmas.Agree
import Core.Props.C07
import Core.Props.C12
open Std

set_option maxRecDepth 100000

namespace Ru

/-- C05 (extension of the tip): a reachable peer holding the same chain accepts `[tip, b]` offered on top of the
    blocks below its tip. -/
theorem C05_extension (env : Env) (cfg : Cfg) (n n' p : Node) (ts : Int) (perm : List Tx) (rid : String)
    (old : List Block) (tip : Block) (now : Int)
    (hn : Reachable env cfg n) (hp : Reachable env cfg p)
    (hchain : n.led.blocks = old ++ [tip])
    (hprod : n.produce env cfg ts perm rid = some n')
    (hsched : ts = tip.ts + cfg.interval) (hmin : 1 ≤ cfg.minFee) (htip0 : tip.ts ≠ 0) (hts0 : ts ≠ 0)
    (hnow : ts ≤ now)
    (hfresh : ∀ blk ∈ n.led.blocks, ∀ t ∈ blk.txs, t.id ≠ rid) (hfreshP : ∀ t ∈ perm, t.id ≠ rid)
    (hsame : p.led.blocks = n.led.blocks) :
    ∃ b, n'.led.blocks = n.led.blocks ++ [b] ∧ b.ts = ts ∧
      Ledger.verify env cfg p.led [tip] [tip, b] p.led.blocks.dropLast now = .ok [tip, b] := by
  have hdn := C07_invariant env cfg n hn
  have hdp := C07_invariant env cfg p hp
  obtain ⟨hpu, hpr⟩ := agree_derived_same hdp hdn hsame
  -- freshness against the confirmed registry and the tip
  have hf1 : n.led.utxos.byId[rid]? = none := by
    apply agree_derived_byId_none hdn
    intro b hb
    exact hfresh b (List.dropLast_subset _ hb)
  have hf2 : ∀ t ∈ tip.txs, t.id ≠ rid := hfresh tip (by rw [hchain]; simp)
  -- hash link of the tip
  have hlink : tip.prevHash = SL.prevHashOpt env old.getLast? := by
    have := (SL.linked_iff env _).mp (C12_chain_linked_invariant env cfg n hn)
    rw [hchain, SL.linkedFrom_append] at this
    have h2 := this.2
    simp only [SL.linkedFrom] at h2
    rw [h2.1]
    unfold SL.tipHash SL.prevHashOpt
    rfl
  have hdl : p.led.blocks.dropLast = old := by rw [hsame, hchain]; simp
  rw [hdl]
  -- the state the loop starts from
  have hstart : ∃ s : Ledger,
      (if old.isEmpty then (⟨[], .empty, .empty⟩ : Ledger) else ⟨old, p.led.utxos, p.led.reg⟩) = s ∧
      s.utxos = n.led.utxos ∧ s.reg.registered = n.led.reg.registered := by
    cases hold : old with
    | nil =>
      have hb1 : n.led.blocks = [tip] := by rw [hchain, hold]; rfl
      obtain ⟨e1, e2⟩ := agree_derived_single hdn hb1
      exact ⟨_, rfl, by simp [e1], by simp [e2, AddrReg.empty]⟩
    | cons x xs => exact ⟨_, rfl, by simpa using hpu, by simpa using hpr⟩
  obtain ⟨s, hs, hsu, hsr⟩ := hstart
  obtain ⟨b, hb, hbts, nl, fin, hloop, hadd⟩ := Ledger.agree_extension_loop env cfg n n' ts perm rid old tip now s
    hprod hchain hsched hmin htip0 hts0 hnow hlink hf1 hf2 hfreshP hsu hsr
  refine ⟨b, by rw [hb, hchain]; simp, hbts, ?_⟩
  rw [SL.verify_eq, hs]
  have e1 : (old.isEmpty && decide ([tip, b].length < 2)) = false := by simp
  have e2 : (!old.isEmpty && SL.forkCond [tip] [tip, b]) = false := by simp [SL.forkCond]
  rw [e1, e2]
  simp only [Bool.false_eq_true, if_false]
  rw [hloop]
  simp only
  rw [hadd]


/-- C05 (competitor to the peer's own tip), the statement without the no-re-creation hypothesis.  Not proved and
    not refuted here; see `C05_competitor_partial`. -/
def C05_competitor_full : Prop :=
  ∀ (env : Env) (cfg : Cfg) (n n' p : Node) (ts : Int) (perm : List Tx) (rid : String)
    (old : List Block) (tip b' : Block) (now : Int),
    Reachable env cfg n → Reachable env cfg p →
    n.led.blocks = old ++ [tip] →
    n.produce env cfg ts perm rid = some n' →
    ts = tip.ts + cfg.interval → 1 ≤ cfg.minFee → tip.ts ≠ 0 → ts ≠ 0 → ts ≤ now →
    (∀ blk ∈ n.led.blocks, ∀ t ∈ blk.txs, t.id ≠ rid) → (∀ t ∈ perm, t.id ≠ rid) →
    p.led.blocks = n.led.blocks ++ [b'] →
    ∃ b, n'.led.blocks = n.led.blocks ++ [b] ∧ b.ts = ts ∧
      Ledger.verify env cfg p.led [b'] [b] n.led.blocks now = .ok [b]

/-- C05 (competitor to the peer's own tip): a reachable peer whose chain is the producer's chain plus its own
    block `b'` accepts `[b]` offered in place of `b'` — provided neither the tip nor a transaction of the pool
    order tried carries the id of an output that is live in the producer's confirmed state
    (`Node.NoRecreation`; true of real ids, which are content hashes).  No hypothesis on the hashes of `b` and
    `b'` is needed (an identical block is skipped by the verifier). -/
theorem C05_competitor_partial (env : Env) (cfg : Cfg) (n n' p : Node) (ts : Int) (perm : List Tx) (rid : String)
    (old : List Block) (tip b' : Block) (now : Int)
    (hn : Reachable env cfg n) (hp : Reachable env cfg p)
    (hchain : n.led.blocks = old ++ [tip])
    (hprod : n.produce env cfg ts perm rid = some n')
    (hsched : ts = tip.ts + cfg.interval) (hmin : 1 ≤ cfg.minFee) (htip0 : tip.ts ≠ 0) (hts0 : ts ≠ 0)
    (hnow : ts ≤ now)
    (hfresh : ∀ blk ∈ n.led.blocks, ∀ t ∈ blk.txs, t.id ≠ rid) (hfreshP : ∀ t ∈ perm, t.id ≠ rid)
    (hnr1 : Node.NoRecreation n.led.utxos tip.txs) (hnr2 : Node.NoRecreation n.led.utxos perm)
    (hsame : p.led.blocks = n.led.blocks ++ [b']) :
    ∃ b, n'.led.blocks = n.led.blocks ++ [b] ∧ b.ts = ts ∧
      Ledger.verify env cfg p.led [b'] [b] n.led.blocks now = .ok [b] := by
  have hdn := C07_invariant env cfg n hn
  have hdp := C07_invariant env cfg p hp
  have hf1 : n.led.utxos.byId[rid]? = none := by
    apply agree_derived_byId_none hdn
    intro b hb
    exact hfresh b (List.dropLast_subset _ hb)
  have hf2 : ∀ t ∈ tip.txs, t.id ≠ rid := hfresh tip (by rw [hchain]; simp)
  have hlast : n.led.blocks.getLast? = some tip := by rw [hchain]; simp
  -- the peer's confirmed state is the producer's with the tip confirmed
  have hs : ∀ c, n.led.confirmLast = .ok c →
      p.led.utxos = c.utxos ∧ p.led.reg.registered = c.reg.registered := by
    intro c hc
    obtain ⟨_, hm⟩ := confirmLast_conf n.led c hc
    rw [hlast] at hm
    simp only at hm
    unfold Derived at hdn hdp
    rw [hsame, List.dropLast_concat, hchain, Conf.replay_append] at hdp
    rw [hchain, List.dropLast_concat] at hdn
    rw [hdn] at hdp
    simp only [Conf.replay] at hdp
    rw [hm] at hdp
    simp only at hdp
    injection hdp with hdp
    simp only [Ledger.conf, Conf.mk.injEq] at hdp
    exact ⟨hdp.1.symm, hdp.2.symm⟩
  -- hash link of the peer's own block
  have hlink' : b'.prevHash = env.hash tip := by
    have := (SL.linked_iff env _).mp (C12_chain_linked_invariant env cfg p hp)
    rw [hsame, SL.linkedFrom_append] at this
    have h2 := this.2
    simp only [SL.linkedFrom] at h2
    rw [h2.1]
    simp [SL.tipHash, hlast]
  obtain ⟨b, hb, hbts, hbp, nl, fin, hloop, hadd⟩ := Ledger.agree_competitor_loop env cfg n n' ts perm rid old tip now
    ⟨n.led.blocks, p.led.utxos, p.led.reg⟩ [b'] hprod hchain hsched hmin htip0 hts0 hnow hf1 hf2 hfreshP hnr1 hnr2 hs
  refine ⟨b, by rw [hb, hchain]; simp, hbts, ?_⟩
  rw [SL.verify_eq]
  have hne : n.led.blocks.isEmpty = false := by rw [hchain]; simp
  have e2 : SL.forkCond [b'] [b] = false := by simp [SL.forkCond, hlink', hbp]
  rw [hne, e2]
  simp only [Bool.false_and, Bool.and_false, Bool.false_eq_true, if_false]
  rw [hlast, hloop]
  simp only
  rw [hadd]


/-- C05 (full re-sync), general form: whatever the verifying host (`host`, `lastHost` arbitrary — blocks identical
    to the host's own at the same height are skipped by hash, all others are verified), if the producer's chain
    was acceptable from height 0 (at some earlier or equal verifier time `now'`) then it still is after the
    producer appends its block. -/
theorem C05_resync_general (env : Env) (cfg : Cfg) (n n' : Node) (host : Ledger) (lastHost : List Block)
    (ts : Int) (perm : List Tx) (rid : String) (old : List Block) (tip : Block) (now now' : Int)
    (hn : Reachable env cfg n)
    (hchain : n.led.blocks = old ++ [tip])
    (hprod : n.produce env cfg ts perm rid = some n')
    (hsched : ts = tip.ts + cfg.interval) (hmin : 1 ≤ cfg.minFee) (htip0 : tip.ts ≠ 0) (hts0 : ts ≠ 0)
    (hnow : ts ≤ now)
    (hfresh : ∀ blk ∈ n.led.blocks, ∀ t ∈ blk.txs, t.id ≠ rid) (hfreshP : ∀ t ∈ perm, t.id ≠ rid)
    (hle : now' ≤ now)
    (hprev' : Ledger.verify env cfg host lastHost n.led.blocks [] now' = .ok n.led.blocks) :
    ∃ b, n'.led.blocks = n.led.blocks ++ [b] ∧ b.ts = ts ∧
      Ledger.verify env cfg host lastHost n'.led.blocks [] now = .ok n'.led.blocks := by
  have hprev := Ledger.agree_verify_mono hprev' hle
  have hdn := C07_invariant env cfg n hn
  have hf1 : n.led.utxos.byId[rid]? = none := by
    apply agree_derived_byId_none hdn
    intro b hb
    exact hfresh b (List.dropLast_subset _ hb)
  have hf2 : ∀ t ∈ tip.txs, t.id ≠ rid := hfresh tip (by rw [hchain]; simp)
  have hlast : n.led.blocks.getLast? = some tip := by rw [hchain]; simp
  -- the loop over the old chain, and the state it ends in
  obtain ⟨_, nl, _, hl, _⟩ := verify_inv env cfg host lastHost n.led.blocks [] n.led.blocks now hprev
  simp only [List.isEmpty_nil, if_true, List.getLast?_nil] at hl
  obtain ⟨hnb, hnr⟩ := verifyLoop_replays env cfg now lastHost _ nl none n.led.blocks hl
  have hconf : nl.conf = n.led.conf := by
    unfold Derived at hdn
    have e : (⟨[], UtxoReg.empty, AddrReg.empty⟩ : Ledger).conf = Conf.empty := rfl
    rw [e, hdn] at hnr
    injection hnr with hnr
    exact hnr.symm
  have hnu : nl.utxos = n.led.utxos := congrArg Conf.utxos hconf
  have hnreg : nl.reg.registered = n.led.reg.registered := congrArg Conf.registered hconf
  have hnlast : nl.blocks.getLast? = some tip := by rw [hnb]; simpa using hlast
  have hlen : n.led.blocks.length ≠ 0 := by rw [hchain]; simp
  obtain ⟨b, hb, hbts, nl2, fin, hloop, hadd⟩ := Ledger.agree_last_iteration env cfg n n' ts perm rid old tip now nl
    lastHost (0 + n.led.blocks.length) (by omega) hprod hchain hsched hmin htip0 hts0 hnow hf1 hf2 hfreshP hnlast hnu hnreg
  have hb' : n'.led.blocks = n.led.blocks ++ [b] := by rw [hb, hchain]; simp
  refine ⟨b, hb', hbts, ?_⟩
  rw [hb', SL.verify_eq]
  have e1 : (([] : List Block).isEmpty && decide ((n.led.blocks ++ [b]).length < 2)) = false := by
    simp; omega
  rw [e1]
  simp only [List.isEmpty_nil, Bool.not_true, Bool.false_and, Bool.false_eq_true, if_false, if_true,
    List.getLast?_nil]
  rw [Ledger.agree_verifyLoop_append, hl]
  simp only [hlast, Option.some_or]
  rw [hloop]
  simp only
  rw [hadd]

/-- C05 (full re-sync) as a peer sees it: `p` is ANY node (reachable or not, whatever its chain); the second
    answer carries the producer's whole chain. -/
theorem C05_resync (env : Env) (cfg : Cfg) (n n' p : Node)
    (ts : Int) (perm : List Tx) (rid : String) (old : List Block) (tip : Block) (now now' : Int)
    (hn : Reachable env cfg n)
    (hchain : n.led.blocks = old ++ [tip])
    (hprod : n.produce env cfg ts perm rid = some n')
    (hsched : ts = tip.ts + cfg.interval) (hmin : 1 ≤ cfg.minFee) (htip0 : tip.ts ≠ 0) (hts0 : ts ≠ 0)
    (hnow : ts ≤ now)
    (hfresh : ∀ blk ∈ n.led.blocks, ∀ t ∈ blk.txs, t.id ≠ rid) (hfreshP : ∀ t ∈ perm, t.id ≠ rid)
    (hle : now' ≤ now)
    (hprev : Ledger.verify env cfg p.led p.led.blocks.dropLast n.led.blocks [] now' = .ok n.led.blocks) :
    Ledger.verify env cfg p.led p.led.blocks.dropLast n'.led.blocks [] now = .ok n'.led.blocks := by
  obtain ⟨_, _, _, h⟩ := C05_resync_general env cfg n n' p.led p.led.blocks.dropLast ts perm rid old tip now now' hn
    hchain hprod hsched hmin htip0 hts0 hnow hfresh hfreshP hle hprev
  exact h


/-- C05 (extension → fork choice): in a sync round of a peer with more than two blocks, an answer `[tip, b]` to
    the incremental request makes the producer's new chain a fork-choice candidate (no neighbour is called
    "host"; a later answer from the same target would overwrite the entry). -/
theorem C05_extension_candidate (env : Env) (cfg : Cfg) (n n' p : Node) (ts : Int) (perm : List Tx) (rid : String)
    (old : List Block) (tip b : Block) (now : Int) (pre post : List Resp) (r : Resp)
    (hn : Reachable env cfg n) (hp : Reachable env cfg p)
    (hchain : n.led.blocks = old ++ [tip])
    (hprod : n.produce env cfg ts perm rid = some n')
    (hsched : ts = tip.ts + cfg.interval) (hmin : 1 ≤ cfg.minFee) (htip0 : tip.ts ≠ 0) (hts0 : ts ≠ 0)
    (hnow : ts ≤ now)
    (hfresh : ∀ blk ∈ n.led.blocks, ∀ t ∈ blk.txs, t.id ≠ rid) (hfreshP : ∀ t ∈ perm, t.id ≠ rid)
    (hsame : p.led.blocks = n.led.blocks)
    (hb : n'.led.blocks = n.led.blocks ++ [b])
    (hlen : p.led.blocks.length > 2) (hr : r.first = some [tip, b])
    (hhost : ∀ r' ∈ pre ++ r :: post, r'.target ≠ "host") (hpost : ∀ r' ∈ post, r'.target ≠ r.target) :
    (r.target, n'.led.blocks) ∈ (Sync.choose env cfg p.led now (pre ++ r :: post)).cands := by
  obtain ⟨b0, hb0, _, hv⟩ := C05_extension env cfg n n' p ts perm rid old tip now hn hp hchain hprod hsched hmin htip0 hts0
    hnow hfresh hfreshP hsame
  have hbb : b0 = b := by
    rw [hb0] at hb
    simpa using List.append_cancel_left hb
  subst hbb
  have hl : p.led.blocks.getLast?.toList = [tip] := by rw [hsame, hchain]; simp
  have hd : p.led.blocks.dropLast = old := by rw [hsame, hchain]; simp
  have := agree_choose_has env cfg p.led now pre post r [tip, b0] hlen hr (by rw [hl]; exact hv) hhost hpost
  rw [hd] at this
  rw [hb0, hchain]
  simpa using this

/-- C05 (competitor → fork choice): the same for a peer whose tip is its own block `b'`. -/
theorem C05_competitor_candidate (env : Env) (cfg : Cfg) (n n' p : Node) (ts : Int) (perm : List Tx) (rid : String)
    (old : List Block) (tip b b' : Block) (now : Int) (pre post : List Resp) (r : Resp)
    (hn : Reachable env cfg n) (hp : Reachable env cfg p)
    (hchain : n.led.blocks = old ++ [tip])
    (hprod : n.produce env cfg ts perm rid = some n')
    (hsched : ts = tip.ts + cfg.interval) (hmin : 1 ≤ cfg.minFee) (htip0 : tip.ts ≠ 0) (hts0 : ts ≠ 0)
    (hnow : ts ≤ now)
    (hfresh : ∀ blk ∈ n.led.blocks, ∀ t ∈ blk.txs, t.id ≠ rid) (hfreshP : ∀ t ∈ perm, t.id ≠ rid)
    (hnr1 : Node.NoRecreation n.led.utxos tip.txs) (hnr2 : Node.NoRecreation n.led.utxos perm)
    (hsame : p.led.blocks = n.led.blocks ++ [b'])
    (hb : n'.led.blocks = n.led.blocks ++ [b])
    (hlen : p.led.blocks.length > 2) (hr : r.first = some [b])
    (hhost : ∀ r' ∈ pre ++ r :: post, r'.target ≠ "host") (hpost : ∀ r' ∈ post, r'.target ≠ r.target) :
    (r.target, n'.led.blocks) ∈ (Sync.choose env cfg p.led now (pre ++ r :: post)).cands := by
  obtain ⟨b0, hb0, _, hv⟩ := C05_competitor_partial env cfg n n' p ts perm rid old tip b' now hn hp hchain hprod hsched
    hmin htip0 hts0 hnow hfresh hfreshP hnr1 hnr2 hsame
  have hbb : b0 = b := by
    rw [hb0] at hb
    simpa using List.append_cancel_left hb
  subst hbb
  have hl : p.led.blocks.getLast?.toList = [b'] := by rw [hsame]; simp
  have hd : p.led.blocks.dropLast = n.led.blocks := by rw [hsame]; simp
  have := agree_choose_has env cfg p.led now pre post r [b0] hlen hr (by rw [hl, hd]; exact hv) hhost hpost
  rw [hd] at this
  rw [hb0]
  exact this

/-! ### non-vacuity: a concrete scenario (three empty blocks, then a pooled transaction spending the genesis
    reward, then the on-schedule tick) -/

open SL.SyncEx in
/-- a transaction spending the genesis reward (100 to "v") into 90 for "w": fee 10 -/
def C05ex.tx : Tx := ⟨"t1", [⟨"r0", 0, "", "", "v", true⟩], [⟨"w", false, 90⟩], 200⟩
open SL.SyncEx in
def C05ex.nA : Node := Ru.step env cfg n3 (.submit C05ex.tx)
open SL.SyncEx in
def C05ex.nB : Node := Ru.step env cfg C05ex.nA (.tick 240 [C05ex.tx] "r3")
open SL.SyncEx in
def C05ex.tip : Block :=
  ⟨"0000000000000000000000000000000000000000000000000000000000000000+r0+r1", none, none, 180,
    [⟨"r2", [], [⟨"v", false, 0⟩], 180⟩]⟩

open SL.SyncEx in
theorem C05ex.reach3 : Reachable env cfg n3 := ⟨ops3, by simp [ops3, Op.WF], rfl⟩
open SL.SyncEx in
theorem C05ex.reachA : Reachable env cfg C05ex.nA := C05ex.reach3.next _ (by simp only [Op.WF]; decide)
open SL.SyncEx in
/-- the competing peer: `n3` plus its own (empty) block at 240 -/
theorem C05ex.reach4' : Reachable env cfg n4' := C05ex.reach3.next _ (by simp [Op.WF])

open SL.SyncEx in
/-- the block really contains the pooled transaction and a reward of 10 -/
example : C05ex.nB.led.blocks.getLast?.map (fun b => b.txs.map (fun t => (t.id, t.rewardValue)))
    = some [("t1", 90), ("r3", 10)] := by decide

open SL.SyncEx in
/-- `C05_extension` applies: all its hypotheses hold in the scenario -/
example : ∃ b, C05ex.nB.led.blocks = C05ex.nA.led.blocks ++ [b] ∧ b.ts = 240 ∧
    Ledger.verify env cfg n3.led [C05ex.tip] [C05ex.tip, b] n3.led.blocks.dropLast 240 = .ok [C05ex.tip, b] :=
  C05_extension env cfg C05ex.nA C05ex.nB n3 240 [C05ex.tx] "r3" (n3.led.blocks.take 2) C05ex.tip 240
    C05ex.reachA C05ex.reach3 (by decide) (by rfl) (by decide) (by decide) (by decide) (by decide) (by decide)
    (by decide) (by decide) (by decide)

open SL.SyncEx in
theorem C05ex.noRec (txs : List Tx) (h : ∀ t ∈ txs, C05ex.nA.led.utxos.byId[t.id]? = none) :
    Node.NoRecreation C05ex.nA.led.utxos txs := by
  intro id idx u hl t ht hid
  have := h t ht
  rw [hid] at this
  simp [UtxoReg.live, this] at hl

open SL.SyncEx in
/-- `C05_competitor_partial` applies -/
example : ∃ b, C05ex.nB.led.blocks = C05ex.nA.led.blocks ++ [b] ∧ b.ts = 240 ∧
    Ledger.verify env cfg n4'.led (n4'.led.blocks.drop 3) [b] C05ex.nA.led.blocks 240 = .ok [b] := by
  obtain ⟨b', hb'⟩ : ∃ b', n4'.led.blocks = C05ex.nA.led.blocks ++ [b'] := ⟨(n4'.led.blocks.getLast?).getD default, by decide⟩
  have hd : n4'.led.blocks.drop 3 = [b'] := by
    have : C05ex.nA.led.blocks.length = 3 := by decide
    rw [hb', List.drop_append_of_le_length (by omega), ← this, List.drop_length]; rfl
  rw [hd]
  exact C05_competitor_partial env cfg C05ex.nA C05ex.nB n4' 240 [C05ex.tx] "r3" (n3.led.blocks.take 2) C05ex.tip b' 240
    C05ex.reachA C05ex.reach4' (by decide) (by rfl) (by decide) (by decide) (by decide) (by decide) (by decide)
    (by decide) (by decide) (C05ex.noRec _ (by decide)) (C05ex.noRec _ (by decide)) hb'

open SL.SyncEx in
/-- `C05_resync` applies: any peer (here the empty node) that accepted the three-block chain accepts the four -/
example : Ledger.verify env cfg Node.empty.led Node.empty.led.blocks.dropLast C05ex.nB.led.blocks [] 240
    = .ok C05ex.nB.led.blocks :=
  C05_resync env cfg C05ex.nA C05ex.nB Node.empty 240 [C05ex.tx] "r3" (n3.led.blocks.take 2) C05ex.tip 240 180
    C05ex.reachA (by decide) (by rfl) (by decide) (by decide) (by decide) (by decide) (by decide) (by decide)
    (by decide) (by decide) (by rfl)

end Ru
