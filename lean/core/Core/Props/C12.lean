/-
  Core/Props/C12.lean — C12:
  "A block, once in a node's chain, is served with identical content and hash for as long as it stays
   there: producing further blocks, registry refreshes and updates, verification of candidates and serving
   peers never alter it, so the chain a node serves is hash-linked at every moment. Incremental adoption
   leaves every block below the fork point untouched."
-/
import Core.Lemmas.SyncL
import Core.Props.C13
open Std

set_option maxRecDepth 100000

namespace Ru
open SL Sync SL.Sync SL.SyncEx

/-- Effect of every operation on the chain: submissions and registry refreshes leave it as it is; a tick
    leaves it or appends one block; a sync round leaves the whole ledger as it is, or (no fork declared)
    replaces only the tip by verified blocks — every block below the tip is untouched — or (fork declared:
    full re-sync) installs a list that passed verification from height 0. -/
theorem C12_step_prefix (env : Env) (cfg : Cfg) (n : Node) (op : Op) (hw : op.WF) :
    match op with
    | .submit _ => (Ru.step env cfg n op).led.blocks = n.led.blocks
    | .regsync _ => (Ru.step env cfg n op).led.blocks = n.led.blocks
    | .tick ts _ _ => (Ru.step env cfg n op).led.blocks = n.led.blocks ∨
        ∃ b, (Ru.step env cfg n op).led.blocks = n.led.blocks ++ [b] ∧ b.ts = ts
    | .sync now resps _ =>
        (Ru.step env cfg n op).led = n.led ∨
        ((Sync.choose env cfg n.led now resps).isFork = false ∧ n.led.blocks.length > 2 ∧
          ∃ nb, Ledger.verify env cfg n.led n.led.blocks.getLast?.toList nb n.led.blocks.dropLast now = .ok nb ∧
            (Ru.step env cfg n op).led.blocks = n.led.blocks.dropLast ++ nb) ∨
        ((Sync.choose env cfg n.led now resps).isFork = true ∧
          ∃ nb, Ledger.verify env cfg n.led n.led.blocks.dropLast nb [] now = .ok nb ∧
            (Ru.step env cfg n op).led.blocks = nb) := by
  cases op with
  | submit tx => exact congrArg Ledger.blocks ((C13_regsync_submit_frame env cfg n).1 tx)
  | regsync newly => exact ((C13_regsync_submit_frame env cfg n).2.1 newly).1
  | tick ts perm rewardId =>
    simp only
    rw [step_tick]
    split
    · cases hp : n.produce env cfg ts perm rewardId with
      | none => left; rfl
      | some n' =>
        obtain ⟨txs, na, hab⟩ := produce_some hp
        obtain ⟨b, hb, _, hts, _⟩ := addBlock_ok hab
        right; exact ⟨b, hb, hts⟩
    · left; rfl
  | sync now resps pick =>
    simp only
    rw [step_sync]
    cases hl : (Sync.outcomes env cfg n.led now resps)[pick]? with
    | none => left; rfl
    | some l =>
      simp only
      have hm : l ∈ Sync.outcomes env cfg n.led now resps := List.mem_of_getElem? hl
      have ht : ∀ r ∈ resps, r.target ≠ "host" := fun r hr => (hw r hr).1
      rcases C13_unchanged_or_verified env cfg n.led now resps ht l hm with h | ⟨_, _, h⟩
      · left; exact h
      · right
        rcases h with ⟨hf, h2, r, _, nb, _, hv, hb⟩ | ⟨hf, r, _, nb, _, hv, hb⟩
        · left; exact ⟨hf, h2, nb, hv, hb⟩
        · right; exact ⟨hf, nb, hv, hb⟩

/-- non-vacuity: a well-formed sync operation that adopts incrementally (everything below the tip kept),
    one that re-syncs after a fork, and a tick that appends -/
example : (Op.sync 300 [respAhead] 0).WF ∧
    (Ru.step env cfg n3 (.sync 300 [respAhead] 0)).led.blocks = n3.led.blocks.dropLast ++ n4.led.blocks.drop 2 := by
  refine ⟨?_, by decide⟩
  simp only [Op.WF, Resp.WF, Block.WF, respAhead]
  decide
example : (Sync.choose env cfg m1.led 300 [respFull]).isFork = true ∧
    (Ru.step env cfg m1 (.sync 300 [respFull] 0)).led.blocks = n3.led.blocks := by decide
example : (Ru.step env cfg n3 (.tick 240 [] "r3")).led.blocks.length = n3.led.blocks.length + 1 := by decide

/-- Every operation other than a sync round that declared a fork leaves every block below the tip in
    place (same content at the same height). -/
theorem C12_below_tip_untouched (env : Env) (cfg : Cfg) (n : Node) (op : Op) (hw : op.WF)
    (hnf : ∀ now resps pick, op = .sync now resps pick → (Sync.choose env cfg n.led now resps).isFork = false)
    (i : Nat) (hi : i + 1 < n.led.blocks.length) :
    (Ru.step env cfg n op).led.blocks[i]? = n.led.blocks[i]? := by
  have hstep := C12_step_prefix env cfg n op hw
  cases op with
  | submit tx => simp only at hstep; rw [hstep]
  | regsync newly => simp only at hstep; rw [hstep]
  | tick ts perm rewardId =>
    simp only at hstep
    rcases hstep with h | ⟨b, h, _⟩
    · rw [h]
    · rw [h, List.getElem?_append_left (by omega)]
  | sync now resps pick =>
    simp only at hstep
    rcases hstep with h | ⟨_, _, nb, _, hb⟩ | ⟨hf, _⟩
    · rw [h]
    · rw [hb, List.getElem?_append_left (by simp; omega), List.getElem?_dropLast]
      simp; omega
    · rw [hnf now resps pick rfl] at hf; cases hf

example : (Op.sync 300 [respAhead] 0).WF ∧ (Sync.choose env cfg n3.led 300 [respAhead]).isFork = false ∧
    1 + 1 < n3.led.blocks.length := by
  refine ⟨?_, by decide, by decide⟩
  simp only [Op.WF, Resp.WF, Block.WF, respAhead]
  decide

/-- Blocks accepted by `verify` are hash-linked: each block carries the hash of the one before it, and the
    first carries the hash of the last retained host block (the zero hash when verifying from height 0). -/
theorem C12_verify_hash_linked (env : Env) (cfg : Cfg) (host : Ledger) (lastHost nb oldHost : List Block)
    (now : Int) (h : Ledger.verify env cfg host lastHost nb oldHost now = .ok nb) :
    (∀ i a b, nb[i]? = some a → nb[i+1]? = some b → b.prevHash = env.hash a) ∧
    (∀ b, nb.head? = some b → b.prevHash =
      match oldHost.getLast? with
      | some p => env.hash p
      | none => zeroHash) := by
  have := (linkedFrom_iff env _ nb).mp (verify_linked h)
  exact ⟨this.2, this.1⟩

example : (Ledger.verify env cfg n3.led n3.led.blocks.getLast?.toList (n4.led.blocks.drop 2)
    n3.led.blocks.dropLast 300).toOption = some (n4.led.blocks.drop 2) := by decide

/-- The block `AddBlock` appends carries the hash of the previous tip (the zero hash on an empty chain). -/
theorem C12_produced_linked (env : Env) (l l' : Ledger) (ts : Int) (txs : List Tx) (newAddresses : List String)
    (h : l.addBlock env ts txs newAddresses = .ok l') :
    ∃ b, l'.blocks = l.blocks ++ [b] ∧ b.ts = ts ∧ b.txs = txs ∧
      b.prevHash = match l.blocks.getLast? with
        | some p => env.hash p
        | none => zeroHash := by
  obtain ⟨b, h1, h2, h3, h4⟩ := addBlock_ok h
  exact ⟨b, h1, h3, h4, h2⟩

example : (n3.led.addBlock env 240 [] []).toOption.map (·.blocks.length) = some 4 := by decide

/-- The chain a node serves is hash-linked at every moment. -/
theorem C12_chain_linked_invariant (env : Env) (cfg : Cfg) (n : Node) (h : Reachable env cfg n) :
    Linked env n.led.blocks := by
  refine Reachable.induction (env := env) (cfg := cfg) (fun n => Linked env n.led.blocks) ?_ ?_ n h
  · show Linked env []
    rw [linked_iff]; trivial
  · intro n op _ ih hw
    have hstep := C12_step_prefix env cfg n op hw
    rw [linked_iff] at ih ⊢
    cases op with
    | submit tx => simp only at hstep; rw [hstep]; exact ih
    | regsync newly => simp only at hstep; rw [hstep]; exact ih
    | tick ts perm rewardId =>
      rw [step_tick]
      split
      · cases hp : n.produce env cfg ts perm rewardId with
        | none => exact ih
        | some n' =>
          obtain ⟨txs, na, hab⟩ := produce_some hp
          obtain ⟨b, hb, hprev, _, _⟩ := addBlock_ok hab
          simp only [Option.getD_some]
          rw [hb, linkedFrom_append]
          exact ⟨ih, hprev, trivial⟩
      · exact ih
    | sync now resps pick =>
      simp only at hstep
      rcases hstep with h | ⟨_, _, nb, hv, hb⟩ | ⟨_, nb, hv, hb⟩
      · rw [h]; exact ih
      · rw [hb, linkedFrom_append]
        exact ⟨linkedFrom_dropLast env _ _ ih, verify_linked hv⟩
      · rw [hb]
        exact verify_linked hv

/-- non-vacuity: a reachable node that produced three blocks and then adopted a fourth by sync -/
example : Reachable env cfg (Ru.step env cfg n3 (.sync 300 [respAhead] 0)) ∧
    (Ru.step env cfg n3 (.sync 300 [respAhead] 0)).led.blocks.length = 4 := by
  refine ⟨Reachable.next ⟨ops3, by simp [ops3, Op.WF], rfl⟩ _ ?_, by decide⟩
  simp only [Op.WF, Resp.WF, Block.WF, respAhead]
  decide

end Ru
