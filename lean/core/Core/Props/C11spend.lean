/-
  Core/Props/C11spend.lean — C11 / C18 (composition): a transaction that spends CONFIRMED outputs the way the web
  wallet builds it is admitted by the pool.

  `C18_fee_rule` (lean/wallet) shows that the transaction built from the access node's answer has a fee of exactly
  the minimal fee on the outputs the validator reports; this file shows what the validator's pool then does with any
  transaction that passes the fee rule on the CONFIRMED outputs: if neither the last block nor a pooled transaction
  touches the outputs it spends, it is admitted — the fee rule carries over, unchanged, to the copy that has
  replayed the last block and the pool, and the transaction itself replays on that copy.
-/
import Core.Lemmas.Spend
import Core.Props.C11
open Std

namespace Ru
open UtxoReg

/-- the fee rule on the copy (confirmed outputs + last block + pool) is the fee rule on the confirmed outputs for a
    transaction whose inputs are useful outputs that neither batch consumes nor re-creates -/
theorem C11_fee_on_copy_eq (val : Nat → Bool → Int → Nat) (minFee : Nat) (r c1 c2 : UtxoReg) (txs1 txs2 : List Tx)
    (t1 t2 ts : Int) (tx : Tx) (fee : Nat)
    (hu1 : r.update txs1 t1 = .ok c1) (hu2 : c1.update txs2 t2 = .ok c2)
    (hf : r.calculateFee val minFee tx ts = .ok fee)
    (huse : ∀ i ∈ tx.inputs, ∀ u, lookup r.byId i = .ok u → slotLive (some u) = true)
    (hunt : ∀ i ∈ tx.inputs, ∀ t ∈ txs1 ++ txs2,
      t.id ≠ i.txId ∧ ∀ j ∈ t.inputs, (i.txId, i.index) ≠ (j.txId, j.index)) :
    c2.calculateFee val minFee tx ts = .ok fee ∧
    ∀ i ∈ tx.inputs, ∃ u, live c2 i.txId i.index = some u ∧ slotLive (some u) = true := by
  have ha1 := (update_ok_iff.mp hu1).1
  have ha2 := (update_ok_iff.mp hu2).1
  have key : ∀ i ∈ tx.inputs, ∃ u, lookup r.byId i = .ok u ∧ live c2 i.txId i.index = some u ∧
      slotLive (some u) = true := by
    intro i hi
    obtain ⟨u, hl, _⟩ := calculateFee_owner hf i hi
    have hs := huse i hi u hl
    have hv := (lookup_iff_live r i u).mp hl
    have hv1 := applyTxs_live_fwd_useful ha1 hv hs
      (fun t ht => (hunt i hi t (List.mem_append_left _ ht)).1)
      (fun t ht => (hunt i hi t (List.mem_append_left _ ht)).2)
    have hv2 := applyTxs_live_fwd_useful ha2 hv1 hs
      (fun t ht => (hunt i hi t (List.mem_append_right _ ht)).1)
      (fun t ht => (hunt i hi t (List.mem_append_right _ ht)).2)
    exact ⟨u, hl, hv2, hs⟩
  refine ⟨?_, fun i hi => ?_⟩
  · rw [calculateFee_congr val minFee r c2 tx ts, hf]
    intro i hi
    obtain ⟨u, hl, hv2, _⟩ := key i hi
    rw [hl, (lookup_iff_live c2 i u).mpr hv2]
  · obtain ⟨u, _, hv2, hs⟩ := key i hi
    exact ⟨u, hv2, hs⟩

/-- **C11 / C18 (admission of a confirmed spend).**  On a node whose last block and pool replay on its confirmed
    outputs, a transaction dated in the window, not yet pooled, fully signed, that passes the fee rule on the
    CONFIRMED outputs at the next block time, whose inputs are pairwise distinct useful (non-zero or yielding)
    outputs that neither the last block nor a pooled transaction consumes or re-creates, whose id is new, and which
    has at least one output and no yielding output — what the web wallet builds from `/transaction/info` — is
    admitted. -/
theorem C11_confirmed_spend_admitted (env : Env) (cfg : Cfg) (n : Node) (tx : Tx) (c1 c2 : UtxoReg) (fee : Nat)
    (h0 : n.led.lastTs ≠ 0) (hw1 : n.led.lastTs ≤ tx.ts) (hw2 : tx.ts ≤ n.led.lastTs + cfg.interval)
    (hnp : ∀ p ∈ n.pool, p.id ≠ tx.id) (hsig : ∀ i ∈ tx.inputs, i.sigValid = true)
    (hc1 : n.led.utxos.update n.led.lastTxs (n.led.lastTs + cfg.interval) = .ok c1)
    (hc2 : c1.update n.pool (n.led.lastTs + cfg.interval) = .ok c2)
    (hfee : n.led.utxos.calculateFee env.val cfg.minFee tx (n.led.lastTs + cfg.interval) = .ok fee)
    (huse : ∀ i ∈ tx.inputs, ∀ u, lookup n.led.utxos.byId i = .ok u → slotLive (some u) = true)
    (hunt : ∀ i ∈ tx.inputs, ∀ t ∈ n.led.lastTxs ++ n.pool,
      t.id ≠ i.txId ∧ ∀ j ∈ t.inputs, (i.txId, i.index) ≠ (j.txId, j.index))
    (hfresh : c2.byId[tx.id]? = none) (hout : tx.outputs ≠ []) (hny : ∀ o ∈ tx.outputs, o.yielding = false)
    (hp : tx.inputs.Pairwise (fun a b => (a.txId, a.index) ≠ (b.txId, b.index))) :
    Node.admitCheck env cfg n tx = .ok () ∧ (n.admitTx env cfg tx).pool = n.pool ++ [tx] := by
  obtain ⟨hf2, hl2⟩ := C11_fee_on_copy_eq env.val cfg.minFee n.led.utxos c1 c2 n.led.lastTxs n.pool _ _ _ tx fee
    hc1 hc2 hfee huse hunt
  have hinc2 := (update_ok_iff.mp hc2).2
  have hup : (c2.update [tx] (n.led.lastTs + cfg.interval)).isOk = true :=
    update_single_ok_of_spend hfresh hout hny hl2 hp hinc2
  have hadm : Node.admitCheck env cfg n tx = .ok () :=
    (C11_admit_iff env cfg n tx).mpr ⟨h0, hw1, hw2, hnp, hsig, c1, c2, hc1, hc2, by rw [hf2]; rfl, by rw [hfee]; rfl, hup⟩
  refine ⟨hadm, ?_⟩
  rw [(C11_admit_effect env cfg n tx).1 hadm]

/-- non-vacuity: the example node of C11 and its transaction satisfy every hypothesis (fee 7 on the confirmed
    outputs, nothing pooled, last block untouched) -/
example : Node.admitCheck C11ex.env C11ex.cfg C11ex.node C11ex.tx = .ok () ∧
    (C11ex.node.admitTx C11ex.env C11ex.cfg C11ex.tx).pool = C11ex.node.pool ++ [C11ex.tx] := by
  have hc1 : (C11ex.node.led.utxos.update C11ex.node.led.lastTxs
      (C11ex.node.led.lastTs + C11ex.cfg.interval)).isOk = true := by rfl
  obtain ⟨c1, hc1⟩ := (fee_isOk_iff_exists _).mp hc1
  have hc2 : c1.update C11ex.node.pool (C11ex.node.led.lastTs + C11ex.cfg.interval) = .ok c1 := by
    have : C11ex.node.pool = [] := rfl
    rw [this]
    have hinc := (update_ok_iff.mp hc1).2
    rw [update_ok_iff]; exact ⟨rfl, hinc⟩
  have hfee : (C11ex.node.led.utxos.calculateFee C11ex.env.val C11ex.cfg.minFee C11ex.tx
      (C11ex.node.led.lastTs + C11ex.cfg.interval)).isOk = true := by rfl
  obtain ⟨fee, hfee⟩ := (fee_isOk_iff_exists _).mp hfee
  have hfresh : c1.byId[C11ex.tx.id]? = none := by
    have h0 : C11ex.node.led.utxos.byId[C11ex.tx.id]? = none := by decide
    exact agree_applyTxs_byId_none (update_ok_iff.mp hc1).1 h0 (by decide)
  exact C11_confirmed_spend_admitted C11ex.env C11ex.cfg C11ex.node C11ex.tx c1 c1 fee (by decide) (by decide) (by decide)
    (by decide) (by decide) hc1 hc2 hfee (UtxoReg.useful_of_dec (by decide)) (by decide) hfresh (by decide) (by decide) (by decide)

/-! ### … and included in the next block, whatever the shuffle -/

/-- **C11 / C18 (inclusion of a confirmed spend, every shuffle).**  In the order `pre ++ t :: post` in which block
    production tries the pool — ANY order — a transaction `t` in the window, fully signed, that passes the fee rule on
    the confirmed outputs at the block's timestamp, whose inputs are pairwise distinct useful outputs that neither
    the last block nor any transaction tried BEFORE it consumes or re-creates, whose id is new, with at least one
    output and no yielding output, is kept: it is in the block. -/
theorem C11_confirmed_spend_included (env : Env) (cfg : Cfg) (confirmed c1 : UtxoReg) (lastTxs pre post : List Tx)
    (t : Tx) (ts last next : Int) (fee : Nat)
    (hc1 : confirmed.update lastTxs next = .ok c1)
    (hw1 : last ≤ t.ts) (hw2 : t.ts ≤ ts) (hsig : ∀ i ∈ t.inputs, i.sigValid = true)
    (hfee : confirmed.calculateFee env.val cfg.minFee t ts = .ok fee)
    (huse : ∀ i ∈ t.inputs, ∀ u, lookup confirmed.byId i = .ok u → slotLive (some u) = true)
    (hunt : ∀ i ∈ t.inputs, ∀ x ∈ lastTxs ++ pre,
      x.id ≠ i.txId ∧ ∀ j ∈ x.inputs, (i.txId, i.index) ≠ (j.txId, j.index))
    (hfresh : c1.byId[t.id]? = none) (hids : ∀ x ∈ pre, x.id ≠ t.id)
    (hout : t.outputs ≠ []) (hny : ∀ o ∈ t.outputs, o.yielding = false)
    (hp : t.inputs.Pairwise (fun a b => (a.txId, a.index) ≠ (b.txId, b.index))) :
    t ∈ (Node.greedy env cfg confirmed ts last next (pre ++ t :: post) c1).1 := by
  have ha1 := (update_ok_iff.mp hc1).1
  -- what the running copy keeps true while the transactions of `pre` are tried
  let P : UtxoReg → Prop := fun c =>
    (∀ i ∈ t.inputs, ∀ u, lookup confirmed.byId i = .ok u → live c i.txId i.index = some u) ∧
    c.byId[t.id]? = none ∧ incomesOk c.byAddr = true
  have hP1 : P c1 := by
    refine ⟨?_, hfresh, (update_ok_iff.mp hc1).2⟩
    intro i hi u hl
    exact applyTxs_live_fwd_useful ha1 ((lookup_iff_live confirmed i u).mp hl) (huse i hi u hl)
      (fun x hx => (hunt i hi x (List.mem_append_left _ hx)).1)
      (fun x hx => (hunt i hi x (List.mem_append_left _ hx)).2)
  have hPrun : P (Node.greedy env cfg confirmed ts last next pre c1).2 := by
    apply Node.greedy_run_induct env cfg confirmed ts last next P pre c1 _ hP1
    intro c x c' hx ⟨hl, hf, _⟩ hu
    obtain ⟨hax, hincx⟩ := update_ok_iff.mp hu
    refine ⟨?_, ?_, hincx⟩
    · intro i hi u hlk
      apply applyTxs_live_fwd_useful hax (hl i hi u hlk) (huse i hi u hlk)
      · intro y hy; simp only [List.mem_singleton] at hy; subst hy
        exact (hunt i hi y (List.mem_append_right _ hx)).1
      · intro y hy; simp only [List.mem_singleton] at hy; subst hy
        exact (hunt i hi y (List.mem_append_right _ hx)).2
    · apply agree_applyTxs_byId_none hax hf
      intro y hy; simp only [List.mem_singleton] at hy; subst hy
      exact hids y hx
  obtain ⟨hlrun, hfrun, hincrun⟩ := hPrun
  -- the test on the running copy passes
  have hkeep : Node.keeps env cfg confirmed ts last next (Node.greedy env cfg confirmed ts last next pre c1).2 t = true := by
    rw [Node.keeps_eq_true_iff]
    refine ⟨hw1, hw2, hsig, ⟨fee, ?_⟩, ⟨fee, hfee⟩, ?_⟩
    · rw [calculateFee_congr env.val cfg.minFee confirmed _ t ts, hfee]
      intro i hi
      obtain ⟨u, hl, _⟩ := calculateFee_owner hfee i hi
      rw [hl, (lookup_iff_live _ i u).mpr (hlrun i hi u hl)]
    · apply (fee_isOk_iff_exists _).mp
      apply update_single_ok_of_spend hfrun hout hny _ hp hincrun
      intro i hi
      obtain ⟨u, hl, _⟩ := calculateFee_owner hfee i hi
      exact ⟨u, hlrun i hi u hl, huse i hi u hl⟩
  have hat := C11_greedy_at env cfg confirmed ts last next pre post t c1
  simp only [hkeep, if_true] at hat
  rw [hat]
  exact List.mem_append_right _ List.mem_cons_self

/-- non-vacuity: in the example of C11 the transaction is kept when tried first and when tried alone -/
example : C11ex.tx ∈ (Node.greedy C11ex.env C11ex.cfg C11ex.reg 15 10 15 ([] ++ C11ex.tx :: [C11ex.tx']) C11ex.reg).1 := by
  decide

end Ru
