/-
  Core/Props/C08.lean — paging part of C08: `Ledger.page` (Go: `Blockchain.Blocks(startingBlockHeight)`).
  "Paging by height never skips, repeats or reorders blocks and never returns more than the page size."
-/
import Core.Chain

namespace Ru
open Ledger

/-- closed form of `Blocks(h)`: the window `[h, h+p)` of the chain, empty at or beyond the tip height + 1
    (covers `p = 0` and the empty chain) -/
theorem C08_page_spec (p : Nat) (bs : List Block) (h : Nat) :
    Ledger.page p bs h = if h < bs.length then (bs.drop h).take p else [] := by
  unfold Ledger.page
  by_cases hb : bs = []
  · subst hb; simp
  · have hl : 0 < bs.length := List.length_pos_iff.mpr hb
    by_cases hp : p = 0
    · subst hp; simp
    · by_cases hh : h < bs.length
      · have h1 : ¬ (h > bs.length - 1) := by omega
        have h2 : bs.isEmpty = false := by simp [hb]
        simp only [h2, Bool.false_or, h1, decide_false, hh, if_true]
        have h3 : (p == 0) = false := by simp [hp]
        simp only [h3, Bool.false_eq_true, if_false]
        split
        · rfl
        · rw [List.take_of_length_le]; simp; omega
      · have h1 : (h > bs.length - 1) := by omega
        simp [h1, hh]

example : Ledger.page 2 [⟨"a", none, none, 1, []⟩, ⟨"b", none, none, 2, []⟩, ⟨"c", none, none, 3, []⟩] 1
    = [⟨"b", none, none, 2, []⟩, ⟨"c", none, none, 3, []⟩] := by decide

/-- never more than the page size -/
theorem C08_page_length_le (p : Nat) (bs : List Block) (h : Nat) : (Ledger.page p bs h).length ≤ p := by
  rw [C08_page_spec]; split
  · simp [List.length_take]; omega
  · simp

example : (Ledger.page 1 [⟨"a", none, none, 1, []⟩, ⟨"b", none, none, 2, []⟩] 0).length ≤ 1 := by decide

/-- the `i`-th block of the page at height `h` is exactly the chain's block at height `h + i`
    (no skip, no repeat, no reorder inside a page) -/
theorem C08_page_contiguous (p : Nat) (bs : List Block) (h i : Nat) :
    (Ledger.page p bs h)[i]? = if i < p then bs[h + i]? else none := by
  rw [C08_page_spec]; split
  · simp [List.getElem?_take]
  · rename_i hh
    have : bs[h + i]? = none := by simp; omega
    simp [this]

example : (Ledger.page 2 [⟨"a", none, none, 1, []⟩, ⟨"b", none, none, 2, []⟩, ⟨"c", none, none, 3, []⟩] 1)[1]?
    = some ⟨"c", none, none, 3, []⟩ := by decide

/-- a height at or beyond the chain length gives an empty page -/
theorem C08_page_beyond_tip (p : Nat) (bs : List Block) (h : Nat) (hh : h ≥ bs.length) :
    Ledger.page p bs h = [] := by
  rw [C08_page_spec]; simp; omega

example : Ledger.page 2 [⟨"a", none, none, 1, []⟩] 1 = [] := by decide

/-- the first `k` pages (heights `0, p, 2p, …`) concatenate to the first `k·p` blocks of the chain -/
theorem C08_pages_prefix (p : Nat) (bs : List Block) (k : Nat) :
    (List.range k).flatMap (fun j => Ledger.page p bs (j * p)) = bs.take (k * p) := by
  induction k with
  | zero => simp
  | succ k ih =>
    rw [List.range_succ, List.flatMap_append, ih]
    simp only [List.flatMap_cons, List.flatMap_nil, List.append_nil]
    rw [C08_page_spec, Nat.succ_mul, List.take_add]
    split
    · rfl
    · rename_i hh
      rw [List.drop_of_length_le (by omega)]; simp

/-- fetching pages at heights `0, p, 2p, …` until the chain length is covered returns the chain itself:
    nothing skipped, repeated or reordered -/
theorem C08_pages_cover (p : Nat) (bs : List Block) (k : Nat) (hk : bs.length ≤ k * p) :
    (List.range k).flatMap (fun j => Ledger.page p bs (j * p)) = bs := by
  rw [C08_pages_prefix, List.take_of_length_le hk]

example : (List.range 2).flatMap (fun j => Ledger.page 2
    [⟨"a", none, none, 1, []⟩, ⟨"b", none, none, 2, []⟩, ⟨"c", none, none, 3, []⟩] (j * 2))
    = [⟨"a", none, none, 1, []⟩, ⟨"b", none, none, 2, []⟩, ⟨"c", none, none, 3, []⟩] := by decide

end Ru
