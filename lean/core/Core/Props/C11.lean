/-
  Core/Props/C11.lean — the pool: admission (`addTransaction`) and block production (`Validate`).
  `Node.greedy`, `Node.keeps`, `Node.advance`, `wrapAdd`, `feeOf` are the specification functions defined in
  Core/Lemmas/Fee.lean (greedy left-to-right filter; uint64 accumulation; fee or 0).
-/
import Core.Lemmas.Fee
import Core.Lemmas.AddBlock
import Core.Machine
open Std

namespace Ru

/-! concrete data for the non-vacuity examples -/
def C11ex.u : Utxo := ⟨"a", 0, ⟨"A", false, 10⟩, 5⟩
def C11ex.reg : UtxoReg :=
  ⟨(∅ : TreeMap String (List (Option Utxo))).insert "a" [some C11ex.u], (∅ : TreeMap String (List Utxo)).insert "A" [C11ex.u]⟩
def C11ex.env : Env := ⟨fun v _ _ => v, fun b => toString b.ts⟩
def C11ex.cfg : Cfg := ⟨10, 100, 1, 5, "V"⟩
def C11ex.b0 : Block := ⟨zeroHash, none, none, 5, [⟨"a", [], [⟨"A", false, 10⟩], 5⟩]⟩
def C11ex.b1 : Block := ⟨"5", none, none, 10, [⟨"r1", [], [⟨"V", false, 0⟩], 10⟩]⟩
/-- two blocks; the genesis output "a"/0 (10 coins of "A") is confirmed -/
def C11ex.led : Ledger := ⟨[C11ex.b0, C11ex.b1], C11ex.reg, .empty⟩
def C11ex.tx : Tx := ⟨"t", [⟨"a", 0, "pk", "sig", "A", true⟩], [⟨"B", false, 7⟩], 12⟩
/-- a second transaction spending the same output (conflict) -/
def C11ex.tx' : Tx := ⟨"t'", [⟨"a", 0, "pk", "sig", "A", true⟩], [⟨"C", false, 6⟩], 12⟩
def C11ex.node : Node := ⟨C11ex.led, []⟩
def C11ex.node1 : Node := ⟨C11ex.led, [C11ex.tx]⟩

/-- C11 (admission, exact): `addTransaction` accepts a transaction if and only if the chain is non-empty, the
    transaction is dated between the last block and the next block time, its id is not pooled, every input has
    a valid signature, the last block and the pool replay on a copy of the confirmed outputs (valued at the
    next block time), the fee rule passes on that copy and on the confirmed outputs, and the transaction itself
    replays on the copy. -/
theorem C11_admit_iff (env : Env) (cfg : Cfg) (n : Node) (tx : Tx) :
    Node.admitCheck env cfg n tx = .ok () ↔
      n.led.lastTs ≠ 0 ∧ n.led.lastTs ≤ tx.ts ∧ tx.ts ≤ n.led.lastTs + cfg.interval ∧
      (∀ p ∈ n.pool, p.id ≠ tx.id) ∧ (∀ i ∈ tx.inputs, i.sigValid = true) ∧
      ∃ c1 c2, n.led.utxos.update n.led.lastTxs (n.led.lastTs + cfg.interval) = .ok c1 ∧
        c1.update n.pool (n.led.lastTs + cfg.interval) = .ok c2 ∧
        (c2.calculateFee env.val cfg.minFee tx (n.led.lastTs + cfg.interval)).isOk = true ∧
        (n.led.utxos.calculateFee env.val cfg.minFee tx (n.led.lastTs + cfg.interval)).isOk = true ∧
        (c2.update [tx] (n.led.lastTs + cfg.interval)).isOk = true :=
  Node.admitCheck_ok_iff env cfg n tx

example : Node.admitCheck C11ex.env C11ex.cfg C11ex.node C11ex.tx = .ok () := by rfl
/-- the conflicting transaction is refused once `tx` is pooled -/
example : (Node.admitCheck C11ex.env C11ex.cfg C11ex.node1 C11ex.tx').isOk = false := by rfl

/-- C11 (admission, effect): an accepted transaction is appended to the pool, a refused one changes nothing;
    the ledger never changes. -/
theorem C11_admit_effect (env : Env) (cfg : Cfg) (n : Node) (tx : Tx) :
    (Node.admitCheck env cfg n tx = .ok () → n.admitTx env cfg tx = { n with pool := n.pool ++ [tx] }) ∧
    (Node.admitCheck env cfg n tx ≠ .ok () → n.admitTx env cfg tx = n) ∧
    (n.admitTx env cfg tx).led = n.led := by
  unfold Node.admitTx
  cases h : Node.admitCheck env cfg n tx with
  | ok u => cases u; simp
  | error e => simp

example : (C11ex.node.admitTx C11ex.env C11ex.cfg C11ex.tx).pool = [C11ex.tx] := by rfl
example : (C11ex.node1.admitTx C11ex.env C11ex.cfg C11ex.tx').pool = [C11ex.tx] := by rfl

/-- C11 (production, completeness): the `Validate` loop IS the greedy left-to-right filter `Node.greedy`:
    it keeps `t` iff `Node.keeps` (window ∧ signatures ∧ fee rule on the running copy ∧ fee rule on the
    confirmed outputs ∧ `t` replays on the running copy) and continues with the updated copy; the reward is the
    uint64 accumulation of the kept transactions' fees on the confirmed outputs. -/
theorem C11_produceLoop_greedy (env : Env) (cfg : Cfg) (confirmed : UtxoReg) (ts last next : Int)
    (perm : List Tx) (copy : UtxoReg) (reward : Nat) (kept : List Tx) :
    Node.produceLoop env cfg confirmed ts last next perm copy reward kept =
      (kept ++ (Node.greedy env cfg confirmed ts last next perm copy).1,
       wrapAdd reward ((Node.greedy env cfg confirmed ts last next perm copy).1.map (feeOf env.val cfg.minFee confirmed ts)),
       (Node.greedy env cfg confirmed ts last next perm copy).2) :=
  Node.produceLoop_eq_greedy env cfg confirmed ts last next perm copy reward kept

example : (Node.produceLoop C11ex.env C11ex.cfg C11ex.reg 15 10 15 [C11ex.tx, C11ex.tx'] C11ex.reg 0 []).1 = [C11ex.tx] := by rfl

/-- the test, spelled out -/
theorem C11_keeps_iff (env : Env) (cfg : Cfg) (confirmed : UtxoReg) (ts last next : Int) (copy : UtxoReg) (t : Tx) :
    Node.keeps env cfg confirmed ts last next copy t = true ↔
      last ≤ t.ts ∧ t.ts ≤ ts ∧ (∀ i ∈ t.inputs, i.sigValid = true) ∧
      (∃ f, copy.calculateFee env.val cfg.minFee t ts = .ok f) ∧
      (∃ f, confirmed.calculateFee env.val cfg.minFee t ts = .ok f) ∧
      (∃ c, copy.update [t] next = .ok c) :=
  Node.keeps_eq_true_iff env cfg confirmed ts last next copy t

example : Node.keeps C11ex.env C11ex.cfg C11ex.reg 15 10 15 C11ex.reg C11ex.tx = true := by rfl

/-- C11 (production, completeness, positional): at every position `pre ++ t :: post` of the order tried, `t` is
    kept there exactly when it passes the test on the running copy after `pre`; a transaction that is not
    kept at all failed (at each of its positions) one of: window, signatures, fee rule on the running copy,
    fee rule on the confirmed outputs, replay on the running copy. -/
theorem C11_not_kept_failed (env : Env) (cfg : Cfg) (confirmed : UtxoReg) (ts last next : Int)
    (pre post : List Tx) (t : Tx) (copy : UtxoReg)
    (hnot : t ∉ (Node.greedy env cfg confirmed ts last next (pre ++ t :: post) copy).1) :
    let run := (Node.greedy env cfg confirmed ts last next pre copy).2
    t.ts < last ∨ ts < t.ts ∨ (∃ i ∈ t.inputs, i.sigValid = false) ∨
      (∃ e, run.calculateFee env.val cfg.minFee t ts = .error e) ∨
      (∃ e, confirmed.calculateFee env.val cfg.minFee t ts = .error e) ∨
      (∃ e, run.update [t] next = .error e) := by
  intro run
  have := Node.greedy_not_mem env cfg confirmed ts last next hnot pre post rfl
  exact (Node.keeps_eq_false_iff env cfg confirmed ts last next run t).mp this

example : C11ex.tx' ∉ (Node.greedy C11ex.env C11ex.cfg C11ex.reg 15 10 15 ([C11ex.tx] ++ C11ex.tx' :: []) C11ex.reg).1 := by
  decide

/-- positional form of the filter: the kept list splits at every position according to the test -/
theorem C11_greedy_at (env : Env) (cfg : Cfg) (confirmed : UtxoReg) (ts last next : Int)
    (pre post : List Tx) (t : Tx) (copy : UtxoReg) :
    let run := (Node.greedy env cfg confirmed ts last next pre copy).2
    (Node.greedy env cfg confirmed ts last next (pre ++ t :: post) copy).1 =
      (Node.greedy env cfg confirmed ts last next pre copy).1 ++
        (if Node.keeps env cfg confirmed ts last next run t then
          t :: (Node.greedy env cfg confirmed ts last next post (Node.advance next run t)).1
         else (Node.greedy env cfg confirmed ts last next post run).1) := by
  intro run
  cases hk : Node.keeps env cfg confirmed ts last next run t with
  | true => simpa using Node.greedy_at_true env cfg confirmed ts last next pre post t copy hk
  | false =>
    rw [Node.greedy_at_false env cfg confirmed ts last next pre post t copy hk, Node.greedy_append]
    simp [run]

example : (Node.greedy C11ex.env C11ex.cfg C11ex.reg 15 10 15 ([C11ex.tx] ++ C11ex.tx' :: []) C11ex.reg).1 = [C11ex.tx] := by
  rfl


/-- C11 (production): a tick that is not refused empties the pool and appends exactly one block to the chain
    (the previous tip is confirmed first).  With `copy` the confirmed outputs after replaying the last block
    (dated at the next block time), `kept` the transactions placed and `fees` the reward:
    (iii) `kept` is the greedy filter of the order tried `perm`; (i) it is a sublist of `perm`;
    (ii) every kept transaction is inside the window, fully signed and passes the fee rule on the confirmed
    outputs at the block's timestamp; (iv) `fees` is the uint64 accumulation, from the genesis amount in a first
    block and 0 otherwise, of the kept transactions' fees — equal to `(start + Σ) % 2^64` as soon as something
    is kept or the genesis amount is a uint64, equal to the exact sum when that is below 2^64, and never above
    the exact sum; (v) with a positive minimal fee no kept transaction is a reward, so the block has exactly one
    reward transaction, the last, paid to the configured address; (vi) distinct ids in `perm` give distinct
    ids in `kept`. -/
theorem C11_produce_spec (env : Env) (cfg : Cfg) (n n' : Node) (ts : Int) (perm : List Tx) (rewardId : String)
    (h : n.produce env cfg ts perm rewardId = some n') :
    n'.pool = [] ∧
    ∃ (copy : UtxoReg) (c : Ledger) (kept : List Tx) (fees : Nat),
      n.led.utxos.update n.led.lastTxs (n.led.lastTs + cfg.interval) = .ok copy ∧
      n.led.confirmLast = .ok c ∧
      n'.led.blocks = n.led.blocks ++
        [Ledger.mkBlock env n.led c ts
          (kept ++ [Node.rewardTx rewardId cfg.validator (n.led.lastTs == 0) ts fees])
          ((if n.led.lastTs == 0 then [cfg.validator] else []) ++ Node.yieldingAddrs kept)] ∧
      n'.led.utxos = c.utxos ∧ n'.led.reg = c.reg ∧
      -- (iii)
      kept = (Node.greedy env cfg n.led.utxos ts n.led.lastTs (n.led.lastTs + cfg.interval) perm copy).1 ∧
      -- (i)
      kept.Sublist perm ∧
      -- (ii)
      (∀ t ∈ kept, n.led.lastTs ≤ t.ts ∧ t.ts ≤ ts ∧ (∀ i ∈ t.inputs, i.sigValid = true) ∧
        (n.led.utxos.calculateFee env.val cfg.minFee t ts).isOk = true) ∧
      -- (iv)
      fees = wrapAdd (if n.led.lastTs = 0 then cfg.genesis else 0) (kept.map (feeOf env.val cfg.minFee n.led.utxos ts)) ∧
      (kept ≠ [] ∨ (if n.led.lastTs = 0 then cfg.genesis else 0) < U64 →
        fees = ((if n.led.lastTs = 0 then cfg.genesis else 0) + (kept.map (feeOf env.val cfg.minFee n.led.utxos ts)).sum) % U64) ∧
      ((if n.led.lastTs = 0 then cfg.genesis else 0) + (kept.map (feeOf env.val cfg.minFee n.led.utxos ts)).sum < U64 →
        fees = (if n.led.lastTs = 0 then cfg.genesis else 0) + (kept.map (feeOf env.val cfg.minFee n.led.utxos ts)).sum) ∧
      fees ≤ (if n.led.lastTs = 0 then cfg.genesis else 0) + (kept.map (feeOf env.val cfg.minFee n.led.utxos ts)).sum ∧
      -- (v)
      (1 ≤ cfg.minFee →
        (∀ t ∈ kept, t.hasReward = false) ∧
        (kept ++ [Node.rewardTx rewardId cfg.validator (n.led.lastTs == 0) ts fees]).filter (·.hasReward)
          = [Node.rewardTx rewardId cfg.validator (n.led.lastTs == 0) ts fees] ∧
        (kept ++ [Node.rewardTx rewardId cfg.validator (n.led.lastTs == 0) ts fees]).filter (fun t => !t.hasReward)
          = kept) ∧
      (Node.rewardTx rewardId cfg.validator (n.led.lastTs == 0) ts fees).rewardRecipient = cfg.validator ∧
      (Node.rewardTx rewardId cfg.validator (n.led.lastTs == 0) ts fees).rewardValue = fees ∧
      -- (vi)
      ((perm.map (·.id)).Nodup → (kept.map (·.id)).Nodup) := by
  obtain ⟨_, copy, c, hu, hc, rfl⟩ := Node.fee_produce_some h
  refine ⟨rfl, copy, c, Node.keptOf env cfg n ts perm copy, Node.feesOf env cfg n ts (Node.keptOf env cfg n ts perm copy),
    hu, hc, ?_, rfl, rfl, rfl, ?_, ?_, ?_, ?_, ?_, ?_, ?_, rfl, rfl, ?_⟩
  · simp [Ledger.fee_confirmLast_blocks hc, Node.blockOf]
  · exact Node.greedy_sublist _ _ _ _ _ _ _ _
  · intro t ht
    obtain ⟨h1, h2, h3, h4⟩ := Node.greedy_mem_keeps_parts env cfg n.led.utxos ts n.led.lastTs _ ht
    exact ⟨h1, h2, h3, (fee_isOk_iff_exists _).mpr h4⟩
  · simp [Node.feesOf, Node.startReward]
  · intro hk
    have := wrapAdd_eq_mod (if n.led.lastTs = 0 then cfg.genesis else 0)
      ((Node.keptOf env cfg n ts perm copy).map (feeOf env.val cfg.minFee n.led.utxos ts)) (by simpa using hk)
    simpa [Node.feesOf, Node.startReward] using this
  · intro hk
    have := wrapAdd_exact _ _ hk
    simpa [Node.feesOf, Node.startReward] using this
  · have := wrapAdd_le (if n.led.lastTs = 0 then cfg.genesis else 0)
      ((Node.keptOf env cfg n ts perm copy).map (feeOf env.val cfg.minFee n.led.utxos ts))
    simpa [Node.feesOf, Node.startReward] using this
  · intro hmin
    have hk : ∀ t ∈ Node.keptOf env cfg n ts perm copy, t.hasReward = false := by
      intro t ht
      obtain ⟨_, _, _, f, hf⟩ := Node.greedy_mem_keeps_parts env cfg n.led.utxos ts n.led.lastTs _ ht
      cases hr : t.hasReward with
      | false => rfl
      | true =>
        obtain ⟨e, he⟩ := UtxoReg.calculateFee_noInputs_error env.val cfg.minFee hmin n.led.utxos t ts hr
        rw [he] at hf; cases hf
    exact ⟨hk, Node.filter_hasReward_append_reward _ _ hk rfl, Node.filter_not_hasReward_append_reward _ _ hk rfl⟩
  · intro hnd
    exact (((Node.greedy_sublist env cfg n.led.utxos ts n.led.lastTs _ perm copy).map (·.id))).nodup hnd

example : ∃ n', C11ex.node1.produce C11ex.env C11ex.cfg 15 [C11ex.tx] "r2" = some n' ∧
    n'.led.blocks.length = 3 ∧ (n'.led.blocks.getLast?.map (·.txs.length)) = some 2 := ⟨_, rfl, rfl, rfl⟩

/-- the block production appends ends with the reward; the reward is the only reward and is worth the fee -/
example : ((C11ex.node1.produce C11ex.env C11ex.cfg 15 [C11ex.tx] "r2").map
    (fun n' => n'.led.blocks.getLast?.map (fun b => b.txs.map (·.rewardValue)))) = some (some [7, 3]) := by rfl

/-- C11 (a refused tick changes nothing) with the exact refusal condition: a non-first block whose time equals
    the last block's or lies beyond the next block time, a time not after the tip (`AddBlock`'s guard), or a last
    block that does not replay on the confirmed outputs (copy, or `confirmLastBlock`). -/
theorem C11_refused_tick_unchanged (env : Env) (cfg : Cfg) (n : Node) (ts : Int) (perm : List Tx) (rewardId : String) :
    (n.produce env cfg ts perm rewardId = none → Ru.step env cfg n (.tick ts perm rewardId) = n) ∧
    (n.produce env cfg ts perm rewardId = none ↔
      (n.led.lastTs ≠ 0 ∧ (ts = n.led.lastTs ∨ ts > n.led.lastTs + cfg.interval)) ∨
      (n.led.utxos.update n.led.lastTxs (n.led.lastTs + cfg.interval)).isOk = false ∨
      (n.led.blocks ≠ [] ∧ ts ≤ n.led.lastTs) ∨
      n.led.confirmLast.isOk = false) := by
  refine ⟨?_, Node.fee_produce_none_iff env cfg n ts perm rewardId⟩
  intro h
  simp [Ru.step, h]

example : C11ex.node1.produce C11ex.env C11ex.cfg 10 [C11ex.tx] "r2" = none := by rfl
example : C11ex.node1.produce C11ex.env C11ex.cfg 16 [C11ex.tx] "r2" = none := by rfl

/-- a tick either leaves the node alone or is a production from a permutation of the pool -/
theorem C11_tick_cases (env : Env) (cfg : Cfg) (n : Node) (ts : Int) (perm : List Tx) (rewardId : String) :
    Ru.step env cfg n (.tick ts perm rewardId) = n ∨
    (perm.isPerm n.pool = true ∧ n.produce env cfg ts perm rewardId = some (Ru.step env cfg n (.tick ts perm rewardId))) := by
  have hs : Ru.step env cfg n (.tick ts perm rewardId) =
      if perm.isPerm n.pool then (n.produce env cfg ts perm rewardId).getD n else n := rfl
  rw [hs]
  by_cases hp : perm.isPerm n.pool = true
  · rw [if_pos hp]
    cases hpr : n.produce env cfg ts perm rewardId with
    | none => left; rfl
    | some n' => right; exact ⟨hp, rfl⟩
  · rw [if_neg hp]; left; rfl

example : (Ru.step C11ex.env C11ex.cfg C11ex.node1 (.tick 15 [C11ex.tx] "r2")).pool = [] := by rfl

/-- whether `UpdateUtxos` succeeds does not depend on the timestamp it stamps new outputs with -/
theorem C11_update_isOk_indep_ts (r : UtxoReg) (txs : List Tx) (t1 t2 : Int) :
    (r.update txs t1).isOk = (r.update txs t2).isOk :=
  UtxoReg.update_isOk_indep_ts r txs t1 t2

example : (C11ex.reg.update [C11ex.tx] 1).isOk = true ∧ (C11ex.reg.update [C11ex.tx] 2).isOk = true := ⟨rfl, rfl⟩

/-- C11 (AddBlock cannot fail after the copy replay, for a tick dated after the tip): when the last block replays
    on a copy of the confirmed outputs (at the next block time) `confirmLastBlock` — the same replay at the block's own timestamp — also
    succeeds; hence a tick inside the time window whose copy replay succeeded always produces. -/
theorem C11_addBlock_after_copy_ok (env : Env) (cfg : Cfg) (n : Node) (ts : Int) (perm : List Tx) (rewardId : String)
    (copy : UtxoReg) (h : n.led.utxos.update n.led.lastTxs (n.led.lastTs + cfg.interval) = .ok copy)
    (hat : n.led.blocks = [] ∨ n.led.lastTs < ts) :
    (∃ c, n.led.confirmLast = .ok c) ∧
    (∀ txs addrs, ∃ l', n.led.addBlock env ts txs addrs = .ok l') ∧
    (¬(n.led.lastTs ≠ 0 ∧ (ts = n.led.lastTs ∨ ts > n.led.lastTs + cfg.interval)) →
      ∃ n', n.produce env cfg ts perm rewardId = some n') := by
  have hc : n.led.confirmLast.isOk = true :=
    Ledger.confirmLast_ok_of_update_ok n.led (n.led.lastTs + cfg.interval) (by rw [h]; rfl)
  obtain ⟨c, hc'⟩ := (fee_isOk_iff_exists _).mp hc
  refine ⟨⟨c, hc'⟩, ?_, ?_⟩
  · intro txs addrs
    rw [Ledger.addBlock_of_after_tip hat, hc']
    exact ⟨_, rfl⟩
  · intro hw
    cases hp : n.produce env cfg ts perm rewardId with
    | some n' => exact ⟨n', rfl⟩
    | none =>
      rcases (Node.fee_produce_none_iff env cfg n ts perm rewardId).mp hp with h1 | h1 | h1 | h1
      · exact absurd h1 hw
      · rw [h] at h1; cases h1
      · rcases hat with hb | hlt
        · exact absurd hb h1.1
        · have := h1.2; omega
      · rw [hc] at h1; cases h1

example : (C11ex.led.utxos.update C11ex.led.lastTxs (C11ex.led.lastTs + C11ex.cfg.interval)).isOk = true := by rfl


/-! ### the reward formula `(start + Σ fees) mod 2^64`

  FINDING (model artefact): `Cfg.genesis` is an unbounded `Nat` in the model (a uint64 in Go).  With a genesis
  amount ≥ 2^64 and nothing kept, the accumulator is returned unreduced, so the closed formula
  `(start + Σ) % 2^64` fails; it holds as soon as the genesis amount is a uint64 (or something is kept). -/

/-- the full statement (FALSE of the model for `cfg.genesis ≥ 2^64`, see `C11_produce_fees_counterexample`) -/
def C11_produce_fees_full : Prop :=
  ∀ (env : Env) (cfg : Cfg) (n n' : Node) (ts : Int) (perm : List Tx) (rewardId : String),
    n.produce env cfg ts perm rewardId = some n' →
    ∃ (b : Block) (kept : List Tx) (rt : Tx), n'.led.blocks = n.led.blocks ++ [b] ∧ b.txs = kept ++ [rt] ∧
      rt.rewardValue = ((if n.led.lastTs = 0 then cfg.genesis else 0) +
        (kept.map (feeOf env.val cfg.minFee n.led.utxos ts)).sum) % U64

/-- the reward formula under the hypothesis that the genesis amount is a uint64 -/
theorem C11_produce_fees_partial (env : Env) (cfg : Cfg) (n n' : Node) (ts : Int) (perm : List Tx) (rewardId : String)
    (hg : cfg.genesis < U64)
    (h : n.produce env cfg ts perm rewardId = some n') :
    ∃ (b : Block) (kept : List Tx) (rt : Tx), n'.led.blocks = n.led.blocks ++ [b] ∧ b.txs = kept ++ [rt] ∧
      rt.rewardValue = ((if n.led.lastTs = 0 then cfg.genesis else 0) +
        (kept.map (feeOf env.val cfg.minFee n.led.utxos ts)).sum) % U64 := by
  obtain ⟨_, copy, c, kept, fees, _, _, hb, _, _, _, _, _, _, hmod, _, _, _, _, hv, _⟩ :=
    C11_produce_spec env cfg n n' ts perm rewardId h
  refine ⟨_, kept, _, hb, rfl, ?_⟩
  rw [hv]
  apply hmod
  right
  split
  · exact hg
  · decide

example : C11ex.cfg.genesis < U64 := by decide

theorem C11_produce_fees_counterexample : ¬ C11_produce_fees_full := by
  intro hfull
  obtain ⟨b, kept, rt, hb, htx, hv⟩ :=
    hfull ⟨fun v _ _ => v, fun _ => ""⟩ ⟨10, U64, 1, 5, "V"⟩ Node.empty _ 5 [] "r" rfl
  have hb' : b = ⟨zeroHash, some ["V"], none, 5, [Node.rewardTx "r" "V" true 5 U64]⟩ := by
    have : [(⟨zeroHash, some ["V"], none, 5, [Node.rewardTx "r" "V" true 5 U64]⟩ : Block)] = [b] := hb
    injection this with this
    exact this.symm
  subst hb'
  cases kept with
  | nil =>
    simp only [List.nil_append, List.cons.injEq, and_true] at htx
    subst htx
    revert hv
    decide
  | cons k ks =>
    cases ks with
    | nil => simp at htx
    | cons k' ks' => simp at htx

end Ru
