/-
  Core/Props/Cchain.lean — C01 / C03 / C04 / C10 at CHAIN level, for every history:
  "In every chain a node produces or adopts, each ordinary transaction of a non-genesis block …".

  One invariant (`C01_chain_judged`) carries all of them: in every state reached by any well-formed history —
  any interleaving of ticks (any shuffle), submissions of ANY transactions, registry refreshes and sync rounds
  against ARBITRARY neighbour answers, under an honest clock (no tick dated 0) — every block above the first
  was judged (`BlockJudged`: single reward ≤ fees; every ordinary transaction in the window, fully signed, owner =
  recipient, fee rule in exact arithmetic, yielding outputs registered or listed) against a REPLAY of the chain
  below it.  The replayed prefix is the chain below the block's predecessor (the lag of `verify` and of the
  producer) or, for a block adopted as competing tip, the chain below the block itself.

  Property theorems and non-vacuity examples only; the proofs are in Core/Lemmas/Judged.lean.
-/
import Core.Lemmas.Judged
import Core.Lemmas.InjHash
import Core.Props.C05
import Core.Props.C02chain
open Std

set_option maxRecDepth 100000

namespace Ru
open SL.SyncEx

/-- **The chain-level invariant.** -/
theorem C01_chain_judged (env : Env) (cfg : Cfg) (hmin : 1 ≤ cfg.minFee) (hinj : Function.Injective env.hash)
    (ops : List Op) (hw : ∀ o ∈ ops, o.WF) (hnz : ∀ o ∈ ops, TickNonzero o) :
    ChainJudged env cfg (Ru.run env cfg Node.empty ops).led.blocks :=
  JudgedL.judged_run hmin hinj ops Node.empty (Reachable.empty env cfg) ShapeL.tsok_nil
    (JudgedL.chainJudged_nil env cfg) hw hnz

/-- the example history: three empty blocks, a submitted transaction spending the genesis reward, the tick that
    includes it — under an environment whose block hash is injective -/
def Cchain.ops : List Op := ops3 ++ [.submit C05ex.tx, .tick 240 [C05ex.tx] "r3"]

/-- non-vacuity of the hypotheses: minimal fee ≥ 1, an injective hash exists, the history is well formed and
    no tick is dated 0; its chain has four blocks, the last one holding the ordinary transaction and a reward of
    10 — and the invariant applies to it -/
example : 1 ≤ cfg.minFee ∧ Function.Injective InjHash.env.hash ∧ (∀ o ∈ Cchain.ops, o.WF) ∧
    (∀ o ∈ Cchain.ops, TickNonzero o) ∧
    (Ru.run InjHash.env cfg Node.empty Cchain.ops).led.blocks.map (fun b => b.txs.map (fun t => (t.id, t.rewardValue)))
      = [[("r0", 100)], [("r1", 0)], [("r2", 0)], [("t1", 90), ("r3", 10)]] := by
  refine ⟨by decide, InjHash.env_injective, ?_, ?_, by decide⟩
  · intro o ho
    simp only [Cchain.ops, ops3, List.cons_append, List.nil_append, List.mem_cons, List.not_mem_nil, or_false] at ho
    rcases ho with rfl | rfl | rfl | rfl | rfl <;> trivial
  · intro o ho
    simp only [Cchain.ops, ops3, List.cons_append, List.nil_append, List.mem_cons, List.not_mem_nil, or_false] at ho
    rcases ho with rfl | rfl | rfl | rfl | rfl <;> first | trivial | (show (_ : Int) ≠ 0; decide)

/-- FULL statement of C01 for chains (FALSE of the code, see the known finding
    `C01/recreated-id-valued-as-old-instance` and `rudefects D1b`): the outputs each transaction is VALUED on are
    the outputs the replay of the chain CONSUMES for it.  What is proved below is the bound against the state
    judged against; the two coincide when no transaction id is created again between the state judged against and
    the state replayed on (`NoRecreation`). -/
def C01_chain_full (env : Env) (cfg : Cfg) : Prop :=
  ∀ (ops : List Op), (∀ o ∈ ops, o.WF) → (∀ o ∈ ops, TickNonzero o) →
  ∀ (h : Nat) (p b : Block) (c : Conf),
    (Ru.run env cfg Node.empty ops).led.blocks[h]? = some p →
    (Ru.run env cfg Node.empty ops).led.blocks[h + 1]? = some b →
    Conf.replay Conf.empty ((Ru.run env cfg Node.empty ops).led.blocks.take (h + 1)) = .ok c →
    ∀ t ∈ b.txs, t.hasReward = false →
      (t.outputs.map (·.value)).sum + cfg.minFee
        ≤ ((consumedOf c.utxos t).map (fun u => env.val u.out.value u.out.yielding (b.ts - u.created))).sum

/-- **C01 for every chain (partial: against the state judged against).**  Every block above the first of every
    reachable chain has exactly one reward, worth at most the exact sum of the fees its ordinary transactions
    leave over, and every ordinary transaction pays out, in exact arithmetic, no more than the value — at the
    block's timestamp — of the confirmed outputs its inputs name minus the minimal fee, where "confirmed" is a
    replay of the chain itself (below the predecessor, or below the block for a competing tip). -/
theorem C01_chain_partial (env : Env) (cfg : Cfg) (hmin : 1 ≤ cfg.minFee) (hinj : Function.Injective env.hash)
    (ops : List Op) (hw : ∀ o ∈ ops, o.WF) (hnz : ∀ o ∈ ops, TickNonzero o)
    (h : Nat) (p b : Block)
    (hp : (Ru.run env cfg Node.empty ops).led.blocks[h]? = some p)
    (hb : (Ru.run env cfg Node.empty ops).led.blocks[h + 1]? = some b) :
    ∃ c, (Conf.replay Conf.empty ((Ru.run env cfg Node.empty ops).led.blocks.take h) = .ok c ∨
          Conf.replay Conf.empty ((Ru.run env cfg Node.empty ops).led.blocks.take (h + 1)) = .ok c) ∧
      (∃ rt, b.txs.filter (·.hasReward) = [rt] ∧
        rt.rewardValue ≤ ((b.txs.filter (fun t => !t.hasReward)).map (feeOf env.val cfg.minFee c.utxos b.ts)).sum) ∧
      ∀ t ∈ b.txs, t.hasReward = false →
        ∃ (us : List Utxo) (fee : Nat), c.utxos.calculateFee env.val cfg.minFee t b.ts = .ok fee ∧
          t.inputs.map (UtxoReg.lookup c.utxos.byId) = us.map Except.ok ∧
          (us.map (fun u => env.val u.out.value u.out.yielding (b.ts - u.created))).sum
            = fee + (t.outputs.map (·.value)).sum ∧
          cfg.minFee ≤ fee ∧
          (t.outputs.map (·.value)).sum + cfg.minFee
            ≤ (us.map (fun u => env.val u.out.value u.out.yielding (b.ts - u.created))).sum ∧
          (us.map (fun u => env.val u.out.value u.out.yielding (b.ts - u.created))).sum < U64 := by
  obtain ⟨c, hc, hrw, hall⟩ := C01_chain_judged env cfg hmin hinj ops hw hnz h p b hp hb
  refine ⟨c, hc, hrw, ?_⟩
  intro t ht hr
  obtain ⟨_, _, _, _, fee, hf⟩ := hall t ht hr
  obtain ⟨us, _, h1, _, h3, h4, h5, _⟩ := C01_fee_exact env.val cfg.minFee c.utxos t b.ts fee hf
  exact ⟨us, fee, hf, h1, h3, h4, by omega, h5⟩

/-- the statement is about something: in the example chain, block 3 holds an ordinary transaction -/
example : ∃ p b, (Ru.run InjHash.env cfg Node.empty Cchain.ops).led.blocks[2]? = some p ∧
    (Ru.run InjHash.env cfg Node.empty Cchain.ops).led.blocks[3]? = some b ∧
    ∃ t ∈ b.txs, t.hasReward = false ∧ t.id = "t1" := by
  refine ⟨_, _, rfl, rfl, C05ex.tx, ?_, rfl, rfl⟩
  decide

/-- **C03 for every chain.**  Every input of every ordinary transaction of every block above the first of every
    reachable chain carries a valid signature, and the address of its public key is the recipient of the
    confirmed output it names (in the replay the block was judged against). -/
theorem C03_chain (env : Env) (cfg : Cfg) (hmin : 1 ≤ cfg.minFee) (hinj : Function.Injective env.hash)
    (ops : List Op) (hw : ∀ o ∈ ops, o.WF) (hnz : ∀ o ∈ ops, TickNonzero o)
    (h : Nat) (p b : Block)
    (hp : (Ru.run env cfg Node.empty ops).led.blocks[h]? = some p)
    (hb : (Ru.run env cfg Node.empty ops).led.blocks[h + 1]? = some b) :
    ∃ c, (Conf.replay Conf.empty ((Ru.run env cfg Node.empty ops).led.blocks.take h) = .ok c ∨
          Conf.replay Conf.empty ((Ru.run env cfg Node.empty ops).led.blocks.take (h + 1)) = .ok c) ∧
      ∀ t ∈ b.txs, t.hasReward = false → ∀ i ∈ t.inputs,
        i.sigValid = true ∧ ∃ u, UtxoReg.lookup c.utxos.byId i = .ok u ∧ u.out.address = i.address := by
  obtain ⟨c, hc, _, hall⟩ := C01_chain_judged env cfg hmin hinj ops hw hnz h p b hp hb
  refine ⟨c, hc, ?_⟩
  intro t ht hr i hi
  obtain ⟨_, _, hs, _, fee, hf⟩ := hall t ht hr
  exact ⟨List.all_eq_true.mp hs i hi, UtxoReg.calculateFee_owner hf i hi⟩

example : C05ex.tx.inputs ≠ [] := by decide

/-- **C04 (transactions) for every chain, with NO assumption on tick alignment.**  Every block above the first
    of every reachable chain carries exactly one reward transaction and every ordinary transaction is dated no
    earlier than the previous block and no later than its own block.  (Even spacing of the blocks themselves needs
    aligned ticks: `C04_chain_invariant`.) -/
theorem C04_chain_txs (env : Env) (cfg : Cfg) (hmin : 1 ≤ cfg.minFee) (hinj : Function.Injective env.hash)
    (ops : List Op) (hw : ∀ o ∈ ops, o.WF) (hnz : ∀ o ∈ ops, TickNonzero o)
    (h : Nat) (p b : Block)
    (hp : (Ru.run env cfg Node.empty ops).led.blocks[h]? = some p)
    (hb : (Ru.run env cfg Node.empty ops).led.blocks[h + 1]? = some b) :
    (b.txs.filter (·.hasReward)).length = 1 ∧
    ∀ t ∈ b.txs, t.hasReward = false → p.ts ≤ t.ts ∧ t.ts ≤ b.ts := by
  obtain ⟨c, _, ⟨rt, hrt, _⟩, hall⟩ := C01_chain_judged env cfg hmin hinj ops hw hnz h p b hp hb
  refine ⟨by rw [hrt]; rfl, ?_⟩
  intro t ht hr
  obtain ⟨h1, h2, _⟩ := hall t ht hr
  exact ⟨h1, h2⟩

/-- **C10 (registered recipients) for every chain.**  A yielding output of an ordinary transaction of a block above
    the first of a reachable chain goes to an address the block itself lists as newly registered, or to an
    address registered in the replay the block was judged against. -/
theorem C10_chain_yield_rule (env : Env) (cfg : Cfg) (hmin : 1 ≤ cfg.minFee) (hinj : Function.Injective env.hash)
    (ops : List Op) (hw : ∀ o ∈ ops, o.WF) (hnz : ∀ o ∈ ops, TickNonzero o)
    (h : Nat) (p b : Block)
    (hp : (Ru.run env cfg Node.empty ops).led.blocks[h]? = some p)
    (hb : (Ru.run env cfg Node.empty ops).led.blocks[h + 1]? = some b) :
    ∃ c, (Conf.replay Conf.empty ((Ru.run env cfg Node.empty ops).led.blocks.take h) = .ok c ∨
          Conf.replay Conf.empty ((Ru.run env cfg Node.empty ops).led.blocks.take (h + 1)) = .ok c) ∧
      ∀ t ∈ b.txs, t.hasReward = false → ∀ o ∈ t.outputs, o.yielding = true →
        o.address ∈ b.addedL ∨ c.registered.contains o.address = true := by
  obtain ⟨c, hc, _, hall⟩ := C01_chain_judged env cfg hmin hinj ops hw hnz h p b hp hb
  refine ⟨c, hc, ?_⟩
  intro t ht hr o ho hy
  obtain ⟨_, _, _, hyr, _⟩ := hall t ht hr
  exact (agree_verifier_yield_rule _ _ _).mp hyr o ho hy

/-- **C02 (created in an EARLIER block) for every chain, tip included.**  Every input of every ordinary transaction of
    a block above the first of a reachable chain — the last block included — names an output that a transaction of a
    STRICTLY earlier block of that same chain created (same id, that output index, that recipient): a block never
    spends an output of its own transactions, nor one that does not exist. -/
theorem C02_chain_created_earlier (env : Env) (cfg : Cfg) (hmin : 1 ≤ cfg.minFee) (hinj : Function.Injective env.hash)
    (ops : List Op) (hw : ∀ o ∈ ops, o.WF) (hnz : ∀ o ∈ ops, TickNonzero o)
    (h : Nat) (p b : Block)
    (hp : (Ru.run env cfg Node.empty ops).led.blocks[h]? = some p)
    (hb : (Ru.run env cfg Node.empty ops).led.blocks[h + 1]? = some b) :
    ∀ t ∈ b.txs, t.hasReward = false → ∀ i ∈ t.inputs,
      ∃ (q : Nat) (b' : Block) (t' : Tx) (o : Output), q ≤ h ∧
        (Ru.run env cfg Node.empty ops).led.blocks[q]? = some b' ∧ t' ∈ b'.txs ∧ t'.id = i.txId ∧
        UtxoReg.creates t' = true ∧ t'.outputs[i.index]? = some o ∧ o.address = i.address := by
  obtain ⟨c, hc, hall⟩ := C03_chain env cfg hmin hinj ops hw hnz h p b hp hb
  intro t ht hr i hi
  obtain ⟨_, u, hl, hadr⟩ := hall t ht hr i hi
  have hlive := (C02_lookup_iff_live c.utxos i u).mp hl
  have key : ∀ k, k ≤ h + 1 → Conf.replay Conf.empty ((Ru.run env cfg Node.empty ops).led.blocks.take k) = .ok c →
      ∃ (q : Nat) (b' : Block) (t' : Tx) (o : Output), q ≤ h ∧
        (Ru.run env cfg Node.empty ops).led.blocks[q]? = some b' ∧ t' ∈ b'.txs ∧ t'.id = i.txId ∧
        UtxoReg.creates t' = true ∧ t'.outputs[i.index]? = some o ∧ o.address = i.address := by
    intro k hk hrk
    obtain ⟨q, b', t', hq, ht', hid, hcr, o, ho, hu⟩ := C02_replay_live_provenance c _ hrk i.txId i.index u hlive
    have hqk : q < k := by
      have := (List.getElem?_eq_some_iff.mp hq).1
      simp at this; omega
    refine ⟨q, b', t', o, by omega, ?_, ht', hid, hcr, ho, ?_⟩
    · rw [List.getElem?_take] at hq
      simpa [hqk] using hq
    · rw [hu] at hadr; exact hadr
  rcases hc with hc | hc
  · exact key h (by omega) hc
  · exact key (h + 1) (Nat.le_refl _) hc

/-- in the example chain the transaction of block 3 spends output 0 of the genesis reward `r0` of block 0 -/
example : ∃ i ∈ C05ex.tx.inputs, i.txId = "r0" ∧ i.index = 0 := ⟨_, List.mem_cons_self, rfl, rfl⟩

/-- the link between the state a block is judged against and the state it is replayed on: an output live right
    BEFORE block `h+1` is applied (state `c'`, the replay of blocks `0..h`) under an id that block `h` does not
    (re-)create is the very same output — same recipient, amount, yielding flag and creation time — in the state
    below block `h` (state `c`, the lagged state of `verify` and of the producer) -/
theorem C01_valued_is_consumed (bs : List Block) (h : Nat) (p : Block) (c c' : Conf)
    (hp : bs[h]? = some p)
    (hc : Conf.replay Conf.empty (bs.take h) = .ok c) (hc' : Conf.replay Conf.empty (bs.take (h + 1)) = .ok c')
    (i : Input) (u : Utxo) (hnr : ∀ t' ∈ p.txs, t'.id ≠ i.txId)
    (hl : UtxoReg.lookup c'.utxos.byId i = .ok u) : UtxoReg.lookup c.utxos.byId i = .ok u := by
  rw [List.take_add_one, hp, Conf.replay_append, hc] at hc'
  simp only [Option.toList_some, Conf.replay] at hc'
  unfold Conf.step at hc'
  cases hu : c.utxos.update p.txs p.ts with
  | error e => rw [hu] at hc'; cases hc'
  | ok u1 =>
    rw [hu] at hc'
    simp only [Except.ok.injEq] at hc'
    subst hc'
    obtain ⟨ha, _⟩ := UtxoReg.update_ok_iff.mp hu
    rw [C02_lookup_iff_live] at hl ⊢
    exact UtxoReg.applyTxs_live_back_other ha hnr hl

/-- **C01 for every chain, outputs VALUED = outputs CONSUMED (partial: under no re-creation).**  For a block above
    the first of a reachable chain and an ordinary transaction of it whose inputs are all live right before the block
    is applied (true of every block that gets confirmed) and none of whose input ids is (re-)created by the previous
    block: the outputs live at that moment under its references are worth, at the block's timestamp and in exact
    arithmetic, at least what the transaction pays out plus the minimal fee.  Without the no-re-creation hypothesis
    the statement is false of the code (`C01_chain_full`, known finding recreated-id). -/
theorem C01_chain_consumed_partial (env : Env) (cfg : Cfg) (hmin : 1 ≤ cfg.minFee) (hinj : Function.Injective env.hash)
    (ops : List Op) (hw : ∀ o ∈ ops, o.WF) (hnz : ∀ o ∈ ops, TickNonzero o)
    (h : Nat) (p b : Block) (c' : Conf)
    (hp : (Ru.run env cfg Node.empty ops).led.blocks[h]? = some p)
    (hb : (Ru.run env cfg Node.empty ops).led.blocks[h + 1]? = some b)
    (hc' : Conf.replay Conf.empty ((Ru.run env cfg Node.empty ops).led.blocks.take (h + 1)) = .ok c')
    (t : Tx) (ht : t ∈ b.txs) (hr : t.hasReward = false)
    (hlive : ∀ i ∈ t.inputs, ∃ u, UtxoReg.lookup c'.utxos.byId i = .ok u)
    (hnr : ∀ i ∈ t.inputs, ∀ t' ∈ p.txs, t'.id ≠ i.txId) :
    ∃ (us : List Utxo), t.inputs.map (UtxoReg.lookup c'.utxos.byId) = us.map Except.ok ∧
      (t.outputs.map (·.value)).sum + cfg.minFee
        ≤ (us.map (fun u => env.val u.out.value u.out.yielding (b.ts - u.created))).sum := by
  obtain ⟨c, hc, _, hall⟩ := C01_chain_partial env cfg hmin hinj ops hw hnz h p b hp hb
  obtain ⟨us, fee, _, hmap, _, _, hbound, _⟩ := hall t ht hr
  refine ⟨us, ?_, hbound⟩
  rcases hc with hc | hc
  · -- judged against the lagged state: transfer every lookup
    rw [← hmap]
    apply List.map_congr_left
    intro i hi
    obtain ⟨u, hu⟩ := hlive i hi
    rw [hu, C01_valued_is_consumed _ h p c c' hp hc hc' i u (hnr i hi) hu]
  · -- judged against the very state the block is replayed on
    rw [hc] at hc'
    injection hc' with hc'
    subst hc'
    exact hmap

end Ru
