/-
  Core/Props/C02chain.lean — C02 (and the one-yielding-output half of C10) for whole chains.

  C02: "In every chain a node produces or adopts, each input consumes an output that was created by a
  transaction in an earlier block of that same chain and that no other input - in an earlier block, in the
  same block, or in the same transaction - has consumed. ..."

  The batch-level theorems of Core/Props/C02.lean are lifted to `Conf.replay` (Core/Lemmas/Replay.lean) and,
  through `C07_invariant` (the confirmed state of every reachable node IS the replay of its chain minus the
  tip) and `verify_replays` (every block of an accepted candidate replays, tip included), to every chain a
  node produces or adopts.  Positions: `bs[q]? = some b`, `b.txs[k]? = some t`, `t.inputs[m]? = some i`.
-/
import Core.Lemmas.RegistryChain
import Core.Props.C02
import Core.Props.C10
import Core.Props.C07
open Std

namespace Ru
open UtxoReg RegEx

/-! ## replay level -/

/-- Cross-block double spend, exact side condition: inputs with one reference in blocks `p < q` (transactions
    `k1`, `k2`), the id not carried by a transaction later in block `p`, in a block strictly between, or in
    block `q` at a position `≤ k2`: the replay fails. -/
theorem C02_replay_cross_block_double_spend_refused_at (c : Conf) (bs : List Block) (p q k1 k2 : Nat)
    (bp bq : Block) (t1 t2 : Tx) (i j : Input) (hpq : p < q) (hp : bs[p]? = some bp) (hq : bs[q]? = some bq)
    (hk1 : bp.txs[k1]? = some t1) (hk2 : bq.txs[k2]? = some t2) (hi : i ∈ t1.inputs) (hj : j ∈ t2.inputs)
    (hid : i.txId = j.txId) (hix : i.index = j.index)
    (hneP : ∀ k' t', k1 < k' → bp.txs[k']? = some t' → t'.id ≠ i.txId)
    (hneM : ∀ r b', p < r → r < q → bs[r]? = some b' → ∀ t' ∈ b'.txs, t'.id ≠ i.txId)
    (hneQ : ∀ k' t', k' ≤ k2 → bq.txs[k']? = some t' → t'.id ≠ i.txId) :
    ∃ e, Conf.replay c bs = .error e :=
  Conf.replay_error_of_dup_at hpq hp hq hk1 hk2 hi hj hid hix hneP hneM hneQ

/-- Cross-block double spend: blocks at positions `p < q` each contain a transaction with an input of
    reference `(id, idx)`, and no transaction of `bs` has `.id = id`: the replay fails — adjacent or distant
    blocks alike, from any start state. -/
theorem C02_replay_cross_block_double_spend_refused (c : Conf) (bs : List Block) (p q : Nat) (bp bq : Block)
    (t1 t2 : Tx) (i j : Input) (id : String) (idx : Nat) (hpq : p < q) (hp : bs[p]? = some bp)
    (hq : bs[q]? = some bq) (ht1 : t1 ∈ bp.txs) (ht2 : t2 ∈ bq.txs) (hi : i ∈ t1.inputs) (hj : j ∈ t2.inputs)
    (hri : (i.txId, i.index) = (id, idx)) (hrj : (j.txId, j.index) = (id, idx))
    (hne : ∀ b ∈ bs, ∀ t ∈ b.txs, t.id ≠ id) : ∃ e, Conf.replay c bs = .error e := by
  have hi1 : i.txId = id := congrArg Prod.fst hri
  have hi2 : i.index = idx := congrArg Prod.snd hri
  have hj1 : j.txId = id := congrArg Prod.fst hrj
  have hj2 : j.index = idx := congrArg Prod.snd hrj
  obtain ⟨k1, hk1⟩ := List.mem_iff_getElem?.1 ht1
  obtain ⟨k2, hk2⟩ := List.mem_iff_getElem?.1 ht2
  refine Conf.replay_error_of_dup_at hpq hp hq hk1 hk2 hi hj (hi1.trans hj1.symm) (hi2.trans hj2.symm) ?_ ?_ ?_
  · intro k' t' _ ht'
    exact hi1 ▸ hne bp (List.mem_of_getElem? hp) t' (List.mem_of_getElem? ht')
  · intro r b' _ _ hb' t' ht'
    exact hi1 ▸ hne b' (List.mem_of_getElem? hb') t' ht'
  · intro k' t' _ ht'
    exact hi1 ▸ hne bq (List.mem_of_getElem? hq) t' (List.mem_of_getElem? ht')

example : Conf.replay Conf.empty [chB1, chB2, chB3] = .error "no-tx-id" ∧
    (Conf.replay Conf.empty [chB1, chB2]).toOption.isSome = true ∧
    (Conf.replay Conf.empty [chB1, chB3]).toOption.isSome = true ∧
    (∀ b ∈ [chB1, chB2, chB3], ∀ t ∈ b.txs, t.id ≠ "G" ∨ b = chB1) := ⟨rfl, by decide, by decide, by decide⟩
-- the hypotheses as stated (no transaction of the list carries the id): from ANY start state
example (c : Conf) : ∃ e, Conf.replay c [chB2, chB3] = .error e :=
  C02_replay_cross_block_double_spend_refused c _ 0 1 chB2 chB3 { xTxA with ts := 15 } { xTxB with ts := 25 }
    (xIn "G" 0 "X") (xIn "G" 0 "X") "G" 0
    (by decide) rfl rfl (by decide) (by decide) (by decide) (by decide) rfl rfl (by decide)
-- distant blocks, and the side condition matters only from block p on: "G" is created in block 0
example : ∃ e, Conf.replay Conf.empty [chB1, chB2, ⟨"h", none, none, 25, []⟩, chB3] = .error e := by
  refine C02_replay_cross_block_double_spend_refused_at _ _ 1 3 0 0 chB2 chB3 _ _ (xIn "G" 0 "X") (xIn "G" 0 "X")
    (by decide) rfl rfl rfl rfl (by decide) (by decide) rfl rfl ?_ ?_ ?_
  · intro k' t' hk ht
    cases k' with
    | zero => omega
    | succ k => simp [chB2] at ht
  · intro r b' h1 h2 hb t' ht'
    have : r = 2 := by omega
    subst this
    simp at hb
    subst hb
    simp at ht'
  · intro k' t' hk ht
    have : k' = 0 := by omega
    subst this
    simp [chB3] at ht
    subst ht
    decide

/-- No double spend anywhere in a list of blocks that replays: two input occurrences at different positions
    (block, transaction, input) — same transaction, same block, adjacent or distant blocks — with one
    reference force a transaction of the list to carry that id (the output was created again). -/
theorem C02_replay_no_double_spend (c c' : Conf) (bs : List Block) (h : Conf.replay c bs = .ok c')
    (q1 k1 m1 q2 k2 m2 : Nat) (b1 b2 : Block) (t1 t2 : Tx) (i j : Input)
    (hq1 : bs[q1]? = some b1) (hk1 : b1.txs[k1]? = some t1) (hm1 : t1.inputs[m1]? = some i)
    (hq2 : bs[q2]? = some b2) (hk2 : b2.txs[k2]? = some t2) (hm2 : t2.inputs[m2]? = some j)
    (hpos : (q1, k1, m1) ≠ (q2, k2, m2)) (hid : i.txId = j.txId) (hix : i.index = j.index) :
    ∃ b ∈ bs, ∃ t ∈ b.txs, t.id = i.txId := by
  apply Classical.byContradiction
  intro hnone
  have hne : ∀ b ∈ bs, ∀ t ∈ b.txs, t.id ≠ i.txId := fun b hb t ht e => hnone ⟨b, hb, t, ht, e⟩
  have hi : i ∈ t1.inputs := List.mem_of_getElem? hm1
  have hj : j ∈ t2.inputs := List.mem_of_getElem? hm2
  have ht1 : t1 ∈ b1.txs := List.mem_of_getElem? hk1
  have ht2 : t2 ∈ b2.txs := List.mem_of_getElem? hk2
  have fail : (∃ e, Conf.replay c bs = .error e) → False := by
    rintro ⟨e, he⟩; rw [he] at h; cases h
  rcases Nat.lt_trichotomy q1 q2 with hlt | heq | hgt
  · exact fail (C02_replay_cross_block_double_spend_refused c bs q1 q2 b1 b2 t1 t2 i j i.txId i.index hlt hq1 hq2
      ht1 ht2 hi hj rfl (by rw [hid, hix]) hne)
  · subst heq
    rw [hq1] at hq2; injection hq2 with hq2; subst hq2
    obtain ⟨ca, cb, hs⟩ := Conf.replay_block_ok h hq1
    have hat := (Conf.step_applyTxs hs).1
    have hneb : ∀ t ∈ b1.txs, t.id ≠ i.txId := hne b1 (List.mem_of_getElem? hq1)
    by_cases hk : k1 = k2
    · subst hk
      rw [hk1] at hk2; injection hk2 with hk2; subst hk2
      have hm : m1 ≠ m2 := fun e => hpos (by rw [e])
      obtain ⟨s1, s2, hs12⟩ := applyTxs_tx_ok hat hk1
      obtain ⟨e, he⟩ := C02_same_tx_double_spend_refused s1 t1 b1.ts m1 m2 i j hm hm1 hm2 hid hix
      rw [he] at hs12; cases hs12
    · obtain ⟨e, he⟩ := C02_same_batch_double_spend_refused ca.utxos b1.txs b1.ts k1 k2 t1 t2 i j i.txId i.index
        hk hk1 hk2 hi hj rfl (by rw [hid, hix]) hneb
      rw [he] at hat; cases hat
  · exact fail (C02_replay_cross_block_double_spend_refused c bs q2 q1 b2 b1 t2 t1 j i i.txId i.index hgt hq2 hq1
      ht2 ht1 hj hi (by rw [hid, hix]) rfl hne)

example : (Conf.replay Conf.empty [chB1, chB2]).toOption.isSome = true ∧
    [chB1, chB2][1]? = some chB2 ∧ chB2.txs[0]? = some { xTxA with ts := 15 } := by decide

/-- Every input spends an output created earlier in the replayed list: when the replay starts from the empty
    state, the input `i` of transaction `k` of block `q` refers to output `i.index` of a transaction `t'`
    with `t'.id = i.txId` that created its outputs (`creates`) and stands in a block at a position `p < q`,
    or in block `q` itself at a transaction position `k' ≤ k`.  (`k' < k`: an earlier transaction of the
    same block — the registry permits it; `verifyBlock`'s fee rule on the confirmed state is what refuses it
    for adopted blocks.  `k' = k`: the transaction's own output, because the code creates before it
    consumes; it needs a transaction whose input names the transaction's own id — impossible for sha256 ids,
    possible in the model, see the example.) -/
theorem C02_replay_input_was_created_earlier (c : Conf) (bs : List Block)
    (h : Conf.replay Conf.empty bs = .ok c) (q k : Nat) (b : Block) (t : Tx) (i : Input)
    (hq : bs[q]? = some b) (hk : b.txs[k]? = some t) (hi : i ∈ t.inputs) :
    ∃ (p : Nat) (b' : Block) (k' : Nat) (t' : Tx) (o : Output),
      bs[p]? = some b' ∧ b'.txs[k']? = some t' ∧ t'.id = i.txId ∧ creates t' = true ∧
      t'.outputs[i.index]? = some o ∧ (p < q ∨ (p = q ∧ k' ≤ k)) := by
  rcases Conf.replay_input_origin h hq hk hi with ⟨u, hu⟩ | hex
  · rw [Conf.empty_utxos, live_empty] at hu; cases hu
  · exact hex

/-- the general form, from any start state: the output was live at the start or was created as above -/
theorem C02_replay_input_origin (c c' : Conf) (bs : List Block) (h : Conf.replay c bs = .ok c')
    (q k : Nat) (b : Block) (t : Tx) (i : Input)
    (hq : bs[q]? = some b) (hk : b.txs[k]? = some t) (hi : i ∈ t.inputs) :
    (∃ u, live c.utxos i.txId i.index = some u) ∨
    ∃ (p : Nat) (b' : Block) (k' : Nat) (t' : Tx) (o : Output),
      bs[p]? = some b' ∧ b'.txs[k']? = some t' ∧ t'.id = i.txId ∧ creates t' = true ∧
      t'.outputs[i.index]? = some o ∧ (p < q ∨ (p = q ∧ k' ≤ k)) :=
  Conf.replay_input_origin h hq hk hi

example : (Conf.replay Conf.empty [chB1, chB2]).toOption.isSome = true := by decide
-- `p = q` with `k' < k` (same block, earlier transaction) and with `k' = k` (own output) both replay:
example : (Conf.replay Conf.empty [⟨zeroHash, none, none, 10, [xTxG, xTxA]⟩]).toOption.isSome = true ∧
    (Conf.replay Conf.empty [⟨zeroHash, none, none, 10, [chSelf]⟩]).toOption.isSome = true := by decide

/-- Provenance of every live output of a replay from the empty state: it is output `idx` of a transaction
    with that id in one of the blocks, stamped with that block's time. -/
theorem C02_replay_live_provenance (c : Conf) (bs : List Block) (h : Conf.replay Conf.empty bs = .ok c)
    (id : String) (idx : Nat) (v : Utxo) (hv : live c.utxos id idx = some v) :
    ∃ (p : Nat) (b : Block) (t : Tx), bs[p]? = some b ∧ t ∈ b.txs ∧ t.id = id ∧ creates t = true ∧
      ∃ o, t.outputs[idx]? = some o ∧ v = ⟨id, idx, o, b.ts⟩ := by
  rcases Conf.replay_live_provenance h hv with hl | hex
  · rw [Conf.empty_utxos, live_empty] at hl; cases hl
  · exact hex

/-! ## every reachable node: the confirmed part of its chain -/

/-- **C02 for the confirmed chain.**  In every reachable state the chain minus its tip (a) contains no double
    spend — two input occurrences at different positions with one reference force that id to be created
    again by a transaction of the chain — and (b) spends only outputs created earlier in that same chain. -/
theorem C02_chain (env : Env) (cfg : Cfg) (n : Node) (hr : Reachable env cfg n) :
    (∀ (q1 k1 m1 q2 k2 m2 : Nat) (b1 b2 : Block) (t1 t2 : Tx) (i j : Input),
        n.led.blocks.dropLast[q1]? = some b1 → b1.txs[k1]? = some t1 → t1.inputs[m1]? = some i →
        n.led.blocks.dropLast[q2]? = some b2 → b2.txs[k2]? = some t2 → t2.inputs[m2]? = some j →
        (q1, k1, m1) ≠ (q2, k2, m2) → i.txId = j.txId → i.index = j.index →
        ∃ b ∈ n.led.blocks.dropLast, ∃ t ∈ b.txs, t.id = i.txId) ∧
    (∀ (q k : Nat) (b : Block) (t : Tx) (i : Input),
        n.led.blocks.dropLast[q]? = some b → b.txs[k]? = some t → i ∈ t.inputs →
        ∃ (p : Nat) (b' : Block) (k' : Nat) (t' : Tx) (o : Output),
          n.led.blocks.dropLast[p]? = some b' ∧ b'.txs[k']? = some t' ∧ t'.id = i.txId ∧ creates t' = true ∧
          t'.outputs[i.index]? = some o ∧ (p < q ∨ (p = q ∧ k' ≤ k))) := by
  have hd : Conf.replay Conf.empty n.led.blocks.dropLast = .ok n.led.conf := C07_invariant env cfg n hr
  refine ⟨?_, ?_⟩
  · intro q1 k1 m1 q2 k2 m2 b1 b2 t1 t2 i j hq1 hk1 hm1 hq2 hk2 hm2 hpos hid hix
    exact C02_replay_no_double_spend _ _ _ hd q1 k1 m1 q2 k2 m2 b1 b2 t1 t2 i j hq1 hk1 hm1 hq2 hk2 hm2 hpos hid hix
  · intro q k b t i hq hk hi
    exact C02_replay_input_was_created_earlier _ _ hd q k b t i hq hk hi

/-- and every output a reachable node reports as spendable was created by a transaction of its confirmed
    chain -/
theorem C02_chain_live_provenance (env : Env) (cfg : Cfg) (n : Node) (hr : Reachable env cfg n)
    (id : String) (idx : Nat) (v : Utxo) (hv : live n.led.utxos id idx = some v) :
    ∃ (p : Nat) (b : Block) (t : Tx), n.led.blocks.dropLast[p]? = some b ∧ t ∈ b.txs ∧ t.id = id ∧
      creates t = true ∧ ∃ o, t.outputs[idx]? = some o ∧ v = ⟨id, idx, o, b.ts⟩ :=
  C02_replay_live_provenance n.led.conf _ (C07_invariant env cfg n hr) id idx v hv

-- a reachable node with a three-block chain (two confirmed blocks)
example : ∃ n, Reachable xEnv xCfg n ∧ n.led.blocks.length = 3 := by
  refine ⟨run xEnv xCfg Node.empty [.tick 10 [] "G", .tick 20 [] "R1", .tick 30 [] "R2"],
    ⟨_, by simp [Op.WF], rfl⟩, by decide⟩

/-! ## the tip: candidates accepted by `verify` -/

/-- **C02 for an adopted candidate, tip included.**  A block list accepted by `verify` is returned unchanged,
    ALL its blocks replay on the state verification started from, and therefore it contains no double spend
    among its own blocks (same transaction, same block, or different blocks), last block included. -/
theorem C02_tip_verified (env : Env) (cfg : Cfg) (host : Ledger) (lastHost nb oldHost v : List Block) (now : Int)
    (h : Ledger.verify env cfg host lastHost nb oldHost now = .ok v) :
    v = nb ∧ (∃ c, Conf.replay (verifyStart host oldHost).conf nb = .ok c) ∧
    (∀ (q1 k1 m1 q2 k2 m2 : Nat) (b1 b2 : Block) (t1 t2 : Tx) (i j : Input),
        nb[q1]? = some b1 → b1.txs[k1]? = some t1 → t1.inputs[m1]? = some i →
        nb[q2]? = some b2 → b2.txs[k2]? = some t2 → t2.inputs[m2]? = some j →
        (q1, k1, m1) ≠ (q2, k2, m2) → i.txId = j.txId → i.index = j.index →
        ∃ b ∈ nb, ∃ t ∈ b.txs, t.id = i.txId) ∧
    (∀ (q k : Nat) (b : Block) (t : Tx) (i : Input), nb[q]? = some b → b.txs[k]? = some t → i ∈ t.inputs →
        (∃ u, live (verifyStart host oldHost).conf.utxos i.txId i.index = some u) ∨
        ∃ (p : Nat) (b' : Block) (k' : Nat) (t' : Tx) (o : Output),
          nb[p]? = some b' ∧ b'.txs[k']? = some t' ∧ t'.id = i.txId ∧ creates t' = true ∧
          t'.outputs[i.index]? = some o ∧ (p < q ∨ (p = q ∧ k' ≤ k))) := by
  obtain ⟨hv, c, hc⟩ := verify_replays env cfg host lastHost nb oldHost v now h
  refine ⟨hv, ⟨c, hc⟩, ?_, ?_⟩
  · intro q1 k1 m1 q2 k2 m2 b1 b2 t1 t2 i j hq1 hk1 hm1 hq2 hk2 hm2 hpos hid hix
    exact C02_replay_no_double_spend _ _ _ hc q1 k1 m1 q2 k2 m2 b1 b2 t1 t2 i j hq1 hk1 hm1 hq2 hk2 hm2 hpos hid hix
  · intro q k b t i hq hk hi
    exact Conf.replay_input_origin hc hq hk hi

/-- The whole candidate chain a reachable node may adopt — its own confirmed blocks followed by the verified
    neighbour blocks (incremental sync), or the verified blocks alone (full re-sync) — replays from the
    empty state, tip included; so `C02_replay_no_double_spend` and `C02_replay_input_was_created_earlier`
    apply to it as a whole. -/
theorem C02_candidate_chain_replays (env : Env) (cfg : Cfg) (n : Node) (hr : Reachable env cfg n)
    (isFork : Bool) (now : Int) (sel : List Block) (ho : CandOrigin env cfg n.led now isFork sel)
    (hne : sel ≠ n.led.blocks) : ∃ c, Conf.replay Conf.empty sel = .ok c := by
  have hd : Conf.replay Conf.empty n.led.blocks.dropLast = .ok n.led.conf := C07_invariant env cfg n hr
  cases ho with
  | host h => exact absurd h hne
  | incremental nb hv hbs =>
    obtain ⟨_, c, hc⟩ := verify_replays env cfg n.led _ nb _ nb now hv
    have hstart : (verifyStart n.led n.led.blocks.dropLast).conf = n.led.conf := by
      unfold verifyStart
      by_cases he : n.led.blocks.dropLast.isEmpty = true
      · simp only [he, if_true]
        have : n.led.blocks.dropLast = [] := by simpa using he
        rw [this] at hd
        have hd' : Conf.empty = n.led.conf := Except.ok.inj hd
        rw [← hd']
        rfl
      · simp only [he]
        rfl
    rw [hstart] at hc
    refine ⟨c, ?_⟩
    rw [hbs, Conf.replay_append, hd]
    exact hc
  | full hf nb hv hbs =>
    obtain ⟨_, c, hc⟩ := verify_replays env cfg n.led _ nb [] nb now hv
    subst hbs
    exact ⟨c, hc⟩

/-! ## C10 along the chain: one yielding output per address -/

/-- In every reachable state no address list of the confirmed registry holds two yielding outputs. -/
theorem C10_chain_one_yielding (env : Env) (cfg : Cfg) (n : Node) (hr : Reachable env cfg n) :
    ∀ a, countYielding (n.led.utxos.utxos a) ≤ 1 := by
  have hd : Conf.replay Conf.empty n.led.blocks.dropLast = .ok n.led.conf := C07_invariant env cfg n hr
  have hinc : incomesOk n.led.conf.utxos.byAddr = true := Conf.replay_incomesOk incomesOk_empty hd
  exact fun a => countYielding_utxos_le_one hinc a

/-- In every reachable state the unconditional index invariant holds of the confirmed registry. -/
theorem C10_chain_indexed (env : Env) (cfg : Cfg) (n : Node) (hr : Reachable env cfg n) :
    IndexedW n.led.utxos :=
  Conf.replay_indexedW (c := Conf.empty) indexedW_empty (C07_invariant env cfg n hr)

/-- and, when no block of the confirmed chain contains a transaction creating a useless (zero-valued,
    non-yielding) output, the two indexes correspond exactly -/
theorem C10_chain_indexed_exact (env : Env) (cfg : Cfg) (n : Node) (hr : Reachable env cfg n)
    (huse : ∀ b ∈ n.led.blocks.dropLast, ∀ t ∈ b.txs, UsefulOutputs t) :
    IndexedS n.led.utxos ∧ Indexed n.led.utxos :=
  have := Conf.replay_indexedS (c := Conf.empty) indexedS_empty huse (C07_invariant env cfg n hr)
  ⟨this, this.toIndexed⟩

/-- **C10, first clause, for every reachable node:** no address owns two live yielding outputs in the
    confirmed state. -/
theorem C10_chain_no_two_yielding_live (env : Env) (cfg : Cfg) (n : Node) (hr : Reachable env cfg n)
    (id1 id2 : String) (idx1 idx2 : Nat) (u1 u2 : Utxo)
    (h1 : live n.led.utxos id1 idx1 = some u1) (h2 : live n.led.utxos id2 idx2 = some u2)
    (hne : (id1, idx1) ≠ (id2, idx2)) (ha : u1.out.address = u2.out.address)
    (hy1 : u1.out.yielding = true) (hy2 : u2.out.yielding = true) : False := by
  have hd : Conf.replay Conf.empty n.led.blocks.dropLast = .ok n.led.conf := C07_invariant env cfg n hr
  have hinc : incomesOk n.led.conf.utxos.byAddr = true := Conf.replay_incomesOk incomesOk_empty hd
  exact C10_no_two_yielding_live n.led.utxos (C10_chain_indexed env cfg n hr) hinc
    id1 id2 idx1 idx2 u1 u2 h1 h2 hne ha hy1 hy2

/-- the same for the whole of a candidate chain that replays (e.g. by `C02_candidate_chain_replays`) -/
theorem C10_replay_no_two_yielding_live (c : Conf) (bs : List Block) (h : Conf.replay Conf.empty bs = .ok c)
    (id1 id2 : String) (idx1 idx2 : Nat) (u1 u2 : Utxo)
    (h1 : live c.utxos id1 idx1 = some u1) (h2 : live c.utxos id2 idx2 = some u2)
    (hne : (id1, idx1) ≠ (id2, idx2)) (ha : u1.out.address = u2.out.address)
    (hy1 : u1.out.yielding = true) (hy2 : u2.out.yielding = true) : False :=
  C10_no_two_yielding_live c.utxos (Conf.replay_indexedW (c := Conf.empty) indexedW_empty h)
    (Conf.replay_incomesOk incomesOk_empty h) id1 id2 idx1 idx2 u1 u2 h1 h2 hne ha hy1 hy2

-- a reachable node whose confirmed registry holds a (yielding) genesis output
example : ∃ n, Reachable xEnv xCfg n ∧ (live n.led.utxos "G" 0).map (·.out.yielding) = some true := by
  refine ⟨run xEnv xCfg Node.empty [.tick 10 [] "G", .tick 20 [] "R1"], ⟨_, by simp [Op.WF], rfl⟩, by decide⟩

end Ru
