/-
  Core/Props/C02.lean — property C02 on the two-index output registry.

  C02: "In every chain a node produces or adopts, each input consumes an output that was created by a
  transaction in an earlier block of that same chain and that no other input - in an earlier block, in the
  same block, or in the same transaction - has consumed.  A submitted transaction that consumes an output
  already consumed by the last block or by a pooled transaction is refused admission."

  `UtxoReg.live r id idx : Option Utxo` (Core/Lemmas/Registry.lean) is the abstraction "output (id, idx) is
  spendable in r": `(r.byId[id]?).bind (fun slots => (slots[idx]?).join)`.
-/
import Core.Lemmas.Registry
open Std

namespace Ru
open UtxoReg RegEx


/-- The lookup shared by `CalculateFee` and `UpdateUtxos` succeeds exactly on live outputs, and returns them. -/
theorem C02_lookup_iff_live (r : UtxoReg) (i : Input) (u : Utxo) :
    UtxoReg.lookup r.byId i = .ok u ↔ live r i.txId i.index = some u :=
  lookup_iff_live r i u

example : UtxoReg.lookup xSt.byId (xIn "T" 1 "B") = .ok xU1 ∧ live xSt "T" 1 = some xU1 := ⟨rfl, by decide⟩

/-- A successful consumption consumed a live output. -/
theorem C02_consume_requires_live (st st' : UtxoReg) (i : Input) (h : consume st i = .ok st') :
    ∃ u, live st i.txId i.index = some u :=
  consume_ok_live h

example : ∃ st', consume xSt (xIn "T" 1 "B") = .ok st' :=
  consume_of_live (u := xU1) (by decide)

/-- A reference that is not live (unknown id, index out of range, or already consumed) is refused. -/
theorem C02_consume_refuses_dead (st : UtxoReg) (i : Input) (h : live st i.txId i.index = none) :
    ∃ e, consume st i = .error e :=
  consume_error_of_dead h

example : live xSt "T" 7 = none ∧ live xSt "Q" 0 = none ∧ live xSt2 "T" 2 = none := by decide

/-- A live reference is always consumable (the converse of `C02_consume_requires_live`). -/
theorem C02_consume_accepts_live (st : UtxoReg) (i : Input) (u : Utxo) (h : live st i.txId i.index = some u) :
    ∃ st', consume st i = .ok st' :=
  consume_of_live h

example : live xSt "G" 0 = some xG := by decide

/-- After being consumed an output is not live. -/
theorem C02_consumed_not_live (st st' : UtxoReg) (i : Input) (h : consume st i = .ok st') :
    live st' i.txId i.index = none :=
  consume_dead h

example : ∃ st', consume xSt (xIn "T" 1 "B") = .ok st' ∧ live st' "T" 1 = none := by
  obtain ⟨st', h⟩ := consume_of_live (st := xSt) (i := xIn "T" 1 "B") (u := xU1) (by decide)
  exact ⟨st', h, consume_dead h⟩

/-- Frame: consumption never creates or alters an output; every other live output stays live with the same
    content, except that when no remaining slot of the consumed id is useful (`slotLive`: value > 0 or
    yielding) the whole entry of that id is erased — then the other, useless, outputs of that id die too. -/
theorem C02_consume_frame (st st' : UtxoReg) (i : Input) (h : consume st i = .ok st') :
    (∀ id idx v, live st' id idx = some v → live st id idx = some v) ∧
    (∀ id idx v, live st id idx = some v → (id, idx) ≠ (i.txId, i.index) →
      live st' id idx = some v ∨
      (id = i.txId ∧ live st' id idx = none ∧ st'.byId[id]? = none ∧ slotLive (some v) = false ∧
        ∀ slots, st.byId[i.txId]? = some slots → ∀ s ∈ slots.set i.index none, slotLive s = false)) :=
  ⟨fun _ _ _ hv => consume_live_back h hv, fun _ _ _ hv hne => consume_live_fwd h hv hne⟩

/-- In particular a useful output (value > 0 or yielding) other than the consumed one always stays. -/
theorem C02_consume_frame_useful (st st' : UtxoReg) (i : Input) (h : consume st i = .ok st')
    (id : String) (idx : Nat) (v : Utxo) (hv : live st id idx = some v)
    (hne : (id, idx) ≠ (i.txId, i.index)) (huse : slotLive (some v) = true) : live st' id idx = some v :=
  consume_live_fwd_useful h hv hne huse

-- both cases of the frame occur: consuming (T,2) of `xSt` keeps (T,0) and (T,1); consuming (T,1) of `xSt2`
-- prunes the entry "T" and with it the zero-valued live output (T,0)
example : ∃ st', consume xSt (xIn "T" 2 "B") = .ok st' ∧ live st' "T" 0 = some xU0 ∧ live st' "T" 1 = some xU1 := by
  refine ⟨_, rfl, ?_, ?_⟩ <;> decide
example : ∃ st', consume xSt2 (xIn "T" 1 "B") = .ok st' ∧ live xSt2 "T" 0 = some xU0 ∧ live st' "T" 0 = none ∧
    st'.byId["T"]? = none := by
  refine ⟨_, rfl, ?_, ?_, ?_⟩ <;> decide

/-- Over a whole input list liveness only decreases: nothing is created or altered, and an output none of
    the inputs refers to stays unless its (useless) entry is pruned by a consumption under the same id. -/
theorem C02_consumeAll_monotone (st st' : UtxoReg) (is : List Input) (h : consumeAll st is = .ok st') :
    (∀ id idx v, live st' id idx = some v → live st id idx = some v) ∧
    (∀ i ∈ is, live st' i.txId i.index = none) ∧
    (∀ id idx v, live st id idx = some v → (∀ i ∈ is, (id, idx) ≠ (i.txId, i.index)) →
      live st' id idx = some v ∨
      (live st' id idx = none ∧ st'.byId[id]? = none ∧ slotLive (some v) = false ∧ ∃ i ∈ is, i.txId = id)) :=
  ⟨fun _ _ _ hv => consumeAll_live_back h hv, fun _ hi => consumeAll_dead h hi,
   fun _ _ _ hv hne => consumeAll_live_fwd h hv hne⟩

example : ∃ st', consumeAll xSt [xIn "T" 2 "B", xIn "G" 0 "X"] = .ok st' ∧ live st' "T" 1 = some xU1 := by
  refine ⟨_, rfl, ?_⟩; decide

/-- The same output twice among the inputs of one transaction: the transaction is refused, whatever the
    state and the time. -/
theorem C02_same_tx_double_spend_refused (st : UtxoReg) (tx : Tx) (ts : Int) (p q : Nat) (i j : Input)
    (hpq : p ≠ q) (hp : tx.inputs[p]? = some i) (hq : tx.inputs[q]? = some j)
    (hid : i.txId = j.txId) (hix : i.index = j.index) : ∃ e, applyTx st tx ts = .error e := by
  rcases Nat.lt_or_gt_of_ne hpq with h | h
  · exact applyTx_error_of_dup h hp hq hid hix
  · exact applyTx_error_of_dup h hq hp hid.symm hix.symm

example : xTxDup.inputs[0]? = some (xIn "G" 0 "X") ∧ xTxDup.inputs[1]? = some (xIn "G" 0 "X") ∧
    (applyTx xSt xTxDup 1 = .error "no-tx-id") := ⟨by decide, by decide, rfl⟩
-- the single spend is accepted by the same state
example : (applyTx xSt xTxA 1).toOption.isSome = true := by decide

/-- The same output consumed by two transactions of one batch (the transactions of one block; the replay of
    last block + pool at admission), at positions `p < q`, and not re-created by a transaction at a position
    in `(p, q]`: the batch is refused. -/
theorem C02_same_batch_double_spend_refused_at (st : UtxoReg) (txs : List Tx) (ts : Int) (p q : Nat) (t1 t2 : Tx)
    (i j : Input) (hpq : p < q) (hp : txs[p]? = some t1) (hq : txs[q]? = some t2)
    (hi : i ∈ t1.inputs) (hj : j ∈ t2.inputs) (hid : i.txId = j.txId) (hix : i.index = j.index)
    (hne : ∀ r t', p < r → r ≤ q → txs[r]? = some t' → t'.id ≠ i.txId) :
    ∃ e, applyTxs st txs ts = .error e :=
  applyTxs_error_of_dup_at hpq hp hq hi hj hid hix hne

/-- The same, in the symmetric form: two transactions at different positions, the reference `(id, idx)` not
    re-created anywhere in the batch. -/
theorem C02_same_batch_double_spend_refused (st : UtxoReg) (txs : List Tx) (ts : Int) (p q : Nat) (t1 t2 : Tx)
    (i j : Input) (id : String) (idx : Nat) (hpq : p ≠ q) (hp : txs[p]? = some t1) (hq : txs[q]? = some t2)
    (hi : i ∈ t1.inputs) (hj : j ∈ t2.inputs)
    (hri : (i.txId, i.index) = (id, idx)) (hrj : (j.txId, j.index) = (id, idx))
    (hne : ∀ t ∈ txs, t.id ≠ id) : ∃ e, applyTxs st txs ts = .error e := by
  have hi1 : i.txId = id := congrArg Prod.fst hri
  have hi2 : i.index = idx := congrArg Prod.snd hri
  have hj1 : j.txId = id := congrArg Prod.fst hrj
  have hj2 : j.index = idx := congrArg Prod.snd hrj
  rcases Nat.lt_or_gt_of_ne hpq with h | h
  · exact applyTxs_error_of_dup_at h hp hq hi hj (hi1.trans hj1.symm) (hi2.trans hj2.symm)
      (fun r t' _ _ ht' => hi1 ▸ hne t' (List.mem_of_getElem? ht'))
  · exact applyTxs_error_of_dup_at h hq hp hj hi (hj1.trans hi1.symm) (hj2.trans hi2.symm)
      (fun r t' _ _ ht' => hj1 ▸ hne t' (List.mem_of_getElem? ht'))

example : applyTxs xSt [xTxA, xTxB] 1 = .error "no-tx-id" ∧ (∀ t ∈ [xTxA, xTxB], t.id ≠ "G") ∧
    (applyTxs xSt [xTxA] 1).toOption.isSome = true ∧ (applyTxs xSt [xTxB] 1).toOption.isSome = true :=
  ⟨rfl, by decide, by decide, by decide⟩

/-- An input whose reference is not live in the state and whose id is not the id of the transaction itself
    or of an earlier transaction of the batch makes the batch fail. -/
theorem C02_unknown_output_refused (st : UtxoReg) (txs : List Tx) (ts : Int) (q : Nat) (t : Tx) (i : Input)
    (hq : txs[q]? = some t) (hi : i ∈ t.inputs) (hd : live st i.txId i.index = none)
    (hne : ∀ r t', r ≤ q → txs[r]? = some t' → t'.id ≠ i.txId) : ∃ e, applyTxs st txs ts = .error e :=
  applyTxs_error_of_dead_at hq hi hd hne

example : live UtxoReg.empty "G" 0 = none ∧ applyTxs UtxoReg.empty [xTxA] 1 = .error "no-tx-id" ∧
    (applyTxs UtxoReg.empty [xTxG, xTxA] 1).toOption.isSome = true := ⟨by decide, rfl, by decide⟩

/-- Provenance: an output that is live after a batch was live before it, or was created by a transaction of
    the batch, under that transaction's id, at the position of the output, stamped with the batch time.  (With
    the empty registry as start: every output an input can consume was created by an earlier transaction.) -/
theorem C02_live_provenance (st st' : UtxoReg) (txs : List Tx) (ts : Int) (h : applyTxs st txs ts = .ok st')
    (id : String) (idx : Nat) (v : Utxo) (hv : live st' id idx = some v) :
    live st id idx = some v ∨
    ∃ t ∈ txs, t.id = id ∧ creates t = true ∧ ∃ o, t.outputs[idx]? = some o ∧ v = ⟨id, idx, o, ts⟩ :=
  applyTxs_live_provenance h hv

example : ((applyTxs UtxoReg.empty [xTxG, xTxA] 1).toOption.bind (fun r => live r "A1" 0))
    = some ⟨"A1", 0, ⟨"Y", false, 9⟩, 1⟩ := by decide

/-- `UpdateUtxos` is all-or-nothing: either it reports an error (in Go the registry keeps its maps: the work
    is done on copies that are dropped; in the pure model `r` is simply not replaced — there is nothing to
    prove), or it returns exactly the state after all transactions, and that state passed the income check. -/
theorem C02_update_all_or_nothing (r : UtxoReg) (txs : List Tx) (ts : Int) :
    (∃ e, UtxoReg.update r txs ts = .error e) ∨
    (∃ r', UtxoReg.update r txs ts = .ok r' ∧ applyTxs r txs ts = .ok r' ∧ incomesOk r'.byAddr = true) := by
  cases h : UtxoReg.update r txs ts with
  | error e => exact Or.inl ⟨e, rfl⟩
  | ok r' => exact Or.inr ⟨r', rfl, update_ok_iff.1 h⟩

/-- and conversely -/
theorem C02_update_ok_iff (r r' : UtxoReg) (txs : List Tx) (ts : Int) :
    UtxoReg.update r txs ts = .ok r' ↔ applyTxs r txs ts = .ok r' ∧ incomesOk r'.byAddr = true :=
  update_ok_iff

example : (UtxoReg.update xSt [xTxA] 1).toOption.isSome = true ∧
    UtxoReg.update xSt [xTxA, xTxB] 1 = .error "no-tx-id" := ⟨by decide, rfl⟩

/-- A batch that `UpdateUtxos` accepts leaves every reference it consumed (and did not re-create) dead. -/
theorem C02_update_consumed_not_live (r r' : UtxoReg) (txs : List Tx) (ts : Int)
    (h : UtxoReg.update r txs ts = .ok r') (t : Tx) (ht : t ∈ txs) (j : Input) (hj : j ∈ t.inputs)
    (hne : ∀ t' ∈ txs, t'.id ≠ j.txId) : live r' j.txId j.index = none :=
  applyTxs_dead (update_ok_iff.1 h).1 ht hj hne

example : ∃ r', UtxoReg.update xSt [xTxA] 1 = .ok r' ∧ live r' "G" 0 = none := by
  have h : (UtxoReg.update xSt [xTxA] 1).toOption.isSome = true := by decide
  cases hu : UtxoReg.update xSt [xTxA] 1 with
  | error e => rw [hu] at h; cases h
  | ok r' => exact ⟨r', rfl, C02_update_consumed_not_live _ _ _ _ hu xTxA (by simp) (xIn "G" 0 "X") (by simp [xTxA]) (by decide)⟩

/-- Admission refuses a transaction one of whose inputs refers to an output that a transaction of the last
    block or a pooled transaction consumes (unless a transaction of last block ++ pool re-creates that id). -/
theorem C02_admission_refuses_consumed (env : Env) (cfg : Cfg) (n : Node) (tx : Tx) (i : Input) (t : Tx) (j : Input)
    (hi : i ∈ tx.inputs) (ht : t ∈ n.led.lastTxs ∨ t ∈ n.pool) (hj : j ∈ t.inputs)
    (hid : i.txId = j.txId) (hix : i.index = j.index)
    (hne : ∀ t' ∈ n.led.lastTxs ++ n.pool, t'.id ≠ i.txId) :
    ∃ e, Node.admitCheck env cfg n tx = .error e := by
  unfold Node.admitCheck
  dsimp only
  split
  · exact ⟨_, rfl⟩
  split
  · exact ⟨_, rfl⟩
  split
  · exact ⟨_, rfl⟩
  split
  · exact ⟨_, rfl⟩
  split
  · exact ⟨_, rfl⟩
  split
  · exact ⟨_, rfl⟩
  rename_i c1 hc1
  split
  · exact ⟨_, rfl⟩
  rename_i c2 hc2
  have hneL : ∀ t' ∈ n.led.lastTxs, t'.id ≠ j.txId :=
    fun t' h' => hid ▸ hne t' (List.mem_append_left _ h')
  have hneP : ∀ t' ∈ n.pool, t'.id ≠ j.txId :=
    fun t' h' => hid ▸ hne t' (List.mem_append_right _ h')
  have hdead : live c2 i.txId i.index = none := by
    rw [hid, hix]
    rcases ht with ht | ht
    · have h1 : live c1 j.txId j.index = none := applyTxs_dead (update_ok_iff.1 hc1).1 ht hj hneL
      cases hl : live c2 j.txId j.index with
      | none => rfl
      | some v => rw [applyTxs_live_back_other (update_ok_iff.1 hc2).1 hneP hl] at h1; cases h1
    · exact applyTxs_dead (update_ok_iff.1 hc2).1 ht hj hneP
  obtain ⟨e, he⟩ := calculateFee_error_of_dead env.val cfg.minFee (r := c2) (tx := tx)
    (n.led.lastTs + cfg.interval) hi hdead
  rw [he]
  exact ⟨e, rfl⟩

-- last-block case, pooled case, and the same transaction admitted when nobody else consumes (G,0)

example : { xTxA with ts := 15 } ∈ xNodeLast.led.lastTxs ∧
    (∀ t' ∈ xNodeLast.led.lastTxs ++ xNodeLast.pool, t'.id ≠ "G") ∧
    Node.admitCheck xEnv xCfg xNodeLast { xTxB with ts := 25 } = .error "no-tx-id" := ⟨by decide, by decide, rfl⟩
example : { xTxA with ts := 25 } ∈ xNodePool.pool ∧
    (∀ t' ∈ xNodePool.led.lastTxs ++ xNodePool.pool, t'.id ≠ "G") ∧
    Node.admitCheck xEnv xCfg xNodePool { xTxB with ts := 25 } = .error "no-tx-id" := ⟨by decide, by decide, rfl⟩
example : Node.admitCheck xEnv xCfg xNodeFree { xTxB with ts := 25 } = .ok () := rfl

end Ru
