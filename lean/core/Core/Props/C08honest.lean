/-
  Core/Props/C08honest.lean — C08's convergence with the acceptance hypothesis DISCHARGED: the hypothesis `hacc` of
  `C08_convergence_partial` ("verify accepts the honest window") is derived from "the chain `C` is acceptable from
  height 0" (`verify_window_of_full`, Core/Lemmas/Window.lean), which `C05_solo_history` establishes for every chain
  a producer builds by on-schedule ticks.  Rounds take place at times from `t0` on (before the chain's own dates its
  blocks are in the future and are rightly refused).
-/
import Core.Props.C08conv
import Core.Props.C05hist
import Core.Lemmas.Window
import Core.Lemmas.ForkRound
open Std

set_option maxRecDepth 100000

namespace Ru
open SL.SyncEx

/-- a round at a time from `t0` on -/
def C08.RoundFrom (env : Env) (cfg : Cfg) (C : List Block) (p : Nat) (targets : List String) (t0 : Int)
    (l l' : Ledger) : Prop :=
  ∃ now, t0 ≤ now ∧ l' ∈ Sync.outcomes env cfg l now (C08.honestResps C p l.blocks.length targets)

inductive C08.RoundsFrom (env : Env) (cfg : Cfg) (C : List Block) (p : Nat) (targets : List String) (t0 : Int) :
    Nat → Ledger → Ledger → Prop
  | zero (l : Ledger) : C08.RoundsFrom env cfg C p targets t0 0 l l
  | succ {j : Nat} {l l1 l2 : Ledger} : C08.RoundFrom env cfg C p targets t0 l l1 →
      C08.RoundsFrom env cfg C p targets t0 j l1 l2 → C08.RoundsFrom env cfg C p targets t0 (j + 1) l l2

/-- `C08_convergence_partial` with rounds (and the acceptance hypothesis) restricted to times from `t0` on -/
theorem C08_convergence_from (env : Env) (cfg : Cfg) (C : List Block) (p : Nat) (targets : List String) (t0 : Int)
    (hp : 2 ≤ p) (hC : Shape cfg C) (hne : targets ≠ []) (ht : ∀ t ∈ targets, t ≠ "host")
    (hacc : ∀ (host : Ledger) (k : Nat) (now : Int), t0 ≤ now → 3 ≤ k → k < C.length → host.blocks = C.take k →
      Derived host →
      Ledger.verify env cfg host host.blocks.getLast?.toList (Ledger.page p C (k - 1)) host.blocks.dropLast now
        = .ok (Ledger.page p C (k - 1))) :
    ∀ (j k : Nat) (l l' : Ledger), 3 ≤ k → k ≤ C.length → l.blocks = C.take k → Derived l →
      C08.RoundsFrom env cfg C p targets t0 j l l' →
      l'.blocks = C.take (C08.iter C.length p j k) ∧ Derived l' := by
  intro j
  induction j with
  | zero =>
    intro k l l' _ _ hl hd hr
    cases hr
    exact ⟨hl, hd⟩
  | succ j ih =>
    intro k l l' hk hkL hl hd hr
    cases hr with
    | succ hround hrest =>
      rename_i l1
      have hklen : l.blocks.length = k := by rw [hl, List.length_take]; omega
      obtain ⟨now, hnow, hm⟩ := hround
      have hd1 : Derived l1 := outcomes_derived env cfg l now _ hd l1 hm
      have hk' : 3 ≤ min C.length (k - 1 + p) := by omega
      have hkL' : min C.length (k - 1 + p) ≤ C.length := Nat.min_le_left _ _
      have hb1 : l1.blocks = C.take (min C.length (k - 1 + p)) := by
        by_cases hlt : k < C.length
        · rw [hklen] at hm
          have hresp : ∀ r ∈ C08.honestResps C p k targets, r.first = some (Ledger.page p C (k - 1)) := by
            intro r hr
            simp only [C08.honestResps, List.mem_map] at hr
            obtain ⟨t, _, rfl⟩ := hr
            rfl
          have hne' : C08.honestResps C p k targets ≠ [] := by
            intro e; apply hne
            simpa [C08.honestResps] using e
          exact C08_sync_progress_shaped env cfg l now _ C k p hk hlt hp hC hl hne' (C08.honest_targets ht) hresp
            (hacc l k now hnow hk hlt hl hd) l1 hm
        · have hkeq : k = C.length := by omega
          have hlC : l.blocks = C := by rw [hl, hkeq, List.take_length]
          have := C08_round_at_goal env cfg C p targets ht l l1 hlC ⟨now, hm⟩
          rw [this, hkeq]
          have : min C.length (C.length - 1 + p) = C.length := by omega
          rw [this, List.take_length]
      exact ih (min C.length (k - 1 + p)) l1 l' hk' hkL' hb1 hd1 hrest

/-- the acceptance hypothesis from "acceptable from height 0" -/
theorem C08_window_accepted (env : Env) (cfg : Cfg) (hI : 0 < cfg.interval) (anyhost : Ledger) (C : List Block)
    (p : Nat) (hp : 2 ≤ p) (now : Int)
    (hfull : Ledger.verify env cfg anyhost [] C [] now = .ok C)
    (host : Ledger) (k : Nat) (hk : 3 ≤ k) (hkL : k < C.length) (hb : host.blocks = C.take k) (hd : Derived host) :
    Ledger.verify env cfg host host.blocks.getLast?.toList (Ledger.page p C (k - 1)) host.blocks.dropLast now
      = .ok (Ledger.page p C (k - 1)) := by
  -- split C around the host's tip
  have hk1 : k - 1 < C.length := by omega
  obtain ⟨tip, htip⟩ : ∃ tip, C[k - 1]? = some tip := ⟨C[k - 1], List.getElem?_eq_getElem hk1⟩
  have htake : C.take k = C.take (k - 1) ++ [tip] := by
    have : k = (k - 1) + 1 := by omega
    rw [this, List.take_add_one]
    simp [htip]
  have hsplit : C = (C.take (k - 1) ++ [tip]) ++ ((C.drop k).take (p - 1) ++ (C.drop k).drop (p - 1)) := by
    rw [← htake, List.take_append_drop, List.take_append_drop]
  have hd1 : C.drop (k - 1) = tip :: C.drop k := by
    have e : C.drop (k - 1) = (C.take k ++ C.drop k).drop (k - 1) := by rw [List.take_append_drop]
    rw [e, htake, List.drop_append]
    have hl : (C.take (k - 1)).length = k - 1 := by rw [List.length_take]; omega
    simp [hl]
  have hpage : Ledger.page p C (k - 1) = tip :: (C.drop k).take (p - 1) := by
    rw [C08_page_spec, if_pos hk1, hd1]
    have : p = (p - 1) + 1 := by omega
    rw [this, List.take_succ_cons]
    simp
  have hlast : host.blocks.getLast?.toList = [tip] := by rw [hb, htake]; simp
  have hdrop : host.blocks.dropLast = C.take (k - 1) := by rw [hb, htake]; simp
  have hold : C.take (k - 1) ≠ [] := by
    intro e
    have h1 : (C.take (k - 1)).length = min (k - 1) C.length := List.length_take
    rw [e] at h1
    simp only [List.length_nil] at h1
    omega
  rw [hpage, hlast, hdrop]
  have hfull' := hfull
  rw [hsplit] at hfull'
  exact verify_window_of_full env cfg hI anyhost host (C.take (k - 1)) tip ((C.drop k).take (p - 1))
    ((C.drop k).drop (p - 1)) now hold (by rw [hb, htake]) hd hfull'

/-- **C08, convergence for chains acceptable from height 0.**  No acceptance hypothesis left: if the chain `C` the
    honest neighbours hold is acceptable from height 0 at every time from `t0` on (to some verifier comparing with no
    host block, i.e. verifying every block), then a derived node holding the first `k₀ ≥ 3` blocks of `C` holds, after
    `j` rounds at times from `t0` on — whatever the times, the neighbours' number and the map order — exactly the first
    `iter j k₀` blocks of `C`, hence `C` itself after `⌈|C| / (p − 1)⌉` rounds (`C08_convergence_rounds`). -/
theorem C08_convergence_accepted (env : Env) (cfg : Cfg) (hI : 0 < cfg.interval) (anyhost : Ledger) (C : List Block)
    (p : Nat) (targets : List String) (t0 : Int)
    (hp : 2 ≤ p) (hC : Shape cfg C) (hne : targets ≠ []) (ht : ∀ t ∈ targets, t ≠ "host")
    (hfull : AcceptedFrom env cfg anyhost [] C t0) :
    ∀ (j k : Nat) (l l' : Ledger), 3 ≤ k → k ≤ C.length → l.blocks = C.take k → Derived l →
      C08.RoundsFrom env cfg C p targets t0 j l l' →
      l'.blocks = C.take (C08.iter C.length p j k) ∧ Derived l' :=
  C08_convergence_from env cfg C p targets t0 hp hC hne ht
    (fun host k now hnow hk hkL hb hd =>
      C08_window_accepted env cfg hI anyhost C p hp now (hfull now hnow) host k hk hkL hb hd)

/-- **C08 for a solo producer's chain**: composition with `C05_solo_history` — the chain a reachable producer holds
    after any history of on-schedule ticks (from an acceptable start) is converged to by every derived node holding a
    prefix of at least three blocks, in rounds at times not before its tip. -/
theorem C08_convergence_solo (env : Env) (cfg : Cfg) (hmin : 1 ≤ cfg.minFee) (hI : 0 < cfg.interval)
    (anyhost : Ledger) (n : Node) (hn : Reachable env cfg n) (ops : List Op) (hw : ∀ o ∈ ops, o.WF)
    (ha : Along env cfg (SoloStep cfg) n ops)
    (hstart : AcceptedFrom env cfg anyhost [] n.led.blocks n.led.lastTs)
    (p : Nat) (targets : List String) (hp : 2 ≤ p) (hne : targets ≠ []) (ht : ∀ t ∈ targets, t ≠ "host")
    (hC : Shape cfg (Ru.run env cfg n ops).led.blocks) :
    ∀ (j k : Nat) (l l' : Ledger), 3 ≤ k → k ≤ (Ru.run env cfg n ops).led.blocks.length →
      l.blocks = (Ru.run env cfg n ops).led.blocks.take k → Derived l →
      C08.RoundsFrom env cfg (Ru.run env cfg n ops).led.blocks p targets (Ru.run env cfg n ops).led.lastTs j l l' →
      l'.blocks = (Ru.run env cfg n ops).led.blocks.take
        (C08.iter (Ru.run env cfg n ops).led.blocks.length p j k) ∧ Derived l' :=
  C08_convergence_accepted env cfg hI anyhost _ p targets _ hp hC hne ht
    (C05_solo_history env cfg hmin (Int.le_of_lt hI) anyhost [] ops n hn hw ha hstart)

/-- non-vacuity of the discharged hypothesis: the five-block chain of the `C05_solo_history` example is acceptable from
    height 0 at time 400; `n3` (reachable, hence derived) holds its first three blocks; it accepts the window an honest
    neighbour serves from height 2 with pages of 2 -/
example :
    let C := (Ru.run env cfg n3 [.submit C05ex.tx, .tick 240 [C05ex.tx] "r3", .tick 300 [] "r4"]).led.blocks
    Ledger.verify env cfg n3.led n3.led.blocks.getLast?.toList (Ledger.page 2 C 2) n3.led.blocks.dropLast 400
      = .ok (Ledger.page 2 C 2) := by
  intro C
  have hfull : Ledger.verify env cfg Node.empty.led [] C [] 400 = .ok C := by rfl
  exact C08_window_accepted env cfg (by decide) Node.empty.led C 2 (by decide) 400 hfull n3.led 3 (by decide) (by decide)
    (by decide) (C07_invariant env cfg n3 C05ex.reach3)

instance (cfg : Cfg) (a b : Block) : Decidable (BlockStep cfg a b) := by
  unfold BlockStep
  exact inferInstance

/-- **the first round of a node with one or two blocks** (no incremental phase: it asks every neighbour for the chain
    from height 0 and gets the first page): every outcome holds exactly the first page of `C` -/
theorem C08_short_start_round (env : Env) (cfg : Cfg) (hI : 0 < cfg.interval) (anyhost : Ledger) (C : List Block)
    (p : Nat) (targets : List String) (now : Int) (hp : 3 ≤ p) (hC : Shape cfg C) (hL : 3 ≤ C.length)
    (hne : targets ≠ []) (ht : ∀ t ∈ targets, t ≠ "host")
    (hfull : Ledger.verify env cfg anyhost [] C [] now = .ok C)
    (host : Ledger) (k : Nat) (hk1 : 1 ≤ k) (hk2 : k ≤ 2) (hklen : host.blocks.length = k) :
    ∀ l ∈ Sync.outcomes env cfg host now (C08.honestResps C p k targets), l.blocks = C.take (min C.length p) := by
  have hpage : Ledger.page p C 0 = C.take p := by
    rw [C08_page_spec, if_pos (by omega)]; simp
  have hmin : C.take (min C.length p) = C.take p := by
    rcases Nat.le_total C.length p with h | h
    · rw [Nat.min_eq_left h, List.take_of_length_le h, List.take_of_length_le (Nat.le_refl _)]
    · rw [Nat.min_eq_right h]
  have hXlen : (C.take p).length = min p C.length := List.length_take
  have hacc : Ledger.verify env cfg host host.blocks.dropLast (C.take p) [] now = .ok (C.take p) := by
    have hsplit : C = C.take p ++ C.drop p := (List.take_append_drop p C).symm
    have h1 : Ledger.verify env cfg anyhost [] (C.take p ++ C.drop p) [] now = .ok (C.take p ++ C.drop p) := by
      rw [← hsplit]; exact hfull
    exact verify_full_any host host.blocks.dropLast (verify_prefix_of_full hI (by rw [hXlen]; omega) h1)
  have hne' : C08.honestResps C p k targets ≠ [] := by
    intro e; apply hne
    simpa [C08.honestResps] using e
  have hresp : ∀ r ∈ C08.honestResps C p k targets, r.second = some (C.take p) := by
    intro r hr
    simp only [C08.honestResps, List.mem_map] at hr
    obtain ⟨t, _, rfl⟩ := hr
    show some (Ledger.page p C 0) = _
    rw [hpage]
  have hshape : Shape cfg (C.take p) := by
    intro i a b ha hb'
    rw [List.getElem?_take] at ha hb'
    split at ha
    · split at hb'
      · exact hC i a b ha hb'
      · cases hb'
    · cases ha
  rw [hmin]
  exact ProgressL.uniform_round_fork (by omega) (by omega) hne' (C08.honest_targets ht) hresp hacc
    (by rw [hXlen, hklen]; omega) (ProgressL.age_pos_of_shape hshape (by rw [hXlen]; omega))

/-- **C08 from a start of one or two blocks**: one round through the full-verification phase reaches the first page,
    then `C08_convergence_accepted` — `1 + j` rounds reach `iter j (min |C| p)` blocks; with
    `C08_convergence_rounds`, `1 + ⌈|C| / (p − 1)⌉` rounds reach `C`: the bound of the property -/
theorem C08_convergence_short_start (env : Env) (cfg : Cfg) (hI : 0 < cfg.interval) (anyhost : Ledger) (C : List Block)
    (p : Nat) (targets : List String) (t0 : Int)
    (hp : 3 ≤ p) (hC : Shape cfg C) (hL : 3 ≤ C.length) (hne : targets ≠ []) (ht : ∀ t ∈ targets, t ≠ "host")
    (hfull : AcceptedFrom env cfg anyhost [] C t0) :
    ∀ (j k : Nat) (l l' : Ledger), 1 ≤ k → k ≤ 2 → l.blocks.length = k → Derived l →
      C08.RoundsFrom env cfg C p targets t0 (j + 1) l l' →
      l'.blocks = C.take (C08.iter C.length p j (min C.length p)) ∧ Derived l' := by
  intro j k l l' hk1 hk2 hklen hd hr
  cases hr with
  | succ hround hrest =>
    rename_i l1
    obtain ⟨now, hnow, hm⟩ := hround
    rw [hklen] at hm
    have hd1 : Derived l1 := outcomes_derived env cfg l now _ hd l1 hm
    have hb1 : l1.blocks = C.take (min C.length p) :=
      C08_short_start_round env cfg hI anyhost C p targets now hp hC hL hne ht (hfull now hnow) l k hk1 hk2 hklen l1 hm
    exact C08_convergence_accepted env cfg hI anyhost C p targets t0 (by omega) hC hne ht hfull j
      (min C.length p) l1 l' (by omega) (Nat.min_le_left _ _) hb1 hd1 hrest

/-- **C08, the bound of the property, for every admissible prefix start.**  A derived node holding ANY non-empty prefix
    of `C` (one block included) holds exactly `C` after `1 + ⌈|C| / (p − 1)⌉` rounds held at times from `t0` on,
    whatever the times, the number of honest neighbours and the map order, with the state of every node that holds `C`
    (`Derived` + `C08_same_chain_same_state`); page size at least 3, `C` shaped with at least three blocks and
    acceptable from height 0 from `t0` on. -/
theorem C08_converges_within_bound (env : Env) (cfg : Cfg) (hI : 0 < cfg.interval) (anyhost : Ledger) (C : List Block)
    (p : Nat) (targets : List String) (t0 : Int)
    (hp : 3 ≤ p) (hC : Shape cfg C) (hL : 3 ≤ C.length) (hne : targets ≠ []) (ht : ∀ t ∈ targets, t ≠ "host")
    (hfull : AcceptedFrom env cfg anyhost [] C t0) :
    ∀ (k : Nat) (l l' : Ledger), 1 ≤ k → k ≤ C.length → l.blocks = C.take k → Derived l →
      C08.RoundsFrom env cfg C p targets t0 ((C.length + (p - 2)) / (p - 1) + 1) l l' →
      l'.blocks = C ∧ Derived l' := by
  intro k l l' hk1 hkL hl hd hr
  by_cases hk3 : 3 ≤ k
  · obtain ⟨hb, hd'⟩ := C08_convergence_accepted env cfg hI anyhost C p targets t0 (by omega) hC hne ht hfull _ k l l'
      hk3 hkL hl hd hr
    refine ⟨?_, hd'⟩
    rw [hb]
    show C.take (C08.iter C.length p ((C.length + (p - 2)) / (p - 1)) (min C.length (k - 1 + p))) = C
    rw [C08_convergence_rounds C.length p _ (by omega) (by omega) (Nat.min_le_left _ _), List.take_length]
  · obtain ⟨hb, hd'⟩ := C08_convergence_short_start env cfg hI anyhost C p targets t0 hp hC hL hne ht hfull _ k l l'
      hk1 (by omega) (by rw [hl, List.length_take]; omega) hd hr
    refine ⟨?_, hd'⟩
    rw [hb, C08_convergence_rounds C.length p _ (by omega) (by omega) (Nat.min_le_left _ _), List.take_length]

/-- **C08 from a private chain of one or two blocks** (ANY blocks — another first block included; the property's
    "private chain shorter than both C and the page size", for the lengths that have no incremental phase): the same
    bound -/
theorem C08_private_short_converges (env : Env) (cfg : Cfg) (hI : 0 < cfg.interval) (anyhost : Ledger) (C : List Block)
    (p : Nat) (targets : List String) (t0 : Int)
    (hp : 3 ≤ p) (hC : Shape cfg C) (hL : 3 ≤ C.length) (hne : targets ≠ []) (ht : ∀ t ∈ targets, t ≠ "host")
    (hfull : AcceptedFrom env cfg anyhost [] C t0) :
    ∀ (l l' : Ledger), 1 ≤ l.blocks.length → l.blocks.length ≤ 2 → Derived l →
      C08.RoundsFrom env cfg C p targets t0 ((C.length + (p - 2)) / (p - 1) + 1) l l' →
      l'.blocks = C ∧ Derived l' := by
  intro l l' h1 h2 hd hr
  obtain ⟨hb, hd'⟩ := C08_convergence_short_start env cfg hI anyhost C p targets t0 hp hC hL hne ht hfull _
    l.blocks.length l l' h1 h2 rfl hd hr
  refine ⟨?_, hd'⟩
  rw [hb, C08_convergence_rounds C.length p _ (by omega) (by omega) (Nat.min_le_left _ _), List.take_length]

/-- **the first round of a node holding a PRIVATE chain of three or more blocks** (shorter than `C` and than a page;
    private: the neighbours' block at the height of its tip does not sit on its own block below the tip, so every
    incremental answer is refused as a fork): every outcome holds the first page of `C` -/
theorem C08_private_long_round (env : Env) (cfg : Cfg) (hI : 0 < cfg.interval) (anyhost : Ledger) (C : List Block)
    (p : Nat) (targets : List String) (now : Int) (hp : 3 ≤ p) (hC : Shape cfg C) (hL : 3 ≤ C.length)
    (hne : targets ≠ []) (ht : ∀ t ∈ targets, t ≠ "host")
    (hfull : Ledger.verify env cfg anyhost [] C [] now = .ok C)
    (host : Ledger) (k : Nat) (hk3 : 3 ≤ k) (hkL : k < C.length) (hkp : k < p) (hklen : host.blocks.length = k)
    (tip c : Block) (htip : host.blocks.getLast? = some tip) (hc : C[k - 1]? = some c)
    (hpriv : tip.prevHash ≠ c.prevHash) :
    ∀ l ∈ Sync.outcomes env cfg host now (C08.honestResps C p k targets), l.blocks = C.take (min C.length p) := by
  have hpage : Ledger.page p C 0 = C.take p := by
    rw [C08_page_spec, if_pos (by omega)]; simp
  have hmin : C.take (min C.length p) = C.take p := by
    rcases Nat.le_total C.length p with h | h
    · rw [Nat.min_eq_left h, List.take_of_length_le h, List.take_of_length_le (Nat.le_refl _)]
    · rw [Nat.min_eq_right h]
  have hXlen : (C.take p).length = min p C.length := List.length_take
  have hacc : Ledger.verify env cfg host host.blocks.dropLast (C.take p) [] now = .ok (C.take p) := by
    have hsplit : C = C.take p ++ C.drop p := (List.take_append_drop p C).symm
    have h1 : Ledger.verify env cfg anyhost [] (C.take p ++ C.drop p) [] now = .ok (C.take p ++ C.drop p) := by
      rw [← hsplit]; exact hfull
    exact verify_full_any host host.blocks.dropLast (verify_prefix_of_full hI (by rw [hXlen]; omega) h1)
  have hne' : C08.honestResps C p k targets ≠ [] := by
    intro e; apply hne
    simpa [C08.honestResps] using e
  have hresp : ∀ r ∈ C08.honestResps C p k targets, r.second = some (C.take p) := by
    intro r hr
    simp only [C08.honestResps, List.mem_map] at hr
    obtain ⟨t, _, rfl⟩ := hr
    show some (Ledger.page p C 0) = _
    rw [hpage]
  -- every incremental answer is refused: fork
  have hrej : ∀ r ∈ C08.honestResps C p k targets, ∀ nb, r.first = some nb →
      ∃ e, Ledger.verify env cfg host host.blocks.getLast?.toList nb host.blocks.dropLast now = .error e := by
    intro r hr nb hnb
    simp only [C08.honestResps, List.mem_map] at hr
    obtain ⟨t, _, rfl⟩ := hr
    simp only [Option.some.injEq] at hnb
    subst hnb
    have hk1 : k - 1 < C.length := by omega
    have hpg : Ledger.page p C (k - 1) = (C.drop (k - 1)).take p := by rw [C08_page_spec, if_pos hk1]
    have hd1 : C.drop (k - 1) = c :: C.drop (k - 1 + 1) := by
      have hget : C[k - 1] = c := by
        have := List.getElem?_eq_getElem hk1
        rw [this] at hc
        exact Option.some.inj hc
      rw [← hget]
      exact List.drop_eq_getElem_cons hk1
    have hpg' : Ledger.page p C (k - 1) = c :: (C.drop (k - 1 + 1)).take (p - 1) := by
      rw [hpg, hd1]
      have : p = (p - 1) + 1 := by omega
      rw [this, List.take_succ_cons]
      simp
    refine ⟨"fork", ?_⟩
    rw [SL.verify_eq, htip, hpg']
    have hold : host.blocks.dropLast.isEmpty = false := by
      cases hdl : host.blocks.dropLast with
      | nil =>
        have := congrArg List.length hdl
        simp at this
        omega
      | cons _ _ => rfl
    have hfk : SL.forkCond [tip] (c :: (C.drop (k - 1 + 1)).take (p - 1)) = true := by
      simp [SL.forkCond, hpriv]
    simp only [Option.toList, hold, hfk, Bool.false_and, Bool.not_false, Bool.true_and, Bool.false_eq_true, if_false, if_true]
  have hshape : Shape cfg (C.take p) := by
    intro i a b ha hb'
    rw [List.getElem?_take] at ha hb'
    split at ha
    · split at hb'
      · exact hC i a b ha hb'
      · cases hb'
    · cases ha
  rw [hmin]
  exact ProgressL.uniform_round_fork_private (by omega) hne' (C08.honest_targets ht) hrej hresp hacc
    (by rw [hXlen, hklen]; omega) (ProgressL.age_pos_of_shape hshape (by rw [hXlen]; omega))

/-- **C08 from a private chain of three or more blocks**, shorter than `C` and than a page: the same bound -/
theorem C08_private_long_converges (env : Env) (cfg : Cfg) (hI : 0 < cfg.interval) (anyhost : Ledger) (C : List Block)
    (p : Nat) (targets : List String) (t0 : Int)
    (hp : 3 ≤ p) (hC : Shape cfg C) (hL : 3 ≤ C.length) (hne : targets ≠ []) (ht : ∀ t ∈ targets, t ≠ "host")
    (hfull : AcceptedFrom env cfg anyhost [] C t0) :
    ∀ (l l' : Ledger) (tip c : Block), 3 ≤ l.blocks.length → l.blocks.length < C.length → l.blocks.length < p →
      l.blocks.getLast? = some tip → C[l.blocks.length - 1]? = some c → tip.prevHash ≠ c.prevHash → Derived l →
      C08.RoundsFrom env cfg C p targets t0 ((C.length + (p - 2)) / (p - 1) + 1) l l' →
      l'.blocks = C ∧ Derived l' := by
  intro l l' tip c h3 hlC hlp htip hc hpriv hd hr
  cases hr with
  | succ hround hrest =>
    rename_i l1
    obtain ⟨now, hnow, hm⟩ := hround
    have hd1 : Derived l1 := outcomes_derived env cfg l now _ hd l1 hm
    have hb1 : l1.blocks = C.take (min C.length p) :=
      C08_private_long_round env cfg hI anyhost C p targets now hp hC hL hne ht (hfull now hnow) l l.blocks.length
        h3 hlC hlp rfl tip c htip hc hpriv l1 hm
    obtain ⟨hb, hd'⟩ := C08_convergence_accepted env cfg hI anyhost C p targets t0 (by omega) hC hne ht hfull _
      (min C.length p) l1 l' (by omega) (Nat.min_le_left _ _) hb1 hd1 hrest
    refine ⟨?_, hd'⟩
    rw [hb, C08_convergence_rounds C.length p _ (by omega) (by omega) (Nat.min_le_left _ _), List.take_length]

/-- a solo producer's history keeps the chain shaped (C04): `SoloStep` ticks are aligned and never on a tip dated 0 -/
theorem solo_shape (env : Env) (cfg : Cfg) (hmin : 1 ≤ cfg.minFee) (hinj : Function.Injective env.hash)
    (hI : 0 ≤ cfg.interval) :
    ∀ (ops : List Op) (n : Node), Reachable env cfg n → (∀ o ∈ ops, o.WF) → Along env cfg (SoloStep cfg) n ops →
      Shape cfg n.led.blocks → Shape cfg (Ru.run env cfg n ops).led.blocks := by
  intro ops
  induction ops with
  | nil => intro n _ _ _ h; simpa [run] using h
  | cons o os ih =>
    intro n hn hw ha hs
    obtain ⟨ho, hrest⟩ := ha
    have : Ru.run env cfg n (o :: os) = Ru.run env cfg (Ru.step env cfg n o) os := by simp [run]
    rw [this]
    have hal : TickAligned cfg n o := by
      cases o with
      | tick ts perm rid =>
        intro _
        exact ⟨1, by simpa using ho.2.1⟩
      | submit _ => trivial
      | sync _ _ _ => trivial
      | regsync _ => trivial
    have htz : TipNonzero n o := by
      cases o with
      | tick ts perm rid => intro _; exact ho.2.2.1
      | submit _ => trivial
      | sync _ _ _ => trivial
      | regsync _ => trivial
    exact ih _ (hn.next o (hw o (by simp))) (fun x hx => hw x (by simp [hx])) hrest
      (ShapeL.shape_step hmin hinj hI hn hs o (hw o (by simp)) hal htz)

/-- `C08_convergence_solo` with the shape hypothesis moved to the START of the history (injective block hash) -/
theorem C08_convergence_solo_shaped (env : Env) (cfg : Cfg) (hmin : 1 ≤ cfg.minFee) (hI : 0 < cfg.interval)
    (hinj : Function.Injective env.hash)
    (anyhost : Ledger) (n : Node) (hn : Reachable env cfg n) (ops : List Op) (hw : ∀ o ∈ ops, o.WF)
    (ha : Along env cfg (SoloStep cfg) n ops)
    (hstart : AcceptedFrom env cfg anyhost [] n.led.blocks n.led.lastTs) (hshape : Shape cfg n.led.blocks)
    (p : Nat) (targets : List String) (hp : 2 ≤ p) (hne : targets ≠ []) (ht : ∀ t ∈ targets, t ≠ "host") :
    ∀ (j k : Nat) (l l' : Ledger), 3 ≤ k → k ≤ (Ru.run env cfg n ops).led.blocks.length →
      l.blocks = (Ru.run env cfg n ops).led.blocks.take k → Derived l →
      C08.RoundsFrom env cfg (Ru.run env cfg n ops).led.blocks p targets (Ru.run env cfg n ops).led.lastTs j l l' →
      l'.blocks = (Ru.run env cfg n ops).led.blocks.take
        (C08.iter (Ru.run env cfg n ops).led.blocks.length p j k) ∧ Derived l' :=
  C08_convergence_solo env cfg hmin hI anyhost n hn ops hw ha hstart p targets hp hne ht
    (solo_shape env cfg hmin hinj (Int.le_of_lt hI) ops n hn hw ha hshape)

/-- **C08 for the chain of an on-schedule producer history, every prefix start, the property's bound** — composition of
    `C08_converges_within_bound`, `C05_solo_history` and `solo_shape`: no acceptance and no shape hypothesis about the
    final chain is left, only about the chain the history starts from -/
theorem C08_converges_within_bound_solo (env : Env) (cfg : Cfg) (hmin : 1 ≤ cfg.minFee) (hI : 0 < cfg.interval)
    (hinj : Function.Injective env.hash)
    (anyhost : Ledger) (n : Node) (hn : Reachable env cfg n) (ops : List Op) (hw : ∀ o ∈ ops, o.WF)
    (ha : Along env cfg (SoloStep cfg) n ops)
    (hstart : AcceptedFrom env cfg anyhost [] n.led.blocks n.led.lastTs) (hshape : Shape cfg n.led.blocks)
    (p : Nat) (targets : List String) (hp : 3 ≤ p) (hne : targets ≠ []) (ht : ∀ t ∈ targets, t ≠ "host")
    (hL : 3 ≤ (Ru.run env cfg n ops).led.blocks.length) :
    ∀ (k : Nat) (l l' : Ledger), 1 ≤ k → k ≤ (Ru.run env cfg n ops).led.blocks.length →
      l.blocks = (Ru.run env cfg n ops).led.blocks.take k → Derived l →
      C08.RoundsFrom env cfg (Ru.run env cfg n ops).led.blocks p targets (Ru.run env cfg n ops).led.lastTs
        (((Ru.run env cfg n ops).led.blocks.length + (p - 2)) / (p - 1) + 1) l l' →
      l'.blocks = (Ru.run env cfg n ops).led.blocks ∧ Derived l' :=
  C08_converges_within_bound env cfg hI anyhost _ p targets _ hp
    (solo_shape env cfg hmin hinj (Int.le_of_lt hI) ops n hn hw ha hshape) hL hne ht
    (C05_solo_history env cfg hmin (Int.le_of_lt hI) anyhost [] ops n hn hw ha hstart)

/-- acceptance from height 0 does not depend on who verifies: what a verifier that checks every block accepts, every
    verifier accepts (C05's "a peer that asks for the whole chain", for every peer at once) -/
theorem C05_accepted_by_every_verifier (env : Env) (cfg : Cfg) (host : Ledger) (bs : List Block) (t : Int)
    (h : AcceptedFrom env cfg host [] bs t) (host' : Ledger) (lastHost : List Block) :
    AcceptedFrom env cfg host' lastHost bs t :=
  fun now hnow => verify_full_any host' lastHost (h now hnow)

/-- a decidable form of `Shape` -/
def shapeB (cfg : Cfg) : List Block → Bool
  | a :: b :: rest => decide (BlockStep cfg a b) && shapeB cfg (b :: rest)
  | _ => true

theorem shape_of_shapeB (cfg : Cfg) : ∀ bs, shapeB cfg bs = true → Shape cfg bs
  | [], _ => ShapeL.shape_nil cfg
  | [a], _ => by
    rw [ShapeL.shape_cons]
    exact ⟨by intro c hc; simp at hc, ShapeL.shape_nil cfg⟩
  | a :: b :: rest, h => by
    simp only [shapeB, Bool.and_eq_true, decide_eq_true_eq] at h
    rw [ShapeL.shape_cons]
    refine ⟨?_, shape_of_shapeB cfg (b :: rest) h.2⟩
    intro c hc
    simp only [List.head?_cons, Option.some.injEq] at hc
    subst hc
    exact h.1

namespace C08ex
/-- the five-block chain of the `C05_solo_history` example -/
def C5 : List Block := (Ru.run env cfg n3 [.submit C05ex.tx, .tick 240 [C05ex.tx] "r3", .tick 300 [] "r4"]).led.blocks
end C08ex

open C08ex in
/-- **non-vacuity of `C08_convergence_accepted`, every hypothesis instantiated**: the five-block chain is shaped and
    acceptable from height 0 from time 300 on (`C05_solo_history`); `n3` (reachable, hence derived) holds its first
    three blocks; one round at time 400 against one honest neighbour with pages of 2 is a `RoundsFrom … 1`, and the
    theorem gives the node exactly the first four blocks. -/
example : ∃ l', C08.RoundsFrom env cfg C5 2 ["p:1"] 300 1 n3.led l' ∧ l'.blocks = C5.take 4 ∧ Derived l' := by
  have hacc3 : AcceptedFrom env cfg Node.empty.led [] n3.led.blocks n3.led.lastTs := by
    intro now hnow
    have h0 : Ledger.verify env cfg Node.empty.led [] n3.led.blocks [] 180 = .ok n3.led.blocks := by rfl
    exact Ledger.agree_verify_mono h0 (by have : n3.led.lastTs = 180 := by decide
                                          omega)
  have hw : ∀ o ∈ ([.submit C05ex.tx, .tick 240 [C05ex.tx] "r3", .tick 300 [] "r4"] : List Op), o.WF := by
    intro o ho
    simp only [List.mem_cons, List.mem_nil_iff, or_false] at ho
    rcases ho with rfl | rfl | rfl
    · simp only [Op.WF]; decide
    · simp [Op.WF]
    · simp [Op.WF]
  have ha : Along env cfg (SoloStep cfg) n3 [.submit C05ex.tx, .tick 240 [C05ex.tx] "r3", .tick 300 [] "r4"] := by
    refine ⟨trivial, ?_, ?_, trivial⟩
    · show SoloStep cfg (Ru.step env cfg n3 (.submit C05ex.tx)) (.tick 240 [C05ex.tx] "r3")
      simp only [SoloStep]
      refine ⟨by decide, by decide, by decide, by decide, by decide, by decide⟩
    · show SoloStep cfg (Ru.step env cfg (Ru.step env cfg n3 (.submit C05ex.tx)) (.tick 240 [C05ex.tx] "r3")) (.tick 300 [] "r4")
      simp only [SoloStep]
      refine ⟨by decide, by decide, by decide, by decide, by decide, by decide⟩
  have hfull : AcceptedFrom env cfg Node.empty.led [] C5 300 := by
    have h := C05_solo_history env cfg (by decide) (by decide) Node.empty.led [] _ n3 C05ex.reach3 hw ha hacc3
    have e : (Ru.run env cfg n3 [.submit C05ex.tx, .tick 240 [C05ex.tx] "r3", .tick 300 [] "r4"]).led.lastTs = 300 := by decide
    rw [e] at h
    exact h
  have hshape : Shape cfg C5 := shape_of_shapeB cfg C5 (by decide)
  have hsome : ((Sync.outcomes env cfg n3.led 400 (C08.honestResps C5 2 n3.led.blocks.length ["p:1"]))[0]?.map (·.blocks))
      = some (C5.take 4) := by decide
  obtain ⟨l', hl', hb⟩ := Option.map_eq_some_iff.mp hsome
  have hrounds : C08.RoundsFrom env cfg C5 2 ["p:1"] 300 1 n3.led l' :=
    .succ ⟨400, by decide, List.mem_of_getElem? hl'⟩ (.zero l')
  have := C08_convergence_accepted env cfg (by decide) Node.empty.led C5 2 ["p:1"] 300 (by decide) hshape (by simp)
    (by simp) hfull 1 3 n3.led l' (by decide) (by decide) (by decide) (C07_invariant env cfg n3 C05ex.reach3) hrounds
  refine ⟨l', hrounds, ?_, this.2⟩
  rw [this.1]
  decide

open C08ex in
/-- **non-vacuity of `C08_converges_within_bound`**: the node that holds only the FIRST block of the five-block chain,
    pages of 3, one honest neighbour: four rounds at time 400 exist (each an outcome of the model's `Sync.outcomes`),
    and the theorem gives exactly the five-block chain -/
example : ∃ l', C08.RoundsFrom env cfg C5 3 ["p:1"] 300 ((C5.length + (3 - 2)) / (3 - 1) + 1)
      (Ru.run env cfg Node.empty [.tick 60 [] "r0"]).led l' ∧ l'.blocks = C5 := by
  have hacc3 : AcceptedFrom env cfg Node.empty.led [] n3.led.blocks n3.led.lastTs := by
    intro now hnow
    have h0 : Ledger.verify env cfg Node.empty.led [] n3.led.blocks [] 180 = .ok n3.led.blocks := by rfl
    exact Ledger.agree_verify_mono h0 (by have : n3.led.lastTs = 180 := by decide
                                          omega)
  have hw : ∀ o ∈ ([.submit C05ex.tx, .tick 240 [C05ex.tx] "r3", .tick 300 [] "r4"] : List Op), o.WF := by
    intro o ho
    simp only [List.mem_cons, List.mem_nil_iff, or_false] at ho
    rcases ho with rfl | rfl | rfl
    · simp only [Op.WF]; decide
    · simp [Op.WF]
    · simp [Op.WF]
  have ha : Along env cfg (SoloStep cfg) n3 [.submit C05ex.tx, .tick 240 [C05ex.tx] "r3", .tick 300 [] "r4"] := by
    refine ⟨trivial, ?_, ?_, trivial⟩
    · show SoloStep cfg (Ru.step env cfg n3 (.submit C05ex.tx)) (.tick 240 [C05ex.tx] "r3")
      simp only [SoloStep]
      refine ⟨by decide, by decide, by decide, by decide, by decide, by decide⟩
    · show SoloStep cfg (Ru.step env cfg (Ru.step env cfg n3 (.submit C05ex.tx)) (.tick 240 [C05ex.tx] "r3")) (.tick 300 [] "r4")
      simp only [SoloStep]
      refine ⟨by decide, by decide, by decide, by decide, by decide, by decide⟩
  have hfull : AcceptedFrom env cfg Node.empty.led [] C5 300 := by
    have h := C05_solo_history env cfg (by decide) (by decide) Node.empty.led [] _ n3 C05ex.reach3 hw ha hacc3
    have e : (Ru.run env cfg n3 [.submit C05ex.tx, .tick 240 [C05ex.tx] "r3", .tick 300 [] "r4"]).led.lastTs = 300 := by decide
    rw [e] at h
    exact h
  have hshape : Shape cfg C5 := shape_of_shapeB cfg C5 (by decide)
  have hreach1 : Reachable env cfg (Ru.run env cfg Node.empty [.tick 60 [] "r0"]) :=
    ⟨[.tick 60 [] "r0"], by simp [Op.WF], rfl⟩
  -- four rounds, each the first outcome of the model
  have round : ∀ (l : Ledger), ∃ l1, (Sync.outcomes env cfg l 400 (C08.honestResps C5 3 l.blocks.length ["p:1"]))[0]? = some l1 := by
    intro l
    have : (Sync.outcomes env cfg l 400 (C08.honestResps C5 3 l.blocks.length ["p:1"])) ≠ [] := by
      unfold Sync.outcomes
      simp only []
      split
      · simp
      · rename_i hne
        cases h : Sync.selectionSet (Sync.choose env cfg l 400 (C08.honestResps C5 3 l.blocks.length ["p:1"])) with
        | nil => exact absurd h hne
        | cons a as => simp
    cases h : (Sync.outcomes env cfg l 400 (C08.honestResps C5 3 l.blocks.length ["p:1"])) with
    | nil => exact absurd h this
    | cons a as => exact ⟨a, by simp⟩
  obtain ⟨l1, h1⟩ := round (Ru.run env cfg Node.empty [.tick 60 [] "r0"]).led
  obtain ⟨l2, h2⟩ := round l1
  obtain ⟨l3, h3⟩ := round l2
  obtain ⟨l4, h4⟩ := round l3
  have hrounds : C08.RoundsFrom env cfg C5 3 ["p:1"] 300 4 (Ru.run env cfg Node.empty [.tick 60 [] "r0"]).led l4 :=
    .succ ⟨400, by decide, List.mem_of_getElem? h1⟩ (.succ ⟨400, by decide, List.mem_of_getElem? h2⟩
      (.succ ⟨400, by decide, List.mem_of_getElem? h3⟩ (.succ ⟨400, by decide, List.mem_of_getElem? h4⟩ (.zero l4))))
  have hlen : (C5.length + (3 - 2)) / (3 - 1) + 1 = 4 := by decide
  rw [hlen]
  refine ⟨l4, hrounds, ?_⟩
  have := C08_converges_within_bound env cfg (by decide) Node.empty.led C5 3 ["p:1"] 300 (by decide) hshape (by decide)
    (by simp) (by simp) hfull 1 _ l4 (by decide) (by decide) (by decide) (C07_invariant env cfg _ hreach1)
    (by rw [hlen]; exact hrounds)
  exact this.1

end Ru
