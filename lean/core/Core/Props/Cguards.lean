/-
  Core/Props/Cguards.lean (AddBlock, verifyBlock; addTransaction and Validate are in Cguards11.lean) — the integer GUARDS of AddBlock, verifyBlock, addTransaction and Validate, regenerated
  from the source (Gen.*Guards in Core/GenBlocks.lean: every `if` condition over timestamps and sums, Go's
  wrap-around Int64 / UInt64 arithmetic), are the conditions the model tests.

  For each function: a `_spec` theorem gives the whole regenerated list as conditions over ℤ / ℕ (under the single
  no-overflow hypothesis "previous block date + interval fits in int64", which the real settings and dates meet by
  twenty orders of magnitude), and a `_gen` theorem rewrites the MODEL function as a cascade over the regenerated
  list — so a changed operator, operand or bound in the source (`<=` for `<`, the interval dropped, the wrong
  timestamp compared) breaks a theorem here, while an equivalent rewrite does not.
-/
import Core.GenBlocks
import Core.Pool
import Core.Props.GuardsBase
open Std

namespace Ru

/-! ### AddBlock -/

theorem Gen_addBlockGuards_spec (ts prev : Int64) :
    Gen.addBlockGuards ts prev = [decide (ts.toInt ≤ prev.toInt)] := by
  simp [Gen.addBlockGuards, Int64.le_iff_toInt_le]

/-- **C04 (regenerated guard).**  `AddBlock(timestamp, …)` on a non-empty chain whose tip is dated `prev` refuses
    with "not-after-tip" when the regenerated condition holds, and goes on to confirm the tip when it does not. -/
theorem C04_addBlock_gen (env : Env) (l : Ledger) (ts prev : Int64) (txs : List Tx) (na : List String)
    (hl : l.lastTs = prev.toInt) :
    l.addBlock env ts.toInt txs na =
      if !l.blocks.isEmpty && (Gen.addBlockGuards ts prev == [true]) then .error "not-after-tip"
      else match l.confirmLast with
        | .error e => .error e
        | .ok c => .ok { c with blocks := c.blocks ++ [Ledger.mkBlock env l c ts.toInt txs na] } := by
  rw [Gen_addBlockGuards_spec]
  unfold Ledger.addBlock
  rw [hl]
  by_cases h : ts.toInt ≤ prev.toInt <;> simp [h]
  · by_cases hb : l.blocks = [] <;> simp [hb]
    cases l.confirmLast <;> rfl
  · cases l.confirmLast <;> rfl

/-! ### verifyBlock -/

theorem Gen_verifyBlockGuards_spec (prev now : Int64) (reward total : UInt64) (bts iv tts : Int64) (hi : 0 ≤ iv.toInt) :
    Gen.verifyBlockGuards prev now reward total bts iv tts =
      [decide (2 ^ 63 ≤ prev.toInt + iv.toInt), decide (bts.toInt ≠ (prev + iv).toInt), decide (bts.toInt = 0),
       decide (bts.toInt > now.toInt), decide (bts.toInt < tts.toInt), decide (tts.toInt < prev.toInt),
       decide (reward.toNat > total.toNat)] := by
  have hw : decide ((prev + iv).toInt < prev.toInt) = decide (2 ^ 63 ≤ prev.toInt + iv.toInt) :=
    decide_eq_decide.mpr (by rw [← Int64.lt_iff_toInt_lt]; exact (Int64.add_wraps_iff prev iv hi).1)
  simp only [Gen.verifyBlockGuards, Int64.bne_iff, Int64.beq_iff, Int64.toInt_zero,
    gt_iff_lt, Int64.lt_iff_toInt_lt, UInt64.lt_iff_toNat_lt, hw]

/-- what `verifyBlock` does once the block's date is accepted -/
def verifyBlockBody (env : Env) (cfg : Cfg) (l : Ledger) (b : Block) (prevTs : Int) : Except String Unit :=
  match Ledger.verifyTxs env cfg l b prevTs b.txs false 0 0 with
  | .error e => .error e
  | .ok (rewarded, reward, total) =>
    if !rewarded then .error "no-reward"
    else if reward > total then .error "reward-exceeds"
    else .ok ()

/-- **C04 (regenerated guards).**  The date conditions `verifyBlock` tests before anything else — the expected date
    `previous + interval` does not overflow int64 (fix: commit e06ad63), the block is dated exactly there, not 0, not
    after the verifier's time — are the first four conditions regenerated from the source.  No hypothesis on the
    dates: they are int64 values, whatever a neighbour sent; the interval is not negative. -/
theorem C04_verifyBlock_gen (env : Env) (cfg : Cfg) (l : Ledger) (b : Block) (prev now bts iv tts : Int64)
    (reward total : UInt64) (hb : b.ts = bts.toInt) (hi : cfg.interval = iv.toInt) (hi0 : 0 ≤ iv.toInt) :
    Ledger.verifyBlock env cfg l b prev.toInt now.toInt =
      match Gen.verifyBlockGuards prev now reward total bts iv tts with
      | true :: _ => .error "bad-block-ts"
      | _ :: true :: _ => .error "bad-block-ts"
      | _ :: _ :: true :: _ => .error "zero-block-ts"
      | _ :: _ :: _ :: true :: _ => .error "future-block"
      | _ => verifyBlockBody env cfg l b prev.toInt := by
  rw [Gen_verifyBlockGuards_spec prev now reward total bts iv tts hi0]
  have hlt := Int64.toInt_lt bts
  by_cases hov : (2 : Int) ^ 63 ≤ prev.toInt + iv.toInt
  · -- the exact sum does not fit: the code refuses on the overflow test, the model because no int64 date equals it
    rw [show decide ((2 : Int) ^ 63 ≤ prev.toInt + iv.toInt) = true from decide_eq_true hov]
    have hne : bts.toInt ≠ prev.toInt + iv.toInt := by omega
    unfold Ledger.verifyBlock
    rw [hb, hi]
    simp [hne]
  · rw [show decide ((2 : Int) ^ 63 ≤ prev.toInt + iv.toInt) = false from decide_eq_false hov]
    have hsum := (Int64.add_wraps_iff prev iv hi0).2 (by omega)
    rw [hsum]
    unfold Ledger.verifyBlock verifyBlockBody
    rw [hb, hi]
    by_cases h0 : bts.toInt = prev.toInt + iv.toInt
    · by_cases h1 : bts.toInt = 0
      · simp [h0, h1]
        rw [← h0, h1]; simp
      · by_cases h2 : bts.toInt > now.toInt
        · simp [h1, h2]
          rw [← h0]; simp [h1, h2]
        · simp [h1, h2]
          rw [← h0]; simp [h1, h2]
          rfl
    · simp [h0]

/-- **C04 (the defect behind the fix).**  Without the overflow test the regenerated date conditions were satisfied
    by a block dated `previous + interval` in WRAPPED arithmetic: first block at 2^63 − 30 s, next one "one minute
    later" at −2^63 + 30 s − 1 — not zero, not in the future.  Conditions 1–3 are false here; only condition 0 refuses. -/
example : (Gen.verifyBlockGuards 9223372006854775807 1700000100000000000 0 0 (-9223372006854775809) 60000000000
    (-9223372006854775809)).take 4 = [true, false, false, false] := by decide

/-- **C04 (regenerated guards).**  The date window of an ordinary transaction of a neighbour block — not after its
    block, not before the previous block — is conditions 4 and 5 regenerated from the source. -/
theorem C04_verifyTxs_window_gen (env : Env) (cfg : Cfg) (l : Ledger) (b : Block) (t : Tx) (rest : List Tx)
    (rewarded : Bool) (rw tot : Nat) (prev now bts iv tts : Int64) (reward total : UInt64)
    (hb : b.ts = bts.toInt) (ht : t.ts = tts.toInt) (hr : t.hasReward = false)
    (hi0 : 0 ≤ iv.toInt) :
    Ledger.verifyTxs env cfg l b prev.toInt (t :: rest) rewarded rw tot =
      match (Gen.verifyBlockGuards prev now reward total bts iv tts).drop 4 with
      | true :: _ => .error "tx-future"
      | _ :: true :: _ => .error "tx-old"
      | _ =>
        if !(t.inputs.all (·.sigValid)) then .error "bad-signature"
        else if !(Ledger.yieldsRegistered l.reg b.addedL t) then .error "yield-unregistered"
        else
          match l.utxos.calculateFee env.val cfg.minFee t b.ts with
          | .error e => .error e
          | .ok fee => Ledger.verifyTxs env cfg l b prev.toInt rest rewarded rw ((tot + fee) % U64) := by
  rw [Gen_verifyBlockGuards_spec prev now reward total bts iv tts hi0]
  rw [Ledger.verifyTxs]
  simp only [hr, Bool.false_eq_true, if_false, hb, ht, List.drop_succ_cons, List.drop_zero]
  by_cases h3 : bts.toInt < tts.toInt
  · simp [h3]
  · by_cases h4 : tts.toInt < prev.toInt
    · simp [h3, h4]
    · simp [h3, h4]
      rfl

/-- **C01 (regenerated guard).**  The last condition `verifyBlock` tests — the reward exceeds the fees collected —
    is condition 6 regenerated from the source (over Go's uint64 values). -/
theorem C01_verifyBlock_reward_gen (prev now : Int64) (reward total : UInt64) (bts iv tts : Int64)
    (hi0 : 0 ≤ iv.toInt) :
    (Gen.verifyBlockGuards prev now reward total bts iv tts)[6]? = some (decide (reward.toNat > total.toNat)) := by
  rw [Gen_verifyBlockGuards_spec prev now reward total bts iv tts hi0]
  rfl

/-! ### every branch is taken -/

example : Gen.addBlockGuards 100 100 = [true] ∧ Gen.addBlockGuards 101 100 = [false] := by decide
example : Gen.verifyBlockGuards 100 500 0 0 160 60 0 = [false, false, false, false, false, true, false] := by decide
example : Gen.verifyBlockGuards 100 150 9 8 160 60 170 = [false, false, false, true, true, false, true] := by decide

end Ru
